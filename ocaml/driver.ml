(* Driver: reads "<case> => <observation>" lines produced by apdrun, evaluates the extracted model,
   specification and judges, prints FAIL lines and a STATS line. *)
open Apd_model

(* ---------- conversions between OCaml and the extracted Coq integers ---------- *)
let pos_of_bits (bits : bool list) : positive =
  (* bits: most significant first, first element is the leading 1 *)
  match bits with
  | [] -> failwith "pos_of_bits"
  | _ :: rest -> List.fold_left (fun p b -> if b then XI p else XO p) XH rest

let hexval c =
  match c with
  | '0' .. '9' -> Char.code c - 48
  | 'a' .. 'f' -> Char.code c - 87
  | 'A' .. 'F' -> Char.code c - 55
  | _ -> failwith "hex"

let z_of_hex (s : string) : z =
  let neg, s = if String.length s > 0 && s.[0] = '-' then (true, String.sub s 1 (String.length s - 1)) else (false, s) in
  let bits = ref [] in
  String.iter (fun c -> let v = hexval c in
    bits := (v land 1 <> 0) :: (v land 2 <> 0) :: (v land 4 <> 0) :: (v land 8 <> 0) :: !bits) s;
  (* !bits is least significant ... reversed: we pushed msb-first nibbles, each nibble msb first *)
  let msb_first = List.rev !bits in
  let rec strip = function false :: t -> strip t | l -> l in
  match strip msb_first with
  | [] -> Z0
  | l -> let p = pos_of_bits l in if neg then Zneg p else Zpos p

let z_of_int (n : int) : z =
  if n = 0 then Z0 else
  let a = abs n in
  let rec bits a acc = if a = 0 then acc else bits (a lsr 1) ((a land 1 = 1) :: acc) in
  let p = pos_of_bits (bits a []) in
  if n < 0 then Zneg p else Zpos p

let rec int_of_pos = function XH -> 1 | XO p -> 2 * int_of_pos p | XI p -> 2 * int_of_pos p + 1
let int_of_z = function Z0 -> 0 | Zpos p -> int_of_pos p | Zneg p -> - (int_of_pos p)

let z_of_dec_string s = z_of_int (int_of_string s)

(* ---------- record constructors (extracted records have no constructor function) ---------- *)
let mkDec f n e c : dec = { form_of = f; neg = n; exp = e; coeff = c }
let mkCtx p ex en t r : ctx = { prec = p; emax = ex; emin = en; traps = t; rounding = r }
let mkCase o c x y e a d : acase = { a_op = o; a_ctx = c; a_x = x; a_y = y; a_e = e; a_alias = a; a_dpre = d }
let mkObs d c cr er ex xp yp cs : obs =
  { o_dec = d; o_cond = c; o_cond_raw = cr; o_err = er; o_extra = ex; o_xpost = xp; o_ypost = yp; o_ctx_same = cs }

(* ---------- decoding of the line protocol ---------- *)
let form_of_letter = function
  | "F" -> Finite | "I" -> Infinite | "S" -> NaNSignaling | "N" -> NaN
  | s -> failwith ("form " ^ s)

let illformed = ref false
let dec_of_token (s : string) : dec option =
  if s = "_" then None else
  match String.split_on_char ':' s with
  | [f; n; c; e] ->
      if String.length c > 0 && c.[0] = '-' then illformed := true;      (* a Decimal with a negative coefficient *)
      Some (mkDec (form_of_letter f) (n = "1") (z_of_dec_string e) (z_of_hex c))
  | _ -> failwith ("dec " ^ s)
let dec_req s = match dec_of_token s with Some d -> d | None -> mkDec Finite false Z0 Z0

let rounder_of_token = function
  | "down" -> RDown | "half_up" -> RHalfUp | "half_even" -> RHalfEven | "ceiling" -> RCeiling
  | "floor" -> RFloor | "half_down" -> RHalfDown | "up" -> RUp | "05up" -> R05Up | _ -> RDefault

let op_of_token = function
  | "Add" -> OAdd | "Sub" -> OSub | "Mul" -> OMul | "Quo" -> OQuo | "QuoInteger" -> OQuoInteger
  | "Rem" -> ORem | "Abs" -> OAbs | "Neg" -> ONeg | "Round" -> ORound | "Reduce" -> OReduce
  | "Quantize" -> OQuantize | "RoundToIntegralValue" -> ORtiv | "RoundToIntegralExact" -> ORtie
  | "Ceil" -> OCeil | "Floor" -> OFloor | "Cmp" -> OCmp
  | s -> failwith ("op " ^ s)

let alias_of_token = function
  | "n" -> ANone | "dx" -> ADX | "dy" -> ADY | "xy" -> AXY | "dxy" -> ADXY | s -> failwith ("alias " ^ s)

let err_of_token s =
  if s = "none" then ENone else if s = "range" then EExponentOutOfRange
  else if s = "zeroprec" then EZeroPrecision else if s = "other" then EOther
  else if String.length s > 5 && String.sub s 0 5 = "trap:" then
    ETrap (cond_of_Z (z_of_dec_string (String.sub s 5 (String.length s - 5))))
  else failwith ("err " ^ s)

let split_arrow (line : string) : string list * string list =
  let toks = String.split_on_char ' ' line in
  let rec go acc = function
    | "=>" :: rest -> (List.rev acc, rest)
    | t :: rest -> go (t :: acc) rest
    | [] -> (List.rev acc, []) in
  go [] toks

let err_eqb_none (o : obs) = (match o.o_err with ENone -> true | ETrap _ -> true | _ -> false)

(* ---------- per-property judges ---------- *)
let prop = ref "corr"
let total = ref 0
let fails = ref 0
let nontrivial = Hashtbl.create 100000
let opcount : (string, int) Hashtbl.t = Hashtbl.create 64
let bump tbl k = Hashtbl.replace tbl k (1 + (try Hashtbl.find tbl k with Not_found -> 0))

let codes_to_string l = String.concat "," (List.map (fun z -> string_of_int (int_of_z z)) l)

let report line codes =
  if codes <> [] then begin
    incr fails;
    Printf.printf "FAIL %s :: %s\n" (codes_to_string codes) line
  end

let fop_of_token = function
  | "Sqrt" -> Some FSqrt | "Cbrt" -> Some FCbrt | "Exp" -> Some FExp | "Ln" -> Some FLn
  | "Log10" -> Some FLog10 | "Pow" -> Some FPow | _ -> None

let judge_arith (lhs : string list) (rhs : string list) (line : string) =
  match lhs, rhs with
  | [_; opn; p; emax; emin; traps; rnd; x; y0; _; al; _], [d; cnd; er; extra; xpost; ypost; ctxsame]
    when !prop = "C08" && fop_of_token opn <> None ->
    let y = if al = "xy" || al = "dxy" then x else y0 in
    (* special-operand cells of the iterative functions: table + model prologue *)
    let f = (match fop_of_token opn with Some f -> f | None -> FExp) in
    let c = mkCtx (z_of_dec_string p) (z_of_dec_string emax) (z_of_dec_string emin)
              (cond_of_Z (z_of_dec_string traps)) (rounder_of_token rnd) in
    let craw = z_of_dec_string cnd in
    let o = mkObs (dec_req d) (cond_of_Z craw) craw (err_of_token er) (z_of_dec_string extra)
              (dec_of_token xpost) (dec_of_token ypost) (ctxsame = "1") in
    bump opcount opn;
    if cnd <> "0" || d <> x then Hashtbl.replace nontrivial (String.concat " " lhs) ();
    let xd = dec_req x and yd = dec_req y in
    report line (oracle_c08_fn f c xd yd o @ corr_prologue f c xd yd o
                 @ (match xpost with "_" -> [] | t -> if t = x then [] else [z_of_int 7])
                 @ (match ypost with "_" -> [] | t -> if t = y then [] else [z_of_int 7]))
  | [_; opn; p; emax; emin; traps; rnd; x; _; _; _; _], [d; cnd; er; extra; xpost; ypost; ctxsame]
    when opn = "Sqrt" || opn = "Cbrt" ->
    let c = mkCtx (z_of_dec_string p) (z_of_dec_string emax) (z_of_dec_string emin)
              (cond_of_Z (z_of_dec_string traps)) (rounder_of_token rnd) in
    let craw = z_of_dec_string cnd in
    let o = mkObs (dec_req d) (cond_of_Z craw) craw (err_of_token er) (z_of_dec_string extra)
              (dec_of_token xpost) (dec_of_token ypost) (ctxsame = "1") in
    bump opcount opn;
    if cnd <> "0" then Hashtbl.replace nontrivial (String.concat " " lhs) ();
    let xd = dec_req x in
    let k = mkCase ORound c xd xd Z0 ANone xd in      (* for the fit oracle only *)
    report line ((if opn = "Sqrt" then oracle_sqrt c xd o else oracle_cbrt c xd o)
                 @ (if !prop = "C11" then corr_root (opn = "Cbrt") c xd o else [])
                 @ (if is_finite o.o_dec && err_eqb_none o then oracle_c07 k o else [])
                 @ (match xpost with "_" -> [] | t -> if t = x then [] else [z_of_int 7]))
  | [_; opn; p; emax; emin; traps; rnd; x; y; e; al; dpre], [d; cnd; er; extra; xpost; ypost; ctxsame] ->
    let c = mkCtx (z_of_dec_string p) (z_of_dec_string emax) (z_of_dec_string emin)
              (cond_of_Z (z_of_dec_string traps)) (rounder_of_token rnd) in
    let k = mkCase (op_of_token opn) c (dec_req x) (dec_req y) (z_of_dec_string e) (alias_of_token al) (dec_req dpre) in
    let craw = z_of_dec_string cnd in
    let o = mkObs (dec_req d) (cond_of_Z craw) craw (err_of_token er) (z_of_dec_string extra)
              (dec_of_token xpost) (dec_of_token ypost) (ctxsame = "1") in
    bump opcount opn;
    if cnd <> "0" || d <> x then Hashtbl.replace nontrivial (String.concat " " lhs) ();
    let codes =
      match !prop with
      | "corr" -> corr_full k o
      | "C01" -> corr_full k o @ oracle_c01 k o
      | "C02" -> corr_full k o @ oracle_c02_arith k o @ oracle_c02_ext k o
      | "C07" -> corr_full k o @ oracle_c07 k o
      | "C19" -> corr_full k o @ (if opn = "Reduce" then oracle_ctx_reduce k o else [])
      | "C08" -> corr_full k o @ oracle_c08 k o
      | "C09" -> corr_full k o @ oracle_c09 k o
      | "C10" -> corr_full k o @ oracle_c10 k o
      | "C15" -> corr_full k o @ oracle_c15_ctx k o
      | _ -> corr_full k o in
    report line codes
  | _ -> report line [z_of_int 99]

let obs_of_fields = function
  | [d; cnd; er; extra; xpost; ypost; ctxsame] ->
      let craw = z_of_dec_string cnd in
      mkObs (dec_req d) (cond_of_Z craw) craw (err_of_token er) (z_of_dec_string extra)
        (dec_of_token xpost) (dec_of_token ypost) (ctxsame = "1")
  | _ -> failwith "obs fields"

let rec split_at (sep : string) (l : string list) : string list * string list =
  match l with
  | [] -> ([], [])
  | h :: t when h = sep -> ([], t)
  | h :: t -> let (a, b) = split_at sep t in (h :: a, b)

let edop_of_token = function
  | "Abs" -> Some EAbs | "Add" -> Some EAdd | "Ceil" -> Some ECeil | "Floor" -> Some EFloor | "Mul" -> Some EMul
  | "Neg" -> Some ENeg | "Quantize" -> Some EQuantize | "Quo" -> Some EQuo | "QuoInteger" -> Some EQuoInteger
  | "Reduce" -> Some EReduce | "Rem" -> Some ERem | "Round" -> Some ERound | "Sub" -> Some ESub
  | "RoundToIntegralValue" -> Some ERtiv | "RoundToIntegralExact" -> Some ERtie | _ -> None

let composite_ops = ["Sqrt"; "Cbrt"; "Exp"; "Ln"; "Log10"; "Pow"; "Ceil"; "Floor"]

let rec nat_of_int n = if n <= 0 then O else S (nat_of_int (n - 1))

let str_of_hex (h : string) : z list =
  if h = "-" then [] else
  let n = String.length h / 2 in
  List.init n (fun i -> z_of_int (hexval h.[2*i] * 16 + hexval h.[2*i+1]))

(* ---------- BigInt programs ---------- *)
let z_of_big_dec (s : string) : z =
  (* arbitrary-length decimal, optional sign *)
  let neg, s = if String.length s > 0 && s.[0] = '-' then (true, String.sub s 1 (String.length s - 1)) else (false, s) in
  let ten = z_of_int 10 in
  let acc = ref Z0 in
  String.iter (fun c -> acc := Z.add (Z.mul !acc ten) (z_of_int (Char.code c - 48))) s;
  if neg then Z.opp !acc else !acc

let bigstate_of_token (t : string) : bigint =
  match String.split_on_char '/' t with
  | ["i"; n; w0; w1] -> BInline (n = "1", z_of_hex w0, z_of_hex w1)
  | ["h"; v] -> BHeap (z_of_hex v)
  | _ -> failwith ("bigstate " ^ t)
let oz_of_token t = if t = "-" then None else Some (z_of_big_dec t)
let bscal_of = function
  | [sg; bl; i64; u64; vi; vu; c; ca; b0] ->
      { bs_sign = z_of_dec_string sg; bs_bitlen = z_of_dec_string bl; bs_isint64 = (i64 = "1"); bs_isuint64 = (u64 = "1");
        bs_int64 = oz_of_token vi; bs_uint64 = oz_of_token vu; bs_cmp = z_of_dec_string c; bs_cmpabs = z_of_dec_string ca;
        bs_bit0 = z_of_dec_string b0 }
  | _ -> failwith "bscal"
let rec split_all (sep : string) (l : string list) : string list list =
  match split_at sep l with
  | (a, []) -> if List.mem sep l then [a; []] else [a]
  | (a, b) -> a :: split_all sep b
let bstep_of (op : string) (d : int) (a : int) (b : int) (arg : string) : bstep option * int option =
  let n = nat_of_int in
  match op with
  | "SetInt64" -> (Some (BsSetInt64 (n d, z_of_big_dec arg)), None)
  | "SetUint64" -> (Some (BsSetUint64 (n d, z_of_big_dec arg)), None)
  | "SetDec" -> (Some (BsSetDec (n d, z_of_big_dec arg)), None)
  | "SetMath" -> (Some (BsSetMath (n d, z_of_big_dec arg)), None)
  | "Set" -> (Some (BsSet (n d, n a)), None) | "Abs" -> (Some (BsAbs (n d, n a)), None) | "Neg" -> (Some (BsNeg (n d, n a)), None)
  | "Add" -> (Some (BsAdd (n d, n a, n b)), None) | "Sub" -> (Some (BsSub (n d, n a, n b)), None)
  | "Mul" -> (Some (BsMul (n d, n a, n b)), None) | "Quo" -> (Some (BsQuo (n d, n a, n b)), None)
  | "Rem" -> (Some (BsRem (n d, n a, n b)), None)
  | "QuoRem" -> let ri = int_of_string arg in (Some (BsQuoRem (n d, n ri, n a, n b)), Some ri)
  | "DivMod" | "GCDx" | "GCDy" -> (None, Some (int_of_string arg))
  | "Lsh" -> (Some (BsLsh (n d, n a, z_of_big_dec arg)), None) | "Rsh" -> (Some (BsRsh (n d, n a, z_of_big_dec arg)), None)
  | "Sqrt" -> (Some (BsSqrt (n d, n a)), None)
  | _ -> (None, None)

(* "dec,cond,err" *)
let mres_of_token (t : string) : mres option =
  if t = "-" then None else
  match String.split_on_char ',' t with
  | [d; c; e] -> Some { m_dec = dec_req d; m_cond = cond_of_Z (z_of_dec_string c); m_err = err_of_token e }
  | _ -> failwith ("mres " ^ t)
let mres_req t = match mres_of_token t with Some r -> r | None -> failwith "mres -"

let ln10_tab : (z * z) list ref = ref []
let invln10_tab : (z * z) list ref = ref []

let judge_line (line : string) =
  incr total;
  let lhs, rhs = split_arrow line in
  match lhs, rhs with
  | _, "PANIC" :: _ -> incr fails; Printf.printf "FAIL 90 :: %s\n" line
  | "ar" :: _, _ -> judge_arith lhs rhs line
  | ["ndp"; k; delta; _sign], [n] ->
      Hashtbl.replace nontrivial (k ^ delta) ();
      bump opcount "NumDigitsPow10";
      report line (judge_numdigits_pow10 (z_of_dec_string k) (z_of_dec_string delta) (z_of_dec_string n))
  | ["nd"; b], [n] ->
      Hashtbl.replace nontrivial b ();
      report line (judge_numdigits (z_of_hex b) (z_of_dec_string n))
  | ["cm"; a; b; c], [cab; cbc; cac; tab; tba; tbc; tac; taa] ->
      let zi = z_of_dec_string in
      if cab <> "0" || tab <> "0" then Hashtbl.replace nontrivial (String.concat " " lhs) ();
      bump opcount "CmpTriple";
      report line (judge_cmp (dec_req a) (dec_req b) (dec_req c) (zi cab) (zi cbc) (zi cac) (zi tab) (zi tba) (zi tbc) (zi tac) (zi taa))
  | "tr" :: opn :: p :: emax :: emin :: traps :: _ , rhs when List.length rhs = 15 ->
      let (a, b) = split_at "|" rhs in
      let oT = obs_of_fields a and o0 = obs_of_fields b in
      bump opcount ("Traps" ^ opn);
      if List.nth a 2 <> "none" then Hashtbl.replace nontrivial (String.concat " " lhs) ();
      let comp = List.mem opn composite_ops in
      ignore p; ignore emax; ignore emin;
      let codes = oracle_c03 (cond_of_Z (z_of_dec_string traps)) comp oT o0 in
      let modelled = (try ignore (op_of_token opn); true with Failure _ -> false) in
      let corr =
        if not modelled then [] else
        (match lhs with
         | [_; opn; p; emax; emin; traps; rnd; x; y; e; al; dpre] ->
             let c = mkCtx (z_of_dec_string p) (z_of_dec_string emax) (z_of_dec_string emin)
                       (cond_of_Z (z_of_dec_string traps)) (rounder_of_token rnd) in
             let k = mkCase (op_of_token opn) c (dec_req x) (dec_req y) (z_of_dec_string e) (alias_of_token al) (dec_req dpre) in
             corr_full k oT
         | _ -> [z_of_int 99]) in
      report line (corr @ codes)
  | "rc" :: _, res :: _ ->
      bump opcount "ConcurrentRound"; Hashtbl.replace nontrivial (String.concat " " lhs) ();
      report line (if res = "ok" then [] else [z_of_int 93])
  | "al" :: opn :: _, rhs ->
      bump opcount ("Alias" ^ opn);
      (* r = dest,cond,err,extra ; on a system-limit error the destination and flags are unspecified *)
      let norm t =
        match String.split_on_char ',' t with
        | [d; c; e; x] -> if e = "range" || e = "zeroprec" || e = "other" then "*,*," ^ e ^ ",*" else (ignore (dec_of_token d); d ^ "," ^ c ^ "," ^ e ^ "," ^ x)
        | _ -> t in
      let groups = split_all ";" rhs in
      let all_same l = match List.map norm l with [] -> true | h :: t -> List.for_all (fun x -> x = h) t in
      let codes = ref [] in
      let first_a = ref "" in
      List.iter (fun g ->
        match g with
        | "A" :: rs -> (match rs with h :: _ -> first_a := norm h | [] -> ()); if not (all_same rs) then codes := z_of_int 86 :: !codes
        | "B" :: rs -> if not (all_same rs) then codes := z_of_int 86 :: !codes
        | "D" :: rs -> if not (List.for_all (fun x -> norm x = !first_a) rs) then codes := z_of_int 87 :: !codes
        | ["O"; v] -> if v <> "1" then codes := z_of_int 88 :: !codes
        | ["G"; v] -> if v <> "1" then codes := z_of_int 89 :: !codes
        | _ -> codes := z_of_int 99 :: !codes) groups;
      if List.length rhs > 12 then Hashtbl.replace nontrivial (String.concat " " lhs) ();
      report line (List.sort_uniq compare !codes)
  | ["mo2"; d], rhs ->
      bump opcount "AliasModf"; Hashtbl.replace nontrivial d ();
      let groups = split_all ";" rhs in
      (match groups with
       | [[base]; [ia]; [fa]; [inil]; [fnil]; [ianil]; [fanil]; ["O"; ok]] ->
           let pair t = match String.split_on_char ',' t with [a; b] -> (a, b) | _ -> ("?", "?") in
           let (bi, bf) = pair base in
           let c1 = (pair ia = (bi, bf)) && (pair fa = (bi, bf)) in
           let c2 = (fst (pair fnil) = bi) && (snd (pair inil) = bf) && (fst (pair ianil) = bi) && (snd (pair fanil) = bf) in
           List.iter (fun t -> let (a, b) = pair t in ignore (dec_of_token a); ignore (dec_of_token b)) [base; ia; fa];
           report line ((if c1 && c2 then [] else [z_of_int 86]) @ (if ok = "1" then [] else [z_of_int 88]))
       | _ -> report line [z_of_int 99])
  | ["dm"; opn; x], rhs ->
      bump opcount ("AliasDecimal" ^ opn); Hashtbl.replace nontrivial (opn ^ x) ();
      (match rhs with
       | [a; b; c; ";"; "O"; ok] ->
           report line ((if a = b then [] else [z_of_int 86]) @ (if a = c then [] else [z_of_int 87]) @ (if ok = "1" then [] else [z_of_int 88]))
       | _ -> report line [z_of_int 99])
  | ["xm"; p; emax; emin; traps; rnd; x; cp; n], [d; cnd; er] ->
      bump opcount "ExpModel"; if cnd <> "0" then Hashtbl.replace nontrivial (String.concat " " lhs) ();
      let c = mkCtx (z_of_dec_string p) (z_of_dec_string emax) (z_of_dec_string emin)
                (cond_of_Z (z_of_dec_string traps)) (rounder_of_token rnd) in
      let craw = z_of_dec_string cnd in
      let o = mkObs (dec_req d) (cond_of_Z craw) craw (err_of_token er) Z0 None None true in
      let xd = dec_req x in
      let k = mkCase ORound c xd xd Z0 ANone xd in
      report line (corr_exp (z_of_dec_string cp) (z_of_dec_string n) c xd o
                   @ (if is_finite o.o_dec && err_eqb_none o then oracle_c07 k o else []))
  | ["kt"; name; i; co; e], [] | ["kt"; name; i; co; e], [_] ->
      (* an entry of the rounded-constant tables of the running package (inputs of the Ln model) *)
      let tab = if name = "ln10" then ln10_tab else invln10_tab in
      let idx = int_of_string i in
      if idx = List.length !tab then tab := !tab @ [(z_of_big_dec co, z_of_dec_string e)]
      else if idx < List.length !tab then () else report line [z_of_int 99]
  | "lm" :: opn :: p :: emax :: emin :: traps :: rnd :: x :: a0 :: fl, [d; cnd; er] ->
      let c = mkCtx (z_of_dec_string p) (z_of_dec_string emax) (z_of_dec_string emin)
                (cond_of_Z (z_of_dec_string traps)) (rounder_of_token rnd) in
      let craw = z_of_dec_string cnd in
      let o = mkObs (dec_req d) (cond_of_Z craw) craw (err_of_token er) Z0 None None true in
      let xd = dec_req x in
      let lg = (opn = "Log10") in
      let rec pairs = function a :: b :: r -> (z_of_dec_string a, z_of_dec_string b) :: pairs r | _ -> [] in
      let a0d = dec_req a0 and exps = pairs fl in
      let path = ln_path !ln10_tab !invln10_tab lg a0d exps c xd in
      if path = Z0 then bump opcount (opn ^ "NotModelled")
      else begin
        bump opcount (opn ^ (if path = z_of_int 1 then "SeriesModel" else "HalleyModel"));
        Hashtbl.replace nontrivial (String.concat " " lhs) () end;
      let k = mkCase ORound c xd xd Z0 ANone xd in
      report line (corr_ln_full !ln10_tab !invln10_tab lg a0d exps c xd o @ (if is_finite o.o_dec && err_eqb_none o then oracle_c07 k o else []))
  | "pm" :: p :: emax :: emin :: traps :: rnd :: x :: y :: cp :: n :: a0 :: fl, [d; cnd; er] ->
      let c = mkCtx (z_of_dec_string p) (z_of_dec_string emax) (z_of_dec_string emin)
                (cond_of_Z (z_of_dec_string traps)) (rounder_of_token rnd) in
      let craw = z_of_dec_string cnd in
      let o = mkObs (dec_req d) (cond_of_Z craw) craw (err_of_token er) Z0 None None true in
      let xd = dec_req x and yd = dec_req y in
      let rec pairs = function a :: b :: r -> (z_of_dec_string a, z_of_dec_string b) :: pairs r | _ -> [] in
      let a0d = dec_req a0 and exps = pairs fl in
      let cpz = z_of_dec_string cp and nz = z_of_dec_string n in
      if pow_modelled !ln10_tab cpz nz a0d exps c xd yd then begin
        bump opcount "PowModel"; Hashtbl.replace nontrivial (String.concat " " lhs) () end
      else bump opcount "PowNotModelled";
      let k = mkCase ORound c xd xd Z0 ANone xd in
      report line (corr_pow !ln10_tab cpz nz a0d exps c xd yd o @ (if is_finite o.o_dec && err_eqb_none o then oracle_c07 k o else []))
  | ["gs"; _; _], [v] -> bump opcount "GlobalsSnapshot"; report line (if v = "1" then [] else [z_of_int 89])
  | ["gn"; b], [g; o] ->
      bump opcount "NumDigitsGlobals"; Hashtbl.replace nontrivial b ();
      report line ((if g = "1" then [] else [z_of_int 89]) @ (if o = "1" then [] else [z_of_int 88]))
  | ["fm"; d], rhs when List.length rhs = 27 ->
      let (outs, back) = split_at "|" rhs in
      bump opcount "Format"; Hashtbl.replace nontrivial d ();
      report line (judge_format (dec_req d) (List.map str_of_hex outs) (List.map (fun t -> if t = "err" then None else dec_of_token t) back))
  | ["fx"; d], [g; e; st; pe] ->
      bump opcount "FormatExtreme"; Hashtbl.replace nontrivial d ();
      report line (judge_format_extreme (dec_req d) (str_of_hex g) (str_of_hex e) (str_of_hex st) (str_of_hex pe))
  | ["ps"; h], rhs ->
      let (a, b) = split_at ";" rhs in
      bump opcount "Parse";
      let res = (match a with ["ok"; d; c] -> Hashtbl.replace nontrivial h (); Some (dec_req d, z_of_dec_string c) | _ -> None) in
      report line (judge_parse (str_of_hex h) res (List.for_all (fun x -> x = "1") b))
  | ["fv"; d; fl; w; verb], [out] ->
      bump opcount "FormatVerb"; Hashtbl.replace nontrivial (String.concat " " lhs) ();
      let f = int_of_string fl in
      let flags = { fl_plus = (f land 8 <> 0); fl_space = (f land 4 <> 0); fl_minus = (f land 2 <> 0); fl_zero = (f land 1 <> 0);
                    fl_width = (if w = "-" then None else Some (z_of_dec_string w)) } in
      report line (judge_format_verb (dec_req d) flags (z_of_int (Char.code verb.[0])) (str_of_hex out))
  | ["cd"; d; prev], [fm; ng; co; e; r] ->
      bump opcount "ComposeDecompose"; Hashtbl.replace nontrivial (d ^ " " ^ prev) ();
      report line (judge_compose_full (dec_req d) (dec_req prev) (z_of_dec_string fm) (ng = "1") (str_of_hex co)
                     (z_of_dec_string e) (if r = "err" then None else dec_of_token r))
  | ["cs"; p; emax; emin; traps; rnd; h], rhs ->
      bump opcount "CtxSetString";
      let c = mkCtx (z_of_dec_string p) (z_of_dec_string emax) (z_of_dec_string emin)
                (cond_of_Z (z_of_dec_string traps)) (rounder_of_token rnd) in
      let res = (match rhs with
                 | ["ok"; d; cnd; er] -> Hashtbl.replace nontrivial (String.concat " " lhs) ();
                     Some ((dec_req d, z_of_dec_string cnd), err_of_token er)
                 | _ -> None) in
      report line (judge_ctx_set_string c (str_of_hex h) res)
  | ["i6"; d], [v; dpost] ->
      bump opcount "Int64"; if v <> "err" then Hashtbl.replace nontrivial d ();
      report line (judge_int64 (dec_req d) (if v = "err" then None else Some (z_of_big_dec v)) (dec_req dpost))
  | ["sf"; x; e], [d] -> bump opcount "SetFinite"; Hashtbl.replace nontrivial (x ^ e) ();
      report line (judge_set_finite (z_of_big_dec x) (z_of_dec_string e) (dec_req d))
  | ["si"; x], [d] -> bump opcount "SetInt64"; Hashtbl.replace nontrivial x ();
      report line (judge_set_finite (z_of_big_dec x) Z0 (dec_req d))
  | ["nb"; _; _], ["MOD"] -> bump opcount "NewWithBigInt"; report line [z_of_int 88]
  | ["nb"; v; e], [d] -> bump opcount "NewWithBigInt"; Hashtbl.replace nontrivial (v ^ e) ();
      report line (judge_new_big (z_of_hex v) (z_of_dec_string e) (dec_req d))
  | ["mf"; d; variant], [i; f; dpost] ->
      bump opcount "Modf"; if i <> d then Hashtbl.replace nontrivial (d ^ variant) ();
      report line (judge_modf (dec_req d) (dec_of_token i) (dec_of_token f) (dec_req dpost))
  | ["f6"; d], bits :: refbits :: _ ->
      bump opcount "Float64"; Hashtbl.replace nontrivial d ();
      (* Float64 of a NaN decimal is outside C17's quantifier (finite decimals); strconv rejects "-NaN", "sNaN", payloads *)
      let is_nan_dec = String.length d > 1 && (d.[0] = 'N' || d.[0] = 'S') in
      report line (if bits = refbits || is_nan_dec then [] else [z_of_int 76])
  | ["s6"; bits], [d; back; shorter] ->
      bump opcount "SetFloat64"; Hashtbl.replace nontrivial bits ();
      let isnan b = (String.length b = 16 && (String.sub b 0 3 = "7ff" || String.sub b 0 3 = "fff") && String.sub b 3 13 <> "0000000000000") in
      ignore d;
      report line ((if back = bits || (isnan bits && isnan back) then [] else [z_of_int 77]) @ (if shorter = "0" then [] else [z_of_int 78]))
  | "bi" :: _n :: steps, rhs ->
      bump opcount "BigIntProgram";
      let rec parse = function
        | op :: d :: a :: b :: arg :: rest -> (op, int_of_string d, int_of_string a, int_of_string b, arg) :: parse rest
        | [] -> []
        | _ -> failwith "bi steps" in
      let prog = parse steps in
      let obs = split_all ";" rhs in
      if List.length obs <> List.length prog then report line [z_of_int 99] else begin
        let regs = ref [BInline (false, Z0, Z0); BInline (false, Z0, Z0); BInline (false, Z0, Z0); BInline (false, Z0, Z0)] in
        let codes = ref [] in
        List.iter2 (fun (op, d, a, b, arg) toks ->
          let (st, mreg) = bstep_of op d a b arg in
          let (impl, mirror) = split_at "~" toks in
          (match impl, mirror with
           | sd :: sm :: iscal, mv :: mm :: rest when List.length iscal = 9 && List.length rest = 10 ->
               let mscal = bscal_of (List.filteri (fun i _ -> i < 9) rest) in
               let textok = (List.nth rest 9 = "1") in
               let om = if sm = "-" then None else Some (bigstate_of_token sm) in
               let (cs, regs') = judge_bigstep !regs st (nat_of_int d) (nat_of_int a)
                   (match mreg with Some i -> Some (nat_of_int i) | None -> None)
                   (bigstate_of_token sd) om (bscal_of iscal) (z_of_hex mv) (if mm = "-" then None else Some (z_of_hex mm)) mscal textok in
               codes := !codes @ cs; regs := regs'
           | _ -> codes := !codes @ [z_of_int 99])) prog obs;
        if List.length prog > 3 then Hashtbl.replace nontrivial (String.concat " " lhs) ();
        report line (List.sort_uniq compare !codes)
      end
  | "ed" :: p :: emax :: emin :: traps :: rnd :: r0 :: r1 :: r2 :: r3 :: _n :: steps, rhs ->
      let (a, b) = split_at "|" rhs in
      bump opcount "ErrDecimalProgram";
      let c = mkCtx (z_of_dec_string p) (z_of_dec_string emax) (z_of_dec_string emin)
                (cond_of_Z (z_of_dec_string traps)) (rounder_of_token rnd) in
      let rec parse_steps = function
        | op :: dst :: sa :: sb :: q :: rest ->
            (match edop_of_token op, parse_steps rest with
             | Some o, Some l -> Some ({ s_op = o; s_dst = nat_of_int (int_of_string dst); s_a = nat_of_int (int_of_string sa);
                                         s_b = nat_of_int (int_of_string sb); s_q = z_of_dec_string q } :: l)
             | _, _ -> None)
        | [] -> Some []
        | _ -> failwith "ed steps" in
      let refcodes = if a = b then [] else [z_of_int 63] in
      if List.length steps > 5 then Hashtbl.replace nontrivial (String.concat " " lhs) ();
      let modelcodes =
        (match parse_steps steps, a with
         | Some prog, [q0; q1; q2; q3; fl; er; _ints] ->
             judge_ed c [dec_req r0; dec_req r1; dec_req r2; dec_req r3] prog
               [dec_req q0; dec_req q1; dec_req q2; dec_req q3] (cond_of_Z (z_of_dec_string fl)) (err_of_token er)
         | Some _, _ -> [z_of_int 99]
         | None, _ -> []) in
      report line (refcodes @ modelcodes)
  | ["md"; opn; p; emax; emin; x; y; e; mi; k], rhs when List.length rhs = 16 ->
      let c = mkCtx (z_of_dec_string p) (z_of_dec_string emax) (z_of_dec_string emin) (cond_of_Z Z0) RHalfUp in
      let arr = Array.of_list rhs in
      let rs = List.map mres_req (Array.to_list (Array.sub arr 0 8)) in
      bump opcount ("Modes" ^ opn);
      if List.exists (fun t -> t <> arr.(0)) (Array.to_list (Array.sub arr 0 8)) then Hashtbl.replace nontrivial (String.concat " " lhs) ();
      ignore x; ignore y; ignore e;
      report line (judge_modes (op_of_token opn) c (nat_of_int (int_of_string mi)) (z_of_dec_string k) rs
                     (mres_of_token arr.(9)) (mres_of_token arr.(11)) (mres_of_token arr.(13)) (mres_of_token arr.(15)))
  | ["mo"; _; _; _; _; x; y], [rx; ry] ->
      bump opcount "RoundMonotone";
      if rx <> ry then Hashtbl.replace nontrivial (String.concat " " lhs) ();
      report line (judge_mono (dec_req x) (dec_req y) (mres_req rx) (mres_req ry))
  | ["dr"; x; dpre; al], [d; n; xpost] ->
      if n <> "0" then Hashtbl.replace nontrivial x ();
      report line (judge_dec_reduce (dec_req x) (dec_req dpre) (al = "dx") (dec_req d) (z_of_dec_string n) (dec_of_token xpost))
  | _ -> incr fails; Printf.printf "FAIL 99 :: %s\n" line

let () =
  if Array.length Sys.argv > 1 then prop := Sys.argv.(1);
  (try
     while true do
       let line = input_line stdin in
       if String.length line > 0 then begin
         if String.length line > 4 && String.sub line 0 4 = "HANG" then begin
           incr total; incr fails; Printf.printf "FAIL 91 :: %s\n" line
         end else
           (try judge_line line with Failure m -> incr fails; Printf.printf "FAIL 98 %s :: %s\n" m line);
           if !illformed then begin illformed := false; incr fails; Printf.printf "FAIL 92 :: %s\n" line end
       end
     done
   with End_of_file -> ());
  let ops = Hashtbl.fold (fun k v acc -> (k ^ "=" ^ string_of_int v) :: acc) opcount [] in
  Printf.printf "STATS total=%d fails=%d nontrivial=%d ops=%s\n" !total !fails (Hashtbl.length nontrivial)
    (String.concat "," (List.sort compare ops))
