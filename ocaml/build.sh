#!/bin/sh
# Extract the model from the compiled Coq development and build the OCaml driver.
set -e
cd "$(dirname "$0")"
mkdir -p extracted
cd extracted
coqc -Q ../../coq Apd -w -extraction-opaque-accessed,-extraction-reserved-identifier ../../coq/Extract.v >/dev/null
rm -f ../../coq/Extract.vo ../../coq/Extract.glob ../../coq/.Extract.aux ../../coq/Extract.vok ../../coq/Extract.vos
coqc -Q ../../coq Apd -w -extraction-opaque-accessed,-extraction-reserved-identifier,-extraction-axiom-to-realize ../../coq/ExtractTr.v >/dev/null
rm -f ../../coq/ExtractTr.vo ../../coq/ExtractTr.glob ../../coq/.ExtractTr.aux ../../coq/ExtractTr.vok ../../coq/ExtractTr.vos
cd ..
ocamlfind ocamlopt -O2 -w -a -I extracted extracted/apd_model.mli extracted/apd_model.ml driver.ml -o ../bin/driver 2>/dev/null \
  || ocamlfind ocamlopt -w -a -I extracted extracted/apd_model.mli extracted/apd_model.ml driver.ml -o ../bin/driver
# the C12 judge (verified interval arithmetic on Z), a separate binary
ocamlfind ocamlopt -O2 -w -a -I extracted extracted/apd_transc.mli extracted/apd_transc.ml driver_tr.ml -o ../bin/driver_tr 2>/dev/null \
  || ocamlfind ocamlopt -w -a -I extracted extracted/apd_transc.mli extracted/apd_transc.ml driver_tr.ml -o ../bin/driver_tr
