#!/bin/sh
# Extract the model from the compiled Coq development and build the OCaml driver.
set -e
cd "$(dirname "$0")"
mkdir -p extracted
cd extracted
coqc -Q ../../coq Apd -w -extraction-opaque-accessed,-extraction-reserved-identifier ../../coq/Extract.v >/dev/null
rm -f ../../coq/Extract.vo ../../coq/Extract.glob ../../coq/.Extract.aux ../../coq/Extract.vok ../../coq/Extract.vos
cd ..
ocamlfind ocamlopt -O2 -w -a -I extracted extracted/apd_model.mli extracted/apd_model.ml driver.ml -o ../bin/driver 2>/dev/null \
  || ocamlfind ocamlopt -w -a -I extracted extracted/apd_model.mli extracted/apd_model.ml driver.ml -o ../bin/driver
