(* Driver: reads "<case> => <observation>" lines produced by apdrun, evaluates the extracted model,
   specification and judges, prints FAIL lines and a STATS line. *)
open Apd_transc

(* ---------- conversions between OCaml and the extracted Coq integers ---------- *)
let pos_of_bits (bits : bool list) : positive =
  (* bits: most significant first, first element is the leading 1 *)
  match bits with
  | [] -> failwith "pos_of_bits"
  | _ :: rest -> List.fold_left (fun p b -> if b then XI p else XO p) XH rest

let hexval c =
  match c with
  | '0' .. '9' -> Char.code c - 48
  | 'a' .. 'f' -> Char.code c - 87
  | 'A' .. 'F' -> Char.code c - 55
  | _ -> failwith "hex"

let z_of_hex (s : string) : z =
  let neg, s = if String.length s > 0 && s.[0] = '-' then (true, String.sub s 1 (String.length s - 1)) else (false, s) in
  let bits = ref [] in
  String.iter (fun c -> let v = hexval c in
    bits := (v land 1 <> 0) :: (v land 2 <> 0) :: (v land 4 <> 0) :: (v land 8 <> 0) :: !bits) s;
  (* !bits is least significant ... reversed: we pushed msb-first nibbles, each nibble msb first *)
  let msb_first = List.rev !bits in
  let rec strip = function false :: t -> strip t | l -> l in
  match strip msb_first with
  | [] -> Z0
  | l -> let p = pos_of_bits l in if neg then Zneg p else Zpos p

let z_of_int (n : int) : z =
  if n = 0 then Z0 else
  let a = abs n in
  let rec bits a acc = if a = 0 then acc else bits (a lsr 1) ((a land 1 = 1) :: acc) in
  let p = pos_of_bits (bits a []) in
  if n < 0 then Zneg p else Zpos p

let rec int_of_pos = function XH -> 1 | XO p -> 2 * int_of_pos p | XI p -> 2 * int_of_pos p + 1
let int_of_z = function Z0 -> 0 | Zpos p -> int_of_pos p | Zneg p -> - (int_of_pos p)

let z_of_dec_string s = z_of_int (int_of_string s)

(* ---------- record constructors (extracted records have no constructor function) ---------- *)
let mkDec f n e c : dec = { form_of = f; neg = n; exp = e; coeff = c }
let mkCtx p ex en t r : ctx = { prec = p; emax = ex; emin = en; traps = t; rounding = r }
let mkCase o c x y e a d : acase = { a_op = o; a_ctx = c; a_x = x; a_y = y; a_e = e; a_alias = a; a_dpre = d }
let mkObs d c cr er ex xp yp cs : obs =
  { o_dec = d; o_cond = c; o_cond_raw = cr; o_err = er; o_extra = ex; o_xpost = xp; o_ypost = yp; o_ctx_same = cs }

(* ---------- decoding of the line protocol ---------- *)
let form_of_letter = function
  | "F" -> Finite | "I" -> Infinite | "S" -> NaNSignaling | "N" -> NaN
  | s -> failwith ("form " ^ s)

let illformed = ref false
let dec_of_token (s : string) : dec option =
  if s = "_" then None else
  match String.split_on_char ':' s with
  | [f; n; c; e] ->
      if String.length c > 0 && c.[0] = '-' then illformed := true;      (* a Decimal with a negative coefficient *)
      Some (mkDec (form_of_letter f) (n = "1") (z_of_dec_string e) (z_of_hex c))
  | _ -> failwith ("dec " ^ s)
let dec_req s = match dec_of_token s with Some d -> d | None -> mkDec Finite false Z0 Z0

let rounder_of_token = function
  | "down" -> RDown | "half_up" -> RHalfUp | "half_even" -> RHalfEven | "ceiling" -> RCeiling
  | "floor" -> RFloor | "half_down" -> RHalfDown | "up" -> RUp | "05up" -> R05Up | _ -> RDefault

let op_of_token = function
  | "Add" -> OAdd | "Sub" -> OSub | "Mul" -> OMul | "Quo" -> OQuo | "QuoInteger" -> OQuoInteger
  | "Rem" -> ORem | "Abs" -> OAbs | "Neg" -> ONeg | "Round" -> ORound | "Reduce" -> OReduce
  | "Quantize" -> OQuantize | "RoundToIntegralValue" -> ORtiv | "RoundToIntegralExact" -> ORtie
  | "Ceil" -> OCeil | "Floor" -> OFloor | "Cmp" -> OCmp
  | s -> failwith ("op " ^ s)

let alias_of_token = function
  | "n" -> ANone | "dx" -> ADX | "dy" -> ADY | "xy" -> AXY | "dxy" -> ADXY | s -> failwith ("alias " ^ s)

let err_of_token s =
  if s = "none" then ENone else if s = "range" then EExponentOutOfRange
  else if s = "zeroprec" then EZeroPrecision else if s = "other" then EOther
  else if String.length s > 5 && String.sub s 0 5 = "trap:" then
    ETrap (cond_of_Z (z_of_dec_string (String.sub s 5 (String.length s - 5))))
  else failwith ("err " ^ s)

let split_arrow (line : string) : string list * string list =
  let toks = String.split_on_char ' ' line in
  let rec go acc = function
    | "=>" :: rest -> (List.rev acc, rest)
    | t :: rest -> go (t :: acc) rest
    | [] -> (List.rev acc, []) in
  go [] toks

let err_eqb_none (o : obs) = (match o.o_err with ENone -> true | ETrap _ -> true | _ -> false)


(* ---------- C12 judge ---------- *)
let total = ref 0
let fails = ref 0
let undecided = ref 0
let escalated = ref 0
let nontrivial = Hashtbl.create 100000
let opcount : (string, int) Hashtbl.t = Hashtbl.create 64
let bump tbl k = Hashtbl.replace tbl k (1 + (try Hashtbl.find tbl k with Not_found -> 0))
let codes_to_string l = String.concat "," (List.map (fun z -> string_of_int (int_of_z z)) l)
let report line codes =
  if codes <> [] then begin
    incr fails;
    Printf.printf "FAIL %s :: %s\n" (codes_to_string codes) line
  end

let mode = ref "C12"

let top_of_token = function
  | "Exp" -> Some TExp | "Ln" -> Some TLn | "Log10" -> Some TLog10 | "Pow" -> Some TPow | _ -> None

let is_unknown codes = List.exists (fun z -> z = Z0) codes

let judge (lhs : string list) (rhs : string list) (line : string) =
  match lhs, rhs with
  | [_; opn; p; emax; emin; traps; rnd; x; y; _; _; _], [d; cnd; er; extra; xpost; ypost; ctxsame] ->
    (match top_of_token opn with
     | None -> ()
     | Some t ->
       let c = mkCtx (z_of_dec_string p) (z_of_dec_string emax) (z_of_dec_string emin)
                 (cond_of_Z (z_of_dec_string traps)) (rounder_of_token rnd) in
       let craw = z_of_dec_string cnd in
       let o = mkObs (dec_req d) (cond_of_Z craw) craw (err_of_token er) (z_of_dec_string extra)
                 (dec_of_token xpost) (dec_of_token ypost) (ctxsame = "1") in
       bump opcount opn;
       if er = "none" && d <> x then Hashtbl.replace nontrivial (String.concat " " lhs) ();
       let xd = dec_req x and yd = dec_req y in
       let pi = int_of_string p in
       let start = 4 * pi + 64 in
       (* An error raised by a trap of a PRIVATE context (Pow runs its steps under BaseContext's traps): its bits are
          not among the caller's traps and no value was delivered - the destination holds whatever was there.  What the
          call claims is "the result overflowed" / "underflowed"; that claim is judged by reading it as the value GDA
          would deliver (Infinity, or zero at Etiny); any other private error makes no claim. *)
       let private_bits =
         if String.length er > 5 && String.sub er 0 5 = "trap:" then
           let b = int_of_string (String.sub er 5 (String.length er - 5)) in
           if b land (int_of_string traps) = 0 then Some b else None
         else None in
       let cr = int_of_string cnd in
       let (o, judged) =
         match private_bits with
         | None -> (o, true)
         | Some _ ->
             if cr land 4 <> 0 then ({ o with o_dec = dec_req "I:0:0:0" }, true)
             else if cr land 8 <> 0 then
               ({ o with o_dec = dec_req (Printf.sprintf "F:0:0:%d" (int_of_string emin - pi + 1)) }, true)
             else (o, false) in
       let rec go bits tries =
         let codes = if judged then oracle_c12 (z_of_int bits) t c xd yd o else [] in
         if is_unknown codes && tries > 0 then (incr escalated; go (bits * 2) (tries - 1)) else codes in
       (* C04 only looks for panics, hangs and ill-formed results; C07 only at the fit of the result *)
       let codes = if !mode = "C12" then go start 3 else [] in
       let hard = List.filter (fun z -> z <> Z0) codes in
       if is_unknown codes then incr undecided;
       let k = mkCase ORound c xd xd Z0 ANone xd in
       let fit = if is_finite o.o_dec && err_eqb_none o && not !illformed then oracle_c07 k o else [] in
       report line (hard @ fit
                    @ (match xpost with "_" -> [] | tk -> if tk = x then [] else [z_of_int 7])
                    @ (match ypost with "_" -> [] | tk -> if tk = y then [] else [z_of_int 7])))
  | _ -> report line [z_of_int 99]

let () =
  if Array.length Sys.argv > 1 then mode := Sys.argv.(1);
  (try
    while true do
      let line = input_line stdin in
      if line <> "" then begin
        incr total;
        illformed := false;
        if String.length line > 5 && String.sub line 0 5 = "HANG " then
          report line [z_of_int 91]
        else begin
          let lhs, rhs = split_arrow line in
          (match rhs with
           | "PANIC" :: _ -> report line [z_of_int 90]
           | _ ->
             (try judge lhs rhs line with
              | Failure m -> report (line ^ " [" ^ m ^ "]") [z_of_int 98]
              | Not_found -> report line [z_of_int 98]));
          if !illformed then report line [z_of_int 92]
        end
      end
    done
  with End_of_file -> ());
  let ops = String.concat "," (Hashtbl.fold (fun k v acc -> (k ^ "=" ^ string_of_int v) :: acc) opcount []) in
  Printf.printf "STATS total=%d fails=%d nontrivial=%d undecided=%d escalated=%d ops=%s\n" !total !fails (Hashtbl.length nontrivial) !undecided !escalated ops
