#!/usr/bin/env python3
"""Re-validate every kept seeded change against the current /repo and re-run the checks that were run
against it before (plus the property it breaks).  A change whose demonstration no longer fails on the
current tree is reported as OBSOLETE (a later fix: commit made it harmless) and left for removal."""
import glob, json, os, subprocess, sys
ROOT = os.path.dirname(os.path.dirname(os.path.abspath(__file__)))
only = sys.argv[1:]
for d in sorted(glob.glob(os.path.join(ROOT, "seeded", "*"))):
    name = os.path.basename(d)
    if only and not any(name.startswith(o) for o in only):
        continue
    m = json.load(open(os.path.join(d, "meta.json")))
    checks = sorted(set([m["breaks"]] + list(m.get("detection", {}).keys())))
    src = "/tmp/seedsrc-" + name
    subprocess.run("rm -rf %s && cp -r %s %s" % (src, d, src), shell=True)
    p = subprocess.run(["python3", os.path.join(ROOT, "tools", "seed_eval.py"), name, src, m["breaks"]] + checks,
                       text=True, stdout=subprocess.PIPE, stderr=subprocess.STDOUT)
    tail = [l for l in p.stdout.splitlines() if l.startswith("validation") or l.startswith("detected_by") or "NOT KEPT" in l]
    print(name, "|", " ".join(tail)[:400], flush=True)
    subprocess.run("rm -rf %s" % src, shell=True)
