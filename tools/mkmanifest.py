#!/usr/bin/env python3
"""Regenerate MANIFEST.json from bin/propdefs.py (single source of truth for what is claimed)."""
import json, os, sys
ROOT = os.path.dirname(os.path.dirname(os.path.abspath(__file__)))
sys.path.insert(0, os.path.join(ROOT, "bin"))
from propdefs import PROPS, NOT_APPLICABLE, HOOK_COMMITS  # noqa
checks = []
for pid in sorted(PROPS):
    p = PROPS[pid]
    if not p.get('claimed', True):
        continue
    checks.append({
        "property_id": pid,
        "quick_cmd": "bin/check %s --tier quick" % pid,
        "thorough_cmd": "bin/check %s --tier thorough" % pid,
        "evidence_file": "/verif/evidence/%s.json" % pid,
        "replay_cmd_template": "bin/check replay {path}",
        "engine": "coq-model+correspondence",
        "level_claimed": {"category": p["level"], "text": p["claim"], "design_ref": p.get("design_ref", "DESIGN.md section 8")},
        "level_note": p["note"],
        "technique": p["technique"],
    })
import json as _j
all_ids = [_j.loads(l)["id"] for l in open(os.path.join(ROOT, "properties.jsonl"))]
claimed = {c["property_id"] for c in checks}
na = list(NOT_APPLICABLE)
for pid in all_ids:
    if pid not in claimed and pid not in {n["property_id"] for n in na}:
        na.append({"property_id": pid, "reason": "not claimed yet: the check for this property is not built/validated at this commit (planned, DESIGN.md section 13); the technique itself applies"})
m = {
    "version": 1,
    "setup_cmd": "bin/check build",
    "hooks": {
        "guard": "verif",
        "enable": "go build -tags verif (module /verif/harness, replace github.com/cockroachdb/apd/v3 => /repo)",
        "baseline_off_cmd": "python3 /verif/tools/baseline_off.py",
        "source_commits": HOOK_COMMITS,
        "add_only": True,
    },
    "engines": [{"name": "coq-model+correspondence", "path": "/verif/coq, /verif/harness, /verif/ocaml, /verif/bin/check",
                 "serves_properties": sorted(k for k in PROPS if PROPS[k].get("claimed", True)),
                 "kind_free_text": "Coq 8.16 theorems about a Gallina model of apd; model tied to /repo by a go/types constant translator and a differential correspondence check (Go harness vs extracted OCaml model); extracted oracles applied to the implementation's outputs"}],
    "checks": checks,
    "not_applicable": na,
    "notes": "See DESIGN.md. known_findings.json lists recorded and fixed findings; seeded/ holds confirmed breaking changes used for calibration.",
}
json.dump(m, open(os.path.join(ROOT, "MANIFEST.json"), "w"), indent=1)
print("MANIFEST.json written:", len(checks), "checks")
