#!/usr/bin/env python3
"""Validate a candidate seeded change and measure which checks catch it.

  tools/seed_eval.py <name> <srcdir> <breaks> [check ...]

<srcdir> holds patch.diff, demo_test.go, notes.md (as delivered by a sub-agent).  Steps:
 1. in a scratch worktree of /repo (under /tmp, removed afterwards): the demo passes without the
    patch; with the patch the package builds, the full suite passes and the demo fails;
 2. the change is stored as /verif/seeded/<name>/ (patch.diff, demo_test.go, notes.md, meta.json);
 3. the patch is applied to /repo, the listed checks (default: the property it breaks) are run in
    the quick tier, and the patch is undone straight afterwards; results go into meta.json.
"""
import json, os, re, shutil, subprocess, sys, time
ROOT = os.path.dirname(os.path.dirname(os.path.abspath(__file__)))
env = dict(os.environ, GOFLAGS="-mod=mod", GOPROXY="off", GOSUMDB="off", GOTOOLCHAIN="local")

def sh(cmd, cwd=None, timeout=3600):
    p = subprocess.run(cmd, shell=True, cwd=cwd, env=env, text=True, stdout=subprocess.PIPE, stderr=subprocess.STDOUT, timeout=timeout)
    return p.returncode, p.stdout

def main():
    name, src, breaks = sys.argv[1], sys.argv[2], sys.argv[3]
    checks = [breaks] + [c for c in sys.argv[4:] if c != breaks]
    patch = os.path.join(src, "patch.diff")
    demo = os.path.join(src, "demo_test.go")
    m = re.search(r"func (Test\w+)\(", open(demo).read())
    tname = m.group(1)
    wt = "/tmp/seedwt-%s-%d" % (name, os.getpid())
    meta = {"name": name, "breaks": breaks, "demo_test": tname, "validated": {}, "ran": []}
    rc, out = sh("git -C /repo worktree add --detach %s HEAD" % wt)
    try:
        assert rc == 0, out
        shutil.copy(demo, os.path.join(wt, "seeded_demo_test.go"))
        rc0, out0 = sh("go test -vet=off -count=1 -run '^%s$' ." % tname, cwd=wt)
        meta["validated"]["demo_passes_without_change"] = rc0 == 0
        rc, out = sh("git apply %s" % patch, cwd=wt)
        meta["validated"]["patch_applies"] = rc == 0
        rc1, out1 = sh("go test -vet=off -count=1 -run '^%s$' ." % tname, cwd=wt)
        meta["validated"]["demo_fails_with_change"] = rc1 != 0
        os.remove(os.path.join(wt, "seeded_demo_test.go"))
        rc2, out2 = sh("go build ./... && go test -vet=off -count=1 ./...", cwd=wt)
        meta["validated"]["suite_passes_with_change"] = rc2 == 0
        meta["ran"] += ["go test -run %s (without / with patch)" % tname, "go build ./... && go test -vet=off -count=1 ./... (with patch)"]
    finally:
        sh("git -C /repo worktree remove --force %s" % wt)
    ok = all(meta["validated"].values())
    print("validation:", meta["validated"])
    if not ok:
        print("NOT KEPT")
        print(out0[-800:] if rc0 else "", out1[-300:], out2[-800:] if rc2 else "")
        sys.exit(2)
    dst = os.path.join(ROOT, "seeded", name)
    os.makedirs(dst, exist_ok=True)
    for f in ("patch.diff", "demo_test.go", "notes.md"):
        if os.path.exists(os.path.join(src, f)):
            shutil.copy(os.path.join(src, f), os.path.join(dst, f))
    notes = open(os.path.join(dst, "notes.md")).read() if os.path.exists(os.path.join(dst, "notes.md")) else ""
    meta["needs_to_manifest"] = notes.strip()[:1500]
    # run the checks against the changed /repo
    rc, out = sh("git -C /repo status --porcelain")
    assert out.strip() == "", "/repo not clean: " + out
    det = {}
    try:
        rc, out = sh("git -C /repo apply %s" % os.path.join(dst, "patch.diff"))
        assert rc == 0, out
        for c in checks:
            t0 = time.time()
            rc, out = sh("bin/check %s --tier quick" % c, cwd=ROOT, timeout=3000)
            lines = [l for l in out.splitlines() if l.startswith("VIOLATION") or l.startswith("KNOWN")]
            det[c] = {"exit": rc, "lines": lines[:3], "summary": out.strip().splitlines()[-1] if out.strip() else "", "wall_s": round(time.time() - t0, 1)}
            for l in lines:
                mm = re.search(r"replay=(\S+)", l)
                if mm and os.path.exists(mm.group(1)):
                    rp = json.load(open(mm.group(1)))
                    det[c]["replay_kind"] = rp.get("kind")
                    det[c]["replay_case"] = rp.get("observed", "")[:400]
            print(c, det[c])
    finally:
        sh("git -C /repo checkout -- .")
        sh("git -C /repo clean -fd")
    meta["detection"] = det
    meta["ran"] += ["git -C /repo apply patch.diff; bin/check %s --tier quick; git -C /repo checkout -- ." % c for c in checks]
    meta["detected_by"] = sorted(c for c, v in det.items() if v["exit"] == 1 and v["lines"])
    json.dump(meta, open(os.path.join(dst, "meta.json"), "w"), indent=1)
    print("detected_by:", meta["detected_by"])

main()
