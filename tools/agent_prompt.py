#!/usr/bin/env python3
"""Print the prompt given to a mutation sub-agent for one property (property text + worktree only)."""
import json, sys
pid = sys.argv[1]
wt = sys.argv[2] if len(sys.argv) > 2 else "/tmp/wt-" + pid
outd = sys.argv[3] if len(sys.argv) > 3 else "/tmp/out-" + pid
for l in open("/verif/properties.jsonl"):
    p = json.loads(l)
    if p["id"] == pid:
        break
qt = p['quantifier']['text']
if 'as in C01' in qt and pid != 'C01':
    for l in open("/verif/properties.jsonl"):
        q = json.loads(l)
        if q["id"] == "C01":
            qt += "  [\"as in C01\" means: " + q['quantifier']['text'] + "]"
p['quantifier']['text'] = qt
print(f"""You are helping to test a verification effort for the Go library cockroachdb/apd (arbitrary-precision decimals, package github.com/cockroachdb/apd/v3). Your own scratch git worktree of the library is at {wt} (work ONLY there and in {outd}; never touch /repo or /verif, do not read anything under /verif).

Here is a semantic property that the library is supposed to satisfy:

  Title: {p['title']}
  Statement: {p['statement']}
  Quantified over: {p['quantifier']['text']}

Task: produce TWO independent changes (mutations) to the library's non-test Go source, each of which BREAKS this property while the package still compiles and the existing test suite still passes completely. Make them realistic bugs a developer could introduce (an off-by-one, a dropped or reordered statement, a wrong comparison, a missing case, two sites that each look fine alone, a fast path that is wrong only for some operands...), NOT ones that ordinary use would expose at once: each should need something specific to manifest (an unusual input such as a particular digit pattern / exponent range / rounding mode / special value, a particular aliasing pattern, a multi-step sequence of operations, a particular context setting). The two changes should be at different sites / of different kinds. Do not touch *_test.go files, testdata, go.mod, or verif_hooks.go.

For each change i in {{1,2}} deliver in {outd}/m<i>/ :
  - patch.diff : `git diff` of the change against the worktree's HEAD (must apply with `git apply` to a clean checkout);
  - demo_test.go : a Go test file (package apd, a single Test function with a unique name such as TestSeeded{pid}M<i>) that FAILS with the change applied and PASSES on the unchanged library, demonstrating the violated property on concrete inputs;
  - notes.md : 5-10 lines: what the change is, what exactly is needed for it to manifest, and the concrete failing input.

How to build and test (the sandbox has no network):
  cd {wt} && export GOFLAGS=-mod=mod GOPROXY=off GOSUMDB=off GOTOOLCHAIN=local
  go build ./... && go test -vet=off -count=1 ./...        # the full suite takes about 1-2 minutes; it must print ok
  (to run only your demo: copy demo_test.go into {wt}, run `go test -vet=off -count=1 -run TestSeeded{pid}M<i> .`, then remove it again)
Verify yourself, for each change: (a) with the change, full suite passes; (b) with the change, the demo fails; (c) without the change (`git apply -R` your patch or `git checkout -- .`; do NOT use `git stash`: the stash is shared with other worktrees of the same repository), the demo passes. Iterate until all three hold; if the suite catches your change, pick a subtler one. When done, leave the worktree clean (`git checkout -- . && git clean -fd` inside {wt}) — the deliverables live only in {outd}. Finish with a short report of what you produced.""")
