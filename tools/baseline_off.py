#!/usr/bin/env python3
"""Run /repo's own test suite with the verif build tag OFF and compare with /root/.vp/BASELINE.json.
Exit 0 iff every test listed in stable_pass passes."""
import json, os, subprocess, sys
env = dict(os.environ, GOFLAGS="-mod=mod", GOPROXY="off", GOSUMDB="off", GOTOOLCHAIN="local")
p = subprocess.run(["go", "test", "-json", "-vet=off", "-count=1", "-timeout", "25m", "./..."],
                   cwd="/repo", env=env, stdout=subprocess.PIPE, stderr=subprocess.STDOUT, text=True)
passed, failed = set(), set()
for line in p.stdout.splitlines():
    try:
        ev = json.loads(line)
    except Exception:
        continue
    if "Test" not in ev:
        continue
    name = ev["Package"] + "::" + ev["Test"]
    if ev.get("Action") == "pass":
        passed.add(name)
    elif ev.get("Action") == "fail":
        failed.add(name)
base = json.load(open("/root/.vp/BASELINE.json"))
stable = set(base["stable_pass"])
missing = sorted(stable - passed)
print("baseline stable_pass=%d passed_now=%d failed_now=%d missing_from_pass=%d" %
      (len(stable), len(passed), len(failed), len(missing)))
for m in missing[:40]:
    print("  NOT PASSING:", m)
newfail = sorted(failed - {t for t in failed if t not in stable})
sys.exit(1 if missing else 0)
