module gogen

go 1.17
