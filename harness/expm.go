package main

// Stream "expm": Context.Exp against its Coq model (Model/Exp.v).  Exp derives two integers from float64
// arithmetic - the working precision after the stage-1 bump and the number of series terms - which the model takes
// as inputs; they are recomputed here with the same float64 expressions as context.go uses.
//
//   xm <ctx 5 fields> <x> <cp> <n> => <d> <condition> <error>

import (
	"fmt"
	"math"
	"math/big"

	apd "github.com/cockroachdb/apd/v3"
)

func expFloatInputs(c *apd.Context, x *apd.Decimal) (int64, int64) {
	cp := c.Precision
	var tmp1 apd.Decimal
	tmp1.Abs(x)
	if f, err := tmp1.Float64(); err == nil {
		if ncp := f / 23; ncp >= float64(cp) && ncp < 1000 {
			cp = uint32(math.Ceil(ncp))
			if float64(cp) == ncp {
				cp++
			}
		}
	}
	if x.Form != apd.Finite {
		return int64(cp), -1
	}
	t := x.Exponent + int32(x.NumDigits())
	if t < 0 {
		t = 0
	}
	var r apd.Decimal
	r.Set(x)
	r.Exponent -= t
	var ra apd.Decimal
	ra.Abs(&r)
	p := int64(cp) + int64(t) + 2
	rf, err := ra.Float64()
	if err != nil {
		return int64(cp), -1
	}
	pf := float64(p)
	nf := math.Ceil((1.435*pf - 1.182) / math.Log10(pf/rf))
	if nf > 1000 || math.IsNaN(nf) {
		return int64(cp), -1
	}
	return int64(cp), int64(nf)
}

func runExpModel(ctx apd.Context, x0 *apd.Decimal) string {
	cp, n := expFloatInputs(&ctx, x0)
	return guard(fmt.Sprintf("xm %s %s %d %d", encCtx(&ctx), encDec(x0), cp, n), func() string {
		c := ctx
		x := clone(x0)
		d := new(apd.Decimal)
		res, err := c.Exp(d, x)
		if encDec(x) != encDec(x0) {
			return "OPERAND-MODIFIED"
		}
		return fmt.Sprintf("%s %d %s", encDec(d), uint32(res), encErr(err))
	})
}

func init() {
	streams["expm"] = func(r *rng, n int) {
		for i := 0; i < n; i++ {
			ctx := r.genCtx(true)
			if ctx.Precision > 40 {
				ctx.Precision = uint32(r.rangeI(1, 40))
			}
			var x *apd.Decimal
			switch r.intn(10) {
			case 0:
				x = r.genDec(&ctx, 40) // special values, zeros
			case 1, 2: // small integers and simple fractions
				x = mkDec(apd.Finite, r.coin(40), big.NewInt(int64(r.rangeI(0, 500))), -r.intn(4))
			default:
				x = r.expOperand(&ctx)
			}
			if x.Form == apd.Finite && x.Coeff.Sign() != 0 {
				// keep the model affordable: working precision of at most about 50 digits (|x| below about 1150),
				// in 3% of the cases up to 120 digits
				lim := int64(50)
				if r.coin(3) {
					lim = 120
				}
				for k := 0; k < 12; k++ {
					if cp, _ := expFloatInputs(&ctx, x); cp <= lim {
						break
					}
					x.Exponent--
				}
			}
			emit(runExpModel(ctx, x))
		}
	}
	replayers["xm"] = func(f []string) {
		c := parseArith([]string{"ar", "Exp", f[1], f[2], f[3], f[4], f[5], f[6], "_", "0", "n", "F:0:0:0"})
		emit(runExpModel(c.Ctx, c.X))
	}
}
