package main

// Stream "expm": Context.Exp against its Coq model (Model/Exp.v).  Exp derives two integers from float64
// arithmetic - the working precision after the stage-1 bump and the number of series terms - which the model takes
// as inputs; they are recomputed here with the same float64 expressions as context.go uses.
//
//   xm <ctx 5 fields> <x> <cp> <n> => <d> <condition> <error>

import (
	"fmt"
	"math"
	"math/big"
	"regexp"
	"strings"

	apd "github.com/cockroachdb/apd/v3"
)

func expFloatInputs(c *apd.Context, x *apd.Decimal) (int64, int64) {
	cp := c.Precision
	var tmp1 apd.Decimal
	tmp1.Abs(x)
	if f, err := tmp1.Float64(); err == nil {
		if ncp := f / 23; ncp >= float64(cp) && ncp < 1000 {
			cp = uint32(math.Ceil(ncp))
			if float64(cp) == ncp {
				cp++
			}
		}
	}
	if x.Form != apd.Finite {
		return int64(cp), -1
	}
	t := x.Exponent + int32(x.NumDigits())
	if t < 0 {
		t = 0
	}
	var r apd.Decimal
	r.Set(x)
	r.Exponent -= t
	var ra apd.Decimal
	ra.Abs(&r)
	p := int64(cp) + int64(t) + 2
	rf, err := ra.Float64()
	if err != nil {
		return int64(cp), -1
	}
	pf := float64(p)
	nf := math.Ceil((1.435*pf - 1.182) / math.Log10(pf/rf))
	if nf > 1000 || math.IsNaN(nf) {
		return int64(cp), -1
	}
	return int64(cp), int64(nf)
}

func runExpModel(ctx apd.Context, x0 *apd.Decimal) string {
	cp, n := expFloatInputs(&ctx, x0)
	return guard(fmt.Sprintf("xm %s %s %d %d", encCtx(&ctx), encDec(x0), cp, n), func() string {
		c := ctx
		x := clone(x0)
		d := new(apd.Decimal)
		res, err := c.Exp(d, x)
		if encDec(x) != encDec(x0) {
			return "OPERAND-MODIFIED"
		}
		return fmt.Sprintf("%s %d %s", encDec(d), uint32(res), encErr(err))
	})
}

var ktRe = regexp.MustCompile(`^(ln10|invln10)\.vals\[(\d+)\]=\d+/(?:true|false)/(-?\d+)/coeff=[^/]*/[^/]*/[^/]*/[^/]*/(\d+)$`)

// the rounded-constant tables of the running package, as "kt <name> <i> <coefficient> <exponent> =>" lines
func emitConstTables() {
	for _, l := range strings.Split(apd.VerifSnapshotGlobals(), "\n") {
		if m := ktRe.FindStringSubmatch(l); m != nil {
			emit(fmt.Sprintf("kt %s %s %s %s =>", m[1], m[2], m[4], m[3]))
		}
	}
}

// The float-derived inputs of Halley's iteration in Context.Ln (context.go): the initial estimate
// SetFloat64(math.Log(z.Float64())) of the rescaled operand and, for every Exp inside the loop, the two integers that
// Exp derives from floats.  The iterates are recomputed here with the exported operations, in the order of context.go
// (untrapped: a trap stops the real computation earlier but does not change the values).
func lnFloatInputs(c apd.Context, x *apd.Decimal) string {
	if x.Form != apd.Finite || x.Coeff.Sign() <= 0 || x.Negative {
		return "F:0:0:0"
	}
	p := c.Precision + 2
	nc := c.WithPrecision(p)
	nc.Rounding = apd.RoundHalfEven
	nc.Traps = 0
	var tmp1, tmp2, tmp3, tmp4, z apd.Decimal
	z.Set(x)
	expDelta := int32(z.NumDigits()) + z.Exponent
	z.Exponent -= expDelta
	zf, err := z.Float64()
	if err != nil {
		return "F:0:0:0"
	}
	if _, err := tmp1.SetFloat64(math.Log(zf)); err != nil {
		return "F:0:0:0"
	}
	var b strings.Builder
	b.WriteString(encDec(&tmp1))
	ed := apd.MakeErrDecimal(nc)
	var prevZ, delta, eps apd.Decimal
	lprec := int32(c.Precision + 1)
	maxIt := 10 + int(c.Precision+1)
	it := 0
	for k := 0; k < 80; k++ {
		cp, n := expFloatInputs(nc, &tmp1)
		fmt.Fprintf(&b, " %d %d", cp, n)
		ed.Exp(&tmp2, &tmp1)
		ed.Sub(&tmp3, &tmp2, &z)
		ed.Add(&tmp3, &tmp3, &tmp3)
		ed.Add(&tmp4, &tmp2, &z)
		ed.Quo(&tmp2, &tmp3, &tmp4)
		ed.Sub(&tmp1, &tmp1, &tmp2)
		if ed.Err() != nil {
			break
		}
		if _, err := nc.Sub(&delta, &prevZ, &tmp1); err != nil {
			break
		}
		sg := delta.Sign()
		if sg == 0 {
			break
		}
		if sg < 0 {
			delta.Neg(&delta)
		}
		eps.SetFinite(1, -lprec+int32(tmp1.NumDigits())+tmp1.Exponent)
		if delta.Cmp(&eps) <= 0 {
			break
		}
		it++
		if it == maxIt {
			break
		}
		prevZ.Set(&tmp1)
	}
	return b.String()
}

func runLnModel(op string, ctx apd.Context, x0 *apd.Decimal) string {
	inner := ctx
	if op == "Log10" {
		// Log10 calls Ln in BaseContext at two more digits
		inner = *apd.BaseContext.WithPrecision(ctx.Precision + 2)
		inner.Rounding = apd.RoundHalfEven
	}
	return guard(fmt.Sprintf("lm %s %s %s %s", op, encCtx(&ctx), encDec(x0), lnFloatInputs(inner, x0)), func() string {
		c := ctx
		x := clone(x0)
		d := new(apd.Decimal)
		var res apd.Condition
		var err error
		if op == "Log10" {
			res, err = c.Log10(d, x)
		} else {
			res, err = c.Ln(d, x)
		}
		if encDec(x) != encDec(x0) {
			return "OPERAND-MODIFIED"
		}
		return fmt.Sprintf("%s %d %s", encDec(d), uint32(res), encErr(err))
	})
}

// The float-derived inputs of Context.Pow with a fractional exponent: those of Ln(|x|) in the working context
// BaseContext.WithPrecision(max(Precision, digits x) + 10) and those of the Exp of frac(y) * ln|x|.
func powFloatInputs(c *apd.Context, x, y *apd.Decimal) (int64, int64, string) {
	none := "F:0:0:0"
	if x.Form != apd.Finite || y.Form != apd.Finite || x.Coeff.Sign() == 0 {
		return 0, -1, none
	}
	var integ, frac apd.Decimal
	y.Modf(&integ, &frac)
	if frac.IsZero() || x.Negative {
		return 0, -1, none
	}
	p := c.Precision
	if nd := uint32(x.NumDigits()); p < nd {
		p = nd
	}
	p += 10
	nc := apd.BaseContext.WithPrecision(p)
	var tmp apd.Decimal
	if _, err := nc.Abs(&tmp, x); err != nil {
		return 0, -1, none
	}
	lnIn := lnFloatInputs(*nc, &tmp)
	if _, err := nc.Ln(&tmp, &tmp); err != nil {
		return 0, -1, lnIn
	}
	if _, err := nc.Mul(&tmp, &tmp, &frac); err != nil {
		return 0, -1, lnIn
	}
	cp, n := expFloatInputs(nc, &tmp)
	return cp, n, lnIn
}

func runPowModel(ctx apd.Context, x0, y0 *apd.Decimal) string {
	cp, n, lnIn := powFloatInputs(&ctx, x0, y0)
	return guard(fmt.Sprintf("pm %s %s %s %d %d %s", encCtx(&ctx), encDec(x0), encDec(y0), cp, n, lnIn), func() string {
		c := ctx
		x, y := clone(x0), clone(y0)
		d := new(apd.Decimal)
		res, err := c.Pow(d, x, y)
		if encDec(x) != encDec(x0) || encDec(y) != encDec(y0) {
			return "OPERAND-MODIFIED"
		}
		return fmt.Sprintf("%s %d %s", encDec(d), uint32(res), encErr(err))
	})
}

func init() {
	// Stream "powm": Context.Pow against its model (Model/Pow.v).
	//   pm <ctx 5 fields> <x> <y> <cp> <n> <a0> <cp1> <n1> ... => <d> <condition> <error>
	streams["powm"] = func(r *rng, n int) {
		emitConstTables()
		for i := 0; i < n; i++ {
			ctx := r.genCtx(true)
			if ctx.Precision > 30 {
				ctx.Precision = uint32(r.rangeI(1, 30))
			}
			var x, y *apd.Decimal
			for try := 0; ; try++ {
				if r.coin(12) {
					x, y = r.genDec(&ctx, 40), r.genDec(&ctx, 40)
				} else if r.coin(8) {
					// the cells decided before any arithmetic: a base numerically equal to one, zero or minus one in
					// several spellings against infinite, zero, unit and half exponents
					k := r.rangeI(0, 4)
					x = mkDec(apd.Finite, r.coin(25), new(big.Int).Mul(big.NewInt(int64(r.pick([]int{1, 1, 1, 0, 2}))), pow10(k)), -k)
					switch r.intn(6) {
					case 0, 1:
						y = mkDec(apd.Infinite, r.coin(50), big.NewInt(0), 0)
					case 2:
						y = mkDec(apd.Finite, r.coin(50), big.NewInt(0), r.rangeI(-3, 3))
					case 3:
						y = mkDec(apd.Finite, r.coin(50), big.NewInt(1), 0)
					case 4:
						y = mkDec(apd.Finite, r.coin(50), big.NewInt(5), -1)
					default:
						y = r.genSpecial()
					}
				} else {
					x, y = r.powOperands(&ctx)
				}
				// keep the model affordable: moderate exponents of x and y, inner Exp at a working precision below 120
				if x.Form == apd.Finite && (x.Exponent > 400 || x.Exponent < -400 || x.NumDigits() > 120) {
					continue
				}
				if y.Form == apd.Finite && (y.Exponent > 12 || y.Exponent < -60 || y.NumDigits() > 60) {
					continue
				}
				if cp, _, _ := powFloatInputs(&ctx, x, y); cp <= 120 || try > 20 {
					break
				}
			}
			emit(runPowModel(ctx, x, y))
		}
	}
	replayers["pm"] = func(f []string) {
		emitConstTables()
		c := parseArith([]string{"ar", "Pow", f[1], f[2], f[3], f[4], f[5], f[6], f[7], "0", "n", "F:0:0:0"})
		emit(runPowModel(c.Ctx, c.X, c.Y))
	}
	streams["expm"] = func(r *rng, n int) {
		for i := 0; i < n; i++ {
			ctx := r.genCtx(true)
			if ctx.Precision > 40 {
				ctx.Precision = uint32(r.rangeI(1, 40))
			}
			var x *apd.Decimal
			switch r.intn(10) {
			case 0:
				x = r.genDec(&ctx, 40) // special values, zeros
			case 1, 2: // small integers and simple fractions
				x = mkDec(apd.Finite, r.coin(40), big.NewInt(int64(r.rangeI(0, 500))), -r.intn(4))
			default:
				x = r.expOperand(&ctx)
			}
			if x.Form == apd.Finite && x.Coeff.Sign() != 0 {
				// keep the model affordable: working precision of at most about 50 digits (|x| below about 1150),
				// in 3% of the cases up to 120 digits
				lim := int64(50)
				if r.coin(3) {
					lim = 120
				}
				for k := 0; k < 12; k++ {
					if cp, _ := expFloatInputs(&ctx, x); cp <= lim {
						break
					}
					x.Exponent--
				}
			}
			emit(runExpModel(ctx, x))
		}
	}
	// Stream "lnm": Ln and Log10 against the model of the power-series path (Model/Ln.v); operands mostly within 0.2 of
	// one, or with a mantissa in [0.8, 1), so that the series is taken; the rest goes through Halley's iteration
	// (Model/LnHalley.v), whose float-derived inputs are recomputed by lnFloatInputs.
	//   lm <Ln|Log10> <ctx 5 fields> <x> => <d> <condition> <error>
	streams["lnm"] = func(r *rng, n int) {
		emitConstTables()
		for i := 0; i < n; i++ {
			ctx := r.genCtx(true)
			if ctx.Precision > 40 {
				ctx.Precision = uint32(r.rangeI(1, 40))
			}
			p := int(ctx.Precision)
			op := "Ln"
			if r.coin(35) {
				op = "Log10"
			}
			var x *apd.Decimal
			switch r.intn(10) {
			case 0:
				x = r.genDec(&ctx, 40)
			case 1, 2, 3: // 1 +- delta, delta up to 0.2 and a little beyond, down to 10^-(2p)
				k := r.rangeI(1, 2*p+4)
				m := r.randDigits(r.rangeI(1, p+3))
				delta := mkDec(apd.Finite, r.coin(50), m, -k-len(m.String())+r.rangeI(0, 1))
				x = new(apd.Decimal)
				apd.BaseContext.Add(x, apd.New(1, 0), delta)
			case 4, 5: // mantissa in [0.79, 1.0) times a power of ten
				nd := r.rangeI(1, p+6)
				m := r.randDigits(nd)
				lead := new(big.Int).Mul(big.NewInt(int64(r.rangeI(79, 99))), pow10(nd))
				m.Add(m, lead)
				x = mkDec(apd.Finite, false, m, r.rangeI(-40, 40)-nd)
			case 7: // exact powers of ten and their neighbours
				k := r.rangeI(-30, 30)
				x = mkDec(apd.Finite, false, big.NewInt(int64(r.pick([]int{1, 10, 100, 99, 101, 999, 1001}))), k)
			default:
				x = r.lnOperand(&ctx)
			}
			if x.Form == apd.Finite && (x.Coeff.Sign() < 0 || int(x.Exponent)+int(x.NumDigits()) > 300 || int(x.Exponent)+int(x.NumDigits()) < -300) {
				x = mkDec(apd.Finite, false, big.NewInt(int64(r.rangeI(1, 99))), r.rangeI(-3, 1)) // keep the model's exact alignments small
			}
			emit(runLnModel(op, ctx, x))
		}
	}
	replayers["lm"] = func(f []string) {
		emitConstTables()
		c := parseArith([]string{"ar", f[1], f[2], f[3], f[4], f[5], f[6], f[7], "_", "0", "n", "F:0:0:0"})
		emit(runLnModel(f[1], c.Ctx, c.X))
	}
	replayers["xm"] = func(f []string) {
		c := parseArith([]string{"ar", "Exp", f[1], f[2], f[3], f[4], f[5], f[6], "_", "0", "n", "F:0:0:0"})
		emit(runExpModel(c.Ctx, c.X))
	}
}
