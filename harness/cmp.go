package main

import (
	"fmt"
	"math/big"

	"github.com/cockroachdb/apd/v3"
)

// ---------- comparison stream "cm": cm <a> <b> <c> => cab cbc cac tab tba tbc tac taa ----------

func runCmp(a, b, c *apd.Decimal) (line string) {
	cs := fmt.Sprintf("cm %s %s %s", encDec(a), encDec(b), encDec(c))
	enter(cs)
	defer leave()
	defer func() {
		if r := recover(); r != nil {
			line = fmt.Sprintf("%s => PANIC %q", cs, fmt.Sprint(r))
		}
	}()
	a0, b0, c0 := encDec(a), encDec(b), encDec(c)
	res := fmt.Sprintf("%s => %d %d %d %d %d %d %d %d", cs, a.Cmp(b), b.Cmp(c), a.Cmp(c),
		a.CmpTotal(b), b.CmpTotal(a), b.CmpTotal(c), a.CmpTotal(c), a.CmpTotal(a))
	if encDec(a) != a0 || encDec(b) != b0 || encDec(c) != c0 {
		return cs + " => PANIC \"operand modified by Cmp\""
	}
	return res
}

// variants of a decimal that are numerically equal or adjacent
func (r *rng) cmpVariant(d *apd.Decimal) *apd.Decimal {
	v := clone(d)
	if v.Form != apd.Finite {
		switch r.intn(3) {
		case 0:
			v.Negative = !v.Negative
		case 1:
			v.Form = []apd.Form{apd.Infinite, apd.NaN, apd.NaNSignaling}[r.intn(3)]
		}
		return v
	}
	switch r.intn(9) {
	case 0: // same value, k more trailing zeros (beyond the power-of-ten table in a quarter of the cases)
		k := r.rangeI(1, 6)
		if r.coin(25) {
			k = r.rangeI(100, 400)
		} else if r.coin(30) {
			k = r.rangeI(15, 22) // 64-bit word boundary
		}
		v.Coeff.Mul(&v.Coeff, new(apd.BigInt).SetMathBigInt(pow10(k)))
		v.Exponent -= int32(k)
	case 1: // same value + 1 ulp after padding
		k := r.rangeI(1, 6)
		if r.coin(25) {
			k = r.rangeI(100, 400)
		}
		v.Coeff.Mul(&v.Coeff, new(apd.BigInt).SetMathBigInt(pow10(k)))
		v.Coeff.Add(&v.Coeff, apd.NewBigInt(1))
		v.Exponent -= int32(k)
	case 2: // same adjusted exponent, different digits
		nd := int(v.NumDigits())
		k := r.rangeI(1, nd+3)
		if r.coin(20) {
			k = nd + r.rangeI(100, 300)
		}
		v.Coeff.SetMathBigInt(r.coeffShape(k))
		v.Exponent = d.Exponent + int32(nd-k)
	case 3:
		v.Negative = !v.Negative
	case 4:
		v.Coeff.Add(&v.Coeff, apd.NewBigInt(int64(r.rangeI(-1, 1))))
		if v.Coeff.Sign() < 0 {
			v.Coeff.SetInt64(0)
		}
	case 5:
		v.Exponent += int32(r.rangeI(-1, 1))
	case 6: // zero with another exponent
		v.Coeff.SetInt64(0)
		v.Exponent = int32(r.rangeI(-30, 30))
	case 7: // huge exponent gap (within the limits)
		if v.Exponent < 0 {
			v.Exponent = int32(r.rangeI(50000, 99000))
		} else {
			v.Exponent = -int32(r.rangeI(50000, 99000))
		}
	}
	return v
}

func init() {
	streams["cmp"] = func(r *rng, n int) {
		ctx := apd.Context{Precision: 9, MaxExponent: 40, MinExponent: -40}
		for i := 0; i < n; i++ {
			ctx.Precision = uint32(r.pick(precChoices))
			r.zone = 2
			if r.coin(6) {
				// coefficients of hundreds of digits right at a power of ten (every bit length up to ~2700 over a
				// run), against the same value written with another exponent and its neighbours: adjusted exponents tie
				k := r.rangeI(20, 800)
				p10 := pow10(k)
				neg := r.coin(30)
				sh := r.rangeI(1, 6)
				variants := []*apd.Decimal{
					mkDec(apd.Finite, neg, p10, 0),
					mkDec(apd.Finite, neg, big.NewInt(1), k),
					mkDec(apd.Finite, neg, new(big.Int).Add(p10, big.NewInt(1)), 0),
					mkDec(apd.Finite, neg, new(big.Int).Sub(p10, big.NewInt(1)), 0),
					mkDec(apd.Finite, neg, new(big.Int).Add(new(big.Int).Mul(p10, pow10(sh)), big.NewInt(5)), -sh),
					mkDec(apd.Finite, neg, pow10(sh), k-sh),
				}
				r.shuffleDecs(variants)
				emit(runCmp(variants[0], variants[1], variants[2]))
				continue
			}
			a := r.genDec(&ctx, 15)
			var b, c *apd.Decimal
			if r.coin(70) {
				b = r.cmpVariant(a)
			} else {
				b = r.genDec(&ctx, 15)
			}
			switch r.intn(3) {
			case 0:
				c = r.cmpVariant(b)
			case 1:
				c = r.cmpVariant(a)
			default:
				c = r.genDec(&ctx, 15)
			}
			emit(runCmp(a, b, c))
		}
	}
	replayers["cm"] = func(f []string) { emit(runCmp(decDec(f[1]), decDec(f[2]), decDec(f[3]))) }
}

func (r *rng) shuffleDecs(v []*apd.Decimal) {
	for i := len(v) - 1; i > 0; i-- {
		j := r.intn(i + 1)
		v[i], v[j] = v[j], v[i]
	}
}

var _ = big.NewInt
