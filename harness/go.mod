module apdrun

go 1.17

require github.com/cockroachdb/apd/v3 v3.0.0

replace github.com/cockroachdb/apd/v3 => /repo
