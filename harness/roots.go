package main

import (
	"fmt"
	"math/big"

	"github.com/cockroachdb/apd/v3"
)

// ---------- C11: Sqrt and Cbrt, directed at the hard cases ----------
func (r *rng) rootOperand(p int, cube bool) *apd.Decimal {
	deg := 2
	if cube {
		deg = 3
	}
	var c *big.Int
	e := r.rangeI(-12, 12)
	switch r.intn(10) {
	case 0: // perfect power of a p-digit (or shorter) root
		k := r.coeffShape(r.rangeI(1, p))
		c = new(big.Int).Exp(k, big.NewInt(int64(deg)), nil)
		e = deg * r.rangeI(-4, 4)
	case 1: // perfect power +- 1
		k := r.coeffShape(r.rangeI(1, p+1))
		c = new(big.Int).Exp(k, big.NewInt(int64(deg)), nil)
		c.Add(c, big.NewInt(int64(r.rangeI(-1, 1))))
	case 2: // square/cube of a half-way point (p digits + 5) and its neighbours: root next to a rounding boundary
		k := r.coeffShape(r.rangeI(1, p))
		h := new(big.Int).Add(new(big.Int).Mul(k, big.NewInt(10)), big.NewInt(5))
		c = new(big.Int).Exp(h, big.NewInt(int64(deg)), nil)
		c.Add(c, big.NewInt(int64(r.rangeI(-2, 2))))
		if r.coin(50) { // more digits after the boundary
			c.Mul(c, pow10(deg*r.rangeI(1, 3)))
			c.Add(c, big.NewInt(int64(r.rangeI(-3, 3))))
		}
	case 3: // all nines / one plus epsilon
		n := r.rangeI(1, 4*p+24)
		c = new(big.Int).Sub(pow10(n), big.NewInt(1))
		if r.coin(50) {
			c = new(big.Int).Add(pow10(n), big.NewInt(1))
		}
	case 7: // a perfect power followed by a long run of zeros and a last unit (or minus one): the root is within
		// 10^-(2p+..) of a short number, far closer than any fixed number of guard digits resolves
		k := r.coeffShape(r.rangeI(1, p))
		c = new(big.Int).Exp(k, big.NewInt(int64(deg)), nil)
		c.Mul(c, pow10(deg*r.rangeI(p/2+2, 2*p+12)))
		c.Add(c, big.NewInt(int64(r.pick([]int{-1, 1, 1, 2}))))
		e = -r.rangeI(0, 40)
	case 4: // many more digits than the precision
		c = r.coeffShape(r.rangeI(p+1, 4*p+10))
	case 5:
		c = r.coeffShape(r.rangeI(1, p))
	case 6: // (10^p - 1)^deg and neighbours: root is all nines
		k := new(big.Int).Sub(pow10(p), big.NewInt(1))
		c = new(big.Int).Exp(k, big.NewInt(int64(deg)), nil)
		c.Add(c, big.NewInt(int64(r.rangeI(-2, 2))))
	default:
		c = r.coeffShape(r.rangeI(1, 2*p+3))
	}
	if c.Sign() <= 0 {
		c = big.NewInt(2)
	}
	return mkDec(apd.Finite, cube && r.coin(30), c, e)
}

func init() {
	streams["roots"] = func(r *rng, n int) {
		// every perfect square and cube of a small root, at every precision from the root's digit count up:
		// the exactness checks of Sqrt and Cbrt fail, if at all, on isolated (root, precision) pairs
		for k := 1; k <= 1500; k++ {
			nd := len(fmt.Sprint(k))
			for p := nd; p <= nd+6 && p <= 12; p++ {
				if !mine() {
					continue
				}
				for _, op := range []string{"Sqrt", "Cbrt"} {
					deg := int64(2)
					if op == "Cbrt" {
						deg = 3
					}
					c := new(big.Int).Exp(big.NewInt(int64(k)), big.NewInt(deg), nil)
					ctx := apd.Context{Precision: uint32(p), MaxExponent: 200, MinExponent: -200, Rounding: roundings[(k+p)%8]}
					x := mkDec(apd.Finite, op == "Cbrt" && k%2 == 0, c, int(deg)*((k%5)-2))
					emit(runArith(&arithCase{Op: op, Ctx: ctx, X: x, Alias: "n", DPre: new(apd.Decimal)}))
				}
			}
		}
		for i := 0; i < n; i++ {
			p := r.pick([]int{1, 2, 3, 3, 4, 5, 7, 9, 11, 16, 20})
			ctx := apd.Context{Precision: uint32(p), MaxExponent: int32(r.rangeI(60, 300)), MinExponent: -int32(r.rangeI(60, 300)),
				Rounding: roundings[r.intn(8)]}
			op := "Sqrt"
			if r.coin(45) {
				op = "Cbrt"
			}
			c := &arithCase{Op: op, Ctx: ctx, X: r.rootOperand(p, op == "Cbrt"), Y: nil, Alias: "n", DPre: new(apd.Decimal)}
			if r.coin(15) {
				// move the root to the edges of the context's range (overflow, Emin, Etiny) by a multiple of
				// the degree, which keeps perfect powers perfect
				deg := 2
				if op == "Cbrt" {
					deg = 3
				}
				nd := len(c.X.Coeff.String())
				rootAdj := (int(c.X.Exponent) + nd - 1) / deg
				etiny := int(ctx.MinExponent) - p + 1
				target := r.pick([]int{int(ctx.MaxExponent) - 1, int(ctx.MaxExponent), int(ctx.MaxExponent) + 1, int(ctx.MaxExponent) + 40,
					int(ctx.MinExponent) + 1, int(ctx.MinExponent), int(ctx.MinExponent) - 1, int(ctx.MinExponent) - p/2, etiny + 1, etiny, etiny - 1, etiny - 40})
				c.X.Exponent += int32(deg * (target - rootAdj))
			}
			if r.coin(6) && p >= 2 {
				// a root a hair below or above a j-digit number (j < Precision) placed so that exactly j digits lie at
				// or above Etiny: the result is subnormal and a directed rounding of an iterate that is off by a
				// little lands on the wrong side of that number
				deg := 2
				if op == "Cbrt" {
					deg = 3
				}
				j := r.rangeI(1, p-1)
				k := pow10(j) // 10^j, or a j-digit number
				if r.coin(50) {
					k = r.coeffShape(j)
					if k.Sign() == 0 {
						k = big.NewInt(7)
					}
				}
				pad := deg * r.rangeI(2, p+6)
				cf := new(big.Int).Exp(k, big.NewInt(int64(deg)), nil)
				cf.Mul(cf, pow10(pad))
				cf.Add(cf, big.NewInt(int64(r.pick([]int{-1, 1, -3, 2}))))
				etiny := int(ctx.MinExponent) - p + 1
				// root ~ k * 10^(e/deg + pad/deg): its last kept digit (units of k) at Etiny
				c.X = mkDec(apd.Finite, op == "Cbrt" && r.coin(40), cf, deg*etiny-pad)
			}
			if r.coin(8) {
				c.X = r.genSpecial()
			}
			if r.coin(4) {
				c.X = mkDec(apd.Finite, r.coin(50), big.NewInt(0), r.rangeI(-9, 9))
				if r.coin(50) { // zeros whose halved / thirded exponent leaves the context's range
					c.X.Exponent = int32(r.pick([]int{-1, 1}) * r.rangeI(2*int(ctx.MaxExponent)-3, 3*int(ctx.MaxExponent)+400))
				}
			}
			if r.coin(15) {
				c.Alias = "dx"
			}
			emit(runArith(c))
		}
	}
}
