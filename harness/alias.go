package main

import (
	"fmt"
	"math/big"
	"strings"

	"github.com/cockroachdb/apd/v3"
)

// ---------- C05 / C06: aliasing patterns, destination pre-states, operands and package state ----------
// al <op> <ctx> <x> <y> <e> => A r_n r_dx r_dy ; B r_nn r_xy r_dxy ; D r_d1 r_d2 ; O <operands ok 0/1> ; G <globals ok 0/1>
//   r = dest,cond,err,extra     (A: distinct y; B: y is x itself resp. an equal copy)
// mo2 <dec> => <integ,frac distinct> ; <integ==d> ; <frac==d> ; <integ nil> ; <frac nil> ; O <0/1>     (Decimal.Modf)
// dm <op> <x> => r_distinct r_dx r_dirty ; O <0/1>                                                  (Decimal.Neg/Abs/Reduce/Set)

var allCtxOps = append(append([]string{}, arithOpsAll...), "Sqrt", "Cbrt", "Exp", "Ln", "Log10", "Pow")

var globalsBaseline string

func resOf(line string) string {
	o := strings.Fields(obsOf(line))
	if len(o) >= 4 && o[0] != "PANIC" {
		return o[0] + "," + o[1] + "," + o[2] + "," + o[3]
	}
	return "PANIC"
}

func opndOK(line string, c *arithCase) bool {
	o := strings.Fields(obsOf(line))
	if len(o) < 7 {
		return false
	}
	ok := o[6] == "1" // the Context is unchanged
	if o[4] != "_" && o[4] != encDec(c.X) {
		ok = false
	}
	if o[5] != "_" && c.Y != nil && o[5] != encDec(c.Y) {
		ok = false
	}
	return ok
}

func runAlias(r *rng, c *arithCase) string {
	cs := fmt.Sprintf("al %s %s %s %s %d", c.Op, encCtx(&c.Ctx), encDec(c.X), encDec(c.Y), c.E)
	ok := true
	run := func(alias string, y *apd.Decimal, dpre *apd.Decimal) string {
		cc := *c
		cc.Alias = alias
		cc.Y = y
		cc.DPre = dpre
		line := runArith(&cc)
		if !opndOK(line, &cc) {
			ok = false
		}
		return resOf(line)
	}
	zero := new(apd.Decimal)
	var a, b []string
	a = append(a, run("n", c.Y, zero), run("dx", c.Y, zero))
	if binaryOps[c.Op] {
		a = append(a, run("dy", c.Y, zero))
		b = append(b, run("n", clone(c.X), zero), run("xy", c.X, zero), run("dxy", c.X, zero))
	}
	d1 := run("n", c.Y, dirtyDest[1+r.intn(len(dirtyDest)-1)](r))
	d2 := run("n", c.Y, dirtyDest[1+r.intn(len(dirtyDest)-1)](r))
	g := 1
	if r.coin(3) {
		if apd.VerifSnapshotGlobals() != globalsBaseline {
			g = 0
		}
	}
	return fmt.Sprintf("%s => A %s ; B %s ; D %s %s ; O %d ; G %d", cs, strings.Join(a, " "), strings.Join(b, " "), d1, d2, b2i(ok), g)
}

func runModfAlias(r *rng, d0 *apd.Decimal) string {
	return guard("mo2 "+encDec(d0), func() string {
		ok := true
		one := func(iAlias, fAlias, iNil, fNil bool) string {
			d := clone(d0)
			var integ, frac *apd.Decimal
			if !iNil {
				integ = r.genDest()
				if iAlias {
					integ = d
				}
			}
			if !fNil {
				frac = r.genDest()
				if fAlias {
					frac = d
				}
			}
			d.Modf(integ, frac)
			if integ != d && frac != d && encDec(d) != encDec(d0) {
				ok = false
			}
			return encDec(integ) + "," + encDec(frac)
		}
		outs := []string{one(false, false, false, false), one(true, false, false, false), one(false, true, false, false),
			one(false, false, true, false), one(false, false, false, true), one(true, false, false, true), one(false, true, true, false)}
		return strings.Join(outs, " ; ") + " ; O " + fmt.Sprint(b2i(ok))
	})
}

func runDecMethodAlias(r *rng, op string, x0 *apd.Decimal) string {
	return guard(fmt.Sprintf("dm %s %s", op, encDec(x0)), func() string {
		ok := true
		one := func(alias bool, dpre *apd.Decimal) string {
			x := clone(x0)
			d := dpre
			if alias {
				d = x
			}
			extra := 0
			switch op {
			case "Neg":
				d.Neg(x)
			case "Abs":
				d.Abs(x)
			case "Set":
				d.Set(x)
			case "Reduce":
				_, extra = d.Reduce(x)
			}
			if !alias && encDec(x) != encDec(x0) {
				ok = false
			}
			return fmt.Sprintf("%s,%d", encDec(d), extra)
		}
		return one(false, new(apd.Decimal)) + " " + one(true, nil) + " " + one(false, r.genDest()) + " ; O " + fmt.Sprint(b2i(ok))
	})
}

// gn <b hex> => <package state unchanged> <operand unchanged>
func runNumDigitsGlobals(v *big.Int) string {
	return guard("gn "+v.Text(16), func() string {
		base := apd.VerifSnapshotGlobals()
		b := new(apd.BigInt).SetMathBigInt(v)
		apd.NumDigits(b)
		g, o := 1, 1
		if apd.VerifSnapshotGlobals() != base {
			g = 0
		}
		if b.MathBigInt().Cmp(v) != 0 {
			o = 0
		}
		return fmt.Sprintf("%d %d", g, o)
	})
}

func init() {
	replayers["gn"] = func(f []string) {
		v, _ := new(big.Int).SetString(f[1], 16)
		emit(runNumDigitsGlobals(v))
	}
	streams["alias"] = func(r *rng, n int) {
		globalsBaseline = apd.VerifSnapshotGlobals()
		for i := 0; i < n; i++ {
			switch k := r.intn(11); {
			case k == 10: // exported functions over a caller's BigInt: the package tables are read-only
				nd := r.pick([]int{1, 19, 20, 38, 39, 40, 50, 77, 100, 128, 129, 130, 200, 400})
				v := r.coeffShape(nd)
				if r.coin(60) {
					v.Neg(v)
				}
				emit(runNumDigitsGlobals(v))
			case k < 6:
				emit(runAlias(r, r.genArithCase(arithOpsAll, 6, false, true)))
			case k < 8:
				op := []string{"Sqrt", "Cbrt", "Exp", "Ln", "Log10", "Pow"}[r.intn(6)]
				c := r.genSmallCase(op)
				if c.Y == nil {
					c.Y = new(apd.Decimal)
				}
				if r.coin(30) { // perfect squares / cubes / exact powers: the exactness re-checks read the operand late
					k := int64(r.rangeI(2, 99))
					switch op {
					case "Sqrt":
						c.X = mkDec(apd.Finite, false, big.NewInt(k*k), 2*r.rangeI(-3, 3))
					case "Cbrt":
						c.X = mkDec(apd.Finite, r.coin(30), big.NewInt(k*k*k), 3*r.rangeI(-3, 3))
					}
				}
				emit(runAlias(r, c))
			case k < 9:
				ctx := apd.Context{Precision: 9, MaxExponent: 40, MinExponent: -40}
				r.zone = 2
				emit(runModfAlias(r, r.genFinite(&ctx)))
			default:
				ctx := apd.Context{Precision: 9, MaxExponent: 40, MinExponent: -40}
				r.zone = 2
				x := r.genDec(&ctx, 15)
				if x.Form == apd.Finite && r.coin(40) {
					x.Coeff.Mul(&x.Coeff, apd.NewBigInt(0).SetMathBigInt(pow10(r.rangeI(0, 25))))
				}
				emit(runDecMethodAlias(r, []string{"Neg", "Abs", "Set", "Reduce"}[r.intn(4)], x))
			}
		}
		// final snapshot of the package state
		g := 1
		if apd.VerifSnapshotGlobals() != globalsBaseline {
			g = 0
		}
		emit(fmt.Sprintf("gs %d %d => %d", shardIdx, n, g))
	}
	replayers["al"] = func(f []string) {
		globalsBaseline = apd.VerifSnapshotGlobals()
		f2 := []string{"ar", f[1], f[2], f[3], f[4], f[5], f[6], f[7], f[8], f[9], "n", "F:0:0:0"}
		c := parseArith(f2)
		emit(runAlias(&rng{s: 1}, c))
	}
	replayers["mo2"] = func(f []string) { emit(runModfAlias(&rng{s: 1}, decDec(f[1]))) }
	replayers["dm"] = func(f []string) { emit(runDecMethodAlias(&rng{s: 1}, f[1], decDec(f[2]))) }
}
