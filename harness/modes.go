package main

import (
	"fmt"
	"math/big"
	"strings"

	"github.com/cockroachdb/apd/v3"
)

// ---------- C20: the same call under the eight rounding modes and under transformed operands ----------
//
// md <op> <p> <emax> <emin> <x> <y> <e> <modeIndex> <k> => R0 .. R7 ; C ; SA ; MI ; SC
//   Ri   result under roundings[i]                      ("dec,cond,err")
//   C    op(y, x) under the case's mode (Add, Mul)
//   SA   Add(x, -y) under the case's mode (Sub)
//   MI   op(-x, -y) (Mul, Quo: op(-x, y)) under the mirrored mode (floor <-> ceiling)
//   SC   operands scaled by 10^k (both for Add/Sub, the first for Mul/Quo)
// mo <p> <emax> <emin> <modeIndex> <x> <y> => Rx Ry        (Round monotone)

var modeOps = []string{"Add", "Sub", "Mul", "Quo", "Round", "Quantize", "RoundToIntegralExact"}

func runOne(op string, ctx apd.Context, x, y *apd.Decimal, e int32) (res string) {
	defer func() {
		if r := recover(); r != nil {
			res = "PANIC"
		}
	}()
	d := new(apd.Decimal)
	xx, yy := clone(x), clone(y)
	var cnd apd.Condition
	var err error
	switch op {
	case "Add":
		cnd, err = ctx.Add(d, xx, yy)
	case "Sub":
		cnd, err = ctx.Sub(d, xx, yy)
	case "Mul":
		cnd, err = ctx.Mul(d, xx, yy)
	case "Quo":
		cnd, err = ctx.Quo(d, xx, yy)
	case "Round":
		cnd, err = ctx.Round(d, xx)
	case "Quantize":
		cnd, err = ctx.Quantize(d, xx, e)
	case "RoundToIntegralExact":
		cnd, err = ctx.RoundToIntegralExact(d, xx)
	}
	return fmt.Sprintf("%s,%d,%s", encDec(d), uint32(cnd), encErr(err))
}

func negated(d *apd.Decimal) *apd.Decimal {
	if d == nil {
		return nil
	}
	n := clone(d)
	n.Negative = !n.Negative
	return n
}

func scaled(d *apd.Decimal, k int) *apd.Decimal {
	n := clone(d)
	n.Exponent += int32(k)
	return n
}

func mirrorMode(i int) int {
	switch roundings[i] {
	case apd.RoundFloor:
		return 3
	case apd.RoundCeiling:
		return 4
	}
	return i
}

func runModes(op string, base apd.Context, x, y *apd.Decimal, e int32, mi, k int) string {
	cs := fmt.Sprintf("md %s %d %d %d %s %s %d %d %d", op, base.Precision, base.MaxExponent, base.MinExponent, encDec(x), encDec(y), e, mi, k)
	enter(cs)
	defer leave()
	var parts []string
	for i := range roundings {
		c := base
		c.Rounding = roundings[i]
		parts = append(parts, runOne(op, c, x, y, e))
	}
	c := base
	c.Rounding = roundings[mi]
	comm, sa, sc := "-", "-", "-"
	if op == "Add" || op == "Mul" {
		comm = runOne(op, c, y, x, e)
	}
	if op == "Sub" {
		sa = runOne("Add", c, x, negated(y), e)
	}
	cm := base
	cm.Rounding = roundings[mirrorMode(mi)]
	// the operands are negated so that the exact result is negated: both for Add/Sub, the first one
	// for Mul/Quo (negating both would leave a product or quotient unchanged)
	my := negated(y)
	if op == "Mul" || op == "Quo" {
		my = y
	}
	mir := runOne(op, cm, negated(x), my, e)
	switch op {
	case "Add", "Sub":
		sc = runOne(op, c, scaled(x, k), scaled(y, k), e)
	case "Mul", "Quo":
		sc = runOne(op, c, scaled(x, k), y, e)
	}
	return cs + " => " + strings.Join(parts, " ") + " ; " + comm + " ; " + sa + " ; " + mir + " ; " + sc
}

func runMono(base apd.Context, mi int, x, y *apd.Decimal) string {
	cs := fmt.Sprintf("mo %d %d %d %d %s %s", base.Precision, base.MaxExponent, base.MinExponent, mi, encDec(x), encDec(y))
	enter(cs)
	defer leave()
	c := base
	c.Rounding = roundings[mi]
	return cs + " => " + runOne("Round", c, x, nil, 0) + " " + runOne("Round", c, y, nil, 0)
}

func init() {
	streams["modes"] = func(r *rng, n int) {
		for i := 0; i < n; i++ {
			if r.coin(15) {
				// Round monotone: y a close neighbour of x
				ctx := r.genCtx(false)
				ctx.Traps = 0
				r.zone = 2
				x := r.genFinite(&ctx)
				y := r.cmpVariant(x)
				if y.Form != apd.Finite {
					y = r.genFinite(&ctx)
				}
				if r.coin(35) {
					// make the rounding of y discard a number of digits at a machine-word boundary
					if np := int(y.NumDigits()) - []int{18, 19, 19, 20, 38, 39}[r.intn(6)]; np >= 1 && np <= int(ctx.MaxExponent) {
						ctx.Precision = uint32(np)
					}
				}
				if r.coin(25) {
					// directed: x = prefix.tail, y = the same value padded with k zeros (+ j), Precision =
					// digits of the prefix, so that y's rounding discards D digits (a machine-word boundary)
					// while x's discards D-k; the tails sit on either side of one half or near one
					q := r.rangeI(1, 12)
					d := []int{18, 19, 19, 20, 38, 39}[r.intn(6)]
					k := r.rangeI(1, d-2)
					m := d - k
					tail := r.randDigits(m)
					switch r.intn(4) {
					case 0: // 0.92.. to 0.99..
						lead := int64(r.rangeI(92, 99))
						if m >= 2 {
							tail = new(big.Int).Add(new(big.Int).Mul(big.NewInt(lead), pow10(m-2)), new(big.Int).Mod(tail, pow10(m-2)))
						}
					case 1: // just above one half
						tail = new(big.Int).Add(new(big.Int).Mul(big.NewInt(5), pow10(m-1)), big.NewInt(int64(r.rangeI(0, 2))))
					case 2: // just below one half
						tail = new(big.Int).Sub(new(big.Int).Mul(big.NewInt(5), pow10(m-1)), big.NewInt(int64(r.rangeI(1, 2))))
					}
					pre := r.coeffShape(q)
					if pre.Sign() == 0 {
						pre = big.NewInt(1)
					}
					xc := new(big.Int).Add(new(big.Int).Mul(pre, pow10(m)), tail)
					yc := new(big.Int).Add(new(big.Int).Mul(xc, pow10(k)), big.NewInt(int64(r.rangeI(0, 1))))
					ng := r.coin(50)
					e0 := r.rangeI(-30, 5)
					ctx.Precision = uint32(len(pre.String()))
					ctx.MaxExponent, ctx.MinExponent = 200, -200
					x = mkDec(apd.Finite, ng, xc, e0)
					y = mkDec(apd.Finite, ng, yc, e0-k)
				}
				emit(runMono(ctx, r.intn(8), x, y))
				continue
			}
			c := r.genArithCase(modeOps, 0, false, false)
			c.Ctx.Traps = 0
			y := c.Y
			if y == nil {
				y = new(apd.Decimal)
			}
			emit(runModes(c.Op, c.Ctx, c.X, y, c.E, r.intn(8), r.rangeI(-6, 6)))
		}
	}
	replayers["md"] = func(f []string) {
		// md op p emax emin x y e mi k
		var c apd.Context
		var p, emax, emin, e, mi, k int
		fmt.Sscan(f[2], &p)
		fmt.Sscan(f[3], &emax)
		fmt.Sscan(f[4], &emin)
		fmt.Sscan(f[7], &e)
		fmt.Sscan(f[8], &mi)
		fmt.Sscan(f[9], &k)
		c.Precision, c.MaxExponent, c.MinExponent = uint32(p), int32(emax), int32(emin)
		emit(runModes(f[1], c, decDec(f[5]), decDec(f[6]), int32(e), mi, k))
	}
	replayers["mo"] = func(f []string) {
		var c apd.Context
		var p, emax, emin, mi int
		fmt.Sscan(f[1], &p)
		fmt.Sscan(f[2], &emax)
		fmt.Sscan(f[3], &emin)
		fmt.Sscan(f[4], &mi)
		c.Precision, c.MaxExponent, c.MinExponent = uint32(p), int32(emax), int32(emin)
		emit(runMono(c, mi, decDec(f[5]), decDec(f[6])))
	}
}
