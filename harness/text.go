package main

import (
	"database/sql/driver"
	"encoding/hex"
	"fmt"
	"math"
	"math/big"
	"strings"

	"github.com/cockroachdb/apd/v3"
)

// ---------- C13 / C14: formatting, parsing, round trips ----------
// fm <dec> => hex(G) hex(g) hex(E) hex(e) hex(f) hex(String) hex(MarshalText) hex(Value) hex(%v) hex(%s) hex(%G) hex(%E) hex(%e)
//             | reparsed: <dec of each of the 13 outputs, or err>
// ps <hex> => ok <dec> <cond> | err ; <UnmarshalText agrees 0/1> <Scan(string) agrees> <Scan([]byte) agrees> <dest after error>
// fv <dec> <flags as 4 bits +,space,-,0> <width|-> <verb> => hex(output)
// cd <dec> => <dec> | err
// cs <ctx> <hex> => ok <dec> <cond> <err> | err

func hx(s string) string {
	if s == "" {
		return "-"
	}
	return hex.EncodeToString([]byte(s))
}

func reparse(s string) string {
	d, _, err := apd.NewFromString(s)
	if err != nil {
		return "err"
	}
	return encDec(d)
}

func runFormat(d0 *apd.Decimal) string {
	return guard("fm "+encDec(d0), func() string {
		d := clone(d0)
		mt, _ := d.MarshalText()
		var dv driver.Valuer = *d
		v, _ := dv.Value()
		outs := []string{d.Text('G'), d.Text('g'), d.Text('E'), d.Text('e'), d.Text('f'), d.String(), string(mt), v.(string),
			fmt.Sprintf("%v", d), fmt.Sprintf("%s", d), fmt.Sprintf("%G", d), fmt.Sprintf("%E", d), fmt.Sprintf("%e", d)}
		if encDec(d) != encDec(d0) {
			return "PANIC operand-modified"
		}
		var hs, rs []string
		for _, o := range outs {
			hs = append(hs, hx(o))
			rs = append(rs, reparse(o))
		}
		return strings.Join(hs, " ") + " | " + strings.Join(rs, " ")
	})
}

// extreme exponents (beyond the package limits, up to the int32 range): only the scientific forms
func runFormatExtreme(d0 *apd.Decimal) string {
	return guard("fx "+encDec(d0), func() string {
		d := clone(d0)
		return hx(d.Text('G')) + " " + hx(d.Text('E')) + " " + hx(d.String()) + " " + hx(fmt.Sprintf("%e", d))
	})
}

func runParse(s string) string {
	return guard("ps "+hx(s), func() string {
		pre := mkDec(apd.Finite, true, big.NewInt(424242), 7)
		d := clone(pre)
		_, cnd, err := d.SetString(s)
		res := "err"
		if err == nil {
			res = fmt.Sprintf("ok %s %d", encDec(d), uint32(cnd))
		}
		n, _, err2 := apd.NewFromString(s)
		agree := func(e error, x *apd.Decimal) int {
			if (e == nil) != (err == nil) {
				return 0
			}
			if e == nil && encDec(x) != encDec(d) {
				return 0
			}
			return 1
		}
		a0 := agree(err2, n)
		var u apd.Decimal
		a1 := agree(u.UnmarshalText([]byte(s)), &u)
		var s1 apd.Decimal
		a2 := agree(s1.Scan(s), &s1)
		var s2 apd.Decimal
		a3 := agree(s2.Scan([]byte(s)), &s2)
		return fmt.Sprintf("%s ; %d %d %d %d", res, a0, a1, a2, a3)
	})
}

func runFormatVerb(d0 *apd.Decimal, flags int, width int, verb byte) string {
	w := "-"
	if width >= 0 {
		w = fmt.Sprint(width)
	}
	return guard(fmt.Sprintf("fv %s %d %s %c", encDec(d0), flags, w, verb), func() string {
		f := "%"
		if flags&8 != 0 {
			f += "+"
		}
		if flags&4 != 0 {
			f += " "
		}
		if flags&2 != 0 {
			f += "-"
		}
		if flags&1 != 0 {
			f += "0"
		}
		if width >= 0 {
			f += fmt.Sprint(width)
		}
		f += string(verb)
		return hx(fmt.Sprintf(f, clone(d0)))
	})
}

// cd <d> <prev> => <form> <neg> <coefficient bytes> <exponent> <composed | err>
// The destination of Compose holds prev beforehand (a fresh Decimal, or a dirty one: NaN, Infinity, another number).
func runCompose(d0, prev *apd.Decimal) string {
	return guard("cd "+encDec(d0)+" "+encDec(prev), func() string {
		d := clone(d0)
		form, neg, coeff, e := d.Decompose(nil)
		n := "0"
		if neg {
			n = "1"
		}
		head := fmt.Sprintf("%d %s %s %d ", form, n, hx(string(coeff)), e)
		out := clone(prev)
		if err := out.Compose(form, neg, coeff, e); err != nil {
			return head + "err"
		}
		// also through a caller-supplied buffer
		form2, neg2, coeff2, e2 := d.Decompose(make([]byte, 0, 64))
		out2 := clone(prev)
		if err := out2.Compose(form2, neg2, coeff2, e2); err != nil || encDec(out2) != encDec(out) {
			return head + "err"
		}
		if encDec(d) != encDec(d0) {
			return head + "err" // Decompose modified its receiver
		}
		return head + encDec(out)
	})
}

func runCtxSetString(ctx apd.Context, s string) string {
	return guard(fmt.Sprintf("cs %s %s", encCtx(&ctx), hx(s)), func() string {
		c := ctx
		d, cnd, err := c.SetString(new(apd.Decimal), s)
		if d == nil {
			return "err"
		}
		return fmt.Sprintf("ok %s %d %s", encDec(d), uint32(cnd), encErr(err))
	})
}

// ---------- string generation ----------
func (r *rng) digitsStr(n int) string {
	var sb strings.Builder
	for i := 0; i < n; i++ {
		sb.WriteByte(byte('0' + r.intn(10)))
	}
	return sb.String()
}
func (r *rng) mixCase(s string) string {
	b := []byte(s)
	for i := range b {
		if b[i] >= 'a' && b[i] <= 'z' && r.coin(40) {
			b[i] -= 32
		}
	}
	return string(b)
}
func (r *rng) grammarString() string { return r.grammarStringL(true) }

// nearLimits: allow written exponents near +-100000 (expensive for the pure-Coq model in narrow contexts)
func (r *rng) grammarStringL(nearLimits bool) string {
	sign := []string{"", "", "+", "-"}[r.intn(4)]
	switch r.intn(10) {
	case 0:
		return sign + r.mixCase([]string{"inf", "infinity"}[r.intn(2)])
	case 1:
		p := ""
		if r.coin(50) {
			p = r.digitsStr(r.rangeI(1, 25))
		}
		return sign + r.mixCase([]string{"nan", "snan"}[r.intn(2)]) + p
	}
	if nearLimits && r.coin(8) {
		// exactly at the edge of the package limits, with leading zeros in the mantissa: the adjusted exponent
		// of the VALUE (not of the string) is 99999, 100000 or 100001, or the exponent of the coefficient is
		// -100001, -100000 or -99999
		ip := strings.Repeat("0", r.rangeI(0, 3)) + []string{"", "", r.digitsStr(r.rangeI(1, 3))}[r.intn(3)]
		fr := strings.Repeat("0", r.rangeI(0, 3)) + r.digitsStr(r.rangeI(1, 4))
		m := ip + "." + fr
		if ip == "" && r.coin(50) {
			m = "." + fr
		}
		if r.coin(25) {
			m = ip + r.digitsStr(1)
			fr = ""
		}
		// position of the first significant digit
		all := strings.TrimSuffix(ip, "") + fr
		if fr == "" {
			all = m
		}
		lead := len(all) - len(strings.TrimLeft(all, "0"))
		intLen := len(ip)
		if fr == "" {
			intLen = len(m)
		}
		// adjusted exponent of the value = written exponent + (intLen - 1 - lead)
		var ev int
		if r.coin(60) {
			ev = r.pick([]int{99999, 100000, 100001}) - (intLen - 1 - lead)
		} else {
			ev = r.pick([]int{-100001, -100000, -99999}) + len(fr)
		}
		return sign + m + []string{"e", "E"}[r.intn(2)] + fmt.Sprint(ev)
	}
	var m string
	switch r.intn(4) {
	case 0:
		m = r.digitsStr(r.rangeI(1, 30))
	case 1:
		m = r.digitsStr(r.rangeI(1, 20)) + "." + r.digitsStr(r.rangeI(0, 20))
	case 2:
		m = "." + r.digitsStr(r.rangeI(1, 20))
	default:
		m = strings.Repeat("0", r.rangeI(0, 4)) + r.digitsStr(r.rangeI(1, 8))
		if r.coin(50) {
			m = "0." + strings.Repeat("0", r.rangeI(0, 6)) + r.digitsStr(r.rangeI(1, 5))
		}
	}
	if r.coin(50) {
		es := []string{"", "", "+", "-"}[r.intn(4)]
		var ev string
		k := r.intn(6)
		if !nearLimits && k < 3 {
			k = 4
		}
		switch k {
		case 0: // near the package limits
			ev = fmt.Sprint(100000 + r.rangeI(-40, 40))
		case 1:
			ev = fmt.Sprint(r.rangeI(99950, 100060))
		case 2:
			ev = r.digitsStr(r.rangeI(1, 12))
		case 3:
			ev = strings.Repeat("0", r.rangeI(0, 3)) + fmt.Sprint(r.rangeI(0, 30))
		default:
			ev = fmt.Sprint(r.rangeI(0, 400))
		}
		m += []string{"e", "E"}[r.intn(2)] + es + ev
	}
	return sign + m
}

var mutBytes = []byte("+-.eE0123456789 nNaAsSiIfFtTyY_xX\x00\x80\xff")

// a byte one bit-operation away from a byte of the grammar's alphabet (case folding by |0x20, &^0x20, +-0x20,
// a stray high bit): control bytes 0x10..0x19, VT, CR, SO, 'P'..'Y', 0xB0..0xB9, ...
func (r *rng) nearGrammarByte() byte {
	g := "+-.0123456789eEnNaAsSiIfFtTyY"[r.intn(29)]
	switch r.intn(6) {
	case 0:
		return g ^ 0x20
	case 1:
		return g &^ 0x20
	case 2:
		return g - 0x20
	case 3:
		return g | 0x80
	case 4:
		return g ^ 0x40
	default:
		return g + 0x20
	}
}

func (r *rng) mutate(s string) string {
	b := []byte(s)
	if r.coin(12) {
		// a sign where the integer parsers would accept one: right after the point or the leading sign
		sg := "+-"[r.intn(2)]
		if i := strings.IndexByte(s, '.'); i >= 0 && r.coin(70) {
			return s[:i+1] + string(sg) + s[i+1:]
		}
		if len(s) > 0 && (s[0] == '+' || s[0] == '-') {
			return s[:1] + string(sg) + s[1:]
		}
		return "." + string(sg) + s
	}
	switch r.intn(4) {
	case 0: // insert
		i := r.intn(len(b) + 1)
		ins := []byte{mutBytes[r.intn(len(mutBytes))]}
		if r.coin(20) {
			ins = []byte{r.nearGrammarByte()}
		}
		if r.coin(5) {
			ins = []byte("İ") // lower-cases to ASCII i under strings.ToLower
		}
		if r.coin(5) {
			ins = []byte("K")
		}
		b = append(b[:i], append(ins, b[i:]...)...)
	case 1: // delete
		if len(b) > 0 {
			i := r.intn(len(b))
			b = append(b[:i], b[i+1:]...)
		}
	case 2: // replace
		if len(b) > 0 {
			b[r.intn(len(b))] = mutBytes[r.intn(len(mutBytes))]
			if r.coin(20) {
				b[r.intn(len(b))] = r.nearGrammarByte()
			}
		}
	default: // duplicate a piece
		if len(b) > 0 {
			i := r.intn(len(b))
			b = append(b[:i], append([]byte{b[i]}, b[i:]...)...)
		}
	}
	return string(b)
}

func (r *rng) textDec() *apd.Decimal {
	ctx := apd.Context{Precision: uint32(r.pick(precChoices)), MaxExponent: 40, MinExponent: -40}
	if r.coin(12) {
		return r.genSpecial()
	}
	var c *big.Int
	if r.coin(12) {
		c = big.NewInt(0)
	} else {
		c = r.coeffShape(r.rangeI(1, 45))
	}
	nd := len(c.String())
	var e int
	switch r.intn(10) {
	case 0:
		e = 0
	case 1:
		e = 1
	case 2: // adjusted exponent at the scientific/plain switch: adj = -6, -7
		e = -6 - (nd - 1) - r.intn(2)
	case 3:
		e = -r.rangeI(1, nd+8)
	case 4: // zeros: the -2000 / -2001 boundary
		e = -r.pick([]int{1, 2, 1999, 2000, 2001, 2002, 33, 65})
	case 5:
		e = r.pick([]int{-100000, 100000 - nd + 1, 100000 - nd, -100000 + 1})
	case 6:
		e = r.rangeI(-400, 400)
	case 7:
		e = -r.pick([]int{32, 64, 96, 128}) - r.rangeI(0, nd)
	case 8:
		e = r.pick([]int{32, 64, 33})
	default:
		return r.genFinite(&ctx)
	}
	return mkDec(apd.Finite, r.coin(50), c, e)
}

func init() {
	streams["text"] = func(r *rng, n int) {
		for i := 0; i < n; i++ {
			switch r.intn(10) {
			case 0, 1, 2:
				if r.coin(4) {
					// any Decimal can be formatted: exponents up to the int32 range (always scientific form)
					c := r.coeffShape(r.rangeI(1, 30))
					if c.Sign() == 0 {
						c = big.NewInt(7)
					}
					e := []int{math.MaxInt32, math.MaxInt32 - r.intn(40), math.MinInt32, math.MinInt32 + r.intn(40), 1 << 30, -(1 << 30), 100001, -100050}[r.intn(8)]
					emit(runFormatExtreme(mkDec(apd.Finite, r.coin(50), c, e)))
					continue
				}
				emit(runFormat(r.textDec()))
			case 3, 4, 5:
				s := r.grammarString()
				switch r.intn(4) {
				case 0:
					s = r.mutate(s)
				case 1:
					s = r.mutate(r.mutate(s))
				}
				if r.coin(4) {
					b := make([]byte, r.rangeI(0, 8))
					for j := range b {
						b[j] = byte(r.intn(256))
					}
					s = string(b)
				}
				emit(runParse(s))
			case 6:
				d := r.textDec()
				w := -1
				if r.coin(80) {
					w = r.rangeI(0, 30)
				}
				emit(runFormatVerb(d, r.intn(16), w, "eEfFgGvs"[r.intn(8)]))
			case 7:
				prev := new(apd.Decimal)
				if r.coin(60) {
					prev = r.textDec()
				}
				emit(runCompose(r.textDec(), prev))
			default:
				ctx := r.genCtx(true)
				s := r.grammarStringL(ctx.MaxExponent > 1000)
				if r.coin(15) {
					s = r.mutate(s)
				}
				emit(runCtxSetString(ctx, s))
			}
		}
	}
	unhex := func(h string) string {
		if h == "-" {
			return ""
		}
		b, _ := hex.DecodeString(h)
		return string(b)
	}
	replayers["fm"] = func(f []string) { emit(runFormat(decDec(f[1]))) }
	replayers["fx"] = func(f []string) { emit(runFormatExtreme(decDec(f[1]))) }
	replayers["ps"] = func(f []string) { emit(runParse(unhex(f[1]))) }
	replayers["cd"] = func(f []string) { emit(runCompose(decDec(f[1]), decDec(f[2]))) }
	replayers["fv"] = func(f []string) {
		var fl int
		fmt.Sscan(f[2], &fl)
		w := -1
		if f[3] != "-" {
			fmt.Sscan(f[3], &w)
		}
		emit(runFormatVerb(decDec(f[1]), fl, w, f[4][0]))
	}
	replayers["cs"] = func(f []string) {
		var p, emax, emin, tr int
		fmt.Sscan(f[1], &p)
		fmt.Sscan(f[2], &emax)
		fmt.Sscan(f[3], &emin)
		fmt.Sscan(f[4], &tr)
		ctx := apd.Context{Precision: uint32(p), MaxExponent: int32(emax), MinExponent: int32(emin), Traps: apd.Condition(tr), Rounding: decRounding(f[5])}
		emit(runCtxSetString(ctx, unhex(f[6])))
	}
}
