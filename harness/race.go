package main

import (
	"fmt"
	"math/big"
	"strings"
	"sync"

	"github.com/cockroachdb/apd/v3"
)

// ---------- C18: goroutines sharing one Context and operand Decimals, each with its own destination ----------
// rc <round> <goroutines> <calls> => ok | diff <first difference>
// Built with -race (bin/apdrace): a data race makes the race detector print a report and exit(66).

type rcCall struct {
	op   string
	x, y int // indices into the shared operands
	e    int32
}

func rcDo(ctx *apd.Context, ops []*apd.Decimal, c rcCall) string {
	d := new(apd.Decimal)
	x, y := ops[c.x], ops[c.y]
	var cnd apd.Condition
	var err error
	extra := ""
	switch c.op {
	case "Add":
		cnd, err = ctx.Add(d, x, y)
	case "Sub":
		cnd, err = ctx.Sub(d, x, y)
	case "Mul":
		cnd, err = ctx.Mul(d, x, y)
	case "Quo":
		cnd, err = ctx.Quo(d, x, y)
	case "QuoInteger":
		cnd, err = ctx.QuoInteger(d, x, y)
	case "Rem":
		cnd, err = ctx.Rem(d, x, y)
	case "Abs":
		cnd, err = ctx.Abs(d, x)
	case "Neg":
		cnd, err = ctx.Neg(d, x)
	case "Round":
		cnd, err = ctx.Round(d, x)
	case "Reduce":
		var n int
		n, cnd, err = ctx.Reduce(d, x)
		extra = fmt.Sprint(n)
	case "Quantize":
		cnd, err = ctx.Quantize(d, x, c.e)
	case "RoundToIntegralValue":
		cnd, err = ctx.RoundToIntegralValue(d, x)
	case "RoundToIntegralExact":
		cnd, err = ctx.RoundToIntegralExact(d, x)
	case "Ceil":
		cnd, err = ctx.Ceil(d, x)
	case "Floor":
		cnd, err = ctx.Floor(d, x)
	case "Cmp":
		cnd, err = ctx.Cmp(d, x, y)
	case "Sqrt":
		cnd, err = ctx.Sqrt(d, x)
	case "Cbrt":
		cnd, err = ctx.Cbrt(d, x)
	case "Exp":
		cnd, err = ctx.Exp(d, x)
	case "Ln":
		cnd, err = ctx.Ln(d, x)
	case "Log10":
		cnd, err = ctx.Log10(d, x)
	case "Pow":
		cnd, err = ctx.Pow(d, x, y)
	// read-only Decimal methods
	case "dCmp":
		extra = fmt.Sprint(x.Cmp(y), x.CmpTotal(y))
	case "dString":
		extra = x.String() + x.Text('e') + x.Text('f') + fmt.Sprintf("%v|%10.3s|%+G", x, x, x)
	case "dSign":
		extra = fmt.Sprint(x.Sign(), x.IsZero(), x.NumDigits())
	case "dInt64":
		v, e := x.Int64()
		f, _ := x.Float64()
		extra = fmt.Sprint(v, e == nil, f)
	case "dModf":
		var i, f apd.Decimal
		x.Modf(&i, &f)
		extra = encDec(&i) + encDec(&f)
	case "dReduce":
		_, n := d.Reduce(x)
		extra = fmt.Sprint(n)
	case "dMarshal":
		b, _ := x.MarshalText()
		fm, ng, co, ex := x.Decompose(nil)
		extra = string(b) + fmt.Sprint(fm, ng, co, ex)
	}
	return fmt.Sprintf("%s,%d,%s,%s", encDec(d), uint32(cnd), encErr(err), extra)
}

var rcOps = []string{"Add", "Sub", "Mul", "Quo", "QuoInteger", "Rem", "Abs", "Neg", "Round", "Reduce", "Quantize",
	"RoundToIntegralValue", "RoundToIntegralExact", "Ceil", "Floor", "Cmp", "Sqrt", "Cbrt", "Exp", "Ln", "Log10", "Pow",
	"dCmp", "dString", "dSign", "dInt64", "dModf", "dReduce", "dMarshal"}

func runRace(r *rng, round int) string {
	ctx := &apd.Context{Precision: uint32(r.rangeI(1, 20)), MaxExponent: int32(r.rangeI(20, 200)), MinExponent: -int32(r.rangeI(0, 200)),
		Rounding: roundings[r.intn(8)], Traps: r.genTrapSet()}
	// shared operands: inline coefficients, heap-backed ones, specials, zeros
	ops := make([]*apd.Decimal, 6)
	for i := range ops {
		switch r.intn(5) {
		case 0:
			ops[i] = mkDec(apd.Finite, r.coin(50), r.coeffShape(r.rangeI(40, 90)), r.rangeI(-60, 10)) // heap
		case 1:
			ops[i] = r.genSpecial()
		case 2:
			ops[i] = mkDec(apd.Finite, r.coin(50), big.NewInt(0), r.rangeI(-5, 5))
		default:
			ops[i] = mkDec(apd.Finite, r.coin(40), r.coeffShape(r.rangeI(1, 18)), r.rangeI(-12, 4))
		}
	}
	g := r.rangeI(2, 8)
	ncalls := r.rangeI(3, 12)
	progs := make([][]rcCall, g)
	for i := range progs {
		progs[i] = make([]rcCall, ncalls)
		for j := range progs[i] {
			op := rcOps[r.intn(len(rcOps))]
			progs[i][j] = rcCall{op: op, x: r.intn(len(ops)), y: r.intn(len(ops)), e: int32(r.rangeI(-4, 4))}
		}
	}
	before := make([]string, len(ops))
	for i, o := range ops {
		before[i] = encDec(o)
	}
	ctxBefore := *ctx
	// sequential baseline
	want := make([][]string, g)
	for i := range progs {
		for _, c := range progs[i] {
			want[i] = append(want[i], rcDo(ctx, ops, c))
		}
	}
	// concurrent run
	got := make([][]string, g)
	var wg sync.WaitGroup
	start := make(chan struct{})
	for i := range progs {
		wg.Add(1)
		go func(i int) {
			defer wg.Done()
			<-start
			for _, c := range progs[i] {
				got[i] = append(got[i], rcDo(ctx, ops, c))
			}
		}(i)
	}
	close(start)
	wg.Wait()
	cs := fmt.Sprintf("rc %d %d %d", round, g, ncalls)
	for i := range progs {
		for j := range progs[i] {
			if got[i][j] != want[i][j] {
				return fmt.Sprintf("%s => diff goroutine=%d call=%s got=%s want=%s", cs, i, progs[i][j].op, got[i][j], want[i][j])
			}
		}
	}
	for i, o := range ops {
		if encDec(o) != before[i] {
			return fmt.Sprintf("%s => diff operand-%d-modified", cs, i)
		}
	}
	if *ctx != ctxBefore {
		return cs + " => diff context-modified"
	}
	return cs + " => ok"
}

func init() {
	streams["race"] = func(r *rng, n int) {
		base := apd.VerifSnapshotGlobals()
		for i := 0; i < n; i++ {
			enter(fmt.Sprintf("rc %d", i))
			emit(runRace(r, i))
			leave()
		}
		if apd.VerifSnapshotGlobals() != base {
			emit("rc -1 0 0 => diff package-state-modified")
		}
	}
}

var _ = strings.Join
