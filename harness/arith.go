package main

import (
	"fmt"
	"math"
	"math/big"
	"strconv"

	"github.com/cockroachdb/apd/v3"
)

// ---------- the arithmetic stream "ar" ----------

type arithCase struct {
	Op    string
	Ctx   apd.Context
	X, Y  *apd.Decimal
	E     int32
	Alias string // n, dx, dy, xy, dxy
	DPre  *apd.Decimal
}

var binaryOps = map[string]bool{"Add": true, "Sub": true, "Mul": true, "Quo": true, "QuoInteger": true,
	"Rem": true, "Pow": true, "Cmp": true}

func clone(d *apd.Decimal) *apd.Decimal {
	if d == nil {
		return nil
	}
	return mkDec(d.Form, d.Negative, d.Coeff.MathBigInt(), int(d.Exponent))
}

func (c *arithCase) String() string {
	return fmt.Sprintf("ar %s %s %s %s %d %s %s", c.Op, encCtx(&c.Ctx), encDec(c.X), encDec(c.Y), c.E, c.Alias, encDec(c.DPre))
}

func parseArith(f []string) *arithCase {
	// ar Op p emax emin traps rnd x y e alias dpre
	c := &arithCase{Op: f[1]}
	p, _ := strconv.ParseUint(f[2], 10, 32)
	emax, _ := strconv.Atoi(f[3])
	emin, _ := strconv.Atoi(f[4])
	tr, _ := strconv.ParseUint(f[5], 10, 32)
	c.Ctx = apd.Context{Precision: uint32(p), MaxExponent: int32(emax), MinExponent: int32(emin),
		Traps: apd.Condition(tr), Rounding: decRounding(f[6])}
	c.X = decDec(f[7])
	c.Y = decDec(f[8])
	e, _ := strconv.Atoi(f[9])
	c.E = int32(e)
	c.Alias = f[10]
	c.DPre = decDec(f[11])
	return c
}

// runArith executes the case on fresh objects under the requested alias pattern and returns the line.
func runArith(c *arithCase) (line string) {
	cs := c.String()
	enter(cs)
	defer leave()
	x := clone(c.X)
	y := clone(c.Y)
	d := clone(c.DPre)
	switch c.Alias {
	case "dx":
		d = x
	case "dy":
		d = y
	case "xy":
		y = x
	case "dxy":
		y = x
		d = x
	}
	ctx := c.Ctx // the method receives a pointer to this copy; compared afterwards
	ctxBefore := ctx
	var res apd.Condition
	var err error
	extra := 0
	defer func() {
		if r := recover(); r != nil {
			line = fmt.Sprintf("%s => PANIC %q", cs, fmt.Sprint(r))
		}
	}()
	switch c.Op {
	case "Add":
		res, err = ctx.Add(d, x, y)
	case "Sub":
		res, err = ctx.Sub(d, x, y)
	case "Mul":
		res, err = ctx.Mul(d, x, y)
	case "Quo":
		res, err = ctx.Quo(d, x, y)
	case "QuoInteger":
		res, err = ctx.QuoInteger(d, x, y)
	case "Rem":
		res, err = ctx.Rem(d, x, y)
	case "Pow":
		res, err = ctx.Pow(d, x, y)
	case "Cmp":
		res, err = ctx.Cmp(d, x, y)
	case "Abs":
		res, err = ctx.Abs(d, x)
	case "Neg":
		res, err = ctx.Neg(d, x)
	case "Round":
		res, err = ctx.Round(d, x)
	case "Reduce":
		extra, res, err = ctx.Reduce(d, x)
	case "Quantize":
		res, err = ctx.Quantize(d, x, c.E)
	case "RoundToIntegralValue":
		res, err = ctx.RoundToIntegralValue(d, x)
	case "RoundToIntegralExact":
		res, err = ctx.RoundToIntegralExact(d, x)
	case "Ceil":
		res, err = ctx.Ceil(d, x)
	case "Floor":
		res, err = ctx.Floor(d, x)
	case "Sqrt":
		res, err = ctx.Sqrt(d, x)
	case "Cbrt":
		res, err = ctx.Cbrt(d, x)
	case "Exp":
		res, err = ctx.Exp(d, x)
	case "Ln":
		res, err = ctx.Ln(d, x)
	case "Log10":
		res, err = ctx.Log10(d, x)
	default:
		panic("unknown op " + c.Op)
	}
	xpost, ypost := "_", "_"
	if x != d {
		xpost = encDec(x)
	}
	if y != nil && y != d && y != x {
		ypost = encDec(y)
	}
	ctxSame := 1
	if ctx != ctxBefore {
		ctxSame = 0
	}
	return fmt.Sprintf("%s => %s %d %s %d %s %s %d", cs, encDec(d), uint32(res), encErr(err), extra, xpost, ypost, ctxSame)
}

var dirtyDest = []func(r *rng) *apd.Decimal{
	func(r *rng) *apd.Decimal { return new(apd.Decimal) },
	func(r *rng) *apd.Decimal { return mkDec(apd.NaN, false, big.NewInt(0), 0) },
	func(r *rng) *apd.Decimal { return mkDec(apd.NaNSignaling, true, big.NewInt(77), 5) },
	func(r *rng) *apd.Decimal { return mkDec(apd.Infinite, r.coin(50), big.NewInt(0), 0) },
	func(r *rng) *apd.Decimal { return mkDec(apd.Finite, true, big.NewInt(0), -7) },
	func(r *rng) *apd.Decimal { return mkDec(apd.Finite, r.coin(50), r.randDigits(r.rangeI(40, 90)), r.rangeI(-50, 50)) },
	func(r *rng) *apd.Decimal { return mkDec(apd.Finite, false, big.NewInt(math.MaxInt64), 0) },
	func(r *rng) *apd.Decimal { return mkDec(apd.Finite, false, r.randDigits(r.rangeI(1, 12)), r.rangeI(-9, 9)) },
}

func (r *rng) genDest() *apd.Decimal { return dirtyDest[r.intn(len(dirtyDest))](r) }

func (r *rng) genAlias(binary bool) string {
	if r.coin(60) {
		return "n"
	}
	if binary {
		return []string{"dx", "dy", "xy", "dxy"}[r.intn(4)]
	}
	return "dx"
}

// second operand shaped relative to the first: equal exponent, small gaps, gap = P, P+1, large gap
func (r *rng) genSecond(c *apd.Context, x *apd.Decimal, specialPct int) *apd.Decimal {
	if r.coin(specialPct) {
		return r.genSpecial()
	}
	y := r.genFinite(c)
	if x.Form != apd.Finite {
		return y
	}
	p := int(c.Precision)
	if p == 0 {
		p = 9
	}
	switch r.intn(10) {
	case 0:
		y.Exponent = x.Exponent
	case 1:
		y.Exponent = x.Exponent + int32(r.rangeI(-2, 2))
	case 2:
		y.Exponent = x.Exponent - int32(p)
	case 3:
		y.Exponent = x.Exponent - int32(p) - 1
	case 4:
		y.Exponent = x.Exponent + int32(p) + int32(r.rangeI(0, 2))
	case 5: // same magnitude, opposite sign: cancellation
		y.Coeff.Set(&x.Coeff)
		y.Exponent = x.Exponent
		y.Negative = !x.Negative
		if r.coin(50) {
			y.Coeff.Add(&y.Coeff, apd.NewBigInt(int64(r.rangeI(0, 3))))
		}
	}
	return y
}

// quotient generated backwards: y random, q with chosen digits, remainder placed relative to y/2
func (r *rng) genQuoPair(c *apd.Context) (*apd.Decimal, *apd.Decimal) {
	p := int(c.Precision)
	if p == 0 {
		p = 5
	}
	yd := r.rangeI(1, p+2)
	ycoef := r.coeffShape(yd)
	if ycoef.Sign() == 0 {
		ycoef = big.NewInt(7)
	}
	qd := r.rangeI(1, p+3)
	q := r.coeffShape(qd)
	// remainder: 0, 1, y/2 - 1, y/2, y/2 + 1, y - 1, random
	rem := new(big.Int)
	half := new(big.Int).Rsh(ycoef, 1)
	switch r.intn(8) {
	case 0:
	case 1:
		rem.SetInt64(1)
	case 2:
		rem.Sub(half, big.NewInt(1))
	case 3:
		rem.Set(half)
	case 4:
		rem.Add(half, big.NewInt(1))
	case 5:
		rem.Sub(ycoef, big.NewInt(1))
	default:
		rem.Rand(newStdRand(r), ycoef)
	}
	if rem.Sign() < 0 || rem.Cmp(ycoef) >= 0 {
		rem.SetInt64(0)
	}
	xcoef := new(big.Int).Mul(q, ycoef)
	xcoef.Add(xcoef, rem)
	emin, emax := int(c.MinExponent), int(c.MaxExponent)
	etiny := emin - p + 1
	// choose the exponent of the quotient so that results land in normal / subnormal / overflow zones
	var qadj int
	kq := r.intn(8)
	if emax-emin > 1000 {
		kq = []int{0, 2, 100}[r.zone]
	}
	switch kq {
	case 100:
		qadj = r.rangeI(-40, 40)
	case 0, 1:
		qadj = r.rangeI(etiny-2, emin+1)
	case 2:
		qadj = r.rangeI(emax-1, emax+1)
	default:
		qadj = r.rangeI(emin, emax)
	}
	ye := r.rangeI(-10, 10)
	xe := qadj - qd + 1 + ye
	return mkDec(apd.Finite, r.coin(50), xcoef, xe), mkDec(apd.Finite, r.coin(50), ycoef, ye)
}

var arithOpsAll = []string{"Add", "Sub", "Mul", "Quo", "QuoInteger", "Rem", "Abs", "Neg", "Round", "Reduce",
	"Quantize", "RoundToIntegralValue", "RoundToIntegralExact", "Ceil", "Floor", "Cmp"}

// genDivPair builds x = q*y + rem backwards: the integer quotient has about Precision digits (just below,
// at, just above the limit that makes the division impossible) and the remainder has up to as many digits
// as the divisor, which may have many more than Precision (so that Rem has to round its result, in the
// mode and with the sign of x); both operands may carry a common or slightly different exponent.
func (r *rng) genDivPair(ctx *apd.Context) (*apd.Decimal, *apd.Decimal) {
	p := int(ctx.Precision)
	if p == 0 {
		p = r.rangeI(1, 12)
	}
	ny := r.pick([]int{1, 2, p, p + 1, p + 3, 2*p + 1, 3*p + 2})
	y := r.coeffShape(ny)
	if y.Sign() == 0 {
		y = big.NewInt(7)
	}
	nq := r.pick([]int{0, 1, p - 1, p, p, p + 1, p + 2})
	q := big.NewInt(0)
	if nq > 0 {
		q = r.coeffShape(nq)
	}
	rem := new(big.Int)
	switch r.intn(5) {
	case 0: // exact division
	case 1: // remainder one below the divisor
		rem.Sub(y, big.NewInt(1))
	case 2: // a remainder with few digits
		rem = r.coeffShape(r.rangeI(1, 3))
		rem.Mod(rem, y)
	default: // a remainder with about as many digits as the divisor: ties, nines, ...
		rem = r.coeffShape(ny)
		rem.Mod(rem, y)
	}
	x := new(big.Int).Mul(q, y)
	x.Add(x, rem)
	e := r.rangeI(-6, 6)
	ex, ey := e, e
	if r.coin(30) { // the same values written with different exponents
		k := r.rangeI(1, 3)
		if r.coin(50) {
			x.Mul(x, pow10(k))
			ex -= k
		} else {
			y = new(big.Int).Mul(y, pow10(k))
			x.Mul(x, pow10(k))
			ey -= k
			ex -= k
		}
	}
	return mkDec(apd.Finite, r.coin(50), x, ex), mkDec(apd.Finite, r.coin(50), y, ey)
}

func (r *rng) genArithCase(ops []string, specialPct int, aliasing bool, allowP0 bool) *arithCase {
	op := ops[r.intn(len(ops))]
	ctx := r.genCtx(allowP0)
	r.zone = r.intn(3)
	switch op {
	case "RoundToIntegralValue", "RoundToIntegralExact", "Ceil", "Floor", "QuoInteger", "Rem", "Cmp", "Pow":
		// these align the operand with exponent 0 or with the other operand: keep exponents small
		r.zone = 2
	}
	c := &arithCase{Op: op, Ctx: ctx, Alias: "n"}
	c.X = r.genDec(&ctx, specialPct)
	if binaryOps[op] {
		if (op == "Quo" || op == "QuoInteger" || op == "Rem") && r.coin(60) && c.X.Form == apd.Finite {
			c.X, c.Y = r.genQuoPair(&ctx)
		} else {
			c.Y = r.genSecond(&ctx, c.X, specialPct)
		}
	}
	if (op == "Quantize" || op == "RoundToIntegralExact" || op == "RoundToIntegralValue") && r.coin(6) {
		// a zero operand: one, two or many fraction digits, positive exponents, exponents at the package limits (a zero has
		// no digits to lose and needs no padding, whatever the distance to the target exponent)
		c.X = mkDec(apd.Finite, r.coin(50), big.NewInt(0), r.pick([]int{-1, -1, -2, -2, -3, -7, 0, 1, 5, 30, -30}))
	}
	if op == "Quantize" && c.X.Form == apd.Finite && c.X.Coeff.Sign() == 0 && r.coin(40) {
		c.E = int32(r.pick([]int{0, 0, 1, -1, 2, -2, 20, -20}))
	} else if op == "Quantize" {
		// target exponent relative to x's exponent and digits, and to etiny/emax
		nd := int(c.X.NumDigits())
		xe := int(c.X.Exponent)
		pickE := r.intn(8)
		if r.coin(3) {
			pickE = 8
		}
		switch pickE {
		case 8: // the target lies more than MaxExponent below the operand's exponent: the scaling power is refused and
			// nothing is computed; also down to the edge of int32, where a negated difference wraps
			gap := r.pick([]int{100001, 100002, 150000, 200001})
			e := xe - gap
			if e < -100000 {
				e = xe - r.pick([]int{1 << 30, 1<<31 - 1, 1 << 31})
				if xe < 0 && r.coin(50) {
					e = xe + 1<<31 // exp - x.Exponent = 2^31: the int32 difference wraps to MinInt32
				}
			}
			if e < math.MinInt32 {
				e = math.MinInt32
			}
			c.E = int32(e)
		case 0:
			c.E = int32(xe)
		case 1:
			c.E = int32(xe + nd) // all digits discarded, p = 0
		case 2:
			c.E = int32(xe + nd + r.rangeI(1, 4)) // far below the quantum
		case 3:
			c.E = int32(xe + r.rangeI(1, nd))
		case 4:
			c.E = int32(xe - r.rangeI(1, 6))
		case 5:
			c.E = ctx.MinExponent - int32(ctx.Precision) + 1 + int32(r.rangeI(-1, 1))
			if xe-int(c.E) > 300 || int(c.E)-xe > 300 {
				c.E = int32(xe + r.rangeI(-3, 3))
			}
		case 6:
			c.E = ctx.MaxExponent + int32(r.rangeI(-1, 1))
			if xe-int(c.E) > 300 || int(c.E)-xe > 300 {
				c.E = int32(xe + r.rangeI(-3, 3))
			}
		default:
			c.E = int32(xe + r.rangeI(-12, 12))
		}
	}
	if aliasing {
		c.Alias = r.genAlias(binaryOps[op])
	}
	c.DPre = r.genDest()
	return c
}

func init() {
	streams["arith"] = func(r *rng, n int) {
		for i := 0; i < n; i++ {
			emit(runArith(r.genArithCase(arithOpsAll, 12, true, true)))
		}
	}
	streams["arith-reduce"] = func(r *rng, n int) {
		for i := 0; i < n; i++ {
			c := r.genArithCase([]string{"Reduce"}, 8, true, true)
			if c.X.Form == apd.Finite && r.coin(50) {
				c.X.Coeff.Mul(&c.X.Coeff, new(apd.BigInt).SetMathBigInt(pow10(r.rangeI(0, 12))))
			}
			emit(runArith(c))
		}
	}
	streams["arith-finite"] = func(r *rng, n int) {
		for i := 0; i < n; i++ {
			emit(runArith(r.genArithCase(arithOpsAll, 0, false, true)))
		}
	}
}

// ---------- focused streams ----------

func init() {
	// Context.Cmp: pairs that are variants of each other (cmpVariant), exponents far apart - up to the whole width of the
	// package's exponent range, where Add and Sub refuse to align but a comparison needs no alignment -, zeros and
	// infinities against finite numbers
	streams["ctxcmp"] = func(r *rng, n int) {
		for i := 0; i < n; i++ {
			c := r.genArithCase([]string{"Cmp"}, 10, true, true)
			if c.X.Form == apd.Finite && r.coin(50) {
				c.Y = r.cmpVariant(c.X)
			}
			if c.X.Form == apd.Finite && c.Y != nil && c.Y.Form == apd.Finite && r.coin(25) {
				ex := r.rangeI(40000, 100000)
				ey := r.rangeI(40000, 100000)
				if r.coin(50) {
					ex = -ex
				} else {
					ey = -ey
				}
				if r.coin(15) {
					ey = ex // same huge exponent
				}
				c.X.Exponent, c.Y.Exponent = int32(ex), int32(ey)
				if c.Alias == "xy" || c.Alias == "dxy" || c.Alias == "all" {
					c.Alias = "n"
				}
			}
			emit(runArith(c))
		}
	}
	streams["quant"] = func(r *rng, n int) {
		ops := []string{"Quantize", "Quantize", "RoundToIntegralValue", "RoundToIntegralExact", "Ceil", "Floor"}
		for i := 0; i < n; i++ {
			emit(runArith(r.genArithCase(ops, 6, true, true)))
		}
	}
	streams["div"] = func(r *rng, n int) {
		ops := []string{"QuoInteger", "Rem"}
		for i := 0; i < n; i++ {
			c := r.genArithCase(ops, 4, true, false)
			if r.coin(45) {
				c.X, c.Y = r.genDivPair(&c.Ctx)
			}
			emit(runArith(c))
		}
	}
	// exhaustive enumeration of the special-operand cells: every operation x every pair of operand
	// kinds (clean and dirty fields) x the eight modes + default x two contexts
	streams["special"] = func(r *rng, n int) {
		kinds := specialOperands()
		ctxs := []apd.Context{
			{Precision: 5, MaxExponent: 20, MinExponent: -20},
			{Precision: 2, MaxExponent: 3, MinExponent: 0, Traps: apd.DefaultTraps},
		}
		rs := append(append([]apd.Rounder{}, roundings...), "")
		for _, op := range arithOpsAll {
			for _, c0 := range ctxs {
				for _, rd := range rs {
					c := c0
					c.Rounding = rd
					for _, x := range kinds {
						if binaryOps[op] {
							for _, y := range kinds {
								if x.Form == apd.Finite && y.Form == apd.Finite && !x.IsZero() && !y.IsZero() {
									continue
								}
								if mine() {
									emit(runArith(&arithCase{Op: op, Ctx: c, X: x, Y: y, Alias: "n", DPre: new(apd.Decimal)}))
								}
							}
						} else {
							e := int32(r.rangeI(-2, 2))
							if mine() {
								emit(runArith(&arithCase{Op: op, Ctx: c, X: x, E: e, Alias: "n", DPre: new(apd.Decimal)}))
							}
						}
					}
				}
			}
		}
		// plus random special-heavy cases under aliasing and dirty destinations
		for i := 0; i < n; i++ {
			emit(runArith(r.genArithCase(arithOpsAll, 55, true, true)))
		}
	}
}

// special-operand cells of the iterative functions: every function x operand kind (x operand kind for
// Pow, with exponents that are odd / even integers in several spellings, fractions and infinities)
func init() {
	streams["special-fn"] = func(r *rng, n int) {
		kinds := specialOperands()
		kinds = append(kinds, mkDec(apd.Finite, false, big.NewInt(1), 0), mkDec(apd.Finite, false, big.NewInt(10), -1),
			mkDec(apd.Finite, false, big.NewInt(100000), -5), mkDec(apd.Finite, true, big.NewInt(100), -2))
		var ykinds []*apd.Decimal
		ykinds = append(ykinds, kinds...)
		for _, neg := range []bool{false, true} {
			for _, ce := range [][2]int{{3, 0}, {4, 0}, {3, 1}, {5, 2}, {30, -1}, {40, -1}, {25, -1}, {7000, -3}, {7001, -3}, {1, 3}, {0, 2}, {5, -1}, {2, 0}} {
				ykinds = append(ykinds, mkDec(apd.Finite, neg, big.NewInt(int64(ce[0])), ce[1]))
			}
		}
		ctxs := []apd.Context{
			{Precision: 5, MaxExponent: 20, MinExponent: -20},
			{Precision: 2, MaxExponent: 3, MinExponent: 0, Traps: apd.DefaultTraps},
			{Precision: 7, MaxExponent: 9, MinExponent: -9, Traps: apd.InvalidOperation | apd.Inexact},
		}
		rs := []apd.Rounder{apd.RoundHalfEven, apd.RoundFloor, apd.RoundDown, ""}
		for _, op := range []string{"Sqrt", "Cbrt", "Exp", "Ln", "Log10", "Pow"} {
			for _, c0 := range ctxs {
				for _, rd := range rs {
					c := c0
					c.Rounding = rd
					for _, x := range kinds {
						if op == "Pow" {
							for _, y := range ykinds {
								if mine() {
									emit(runArith(&arithCase{Op: op, Ctx: c, X: x, Y: y, Alias: "n", DPre: new(apd.Decimal)}))
								}
							}
						} else if mine() {
							emit(runArith(&arithCase{Op: op, Ctx: c, X: x, Alias: "n", DPre: new(apd.Decimal)}))
						}
					}
				}
			}
		}
		// random: special-heavy operands, aliased and dirty destinations
		for i := 0; i < n; i++ {
			ctx := r.genCtx(false)
			op := []string{"Sqrt", "Cbrt", "Exp", "Ln", "Log10", "Pow", "Pow"}[r.intn(7)]
			c := &arithCase{Op: op, Ctx: ctx, X: kinds[r.intn(len(kinds))], Alias: "n", DPre: r.genDest()}
			if r.coin(40) {
				c.X = r.genDec(&ctx, 70)
			}
			if op == "Pow" {
				c.Y = ykinds[r.intn(len(ykinds))]
				if r.coin(30) {
					c.Y = r.genDec(&ctx, 70)
				}
				c.Alias = []string{"n", "n", "dx", "dy", "xy"}[r.intn(5)]
			} else if r.coin(30) {
				c.Alias = "dx"
			}
			// only cells the prologues decide are cheap; keep finite non-special operands small
			// (the table's reading of "integer", "odd" and "compared with one" is plain integer arithmetic
			// on 10^|exponent|: keep the exponents of this stream moderate)
			if c.X.Exponent > 50 {
				c.X.Exponent = 50
			}
			if c.X.Exponent < -60 {
				c.X.Exponent = -60
			}
			if c.Y != nil && c.Y.Exponent > 3 {
				c.Y.Exponent = 3
			}
			if c.Y != nil && c.Y.Exponent < -40 {
				c.Y.Exponent = -40
			}
			emit(runArith(c))
		}
	}
}

func specialOperands() []*apd.Decimal {
	var out []*apd.Decimal
	for _, neg := range []bool{false, true} {
		for _, f := range []apd.Form{apd.NaN, apd.NaNSignaling, apd.Infinite} {
			out = append(out, mkDec(f, neg, big.NewInt(0), 0))
			out = append(out, mkDec(f, neg, big.NewInt(999999), 17)) // dirty fields, as an overflow leaves them
			out = append(out, mkDec(f, neg, big.NewInt(12), -3))
		}
		for _, e := range []int{0, -3, 4, -25, 30} {
			out = append(out, mkDec(apd.Finite, neg, big.NewInt(0), e))
		}
		out = append(out, mkDec(apd.Finite, neg, big.NewInt(1), 0))
		out = append(out, mkDec(apd.Finite, neg, big.NewInt(25), -1))
		out = append(out, mkDec(apd.Finite, neg, big.NewInt(123456789), -4))
	}
	return out
}
