package main

import (
	"fmt"
	"math"
	"math/big"
	"strings"

	"github.com/cockroachdb/apd/v3"
)

// ---------- C17: conversions ----------
// i6 <dec> => <int64>|err <dec after>
// sf <x> <e> => <dec>          (SetFinite on a dirty destination; also New)   si <x> => <dec>   nb <hex> <e> => <dec>
// mf <dec> <b|i|f> => <integ|_> <frac|_> <dec after>
// f6 <dec> => <bits hex> <reference bits hex>          (Float64 against the nearest float64 computed with math/big)
// s6 <bits hex> => <dec> <bits of Float64(SetFloat64(f))> <shorter>   (shorter = 1 if a shorter coefficient also round-trips)

func guard(cs string, f func() string) (line string) {
	enter(cs)
	defer leave()
	defer func() {
		if r := recover(); r != nil {
			line = fmt.Sprintf("%s => PANIC %q", cs, fmt.Sprint(r))
		}
	}()
	return cs + " => " + f()
}

func runInt64(d0 *apd.Decimal) string {
	return guard("i6 "+encDec(d0), func() string {
		d := clone(d0)
		v, err := d.Int64()
		if err != nil {
			return "err " + encDec(d)
		}
		return fmt.Sprintf("%d %s", v, encDec(d))
	})
}

func dirty(r *rng) *apd.Decimal { return r.genDest() }

func runSetFinite(x int64, e int32, dst *apd.Decimal, useNew bool) string {
	return guard(fmt.Sprintf("sf %d %d", x, e), func() string {
		if useNew {
			return encDec(apd.New(x, e))
		}
		d := clone(dst)
		d.SetFinite(x, e)
		return encDec(d)
	})
}
func runSetInt64(x int64, dst *apd.Decimal) string {
	return guard(fmt.Sprintf("si %d", x), func() string {
		d := clone(dst)
		d.SetInt64(x)
		return encDec(d)
	})
}
func runNewBig(v *big.Int, e int32) string {
	return guard(fmt.Sprintf("nb %s %d", v.Text(16), e), func() string {
		var b apd.BigInt
		b.SetMathBigInt(v)
		before := b.String()
		d := apd.NewWithBigInt(&b, e)
		res := encDec(d)
		// the new Decimal must not share storage with the caller's BigInt: write into it and look again
		c := apd.BaseContext.WithPrecision(200)
		c.Add(d, d, apd.New(1, 0))
		c.Mul(d, d, apd.New(3, 0))
		d.Coeff.SetInt64(7)
		if b.String() != before {
			return "MOD"
		}
		return res
	})
}

func runModf(d0 *apd.Decimal, variant string, i0, f0 *apd.Decimal) string {
	return guard(fmt.Sprintf("mf %s %s", encDec(d0), variant), func() string {
		d := clone(d0)
		var integ, frac *apd.Decimal
		if variant != "f" {
			integ = clone(i0)
		}
		if variant != "i" {
			frac = clone(f0)
		}
		d.Modf(integ, frac)
		return encDec(integ) + " " + encDec(frac) + " " + encDec(d)
	})
}

// nearest float64 (ties to even) of the decimal value, computed with math/big only
func refFloat64(d *apd.Decimal) uint64 {
	switch d.Form {
	case apd.NaN, apd.NaNSignaling:
		return math.Float64bits(math.NaN())
	case apd.Infinite:
		if d.Negative {
			return math.Float64bits(math.Inf(-1))
		}
		return math.Float64bits(math.Inf(1))
	}
	c := d.Coeff.MathBigInt()
	if c.Sign() == 0 {
		if d.Negative {
			return math.Float64bits(math.Copysign(0, -1))
		}
		return 0
	}
	r := new(big.Rat).SetInt(c)
	p := new(big.Int).Exp(big.NewInt(10), big.NewInt(int64(abs32(d.Exponent))), nil)
	if d.Exponent >= 0 {
		r.Mul(r, new(big.Rat).SetInt(p))
	} else {
		r.Quo(r, new(big.Rat).SetInt(p))
	}
	if d.Negative {
		r.Neg(r)
	}
	f, _ := r.Float64() // nearest, ties to even; +-Inf beyond the range
	return math.Float64bits(f)
}
func abs32(x int32) int32 {
	if x < 0 {
		return -x
	}
	return x
}

func runFloat64(d0 *apd.Decimal) string {
	return guard("f6 "+encDec(d0), func() string {
		d := clone(d0)
		f, err := d.Float64()
		bits := math.Float64bits(f)
		if f != f {
			bits = math.Float64bits(math.NaN())
		}
		e := ""
		if err != nil {
			e = " range" // ParseFloat reports ErrRange together with +-Inf
		}
		return fmt.Sprintf("%x %x%s", bits, refFloat64(d0), e)
	})
}

func runSetFloat64(bits uint64) string {
	return guard(fmt.Sprintf("s6 %x", bits), func() string {
		f := math.Float64frombits(bits)
		d := dirtyConst()
		if _, err := d.SetFloat64(f); err != nil {
			return "err"
		}
		g, _ := d.Float64()
		gb := math.Float64bits(g)
		if g != g {
			gb = math.Float64bits(math.NaN())
		}
		// is there a shorter coefficient that also round-trips? try the two (n-1)-digit neighbours
		shorter := 0
		if d.Form == apd.Finite && d.Coeff.Sign() != 0 {
			n := int(d.NumDigits())
			if n > 1 {
				c := d.Coeff.MathBigInt()
				q, _ := new(big.Int).QuoRem(c, big.NewInt(10), new(big.Int))
				for _, cand := range []*big.Int{q, new(big.Int).Add(q, big.NewInt(1))} {
					t := mkDec(apd.Finite, d.Negative, cand, int(d.Exponent)+1)
					if refFloat64(t) == bits {
						shorter = 1
					}
				}
			}
		}
		return fmt.Sprintf("%s %x %d", encDec(d), gb, shorter)
	})
}

func dirtyConst() *apd.Decimal { return mkDec(apd.NaN, true, big.NewInt(77), 5) }

func (r *rng) int64Boundary() *apd.Decimal {
	// coefficient * 10^e near +-2^63, with trailing zeros moved between coefficient and exponent
	base := new(big.Int).Lsh(big.NewInt(1), 63)
	switch r.intn(6) {
	case 0:
		base.Add(base, big.NewInt(int64(r.rangeI(-3, 2))))
	case 1:
		base = big.NewInt(int64(r.next() >> 1))
	case 2:
		base = new(big.Int).SetUint64(r.next())
	case 3:
		base = r.coeffShape(r.rangeI(1, 22))
	case 4:
		base = new(big.Int).Lsh(big.NewInt(1), 64)
		base.Add(base, big.NewInt(int64(r.rangeI(-2, 2))))
	default:
		base = big.NewInt(int64(r.rangeI(0, 1000)))
	}
	e := 0
	switch r.intn(5) {
	case 0: // strip k digits into the exponent (exact only if they are zeros)
		k := r.rangeI(1, 6)
		q, m := new(big.Int).QuoRem(base, pow10(k), new(big.Int))
		if m.Sign() == 0 || r.coin(30) {
			base, e = q, k
		}
	case 1: // append k zeros, negative exponent: same integer value
		k := r.rangeI(1, 8)
		base.Mul(base, pow10(k))
		e = -k
		if r.coin(20) {
			base.Add(base, big.NewInt(int64(r.rangeI(1, 9)))) // fractional part
		}
	case 2:
		e = r.rangeI(1, 20)
	case 3:
		e = -r.rangeI(1, 25)
	}
	return mkDec(apd.Finite, r.coin(50), base, e)
}

func init() {
	streams["conv"] = func(r *rng, n int) {
		ctx := apd.Context{Precision: 16, MaxExponent: 40, MinExponent: -40}
		for i := 0; i < n; i++ {
			switch r.intn(9) {
			case 0, 1:
				d := r.int64Boundary()
				if r.coin(8) {
					d = r.genSpecial()
				}
				if r.coin(5) {
					d = mkDec(apd.Finite, r.coin(50), big.NewInt(0), r.rangeI(-100000, 100000))
				}
				emit(runInt64(d))
			case 2:
				x := int64(r.next())
				if r.coin(40) {
					x = []int64{0, 1, -1, math.MaxInt64, math.MinInt64, math.MinInt64 + 1, 1 << 32, -(1 << 32)}[r.intn(8)]
				}
				switch r.intn(3) {
				case 0:
					emit(runSetFinite(x, int32(r.rangeI(-100000, 100000)), dirty(r), r.coin(50)))
				case 1:
					emit(runSetInt64(x, dirty(r)))
				default:
					v := r.biValue()
					emit(runNewBig(v, int32(r.rangeI(-50, 50))))
				}
			case 3, 4:
				r.zone = 2
				d := r.genFinite(&ctx)
				if r.coin(40) {
					d = r.int64Boundary()
				}
				emit(runModf(d, []string{"b", "i", "f"}[r.intn(3)], dirty(r), dirty(r)))
			case 5, 6:
				var d *apd.Decimal
				switch r.intn(5) {
				case 0:
					d = r.genSpecial()
				case 1: // near the float64 range limits
					d = mkDec(apd.Finite, r.coin(50), r.coeffShape(r.rangeI(1, 20)), r.pick([]int{-345, -330, -324, -323, -310, 290, 300, 308, 309}))
				case 2: // halfway cases: 2^53 + 1 times powers
					c := new(big.Int).Lsh(big.NewInt(1), 53)
					c.Add(c, big.NewInt(int64(r.rangeI(-2, 2))))
					d = mkDec(apd.Finite, r.coin(50), c, r.rangeI(-20, 20))
				case 3:
					d = mkDec(apd.Finite, r.coin(50), r.coeffShape(r.rangeI(1, 40)), r.rangeI(-60, 40))
				default:
					r.zone = 2
					d = r.genFinite(&ctx)
				}
				emit(runFloat64(d))
			default:
				var bits uint64
				switch r.intn(6) {
				case 0:
					bits = r.next()
				case 1: // exponent boundaries
					bits = uint64(r.intn(2048))<<52 | uint64(r.intn(3))
					if r.coin(50) {
						bits |= (1<<52 - 1) - uint64(r.intn(3))
					}
				case 2: // subnormals
					bits = r.next() >> uint(12+r.intn(52))
				case 3: // integers and halves
					bits = math.Float64bits(float64(int64(r.next()>>uint(r.intn(64)))) / float64(int64(1)<<uint(r.intn(8))))
				case 4: // short decimals
					bits = math.Float64bits(float64(r.rangeI(-99999, 99999)) / math.Pow(10, float64(r.rangeI(0, 12))))
				default:
					bits = []uint64{0, 1 << 63, 0x7ff0000000000000, 0xfff0000000000000, 0x7ff8000000000001, 1, 0x7fefffffffffffff, 0x0010000000000000}[r.intn(8)]
				}
				if r.coin(50) {
					bits ^= 1 << 63
				}
				emit(runSetFloat64(bits))
			}
		}
	}
	replayers["i6"] = func(f []string) { emit(runInt64(decDec(f[1]))) }
	replayers["mf"] = func(f []string) { emit(runModf(decDec(f[1]), f[2], dirtyConst(), dirtyConst())) }
	replayers["f6"] = func(f []string) { emit(runFloat64(decDec(f[1]))) }
	replayers["s6"] = func(f []string) {
		var b uint64
		fmt.Sscanf(f[1], "%x", &b)
		emit(runSetFloat64(b))
	}
	replayers["sf"] = func(f []string) {
		var x int64
		var e int32
		fmt.Sscan(f[1], &x)
		fmt.Sscan(f[2], &e)
		emit(runSetFinite(x, e, dirtyConst(), false))
	}
	replayers["si"] = func(f []string) {
		var x int64
		fmt.Sscan(f[1], &x)
		emit(runSetInt64(x, dirtyConst()))
	}
	replayers["nb"] = func(f []string) {
		v, _ := new(big.Int).SetString(f[1], 16)
		var e int32
		fmt.Sscan(f[2], &e)
		emit(runNewBig(v, e))
	}
}

var _ = strings.Join
