package main

import (
	"math/big"

	"github.com/cockroachdb/apd/v3"
)

// SplitMix64: every random choice of a run derives from one state seeded by VERIF_SEED.
type rng struct {
	s    uint64
	zone int // exponent zone of the current case in wide contexts: 0 bottom, 1 top, 2 middle
}

func (r *rng) next() uint64 {
	r.s += 0x9e3779b97f4a7c15
	z := r.s
	z = (z ^ (z >> 30)) * 0xbf58476d1ce4e5b9
	z = (z ^ (z >> 27)) * 0x94d049bb133111eb
	return z ^ (z >> 31)
}
func (r *rng) intn(n int) int {
	if n <= 0 {
		return 0
	}
	return int(r.next() % uint64(n))
}
func (r *rng) rangeI(lo, hi int) int { return lo + r.intn(hi-lo+1) }
func (r *rng) coin(pct int) bool     { return r.intn(100) < pct }
func (r *rng) pick(xs []int) int     { return xs[r.intn(len(xs))] }

var roundings = []apd.Rounder{apd.RoundDown, apd.RoundHalfUp, apd.RoundHalfEven, apd.RoundCeiling,
	apd.RoundFloor, apd.RoundHalfDown, apd.RoundUp, apd.Round05Up}

func pow10(n int) *big.Int {
	return new(big.Int).Exp(big.NewInt(10), big.NewInt(int64(n)), nil)
}

// randDigits returns a uniformly random integer with exactly n decimal digits (n >= 1).
func (r *rng) randDigits(n int) *big.Int {
	b := new(big.Int)
	ten := big.NewInt(10)
	for i := 0; i < n; i++ {
		d := r.intn(10)
		if i == 0 {
			d = 1 + r.intn(9)
		}
		b.Mul(b, ten)
		b.Add(b, big.NewInt(int64(d)))
	}
	return b
}

// coeffShape returns a non-negative coefficient with n digits from one of the structured families.
func (r *rng) coeffShape(n int) *big.Int {
	if n < 1 {
		n = 1
	}
	switch r.intn(16) {
	case 14, 15: // around the machine-word boundaries 2^63, 2^64, 2^127, 2^128 (fast-path limits)
		b := new(big.Int).Lsh(big.NewInt(1), uint([]int{63, 64, 64, 127, 128}[r.intn(5)]))
		b.Add(b, big.NewInt(int64(r.rangeI(-2, 2))))
		if r.coin(50) { // pad or trim to about n digits keeping the boundary in the leading digits
			return b
		}
		l := len(b.String())
		if n > l {
			b.Mul(b, pow10(n-l))
			if r.coin(50) {
				b.Add(b, new(big.Int).Sub(pow10(n-l), big.NewInt(1)))
			}
		}
		return b
	case 0: // power of ten
		return pow10(n - 1)
	case 1: // all nines
		return new(big.Int).Sub(pow10(n), big.NewInt(1))
	case 2: // 5 * 10^k
		return new(big.Int).Mul(big.NewInt(5), pow10(n-1))
	case 3: // 5*10^k + 1
		return new(big.Int).Add(new(big.Int).Mul(big.NewInt(5), pow10(n-1)), big.NewInt(1))
	case 4: // 5*10^k - 1  (49..9)
		if n == 1 {
			return big.NewInt(4)
		}
		return new(big.Int).Sub(new(big.Int).Mul(big.NewInt(5), pow10(n-1)), big.NewInt(1))
	case 5: // 10..01
		if n == 1 {
			return big.NewInt(1)
		}
		return new(big.Int).Add(pow10(n-1), big.NewInt(1))
	case 6: // random prefix then a tie tail 50..0
		k := r.rangeI(1, n)
		p := r.randDigits(k)
		if k < n {
			p.Mul(p, pow10(n-k))
			p.Add(p, new(big.Int).Mul(big.NewInt(5), pow10(n-k-1)))
		}
		return p
	case 7: // random prefix, nines tail
		k := r.rangeI(1, n)
		p := r.randDigits(k)
		if k < n {
			p.Mul(p, pow10(n-k))
			p.Add(p, new(big.Int).Sub(pow10(n-k), big.NewInt(1)))
		}
		return p
	case 8: // random prefix, zeros tail
		k := r.rangeI(1, n)
		p := r.randDigits(k)
		p.Mul(p, pow10(n-k))
		return p
	case 9: // random prefix, tail 49..9 or 50..01
		k := r.rangeI(1, n)
		p := r.randDigits(k)
		if n-k >= 2 {
			p.Mul(p, pow10(n-k))
			t := new(big.Int).Mul(big.NewInt(5), pow10(n-k-1))
			if r.coin(50) {
				t.Sub(t, big.NewInt(1))
			} else {
				t.Add(t, big.NewInt(1))
			}
			p.Add(p, t)
		}
		return p
	default:
		return r.randDigits(n)
	}
}

type ctxShape struct {
	c apd.Context
}

var precChoices = []int{1, 1, 2, 2, 3, 3, 4, 5, 7, 9, 16, 34}

// genCtx returns a well-formed context: small exponent ranges so that subnormal, clamp and overflow
// are reached by small numbers, plus occasionally the package limits.
func (r *rng) genCtx(allowP0 bool) apd.Context {
	var c apd.Context
	p := r.pick(precChoices)
	if r.coin(8) {
		p = r.rangeI(35, 60)
	}
	switch r.intn(10) {
	case 0:
		c.MaxExponent, c.MinExponent = 100000, -100000
	case 1:
		c.MaxExponent, c.MinExponent = int32(r.rangeI(p, p+3)), 0
	case 2:
		c.MaxExponent, c.MinExponent = int32(r.rangeI(p, p+6)), -1
	case 3, 4:
		c.MaxExponent, c.MinExponent = int32(r.rangeI(p, p+8)), int32(-r.rangeI(0, 8))
	default:
		c.MaxExponent, c.MinExponent = int32(r.rangeI(p, 40)), int32(-r.rangeI(0, 40))
	}
	if int(c.MaxExponent) < p {
		c.MaxExponent = int32(p)
	}
	c.Precision = uint32(p)
	if allowP0 && r.coin(6) {
		c.Precision = 0
	}
	switch k := r.intn(20); {
	case k < 16:
		c.Rounding = roundings[k%8]
	case k < 18:
		c.Rounding = ""
	default:
		c.Rounding = "bogus"
	}
	switch r.intn(8) {
	case 0:
		c.Traps = apd.DefaultTraps
	case 1:
		c.Traps = apd.Condition(1) << uint(r.intn(12))
	case 2:
		c.Traps = apd.Condition(r.intn(4096))
	case 3:
		c.Traps = 4095
	default:
		c.Traps = 0
	}
	return c
}

func mkDec(form apd.Form, neg bool, coeff *big.Int, exp int) *apd.Decimal {
	d := new(apd.Decimal)
	d.Form = form
	d.Negative = neg
	d.Exponent = int32(exp)
	d.Coeff.SetMathBigInt(coeff)
	return d
}

// genFinite returns a finite decimal shaped relative to context c (digits vs Precision, exponent vs
// Emin/Etiny/Emax).
func (r *rng) genFinite(c *apd.Context) *apd.Decimal {
	p := int(c.Precision)
	if p == 0 {
		p = r.rangeI(1, 20)
	}
	var nd int
	switch r.intn(8) {
	case 0:
		nd = r.rangeI(1, p)
	case 1:
		nd = p
	case 2:
		nd = p + 1
	case 3:
		nd = p + 2
	case 4:
		nd = 2 * p
	case 5:
		nd = 2*p + 1
	case 6:
		nd = r.rangeI(1, 3*p+3)
	default:
		nd = r.rangeI(1, p+3)
	}
	if r.coin(1) {
		nd = r.rangeI(39, 80) // beyond the 128-bit tables
	}
	if r.coin(6) {
		// discard a number of digits at the 64-bit / 128-bit word boundaries (10^19 < 2^64 < 10^20, 10^38 < 2^128 < 10^39)
		nd = p + []int{17, 18, 19, 19, 20, 21, 37, 38, 39, 40}[r.intn(10)]
	}
	coeff := r.coeffShape(nd)
	if r.coin(6) {
		coeff = big.NewInt(0)
		nd = 1
	}
	emin, emax := int(c.MinExponent), int(c.MaxExponent)
	etiny := emin - p + 1
	var adj int // target adjusted exponent
	k := r.intn(12)
	wide := emax-emin > 1000
	if wide {
		// package-limit contexts: keep all operands of one case in one zone so that exponent
		// gaps stay small enough for the pure (non-GMP) evaluation of the model
		switch r.zone {
		case 0:
			k = r.intn(5)
		case 1:
			k = 5 + r.intn(3)
		default:
			k = 100
		}
	}
	switch k {
	case 0:
		adj = emin
	case 1:
		adj = emin - 1
	case 2:
		adj = etiny
	case 3:
		adj = etiny - 1
	case 4:
		adj = r.rangeI(etiny-3, emin+1)
	case 5:
		adj = emax
	case 6:
		adj = emax + 1
	case 7:
		adj = emax - 1
	case 8:
		adj = r.rangeI(etiny-nd-2, etiny)
	case 100:
		adj = r.rangeI(-40, 40)
	default:
		adj = r.rangeI(emin, emax)
	}
	e := adj - nd + 1
	if r.coin(25) && (!wide || r.zone == 2) {
		e = r.rangeI(-nd-3, 3)
	}
	if e > 100000-nd {
		e = 100000 - nd
	}
	if e < -100000 {
		e = -100000
	}
	return mkDec(apd.Finite, r.coin(50), coeff, e)
}

// genSpecial returns NaN / sNaN / Infinity with clean or dirty coefficient and exponent fields.
func (r *rng) genSpecial() *apd.Decimal {
	forms := []apd.Form{apd.Infinite, apd.NaN, apd.NaNSignaling}
	f := forms[r.intn(3)]
	if r.coin(60) {
		return mkDec(f, r.coin(50), big.NewInt(0), 0)
	}
	return mkDec(f, r.coin(50), r.coeffShape(r.rangeI(1, 12)), r.rangeI(-30, 30))
}

func (r *rng) genDec(c *apd.Context, specialPct int) *apd.Decimal {
	if r.coin(specialPct) {
		return r.genSpecial()
	}
	return r.genFinite(c)
}
