package main

import (
	"fmt"
	"math/big"
	"math/rand"

	"github.com/cockroachdb/apd/v3"
)

type rngSource struct{ r *rng }

func (s rngSource) Int63() int64 { return int64(s.r.next() >> 1) }
func (s rngSource) Seed(int64)   {}
func newStdRand(r *rng) *rand.Rand { return rand.New(rngSource{r}) }

// ---------- NumDigits stream "nd" ----------

func runNumDigits(b *big.Int) (line string) {
	cs := "nd " + b.Text(16)
	enter(cs)
	defer leave()
	defer func() {
		if r := recover(); r != nil {
			line = fmt.Sprintf("%s => PANIC %q", cs, fmt.Sprint(r))
		}
	}()
	var z apd.BigInt
	z.SetMathBigInt(b)
	n := apd.NumDigits(&z)
	return fmt.Sprintf("%s => %d", cs, n)
}

// NumDigits of 10^k + delta with k in the thousands: the expected count is known without the model
// evaluating a number of that size ("ndp k delta sign => n")
func runNumDigitsPow10(k, delta int, neg bool) (line string) {
	sg := 0
	if neg {
		sg = 1
	}
	cs := fmt.Sprintf("ndp %d %d %d", k, delta, sg)
	enter(cs)
	defer leave()
	defer func() {
		if r := recover(); r != nil {
			line = fmt.Sprintf("%s => PANIC %q", cs, fmt.Sprint(r))
		}
	}()
	v := pow10(k)
	v.Add(v, big.NewInt(int64(delta)))
	if neg {
		v.Neg(v)
	}
	var z apd.BigInt
	z.SetMathBigInt(v)
	return fmt.Sprintf("%s => %d", cs, apd.NumDigits(&z))
}

// ---------- Decimal.Reduce stream "dr": dr <x> <dpre> <alias> ----------

func runDecReduce(x0, dpre *apd.Decimal, alias string) (line string) {
	cs := fmt.Sprintf("dr %s %s %s", encDec(x0), encDec(dpre), alias)
	enter(cs)
	defer leave()
	defer func() {
		if r := recover(); r != nil {
			line = fmt.Sprintf("%s => PANIC %q", cs, fmt.Sprint(r))
		}
	}()
	x := clone(x0)
	d := clone(dpre)
	if alias == "dx" {
		d = x
	}
	_, n := d.Reduce(x)
	xpost := "_"
	if x != d {
		xpost = encDec(x)
	}
	return fmt.Sprintf("%s => %s %d %s", cs, encDec(d), n, xpost)
}

func init() {
	streams["numdigits"] = func(r *rng, n int) {
		one := big.NewInt(1)
		// every bit length 1..140 at its boundaries and at the decimal borders inside it
		for bl := 0; bl <= 140; bl++ {
			lo := new(big.Int).Lsh(one, uint(bl))
			for _, delta := range []int64{-2, -1, 0, 1} {
				v := new(big.Int).Add(lo, big.NewInt(delta))
				if mine() {
					emit(runNumDigits(v))
					emit(runNumDigits(new(big.Int).Neg(v)))
				}
			}
		}
		for k := 0; k <= 45; k++ {
			p := pow10(k)
			for _, delta := range []int64{-1, 0, 1} {
				v := new(big.Int).Add(p, big.NewInt(delta))
				if mine() {
					emit(runNumDigits(v))
					emit(runNumDigits(new(big.Int).Neg(v)))
				}
			}
		}
		// powers of ten and their neighbours far beyond the table: every k up to 130, then sampled up to
		// 30000 digits (the float estimate of the slow path is exercised at every size)
		for k := 46; k <= 130; k++ {
			for _, delta := range []int{-1, 0, 1} {
				if mine() {
					emit(runNumDigitsPow10(k, delta, k%2 == 0))
				}
			}
		}
		// every k: the value just below each digit boundary (and the boundary itself) at every bit length up
		// to about 20000 bits in the quick tier, 100000 bits in the thorough tier (n tells the tier)
		kmax := 6000
		if n > 1000 {
			kmax = 30000
		}
		for k := 131; k <= kmax; k++ {
			if mine() {
				emit(runNumDigitsPow10(k, -1, k%3 == 0))
				emit(runNumDigitsPow10(k, 0, k%5 == 0)) // an estimate that is too low shows only at or above 10^k
				if k%4 == 0 {
					emit(runNumDigitsPow10(k, 1, k%7 == 0))
				}
			}
		}
		for i := 0; i < n; i++ {
			var v *big.Int
			switch r.intn(6) {
			case 0:
				v = r.coeffShape(r.rangeI(1, 45))
			case 1:
				v = r.coeffShape(r.rangeI(38, 400))
			case 2: // 10^k +/- small around big sizes
				v = pow10(r.rangeI(39, 400))
				v.Add(v, big.NewInt(int64(r.rangeI(-1, 1))))
			case 3: // 2^k +/- small
				v = new(big.Int).Lsh(one, uint(r.rangeI(120, 1400)))
				v.Add(v, big.NewInt(int64(r.rangeI(-1, 1))))
			case 4:
				v = new(big.Int).Rand(newStdRand(r), new(big.Int).Lsh(one, uint(r.rangeI(1, 600))))
			default:
				v = r.coeffShape(r.rangeI(1, 300))
			}
			if r.coin(40) {
				v.Neg(v)
			}
			emit(runNumDigits(v))
		}
	}
	streams["decreduce"] = func(r *rng, n int) {
		for i := 0; i < n; i++ {
			ctx := r.genCtx(false)
			x := r.genDec(&ctx, 8)
			if x.Form == apd.Finite && r.coin(50) {
				// append zeros
				x.Coeff.Mul(&x.Coeff, apd.NewBigInt(0).SetMathBigInt(pow10(r.rangeI(0, 30))))
			}
			alias := "n"
			if r.coin(30) {
				alias = "dx"
			}
			emit(runDecReduce(x, r.genDest(), alias))
		}
	}
}
