package main

import (
	"encoding/hex"
	"fmt"
	"math/big"
	"strings"

	"github.com/cockroachdb/apd/v3"
)

// ---------- C16: method sequences on a register file of BigInts, mirrored on math/big ----------
//
// bi <n> {op d a b arg}* => step ; step ; ...
// step = <state d> <state m|-> sign bitlen isint64 isuint64 int64|- uint64|- cmp cmpabs bit0
//        ~ <mirror d> <mirror m|-> sign bitlen isint64 isuint64 int64|- uint64|- cmp cmpabs bit0 textok
// state = i/<neg>/<w0 hex>/<w1 hex>  or  h/<signed hex value>      (through the verif hook)

type biStep struct {
	op      string
	d, a, b int
	arg     string // decimal (SetInt64, SetUint64, SetDec, SetMath, Lsh, Rsh, SetBit, Exp: unused)
}

var biModelled = []string{"SetInt64", "SetUint64", "SetDec", "SetMath", "Set", "Abs", "Neg", "Add", "Sub", "Mul", "Quo", "Rem",
	"QuoRem", "Lsh", "Rsh", "Sqrt"}
var biMirrorOnly = []string{"Div", "Mod", "DivMod", "And", "Or", "Xor", "AndNot", "Not", "Exp", "GCD", "GCDx", "GCDy", "Gob", "SetBit"}

func biState(z *apd.BigInt) string {
	inline, ns, w0, w1 := apd.VerifBigIntState(z)
	if inline {
		n := 0
		if ns {
			n = 1
		}
		return fmt.Sprintf("i/%d/%x/%x", n, w0, w1)
	}
	return "h/" + z.MathBigInt().Text(16)
}

func b2i(b bool) int {
	if b {
		return 1
	}
	return 0
}

func (r *rng) biValue() *big.Int {
	one := big.NewInt(1)
	var v *big.Int
	switch r.intn(10) {
	case 0:
		v = big.NewInt(int64(r.rangeI(-3, 3)))
	case 1, 2, 3: // around the word boundaries
		v = new(big.Int).Lsh(one, uint([]int{31, 32, 62, 63, 64, 65, 126, 127, 128, 129}[r.intn(10)]))
		v.Add(v, big.NewInt(int64(r.rangeI(-2, 2))))
	case 4:
		v = new(big.Int).Rand(newStdRand(r), new(big.Int).Lsh(one, 64))
	case 5:
		v = new(big.Int).Rand(newStdRand(r), new(big.Int).Lsh(one, 128))
	case 6:
		v = new(big.Int).Rand(newStdRand(r), new(big.Int).Lsh(one, uint(r.rangeI(1, 600))))
	case 7:
		v = r.coeffShape(r.rangeI(1, 45))
	case 8:
		v = new(big.Int).Rand(newStdRand(r), big.NewInt(1000))
	default:
		v = new(big.Int).Rand(newStdRand(r), new(big.Int).Lsh(one, uint(r.rangeI(1, 140))))
	}
	if r.coin(40) {
		v.Neg(v)
	}
	return v
}

func runBigInt(prog []biStep) (line string) {
	var sb strings.Builder
	fmt.Fprintf(&sb, "bi %d", len(prog))
	for _, s := range prog {
		fmt.Fprintf(&sb, " %s %d %d %d %s", s.op, s.d, s.a, s.b, s.arg)
	}
	cs := sb.String()
	enter(cs)
	defer leave()
	var outs []string
	defer func() {
		if r := recover(); r != nil {
			line = fmt.Sprintf("%s => PANIC %q after %d steps", cs, fmt.Sprint(r), len(outs))
		}
	}()
	regs := make([]apd.BigInt, 4) // zero values, ready to use
	mir := make([]*big.Int, 4)
	for i := range mir {
		mir[i] = new(big.Int)
	}
	for _, s := range prog {
		z, x, y := &regs[s.d], &regs[s.a], &regs[s.b]
		mz, mx, my := mir[s.d], new(big.Int).Set(mir[s.a]), new(big.Int).Set(mir[s.b])
		argv, _ := new(big.Int).SetString(s.arg, 10)
		m2 := -1
		switch s.op {
		case "SetInt64":
			z.SetInt64(argv.Int64())
			mz.SetInt64(argv.Int64())
		case "SetUint64":
			z.SetUint64(argv.Uint64())
			mz.SetUint64(argv.Uint64())
		case "SetDec":
			if _, ok := z.SetString(s.arg, 10); !ok {
				panic("SetString rejected " + s.arg)
			}
			mz.SetString(s.arg, 10)
		case "SetMath":
			z.SetMathBigInt(argv)
			mz.Set(argv)
		case "Set":
			z.Set(x)
			mz.Set(mx)
		case "Abs":
			z.Abs(x)
			mz.Abs(mx)
		case "Neg":
			z.Neg(x)
			mz.Neg(mx)
		case "Add":
			z.Add(x, y)
			mz.Add(mx, my)
		case "Sub":
			z.Sub(x, y)
			mz.Sub(mx, my)
		case "Mul":
			z.Mul(x, y)
			mz.Mul(mx, my)
		case "Quo":
			z.Quo(x, y)
			mz.Quo(mx, my)
		case "Rem":
			z.Rem(x, y)
			mz.Rem(mx, my)
		case "QuoRem":
			m2 = s.b // remainder register = (d+1)%4 is chosen by the generator and passed in arg
			var ri int
			fmt.Sscan(s.arg, &ri)
			m2 = ri
			z.QuoRem(x, y, &regs[ri])
			mir[s.d].QuoRem(mx, my, mir[ri]) // the mirror with the same aliasing (ri may be d: math/big stores the remainder last)
			mz = mir[s.d]
		case "Lsh":
			z.Lsh(x, uint(argv.Int64()))
			mz.Lsh(mx, uint(argv.Int64()))
		case "Rsh":
			z.Rsh(x, uint(argv.Int64()))
			mz.Rsh(mx, uint(argv.Int64()))
		case "Sqrt":
			z.Sqrt(x)
			mz.Sqrt(mx)
		case "Div":
			z.Div(x, y)
			mz.Div(mx, my)
		case "Mod":
			z.Mod(x, y)
			mz.Mod(mx, my)
		case "DivMod":
			var ri int
			fmt.Sscan(s.arg, &ri)
			m2 = ri
			z.DivMod(x, y, &regs[ri])
			mir[s.d].DivMod(mx, my, mir[ri]) // the mirror with the same aliasing (ri may be d)
		case "And":
			z.And(x, y)
			mz.And(mx, my)
		case "Or":
			z.Or(x, y)
			mz.Or(mx, my)
		case "Xor":
			z.Xor(x, y)
			mz.Xor(mx, my)
		case "AndNot":
			z.AndNot(x, y)
			mz.AndNot(mx, my)
		case "Not":
			z.Not(x)
			mz.Not(mx)
		case "Exp":
			z.Exp(x, y, nil)
			mz.Exp(mx, my, nil)
		case "GCD":
			z.GCD(nil, nil, x, y)
			mz.GCD(nil, nil, mx, my)
		case "GCDx", "GCDy":
			// one Bezout cofactor into register ri (distinct from d, a, b); a zero cofactor is a plain zero
			// (math/big itself can leave the sign set on it: x for GCD(-6, 3))
			var ri int
			fmt.Sscan(s.arg, &ri)
			m2 = ri
			if s.op == "GCDx" {
				z.GCD(&regs[ri], nil, x, y)
				mir[s.d].GCD(mir[ri], nil, mx, my) // the mirror with the same aliasing (ri may be d)
			} else {
				z.GCD(nil, &regs[ri], x, y)
				mir[s.d].GCD(nil, mir[ri], mx, my)
			}
			if mir[ri].Sign() == 0 {
				mir[ri].SetInt64(0)
			}
		case "Gob":
			// z.GobDecode of the bytes in arg (hex): a gob encoding of x, or hand-made (a negative zero)
			raw, _ := hex.DecodeString(s.arg)
			e1 := z.GobDecode(raw)
			e2 := mz.GobDecode(raw)
			if (e1 == nil) != (e2 == nil) {
				panic("GobDecode error mismatch")
			}
			if mz.Sign() == 0 {
				mz.SetInt64(0)
			}
		case "SetBit":
			z.SetBit(x, int(argv.Int64()), uint(s.b&1))
			mz.SetBit(mx, int(argv.Int64()), uint(s.b&1))
		default:
			panic("unknown bigint op " + s.op)
		}
		mz = mir[s.d]
		sm, mm := "-", "-"
		if m2 >= 0 {
			sm, mm = biState(&regs[m2]), mir[m2].Text(16)
		}
		i64, u64, mi64, mu64 := "-", "-", "-", "-"
		if mz.IsInt64() {
			i64, mi64 = fmt.Sprint(z.Int64()), fmt.Sprint(mz.Int64())
		}
		if mz.IsUint64() {
			u64, mu64 = fmt.Sprint(z.Uint64()), fmt.Sprint(mz.Uint64())
		}
		other := &regs[s.a]
		mother := mir[s.a]
		textok := b2i(z.String() == mz.String() && z.Text(16) == mz.Text(16) && string(z.Append(nil, 10)) == mz.String())
		outs = append(outs, fmt.Sprintf("%s %s %d %d %d %d %s %s %d %d %d ~ %s %s %d %d %d %d %s %s %d %d %d %d",
			biState(z), sm, z.Sign(), z.BitLen(), b2i(z.IsInt64()), b2i(z.IsUint64()), i64, u64, z.Cmp(other), z.CmpAbs(other), z.Bit(0),
			mz.Text(16), mm, mz.Sign(), mz.BitLen(), b2i(mz.IsInt64()), b2i(mz.IsUint64()), mi64, mu64, mz.Cmp(mother), mz.CmpAbs(mother), mz.Bit(0), textok))
	}
	return cs + " => " + strings.Join(outs, " ; ")
}

func (r *rng) genBigIntProg() []biStep {
	n := r.rangeI(2, 10)
	prog := make([]biStep, 0, n)
	// the mirror is needed to avoid division by zero and negative square roots
	mir := []*big.Int{new(big.Int), new(big.Int), new(big.Int), new(big.Int)}
	for len(prog) < n {
		ops := biModelled
		if r.coin(20) {
			ops = biMirrorOnly
		}
		s := biStep{op: ops[r.intn(len(ops))], d: r.intn(4), a: r.intn(4), b: r.intn(4), arg: "0"}
		if len(prog) < 2 && r.coin(80) {
			s.op = []string{"SetDec", "SetMath", "SetInt64", "SetUint64"}[r.intn(4)]
		}
		x, y := new(big.Int).Set(mir[s.a]), new(big.Int).Set(mir[s.b])
		z := mir[s.d]
		switch s.op {
		case "SetInt64":
			v := r.biValue()
			v = big.NewInt(v.Int64())
			if r.coin(10) {
				v = big.NewInt(-1 << 63)
			}
			s.arg = v.String()
			z.Set(v)
		case "SetUint64":
			v := new(big.Int).SetUint64(r.biValue().Uint64())
			s.arg = v.String()
			z.Set(v)
		case "SetDec", "SetMath":
			v := r.biValue()
			s.arg = v.String()
			z.Set(v)
		case "Set":
			z.Set(x)
		case "Abs":
			z.Abs(x)
		case "Neg":
			z.Neg(x)
		case "Add":
			z.Add(x, y)
		case "Sub":
			z.Sub(x, y)
		case "Mul":
			if x.BitLen()+y.BitLen() > 4000 {
				continue
			}
			z.Mul(x, y)
		case "Quo", "Rem", "Div", "Mod":
			if y.Sign() == 0 {
				continue
			}
			switch s.op {
			case "Quo":
				z.Quo(x, y)
			case "Rem":
				z.Rem(x, y)
			case "Div":
				z.Div(x, y)
			case "Mod":
				z.Mod(x, y)
			}
		case "QuoRem", "DivMod":
			ri := r.intn(4)
			if y.Sign() == 0 {
				continue
			}
			if s.op == "DivMod" && ri == s.b {
				// math/big's own DivMod reads y again after it has written m (z.DivMod(-7, 2, y) with
				// m == y gives -2, 0): the call has no defined meaning to be equivalent to
				continue
			}
			s.arg = fmt.Sprint(ri)
			if s.op == "QuoRem" {
				mir[s.d].QuoRem(x, y, mir[ri])
			} else {
				mir[s.d].DivMod(x, y, mir[ri])
			}
		case "Lsh":
			k := r.pick([]int{0, 1, 31, 32, 63, 64, 65, 120, 127, 128, 200})
			if x.BitLen()+k > 4000 {
				continue
			}
			s.arg = fmt.Sprint(k)
			z.Lsh(x, uint(k))
		case "Rsh":
			k := r.pick([]int{0, 1, 31, 32, 63, 64, 65, 120, 127, 128, 200})
			s.arg = fmt.Sprint(k)
			z.Rsh(x, uint(k))
		case "Sqrt":
			if x.Sign() < 0 {
				continue
			}
			z.Sqrt(x)
		case "And":
			z.And(x, y)
		case "Or":
			z.Or(x, y)
		case "Xor":
			z.Xor(x, y)
		case "AndNot":
			z.AndNot(x, y)
		case "Not":
			z.Not(x)
		case "Exp":
			if y.Sign() < 0 || y.Cmp(big.NewInt(6)) > 0 || x.BitLen() > 300 {
				continue
			}
			z.Exp(x, y, nil)
		case "GCD":
			z.GCD(nil, nil, x, y)
		case "GCDx", "GCDy":
			ri := -1
			for k := 0; k < 4; k++ {
				if k != s.d && k != s.a && k != s.b {
					ri = k
				}
			}
			if r.coin(25) {
				ri = s.d // the cofactor aliased to the receiver: math/big leaves the gcd there
			}
			if ri < 0 {
				continue
			}
			if r.coin(40) && y.Sign() != 0 { // a multiple of b: the cofactor of a is zero
				x.Mul(y, big.NewInt(int64(r.rangeI(-9, 9))))
				mir[s.a].Set(x)
				prog = append(prog, biStep{op: "SetMath", d: s.a, a: s.a, b: s.b, arg: x.String()})
				x, y = new(big.Int).Set(mir[s.a]), new(big.Int).Set(mir[s.b])
			}
			s.arg = fmt.Sprint(ri)
			if s.op == "GCDx" {
				mir[s.d].GCD(mir[ri], nil, x, y)
			} else {
				mir[s.d].GCD(nil, mir[ri], x, y)
			}
			if mir[ri].Sign() == 0 {
				mir[ri].SetInt64(0)
			}
		case "Gob":
			var raw []byte
			if r.coin(30) {
				raw = [][]byte{{2}, {3}, {3, 0}, {2, 0, 0}, {3, 1}, {2, 255, 255, 255, 255, 255, 255, 255, 255, 1}}[r.intn(6)]
			} else {
				raw, _ = x.GobEncode()
			}
			if err := new(big.Int).GobDecode(raw); err != nil {
				continue
			}
			s.arg = hex.EncodeToString(raw)
			z.GobDecode(raw)
			if z.Sign() == 0 {
				z.SetInt64(0)
			}
		case "SetBit":
			k := r.pick([]int{0, 1, 63, 64, 127, 128, 129})
			s.arg = fmt.Sprint(k)
			z.SetBit(x, k, uint(s.b&1))
		}
		prog = append(prog, s)
	}
	return prog
}

func init() {
	streams["bigint"] = func(r *rng, n int) {
		for i := 0; i < n; i++ {
			emit(runBigInt(r.genBigIntProg()))
		}
	}
	replayers["bi"] = func(f []string) {
		var n int
		fmt.Sscan(f[1], &n)
		prog := make([]biStep, n)
		for j := 0; j < n; j++ {
			b := 2 + 5*j
			prog[j].op = f[b]
			fmt.Sscan(f[b+1], &prog[j].d)
			fmt.Sscan(f[b+2], &prog[j].a)
			fmt.Sscan(f[b+3], &prog[j].b)
			prog[j].arg = f[b+4]
		}
		emit(runBigInt(prog))
	}
}
