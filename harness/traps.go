package main

import (
	"fmt"
	"strings"

	"github.com/cockroachdb/apd/v3"
)

// ---------- C03: the same call under a trap set and under no traps ----------
// tr <ar-case fields> => <obs under the case's traps> | <obs under Traps = 0>

var compositeOps = []string{"Sqrt", "Cbrt", "Exp", "Ln", "Log10", "Pow", "Ceil", "Floor"}

func obsOf(line string) string {
	if i := strings.Index(line, " => "); i >= 0 {
		return line[i+4:]
	}
	return line
}

func runTraps(c *arithCase) string {
	cs := "tr" + strings.TrimPrefix(c.String(), "ar")
	withT := obsOf(runArith(c))
	c0 := *c
	c0.Ctx.Traps = 0
	without := obsOf(runArith(&c0))
	return cs + " => " + withT + " | " + without
}

func (r *rng) genTrapSet() apd.Condition {
	switch r.intn(6) {
	case 0:
		return apd.DefaultTraps
	case 1, 2:
		return apd.Condition(1) << uint(2+r.intn(10))
	case 3:
		return apd.Condition(r.intn(4096)) &^ 3
	case 4:
		return 4092
	default:
		return apd.Inexact | apd.Rounded
	}
}

// small operands for the iterative functions: the differential needs many calls, not big ones
func (r *rng) genSmallCase(op string) *arithCase {
	ctx := apd.Context{Precision: uint32(r.rangeI(1, 12)), MaxExponent: int32(r.rangeI(12, 60)), MinExponent: -int32(r.rangeI(0, 60)),
		Rounding: roundings[r.intn(8)]}
	if r.coin(20) {
		ctx.MaxExponent, ctx.MinExponent = 100000, -100000
	}
	r.zone = 2
	c := &arithCase{Op: op, Ctx: ctx, Alias: "n", DPre: new(apd.Decimal)}
	mk := func() *apd.Decimal {
		if r.coin(8) {
			return r.genSpecial()
		}
		d := mkDec(apd.Finite, r.coin(25), r.coeffShape(r.rangeI(1, 14)), r.rangeI(-16, 6))
		if r.coin(30) { // near one: Ln takes the power series
			d = mkDec(apd.Finite, false, r.coeffShape(r.rangeI(1, 6)), 0)
			d.Coeff.Add(&d.Coeff, apd.NewBigInt(0).SetMathBigInt(pow10(8)))
			d.Exponent = -8
			if r.coin(40) {
				d.Coeff.SetInt64(int64(100000000 - r.rangeI(1, 5000000)))
			}
		}
		return d
	}
	c.X = mk()
	if op == "Pow" {
		c.Y = mk()
		if r.coin(50) {
			c.Y = mkDec(apd.Finite, r.coin(30), r.coeffShape(r.rangeI(1, 2)), r.rangeI(-1, 0))
		}
	}
	return c
}

func init() {
	streams["traps"] = func(r *rng, n int) {
		for i := 0; i < n; i++ {
			var c *arithCase
			if r.coin(30) {
				c = r.genSmallCase(compositeOps[r.intn(len(compositeOps))])
			} else {
				c = r.genArithCase(arithOpsAll, 8, true, true)
			}
			c.Ctx.Traps = r.genTrapSet()
			emit(runTraps(c))
		}
	}
	replayers["tr"] = func(f []string) {
		f2 := append([]string{"ar"}, f[1:]...)
		emit(runTraps(parseArith(f2)))
	}
}

// ---------- ErrDecimal programs ----------
// ed <ctx 5 fields> r0 r1 r2 r3 <nsteps> {op dst a b q}* => <impl: r0..r3 flags err ints> | <reference: same>
// The reference performs the Context method of the same name directly with the documented sticky logic.

type edStep struct {
	op        string
	dst, a, b int
	q         int32
}

var edOpsModelled = []string{"Abs", "Add", "Ceil", "Floor", "Mul", "Neg", "Quantize", "Quo", "QuoInteger", "Reduce", "Rem",
	"Round", "Sub", "RoundToIntegralValue", "RoundToIntegralExact"}
var edOpsAll = append(append([]string{}, edOpsModelled...), "Exp", "Ln", "Log10", "Pow", "Sqrt", "Int64")

func runED(ctx apd.Context, regs []*apd.Decimal, prog []edStep) string {
	var sb strings.Builder
	fmt.Fprintf(&sb, "ed %s", encCtx(&ctx))
	for _, d := range regs {
		sb.WriteString(" " + encDec(d))
	}
	fmt.Fprintf(&sb, " %d", len(prog))
	for _, s := range prog {
		fmt.Fprintf(&sb, " %s %d %d %d %d", s.op, s.dst, s.a, s.b, s.q)
	}
	cs := sb.String()
	enter(cs)
	defer leave()
	impl := func() (res string) {
		defer func() {
			if r := recover(); r != nil {
				res = "PANIC"
			}
		}()
		c := ctx
		rg := make([]*apd.Decimal, len(regs))
		for i := range regs {
			rg[i] = clone(regs[i])
		}
		ed := apd.MakeErrDecimal(&c)
		var ints []string
		for _, s := range prog {
			d, x, y := rg[s.dst], rg[s.a], rg[s.b]
			switch s.op {
			case "Abs":
				ed.Abs(d, x)
			case "Add":
				ed.Add(d, x, y)
			case "Ceil":
				ed.Ceil(d, x)
			case "Floor":
				ed.Floor(d, x)
			case "Mul":
				ed.Mul(d, x, y)
			case "Neg":
				ed.Neg(d, x)
			case "Quantize":
				ed.Quantize(d, x, s.q)
			case "Quo":
				ed.Quo(d, x, y)
			case "QuoInteger":
				ed.QuoInteger(d, x, y)
			case "Reduce":
				n, _ := ed.Reduce(d, x)
				ints = append(ints, fmt.Sprint(n))
			case "Rem":
				ed.Rem(d, x, y)
			case "Round":
				ed.Round(d, x)
			case "Sub":
				ed.Sub(d, x, y)
			case "RoundToIntegralValue":
				ed.RoundToIntegralValue(d, x)
			case "RoundToIntegralExact":
				ed.RoundToIntegralExact(d, x)
			case "Exp":
				ed.Exp(d, x)
			case "Ln":
				ed.Ln(d, x)
			case "Log10":
				ed.Log10(d, x)
			case "Pow":
				ed.Pow(d, x, y)
			case "Sqrt":
				ed.Sqrt(d, x)
			case "Int64":
				ints = append(ints, fmt.Sprint(ed.Int64(x)))
			}
		}
		var out []string
		for _, d := range rg {
			out = append(out, encDec(d))
		}
		return strings.Join(out, " ") + fmt.Sprintf(" %d %s [%s]", uint32(ed.Flags), encErr(ed.Err()), strings.Join(ints, ","))
	}
	ref := func() (res string) {
		defer func() {
			if r := recover(); r != nil {
				res = "PANIC"
			}
		}()
		c := ctx
		rg := make([]*apd.Decimal, len(regs))
		for i := range regs {
			rg[i] = clone(regs[i])
		}
		var flags apd.Condition
		var stuck error
		errf := func() error {
			if stuck != nil {
				return stuck
			}
			if flags != 0 {
				_, stuck = flags.GoError(c.Traps)
			}
			return stuck
		}
		var ints []string
		for _, s := range prog {
			d, x, y := rg[s.dst], rg[s.a], rg[s.b]
			if errf() != nil {
				if s.op == "Reduce" || s.op == "Int64" {
					ints = append(ints, "0")
				}
				continue
			}
			var res apd.Condition
			var err error
			switch s.op {
			case "Abs":
				res, err = c.Abs(d, x)
			case "Add":
				res, err = c.Add(d, x, y)
			case "Ceil":
				res, err = c.Ceil(d, x)
			case "Floor":
				res, err = c.Floor(d, x)
			case "Mul":
				res, err = c.Mul(d, x, y)
			case "Neg":
				res, err = c.Neg(d, x)
			case "Quantize":
				res, err = c.Quantize(d, x, s.q)
			case "Quo":
				res, err = c.Quo(d, x, y)
			case "QuoInteger":
				res, err = c.QuoInteger(d, x, y)
			case "Reduce":
				var n int
				n, res, err = c.Reduce(d, x)
				ints = append(ints, fmt.Sprint(n))
			case "Rem":
				res, err = c.Rem(d, x, y)
			case "Round":
				res, err = c.Round(d, x)
			case "Sub":
				res, err = c.Sub(d, x, y)
			case "RoundToIntegralValue":
				res, err = c.RoundToIntegralValue(d, x)
			case "RoundToIntegralExact":
				res, err = c.RoundToIntegralExact(d, x)
			case "Exp":
				res, err = c.Exp(d, x)
			case "Ln":
				res, err = c.Ln(d, x)
			case "Log10":
				res, err = c.Log10(d, x)
			case "Pow":
				res, err = c.Pow(d, x, y)
			case "Sqrt":
				res, err = c.Sqrt(d, x)
			case "Int64":
				var v int64
				v, err = x.Int64()
				ints = append(ints, fmt.Sprint(v))
			}
			flags |= res
			stuck = err
		}
		var out []string
		for _, d := range rg {
			out = append(out, encDec(d))
		}
		return strings.Join(out, " ") + fmt.Sprintf(" %d %s [%s]", uint32(flags), encErr(errf()), strings.Join(ints, ","))
	}
	return cs + " => " + impl() + " | " + ref()
}

func init() {
	streams["errdec"] = func(r *rng, n int) {
		for i := 0; i < n; i++ {
			ctx := r.genCtx(true)
			if ctx.MaxExponent > 6144 {
				// programs combine registers freely (x/Inf is a zero at the bottom of the range, then added to
				// an ordinary number): with the package limits the pure extracted model would need 100000-digit
				// coefficients; the limits themselves are exercised by the arith and text streams
				ctx.MaxExponent, ctx.MinExponent = 6144, -6143
			}
			ctx.Traps = r.genTrapSet()
			if r.coin(30) {
				ctx.Traps = 0
			}
			r.zone = 2
			ops := edOpsModelled
			if r.coin(25) {
				ops = edOpsAll
				ctx.Precision = uint32(r.rangeI(1, 9))
			}
			regs := make([]*apd.Decimal, 4)
			for j := range regs {
				if ops[len(ops)-1] == "Int64" {
					regs[j] = mkDec(apd.Finite, r.coin(30), r.coeffShape(r.rangeI(1, 8)), r.rangeI(-8, 3))
				} else {
					regs[j] = r.genDec(&ctx, 6)
				}
			}
			prog := make([]edStep, r.rangeI(1, 7))
			for j := range prog {
				prog[j] = edStep{op: ops[r.intn(len(ops))], dst: r.intn(4), a: r.intn(4), b: r.intn(4), q: int32(r.rangeI(-6, 6))}
			}
			emit(runED(ctx, regs, prog))
		}
	}
	replayers["ed"] = func(f []string) {
		// ed p emax emin traps rnd r0 r1 r2 r3 n {op dst a b q}*
		var p, emax, emin, tr, n int
		fmt.Sscan(f[1], &p)
		fmt.Sscan(f[2], &emax)
		fmt.Sscan(f[3], &emin)
		fmt.Sscan(f[4], &tr)
		ctx := apd.Context{Precision: uint32(p), MaxExponent: int32(emax), MinExponent: int32(emin), Traps: apd.Condition(tr), Rounding: decRounding(f[5])}
		regs := []*apd.Decimal{decDec(f[6]), decDec(f[7]), decDec(f[8]), decDec(f[9])}
		fmt.Sscan(f[10], &n)
		prog := make([]edStep, n)
		for j := 0; j < n; j++ {
			b := 11 + 5*j
			var q int
			fmt.Sscan(f[b+1], &prog[j].dst)
			fmt.Sscan(f[b+2], &prog[j].a)
			fmt.Sscan(f[b+3], &prog[j].b)
			fmt.Sscan(f[b+4], &q)
			prog[j].op, prog[j].q = f[b], int32(q)
		}
		emit(runED(ctx, regs, prog))
	}
}
