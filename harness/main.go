// apdrun: generates cases, runs them against the apd implementation built from /repo's working
// tree (build tag verif), and prints one line per case: "<case> => <observation>".
package main

import (
	"bufio"
	"flag"
	"fmt"
	"math/big"
	"os"
	"strconv"
	"strings"
	"sync/atomic"
	"time"

	"github.com/cockroachdb/apd/v3"
)

var out = bufio.NewWriterSize(os.Stdout, 1<<20)

// ---------- encoding ----------

func formLetter(f apd.Form) string {
	switch f {
	case apd.Finite:
		return "F"
	case apd.Infinite:
		return "I"
	case apd.NaNSignaling:
		return "S"
	case apd.NaN:
		return "N"
	}
	return "?" + strconv.Itoa(int(f))
}

func encDec(d *apd.Decimal) string {
	if d == nil {
		return "_"
	}
	n := "0"
	if d.Negative {
		n = "1"
	}
	return formLetter(d.Form) + ":" + n + ":" + d.Coeff.MathBigInt().Text(16) + ":" + strconv.Itoa(int(d.Exponent))
}

func decDec(s string) *apd.Decimal {
	if s == "_" {
		return nil
	}
	p := strings.Split(s, ":")
	if len(p) != 4 {
		panic("bad decimal " + s)
	}
	var f apd.Form
	switch p[0] {
	case "F":
		f = apd.Finite
	case "I":
		f = apd.Infinite
	case "S":
		f = apd.NaNSignaling
	case "N":
		f = apd.NaN
	default:
		panic("bad form " + s)
	}
	c, ok := new(big.Int).SetString(p[2], 16)
	if !ok {
		panic("bad coeff " + s)
	}
	e, err := strconv.Atoi(p[3])
	if err != nil {
		panic("bad exp " + s)
	}
	return mkDec(f, p[1] == "1", c, e)
}

func encRounding(r apd.Rounder) string {
	if r == "" {
		return "-"
	}
	return string(r)
}
func decRounding(s string) apd.Rounder {
	if s == "-" {
		return ""
	}
	return apd.Rounder(s)
}

func encCtx(c *apd.Context) string {
	return fmt.Sprintf("%d %d %d %d %s", c.Precision, c.MaxExponent, c.MinExponent, uint32(c.Traps), encRounding(c.Rounding))
}

var condNames = map[string]apd.Condition{
	"overflow": apd.Overflow, "underflow": apd.Underflow, "inexact": apd.Inexact, "subnormal": apd.Subnormal,
	"rounded": apd.Rounded, "division undefined": apd.DivisionUndefined, "division by zero": apd.DivisionByZero,
	"division impossible": apd.DivisionImpossible, "invalid operation": apd.InvalidOperation, "clamped": apd.Clamped,
}

// encErr maps a Go error to a small enum: none | range | trap:<bits> | zeroprec | other
func encErr(err error) string {
	if err == nil {
		return "none"
	}
	s := err.Error()
	if strings.Contains(s, "exponent out of range") {
		return "range"
	}
	if strings.Contains(s, "Context may not have 0 Precision") {
		return "zeroprec"
	}
	// a trap error is exactly the String() of the trapped conditions
	var bitsv apd.Condition
	ok := s != ""
	for _, part := range strings.Split(s, ", ") {
		b, found := condNames[part]
		if !found {
			ok = false
			break
		}
		bitsv |= b
	}
	if ok {
		return "trap:" + strconv.Itoa(int(bitsv))
	}
	// wrapped trap errors ("ln: overflow", "Quo: ...") are reported as other
	return "other"
}

// ---------- watchdog ----------

var curCase atomic.Value
var curStart int64
var watchdogLimit = 10 * time.Second

func startWatchdog() {
	go func() {
		for {
			time.Sleep(100 * time.Millisecond)
			st := atomic.LoadInt64(&curStart)
			if st != 0 && time.Since(time.Unix(0, st)) > watchdogLimit {
				out.Flush()
				fmt.Printf("HANG %v\n", curCase.Load())
				os.Exit(3)
			}
		}
	}()
}
func enter(c string) { curCase.Store(c); atomic.StoreInt64(&curStart, time.Now().UnixNano()) }
func leave()         { atomic.StoreInt64(&curStart, 0) }

// ---------- main ----------

func main() {
	stream := flag.String("stream", "", "stream name")
	n := flag.Int("n", 1000, "number of generated cases")
	seed := flag.Uint64("seed", 1, "seed")
	replay := flag.String("replay", "", "file of case lines to re-execute instead of generating")
	wd := flag.Int("watchdog", 10, "per-case watchdog in seconds")
	flag.IntVar(&shardIdx, "shard", 0, "index of this shard (exhaustive enumerations are partitioned)")
	flag.IntVar(&shardN, "nshards", 1, "number of shards")
	flag.Parse()
	watchdogLimit = time.Duration(*wd) * time.Second
	startWatchdog()
	defer out.Flush()

	if *replay != "" {
		f, err := os.Open(*replay)
		if err != nil {
			fmt.Fprintln(os.Stderr, err)
			os.Exit(2)
		}
		sc := bufio.NewScanner(f)
		sc.Buffer(make([]byte, 1<<20), 1<<28)
		for sc.Scan() {
			line := strings.TrimSpace(sc.Text())
			if line == "" || strings.HasPrefix(line, "#") {
				continue
			}
			if i := strings.Index(line, " => "); i >= 0 {
				line = line[:i]
			}
			replayLine(line)
		}
		return
	}
	// the state is a scrambled function of the seed: with s = seed*gamma + c, consecutive seeds would give
	// the same SplitMix64 sequence shifted by one draw, and the shards of a run (seeds k, k+1, ...) would overlap
	r := &rng{s: mix64(*seed*0x9e3779b97f4a7c15+0x1234567) ^ mix64(^*seed)}
	g, ok := streams[*stream]
	if !ok {
		fmt.Fprintf(os.Stderr, "unknown stream %q\n", *stream)
		os.Exit(2)
	}
	g(r, *n)
}

func mix64(z uint64) uint64 {
	z = (z ^ (z >> 30)) * 0xbf58476d1ce4e5b9
	z = (z ^ (z >> 27)) * 0x94d049bb133111eb
	return z ^ (z >> 31)
}

var streams = map[string]func(r *rng, n int){}

// exhaustive enumerations are partitioned over the shards of a run
var shardIdx, shardN = 0, 1
var enumCounter int

func mine() bool {
	enumCounter++
	return shardN <= 1 || enumCounter%shardN == shardIdx
}

func replayLine(line string) {
	f := strings.Fields(line)
	if len(f) == 0 {
		return
	}
	switch f[0] {
	case "ar":
		c := parseArith(f)
		emit(runArith(c))
	case "ndp":
		k, _ := strconv.Atoi(f[1])
		dl, _ := strconv.Atoi(f[2])
		emit(runNumDigitsPow10(k, dl, len(f) > 3 && f[3] == "1"))
	case "nd":
		b, _ := new(big.Int).SetString(f[1], 16)
		emit(runNumDigits(b))
	case "dr":
		emit(runDecReduce(decDec(f[1]), decDec(f[2]), f[3]))
	default:
		if h, ok := replayers[f[0]]; ok {
			h(f)
			return
		}
		fmt.Fprintf(os.Stderr, "cannot replay %q\n", line)
		os.Exit(2)
	}
}

var replayers = map[string]func(f []string){}

func emit(s string) { out.WriteString(s); out.WriteByte('\n') }
