(* Extraction of the C12 judge (verified interval arithmetic on plain Z).  ExtrOcamlBasic only; Z, positive
   stay Coq's inductive types.  The Interval library's modules mention the real numbers in their
   specification fields; extraction therefore emits the standard library's real-number axiom
   sig_forall_dec as a value, which is realised by a function that fails if it is ever called (it is
   not: the judge computes on Z only). *)
From Coq Require Import ExtrOcamlBasic.
From Apd Require Import Model.Base Oracle.Judge Oracle.Transc.
Extraction Language OCaml.
Set Extraction KeepSingleton.
Extract Constant ClassicalDedekindReals.sig_forall_dec => "(fun _ -> failwith ""real-number axiom reached"")".
Extraction "apd_transc.ml" cond_of_Z oracle_c12 oracle_c07.
