(* C10: QuoInteger and Rem - truncated quotient and remainder of the exactly aligned coefficients. *)
From Coq Require Import ZArith Lia Bool.
From Apd Require Import Generated.Consts Model.Base Model.NumDigits Model.Decimal Model.Context Spec.SpecZ Spec.Order
  Proofs.Digits Proofs.Core Proofs.CmpProofs Proofs.RoundBasics Proofs.SetExponent Proofs.RoundEq Proofs.RoundSpec Proofs.OpsProofs.
Open Scope Z_scope.

(* |x| = a * 10^s and |y| = b * 10^s exactly, with s the smaller exponent *)
Definition al_exp (x y : dec) : Z := Z.min (exp x) (exp y).
Definition al_a (x y : dec) : Z := coeff x * 10 ^ (exp x - al_exp x y).
Definition al_b (x y : dec) : Z := coeff y * 10 ^ (exp y - al_exp x y).

Lemma al_b_pos x y : 0 < coeff y -> 0 < al_b x y.
Proof. intros H. unfold al_b, al_exp. pose proof (pow10_pos (exp y - Z.min (exp x) (exp y)) ltac:(lia)). nia. Qed.
Lemma al_a_nonneg x y : 0 <= coeff x -> 0 <= al_a x y.
Proof. intros H. unfold al_a, al_exp. pose proof (pow10_pos (exp x - Z.min (exp x) (exp y)) ltac:(lia)). nia. Qed.

Definition rdec_of (r : res result) : option dec := match r with Ok r => rdec r | _ => None end.

Section WithEst.
Variable est : Z -> Z.
Hypothesis HE : est_in_range est.

Lemma quo_specials_none c x y cl : form_of x = Finite -> form_of y = Finite -> coeff y <> 0 -> 1 <= prec c ->
  quo_specials c x y cl = None.
Proof.
  intros Hx Hy Hny Hp. unfold quo_specials. rewrite (not_nan_finite x y Hx). unfold is_nan. rewrite Hx, Hy.
  cbn [form_eqb orb andb]. rewrite (is_zero_finite y Hy).
  destruct (Z.eqb_spec (coeff y) 0); [contradiction|].
  destruct (Z.eqb_spec (prec c) 0); [lia|reflexivity].
Qed.

(* QuoInteger: q = |x| / |y| truncated, exponent 0, product sign; DivisionImpossible (and NaN) exactly
   when q needs more than Precision digits; never any other condition *)
Theorem quo_integer_correct c x y : 1 <= prec c -> finite_nn x -> finite_nn y -> coeff y <> 0 ->
  Z.abs (exp x - exp y) <= MaxExponent ->
  let q := al_a x y / al_b x y in
  ctx_quo_integer est c x y =
    Ok (if ndigits q >? prec c
        then finish c (mkDec NaN (xorb (neg x) (neg y)) 0 0) fDivisionImpossible
        else finish c (mkDec Finite (xorb (neg x) (neg y)) 0 q) c0).
Proof.
  intros Hp [Hfx Hnx] [Hfy Hny] Hy0 Hgap q. unfold ctx_quo_integer.
  rewrite (quo_specials_none c x y false Hfx Hfy Hy0 Hp).
  rewrite (upscale_spec x y Hgap). cbn [bind]. fold (al_exp x y) (al_a x y) (al_b x y).
  pose proof (al_b_pos x y ltac:(lia)) as Hb. pose proof (al_a_nonneg x y Hnx) as Ha.
  destruct (Z.eqb_spec (al_b x y) 0); [lia|].
  rewrite Z.quot_div_nonneg by lia. fold q. rewrite (nd_ok est HE). cbn [bind].
  destruct (ndigits q >? prec c); reflexivity.
Qed.

(* the division identity behind q and r *)
Theorem division_identity x y : 0 <= coeff x -> 0 < coeff y ->
  al_a x y = (al_a x y / al_b x y) * al_b x y + al_a x y mod al_b x y /\ 0 <= al_a x y mod al_b x y < al_b x y.
Proof.
  intros Hx Hy. pose proof (al_b_pos x y Hy) as Hb.
  split; [rewrite Z.mul_comm; apply Z.div_mod; lia|apply Z.mod_pos_bound; lia].
Qed.

(* Rem: r = |x| - q |y| with the sign of x, rounded once to the context like any result (hence exact
   whenever r has at most Precision digits: see C01's specification); DivisionImpossible as above *)
Theorem rem_correct c x y : ctx_ok c -> finite_nn x -> finite_nn y -> coeff y <> 0 ->
  Z.abs (exp x - exp y) <= MaxExponent ->
  let q := al_a x y / al_b x y in
  let E := mkExact (neg x) (al_a x y mod al_b x y) 1 (al_exp x y) in
  exact_in_limits c E ->
  if ndigits q >? prec c
  then ctx_rem est c x y = Ok (finish c d_nan fDivisionImpossible)
  else exists d f, ctx_rem est c x y = Ok (finish c d f) /\ op_post c E d f.
Proof.
  intros Hc [Hfx Hnx] [Hfy Hny] Hy0 Hgap q E HL. unfold ctx_rem.
  rewrite (not_nan_finite x y Hfx). unfold is_nan, is_finite. rewrite Hfy, Hfx. cbn [form_eqb orb andb negb].
  rewrite (is_zero_finite y Hfy). destruct (Z.eqb_spec (coeff y) 0); [contradiction|].
  rewrite (upscale_spec x y Hgap). cbn [bind]. fold (al_exp x y) (al_a x y) (al_b x y).
  pose proof (al_b_pos x y ltac:(lia)) as Hb. pose proof (al_a_nonneg x y Hnx) as Ha.
  destruct (Z.eqb_spec (al_b x y) 0); [lia|].
  rewrite Z.quot_div_nonneg, Z.rem_mod_nonneg by lia. fold q. rewrite (nd_ok est HE). cbn [bind].
  destruct (ndigits q >? prec c); [reflexivity|].
  destruct (ctx_round_exact est HE c E Hc HL) as (d & f & Hr & Hpost).
  unfold E in Hr. cbn [xneg xexp xnum] in Hr. rewrite Hr. cbn [bind].
  exists d, f. split; [reflexivity|assumption].
Qed.

End WithEst.
