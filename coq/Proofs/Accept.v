(* C14: NewFromString / SetString / UnmarshalText / Scan succeed exactly on the numeric strings of the
   specification's grammar whose exponent and adjusted exponent lie inside the package limits, return the
   grammar's value with no condition, and return an error with no value for everything else. *)
From Coq Require Import ZArith Lia Bool List.
From Apd Require Import Generated.Consts Model.Base Model.NumDigits Model.Decimal Model.Context Model.Text Spec.Grammar
  Proofs.Digits Proofs.Core Proofs.SetExponent Proofs.TextProofs Proofs.RoundTrip Proofs.RoundTripFull Proofs.GrammarEquiv.
Import ListNotations.
Open Scope Z_scope.

Lemma within_limits_spec c e : within_limits c e = true <-> in_lim e /\ in_lim (e + ndigits c - 1).
Proof.
  unfold within_limits, in_lim. rewrite !andb_true_iff, !Z.leb_le. tauto.
Qed.

Section WithEst.
Variable est : Z -> Z.
Hypothesis HE : est_in_range est.

Theorem new_from_string_is_grammar s : Z.of_nat (length s) < 2 ^ 30 ->
  new_from_string est s = Ok (option_map (fun d => (d, c0, ENone)) (gdec s)).
Proof.
  intros Hlen. unfold gdec. destruct (gparse s) as [g|] eqn:Eg.
  2:{ unfold new_from_string, ctx_set_string. rewrite (parser_rejects s Eg). reflexivity. }
  destruct g as [ng|ng sg|ng c e].
  - pose proof (parser_complete s _ Eg Hlen ltac:(discriminate)) as Hraw. cbn [graw] in Hraw.
    rewrite (nfs_special est s _ Hraw) by discriminate. reflexivity.
  - pose proof (parser_complete s _ Eg Hlen ltac:(discriminate)) as Hraw. cbn [graw] in Hraw.
    rewrite (nfs_special est s _ Hraw) by (destruct sg; discriminate). reflexivity.
  - destruct (within_limits c e) eqn:Ew.
    + apply within_limits_spec in Ew. destruct Ew as [He Hadj].
      assert (Hraw : set_string_raw s = Some (mkDec Finite ng e c)).
      { apply (parser_complete s _ Eg Hlen). intros ? ? ? [= _ _ <-]. unfold in_lim, MinExponent, MaxExponent in He.
        change (2 ^ 30) with 1073741824. lia. }
      destruct (parsed_well_formed s _ Hraw) as [Hc _]. cbn [coeff] in Hc.
      rewrite (nfs_in_limits est HE s _ Hraw); [reflexivity|reflexivity|exact Hc|exact He|exact Hadj].
    + destruct (set_string_raw s) as [d|] eqn:Eraw.
      * pose proof (parser_sound s d Eraw) as Hs. rewrite Eg in Hs. cbn [graw] in Hs. injection Hs as <-.
        destruct (parsed_well_formed s _ Eraw) as [Hc _]. cbn [coeff] in Hc.
        rewrite (nfs_out_limits est HE s _ Eraw); [reflexivity|reflexivity|exact Hc|].
        cbn [exp coeff]. intros H. apply within_limits_spec in H. congruence.
      * unfold new_from_string, ctx_set_string. rewrite Eraw. reflexivity.
Qed.

(* whatever the string (any length, any bytes): a value is returned only together with no condition and no
   error, and it is well formed - non-negative coefficient, special values with zero coefficient and exponent,
   finite values with exponent and adjusted exponent inside the package limits *)
Theorem new_from_string_well_formed s d f e : new_from_string est s = Ok (Some (d, f, e)) ->
  set_string_raw s = Some d /\ f = c0 /\ e = ENone /\ 0 <= coeff d /\
  (form_of d = Finite -> in_lim (exp d) /\ in_lim (exp d + ndigits (coeff d) - 1)) /\
  (form_of d <> Finite -> coeff d = 0 /\ exp d = 0).
Proof.
  intros H. destruct (set_string_raw s) as [d0|] eqn:Eraw.
  2:{ unfold new_from_string, ctx_set_string in H. rewrite Eraw in H. discriminate. }
  destruct (parsed_well_formed s d0 Eraw) as [Hc Hsp].
  destruct (form_of d0) eqn:Ef.
  - destruct (within_limits (coeff d0) (exp d0)) eqn:Ew.
    + apply within_limits_spec in Ew. destruct Ew as [He Hadj].
      rewrite (nfs_in_limits est HE s d0 Eraw Ef Hc He Hadj) in H. injection H as <- <- <-.
      refine (conj eq_refl (conj eq_refl (conj eq_refl (conj Hc (conj (fun _ => conj He Hadj) _))))). intros Hn. congruence.
    + rewrite (nfs_out_limits est HE s d0 Eraw Ef Hc) in H; [discriminate|].
      intros Hin. apply within_limits_spec in Hin. congruence.
  - rewrite (nfs_special est s d0 Eraw) in H by congruence. injection H as <- <- <-.
    refine (conj eq_refl (conj eq_refl (conj eq_refl (conj Hc (conj _ _))))); [intros Hn; congruence|intros _; apply Hsp; discriminate].
  - rewrite (nfs_special est s d0 Eraw) in H by congruence. injection H as <- <- <-.
    refine (conj eq_refl (conj eq_refl (conj eq_refl (conj Hc (conj _ _))))); [intros Hn; congruence|intros _; apply Hsp; discriminate].
  - rewrite (nfs_special est s d0 Eraw) in H by congruence. injection H as <- <- <-.
    refine (conj eq_refl (conj eq_refl (conj eq_refl (conj Hc (conj _ _))))); [intros Hn; congruence|intros _; apply Hsp; discriminate].
Qed.
End WithEst.
