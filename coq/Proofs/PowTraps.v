(* C03 for Pow and Log10 over the full models: both run their internal steps under a private context (BaseContext's
   traps), so the value and the Condition they deliver do not depend on the caller's traps at all - for every value of
   the float-derived inputs. *)
From Coq Require Import ZArith Lia Bool List.
From Apd Require Import Generated.Consts Model.Base Model.NumDigits Model.Decimal Model.Context Model.Roots Model.ErrDec
  Model.Exp Model.Ln Model.LnHalley Model.Pow Proofs.TrapsProofs Proofs.RootsTraps Proofs.LnTraps.
Open Scope Z_scope.

Section WithEst.
Variable est : Z -> Z.
Variable tab : list (Z * Z).

Definition same_out (a b : res (option result)) : Prop :=
  match a, b with
  | Ok (Some r'), Ok (Some r) => rdec r' = rdec r /\ rcond r' = rcond r
  | Ok None, Ok None => True
  | Panic w', Panic w => w' = w
  | OutOfFuel, OutOfFuel => True
  | _, _ => False
  end.

Lemma same_out_refl a : same_out a a.
Proof. destruct a as [[r|]| |]; cbn; auto. Qed.

Theorem log10_full_indep tab2 a0 exps c t x :
  same_out (ctx_log10_full est tab tab2 a0 exps (with_traps c t) x) (ctx_log10_full est tab tab2 a0 exps c x).
Proof.
  unfold ctx_log10_full, same_out. pose proof (log_specials_indep est c t x) as Hs.
  destruct (log_specials est (with_traps c t) x) as [[r'|]| |], (log_specials est c x) as [[r0|]| |]; cbn [bind];
    try contradiction; try exact I; try exact Hs.
  cbv zeta. cbn [prec emax emin with_traps].
  destruct (ctx_ln_full est tab a0 exps _ x) as [[lr|]| |]; cbn [bind]; try exact I; try reflexivity.
  destruct (rerr lr); try (split; reflexivity).
  destruct (rdec lr) as [z|]; [|split; reflexivity].
  destruct (const_get strInvLn10 tab2 (prec c + 2)) as [k| |]; cbn [bind]; try exact I; try reflexivity.
  destruct (ctx_mul est _ z k) as [m| |]; cbn [bind]; try exact I; try reflexivity.
  destruct (rerr m); try (split; reflexivity). destruct (rdec m); split; reflexivity.
Qed.

Lemma pow_specials_indep c t x y : same_out (pow_specials est (with_traps c t) x y) (pow_specials est c x y).
Proof.
  unfold pow_specials, same_out. destruct (should_set_as_nan x (Some y)).
  { pose proof (san_indep c t x (Some y)) as H. cbn [strip ret] in H. injection H as H1 H2. split; assumption. }
  destruct (modf est y) as [[integ frac]| |]; cbn [bind]; try exact I; try reflexivity.
  repeat match goal with
  | |- context [if ?b then _ else _] => destruct b
  | |- context [bind ?m _] => destruct m as [?| |]; cbn [bind]
  end; try exact I; try reflexivity; split; reflexivity.
Qed.

Theorem pow_indep cp n a0 exps c t x y :
  same_out (ctx_pow_with est tab cp n a0 exps (with_traps c t) x y) (ctx_pow_with est tab cp n a0 exps c x y).
Proof.
  unfold ctx_pow_with. pose proof (pow_specials_indep c t x y) as Hs. unfold same_out in Hs.
  destruct (pow_specials est (with_traps c t) x y) as [[r'|]| |], (pow_specials est c x y) as [[r0|]| |]; cbn [bind];
    try contradiction; try exact I; try exact Hs.
  change (quantize_inner est (with_traps c t)) with (quantize_inner est c).
  change (ctx_round est (with_traps c t)) with (ctx_round est c).
  cbn [prec with_traps].
  destruct (modf est y) as [[integ frac]| |]; cbn [bind]; try exact I; try reflexivity.
  destruct (num_digits_with est (coeff x)) as [ndx| |]; cbn [bind]; try exact I; try reflexivity.
  destruct (quantize_inner est c integ 0) as [[qi qres]| |]; cbn [bind]; try exact I; try reflexivity.
  destruct (integer_power est _ x _) as [[[z nres] e]| |]; cbn [bind]; try exact I; try reflexivity.
  destruct e; try (split; reflexivity).
  destruct (is_zero frac).
  { destruct (ctx_round est c z) as [[d f]| |]; cbn [bind]; try exact I; try reflexivity. split; reflexivity. }
  match goal with |- same_out (bind ?m _) (bind ?m _) => destruct m as [[[[[t5|] fl] e2]|]| |] end; cbn [bind]; try exact I; try reflexivity.
  - destruct e2; try (split; reflexivity).
    destruct (ctx_round est c t5) as [[d f]| |]; cbn [bind]; try exact I; try reflexivity. split; reflexivity.
  - split; reflexivity.
Qed.
End WithEst.
