(* C20: negating the exact value mirrors the specified result under the mirrored mode (Floor <-> Ceiling, the others
   unchanged): same coefficient, exponent and flags, opposite sign - for the whole specification of a rounded result
   (subnormal range and overflow included), which C01 proves the model's operations compute. *)
From Coq Require Import ZArith Lia Bool.
From Apd Require Import Generated.Consts Model.Base Model.NumDigits Spec.SpecZ Proofs.RoundBasics Proofs.ModesProofs.
Open Scope Z_scope.

Definition flip_exact (E : exact) : exact := mkExact (negb (xneg E)) (xnum E) (xden E) (xexp E).
Definition flip_sres (s : sres) : sres :=
  match s with SInf ng => SInf (negb ng) | SFin ng m e => SFin (negb ng) m e end.
Definition flip_sround (s : sround) : sround :=
  mkSround (flip_sres (s_res s)) (s_inexact s) (s_subnormal s) (s_overflow s).

Theorem spec_mirror p emin_ emax_ mode E :
  spec_round_nz p emin_ emax_ (mirror mode) (flip_exact E) = flip_sround (spec_round_nz p emin_ emax_ mode E).
Proof.
  unfold spec_round_nz, flip_exact. cbn [xneg xnum xden xexp].
  destruct (scale_frac (xnum E) (xden E) _) as [n1 d1].
  rewrite mirror_negation.
  destruct (ndigits (rndZ mode (xneg E) n1 d1) >? p);
    match goal with |- context [if ?b then _ else _] => destruct b end; reflexivity.
Qed.

(* the exact sum of the negated operands is the negated exact sum (a non-zero sum; an exact zero sum is +0, or -0 under
   RoundFloor, whatever the operands' signs) *)
Definition flip_dec (d : dec) : dec := mkDec (form_of d) (negb (neg d)) (exp d) (coeff d).
Lemma exact_add_flip x y sub fm fm' : xnum (exact_add x y sub fm) <> 0 ->
  exact_add (flip_dec x) (flip_dec y) sub fm' = flip_exact (exact_add x y sub fm).
Proof.
  unfold exact_add, flip_dec, flip_exact. cbn [neg exp coeff]. cbv zeta.
  set (e0 := Z.min (exp x) (exp y)). set (a := coeff x * 10 ^ (exp x - e0)). set (b := coeff y * 10 ^ (exp y - e0)).
  set (sa := if neg x then - a else a). set (sb := if xorb (neg y) sub then - b else b).
  assert (Ha : (if negb (neg x) then - a else a) = - sa) by (unfold sa; destruct (neg x); cbn; lia).
  assert (Hb : (if xorb (negb (neg y)) sub then - b else b) = - sb) by (unfold sb; destruct (neg y), sub; cbn; lia).
  rewrite Ha, Hb.
  destruct (Z.eqb_spec (sa + sb) 0) as [E0|Hne]; cbn [xnum]; [intros H; contradiction H; reflexivity|]. intros _.
  destruct (Z.eqb_spec (- sa + - sb) 0) as [|_]; [lia|]. cbn [xneg xnum xden xexp]. f_equal; [|lia].
  destruct (Z.ltb_spec (- sa + - sb) 0), (Z.ltb_spec (sa + sb) 0); try reflexivity; lia.
Qed.

(* scaling the exact value by a power of ten scales the specified result, as long as both stay in the normal range and
   neither overflows: same coefficient and flags, exponent shifted *)
Definition shift_exact (E : exact) (j : Z) : exact := mkExact (xneg E) (xnum E) (xden E) (xexp E + j).
Definition shift_sres (s : sres) (j : Z) : sres :=
  match s with SInf ng => SInf ng | SFin ng m e => SFin ng m (e + j) end.
Definition shift_sround (s : sround) (j : Z) : sround :=
  mkSround (shift_sres (s_res s) j) (s_inexact s) (s_subnormal s) (s_overflow s).

Theorem spec_scale p emin_ emax_ mode E j :
  let k := mag_frac (xnum E) (xden E) + xexp E in
  emin_ <= k - 1 -> emin_ <= k + j - 1 ->
  s_overflow (spec_round_nz p emin_ emax_ mode E) = false ->
  s_overflow (spec_round_nz p emin_ emax_ mode (shift_exact E j)) = false ->
  spec_round_nz p emin_ emax_ mode (shift_exact E j) = shift_sround (spec_round_nz p emin_ emax_ mode E) j.
Proof.
  intros k H1 H2. unfold spec_round_nz, shift_exact. cbn [xneg xnum xden xexp]. fold k.
  replace (mag_frac (xnum E) (xden E) + (xexp E + j)) with (k + j) by (unfold k; lia).
  rewrite (Z.max_l (k - p)), (Z.max_l (k + j - p)) by lia.
  replace (xexp E + j - (k + j - p)) with (xexp E - (k - p)) by lia.
  destruct (scale_frac (xnum E) (xden E) (xexp E - (k - p))) as [n1 d1].
  set (m := rndZ mode (xneg E) n1 d1).
  replace (k + j - 1 <? emin_) with false by (symmetry; apply Z.ltb_ge; lia).
  replace (k - 1 <? emin_) with false by (symmetry; apply Z.ltb_ge; lia).
  destruct (ndigits m >? p).
  - replace (k + j - p + 1) with (k - p + 1 + j) by lia.
    destruct (negb (m / 10 =? 0) && (k - p + 1 + ndigits (m / 10) - 1 >? emax_)); cbn [s_overflow]; intros O1; try discriminate.
    destruct (negb (m / 10 =? 0) && (k - p + 1 + j + ndigits (m / 10) - 1 >? emax_)); cbn [s_overflow]; intros O2; try discriminate.
    reflexivity.
  - replace (k + j - p) with (k - p + j) by lia.
    destruct (negb (m =? 0) && (k - p + ndigits m - 1 >? emax_)); cbn [s_overflow]; intros O1; try discriminate.
    destruct (negb (m =? 0) && (k - p + j + ndigits m - 1 >? emax_)); cbn [s_overflow]; intros O2; try discriminate.
    reflexivity.
Qed.
