(* C20: negating the exact value mirrors the specified result under the mirrored mode (Floor <-> Ceiling, the others
   unchanged): same coefficient, exponent and flags, opposite sign - for the whole specification of a rounded result
   (subnormal range and overflow included), which C01 proves the model's operations compute. *)
From Coq Require Import ZArith Lia Bool.
From Apd Require Import Generated.Consts Model.Base Model.NumDigits Spec.SpecZ Proofs.RoundBasics Proofs.ModesProofs.
Open Scope Z_scope.

Definition flip_exact (E : exact) : exact := mkExact (negb (xneg E)) (xnum E) (xden E) (xexp E).
Definition flip_sres (s : sres) : sres :=
  match s with SInf ng => SInf (negb ng) | SFin ng m e => SFin (negb ng) m e end.
Definition flip_sround (s : sround) : sround :=
  mkSround (flip_sres (s_res s)) (s_inexact s) (s_subnormal s) (s_overflow s).

Theorem spec_mirror p emin_ emax_ mode E :
  spec_round_nz p emin_ emax_ (mirror mode) (flip_exact E) = flip_sround (spec_round_nz p emin_ emax_ mode E).
Proof.
  unfold spec_round_nz, flip_exact. cbn [xneg xnum xden xexp].
  destruct (scale_frac (xnum E) (xden E) _) as [n1 d1].
  rewrite mirror_negation.
  destruct (ndigits (rndZ mode (xneg E) n1 d1) >? p);
    match goal with |- context [if ?b then _ else _] => destruct b end; reflexivity.
Qed.

(* the exact sum of the negated operands is the negated exact sum (a non-zero sum; an exact zero sum is +0, or -0 under
   RoundFloor, whatever the operands' signs) *)
Definition flip_dec (d : dec) : dec := mkDec (form_of d) (negb (neg d)) (exp d) (coeff d).
Lemma exact_add_flip x y sub fm fm' : xnum (exact_add x y sub fm) <> 0 ->
  exact_add (flip_dec x) (flip_dec y) sub fm' = flip_exact (exact_add x y sub fm).
Proof.
  unfold exact_add, flip_dec, flip_exact. cbn [neg exp coeff]. cbv zeta.
  set (e0 := Z.min (exp x) (exp y)). set (a := coeff x * 10 ^ (exp x - e0)). set (b := coeff y * 10 ^ (exp y - e0)).
  set (sa := if neg x then - a else a). set (sb := if xorb (neg y) sub then - b else b).
  assert (Ha : (if negb (neg x) then - a else a) = - sa) by (unfold sa; destruct (neg x); cbn; lia).
  assert (Hb : (if xorb (negb (neg y)) sub then - b else b) = - sb) by (unfold sb; destruct (neg y), sub; cbn; lia).
  rewrite Ha, Hb.
  destruct (Z.eqb_spec (sa + sb) 0) as [E0|Hne]; cbn [xnum]; [intros H; contradiction H; reflexivity|]. intros _.
  destruct (Z.eqb_spec (- sa + - sb) 0) as [|_]; [lia|]. cbn [xneg xnum xden xexp]. f_equal; [|lia].
  destruct (Z.ltb_spec (- sa + - sb) 0), (Z.ltb_spec (sa + sb) 0); try reflexivity; lia.
Qed.
