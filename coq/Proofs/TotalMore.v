(* C04: totality of the remaining modelled operations, as corollaries of their functional theorems: a call on
   well-formed operands inside the package limits returns a value - never Panic (nil dereference, table index out
   of range, division by zero, negative coefficient) and never OutOfFuel. *)
From Coq Require Import ZArith Lia Bool List.
From Apd Require Import Generated.Consts Model.Base Model.NumDigits Model.Decimal Model.Context Model.Text Spec.SpecZ Spec.Grammar
  Proofs.Digits Proofs.Core Proofs.SetExponent Proofs.RoundSpec Proofs.OpsProofs Proofs.OpsProjections Proofs.QuoProofs
  Proofs.SeRoundProofs Proofs.DivProofs Proofs.QuantizeProofs Proofs.QuantizeMid Proofs.CeilFloor Proofs.ReduceProofs Proofs.CtxReduce
  Proofs.TotalProofs Proofs.TextProofs Proofs.RoundTrip Proofs.RoundTripFull Proofs.GrammarEquiv Proofs.Accept.
Open Scope Z_scope.

Section WithEst.
Variable est : Z -> Z.
Hypothesis HE : est_in_range est.

Theorem mul_total c x y : mul_hyps c x y -> total (ctx_mul est c x y).
Proof. intros H. destruct (c01_mul est HE c x y H) as (d & f & Hr & _). eexists. exact Hr. Qed.

Theorem quo_total c x y : quo_hyps c x y -> total (ctx_quo est c x y).
Proof. intros H. destruct (c01_quo est HE c x y H) as (d & f & Hr & _). eexists. exact Hr. Qed.

Theorem rem_total c x y : ctx_ok c -> finite_nn x -> finite_nn y -> coeff y <> 0 -> Z.abs (exp x - exp y) <= MaxExponent ->
  exact_in_limits c (mkExact (neg x) (al_a x y mod al_b x y) 1 (al_exp x y)) -> total (ctx_rem est c x y).
Proof.
  intros Hc Hx Hy Hny Hg HL. pose proof (rem_correct est HE c x y Hc Hx Hy Hny Hg HL) as H. cbv zeta in H.
  destruct (_ >? _); [eexists; exact H|]. destruct H as (d & f & Hr & _). eexists. exact Hr.
Qed.

Theorem quantize_total c x e : ctx_ok c -> form_of x = Finite -> 0 <= coeff x ->
  exp x - e < MaxExponent -> e - exp x < MaxExponent -> ndigits (coeff x) < MaxExponent ->
  in_lim e -> in_lim (e + ndigits (quant_coeff (rounding c) x e) - 1) -> total (ctx_quantize est c x e).
Proof.
  intros Hc Hf Hn H1 H2 H3 H4 H5. pose proof (quantize_correct est HE c x e Hc Hf Hn H1 H2 H3 H4 H5) as H. cbv zeta in H.
  destruct (quant_invalid c x e); [eexists; exact H|]. destruct H as (f & Hr & _). eexists. exact Hr.
Qed.

Theorem rti_total c x : form_of x = Finite -> 0 <= coeff x -> exp x < MaxExponent -> - exp x < MaxExponent ->
  ndigits (coeff x) < MaxExponent -> total (ctx_rti_exact est c x) /\ total (ctx_rti_value est c x).
Proof.
  intros Hf Hn H1 H2 H3. destruct (rti_correct est HE c x Hf Hn H1 H2 H3) as (f & He & Hv & _).
  split; eexists; eassumption.
Qed.

Theorem ceil_floor_total c x : ctx_ok c -> finite_nn x -> ndigits (int_part x + 1) < MaxExponent ->
  total (ctx_ceil est c x) /\ total (ctx_floor est c x).
Proof.
  intros Hc Hx Hd. pose proof (ceil_correct est HE c x Hc Hx Hd) as H1. pose proof (floor_correct est HE c x Hc Hx Hd) as H2.
  split.
  - destruct (0 <? exp x); [eexists; exact H1|]. destruct (has_frac x && negb (neg x)); [destruct H1 as (d & f & Hr & _)|]; eexists; eassumption.
  - destruct (0 <? exp x); [eexists; exact H2|]. destruct (has_frac x && neg x); [destruct H2 as (d & f & Hr & _)|]; eexists; eassumption.
Qed.

Theorem ctx_reduce_total c x : ctx_ok c -> finite_nn x -> exact_in_limits c (exact_of_dec x) -> total (ctx_reduce est c x).
Proof. intros Hc Hx HL. destruct (ctx_reduce_correct est HE c x Hc Hx HL) as (d & f & d' & n & Hr & _). eexists. exact Hr. Qed.

(* the parsers: EVERY byte string *)
Theorem new_from_string_total s : total (new_from_string est s).
Proof.
  destruct (set_string_raw s) as [d|] eqn:Eraw.
  2:{ unfold new_from_string, ctx_set_string. rewrite Eraw. eexists. reflexivity. }
  destruct (parsed_well_formed s d Eraw) as [Hc _].
  destruct (form_of d) eqn:Ef.
  - destruct (within_limits (coeff d) (exp d)) eqn:Ew.
    + apply within_limits_spec in Ew. destruct Ew as [He Hadj]. eexists. exact (nfs_in_limits est HE s d Eraw Ef Hc He Hadj).
    + eexists. apply (nfs_out_limits est HE s d Eraw Ef Hc). intros Hin. apply within_limits_spec in Hin. congruence.
  - eexists. apply (nfs_special est s d Eraw). congruence.
  - eexists. apply (nfs_special est s d Eraw). congruence.
  - eexists. apply (nfs_special est s d Eraw). congruence.
Qed.
End WithEst.
