(* C13: the parser inverts the formatter.  For every finite decimal the model of setString applied to the
   model of Text('G'/'g'/'E'/'e') (String, MarshalText, Value, %v %s %G %E %e) returns the same sign,
   coefficient and exponent; Text('f') returns the same sign and numeric value. *)
From Coq Require Import ZArith Lia Bool List.
From Apd Require Import Generated.Consts Model.Base Model.NumDigits Model.Decimal Model.Context Model.Text
  Proofs.Digits Proofs.Core Proofs.TextProofs.
Import ListNotations.
Open Scope Z_scope.

(* ---------- byte-level facts ---------- *)
Lemma digit_range b : is_digit b = true -> 48 <= b <= 57.
Proof. unfold is_digit. intros H. apply andb_prop in H. destruct H as [H1 H2]. apply Z.leb_le in H1, H2. lia. Qed.

Lemma all_digits_app a b : all_digits (a ++ b) = all_digits a && all_digits b.
Proof. induction a as [|x a IH]; cbn [app all_digits]; [reflexivity|]. rewrite IH, andb_assoc. reflexivity. Qed.

Lemma all_digits_zeros n : all_digits (zeros n) = true.
Proof. unfold zeros. induction (Z.to_nat n) as [|k IH]; cbn [repeat all_digits]; [reflexivity|]. rewrite IH. reflexivity. Qed.

Lemma all_digits_firstn k s : all_digits s = true -> all_digits (firstn k s) = true.
Proof. revert k. induction s as [|b s IH]; intros [|k] H; cbn [firstn all_digits] in *; try reflexivity.
  apply andb_prop in H. destruct H as [H1 H2]. rewrite H1, (IH k H2). reflexivity. Qed.
Lemma all_digits_skipn k s : all_digits s = true -> all_digits (skipn k s) = true.
Proof. revert k. induction s as [|b s IH]; intros [|k] H; cbn [skipn all_digits] in *; try reflexivity; try assumption.
  apply andb_prop in H. destruct H as [H1 H2]. apply IH. assumption. Qed.

Lemma lower_digit b : is_digit b = true -> (if (65 <=? b) && (b <=? 90) then b + 32 else b) = b.
Proof. intros H. apply digit_range in H. destruct (Z.leb_spec 65 b); [lia|]. reflexivity. Qed.
Lemma lower_ascii_digits s : all_digits s = true -> lower_ascii s = s.
Proof. induction s as [|b s IH]; intros H; cbn [lower_ascii map all_digits] in *; [reflexivity|].
  apply andb_prop in H. destruct H as [H1 H2]. rewrite (lower_digit b H1). f_equal. apply IH. assumption. Qed.
Lemma lower_ascii_app a b : lower_ascii (a ++ b) = lower_ascii a ++ lower_ascii b.
Proof. apply map_app. Qed.

Lemma index_none_digits s c : all_digits s = true -> is_digit c = false -> index_byte s c = None.
Proof.
  intros Hs Hc. induction s as [|b s IH]; cbn [index_byte all_digits] in *; [reflexivity|].
  apply andb_prop in Hs. destruct Hs as [H1 H2]. destruct (Z.eqb_spec b c) as [->|_]; [congruence|].
  rewrite (IH H2). reflexivity.
Qed.
Lemma index_app_hit a c b : index_byte a c = None -> index_byte (a ++ c :: b) c = Some (length a).
Proof.
  induction a as [|x a IH]; cbn [app index_byte length]; intros H.
  - rewrite Z.eqb_refl. reflexivity.
  - destruct (x =? c); [discriminate|]. destruct (index_byte a c); [discriminate|]. rewrite (IH eq_refl). reflexivity.
Qed.
Lemma index_app_none a b c : index_byte a c = None -> index_byte b c = None -> index_byte (a ++ b) c = None.
Proof.
  induction a as [|x a IH]; cbn [app index_byte]; intros Ha Hb; [assumption|].
  destruct (x =? c); [discriminate|]. destruct (index_byte a c); [discriminate|]. rewrite (IH eq_refl Hb). reflexivity.
Qed.

Lemma firstn_len_app {A} (a b : list A) : firstn (length a) (a ++ b) = a.
Proof. induction a; cbn; [destruct b; reflexivity|f_equal; assumption]. Qed.
Lemma skipn_len_app {A} (a : list A) c b : skipn (S (length a)) (a ++ c :: b) = b.
Proof. induction a; cbn; [reflexivity|assumption]. Qed.

(* leading zeros do not change the value *)
Lemma dv_zeros n i : dv (zeros n) i = i * 10 ^ Z.of_nat (Z.to_nat n).
Proof.
  unfold zeros. revert i. induction (Z.to_nat n) as [|k IH]; intros i; cbn [repeat].
  - cbn. lia.
  - unfold dv in *. cbn [fold_left]. rewrite IH. rewrite Nat2Z.inj_succ, Z.pow_succ_r by lia. unfold ch_0. lia.
Qed.

(* strconv.ParseInt inverts strconv.AppendInt with the forced sign that fmtE writes *)
Lemma parse_int32_signed adj : - 2 ^ 31 < adj < 2 ^ 31 ->
  parse_int32 (if adj <? 0 then ch_minus :: digits_of (- adj) else ch_plus :: digits_of adj) = Some adj.
Proof.
  intros Hr. unfold parse_int32. destruct (Z.ltb_spec adj 0) as [Hn|Hn].
  - change (ch_minus =? ch_minus) with true. cbv iota.
    destruct (digits_roundtrip (- adj) ltac:(lia)) as [Hv Hd]. rewrite Hd, Hv. cbn [negb].
    destruct (Z.leb_spec (- 2 ^ 31) (- - adj)); [|lia]. destruct (Z.ltb_spec (- - adj) (2 ^ 31)); [|lia].
    cbn [andb]. f_equal. lia.
  - change (ch_plus =? ch_minus) with false. change (ch_plus =? ch_plus) with true. cbv iota.
    destruct (digits_roundtrip adj ltac:(lia)) as [Hv Hd]. rewrite Hd, Hv. cbn [negb].
    destruct (Z.leb_spec (- 2 ^ 31) adj); [|lia]. destruct (Z.ltb_spec adj (2 ^ 31)); [|lia]. reflexivity.
Qed.

(* ---------- the parser on a string that starts with a digit, after an optional '-' ---------- *)
Definition parse_num (ng : bool) (s : str) : option dec :=
  let ex :=
    match index_byte s ch_e with
    | Some i => match parse_int32 (skipn (S i) s) with Some e => Some (e, firstn i s) | None => None end
    | None => Some (0, s)
    end in
  match ex with
  | None => None
  | Some (e, m) =>
      let '(e2, m2) :=
        match index_byte m ch_dot with
        | Some i => (e - (Z.of_nat (length m) - Z.of_nat i - 1), firstn i m ++ skipn (S i) m)
        | None => (e, m)
        end in
      if negb (is_digits m2) then None else Some (mkDec Finite ng e2 (digits_val m2))
  end.

Definition sgn (ng : bool) : str := if ng then [ch_minus] else [].

Lemma set_string_raw_num ng d0 rest : is_digit d0 = true ->
  set_string_raw (sgn ng ++ d0 :: rest) = parse_num ng (lower_ascii (d0 :: rest)).
Proof.
  intros Hd. pose proof (digit_range d0 Hd) as Hr.
  assert (E : forall k, k < 48 \/ 57 < k -> (k =? d0) = false) by (intros k Hk; apply Z.eqb_neq; lia).
  assert (E2 : forall k, k < 48 \/ 57 < k -> (d0 =? k) = false) by (intros k Hk; apply Z.eqb_neq; lia).
  unfold set_string_raw, consume_prefix, sgn.
  destruct ng; cbn [app has_prefix length skipn].
  - change (ch_minus =? ch_minus) with true. cbn [andb]. cbv iota beta.
    cbn [lower_ascii map]. rewrite (lower_digit d0 Hd). cbn [has_prefix].
    unfold ch_minus, ch_plus. rewrite !E by lia. cbn [andb orb].
    unfold s_infinity, s_inf, s_nan, s_snan. cbn [str_eqb has_prefix]. rewrite ?E, ?E2 by lia. cbn [andb orb]. cbv iota beta.
    cbn [has_prefix]. rewrite !E by lia. cbn [andb orb]. reflexivity.
  - unfold ch_minus, ch_plus. rewrite !E by lia. cbn [andb]. cbv iota beta. cbn [fst has_prefix]. rewrite !E by lia.
    cbn [andb fst]. cbn [lower_ascii map]. rewrite (lower_digit d0 Hd). cbn [has_prefix]. rewrite !E by lia. cbn [andb orb].
    unfold s_infinity, s_inf, s_nan, s_snan. cbn [str_eqb has_prefix]. rewrite ?E, ?E2 by lia. cbn [andb orb]. cbv iota beta.
    cbn [has_prefix]. rewrite !E by lia. cbn [andb orb]. reflexivity.
Qed.

Lemma lower_cons b t : b < 65 \/ 90 < b -> lower_ascii (b :: t) = b :: lower_ascii t.
Proof. intros H. cbn [lower_ascii map]. destruct (Z.leb_spec 65 b), (Z.leb_spec b 90); try lia; reflexivity. Qed.

Lemma is_digits_split s : is_digits s = true -> exists d0 rest, s = d0 :: rest /\ is_digit d0 = true /\ all_digits rest = true /\ all_digits s = true.
Proof.
  unfold is_digits. destruct s as [|d0 rest]; [discriminate|]. intros H. exists d0, rest. split; [reflexivity|].
  cbn [all_digits] in *. apply andb_prop in H. destruct H as [H1 H2]. rewrite H1, H2. repeat split.
Qed.
Lemma is_digits_all s : s <> [] -> all_digits s = true -> is_digits s = true.
Proof. destruct s; [contradiction|]. intros _ H. exact H. Qed.

Lemma not_digit_e : is_digit ch_e = false. Proof. reflexivity. Qed.
Lemma not_digit_dot : is_digit ch_dot = false. Proof. reflexivity. Qed.

(* ---------- fmtF with a non-negative exponent: digits followed by zeros ---------- *)
Lemma parse_fmt_f_nonneg ng e ds : 0 <= e -> is_digits ds = true ->
  set_string_raw (sgn ng ++ fmt_f e ds) = Some (mkDec Finite ng 0 (digits_val ds * 10 ^ e)).
Proof.
  intros He Hds. destruct (is_digits_split ds Hds) as (d0 & rest & -> & Hd0 & Hrest & Hall).
  unfold fmt_f. destruct (Z.ltb_spec e 0); [lia|].
  change ((d0 :: rest) ++ zeros e) with (d0 :: (rest ++ zeros e)).
  rewrite (set_string_raw_num ng d0 _ Hd0).
  assert (Hb : all_digits (d0 :: rest ++ zeros e) = true).
  { change (d0 :: rest ++ zeros e) with ((d0 :: rest) ++ zeros e). rewrite all_digits_app, Hall, all_digits_zeros. reflexivity. }
  rewrite (lower_ascii_digits _ Hb). unfold parse_num.
  rewrite (index_none_digits _ ch_e Hb not_digit_e). rewrite (index_none_digits _ ch_dot Hb not_digit_dot).
  rewrite (is_digits_all (d0 :: rest ++ zeros e) ltac:(discriminate) Hb). cbn [negb]. f_equal. f_equal.
  change (d0 :: rest ++ zeros e) with ((d0 :: rest) ++ zeros e).
  rewrite digits_val_dv, dv_app, dv_zeros. rewrite Z2Nat.id by lia. reflexivity.
Qed.

(* ---------- fmtF with a negative exponent ---------- *)
Lemma parse_fmt_f_neg ng e ds : e < 0 -> is_digits ds = true ->
  set_string_raw (sgn ng ++ fmt_f e ds) = Some (mkDec Finite ng e (digits_val ds)).
Proof.
  intros He Hds. destruct (is_digits_split ds Hds) as (d0 & rest & Eds & Hd0 & Hrest & Hall).
  unfold fmt_f. destruct (Z.ltb_spec e 0); [|lia].
  set (n := Z.of_nat (length ds)).
  destruct (Z.geb_spec (- e - n) 0) as [Hl|Hl].
  - (* 0.000ddd *)
    set (z := zeros (- e - n)).
    change ([ch_0; ch_dot] ++ z ++ ds) with (ch_0 :: ch_dot :: (z ++ ds)).
    rewrite (set_string_raw_num ng ch_0 _ eq_refl).
    assert (Hzd : all_digits (z ++ ds) = true) by (rewrite all_digits_app; unfold z; rewrite all_digits_zeros, Hall; reflexivity).
    rewrite (lower_cons ch_0) by (unfold ch_0; lia). rewrite (lower_cons ch_dot) by (unfold ch_dot; lia).
    rewrite (lower_ascii_digits _ Hzd). unfold parse_num.
    assert (He1 : index_byte (ch_0 :: ch_dot :: z ++ ds) ch_e = None).
    { change (ch_0 :: ch_dot :: z ++ ds) with ([ch_0; ch_dot] ++ (z ++ ds)).
      apply index_app_none; [reflexivity|apply index_none_digits; [assumption|reflexivity]]. }
    rewrite He1.
    assert (He2 : index_byte (ch_0 :: ch_dot :: z ++ ds) ch_dot = Some 1%nat).
    { change (ch_0 :: ch_dot :: z ++ ds) with ([ch_0] ++ ch_dot :: (z ++ ds)). apply (index_app_hit [ch_0]). reflexivity. }
    rewrite He2. cbn [firstn skipn app].
    assert (Hm2 : all_digits (ch_0 :: z ++ ds) = true) by (cbn [all_digits]; rewrite Hzd; reflexivity).
    rewrite (is_digits_all (ch_0 :: z ++ ds) ltac:(discriminate) Hm2). cbn [negb]. f_equal. f_equal.
    + cbn [length]. rewrite app_length. unfold z, zeros. rewrite repeat_length. fold n.
      rewrite !Nat2Z.inj_succ, Nat2Z.inj_add, Z2Nat.id by lia. fold n. lia.
    + change (ch_0 :: z ++ ds) with ((ch_0 :: z) ++ ds). rewrite digits_val_dv, dv_app.
      change (ch_0 :: z) with (zeros 1 ++ z). unfold z. rewrite dv_app, !dv_zeros. cbn [Z.mul]. reflexivity.
  - (* dd.ddd *)
    set (off := Z.to_nat (- (- e - n))).
    assert (Hoff : (0 < off < length ds)%nat) by (unfold off, n in *; lia).
    set (a := firstn off ds). set (b := skipn off ds).
    assert (Hab : a ++ b = ds) by apply firstn_skipn.
    assert (Hla : length a = off) by (unfold a; apply firstn_length_le; lia).
    assert (Ha : all_digits a = true) by (apply all_digits_firstn; assumption).
    assert (Hbd : all_digits b = true) by (apply all_digits_skipn; assumption).
    assert (Ea : exists a0 at_, a = a0 :: at_ /\ is_digit a0 = true).
    { unfold a. rewrite Eds. destruct off as [|k]; [lia|]. cbn [firstn]. eexists; eexists. split; [reflexivity|assumption]. }
    destruct Ea as (a0 & at_ & Ea & Ha0).
    change (a ++ [ch_dot] ++ b) with (a ++ ch_dot :: b). rewrite Ea. change ((a0 :: at_) ++ ch_dot :: b) with (a0 :: (at_ ++ ch_dot :: b)).
    rewrite (set_string_raw_num ng a0 _ Ha0).
    change (a0 :: at_ ++ ch_dot :: b) with ((a0 :: at_) ++ ch_dot :: b). rewrite <- Ea.
    rewrite lower_ascii_app, (lower_ascii_digits a Ha), (lower_cons ch_dot) by (unfold ch_dot; lia).
    rewrite (lower_ascii_digits b Hbd). unfold parse_num.
    assert (He1 : index_byte (a ++ ch_dot :: b) ch_e = None).
    { apply index_app_none; [apply index_none_digits; [assumption|reflexivity]|].
      cbn [index_byte]. change (ch_dot =? ch_e) with false. rewrite (index_none_digits b ch_e Hbd eq_refl). reflexivity. }
    rewrite He1. rewrite (index_app_hit a ch_dot b (index_none_digits a ch_dot Ha eq_refl)).
    rewrite firstn_len_app, skipn_len_app, Hab.
    rewrite Hds. cbn [negb]. f_equal. f_equal.
    rewrite app_length. cbn [length]. rewrite Hla.
    assert (Hlb : length b = (length ds - off)%nat) by (unfold b; apply skipn_length).
    rewrite Hlb. unfold off, n in *. lia.
Qed.

(* ---------- fmtE: one digit, fraction, e/E, signed adjusted exponent ---------- *)
Lemma parse_fmt_e ng fmtc e ds : fmtc = ch_e \/ fmtc = ch_E -> is_digits ds = true ->
  - 2 ^ 31 < e + Z.of_nat (length ds) - 1 < 2 ^ 31 ->
  set_string_raw (sgn ng ++ fmt_e fmtc e ds) = Some (mkDec Finite ng e (digits_val ds)).
Proof.
  intros Hf Hds Hadj. destruct (is_digits_split ds Hds) as (d0 & rest & -> & Hd0 & Hrest & Hall).
  unfold fmt_e. set (adj := e + Z.of_nat (length (d0 :: rest)) - 1) in *.
  set (es := if adj <? 0 then ch_minus :: digits_of (- adj) else ch_plus :: digits_of adj).
  set (mt := match rest with [] => [] | _ :: _ => ch_dot :: rest end).
  change ((d0 :: mt) ++ [fmtc] ++ es) with (d0 :: (mt ++ fmtc :: es)).
  rewrite (set_string_raw_num ng d0 _ Hd0).
  change (d0 :: mt ++ fmtc :: es) with ((d0 :: mt) ++ fmtc :: es).
  assert (Hmt : lower_ascii (d0 :: mt) = d0 :: mt).
  { unfold mt. destruct rest as [|r0 rest'].
    - apply lower_ascii_digits. cbn [all_digits]. rewrite Hd0. reflexivity.
    - change (d0 :: ch_dot :: r0 :: rest') with ([d0] ++ ch_dot :: (r0 :: rest')).
      rewrite lower_ascii_app, (lower_cons ch_dot) by (unfold ch_dot; lia).
      rewrite (lower_ascii_digits [d0]) by (cbn [all_digits]; rewrite Hd0; reflexivity).
      rewrite (lower_ascii_digits _ Hrest). reflexivity. }
  assert (Hes : lower_ascii es = es).
  { unfold es. destruct (Z.ltb_spec adj 0) as [Hlt|Hge].
    - rewrite lower_cons by (unfold ch_minus; lia). f_equal. apply lower_ascii_digits.
      destruct (digits_roundtrip (- adj) ltac:(lia)) as [_ H]. destruct (is_digits_split _ H) as (? & ? & _ & _ & _ & Ha). exact Ha.
    - rewrite lower_cons by (unfold ch_plus; lia). f_equal. apply lower_ascii_digits.
      destruct (digits_roundtrip adj ltac:(lia)) as [_ H]. destruct (is_digits_split _ H) as (? & ? & _ & _ & _ & Ha). exact Ha. }
  rewrite lower_ascii_app, Hmt.
  assert (Hlf : lower_ascii (fmtc :: es) = ch_e :: es).
  { cbn [lower_ascii map]. fold (lower_ascii es). rewrite Hes. destruct Hf as [-> | ->]; reflexivity. }
  rewrite Hlf. unfold parse_num.
  assert (Hie : index_byte (d0 :: mt) ch_e = None).
  { unfold mt. destruct rest as [|r0 rest'].
    - apply index_none_digits; [cbn [all_digits]; rewrite Hd0; reflexivity|reflexivity].
    - change (d0 :: ch_dot :: r0 :: rest') with ([d0] ++ ch_dot :: (r0 :: rest')).
      apply index_app_none; [apply index_none_digits; [cbn [all_digits]; rewrite Hd0; reflexivity|reflexivity]|].
      pose proof (index_none_digits (r0 :: rest') ch_e Hrest eq_refl) as Hn.
      change (index_byte (ch_dot :: r0 :: rest') ch_e) with (if ch_dot =? ch_e then Some O else option_map S (index_byte (r0 :: rest') ch_e)).
      rewrite Hn. reflexivity. }
  rewrite (index_app_hit (d0 :: mt) ch_e es Hie). rewrite skipn_len_app, firstn_len_app.
  assert (Hpi : parse_int32 es = Some adj) by (exact (parse_int32_signed adj Hadj)). rewrite Hpi.
  unfold mt. destruct rest as [|r0 rest'].
  - rewrite (index_none_digits [d0] ch_dot) by (try reflexivity; cbn [all_digits]; rewrite Hd0; reflexivity).
    rewrite Hds. cbn [negb]. f_equal. f_equal. unfold adj. cbn [length]. lia.
  - change (d0 :: ch_dot :: r0 :: rest') with ([d0] ++ ch_dot :: (r0 :: rest')).
    rewrite (index_app_hit [d0] ch_dot (r0 :: rest')) by (apply index_none_digits; [cbn [all_digits]; rewrite Hd0; reflexivity|reflexivity]).
    rewrite firstn_len_app, skipn_len_app. change ([d0] ++ r0 :: rest') with (d0 :: r0 :: rest').
    rewrite Hds. cbn [negb]. f_equal. f_equal. unfold adj. rewrite app_length. cbn [length]. lia.
Qed.

(* ---------- the round trips ---------- *)
Definition exp_printable (d : dec) : Prop := - 2 ^ 31 < exp d + Z.of_nat (length (digits_of (coeff d))) - 1 < 2 ^ 31.

(* String / Text('G') / Text('g') / Text('E') / Text('e'): field-wise identity *)
Theorem text_roundtrip fmtc d : fmtc = ch_G \/ fmtc = ch_g \/ fmtc = ch_E \/ fmtc = ch_e ->
  form_of d = Finite -> 0 <= coeff d -> exp_printable d ->
  set_string_raw (format_text fmtc d) = Some d.
Proof.
  intros Hf Hfin Hc Hp. destruct (digits_roundtrip (coeff d) Hc) as [Hv Hd].
  assert (Hd' : Some (mkDec Finite (neg d) (exp d) (digits_val (digits_of (coeff d)))) = Some d).
  { rewrite Hv. destruct d; cbn in *; subst; reflexivity. }
  unfold format_text. rewrite Hfin. change (if neg d then [ch_minus] else []) with (sgn (neg d)).
  destruct Hf as [-> | [-> | [-> | ->]]].
  - change (ch_G =? ch_e) with false. change (ch_G =? ch_E) with false. change (ch_G =? ch_f) with false.
    change (ch_G =? ch_g) with false. change (ch_G =? ch_G) with true. cbn [orb]. cbv zeta.
    match goal with |- context [if ?c then _ ++ fmt_f _ _ else _] => destruct c eqn:Hb end.
    + apply andb_prop in Hb. destruct Hb as [Hb _]. apply Z.leb_le in Hb. rewrite <- Hd'.
      destruct (Z.eq_dec (exp d) 0) as [H0|H0].
      * rewrite H0. rewrite (parse_fmt_f_nonneg _ 0 _ ltac:(lia) Hd). rewrite Z.mul_1_r. reflexivity.
      * apply parse_fmt_f_neg; [lia|assumption].
    + rewrite <- Hd'. apply parse_fmt_e; [right; reflexivity|assumption|exact Hp].
  - change (ch_g =? ch_e) with false. change (ch_g =? ch_E) with false. change (ch_g =? ch_f) with false.
    change (ch_g =? ch_g) with true. cbn [orb]. cbv zeta.
    match goal with |- context [if ?c then _ ++ fmt_f _ _ else _] => destruct c eqn:Hb end.
    + apply andb_prop in Hb. destruct Hb as [Hb _]. apply Z.leb_le in Hb. rewrite <- Hd'.
      destruct (Z.eq_dec (exp d) 0) as [H0|H0].
      * rewrite H0. rewrite (parse_fmt_f_nonneg _ 0 _ ltac:(lia) Hd). rewrite Z.mul_1_r. reflexivity.
      * apply parse_fmt_f_neg; [lia|assumption].
    + rewrite <- Hd'. apply parse_fmt_e; [left; reflexivity|assumption|exact Hp].
  - change (ch_E =? ch_e) with false. change (ch_E =? ch_E) with true. cbn [orb].
    rewrite <- Hd'. apply parse_fmt_e; [right; reflexivity|assumption|exact Hp].
  - change (ch_e =? ch_e) with true. cbn [orb].
    rewrite <- Hd'. apply parse_fmt_e; [left; reflexivity|assumption|exact Hp].
Qed.

(* Text('f'): the sign and the numeric value (a positive exponent is written out as zeros) *)
Theorem text_f_roundtrip d : form_of d = Finite -> 0 <= coeff d ->
  set_string_raw (format_text ch_f d) =
    Some (if exp d <? 0 then d else mkDec Finite (neg d) 0 (coeff d * 10 ^ exp d)).
Proof.
  intros Hfin Hc. destruct (digits_roundtrip (coeff d) Hc) as [Hv Hd].
  unfold format_text. rewrite Hfin. change (if neg d then [ch_minus] else []) with (sgn (neg d)).
  change (ch_f =? ch_e) with false. change (ch_f =? ch_E) with false. change (ch_f =? ch_f) with true. cbn [orb].
  destruct (Z.ltb_spec (exp d) 0) as [He|He].
  - rewrite (parse_fmt_f_neg _ _ _ He Hd), Hv. destruct d; cbn in *; subst; reflexivity.
  - rewrite (parse_fmt_f_nonneg _ _ _ He Hd), Hv. reflexivity.
Qed.

(* exp_printable holds for everything the package can hold: the digit string is at most log2 + 1 bytes long *)
Lemma digits_fuel_length f : forall n acc, (length (digits_fuel f n acc) <= f + length acc)%nat.
Proof.
  induction f as [|f IH]; intros n acc; cbn [digits_fuel]; [lia|].
  destruct (n <? 10); [cbn [length]; lia|]. specialize (IH (n / 10) ((48 + n mod 10) :: acc)). cbn [length] in IH. lia.
Qed.
Lemma exp_printable_ok d : 0 <= coeff d -> - 2 ^ 30 < exp d < 2 ^ 30 -> Z.log2 (coeff d) < 2 ^ 30 -> exp_printable d.
Proof.
  intros Hc He Hl. unfold exp_printable, digits_of.
  pose proof (digits_fuel_length (S (Z.to_nat (Z.log2 (coeff d)))) (coeff d) []) as H. cbn [length] in H.
  pose proof (Z.log2_nonneg (coeff d)).
  change (2 ^ 31) with (2 * 2 ^ 30). lia.
Qed.
