(* What Decimal.setExponent computes (subnormal rounding to Etiny, overflow to Infinity, clamping of
   zeros), as equations on integers. *)
From Coq Require Import ZArith Lia Bool.
From Apd Require Import Generated.Consts Model.Base Model.NumDigits Model.Decimal Spec.SpecZ Spec.Order
  Proofs.Digits Proofs.Core Proofs.CmpProofs Proofs.RoundBasics.
Open Scope Z_scope.

(* Underflow = Subnormal and Inexact, added at the end of setExponent *)
Definition uf (r : cond) : cond := if Inexact r && Subnormal r then r ||| fUnderflow else r.

Definition in_lim (z : Z) : Prop := MinExponent <= z <= MaxExponent.

Lemma sum_exps_1 a acc : in_lim a -> sum_exps [a] acc = inr (acc + a).
Proof.
  unfold in_lim, sum_exps. intros H. destruct (Z.gtb_spec a MaxExponent); [lia|]. destruct (Z.ltb_spec a MinExponent); [lia|]. reflexivity.
Qed.
Lemma sum_exps_2 a b acc : in_lim a -> in_lim b -> sum_exps [a; b] acc = inr (acc + a + b).
Proof.
  unfold in_lim. intros Ha Hb. cbn [sum_exps].
  destruct (Z.gtb_spec a MaxExponent); [lia|]. destruct (Z.ltb_spec a MinExponent); [lia|].
  destruct (Z.gtb_spec b MaxExponent); [lia|]. destruct (Z.ltb_spec b MinExponent); [lia|]. reflexivity.
Qed.
Lemma sum_exps_3 a b c acc : in_lim a -> in_lim b -> in_lim c -> sum_exps [a; b; c] acc = inr (acc + a + b + c).
Proof.
  unfold in_lim. intros Ha Hb Hc. cbn [sum_exps].
  destruct (Z.gtb_spec a MaxExponent); [lia|]. destruct (Z.ltb_spec a MinExponent); [lia|].
  destruct (Z.gtb_spec b MaxExponent); [lia|]. destruct (Z.ltb_spec b MinExponent); [lia|].
  destruct (Z.gtb_spec c MaxExponent); [lia|]. destruct (Z.ltb_spec c MinExponent); [lia|]. reflexivity.
Qed.

Lemma is_zero_finite d : form_of d = Finite -> is_zero d = (coeff d =? 0).
Proof.
  intros Hf. unfold is_zero, dsign, is_finite. rewrite Hf. cbn [form_eqb andb].
  destruct (coeff d =? 0); [reflexivity|]. destruct (neg d); reflexivity.
Qed.

Section WithEst.
Variable est : Z -> Z.
Hypothesis HE : est_in_range est.

Section SE.
Variables (c : ctx) (d : dec) (nd : Z) (res0 : cond) (xs : list Z) (sum : Z).
Hypothesis Hfin : form_of d = Finite.
Hypothesis Hco : 0 <= coeff d.
Hypothesis Hnd : nd = unknownNumDigits \/ nd = ndigits (coeff d).
Hypothesis Hxs : sum_exps xs 0 = inr sum.
Let adj := sum + ndigits (coeff d) - 1.
Hypothesis Hadj : in_lim adj.

Lemma se_head :
  set_exponent est c d nd res0 xs =
  do (d1, r, res1) <-
      (if adj <? emin c then
         let res1 := if is_zero d then res0 else res0 ||| fSubnormal in
         let et := emin c - (prec c - 1) in
         if sum <? et then
           do (integ, frac) <- modf est (mkDec Finite false (sum - et) (coeff d));
           let frac := dabs frac in
           do (icoeff, res2) <-
             (if negb (is_zero frac) then
                do h <- dcmp est frac d_half;
                Ok ((if should_add_one (rounding c) (coeff integ) (neg d) h
                     then coeff integ + bigOne else coeff integ), res1 ||| fInexact)
              else Ok (coeff integ, res1));
           let res3 := if is_zero (set_coeff integ icoeff) then res2 ||| fClamped else res2 in
           Ok (set_coeff d icoeff, et, res3 ||| fRounded)
         else Ok (d, sum, res1)
       else if adj >? emax c then
         if is_zero d then Ok (d, emax c, res0 ||| fClamped)
         else Ok (set_form d Infinite, sum, res0 ||| fOverflow ||| fInexact)
       else Ok (d, sum, res0));
    Ok (set_exp d1 r, uf res1).
Proof.
  unfold set_exponent. rewrite Hxs.
  assert (Hnd1 : (if nd =? unknownNumDigits then num_digits_with est (coeff d) else Ok nd) = Ok (ndigits (coeff d))).
  { destruct Hnd as [-> | ->].
    - rewrite Z.eqb_refl. apply (nd_ok est HE).
    - pose proof (ndigits_pos (coeff d)). unfold unknownNumDigits.
      destruct (Z.eqb_spec (ndigits (coeff d)) (-1)); [lia|reflexivity]. }
  rewrite Hnd1. cbn [bind]. fold adj. unfold in_lim in Hadj.
  destruct (Z.gtb_spec adj MaxExponent); [lia|]. destruct (Z.ltb_spec adj MinExponent); [lia|].
  reflexivity.
Qed.

(* the exponent is inside the context's range: nothing happens *)
Lemma se_normal : emin c <= adj <= emax c ->
  set_exponent est c d nd res0 xs = Ok (set_exp d sum, uf res0).
Proof.
  intros H. rewrite se_head.
  destruct (Z.ltb_spec adj (emin c)); [lia|]. destruct (Z.gtb_spec adj (emax c)); [lia|]. reflexivity.
Qed.

(* above the range: a non-zero value becomes Infinity, a zero is clamped to Emax *)
Lemma se_overflow : emin c <= adj -> emax c < adj ->
  set_exponent est c d nd res0 xs =
    if coeff d =? 0 then Ok (set_exp d (emax c), uf (res0 ||| fClamped))
    else Ok (set_exp (set_form d Infinite) sum, uf (res0 ||| fOverflow ||| fInexact)).
Proof.
  intros H1 H2. rewrite se_head.
  destruct (Z.ltb_spec adj (emin c)); [lia|]. destruct (Z.gtb_spec adj (emax c)); [|lia].
  rewrite (is_zero_finite d Hfin). destruct (coeff d =? 0); reflexivity.
Qed.

(* below the range but representable at Etiny without loss *)
Lemma se_subnormal_exact : adj < emin c -> emin c - (prec c - 1) <= sum ->
  set_exponent est c d nd res0 xs = Ok (set_exp d sum, uf (if coeff d =? 0 then res0 else res0 ||| fSubnormal)).
Proof.
  intros H1 H2. rewrite se_head.
  destruct (Z.ltb_spec adj (emin c)); [|lia]. cbv zeta.
  destruct (Z.ltb_spec sum (emin c - (prec c - 1))); [lia|].
  rewrite (is_zero_finite d Hfin). reflexivity.
Qed.

(* below the range and below Etiny: ONE integer rounding of coeff / 10^(Etiny - sum), in the
   context's mode, with the sign of d *)
Lemma se_subnormal_round : adj < emin c -> sum < emin c - (prec c - 1) ->
  let et := emin c - (prec c - 1) in
  let k := 10 ^ (et - sum) in
  let m := rndZ (rounding c) (neg d) (coeff d) k in
  let res1 := if coeff d =? 0 then res0 else res0 ||| fSubnormal in
  let res2 := if coeff d mod k =? 0 then res1 else res1 ||| fInexact in
  let res3 := if m =? 0 then res2 ||| fClamped else res2 in
  set_exponent est c d nd res0 xs = Ok (set_exp (set_coeff d m) et, uf (res3 ||| fRounded)).
Proof.
  intros H1 H2 et k m res1 res2 res3. rewrite se_head.
  destruct (Z.ltb_spec adj (emin c)); [|lia]. cbv zeta. fold et.
  destruct (Z.ltb_spec sum et); [|lia].
  rewrite (modf_le0 est HE) by (cbn [exp coeff]; lia). cbn [exp coeff neg form_of bind].
  replace (- (sum - et)) with (et - sum) by lia. fold k.
  assert (Hk : 0 < k) by (apply pow10_pos; lia).
  pose proof (Z.mod_pos_bound (coeff d) k Hk) as Hr.
  rewrite (is_zero_finite d Hfin). fold res1.
  (* is the fraction zero? *)
  unfold dabs, set_neg. cbn [form_of neg exp coeff].
  set (ff := if et - sum >? ndigits (coeff d) then Finite else Finite).
  assert (Hff : ff = Finite) by (unfold ff; destruct (_ >? _); reflexivity).
  rewrite Hff. clear Hff ff.
  rewrite is_zero_finite by reflexivity. cbn [coeff].
  destruct (Z.eqb_spec (coeff d mod k) 0) as [Hz|Hnz]; cbn [negb bind].
  - (* exact *)
    assert (Hm : m = coeff d / k) by (unfold m; apply rndZ_exact; assumption).
    rewrite is_zero_finite by reflexivity. cbn [set_coeff coeff]. rewrite <- Hm.
    unfold res3, res2. reflexivity.
  - (* inexact: compare the fraction with one half *)
    rewrite (dcmp_spec est HE) by (cbn; lia || reflexivity).
    cbn [bind]. unfold cmp_spec, vsign, d_half, dec_of_pair, decimalHalf. cbn [form_of neg exp coeff fst snd form_eqb andb].
    assert (Hnz' : (coeff d mod k =? 0) = false) by (apply Z.eqb_neq; assumption). rewrite Hnz'.
    change (5 <? 0) with false. change (Z.abs 5) with 5. change (5 =? 0) with false. cbv iota.
    change (1 <? 1) with false. change (1 >? 1) with false. change (1 =? 0) with false. cbv iota. cbn [andb].
    rewrite Z.mul_1_l. rewrite vcmp_half by lia. replace (- (sum - et)) with (et - sum) by lia. fold k.
    rewrite <- cmpZ_eq. unfold bigOne.
    rewrite (sao_rndZ (rounding c) (neg d) (coeff d) k Hco Hk Hnz). fold m.
    rewrite is_zero_finite by reflexivity. cbn [set_coeff coeff].
    unfold res3, res2. rewrite ?Hnz'. reflexivity.
Qed.

End SE.
End WithEst.
