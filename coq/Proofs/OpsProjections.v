(* Projections of the bundled postcondition op_post onto the three properties it serves. *)
From Coq Require Import ZArith Lia Bool.
From Apd Require Import Generated.Consts Model.Base Model.NumDigits Model.Decimal Model.Context Model.Text Spec.SpecZ Spec.Order
  Proofs.Digits Proofs.Core Proofs.SetExponent Proofs.RoundSpec Proofs.OpsProofs Proofs.QuoProofs Proofs.SeRoundProofs.
Open Scope Z_scope.

Definition rdec_value (r : res result) : option dec := match r with Ok r => rdec r | _ => None end.

(* C01: the value, sign of zero included, is the exact result E rounded once *)
Definition c01_post (c : ctx) (E : exact) (d : dec) : Prop :=
  if xnum E =? 0 then form_of d = Finite /\ coeff d = 0 /\ neg d = xneg E
  else matches d (s_res (spec_round_nz (prec c) (emin c) (emax c) (rounding c) E)) = true.

(* C02: the four value-related conditions are functions of the exact result; implications; no division
   or invalid-operation condition, no system condition *)
Definition c02_post (c : ctx) (E : exact) (d : dec) (f : cond) : Prop :=
  let S := spec_flags (prec c) (emin c) (emax c) (rounding c) E in
  Inexact f = s_inexact S /\ Subnormal f = s_subnormal S /\ Underflow f = (s_subnormal S && s_inexact S) /\
  Overflow f = s_overflow S /\ (form_of d = Finite -> Inexact f = true -> Rounded f = true) /\
  (Overflow f = true -> Inexact f = true) /\
  SystemOverflow f = false /\ SystemUnderflow f = false /\ DivisionUndefined f = false /\ DivisionByZero f = false /\
  DivisionImpossible f = false /\ InvalidOperation f = false.

(* C07: a finite result fits the context *)
Definition c07_post (c : ctx) (d : dec) : Prop := form_of d = Finite -> fits c d = true.

Lemma post_c01 c E d f : op_post c E d f -> c01_post c E d.
Proof.
  unfold op_post, c01_post. destruct (xnum E =? 0).
  - intros H. unfold zero_post in H. cbn [neg] in H. tauto.
  - intros H. unfold agrees in H. tauto.
Qed.

Lemma spec_overflow_inexact p a b m E : s_overflow (spec_round_nz p a b m E) = true -> s_inexact (spec_round_nz p a b m E) = true.
Proof.
  unfold spec_round_nz. cbv zeta.
  repeat match goal with |- context [let '(u, v) := ?t in _] => destruct t end.
  match goal with |- context [if ?t then mkSround _ _ _ _ else _] => destruct t end; cbn; auto; discriminate.
Qed.

Lemma post_c02 c E d f : op_post c E d f -> c02_post c E d f.
Proof.
  unfold op_post, c02_post, spec_flags. destruct (xnum E =? 0).
  - intros H. unfold zero_post in H. cbn [s_inexact s_subnormal s_overflow andb].
    destruct H as (Hf & _ & _ & _ & H1 & H2 & H3 & H4 & H5 & H6 & H7 & H8 & H9 & H10 & _).
    repeat split; try assumption. intros _ Hi. rewrite H1 in Hi. discriminate. intros Ho. rewrite H4 in Ho. discriminate.
  - intros H. unfold agrees in H.
    destruct H as (_ & H1 & H2 & H3 & H4 & H5 & H6 & H7 & H8 & H9 & H10 & H11 & _).
    repeat split; try assumption. intros Ho. rewrite H4 in Ho. rewrite H1. apply spec_overflow_inexact. assumption.
Qed.

Lemma post_c07 c E d f : op_post c E d f -> c07_post c d.
Proof.
  unfold op_post, c07_post. destruct (xnum E =? 0).
  - intros H. unfold zero_post in H. intros _. tauto.
  - intros H. unfold agrees in H. tauto.
Qed.

Section WithEst.
Variable est : Z -> Z.
Hypothesis HE : est_in_range est.

Lemma c01_round c (x : dec) : ctx_ok c -> finite_nn x -> exact_in_limits c (exact_of_dec x) ->
  exists d f, ctx_round_op est c x = Ok (finish c d f) /\ c01_post c (exact_of_dec x) d.
Proof.
  intros Hc H0 H1. destruct (round_op_correct est HE c x Hc H0 H1) as (d & f & Hr & Hp).
  exists d, f. split; [exact Hr|]. exact (post_c01 c _ d f Hp).
Qed.

Lemma c02_round c (x : dec) : ctx_ok c -> finite_nn x -> exact_in_limits c (exact_of_dec x) ->
  exists d f, ctx_round_op est c x = Ok (finish c d f) /\ c02_post c (exact_of_dec x) d f.
Proof.
  intros Hc H0 H1. destruct (round_op_correct est HE c x Hc H0 H1) as (d & f & Hr & Hp).
  exists d, f. split; [exact Hr|]. exact (post_c02 c _ d f Hp).
Qed.

Lemma c07_round c (x : dec) : ctx_ok c -> finite_nn x -> exact_in_limits c (exact_of_dec x) ->
  exists d f, ctx_round_op est c x = Ok (finish c d f) /\ c07_post c d.
Proof.
  intros Hc H0 H1. destruct (round_op_correct est HE c x Hc H0 H1) as (d & f & Hr & Hp).
  exists d, f. split; [exact Hr|]. exact (post_c07 c _ d f Hp).
Qed.

Lemma c01_abs c (x : dec) : ctx_ok c -> finite_nn x -> exact_in_limits c (exact_abs x) ->
  exists d f, ctx_abs est c x = Ok (finish c d f) /\ c01_post c (exact_abs x) d.
Proof.
  intros Hc H0 H1. destruct (abs_correct est HE c x Hc H0 H1) as (d & f & Hr & Hp).
  exists d, f. split; [exact Hr|]. exact (post_c01 c _ d f Hp).
Qed.

Lemma c02_abs c (x : dec) : ctx_ok c -> finite_nn x -> exact_in_limits c (exact_abs x) ->
  exists d f, ctx_abs est c x = Ok (finish c d f) /\ c02_post c (exact_abs x) d f.
Proof.
  intros Hc H0 H1. destruct (abs_correct est HE c x Hc H0 H1) as (d & f & Hr & Hp).
  exists d, f. split; [exact Hr|]. exact (post_c02 c _ d f Hp).
Qed.

Lemma c07_abs c (x : dec) : ctx_ok c -> finite_nn x -> exact_in_limits c (exact_abs x) ->
  exists d f, ctx_abs est c x = Ok (finish c d f) /\ c07_post c d.
Proof.
  intros Hc H0 H1. destruct (abs_correct est HE c x Hc H0 H1) as (d & f & Hr & Hp).
  exists d, f. split; [exact Hr|]. exact (post_c07 c _ d f Hp).
Qed.

Lemma c01_neg c (x : dec) : ctx_ok c -> finite_nn x -> exact_in_limits c (exact_neg x) ->
  exists d f, ctx_neg est c x = Ok (finish c d f) /\ c01_post c (exact_neg x) d.
Proof.
  intros Hc H0 H1. destruct (neg_correct est HE c x Hc H0 H1) as (d & f & Hr & Hp).
  exists d, f. split; [exact Hr|]. exact (post_c01 c _ d f Hp).
Qed.

Lemma c02_neg c (x : dec) : ctx_ok c -> finite_nn x -> exact_in_limits c (exact_neg x) ->
  exists d f, ctx_neg est c x = Ok (finish c d f) /\ c02_post c (exact_neg x) d f.
Proof.
  intros Hc H0 H1. destruct (neg_correct est HE c x Hc H0 H1) as (d & f & Hr & Hp).
  exists d, f. split; [exact Hr|]. exact (post_c02 c _ d f Hp).
Qed.

Lemma c07_neg c (x : dec) : ctx_ok c -> finite_nn x -> exact_in_limits c (exact_neg x) ->
  exists d f, ctx_neg est c x = Ok (finish c d f) /\ c07_post c d.
Proof.
  intros Hc H0 H1. destruct (neg_correct est HE c x Hc H0 H1) as (d & f & Hr & Hp).
  exists d, f. split; [exact Hr|]. exact (post_c07 c _ d f Hp).
Qed.

Lemma c01_add_sub c (x y : dec) (sub : bool) : ctx_ok c -> finite_nn x -> finite_nn y -> Z.abs (exp x - exp y) <= MaxExponent -> exact_in_limits c (exact_add x y sub (rounder_eqb (rounding c) RFloor)) ->
  exists d f, ctx_add est c x y sub = Ok (finish c d f) /\ c01_post c (exact_add x y sub (rounder_eqb (rounding c) RFloor)) d.
Proof.
  intros Hc H0 H1 H2 H3. destruct (add_correct est HE c x y sub Hc H0 H1 H2 H3) as (d & f & Hr & Hp).
  exists d, f. split; [exact Hr|]. exact (post_c01 c _ d f Hp).
Qed.

Lemma c02_add_sub c (x y : dec) (sub : bool) : ctx_ok c -> finite_nn x -> finite_nn y -> Z.abs (exp x - exp y) <= MaxExponent -> exact_in_limits c (exact_add x y sub (rounder_eqb (rounding c) RFloor)) ->
  exists d f, ctx_add est c x y sub = Ok (finish c d f) /\ c02_post c (exact_add x y sub (rounder_eqb (rounding c) RFloor)) d f.
Proof.
  intros Hc H0 H1 H2 H3. destruct (add_correct est HE c x y sub Hc H0 H1 H2 H3) as (d & f & Hr & Hp).
  exists d, f. split; [exact Hr|]. exact (post_c02 c _ d f Hp).
Qed.

Lemma c07_add_sub c (x y : dec) (sub : bool) : ctx_ok c -> finite_nn x -> finite_nn y -> Z.abs (exp x - exp y) <= MaxExponent -> exact_in_limits c (exact_add x y sub (rounder_eqb (rounding c) RFloor)) ->
  exists d f, ctx_add est c x y sub = Ok (finish c d f) /\ c07_post c d.
Proof.
  intros Hc H0 H1 H2 H3. destruct (add_correct est HE c x y sub Hc H0 H1 H2 H3) as (d & f & Hr & Hp).
  exists d, f. split; [exact Hr|]. exact (post_c07 c _ d f Hp).
Qed.

Lemma c01_mul_normal_range_partial c (x y : dec) : ctx_ok c -> finite_nn x -> finite_nn y -> in_lim (exp x) -> in_lim (exp y) -> exact_in_limits c (exact_mul x y) -> (xnum (exact_mul x y) = 0 \/ emin c <= xexp (exact_mul x y) + ndigits (xnum (exact_mul x y)) - 1 <= emax c) -> emin c <= xexp (exact_mul x y) <= emax c ->
  exists d f, ctx_mul est c x y = Ok (finish c d f) /\ c01_post c (exact_mul x y) d.
Proof.
  intros Hc H0 H1 H2 H3 H4 H5 H6. destruct (mul_correct_normal est HE c x y Hc H0 H1 H2 H3 H4 H5 H6) as (d & f & Hr & Hp).
  exists d, f. split; [exact Hr|]. exact (post_c01 c _ d f Hp).
Qed.

Lemma c02_mul_normal_range_partial c (x y : dec) : ctx_ok c -> finite_nn x -> finite_nn y -> in_lim (exp x) -> in_lim (exp y) -> exact_in_limits c (exact_mul x y) -> (xnum (exact_mul x y) = 0 \/ emin c <= xexp (exact_mul x y) + ndigits (xnum (exact_mul x y)) - 1 <= emax c) -> emin c <= xexp (exact_mul x y) <= emax c ->
  exists d f, ctx_mul est c x y = Ok (finish c d f) /\ c02_post c (exact_mul x y) d f.
Proof.
  intros Hc H0 H1 H2 H3 H4 H5 H6. destruct (mul_correct_normal est HE c x y Hc H0 H1 H2 H3 H4 H5 H6) as (d & f & Hr & Hp).
  exists d, f. split; [exact Hr|]. exact (post_c02 c _ d f Hp).
Qed.

Lemma c07_mul_normal_range_partial c (x y : dec) : ctx_ok c -> finite_nn x -> finite_nn y -> in_lim (exp x) -> in_lim (exp y) -> exact_in_limits c (exact_mul x y) -> (xnum (exact_mul x y) = 0 \/ emin c <= xexp (exact_mul x y) + ndigits (xnum (exact_mul x y)) - 1 <= emax c) -> emin c <= xexp (exact_mul x y) <= emax c ->
  exists d f, ctx_mul est c x y = Ok (finish c d f) /\ c07_post c d.
Proof.
  intros Hc H0 H1 H2 H3 H4 H5 H6. destruct (mul_correct_normal est HE c x y Hc H0 H1 H2 H3 H4 H5 H6) as (d & f & Hr & Hp).
  exists d, f. split; [exact Hr|]. exact (post_c07 c _ d f Hp).
Qed.

(* Quo: every pair of finite operands with a non-zero divisor (zero dividend included) *)
Definition quo_hyps (c : ctx) (x y : dec) : Prop :=
  ctx_ok c /\ finite_nn x /\ finite_nn y /\ 0 < coeff y /\
  (coeff x = 0 -> in_lim (exp x - exp y)) /\ (0 < coeff x -> quo_limits c x y).

Lemma c01_quo c (x y : dec) : quo_hyps c x y ->
  exists d f, ctx_quo est c x y = Ok (finish c d f) /\ c01_post c (exact_quo x y) d.
Proof.
  intros (Hc & H0 & H1 & H2 & H3 & H4). destruct (quo_op_post est HE c x y Hc H0 H1 H2 H3 H4) as (d & f & Hr & Hp).
  exists d, f. split; [exact Hr|]. exact (post_c01 c _ d f Hp).
Qed.

Lemma c02_quo c (x y : dec) : quo_hyps c x y ->
  exists d f, ctx_quo est c x y = Ok (finish c d f) /\ c02_post c (exact_quo x y) d f.
Proof.
  intros (Hc & H0 & H1 & H2 & H3 & H4). destruct (quo_op_post est HE c x y Hc H0 H1 H2 H3 H4) as (d & f & Hr & Hp).
  exists d, f. split; [exact Hr|]. exact (post_c02 c _ d f Hp).
Qed.

Lemma c07_quo c (x y : dec) : quo_hyps c x y ->
  exists d f, ctx_quo est c x y = Ok (finish c d f) /\ c07_post c d.
Proof.
  intros (Hc & H0 & H1 & H2 & H3 & H4). destruct (quo_op_post est HE c x y Hc H0 H1 H2 H3 H4) as (d & f & Hr & Hp).
  exists d, f. split; [exact Hr|]. exact (post_c07 c _ d f Hp).
Qed.

(* Mul: every pair of finite operands (the exact product in, above or below the exponent range) *)
Definition mul_hyps (c : ctx) (x y : dec) : Prop :=
  ctx_ok c /\ emin c <= MaxExponent /\ finite_nn x /\ finite_nn y /\ in_lim (exp x) /\ in_lim (exp y) /\
  exact_in_limits c (exact_mul x y) /\ (coeff x * coeff y = 0 -> clamp_ok c (exp x + exp y)).

Lemma c01_mul c (x y : dec) : mul_hyps c x y ->
  exists d f, ctx_mul est c x y = Ok (finish c d f) /\ c01_post c (exact_mul x y) d.
Proof.
  intros (H0 & H1 & H2 & H3 & H4 & H5 & H6 & H7). destruct (mul_correct est HE c x y H0 H1 H2 H3 H4 H5 H6 H7) as (d & f & Hr & Hp).
  exists d, f. split; [exact Hr|]. exact (post_c01 c _ d f Hp).
Qed.
Lemma c02_mul c (x y : dec) : mul_hyps c x y ->
  exists d f, ctx_mul est c x y = Ok (finish c d f) /\ c02_post c (exact_mul x y) d f.
Proof.
  intros (H0 & H1 & H2 & H3 & H4 & H5 & H6 & H7). destruct (mul_correct est HE c x y H0 H1 H2 H3 H4 H5 H6 H7) as (d & f & Hr & Hp).
  exists d, f. split; [exact Hr|]. exact (post_c02 c _ d f Hp).
Qed.
Lemma c07_mul c (x y : dec) : mul_hyps c x y ->
  exists d f, ctx_mul est c x y = Ok (finish c d f) /\ c07_post c d.
Proof.
  intros (H0 & H1 & H2 & H3 & H4 & H5 & H6 & H7). destruct (mul_correct est HE c x y H0 H1 H2 H3 H4 H5 H6 H7) as (d & f & Hr & Hp).
  exists d, f. split; [exact Hr|]. exact (post_c07 c _ d f Hp).
Qed.

(* context-aware parsing of a string that denotes a finite number: the parsed value rounded once; when the
   conditions raised while the exponent is set are trapped, the call returns the error and no value *)
Definition set_string_hyps (c : ctx) (d : dec) : Prop :=
  ctx_ok c /\ emin c <= MaxExponent /\ form_of d = Finite /\ 0 <= coeff d /\
  exact_in_limits c (exact_of_dec d) /\ (coeff d = 0 -> clamp_ok c (exp d)).

Lemma c01_c02_c07_set_string c s (d : dec) : set_string_raw s = Some d -> set_string_hyps c d ->
  exists d2 f, c01_post c (exact_of_dec d) d2 /\ c02_post c (exact_of_dec d) d2 f /\ c07_post c d2 /\
    (ctx_set_string est c s = Ok (Some (d2, f, ctx_go_error c f)) \/ ctx_set_string est c s = Ok None).
Proof.
  intros Hp (H0 & H1 & H2 & H3 & H4 & H5).
  destruct (set_string_correct est HE c s d H0 H1 Hp H2 H3 H4 H5) as (d2 & f & Hpost & Hr).
  exists d2, f. split; [exact (post_c01 c _ d2 f Hpost)|]. split; [exact (post_c02 c _ d2 f Hpost)|].
  split; [exact (post_c07 c _ d2 f Hpost)|exact Hr].
Qed.

End WithEst.
