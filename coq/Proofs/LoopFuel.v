(* C04 on the models of the loops that are bounded by loop.done (Cbrt's Newton iteration, Ln's Halley iteration): the
   model's fuel is not what ends them.  loop.done counts the passes and returns an error at maxIterations, so once the fuel
   covers the remaining passes, more fuel changes nothing: the loop has ended on its own - converged, or with an error -
   for every input (and every value of the float-derived inputs). *)
From Coq Require Import ZArith Lia Bool List.
From Apd Require Import Generated.Consts Model.Base Model.NumDigits Model.Decimal Model.Context Model.Roots Model.Exp Model.Ln Model.LnHalley.
Import ListNotations.
Open Scope Z_scope.

Section WithEst.
Variable est : Z -> Z.

(* a pass that does not end the loop has advanced the counter by one and stayed below the limit *)
Lemma loop_done_continue lc lp mi pz z i pz1 i1 :
  loop_done est lc lp mi pz z i = Ok (EdOk _ (false, pz1, i1)) -> i1 = i + 1 /\ i + 1 <> mi.
Proof.
  unfold loop_done, edbind.
  destruct (ed_of (ctx_add est lc pz z true)) as [[[delta f1]|e1]| |]; cbn [bind]; try discriminate.
  cbv zeta. destruct (dsign delta =? 0); [discriminate|].
  destruct (num_digits_with est (coeff z)) as [ndz| |]; cbn [bind]; try discriminate.
  destruct (dcmp est _ _) as [cm| |]; cbn [bind]; try discriminate.
  destruct (cm <=? 0); [discriminate|]. destruct (Z.eqb_spec (i + 1) mi); [discriminate|].
  intros [= _ <-]. split; [reflexivity|assumption].
Qed.

Theorem cbrt_newton_fuel_enough fuel : forall nc lp mi ax z pz i,
  0 <= i < mi -> mi - i <= Z.of_nat fuel ->
  cbrt_newton est (S fuel) nc lp mi ax z pz i = cbrt_newton est fuel nc lp mi ax z pz i.
Proof.
  induction fuel as [|fuel IH]; intros nc lp mi ax z pz i Hi Hf; [cbn in Hf; lia|].
  remember (S fuel) as sf. cbn [cbrt_newton]. subst sf. cbn [cbrt_newton]. unfold edbind.
  destruct (ed_of (ctx_mul est nc z z)) as [[[a fa]|ea]| |]; cbn [bind]; try reflexivity.
  destruct (ed_of (ctx_quo est nc ax a)) as [[[b fb]|eb]| |]; cbn [bind]; try reflexivity.
  destruct (ed_of (ctx_add est nc b z false)) as [[[c1 f1]|e1]| |]; cbn [bind]; try reflexivity.
  destruct (ed_of (ctx_add est nc c1 z false)) as [[[c2 f2]|e2]| |]; cbn [bind]; try reflexivity.
  destruct (ed_of (ctx_quo est nc c2 d_three)) as [[[z1 f3]|e3]| |]; cbn [bind]; try reflexivity.
  destruct (loop_done est nc lp mi pz z1 i) as [[[[dn pz1] i1]|e4]| |] eqn:Ed; cbn [bind]; try reflexivity.
  destruct dn; [reflexivity|]. destruct (loop_done_continue _ _ _ _ _ _ _ _ Ed) as [-> Hne].
  apply IH; lia.
Qed.

Theorem ln_halley_fuel_enough fuel : forall nc lp mi z exps a pz i,
  0 <= i < mi -> mi - i <= Z.of_nat fuel ->
  ln_halley est (S fuel) nc lp mi z exps a pz i = ln_halley est fuel nc lp mi z exps a pz i.
Proof.
  induction fuel as [|fuel IH]; intros nc lp mi z exps a pz i Hi Hf; [cbn in Hf; lia|].
  remember (S fuel) as sf. cbn [ln_halley]. subst sf. cbn [ln_halley].
  destruct exps as [|[cp n] rest]; [reflexivity|].
  destruct (halley_term est cp n nc z a) as [[t|e1]| |]; cbn [bind]; try reflexivity.
  destruct (ctx_add est nc a t true) as [r| |]; cbn [bind]; try reflexivity.
  destruct (rerr r); try reflexivity. destruct (rdec r) as [v|]; [|reflexivity].
  destruct (loop_done est nc lp mi pz v i) as [[[[dn pz1] i1]|e4]| |] eqn:Ed; cbn [bind]; try reflexivity.
  destruct dn; [reflexivity|]. destruct (loop_done_continue _ _ _ _ _ _ _ _ Ed) as [-> Hne].
  apply IH; lia.
Qed.

(* hence any amount of fuel beyond the bound gives the answer of the bound *)
Corollary ln_halley_any_fuel k : forall fuel nc lp mi z exps a pz i,
  0 <= i < mi -> mi - i <= Z.of_nat fuel ->
  ln_halley est (k + fuel) nc lp mi z exps a pz i = ln_halley est fuel nc lp mi z exps a pz i.
Proof.
  induction k as [|k IH]; intros fuel nc lp mi z exps a pz i Hi Hf; [reflexivity|].
  change (S k + fuel)%nat with (S (k + fuel)). rewrite ln_halley_fuel_enough by lia. apply IH; assumption.
Qed.
Corollary cbrt_newton_any_fuel k : forall fuel nc lp mi ax z pz i,
  0 <= i < mi -> mi - i <= Z.of_nat fuel ->
  cbrt_newton est (k + fuel) nc lp mi ax z pz i = cbrt_newton est fuel nc lp mi ax z pz i.
Proof.
  induction k as [|k IH]; intros fuel nc lp mi ax z pz i Hi Hf; [reflexivity|].
  change (S k + fuel)%nat with (S (k + fuel)). rewrite cbrt_newton_fuel_enough by lia. apply IH; assumption.
Qed.

(* Sqrt's Newton loop doubles its working precision (p -> 2p - 2, capped at maxp) and ends when it reaches maxp: p - 2
   doubles on every pass, so about log2 maxp passes are all there are *)
Theorem sqrt_loop_fuel_enough fuel : forall c p maxp f a,
  3 <= p <= maxp -> maxp - 2 <= (p - 2) * 2 ^ Z.of_nat fuel ->
  sqrt_loop est (S fuel) c p maxp f a = sqrt_loop est fuel c p maxp f a.
Proof.
  induction fuel as [|fuel IH]; intros c p maxp f a Hp Hf.
  - cbn in Hf. assert (p = maxp) by lia. subst. cbn [sqrt_loop]. rewrite Z.eqb_refl. reflexivity.
  - remember (S fuel) as sf. cbn [sqrt_loop]. subst sf. cbn [sqrt_loop]. destruct (Z.eqb_spec p maxp) as [|Hne]; [reflexivity|].
    cbv zeta. unfold edbind.
    set (p2 := if 2 * p - 2 >? maxp then maxp else 2 * p - 2).
    destruct (ed_of (ctx_quo est _ f a)) as [[[t1 f1]|e1]| |]; cbn [bind]; try reflexivity.
    destruct (ed_of (ctx_add est _ t1 a false)) as [[[t2 f2]|e2]| |]; cbn [bind]; try reflexivity.
    destruct (ed_of (ctx_mul est _ t2 d_half)) as [[[a2 f3]|e3]| |]; cbn [bind]; try reflexivity.
    apply IH.
    + unfold p2. destruct (Z.gtb_spec (2 * p - 2) maxp); lia.
    + rewrite Nat2Z.inj_succ, Z.pow_succ_r in Hf by lia.
      assert (0 < 2 ^ Z.of_nat fuel) by (apply Z.pow_pos_nonneg; lia).
      unfold p2. destruct (Z.gtb_spec (2 * p - 2) maxp); nia.
Qed.

Lemma sqrt_model_fuel c workp f a : 7 <= workp ->
  let fuel := Z.to_nat (Z.log2 (workp + 5) + 4) in
  sqrt_loop est (S fuel) c 3 (workp + 5) f a = sqrt_loop est fuel c 3 (workp + 5) f a.
Proof.
  intros H fuel. apply sqrt_loop_fuel_enough; [lia|]. unfold fuel.
  pose proof (Z.log2_nonneg (workp + 5)) as Hl.
  rewrite Z2Nat.id by lia. destruct (Z.log2_spec (workp + 5) ltac:(lia)) as [_ L].
  rewrite Z.pow_add_r by lia. rewrite Z.pow_succ_r in L by lia.
  assert (0 < 2 ^ Z.log2 (workp + 5)) by (apply Z.pow_pos_nonneg; lia).
  change (2 ^ 4) with 16. nia.
Qed.

Lemma ln_model_fuel k c nc z exps a0 : 0 <= prec c ->
  ln_halley est (k + Z.to_nat (prec c + 14)) nc (prec c + 1) (10 + (prec c + 1)) z exps a0 (mkDec Finite false 0 0) 0 =
  ln_halley est (Z.to_nat (prec c + 14)) nc (prec c + 1) (10 + (prec c + 1)) z exps a0 (mkDec Finite false 0 0) 0.
Proof. intros H. apply ln_halley_any_fuel; [lia|]. rewrite Z2Nat.id by lia. lia. Qed.
End WithEst.
