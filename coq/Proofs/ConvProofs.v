(* C17: Int64 is exact and never wraps; the constructors are exact; Modf splits exactly. *)
From Coq Require Import ZArith Lia Bool.
From Apd Require Import Generated.Consts Model.Base Model.NumDigits Model.Decimal Model.BigInt Model.Conv Spec.Order
  Proofs.Digits Proofs.Core Proofs.CmpProofs Proofs.RoundBasics Proofs.SetExponent Proofs.BigIntProofs.
Open Scope Z_scope.

(* signed coefficient of a finite decimal scaled to exponent m *)
Definition sc (d : dec) (m : Z) : Z := (if neg d then -1 else 1) * (coeff d * 10 ^ (exp d - m)).

(* Cmp on finite decimals compares the signed scaled coefficients *)
Lemma cmp_spec_signed a b m : form_of a = Finite -> form_of b = Finite -> 0 <= coeff a -> 0 <= coeff b ->
  m <= exp a -> m <= exp b -> cmp_spec a b = cmpZ' (sc a m) (sc b m).
Proof.
  intros Hfa Hfb Ha Hb Hma Hmb. unfold cmp_spec, vsign, sc. rewrite Hfa, Hfb. cbn [form_eqb andb].
  pose proof (pow10_pos (exp a - m) ltac:(lia)) as Pa. pose proof (pow10_pos (exp b - m) ltac:(lia)) as Pb.
  rewrite (vcmp_common _ _ _ _ m) by lia.
  set (A := coeff a * 10 ^ (exp a - m)). set (B := coeff b * 10 ^ (exp b - m)).
  assert (HA : 0 <= A) by (unfold A; nia). assert (HB : 0 <= B) by (unfold B; nia).
  assert (HA0 : coeff a = 0 -> A = 0) by (unfold A; intros; nia).
  assert (HA1 : coeff a <> 0 -> 0 < A) by (unfold A; intros; nia).
  assert (HB0 : coeff b = 0 -> B = 0) by (unfold B; intros; nia).
  assert (HB1 : coeff b <> 0 -> 0 < B) by (unfold B; intros; nia).
  clearbody A B.
  destruct (Z.eqb_spec (coeff a) 0) as [Ea|Ea]; [specialize (HA0 Ea)|specialize (HA1 Ea)];
  (destruct (Z.eqb_spec (coeff b) 0) as [Eb|Eb]; [specialize (HB0 Eb)|specialize (HB1 Eb)]);
    destruct (neg a), (neg b); cbn [Z.ltb Z.gtb Z.eqb Z.compare];
    repeat match goal with
    | |- context [cmpZ' ?u ?v] => destruct (cmpZ'_spec u v) as [[-> ?]|[[-> ?]|[-> ?]]]
    end; try reflexivity; try lia.
Qed.

Lemma wrap64s_id v : - 2 ^ 63 <= v < 2 ^ 63 -> wrap64s v = v.
Proof.
  intros H. destruct (Z.lt_ge_cases v 0); [|apply wrap64s_small; lia].
  replace v with (- (- v)) by lia. apply wrap64s_neg_small. lia.
Qed.

(* the x10 loop does not wrap when the final product fits *)
Lemma mul10_exact n : forall v, 0 <= v -> v * 10 ^ Z.of_nat n < 2 ^ 63 -> mul10 n v = v * 10 ^ Z.of_nat n.
Proof.
  induction n as [|n IH]; intros v Hv Hb.
  - cbn. lia.
  - cbn [mul10]. rewrite Nat2Z.inj_succ, Z.pow_succ_r in * by lia.
    assert (Hp : 0 < 10 ^ Z.of_nat n) by (apply Z.pow_pos_nonneg; lia).
    rewrite wrap64s_id by nia. rewrite IH by nia. lia.
Qed.

(* the integer value of a finite decimal, if it is an integer *)
Definition ival (d : dec) : option Z :=
  let s := if neg d then -1 else 1 in
  if 0 <=? exp d then Some (s * (coeff d * 10 ^ exp d))
  else if coeff d mod 10 ^ (- exp d) =? 0 then Some (s * (coeff d / 10 ^ (- exp d))) else None.

Section WithEst.
Variable est : Z -> Z.
Hypothesis HE : est_in_range est.

(* Int64 returns v exactly when the decimal is an integer within [MinInt64, MaxInt64] - whatever its
   exponent or trailing zeros - and an error otherwise; never a wrapped value *)
Theorem dint64_spec d : form_of d = Finite -> 0 <= coeff d ->
  dint64 est d = Ok (match ival d with
                     | Some v => if (- 2 ^ 63 <=? v) && (v <? 2 ^ 63) then Some v else None
                     | None => None
                     end).
Proof.
  intros Hf Hc. unfold dint64, is_finite. rewrite Hf. cbn [form_eqb negb].
  unfold ival. destruct (Z.leb_spec 0 (exp d)) as [He|He].
  - (* non-negative exponent: the value is coeff * 10^exp *)
    destruct (Z.eq_dec (exp d) 0) as [He0|He0].
    + (* exponent 0 goes through the general branch of Modf *)
      rewrite (modf_le0 est HE) by lia. cbn [bind]. rewrite He0. cbn [Z.opp]. simpl (10 ^ 0). rewrite Z.div_1_r, Z.mod_1_r.
      set (ff := if 0 >? ndigits (coeff d) then form_of d else Finite).
      set (fi := if 0 >? ndigits (coeff d) then Finite else Finite).
      assert (Hfi : fi = Finite) by (unfold fi; destruct (_ >? _); reflexivity).
      assert (Hff : ff = Finite) by (unfold ff; rewrite Hf; destruct (_ >? _); reflexivity).
      rewrite Hfi, Hff. rewrite is_zero_finite by reflexivity. cbn [coeff Z.eqb negb].
      rewrite !(dcmp_spec est HE) by (cbn; try reflexivity; lia). cbn [bind].
      rewrite (cmp_spec_signed _ _ 0) by (cbn; try reflexivity; lia).
      rewrite (cmp_spec_signed _ d_min_int64 0) by (cbn; try reflexivity; lia).
      unfold sc. cbn [neg coeff exp d_max_int64 d_min_int64 dec_of_pair fst snd decimalMaxInt64 decimalMinInt64].
      change (9223372036854775807 <? 0) with false. change (-9223372036854775808 <? 0) with true. cbv iota.
      change (Z.abs 9223372036854775807) with 9223372036854775807. change (Z.abs (-9223372036854775808)) with 9223372036854775808.
      rewrite !Z.sub_0_r. simpl (10 ^ 0). rewrite !Z.mul_1_r.
      set (s := if neg d then -1 else 1). cbn [Z.to_nat mul10].
      destruct (cmpZ'_spec (s * coeff d) (1 * 9223372036854775807)) as [[-> K1]|[[-> K1]|[-> K1]]];
      destruct (cmpZ'_spec (s * coeff d) (-1 * 9223372036854775808)) as [[-> K2]|[[-> K2]|[-> K2]]];
        cbn [Z.gtb Z.ltb Z.compare]; unfold s in *;
        destruct (neg d); 
        repeat match goal with
        | |- context [?u <=? ?v] => destruct (Z.leb_spec u v)
        | |- context [?u <? ?v] => destruct (Z.ltb_spec u v)
        end; cbn [andb]; try lia; try reflexivity; f_equal; f_equal.
      all: try (rewrite (wrap64s_small (coeff d)) by lia; apply wrap64s_neg_small || rewrite wrap64s_id; lia).
      all: try (rewrite wrap64s_small by lia; lia).
      all: try (assert (E : coeff d = 2 ^ 63) by lia; rewrite E; reflexivity).
      all: try (destruct (Z.eq_dec (coeff d) 0) as [E0|E0]; [rewrite E0; reflexivity|rewrite (wrap64s_small (coeff d)) by lia; rewrite wrap64s_neg_small by lia; lia]).
    + (* positive exponent: Modf returns d itself and a zero fraction *)
      unfold modf. destruct (Z.gtb_spec (exp d) 0); [|lia]. cbn [bind].
      rewrite is_zero_finite by reflexivity. cbn [coeff Z.eqb negb].
      rewrite !(dcmp_spec est HE) by (unfold is_nan; rewrite ?Hf; cbn; try reflexivity; lia). cbn [bind].
      rewrite (cmp_spec_signed _ _ 0) by (cbn; try reflexivity; try assumption; lia).
      rewrite (cmp_spec_signed _ d_min_int64 0) by (cbn; try reflexivity; try assumption; lia).
      unfold sc. cbn [d_max_int64 d_min_int64 dec_of_pair fst snd decimalMaxInt64 decimalMinInt64 neg coeff exp].
      change (9223372036854775807 <? 0) with false. change (-9223372036854775808 <? 0) with true. cbv iota.
      change (Z.abs 9223372036854775807) with 9223372036854775807. change (Z.abs (-9223372036854775808)) with 9223372036854775808.
      rewrite !Z.sub_0_r. simpl (10 ^ 0). rewrite !Z.mul_1_r.
      set (s := if neg d then -1 else 1). set (V := coeff d * 10 ^ exp d).
      assert (HV : 0 <= V) by (unfold V; pose proof (pow10_pos (exp d) ltac:(lia)); nia).
      assert (Hp : 10 <= 10 ^ exp d).
      { replace (exp d) with ((exp d - 1) + 1) by lia. rewrite pow10_succ by lia. pose proof (pow10_pos (exp d - 1) ltac:(lia)). lia. }
      (* with exp > 0 the value 2^63 is impossible (not a multiple of 10) *)
      assert (Hno : V <> 2 ^ 63).
      { unfold V. intros E. replace (exp d) with ((exp d - 1) + 1) in E by lia. rewrite pow10_succ in E by lia.
        assert (Hm : (2 ^ 63) mod 10 = 8) by reflexivity. rewrite <- E in Hm.
        replace (coeff d * (10 * 10 ^ (exp d - 1))) with ((coeff d * 10 ^ (exp d - 1)) * 10) in Hm by lia.
        rewrite Z.mod_mul in Hm by lia. discriminate. }
      destruct (cmpZ'_spec (s * V) (1 * 9223372036854775807)) as [[-> K1]|[[-> K1]|[-> K1]]];
      destruct (cmpZ'_spec (s * V) (-1 * 9223372036854775808)) as [[-> K2]|[[-> K2]|[-> K2]]];
        cbn [Z.gtb Z.ltb Z.compare]; unfold s in *;
        destruct (neg d);
        repeat match goal with
        | |- context [?u <=? ?v] => destruct (Z.leb_spec u v)
        | |- context [?u <? ?v] => destruct (Z.ltb_spec u v)
        end; cbn [andb]; try lia; try reflexivity; f_equal; f_equal.
      all: assert (Hcb : coeff d < 2 ^ 63) by (unfold V in *; nia).
      all: rewrite (wrap64s_small (coeff d)) by lia.
      all: rewrite mul10_exact by (try lia; rewrite Z2Nat.id by lia; fold V; lia).
      all: rewrite Z2Nat.id by lia; fold V.
      all: try (destruct (Z.eq_dec V 0) as [E0|E0]; [rewrite E0; reflexivity|rewrite wrap64s_neg_small by lia; lia]).
      all: try lia.
  - (* negative exponent *)
    rewrite (modf_le0 est HE) by lia. cbn [bind].
    set (k := 10 ^ (- exp d)). assert (Hk : 0 < k) by (apply pow10_pos; lia).
    set (ff := if - exp d >? ndigits (coeff d) then form_of d else Finite).
    set (fi := if - exp d >? ndigits (coeff d) then Finite else Finite).
    assert (Hfi : fi = Finite) by (unfold fi; destruct (_ >? _); reflexivity).
    assert (Hff : ff = Finite) by (unfold ff; rewrite Hf; destruct (_ >? _); reflexivity).
    rewrite Hfi, Hff. rewrite is_zero_finite by reflexivity. cbn [coeff].
    destruct (Z.eqb_spec (coeff d mod k) 0) as [Hm|Hm]; cbn [negb]; [|reflexivity].
    set (q := coeff d / k). assert (Hq : 0 <= q) by (apply Z.div_pos; lia).
    rewrite !(dcmp_spec est HE) by (cbn; try reflexivity; lia). cbn [bind].
    rewrite (cmp_spec_signed _ _ 0) by (cbn; try reflexivity; lia).
    rewrite (cmp_spec_signed _ d_min_int64 0) by (cbn; try reflexivity; lia).
    unfold sc. cbn [neg coeff exp d_max_int64 d_min_int64 dec_of_pair fst snd decimalMaxInt64 decimalMinInt64].
    change (9223372036854775807 <? 0) with false. change (-9223372036854775808 <? 0) with true. cbv iota.
    change (Z.abs 9223372036854775807) with 9223372036854775807. change (Z.abs (-9223372036854775808)) with 9223372036854775808.
    rewrite !Z.sub_0_r. simpl (10 ^ 0). rewrite !Z.mul_1_r.
    set (s := if neg d then -1 else 1). cbn [Z.to_nat mul10].
    destruct (cmpZ'_spec (s * q) (1 * 9223372036854775807)) as [[-> K1]|[[-> K1]|[-> K1]]];
    destruct (cmpZ'_spec (s * q) (-1 * 9223372036854775808)) as [[-> K2]|[[-> K2]|[-> K2]]];
      cbn [Z.gtb Z.ltb Z.compare]; unfold s in *;
      destruct (neg d);
      repeat match goal with
      | |- context [?u <=? ?v] => destruct (Z.leb_spec u v)
      | |- context [?u <? ?v] => destruct (Z.ltb_spec u v)
      end; cbn [andb]; try lia; try reflexivity; f_equal; f_equal.
    all: try (rewrite wrap64s_small by lia; lia).
    all: try (assert (E : q = 2 ^ 63) by lia; rewrite E; reflexivity).
    all: try (destruct (Z.eq_dec q 0) as [E0|E0]; [rewrite E0; reflexivity|rewrite (wrap64s_small q) by lia; rewrite wrap64s_neg_small by lia; lia]).
Qed.

(* Modf: integ + frac = d exactly, integ an integer with exponent 0 (or d itself when its exponent is
   positive), |frac| < 1, both carrying d's sign *)
Theorem modf_identity d : form_of d = Finite -> 0 <= coeff d -> exp d <= 0 ->
  exists i f, modf est d = Ok (i, f) /\
    form_of i = Finite /\ form_of f = Finite /\ neg i = neg d /\ neg f = neg d /\ exp i = 0 /\ exp f = exp d /\
    coeff d = coeff i * 10 ^ (- exp d) + coeff f /\ 0 <= coeff f < 10 ^ (- exp d) /\ 0 <= coeff i.
Proof.
  intros Hf Hc He. rewrite (modf_le0 est HE) by assumption.
  assert (Hk : 0 < 10 ^ (- exp d)) by (apply pow10_pos; lia).
  eexists; eexists; split; [reflexivity|]. cbn [form_of neg exp coeff]. rewrite Hf.
  repeat split; try (destruct (_ >? _); reflexivity).
  - rewrite Z.mul_comm. apply Z.div_mod. lia.
  - apply Z.mod_pos_bound; lia.
  - apply Z.mod_pos_bound; lia.
  - apply Z.div_pos; lia.
Qed.

Theorem modf_positive_exponent d : 0 < exp d -> modf est d = Ok (d, mkDec Finite (neg d) 0 0).
Proof. intros H. unfold modf. destruct (Z.gtb_spec (exp d) 0); [reflexivity|lia]. Qed.

End WithEst.

(* exact constructors *)
Theorem set_finite_exact x e : - 2 ^ 63 <= x < 2 ^ 63 ->
  set_finite x e = mkDec Finite (x <? 0) e (Z.abs x).
Proof.
  intros Hx. unfold set_finite. f_equal.
  destruct (b_set_int64_ok x Hx) as [Hv Hi].
  destruct (b_abs_ok b_zero (b_set_int64 x) false Hi) as [Ha _]. rewrite Ha, Hv. reflexivity.
Qed.

Theorem new_with_big_int_exact v e : new_with_big_int v e = mkDec Finite (v <? 0) e (Z.abs v).
Proof. unfold new_with_big_int. destruct (Z.ltb_spec v 0); f_equal; lia. Qed.
