(* C19 / C07: Context.Reduce rounds first (one Context.round: op_post), then strips the trailing zeros of
   the ROUNDED coefficient, keeps the sign, and counts from the operand of the strip only. *)
From Coq Require Import ZArith Lia Bool.
From Apd Require Import Generated.Consts Model.Base Model.NumDigits Model.Decimal Model.Context Spec.SpecZ Spec.Order
  Proofs.Digits Proofs.Core Proofs.CmpProofs Proofs.RoundBasics Proofs.SetExponent Proofs.RoundEq Proofs.RoundSpec Proofs.OpsProofs Proofs.ReduceProofs.
Open Scope Z_scope.

(* what op_post says about the shape of the rounded value *)
Lemma op_post_shape c E d f : op_post c E d f ->
  (form_of d = Finite /\ 0 <= coeff d /\ fits c d = true) \/ form_of d = Infinite.
Proof.
  unfold op_post. destruct (xnum E =? 0).
  - intros (Hf & Hc & _ & _ & _ & _ & _ & _ & _ & _ & _ & _ & _ & _ & Hfit). left. repeat split; [assumption|lia|assumption].
  - intros (Hm & _ & _ & _ & _ & _ & _ & _ & _ & _ & _ & _ & Hfit).
    destruct (spec_round_nz _ _ _ _ E) as [[ng|ng m e] ? ? ?]; cbn [s_res] in Hm; unfold matches in Hm.
    + right. apply andb_prop in Hm. destruct Hm as [Hm _]. destruct (form_of d); try discriminate; reflexivity.
    + left. apply andb_prop in Hm. destruct Hm as [Hm _]. apply andb_prop in Hm. destruct Hm as [Hm Hc].
      apply andb_prop in Hm. destruct Hm as [Hm _].
      assert (Hfin : form_of d = Finite) by (destruct (form_of d); try discriminate; reflexivity).
      repeat split; [assumption|apply Z.leb_le; assumption|auto].
Qed.

(* stripping zeros keeps a value inside the context: fewer digits, same adjusted exponent, higher exponent *)
Lemma fits_strip c d d' n : fits c d = true -> 0 <= n -> 0 < coeff d' -> coeff d = coeff d' * 10 ^ n -> exp d' = exp d + n ->
  fits c d' = true.
Proof.
  intros Hfit Hn Hpos Hv He. unfold fits in *.
  assert (Hnd : ndigits (coeff d) = ndigits (coeff d') + n) by (rewrite Hv; apply ndigits_mul_pow10; lia).
  assert (H10 : 0 < 10 ^ n) by (apply pow10_pos; lia).
  apply andb_prop in Hfit. destruct Hfit as [Hfit H4]. apply andb_prop in Hfit. destruct Hfit as [Hfit H3].
  apply andb_prop in Hfit. destruct Hfit as [H1 H2].
  apply andb_true_intro; split; [apply andb_true_intro; split; [apply andb_true_intro; split|]|].
  - apply Z.leb_le. lia.
  - apply orb_prop in H2. destruct H2 as [H2|H2]; [rewrite H2; reflexivity|]. apply Z.leb_le in H2.
    apply orb_true_intro. right. apply Z.leb_le. lia.
  - apply Z.leb_le in H3. apply Z.leb_le. lia.
  - apply orb_true_intro. right. apply orb_prop in H4. destruct H4 as [H4|H4].
    + apply Z.eqb_eq in H4. nia.
    + apply Z.leb_le in H4. apply Z.leb_le. lia.
Qed.

Section WithEst.
Variable est : Z -> Z.
Hypothesis HE : est_in_range est.

(* Context.Reduce on every finite operand inside the limits: (d, f) is the ONE rounding of x to the context
   (op_post); the returned decimal d' is d stripped:
   - an overflow to Infinity passes through;
   - a zero becomes 0 with exponent 0 and the sign of the rounded value (hence of x);
   - otherwise d' has the same sign and value, no trailing zero, and n counts exactly the zeros removed *)
Theorem ctx_reduce_correct c x : ctx_ok c -> finite_nn x -> exact_in_limits c (exact_of_dec x) ->
  exists d f d' n, ctx_reduce est c x = Ok (finish c d' f, n) /\ op_post c (exact_of_dec x) d f /\
    (form_of d = Infinite -> d' = d /\ n = 0) /\
    (form_of d = Finite -> coeff d = 0 -> d' = mkDec Finite (neg d) 0 0 /\ n = 0) /\
    (form_of d = Finite -> 0 < coeff d ->
       form_of d' = Finite /\ neg d' = neg d /\ 0 <= n /\ exp d' = exp d + n /\ coeff d = coeff d' * 10 ^ n /\
       0 < coeff d' /\ coeff d' mod 10 <> 0 /\ fits c d' = true).
Proof.
  intros Hc [Hf Hn] HL. unfold ctx_reduce. rewrite (not_nan_finite1 x Hf).
  destruct (ctx_round_exact est HE c (exact_of_dec x) Hc HL) as (d & f & Hr & Hpost).
  unfold exact_of_dec in Hr. cbn [xneg xexp xnum] in Hr.
  replace (mkDec Finite (neg x) (exp x) (coeff x)) with x in Hr by (destruct x; cbn in *; subst; reflexivity).
  rewrite Hr. cbn [bind].
  destruct (op_post_shape c _ d f Hpost) as [(Hfd & Hcd & Hfit)|Hinf].
  - destruct (Z.eq_dec (coeff d) 0) as [Hz|Hnz].
    + rewrite (dreduce_zero est d Hfd Hz). cbn [bind].
      exists d, f, (mkDec Finite (neg d) 0 0), 0. split; [reflexivity|]. split; [assumption|].
      split; [intros H; rewrite Hfd in H; discriminate|]. split; [intros _ _; split; reflexivity|]. intros _ H. lia.
    + destruct (dreduce_nonzero est d Hfd ltac:(lia)) as (d1 & n & Hd & Hn0 & Hf1 & Hng & He & Hv & Hp & Hm).
      rewrite Hd. cbn [bind]. exists d, f, (set_neg d1 (neg d)), n. split; [reflexivity|]. split; [assumption|].
      split; [intros H; rewrite Hfd in H; discriminate|]. split; [intros _ H; lia|]. intros _ _.
      unfold set_neg. cbn [form_of neg exp coeff]. repeat split; try assumption.
      apply (fits_strip c d _ n Hfit Hn0); cbn [coeff exp]; assumption.
  - rewrite (dreduce_special est d) by (rewrite Hinf; discriminate). cbn [bind].
    exists d, f, d, 0. split; [destruct d; reflexivity|]. split; [assumption|].
    split; [intros _; split; reflexivity|]. split; intros H; rewrite Hinf in H; discriminate.
Qed.
End WithEst.
