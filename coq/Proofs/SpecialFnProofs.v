(* C08 for the iterative functions: in every special-operand cell the prologues of Sqrt, Cbrt, Ln, Log10,
   Exp and Pow (Model/Context.v) return what the table of Spec/Specials.v prescribes, and return at once
   (the iteration is not entered). *)
From Coq Require Import ZArith Lia Bool.
From Apd Require Import Generated.Consts Model.Base Model.NumDigits Model.Decimal Model.Context Spec.SpecZ Spec.Order Spec.Specials
  Proofs.Digits Proofs.Core Proofs.CmpProofs Proofs.RoundBasics Proofs.SetExponent Proofs.RoundSpec Proofs.OpsProofs Proofs.SpecialProofs.
Open Scope Z_scope.

(* the prologue handled the cell: it returned a destination and a Condition the table accepts, and the
   error is exactly the one the Condition and the traps produce *)
Definition prologue_ok (c : ctx) (e : expect) (r : res (option result)) : Prop :=
  match r with
  | Ok (Some r) => match rdec r with
                   | Some d => expect_ok e d (rcond r) = true /\ rerr r = ctx_go_error c (rcond r)
                   | None => False
                   end
  | _ => False
  end.

Ltac evp := cbn [should_set_as_nan is_nan form_of neg exp coeff form_eqb orb andb negb xorb set_as_nan ret finish
                 set_neg set_form set_exp set_coeff d_nan d_inf Bool.eqb rdec rcond rerr bind
                 prologue_ok expect_ok kind_ok isF isI isS isQ isZ e_kind e_invalid e_divzero e_divundef
                 ex_plain ex_invalid fst snd
                 InvalidOperation DivisionByZero DivisionUndefined fInvalidOperation fDivisionByZero fDivisionUndefined fClamped c0
                 cor ctx_go_error cond_any Z.eqb Z.ltb Z.compare Pos.compare].

Ltac done_cell := split; [unfold expect_ok, kind_ok, set_form, set_neg, isQ, isI, isZ, isF; evp;
                           rewrite ?Z.eqb_refl, ?eqb_reflx; reflexivity | reflexivity].

Lemma d_one_eq : d_one = mkDec Finite false 0 1. Proof. reflexivity. Qed.
Lemma d_zero_eq : d_zero = mkDec Finite false 0 0. Proof. reflexivity. Qed.

Section WithEst.
Variable est : Z -> Z.
Hypothesis HE : est_in_range est.

(* ---------- Exp ---------- *)
Theorem exp_special c x y e : special_table SExp (rounder_eqb (rounding c) RFloor) x y = Some e ->
  match exp_specials c x with
  | Some r => match rdec r with
              | Some d => expect_ok e d (rcond r) = true /\ rerr r = ctx_go_error c (rcond r)
              | None => False
              end
  | None => False
  end.
Proof.
  intros H. destruct x as [fx nx ex cx]. unfold exp_specials.
  destruct fx; cbn in H; try discriminate H.
  - (* finite: only zero is in the table *)
    destruct (Z.eqb_spec cx 0) as [->|N]; [|discriminate H].
    injection H as <-. evp. unfold is_zero, dsign, is_finite. evp. done_cell.
  - destruct nx; injection H as <-; evp; done_cell.
  - injection H as <-. evp. done_cell.
  - injection H as <-. evp. done_cell.
Qed.

(* ---------- Sqrt, Cbrt ---------- *)
Lemma root_zero_cell c x factor (e : expect) :
  ctx_ok c -> form_of x = Finite -> coeff x = 0 -> in_lim (Z.quot (exp x) factor) ->
  e = ex_plain (KZero (neg x)) ->
  prologue_ok c e (do (d, f) <- ctx_round est c (set_exp x (Z.quot (exp x) factor)); Ok (Some (finish c d f))).
Proof.
  intros [Hp Hr] Hf Hz Hl ->.
  destruct (round_zero_correct est HE (rounding c) c (set_exp x (Z.quot (exp x) factor)) true) as (d & f & Hrd & Hpost);
    try assumption; try reflexivity.
  unfold ctx_round. rewrite Hrd. cbn [bind prologue_ok finish rdec rcond rerr].
  destruct Hpost as (Pf & Pc & Pn & _ & _ & _ & _ & _ & _ & _ & Pdu & Pdz & _ & Pinv & _).
  split; [|reflexivity].
  unfold expect_ok, kind_ok, ex_plain, e_kind, e_invalid, e_divzero, e_divundef, isZ, isF.
  rewrite Pf, Pc, Pn, Pinv, Pdz, Pdu. cbn [set_exp neg form_eqb Z.eqb andb]. now rewrite eqb_reflx.
Qed.

Theorem sqrt_special c x y e : ctx_ok c -> in_lim (Z.quot (exp x) 2) ->
  special_table SSqrt (rounder_eqb (rounding c) RFloor) x y = Some e ->
  prologue_ok c e (root_specials est c x 2).
Proof.
  intros Hc Hl H. destruct x as [fx nx ex cx]. unfold root_specials.
  destruct fx; cbn in H; try discriminate H.
  - evp. unfold dsign, is_finite. evp.
    destruct (Z.eqb_spec cx 0) as [->|N].
    + injection H as <-. cbn [Z.eqb andb].
      apply (root_zero_cell c (mkDec Finite nx ex 0) 2); try assumption; reflexivity.
    + cbn [andb].
      destruct nx; [|discriminate H]. injection H as <-. evp. done_cell.
  - destruct nx; injection H as <-; evp; done_cell.
  - injection H as <-. evp. done_cell.
  - injection H as <-. evp. done_cell.
Qed.

Theorem cbrt_special c x y e : ctx_ok c -> in_lim (Z.quot (exp x) 3) ->
  special_table SCbrt (rounder_eqb (rounding c) RFloor) x y = Some e ->
  prologue_ok c e (root_specials est c x 3).
Proof.
  intros Hc Hl H. destruct x as [fx nx ex cx]. unfold root_specials.
  destruct fx; cbn in H; try discriminate H.
  - evp. unfold dsign, is_finite. evp.
    destruct (Z.eqb_spec cx 0) as [->|N].
    + injection H as <-. cbn [Z.eqb andb]. destruct nx; cbn [Z.eqb andb];
      apply (root_zero_cell c (mkDec Finite _ ex 0) 3); try assumption; reflexivity.
    + discriminate H.
  - destruct nx; [discriminate H|]. injection H as <-. evp. done_cell.
  - injection H as <-. evp. done_cell.
  - injection H as <-. evp. done_cell.
Qed.

(* ---------- Ln, Log10 ---------- *)
Lemma cmp_spec_zero x : form_of x = Finite -> neg x = false \/ coeff x = 0 ->
  (cmp_spec x d_zero =? 0) = (coeff x =? 0).
Proof.
  intros Hf Hs. unfold cmp_spec, vsign. rewrite Hf, d_zero_eq. cbn [form_of coeff form_eqb andb Z.eqb neg].
  destruct (Z.eqb_spec (coeff x) 0) as [E|N]; [reflexivity|].
  destruct Hs as [Hs|Hs]; [|contradiction]. rewrite Hs. reflexivity.
Qed.

Theorem log_special (o : sop) c x y e : o = SLn \/ o = SLog10 -> 0 <= coeff x ->
  special_table o (rounder_eqb (rounding c) RFloor) x y = Some e ->
  prologue_ok c e (log_specials est c x).
Proof.
  intros Ho Hcx H. destruct x as [fx nx ex cx]. cbn [coeff] in Hcx. unfold log_specials.
  assert (T : special_table SLn (rounder_eqb (rounding c) RFloor) (mkDec fx nx ex cx) y = Some e)
    by (destruct Ho as [-> | ->]; exact H).
  clear H Ho. rename T into H.
  destruct fx; cbn in H; try discriminate H.
  - (* finite *)
    evp. unfold dsign at 1, is_finite. evp.
    destruct (Z.eqb_spec cx 0) as [->|N].
    + (* zero: -Infinity *)
      injection H as <-. cbn [Z.eqb Z.ltb Z.compare andb].
      rewrite (dcmp_spec est HE) by (cbn; try reflexivity; lia).
      cbn [bind]. rewrite cmp_spec_zero by (cbn; auto). cbn [coeff Z.eqb].
      evp. done_cell.
    + cbn [andb].
      destruct nx.
      * injection H as <-. evp. done_cell.
      * cbn [Z.ltb Z.compare].
        rewrite (dcmp_spec est HE) by (cbn; try reflexivity; lia).
        cbn [bind]. rewrite cmp_spec_zero by (cbn; auto). cbn [coeff].
        destruct (Z.eqb_spec cx 0) as [|_]; [contradiction|].
        rewrite (dcmp_spec est HE) by (cbn; try reflexivity; lia). cbn [bind].
        rewrite d_one_eq. change (mkDec Finite false 0 1) with one_dec.
        destruct (cmp_spec (mkDec Finite false ex cx) one_dec =? 0); [|discriminate H].
        injection H as <-. evp. done_cell.
  - destruct nx; injection H as <-; evp; unfold dsign, is_finite; evp; done_cell.
  - injection H as <-. evp. done_cell.
  - injection H as <-. evp. done_cell.
Qed.

(* ---------- Pow ---------- *)
(* Modf of the exponent decides integrality and oddness exactly as the table's arithmetic reading *)
Lemma is_zero_fin ng e c : is_zero (mkDec Finite ng e c) = (c =? 0).
Proof. unfold is_zero, dsign, is_finite. cbn [form_of coeff form_eqb andb neg]. destruct (c =? 0); [reflexivity|]. now destruct ng. Qed.

Lemma modf_int_spec y : form_of y = Finite -> 0 <= coeff y ->
  exists integ frac, modf est y = Ok (integ, frac) /\
    is_zero frac = is_int y /\
    (is_int y && Z.odd (coeff integ) && (exp integ =? 0)) = int_odd y.
Proof.
  intros Hf Hc. destruct y as [fy ny ey cy]. cbn [form_of coeff] in *. subst fy.
  unfold modf, is_int, int_odd, isF. cbn [form_of exp coeff neg form_eqb andb].
  destruct (Z.gtb_spec ey 0) as [Hpos|Hnp].
  - (* positive exponent: a multiple of ten *)
    eexists; eexists; split; [reflexivity|].
    rewrite is_zero_fin. cbn [coeff exp Z.eqb].
    destruct (Z.leb_spec 0 ey); [|lia]. destruct (Z.ltb_spec 0 ey); [|lia].
    cbn [orb andb]. split; [reflexivity|].
    destruct (Z.eqb_spec ey 0); [lia|]. now rewrite andb_false_r.
  - rewrite (nd_ok est HE). cbn [bind].
    destruct (Z.ltb_spec 0 ey); [lia|].
    assert (Hk : 0 < 10 ^ (- ey)) by (apply pow10_pos; lia).
    destruct (Z.gtb_spec (- ey) (ndigits cy)) as [Hbig|Hsmall].
    + (* |y| < 1: integer part 0, fraction y *)
      eexists; eexists; split; [reflexivity|].
      assert (Hlt : cy < 10 ^ (- ey)).
      { pose proof (ndigits_hi cy Hc). pose proof (ndigits_pos cy).
        pose proof (pow10_le (ndigits cy) (- ey) ltac:(lia)). lia. }
      rewrite (mod_small cy (10 ^ (- ey))) by lia.
      rewrite (div_small cy (10 ^ (- ey))) by lia.
      rewrite is_zero_fin. cbn [coeff exp Z.odd Z.eqb andb].
      destruct (Z.leb_spec 0 ey); [pose proof (ndigits_pos cy); lia|].
      cbn [orb]. split; [reflexivity|]. now rewrite !andb_false_r.
    + rewrite table_exp10_ok by lia. cbn [bind].
      eexists; eexists; split; [reflexivity|].
      rewrite Z.rem_mod_nonneg, Z.quot_div_nonneg by lia.
      rewrite is_zero_fin. cbn [coeff exp Z.eqb].
      rewrite andb_true_r.
      destruct (Z.leb_spec 0 ey).
      * assert (ey = 0) by lia. subst ey. change (10 ^ (- 0)) with 1.
        rewrite Z.mod_1_r, Z.div_1_r. cbn [Z.eqb orb andb]. split; reflexivity.
      * cbn [orb]. split; reflexivity.
Qed.

Lemma ng_expr_eq (nx : bool) y integ frac :
  (form_of y = Finite -> is_zero frac = is_int y /\ (is_int y && Z.odd (coeff integ) && (exp integ =? 0)) = int_odd y) ->
  (nx && is_finite y && is_zero frac && Z.odd (coeff integ) && (exp integ =? 0)) = (nx && int_odd y).
Proof.
  intros H. unfold is_finite. destruct (form_of y) eqn:Fy; cbn [form_eqb].
  - destruct (H eq_refl) as [A B]. rewrite A, andb_true_r, <- B. now rewrite <- !andb_assoc.
  - rewrite andb_false_r. cbn [andb]. unfold int_odd, isF. rewrite Fy. cbn [form_eqb andb]. now rewrite andb_false_r.
  - rewrite andb_false_r. cbn [andb]. unfold int_odd, isF. rewrite Fy. cbn [form_eqb andb]. now rewrite andb_false_r.
  - rewrite andb_false_r. cbn [andb]. unfold int_odd, isF. rewrite Fy. cbn [form_eqb andb]. now rewrite andb_false_r.
Qed.

Lemma modf_total y : 0 <= coeff y -> exists integ frac, modf est y = Ok (integ, frac).
Proof.
  intros Hc. unfold modf. destruct (Z.gtb_spec (exp y) 0); [eexists; eexists; reflexivity|].
  rewrite (nd_ok est HE). cbn [bind].
  destruct (Z.gtb_spec (- exp y) (ndigits (coeff y))); [eexists; eexists; reflexivity|].
  destruct (Z.le_gt_cases 0 (- exp y)) as [Hle|Hgt].
  - rewrite table_exp10_ok by lia. cbn [bind]. eexists; eexists; reflexivity.
  - pose proof (ndigits_pos (coeff y)). lia.
Qed.

Lemma int_odd_zero ny ey : int_odd (mkDec Finite ny ey 0) = false.
Proof.
  unfold int_odd, isF. cbn [form_of form_eqb exp coeff andb]. destruct (0 <? ey); [reflexivity|].
  replace (0 / 10 ^ (- ey)) with 0 by (destruct (10 ^ (- ey)); reflexivity).
  now rewrite andb_false_r.
Qed.

(* the prologue of Pow in every cell of the table *)
Local Opaque is_int int_odd cmp_spec.
Theorem pow_special c x y e : 0 <= coeff x -> 0 <= coeff y ->
  special_table SPow (rounder_eqb (rounding c) RFloor) x y = Some e ->
  prologue_ok c e (pow_specials est c x y).
Proof.
  intros Hcx Hcy H. unfold pow_specials.
  destruct (should_set_as_nan x (Some y)) eqn:Hnan.
  { destruct x as [fx nx ex cx], y as [fy ny ey cy].
    destruct fx, fy; cbn in Hnan; try discriminate Hnan; cbn in H; injection H as <-; evp; done_cell. }
  destruct (modf_total y Hcy) as (integ & frac & EM). rewrite EM. cbn [bind].
  assert (HF : form_of y = Finite -> is_zero frac = is_int y /\ (is_int y && Z.odd (coeff integ) && (exp integ =? 0)) = int_odd y).
  { intros Fy. destruct (modf_int_spec y Fy Hcy) as (i & f & E & A & B). rewrite EM in E. injection E as <- <-. split; assumption. }
  rewrite (ng_expr_eq (neg x) y integ frac HF).
  destruct x as [fx nx ex cx], y as [fy ny ey cy]. cbn [coeff] in Hcx, Hcy.
  destruct fx, fy; cbn in Hnan; try discriminate Hnan; clear Hnan.
  - (* finite ** finite *)
    destruct (HF eq_refl) as [A _]. rewrite A. clear A HF EM.
    cbn [form_of form_eqb neg orb]. unfold dsign, is_finite. cbn [form_of form_eqb andb coeff neg].
    cbn in H.
    set (I := is_int (mkDec Finite ny ey cy)) in *. set (O := int_odd (mkDec Finite ny ey cy)) in *.
    destruct (Z.eqb_spec cx 0) as [->|Nx]; destruct (Z.eqb_spec cy 0) as [->|Ny]; cbn [Z.eqb andb orb] in *.
    + injection H as <-. evp. done_cell.
    + destruct ny; injection H as <-; cbn [Z.eqb]; evp; done_cell.
    + injection H as <-. destruct nx; cbn [Z.eqb Z.ltb Z.compare]; evp; done_cell.
    + destruct nx; cbn [Z.eqb Z.ltb Z.compare andb] in *.
      * destruct ny; cbn [Z.eqb] in *; destruct I; cbn [negb andb] in *; try discriminate H; injection H as <-; evp; done_cell.
      * destruct ny; cbn [Z.eqb] in *; discriminate H.
  - (* finite ** infinite *)
    clear HF EM. cbn [form_of form_eqb neg orb]. unfold dsign, is_finite. cbn [form_of form_eqb andb coeff neg].
    cbn in H.
    destruct (Z.eqb_spec cx 0) as [->|Nx]; cbn [Z.eqb andb orb] in *.
    + destruct ny; injection H as <-; cbn [Z.eqb]; evp; done_cell.
    + destruct nx; cbn [Z.eqb Z.ltb Z.compare] in *.
      * destruct ny; cbn [Z.eqb]; injection H as <-; evp; done_cell.
      * rewrite (dcmp_spec est HE) by (cbn; try reflexivity; lia). cbn [bind].
        rewrite d_one_eq. change (mkDec Finite false 0 1) with one_dec.
        destruct ny; cbn [Z.eqb];
        destruct (cmp_spec (mkDec Finite false ex cx) one_dec =? -1);
        [injection H as <-; evp; done_cell| |injection H as <-; evp; done_cell|];
        destruct (cmp_spec (mkDec Finite false ex cx) one_dec =? 0); injection H as <-; evp; done_cell.
  - (* infinite ** finite *)
    destruct (HF eq_refl) as [A _]. rewrite A. clear A HF EM.
    cbn [form_of form_eqb neg orb]. unfold dsign, is_finite. cbn [form_of form_eqb andb coeff neg].
    cbn in H.
    set (I := is_int (mkDec Finite ny ey cy)) in *. set (O := int_odd (mkDec Finite ny ey cy)) in *.
    destruct (Z.eqb_spec cy 0) as [->|Ny]; cbn [Z.eqb andb orb] in *.
    + injection H as <-. unfold O. rewrite int_odd_zero, andb_false_r. evp. done_cell.
    + destruct nx, ny; cbn [Z.eqb andb orb negb] in *; destruct I; cbn [negb andb orb] in *; injection H as <-; evp; destruct O; evp; done_cell.
  - (* infinite ** infinite *)
    clear HF EM. cbn [form_of form_eqb neg orb]. unfold dsign, is_finite. cbn [form_of form_eqb andb coeff neg].
    cbn in H.
    destruct nx, ny; cbn [Z.eqb andb orb negb] in *; injection H as <-; evp; done_cell.
Qed.

End WithEst.
