(* The float64 estimate used by NumDigits above the table is in range for every bit length up to
   8320 (integers of up to 2504 decimal digits): kernel computation over the incremental checker. *)
From Coq Require Import ZArith Lia.
From Apd Require Import Generated.Consts Model.Base Model.NumDigits Proofs.Digits.
Open Scope Z_scope.

Definition est_bound : Z := 8320.

Lemma est_check_run :
  est_check (Z.to_nat (est_bound - 128)) 129 (2 ^ 129) (go_est 129) (10 ^ go_est 129) = true.
Proof. vm_compute. reflexivity. Qed.

Theorem EstOK_bounded : forall bl, digitsTableSize < bl <= est_bound -> est_ok (go_est bl) bl = true.
Proof.
  intros bl [Hlo Hhi]. unfold digitsTableSize in Hlo.
  replace bl with (129 + (bl - 129)) by lia.
  apply (est_check_sound (Z.to_nat (est_bound - 128)) 129 (2 ^ 129) (go_est 129) (10 ^ go_est 129)).
  - lia.
  - reflexivity.
  - reflexivity.
  - vm_compute. discriminate.
  - exact est_check_run.
  - rewrite Z2Nat.id by (unfold est_bound; lia). unfold est_bound in *. lia.
Qed.

(* NumDigits is exact, unconditionally, for every integer of at most 8320 bits *)
Theorem num_digits_correct_bounded b : bitlen b <= est_bound -> num_digits b = Ok (ndigits b).
Proof.
  intros Hb. unfold num_digits.
  destruct (Z.le_gt_cases (bitlen b) digitsTableSize) as [H|H].
  - apply num_digits_table; assumption.
  - apply num_digits_big; [lia|]. apply EstOK_bounded. lia.
Qed.
