(* C04: the model never reaches Panic or OutOfFuel on well-formed inputs, and the parser never yields an
   ill-formed value. *)
From Coq Require Import ZArith Lia Bool List.
From Apd Require Import Generated.Consts Model.Base Model.NumDigits Model.Decimal Model.Context Model.Text Model.Conv Spec.SpecZ Spec.Order
  Proofs.Digits Proofs.Core Proofs.CmpProofs Proofs.RoundBasics Proofs.SetExponent Proofs.RoundEq Proofs.RoundSpec
  Proofs.OpsProofs Proofs.DivProofs Proofs.ReduceProofs Proofs.ConvProofs Proofs.TextProofs.
Import ListNotations.
Open Scope Z_scope.

Definition total {A} (r : res A) : Prop := exists a, r = Ok a.

Section WithEst.
Variable est : Z -> Z.
Hypothesis HE : est_in_range est.

Theorem num_digits_total b : total (num_digits_with est b).
Proof. exists (ndigits b). apply (nd_ok est HE). Qed.

Theorem cmp_total_ d x : is_nan d = false -> is_nan x = false -> 0 <= coeff d -> 0 <= coeff x -> total (dcmp est d x).
Proof. intros. eexists. apply (dcmp_spec est HE); assumption. Qed.

Theorem cmptotal_total d x : 0 <= coeff d -> 0 <= coeff x -> total (cmp_total est d x).
Proof. intros. eexists. apply (cmp_total_spec est HE); assumption. Qed.

Theorem modf_total d : 0 <= coeff d -> total (modf est d).
Proof.
  intros Hc. destruct (Z.le_gt_cases (exp d) 0).
  - eexists. apply (modf_le0 est HE); assumption.
  - eexists. apply modf_positive_exponent. assumption.
Qed.

Theorem reduce_total x : 0 <= coeff x -> total (dreduce est x).
Proof.
  intros Hc. destruct (form_of x) eqn:Hf.
  - destruct (Z.eq_dec (coeff x) 0) as [Hz|Hnz].
    + eexists. apply dreduce_zero; assumption.
    + destruct (dreduce_nonzero est x Hf ltac:(lia)) as (d & n & Hr & _). exists (d, n). exact Hr.
  - eexists. apply dreduce_special. congruence.
  - eexists. apply dreduce_special. congruence.
  - eexists. apply dreduce_special. congruence.
Qed.

Theorem int64_total d : form_of d = Finite -> 0 <= coeff d -> total (dint64 est d).
Proof. intros. eexists. apply (dint64_spec est HE); assumption. Qed.

Theorem round_total c x : ctx_ok c -> finite_nn x -> exact_in_limits c (exact_of_dec x) -> total (ctx_round_op est c x).
Proof. intros Hc Hx HL. destruct (round_op_correct est HE c x Hc Hx HL) as (d & f & Hr & _). eexists. exact Hr. Qed.
Theorem abs_total c x : ctx_ok c -> finite_nn x -> exact_in_limits c (exact_abs x) -> total (ctx_abs est c x).
Proof. intros Hc Hx HL. destruct (abs_correct est HE c x Hc Hx HL) as (d & f & Hr & _). eexists. exact Hr. Qed.
Theorem neg_total c x : ctx_ok c -> finite_nn x -> exact_in_limits c (exact_neg x) -> total (ctx_neg est c x).
Proof. intros Hc Hx HL. destruct (neg_correct est HE c x Hc Hx HL) as (d & f & Hr & _). eexists. exact Hr. Qed.
Theorem add_total c x y s : ctx_ok c -> finite_nn x -> finite_nn y -> Z.abs (exp x - exp y) <= MaxExponent ->
  exact_in_limits c (exact_add x y s (rounder_eqb (rounding c) RFloor)) -> total (ctx_add est c x y s).
Proof. intros Hc Hx Hy Hg HL. destruct (add_correct est HE c x y s Hc Hx Hy Hg HL) as (d & f & Hr & _). eexists. exact Hr. Qed.
Theorem quo_integer_total c x y : 1 <= prec c -> finite_nn x -> finite_nn y -> coeff y <> 0 ->
  Z.abs (exp x - exp y) <= MaxExponent -> total (ctx_quo_integer est c x y).
Proof. intros. eexists. apply (quo_integer_correct est HE); assumption. Qed.

End WithEst.

(* special operands never reach arithmetic: every operation returns at once (any estimate) *)

(* ---------- text can never produce an ill-formed value ---------- *)
Lemma dv_nonneg s : all_digits s = true -> forall i, 0 <= i -> 0 <= dv s i.
Proof.
  induction s as [|b t IH]; intros Hd i Hi; [exact Hi|]. cbn [all_digits] in Hd. apply andb_prop in Hd as [Hb Ht].
  unfold dv. cbn [fold_left]. apply IH; [assumption|]. unfold is_digit in Hb. apply andb_prop in Hb as [H1 H2].
  apply Z.leb_le in H1, H2. lia.
Qed.

(* a successfully parsed Decimal has a non-negative coefficient; special values have clean fields *)
Theorem parse_well_formed s d : set_string_raw s = Some d ->
  0 <= coeff d /\ (form_of d <> Finite -> coeff d = 0 /\ exp d = 0).
Proof.
  unfold set_string_raw.
  destruct (consume_prefix s [ch_minus]) as [s1 ng].
  set (s2 := if ng then s1 else fst (consume_prefix s1 [ch_plus])).
  destruct (has_prefix (lower_ascii s2) [ch_minus] || has_prefix (lower_ascii s2) [ch_plus]); [discriminate|].
  destruct (str_eqb (lower_ascii s2) s_infinity || str_eqb (lower_ascii s2) s_inf).
  { intros H. injection H as <-. cbn. split; [lia|auto]. }
  destruct (consume_prefix (lower_ascii s2) s_nan) as [sa isnan].
  destruct (if isnan then (sa, false) else consume_prefix sa s_snan) as [sb issnan].
  destruct (isnan || issnan).
  { destruct sb as [|b t].
    - intros H. injection H as <-. cbn. split; [lia|auto].
    - destruct (is_digits (b :: t)); [|discriminate]. intros H. injection H as <-. cbn. split; [lia|auto]. }
  destruct (match index_byte (lower_ascii s2) ch_e with
            | Some i => match parse_int32 (skipn (S i) (lower_ascii s2)) with Some e => Some (e, firstn i (lower_ascii s2)) | None => None end
            | None => Some (0, lower_ascii s2) end) as [[e m]|]; [|discriminate].
  destruct (match index_byte m ch_dot with
            | Some i => (e - (Z.of_nat (length m) - Z.of_nat i - 1), firstn i m ++ skipn (S i) m)
            | None => (e, m) end) as [e2 m2].
  destruct (is_digits m2) eqn:Hd; [|discriminate]. cbn [negb]. intros H. injection H as <-. cbn [coeff form_of].
  split; [|intros Hf; contradiction Hf; reflexivity].
  unfold is_digits in Hd. destruct m2; [discriminate|]. rewrite digits_val_dv. apply dv_nonneg; [assumption|lia].
Qed.
