(* setExponent followed by Context.round - the shape of Mul and of Context.SetString - is ONE rounding of
   the exact value coeff * 10^(sum of the exponents): in the normal range setExponent only sets the
   exponent; above it it overflows at once; below it setExponent rounds to Etiny and the following round
   finds nothing left to do.  Used for Mul (every exact product) and context-aware parsing. *)
From Coq Require Import ZArith Lia Bool.
From Apd Require Import Generated.Consts Model.Base Model.NumDigits Model.Decimal Model.Context Spec.SpecZ Spec.Order
  Model.Text Proofs.Digits Proofs.Core Proofs.CmpProofs Proofs.RoundBasics Proofs.SetExponent Proofs.RoundEq Proofs.RoundSpec Proofs.OpsProofs.
Open Scope Z_scope.

Lemma cor_c0_left f : c0 ||| f = f.
Proof. destruct f; reflexivity. Qed.
Lemma cor_c0_right f : f ||| c0 = f.
Proof. destruct f as [a1 a2 a3 a4 a5 a6 a7 a8 a9 a10 a11 a12]. unfold cor, c0. simpl. rewrite !orb_false_r. reflexivity. Qed.

(* the specification of an integer exact value above the range: Infinity *)
Lemma spec_overflow_int p emin_ emax_ mode ng co sum :
  1 <= p -> emin_ <= emax_ -> 0 < co -> emax_ < sum + ndigits co - 1 ->
  spec_round_nz p emin_ emax_ mode (mkExact ng co 1 sum) = mkSround (SInf ng) true false true.
Proof.
  intros Hp Hr Hco Hov. unfold spec_round_nz. cbn [xnum xden xexp xneg]. rewrite mag_frac_int by assumption.
  set (nd := ndigits co) in *. pose proof (ndigits_pos co) as Hnd. fold nd in Hnd.
  cbv zeta. replace (Z.max (nd + sum - p) (emin_ - p + 1)) with (nd + sum - p) by lia.
  unfold scale_frac.
  destruct (Z.ltb_spec (nd + sum - 1) emin_); [lia|].
  destruct (Z.leb_spec 0 (sum - (nd + sum - p))) as [Hle|Hgt].
  - (* at most p digits: exact *)
    set (m := co * 10 ^ (sum - (nd + sum - p))).
    assert (Hm : 0 < m) by (unfold m; pose proof (pow10_pos (sum - (nd + sum - p)) ltac:(lia)); nia).
    rewrite Z.mod_1_r. cbn [Z.eqb negb].
    assert (HmR : rndZ mode ng m 1 = m) by (rewrite rndZ_exact by apply Z.mod_1_r; apply Z.div_1_r).
    rewrite HmR.
    assert (Hndm : ndigits m = p) by (unfold m; rewrite ndigits_mul_pow10 by lia; fold nd; lia).
    rewrite Hndm. destruct (Z.gtb_spec p p); [lia|].
    replace (negb (m =? 0)) with true by (symmetry; apply negb_true_iff, Z.eqb_neq; lia). cbn [andb].
    rewrite ?Hndm.
    destruct (Z.gtb_spec (nd + sum - p + p - 1) emax_); [reflexivity|lia].
  - (* more than p digits: rounded, possibly carried *)
    set (diff := nd - p) in *. replace (- (sum - (nd + sum - p))) with diff by (unfold diff; lia).
    rewrite Z.mul_1_l. set (k := 10 ^ diff). set (y := co / k). set (y' := rndZ mode ng co k).
    assert (Hkpos : 0 < k) by (apply pow10_pos; unfold diff; lia).
    assert (Hyd : ndigits y = p) by (unfold y, k; rewrite ndigits_div_pow10 by (unfold diff; fold nd; lia); fold nd; unfold diff; lia).
    pose proof (pow10_pos (p - 1) ltac:(lia)) as Hpp.
    assert (Hy0 : 10 ^ (p - 1) <= y).
    { assert (Hyp : 0 < y).
      { unfold y. apply Z.div_str_pos. split; [lia|]. unfold k.
        pose proof (ndigits_lo co Hco) as Hlo. fold nd in Hlo.
        assert (10 ^ diff <= 10 ^ (nd - 1)) by (apply pow10_le; unfold diff; lia). lia. }
      pose proof (ndigits_lo y Hyp). rewrite Hyd in *. assumption. }
    pose proof (rndZ_bounds mode ng co k ltac:(lia) Hkpos) as Hb. fold y y' in Hb.
    assert (Hpair : exists m1 e1, (if ndigits y' >? p then (y' / 10, nd + sum - p + 1) else (y', nd + sum - p)) = (m1, e1)
              /\ ndigits m1 = p /\ 0 < m1 /\ nd + sum - p <= e1).
    { destruct (Z.gtb_spec (ndigits y') p) as [Hc|Hnc].
      - assert (y' = y + 1) by (destruct (Z.eq_dec y' y) as [E|E]; [rewrite E in Hc; lia|lia]).
        assert (Hc10 : y + 1 = 10 ^ p) by (rewrite <- Hyd; apply ndigits_succ_carry; [lia|]; rewrite <- H0; lia).
        assert (E10 : 10 ^ p / 10 = 10 ^ (p - 1)).
        { replace p with ((p - 1) + 1) at 1 by lia. rewrite pow10_succ by lia. rewrite Z.mul_comm, Z.div_mul by lia. reflexivity. }
        eexists; eexists; split; [reflexivity|]. rewrite H0, Hc10, E10. rewrite ndigits_pow10 by lia. repeat split; lia.
      - eexists; eexists; split; [reflexivity|]. pose proof (ndigits_mono y y' ltac:(lia)). repeat split; lia. }
    destruct Hpair as (m1 & e1 & -> & Hm1 & Hm1p & He1).
    rewrite Hm1. replace (negb (m1 =? 0)) with true by (symmetry; apply negb_true_iff, Z.eqb_neq; lia). cbn [andb].
    destruct (Z.gtb_spec (e1 + p - 1) emax_); [reflexivity|lia].
Qed.

(* the specification of an integer exact value below Etiny's grid: one rounding to Etiny *)
Lemma spec_subnormal_int p emin_ emax_ mode ng co sum :
  1 <= p -> emin_ <= emax_ -> 0 < co -> sum + ndigits co - 1 < emin_ -> sum < emin_ - p + 1 ->
  let et := emin_ - p + 1 in
  let k := 10 ^ (et - sum) in
  let m := rndZ mode ng co k in
  0 <= m <= 10 ^ (p - 1) /\
  spec_round_nz p emin_ emax_ mode (mkExact ng co 1 sum) = mkSround (SFin ng m et) (negb (co mod k =? 0)) true false.
Proof.
  intros Hp Hr Hco Hsub Hlt et k m.
  set (nd := ndigits co) in *. pose proof (ndigits_pos co) as Hnd. fold nd in Hnd.
  assert (Hkpos : 0 < k) by (apply pow10_pos; unfold et; lia).
  assert (Hmb : 0 <= m <= 10 ^ (p - 1)).
  { pose proof (rndZ_bounds mode ng co k ltac:(lia) Hkpos) as Hb. fold m in Hb.
    assert (0 <= co / k) by (apply Z.div_pos; lia).
    assert (Hq : co / k < 10 ^ (p - 1)).
    { apply Z.div_lt_upper_bound; [lia|].
      pose proof (ndigits_hi co ltac:(lia)) as Hhi. fold nd in Hhi.
      assert (10 ^ nd <= 10 ^ ((et - sum) + (p - 1))) by (apply pow10_le; unfold et; lia).
      rewrite pow10_add in H0 by (unfold et; lia). fold k in H0. lia. }
    lia. }
  split; [exact Hmb|].
  assert (Hmd : ndigits m <= p).
  { pose proof (ndigits_mono m (10 ^ (p - 1)) ltac:(lia)) as Hmo. rewrite ndigits_pow10 in Hmo by lia. lia. }
  unfold spec_round_nz. cbn [xnum xden xexp xneg]. rewrite mag_frac_int by assumption. fold nd.
  cbv zeta. replace (Z.max (nd + sum - p) (emin_ - p + 1)) with et by (unfold et; lia).
  unfold scale_frac. destruct (Z.leb_spec 0 (sum - et)); [unfold et in *; lia|].
  replace (- (sum - et)) with (et - sum) by lia. rewrite Z.mul_1_l. fold k m.
  destruct (Z.gtb_spec (ndigits m) p); [lia|].
  destruct (Z.ltb_spec (nd + sum - 1) emin_); [|lia].
  destruct (Z.eqb_spec m 0) as [->|Hm0]; cbn [negb andb]; [reflexivity|].
  pose proof (ndigits_pos m).
  destruct (Z.gtb_spec (et + ndigits m - 1) emax_); [unfold et in *; lia|reflexivity].
Qed.

Lemma spec_subnormal_field p emin_ emax_ mode E :
  s_subnormal (spec_round_nz p emin_ emax_ mode E) = (mag_frac (xnum E) (xden E) + xexp E - 1 <? emin_).
Proof.
  unfold spec_round_nz. cbv zeta.
  repeat match goal with |- context [let '(u, v) := ?t in _] => destruct t end.
  match goal with |- context [if ?t then mkSround _ _ _ _ else _] => destruct t end; reflexivity.
Qed.

Lemma sub_absorb f : Subnormal f = true -> (c0 ||| fSubnormal) ||| f = f.
Proof. destruct f as [a1 a2 a3 a4 a5 a6 a7 a8 a9 a10 a11 a12]. cbn. intros ->. reflexivity. Qed.

Section WithEst.
Variable est : Z -> Z.
Hypothesis HE : est_in_range est.

Section SR.
Variables (c : ctx) (ng : bool) (co : Z) (xs : list Z) (sum e0 : Z).
Hypothesis Hc : ctx_ok c.
Hypothesis Hemin : emin c <= MaxExponent.
Hypothesis Hco : 0 <= co.
Hypothesis Hxs : sum_exps xs 0 = inr sum.
Let E := mkExact ng co 1 sum.
Hypothesis HL : exact_in_limits c E.
Let z := mkDec Finite ng e0 co.
Let p := prec c.
Let et := emin c - p + 1.

Ltac lims := unfold in_lim, MaxExponent, MinExponent, et, p in *; cbn [coeff z] in *; lia.

(* a zero: setExponent clamps the exponent, the round that follows finds it in place *)
Lemma se_round_zero : co = 0 -> in_lim (Z.min (emax c) (Z.max sum et)) ->
  exists d1 f1 d2 f2, set_exponent est c z unknownNumDigits c0 xs = Ok (d1, f1) /\ ctx_round est c d1 = Ok (d2, f2) /\
    zero_post c (mkDec Finite ng sum 0) d2 (f1 ||| f2).
Proof.
  intros Hz Hclamp. destruct Hc as [Hp Hr]. destruct HL as (_ & _ & Hsl & _). cbn [xexp E] in Hsl.
  assert (Hz' : coeff z = 0) by (cbn; exact Hz).
  assert (Hlim : in_lim (sum + ndigits (coeff z) - 1)) by (rewrite Hz'; change (ndigits 0) with 1; unfold in_lim in *; lia).
  assert (Hstep : exists e1 f1, set_exponent est c z unknownNumDigits c0 xs = Ok (mkDec Finite ng e1 co, f1) /\
            e1 = Z.min (emax c) (Z.max sum et) /\
            Inexact f1 = false /\ Subnormal f1 = false /\ Underflow f1 = false /\ Overflow f1 = false /\
            SystemOverflow f1 = false /\ SystemUnderflow f1 = false /\ DivisionUndefined f1 = false /\
            DivisionByZero f1 = false /\ DivisionImpossible f1 = false /\ InvalidOperation f1 = false).
  { destruct (Z.lt_ge_cases sum (emin c)) as [Hlo|Hlo].
    - destruct (Z.le_gt_cases (emin c - (prec c - 1)) sum) as [He|He].
      + rewrite (se_subnormal_exact est HE c z unknownNumDigits c0 xs sum);
          try assumption; try reflexivity; try (left; reflexivity); try (rewrite Hz'; change (ndigits 0) with 1; lia); try (cbn; lia).
        rewrite Hz'. cbn [Z.eqb]. eexists; eexists; split; [reflexivity|]. split; [lims|]. repeat split; reflexivity.
      + pose proof (se_subnormal_round est HE c z unknownNumDigits c0 xs sum) as HR. cbv zeta in HR.
        rewrite HR; try assumption; try reflexivity; try (left; reflexivity); try (rewrite Hz'; change (ndigits 0) with 1; lia); try (cbn; lia).
        clear HR. rewrite Hz'.
        assert (Hk : 0 < 10 ^ (emin c - (prec c - 1) - sum)) by (apply pow10_pos; lia).
        rewrite Z.mod_0_l by lia.
        assert (Hm : rndZ (rounding c) (neg z) 0 (10 ^ (emin c - (prec c - 1) - sum)) = 0).
        { rewrite rndZ_exact; [apply Z.div_0_l|apply Z.mod_0_l]; lia. }
        rewrite Hm. cbn [Z.eqb]. unfold set_exp, set_coeff. cbn [form_of neg z]. rewrite Hz.
        eexists; eexists; split; [reflexivity|]. split; [lims|]. repeat split; reflexivity.
    - destruct (Z.le_gt_cases sum (emax c)) as [Hhi|Hhi].
      + rewrite (se_normal est HE c z unknownNumDigits c0 xs sum);
          try assumption; try reflexivity; try (left; reflexivity); try (rewrite Hz'; change (ndigits 0) with 1; lia); try (cbn; lia).
        eexists; eexists; split; [reflexivity|]. split; [lims|]. repeat split; reflexivity.
      + rewrite (se_overflow est HE c z unknownNumDigits c0 xs sum);
          try assumption; try reflexivity; try (left; reflexivity); try (rewrite Hz'; change (ndigits 0) with 1; lia); try (cbn; lia).
        rewrite Hz'. cbn [Z.eqb]. eexists; eexists; split; [reflexivity|]. split; [lims|]. repeat split; reflexivity. }
  destruct Hstep as (e1 & f1 & Hse & He1 & F1 & F2 & F3 & F4 & F5 & F6 & F7 & F8 & F9 & F10).
  destruct (round_zero_correct est HE (rounding c) c (mkDec Finite ng e1 co) true) as (d2 & f2 & Hrd & Hpost);
    try assumption; try reflexivity; try (cbn [coeff]; exact Hz); try (cbn [exp]; rewrite He1; exact Hclamp).
  exists (mkDec Finite ng e1 co), f1, d2, f2. split; [exact Hse|]. split; [exact Hrd|].
  unfold zero_post in *. cbn [form_of coeff neg exp] in *.
  destruct Hpost as (P1 & P2 & P3 & P4 & G1 & G2 & G3 & G4 & G5 & G6 & G7 & G8 & G9 & G10 & Pfit).
  cbn [cor Inexact Subnormal Underflow Overflow SystemOverflow SystemUnderflow DivisionUndefined DivisionByZero DivisionImpossible InvalidOperation].
  rewrite F1, F2, F3, F4, F5, F6, F7, F8, F9, F10, G1, G2, G3, G4, G5, G6, G7, G8, G9, G10.
  repeat split; try assumption; try reflexivity. rewrite P4, He1. fold p et. lia.
Qed.

Let nd := ndigits co.
Let adj := sum + nd - 1.
Let S := spec_round_nz p (emin c) (emax c) (rounding c) E.

(* a non-zero value *)
Lemma se_round_nz : 0 < co ->
  exists d1 f1 d2 f2, set_exponent est c z unknownNumDigits c0 xs = Ok (d1, f1) /\ ctx_round est c d1 = Ok (d2, f2) /\
    agrees c d2 (f1 ||| f2) S.
Proof.
  intros Hpos. destruct Hc as [Hp Hr]. destruct HL as (_ & _ & Hsl & Hnz). cbn [xexp xnum E] in Hsl, Hnz.
  destruct (Hnz ltac:(lia)) as [Hadj Hdiff]. fold nd in Hadj, Hdiff.
  pose proof (ndigits_pos co) as Hndp. fold nd in Hndp.
  assert (Hlim : in_lim (sum + ndigits (coeff z) - 1)) by (cbn [coeff z]; fold nd; unfold in_lim; lia).
  assert (Hx' : exact_in_limits c (mkExact ng co 1 sum)) by exact HL.
  destruct (Z.lt_ge_cases adj (emin c)) as [Hsub|Hnsub].
  - (* below the normal range *)
    destruct (Z.le_gt_cases et sum) as [Hge|Hlt].
    + (* representable at its own exponent: setExponent only marks it subnormal; the round does the rest *)
      rewrite (se_subnormal_exact est HE c z unknownNumDigits c0 xs sum);
        try assumption; try reflexivity; try (left; reflexivity); try (cbn [coeff z]; fold nd; unfold adj in *; lia); try lims.
      cbn [coeff z]. destruct (Z.eqb_spec co 0); [lia|].
      unfold set_exp. cbn [form_of neg coeff z].
      pose proof (round_nz_correct est HE (rounding c) c (mkDec Finite ng sum co) true) as HR.
      cbn [form_of coeff exp neg] in HR. fold nd in HR.
      destruct HR as (d2 & f2 & Hrd & Hag); try assumption; try reflexivity; try lia.
      eexists; eexists; exists d2, f2. split; [reflexivity|]. split; [exact Hrd|].
      assert (Hsb : Subnormal f2 = true).
      { destruct Hag as (_ & _ & Hs & _). rewrite Hs. rewrite spec_subnormal_field. cbn [xnum xden xexp].
        rewrite mag_frac_int by assumption. fold nd. destruct (Z.ltb_spec (nd + sum - 1) (emin c)); [reflexivity|unfold adj in *; lia]. }
      assert (Hu : uf (c0 ||| fSubnormal) = c0 ||| fSubnormal) by reflexivity.
      rewrite Hu, sub_absorb by exact Hsb. exact Hag.
    + (* below Etiny's grid: setExponent rounds once; the round that follows finds at most Precision digits at Etiny *)
      pose proof (se_subnormal_round est HE c z unknownNumDigits c0 xs sum) as HR. cbv zeta in HR.
      rewrite HR; try assumption; try reflexivity; try (left; reflexivity); try (cbn [coeff z]; fold nd; unfold adj in *; lia); try lims.
      clear HR. cbn [coeff z neg]. replace (emin c - (prec c - 1)) with et by lims.
      destruct (spec_subnormal_int p (emin c) (emax c) (rounding c) ng co sum Hp Hr Hpos ltac:(fold nd; unfold adj in *; lia) ltac:(lims)) as [Hmb HS].
      fold et in Hmb, HS. fold E S in HS.
      set (k := 10 ^ (et - sum)) in *. set (m := rndZ (rounding c) ng co k) in *.
      destruct (Z.eqb_spec co 0); [lia|].
      unfold set_exp, set_coeff. cbn [form_of neg z].
      set (f1 := uf ((if m =? 0
                      then (if co mod k =? 0 then c0 ||| fSubnormal else c0 ||| fSubnormal ||| fInexact) ||| fClamped
                      else if co mod k =? 0 then c0 ||| fSubnormal else c0 ||| fSubnormal ||| fInexact) ||| fRounded)).
      assert (Hmd : ndigits m <= p).
      { pose proof (ndigits_mono m (10 ^ (p - 1)) ltac:(lia)) as Hmo. rewrite ndigits_pow10 in Hmo by (unfold p; lia). lia. }
      assert (Hfit : fits c (mkDec Finite ng et m) = true).
      { unfold fits. cbn [coeff exp]. destruct (Z.leb_spec 0 m); [|lia]. cbn [andb]. fold p.
        destruct (Z.leb_spec (ndigits m) p); [|lia]. rewrite orb_true_r. cbn [andb].
        pose proof (ndigits_pos m).
        destruct (Z.leb_spec (et + ndigits m - 1) (emax c)); [|lims]. cbn [andb].
        destruct (Z.leb_spec (emin c - p + 1) et); [apply orb_true_r|lims]. }
      destruct (Z.eqb_spec m 0) as [Hm0|Hm0].
      * (* rounded to zero *)
        destruct (round_zero_correct est HE (rounding c) c (mkDec Finite ng et m) true) as (d2 & f2 & Hrd & Hpost);
          try assumption; try reflexivity; try (cbn [coeff]; exact Hm0); try (unfold in_lim; cbn [exp]; lims).
        exists (mkDec Finite ng et m), f1, d2, f2. split; [reflexivity|]. split; [exact Hrd|].
        rewrite HS. unfold zero_post in Hpost. cbn [form_of coeff neg exp] in Hpost.
        destruct Hpost as (P1 & P2 & P3 & P4 & G1 & G2 & G3 & G4 & G5 & G6 & G7 & G8 & G9 & G10 & Pfit).
        unfold agrees. cbn [s_res s_inexact s_subnormal s_overflow andb].
        unfold f1.
        cbn [cor Inexact Subnormal Underflow Overflow SystemOverflow SystemUnderflow DivisionUndefined DivisionByZero DivisionImpossible InvalidOperation Rounded].
        rewrite G1, G2, G3, G4, G5, G6, G7, G8, G9, G10.
        repeat split; try solve [destruct (co mod k =? 0); reflexivity];
          try solve [intros _ _; destruct (co mod k =? 0); reflexivity]; try (intros _; exact Pfit).
        unfold matches. rewrite P1, P3, P2, Hm0. cbn [form_eqb andb Z.leb]. rewrite Bool.eqb_reflx. reflexivity.
      * (* a non-zero subnormal at Etiny with at most Precision digits: the round leaves it alone *)
        assert (Hmpos : 0 < m) by lia.
        assert (Hround : exists f2, ctx_round est c (mkDec Finite ng et m) = Ok (mkDec Finite ng et m, f2) /\
                  Inexact f2 = false /\ Underflow f2 = false /\ Overflow f2 = false /\
                  SystemOverflow f2 = false /\ SystemUnderflow f2 = false /\ DivisionUndefined f2 = false /\
                  DivisionByZero f2 = false /\ DivisionImpossible f2 = false /\ InvalidOperation f2 = false).
        { unfold ctx_round.
          assert (Hlim2 : in_lim (et + ndigits m - 1)) by (pose proof (ndigits_pos m); lims).
          destruct (Z.lt_ge_cases (et + ndigits m - 1) (emin c)) as [Ha|Ha].
          - rewrite (round_A est HE (rounding c) c (mkDec Finite ng et m) true); try reflexivity; cbn [coeff exp]; try lia.
            rewrite (se_subnormal_exact est HE c (mkDec Finite ng et m) (ndigits m) fSubnormal [et] et);
              try reflexivity; cbn [coeff exp]; try lia; try (right; reflexivity); try (rewrite sum_exps_1 by lims; f_equal); try lims.
            destruct (Z.eqb_spec m 0); [lia|]. cbn [bind]. unfold set_exp. cbn [form_of neg coeff].
            eexists; split; [reflexivity|]. repeat split; reflexivity.
          - rewrite (round_C est HE (rounding c) c (mkDec Finite ng et m) true); try reflexivity; cbn [coeff exp]; try lia; try (right; lia).
            rewrite (se_normal est HE c (mkDec Finite ng et m) (ndigits m) c0 [et; 0] et);
              try reflexivity; cbn [coeff exp]; try lia; try (right; reflexivity); try (rewrite sum_exps_2 by lims; f_equal; lia); try lims.
            unfold set_exp. cbn [form_of neg coeff].
            eexists; split; [reflexivity|]. repeat split; reflexivity. }
        destruct Hround as (f2 & Hrd & G1 & G3 & G4 & G5 & G6 & G7 & G8 & G9 & G10).
        exists (mkDec Finite ng et m), f1, (mkDec Finite ng et m), f2. split; [reflexivity|]. split; [exact Hrd|].
        rewrite HS. unfold agrees. cbn [s_res s_inexact s_subnormal s_overflow andb].
        unfold f1.
        cbn [cor Inexact Subnormal Underflow Overflow SystemOverflow SystemUnderflow DivisionUndefined DivisionByZero DivisionImpossible InvalidOperation Rounded].
        rewrite G1, G3, G4, G5, G6, G7, G8, G9, G10.
        repeat split; try solve [destruct (co mod k =? 0); reflexivity];
          try solve [intros _ _; destruct (co mod k =? 0); reflexivity]; try (intros _; exact Hfit).
        unfold matches. cbn [form_of neg coeff exp form_eqb andb]. rewrite Bool.eqb_reflx.
        destruct (Z.leb_spec 0 m); [|lia]. cbn [andb]. apply value_eqb_refl.
  - destruct (Z.le_gt_cases adj (emax c)) as [Hin|Hov].
    + (* inside the range: setExponent only sets the exponent *)
      rewrite (se_normal est HE c z unknownNumDigits c0 xs sum);
        try assumption; try reflexivity; try (left; reflexivity); try (cbn [coeff z]; fold nd; unfold adj in *; lia); try lims.
      unfold set_exp. cbn [form_of neg coeff z].
      destruct (ctx_round_exact est HE c E ltac:(split; assumption) HL) as (d2 & f2 & Hrd & Hpost).
      cbn [xneg xexp xnum E] in Hrd. unfold op_post in Hpost. cbn [xnum E] in Hpost.
      destruct (Z.eqb_spec co 0); [lia|].
      eexists; eexists; exists d2, f2. split; [reflexivity|]. split; [exact Hrd|].
      assert (Hu : uf c0 = c0) by reflexivity. rewrite Hu, cor_c0_left. exact Hpost.
    + (* above the range: Infinity at once *)
      rewrite (se_overflow est HE c z unknownNumDigits c0 xs sum);
        try assumption; try reflexivity; try (left; reflexivity); try (cbn [coeff z]; fold nd; unfold adj in *; lia); try lims.
      cbn [coeff z]. destruct (Z.eqb_spec co 0); [lia|].
      unfold set_exp, set_form. cbn [neg coeff z].
      eexists; eexists; eexists; eexists. split; [reflexivity|]. split; [unfold ctx_round, round_with, is_finite; cbn [form_of form_eqb negb]; reflexivity|].
      unfold S, E. rewrite spec_overflow_int by (try assumption; fold nd; unfold adj in *; lia).
      unfold agrees. cbn. rewrite Bool.eqb_reflx. repeat split; try reflexivity; try discriminate.
Qed.

(* both cases in the vocabulary of C01 / C02 / C07 *)
Theorem se_round_correct : (co = 0 -> in_lim (Z.min (emax c) (Z.max sum et))) ->
  exists d1 f1 d2 f2, set_exponent est c z unknownNumDigits c0 xs = Ok (d1, f1) /\ ctx_round est c d1 = Ok (d2, f2) /\
    op_post c E (d2) (f1 ||| f2).
Proof.
  intros Hcl. unfold op_post. cbn [xnum xneg xexp E].
  destruct (Z.eqb_spec co 0) as [Hz|Hz].
  - apply se_round_zero; auto.
  - apply se_round_nz. lia.
Qed.

End SR.
Definition clamp_ok (c : ctx) (sum : Z) : Prop := in_lim (Z.min (emax c) (Z.max sum (emin c - prec c + 1))).

(* ---------- Mul: every pair of finite operands ---------- *)
Theorem mul_correct c x y : ctx_ok c -> emin c <= MaxExponent -> finite_nn x -> finite_nn y ->
  in_lim (exp x) -> in_lim (exp y) ->
  let E := exact_mul x y in
  exact_in_limits c E -> (coeff x * coeff y = 0 -> clamp_ok c (exp x + exp y)) ->
  exists d f, ctx_mul est c x y = Ok (finish c d f) /\ op_post c E d f.
Proof.
  intros Hc He [Hfx Hnx] [Hfy Hny] Hex Hey E HL Hcl. unfold ctx_mul.
  rewrite (not_nan_finite x y Hfx). unfold is_nan. rewrite Hfy, Hfx. cbn [form_eqb orb andb].
  assert (Hsum : sum_exps [exp x; exp y] 0 = inr (exp x + exp y)) by (rewrite sum_exps_2 by assumption; f_equal).
  unfold E, exact_mul in *.
  destruct (se_round_correct c (xorb (neg x) (neg y)) (coeff x * coeff y) [exp x; exp y] (exp x + exp y) 0
              Hc He ltac:(nia) Hsum HL Hcl) as (d1 & f1 & d2 & f2 & H1 & H2 & Hpost).
  rewrite H1. cbn [bind]. rewrite H2. cbn [bind ret]. exists d2, (f1 ||| f2). split; [reflexivity|exact Hpost].
Qed.

(* ---------- Context.SetString on a string that parses to a finite number ---------- *)
Theorem set_string_correct c s d : ctx_ok c -> emin c <= MaxExponent ->
  set_string_raw s = Some d -> form_of d = Finite -> 0 <= coeff d ->
  exact_in_limits c (exact_of_dec d) -> (coeff d = 0 -> clamp_ok c (exp d)) ->
  exists d2 f,
    op_post c (exact_of_dec d) d2 f /\
    (ctx_set_string est c s = Ok (Some (d2, f, ctx_go_error c f)) \/ ctx_set_string est c s = Ok None).
Proof.
  intros Hc He Hp Hf Hco HL Hcl. unfold ctx_set_string. rewrite Hp. unfold is_finite. rewrite Hf. cbn [form_eqb negb].
  destruct d as [fd nd ed cd]. cbn [form_of coeff exp neg] in *. subst fd.
  assert (Hin : in_lim ed) by (destruct HL as (_ & _ & H & _); exact H).
  assert (Hsum : sum_exps [ed] 0 = inr ed) by (rewrite sum_exps_1 by assumption; f_equal).
  destruct (se_round_correct c nd cd [ed] ed ed Hc He Hco Hsum HL Hcl) as (d1 & f1 & d2 & f2 & H1 & H2 & Hpost).
  rewrite H1. cbn [bind]. exists d2, (f1 ||| f2). split; [exact Hpost|].
  destruct (ctx_go_error c f1); [left; rewrite H2; reflexivity|right; reflexivity..].
Qed.

End WithEst.
