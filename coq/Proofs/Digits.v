(* Digit-count and bit-length facts; correctness of the model of NumDigits (C19, used everywhere). *)
From Coq Require Import ZArith Lia Bool.
From Flocq Require Import Core.Zaux Core.Digits.
From Apd Require Import Generated.Consts Model.Base Model.NumDigits.
Open Scope Z_scope.

Lemma Zpower10 e : Zpower radix10 e = 10 ^ e.
Proof. reflexivity. Qed.

Lemma ndigits_bounds b : b <> 0 -> 10 ^ (ndigits b - 1) <= Z.abs b < 10 ^ ndigits b.
Proof.
  intros Hb. unfold ndigits. destruct (Z.eqb_spec b 0) as [->|_]; [contradiction|].
  exact (Zdigits_correct radix10 b).
Qed.

Lemma ndigits_unique b e : b <> 0 -> 10 ^ (e - 1) <= Z.abs b < 10 ^ e -> ndigits b = e.
Proof.
  intros Hb H. unfold ndigits. destruct (Z.eqb_spec b 0) as [->|_]; [contradiction|].
  apply Zdigits_unique. exact H.
Qed.

Lemma ndigits_zero : ndigits 0 = 1.
Proof. reflexivity. Qed.

Lemma ndigits_pos b : 0 < ndigits b.
Proof.
  unfold ndigits. destruct (Z.eqb_spec b 0) as [->|Hb]; [lia|].
  apply Zdigits_gt_0; assumption.
Qed.

Lemma ndigits_abs b : ndigits (Z.abs b) = ndigits b.
Proof.
  unfold ndigits. destruct (Z.eqb_spec b 0) as [->|Hb]; [reflexivity|].
  destruct (Z.eqb_spec (Z.abs b) 0) as [H0|_]; [lia|]. apply Zdigits_abs.
Qed.

Lemma ndigits_opp b : ndigits (- b) = ndigits b.
Proof. rewrite <- ndigits_abs, Z.abs_opp, ndigits_abs. reflexivity. Qed.

Lemma pow10_pos e : 0 <= e -> 0 < 10 ^ e.
Proof. intros; apply Z.pow_pos_nonneg; lia. Qed.

Lemma pow2_pos e : 0 <= e -> 0 < 2 ^ e.
Proof. intros; apply Z.pow_pos_nonneg; lia. Qed.

Lemma bitlen_zero : bitlen 0 = 0.
Proof. reflexivity. Qed.

Lemma bitlen_bounds b : b <> 0 -> 0 < bitlen b /\ 2 ^ (bitlen b - 1) <= Z.abs b < 2 ^ bitlen b.
Proof.
  intros Hb. unfold bitlen. destruct (Z.eqb_spec b 0) as [->|_]; [contradiction|].
  assert (Ha : 0 < Z.abs b) by lia.
  pose proof (Z.log2_spec _ Ha) as H. pose proof (Z.log2_nonneg (Z.abs b)).
  replace (Z.log2 (Z.abs b) + 1 - 1) with (Z.log2 (Z.abs b)) by lia.
  replace (Z.log2 (Z.abs b) + 1) with (Z.succ (Z.log2 (Z.abs b))) by lia. split; [lia|exact H].
Qed.

Lemma bitlen_nonneg b : 0 <= bitlen b.
Proof.
  unfold bitlen. destruct (b =? 0); [lia|]. pose proof (Z.log2_nonneg (Z.abs b)). lia.
Qed.

(* ---------- the table path ---------- *)

Lemma table_digits_bounds bl : 1 <= bl ->
  10 ^ (table_digits bl - 1) <= 2 ^ (bl - 1) < 10 ^ table_digits bl.
Proof.
  intros Hbl. unfold table_digits.
  assert (Hp : 0 < 2 ^ (bl - 1)) by (apply pow2_pos; lia).
  pose proof (Zdigits_correct radix10 (2 ^ (bl - 1))) as H.
  rewrite Z.abs_eq in H by lia. rewrite !Zpower10 in H. exact H.
Qed.

Lemma table_digits_pos bl : 1 <= bl -> 0 < table_digits bl.
Proof.
  intros Hbl. unfold table_digits. apply Zdigits_gt_0.
  pose proof (pow2_pos (bl - 1)). lia.
Qed.

Theorem num_digits_table est b :
  bitlen b <= digitsTableSize -> num_digits_with est b = Ok (ndigits b).
Proof.
  intros Hsz. unfold num_digits_with.
  destruct (Z.eqb_spec (bitlen b) 0) as [Hz|Hnz].
  { unfold bitlen in Hz. destruct (Z.eqb_spec b 0) as [->|Hb]; [reflexivity|].
    pose proof (Z.log2_nonneg (Z.abs b)). lia. }
  assert (Hb : b <> 0) by (intros ->; apply Hnz; reflexivity).
  destruct (bitlen_bounds b Hb) as [Hbl [Hlo Hhi]].
  destruct (Z.leb_spec (bitlen b) digitsTableSize) as [_|Hgt]; [|lia].
  set (bl := bitlen b) in *. set (v := table_digits bl).
  assert (Hbl1 : 1 <= bl) by lia.
  pose proof (table_digits_bounds bl Hbl1) as [Hv1 Hv2]. fold v in Hv1, Hv2.
  pose proof (table_digits_pos bl Hbl1) as Hvpos. fold v in Hvpos.
  assert (H2 : 2 ^ bl = 2 * 2 ^ (bl - 1)).
  { replace bl with (Z.succ (bl - 1)) at 1 by lia. rewrite Z.pow_succ_r by lia. reflexivity. }
  assert (H10 : 10 ^ (v + 1) = 10 * 10 ^ v).
  { replace (v + 1) with (Z.succ v) by lia. rewrite Z.pow_succ_r by lia. reflexivity. }
  assert (Hlow : 10 ^ (v - 1) <= Z.abs b) by lia.
  assert (Hupp : Z.abs b < 10 ^ (v + 1)) by lia.
  (* digits is v or v + 1, decided by the comparison with 10^v *)
  assert (Hdec : forall k, (Z.abs b < 10 ^ v -> k = v) -> (10 ^ v <= Z.abs b -> k = v + 1) -> Ok k = Ok (ndigits b)).
  { intros k Ha Hc. f_equal. symmetry. destruct (Z.lt_ge_cases (Z.abs b) (10 ^ v)) as [Hlt|Hge].
    - rewrite (Ha Hlt). apply ndigits_unique; [assumption|lia].
    - rewrite (Hc Hge). apply ndigits_unique; [assumption|]. replace (v + 1 - 1) with v by lia. lia. }
  destruct ((bl <? digitsTableSize) && (table_digits (bl + 1) =? v)) eqn:Hfast.
  { apply andb_prop in Hfast as [_ Heq]. apply Z.eqb_eq in Heq.
    assert (Hbl2 : 1 <= bl + 1) by lia.
    pose proof (table_digits_bounds (bl + 1) Hbl2) as [_ Hn2]. rewrite Heq in Hn2.
    replace (bl + 1 - 1) with bl in Hn2 by lia.
    apply Hdec; [reflexivity|lia]. }
  unfold table_border. fold v.
  destruct ((0 <? b) && (b <? 10 ^ v)) eqn:Hpos.
  { apply andb_prop in Hpos as [Hp1 Hp2]. apply Z.ltb_lt in Hp1, Hp2. apply Hdec; [reflexivity|lia]. }
  destruct ((b <? 0) && (b >? - 10 ^ v)) eqn:Hneg.
  { apply andb_prop in Hneg as [Hn1 Hn2]. apply Z.ltb_lt in Hn1. apply Z.gtb_lt in Hn2. apply Hdec; [reflexivity|lia]. }
  apply Hdec; [|reflexivity].
  intros Hlt. exfalso.
  destruct (Z.lt_trichotomy b 0) as [Hb0|[Hb0|Hb0]]; [|contradiction|].
  - assert (b <? 0 = true) by (apply Z.ltb_lt; lia).
    assert (b >? - 10 ^ v = true) by (apply Z.gtb_lt; lia).
    rewrite H, H0 in Hneg. discriminate.
  - assert (0 <? b = true) by (apply Z.ltb_lt; lia).
    assert (b <? 10 ^ v = true) by (apply Z.ltb_lt; lia).
    rewrite H, H0 in Hpos. discriminate.
Qed.

(* ---------- the big path, for every estimate in range ---------- *)

Lemma table_exp10_ok x : 0 <= x -> table_exp10 x = Ok (10 ^ x).
Proof.
  intros Hx. unfold table_exp10. destruct (x <=? powerTenTableSize); [|reflexivity].
  destruct (Z.ltb_spec x 0); [lia|reflexivity].
Qed.

Theorem num_digits_big est b :
  digitsTableSize < bitlen b -> est_ok (est (bitlen b)) (bitlen b) = true ->
  num_digits_with est b = Ok (ndigits b).
Proof.
  intros Hsz Hok. unfold num_digits_with.
  assert (Hb : b <> 0) by (intros ->; rewrite bitlen_zero in Hsz; unfold digitsTableSize in Hsz; lia).
  destruct (bitlen_bounds b Hb) as [Hbl [Hlo Hhi]].
  destruct (Z.eqb_spec (bitlen b) 0); [lia|].
  destruct (Z.leb_spec (bitlen b) digitsTableSize); [lia|].
  set (bl := bitlen b) in *. set (ne := est bl) in *.
  unfold est_ok in Hok. apply andb_prop in Hok as [Hok H3]. apply andb_prop in Hok as [H1 H2].
  apply Z.leb_le in H1, H2, H3.
  rewrite (table_exp10_ok ne H1). cbn [bind].
  assert (H2p : 2 ^ bl = 2 * 2 ^ (bl - 1)).
  { replace bl with (Z.succ (bl - 1)) at 1 by lia. rewrite Z.pow_succ_r by lia. reflexivity. }
  assert (H10 : 10 ^ (ne + 1) = 10 * 10 ^ ne).
  { replace (ne + 1) with (Z.succ ne) by lia. rewrite Z.pow_succ_r by lia. reflexivity. }
  destruct (Z.geb_spec (Z.abs b) (10 ^ ne)) as [Hge|Hlt]; f_equal; symmetry.
  - apply ndigits_unique; [assumption|]. replace (ne + 1 - 1) with ne by lia. lia.
  - apply ndigits_unique; [assumption|]. split; [|lia].
    destruct (Z.eqb_spec ne 0) as [->|Hn0].
    + simpl. lia.
    + assert (H10' : 10 ^ ne = 10 * 10 ^ (ne - 1)).
      { replace ne with (Z.succ (ne - 1)) at 1 by lia. rewrite Z.pow_succ_r by lia. reflexivity. }
      lia.
Qed.

(* the premise about Go's float64 estimate, as one closed arithmetic statement *)
Definition EstOK : Prop := forall bl, digitsTableSize < bl -> est_ok (go_est bl) bl = true.

Theorem num_digits_correct : EstOK -> forall b, num_digits b = Ok (ndigits b).
Proof.
  intros HE b. unfold num_digits.
  destruct (Z.le_gt_cases (bitlen b) digitsTableSize) as [H|H].
  - apply num_digits_table; assumption.
  - apply num_digits_big; [lia|]. apply HE. lia.
Qed.

(* incremental checker of the premise on a range of bit lengths *)
Fixpoint est_check (fuel : nat) (bl p2 n p10 : Z) : bool :=
  match fuel with
  | O => true
  | S f =>
      let n1 := go_est bl in
      let p10' := if n1 =? n then p10 else if n1 =? n + 1 then p10 * 10 else 10 ^ n1 in
      (0 <=? n1) && (p10' <=? 5 * p2) && (p2 <=? p10' * 10) && est_check f (bl + 1) (2 * p2) n1 p10'
  end.

Lemma est_check_sound fuel : forall bl p2 n p10,
  0 <= bl -> p2 = 2 ^ bl -> p10 = 10 ^ n -> 0 <= n ->
  est_check fuel bl p2 n p10 = true ->
  forall k, 0 <= k < Z.of_nat fuel -> est_ok (go_est (bl + k)) (bl + k) = true.
Proof.
  induction fuel as [|f IH]; intros bl p2 n p10 Hbl Hp2 Hp10 Hn Hc k Hk; [simpl in Hk; lia|].
  cbn [est_check] in Hc.
  set (n1 := go_est bl) in *.
  set (p10' := if n1 =? n then p10 else if n1 =? n + 1 then p10 * 10 else 10 ^ n1) in *.
  apply andb_prop in Hc as [Hc Hrest]. apply andb_prop in Hc as [Hc H3]. apply andb_prop in Hc as [H1 H2].
  assert (Hn1 : 0 <= n1) by (apply Z.leb_le; exact H1).
  assert (Hp10' : p10' = 10 ^ n1).
  { unfold p10'. destruct (Z.eqb_spec n1 n) as [He|]; [rewrite He; assumption|].
    destruct (Z.eqb_spec n1 (n + 1)) as [He|]; [|reflexivity].
    rewrite He, Hp10. replace (n + 1) with (Z.succ n) by lia. rewrite Z.pow_succ_r by lia. lia. }
  destruct (Z.eqb_spec k 0) as [->|Hk0].
  - rewrite Z.add_0_r. fold n1. unfold est_ok. rewrite H1. cbn [andb].
    rewrite <- Hp10', <- Hp2. rewrite H2. cbn [andb].
    replace (n1 + 1) with (Z.succ n1) by lia. rewrite Z.pow_succ_r by lia. rewrite <- Hp10'.
    apply Z.leb_le. apply Z.leb_le in H3. lia.
  - replace (bl + k) with (bl + 1 + (k - 1)) by lia.
    rewrite Nat2Z.inj_succ in Hk.
    apply (IH (bl + 1) (2 * p2) n1 p10'); try lia; try assumption.
    rewrite Hp2. replace (bl + 1) with (Z.succ bl) by lia. rewrite Z.pow_succ_r by lia. reflexivity.
Qed.
