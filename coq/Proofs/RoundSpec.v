(* Rounder.Round / Context.round = the specification's single rounding (Spec-Z), with its flags, and
   the result fits the context (C01, C02, C07 for every operation that ends in round). *)
From Coq Require Import ZArith Lia Bool.
From Apd Require Import Generated.Consts Model.Base Model.NumDigits Model.Decimal Spec.SpecZ Spec.Order
  Proofs.Digits Proofs.Core Proofs.CmpProofs Proofs.RoundBasics Proofs.SetExponent Proofs.RoundEq.
Open Scope Z_scope.

Lemma value_eqb_refl c e : value_eqb c e c e = true.
Proof.
  unfold value_eqb. destruct (Z.eqb_spec c 0); [reflexivity|]. cbn [orb].
  rewrite Z.eqb_refl. cbn [negb]. rewrite Z.leb_refl, Z.sub_diag. simpl (10 ^ 0). rewrite Z.mul_1_r. apply Z.eqb_refl.
Qed.

Lemma value_eqb_scale c e j : 0 < c -> 0 <= j -> value_eqb c e (c * 10 ^ j) (e - j) = true.
Proof.
  intros Hc Hj. unfold value_eqb. pose proof (pow10_pos j Hj) as Hp.
  destruct (Z.eqb_spec c 0); [lia|]. destruct (Z.eqb_spec (c * 10 ^ j) 0); [nia|]. cbn [orb].
  rewrite ndigits_mul_pow10 by lia.
  replace (ndigits c + e =? ndigits c + j + (e - j)) with true by (symmetry; apply Z.eqb_eq; lia). cbn [negb].
  destruct (Z.leb_spec e (e - j)).
  - assert (j = 0) by lia. subst j. rewrite Z.sub_0_r, Z.sub_diag. simpl (10 ^ 0). rewrite !Z.mul_1_r. apply Z.eqb_refl.
  - replace (e - (e - j)) with j by lia. apply Z.eqb_refl.
Qed.

Lemma mag_frac_int n : 0 < n -> mag_frac n 1 = ndigits n.
Proof.
  intros Hn. unfold mag_frac. change (ndigits 1) with 1.
  pose proof (ndigits_pos n). destruct (Z.leb_spec 0 (ndigits n - 1)); [|lia].
  rewrite Z.mul_1_l. pose proof (ndigits_lo n Hn). destruct (Z.leb_spec (10 ^ (ndigits n - 1)) n); lia.
Qed.

(* the conjunction every rounding result satisfies with respect to the specified rounding S *)
Definition agrees (c : ctx) (d : dec) (f : cond) (S : sround) : Prop :=
  matches d (s_res S) = true /\
  Inexact f = s_inexact S /\ Subnormal f = s_subnormal S /\
  Underflow f = (s_subnormal S && s_inexact S) /\ Overflow f = s_overflow S /\
  (form_of d = Finite -> Inexact f = true -> Rounded f = true) /\
  SystemOverflow f = false /\ SystemUnderflow f = false /\
  DivisionUndefined f = false /\ DivisionByZero f = false /\ DivisionImpossible f = false /\ InvalidOperation f = false /\
  (form_of d = Finite -> fits c d = true).

Section WithEst.
Variable est : Z -> Z.
Hypothesis HE : est_in_range est.

Section R.
Variables (r : rounder) (c : ctx) (x : dec) (b : bool).
Hypothesis Hfin : form_of x = Finite.
Hypothesis Hnz : 0 < coeff x.
Hypothesis Hp : 1 <= prec c.
Hypothesis Hrange : emin c <= emax c.
Let nd := ndigits (coeff x).
Let adj := exp x + nd - 1.
Hypothesis Hexp : in_lim (exp x).
Hypothesis Hadj : MinExponent <= adj < MaxExponent.      (* room for a carry *)
Hypothesis Hdiff : nd - prec c < MaxExponent.
Hypothesis Hr : r = rounding c.
Let S := spec_round_nz (prec c) (emin c) (emax c) r (mkExact (neg x) (coeff x) 1 (exp x)).
Let p := prec c.
Let et := emin c - p + 1.

Lemma nd_pos : 0 < nd. Proof. apply ndigits_pos. Qed.

Ltac side := first [ assumption | reflexivity | (right; reflexivity) | (left; reflexivity)
                   | (pose proof nd_pos; unfold in_lim, MaxExponent, MinExponent, nd, adj, p, et in *; cbn [coeff exp set_coeff set_exp] in *; lia) ].

(* case C: nothing to drop *)
Lemma round_nz_C : nd <= p -> emin c <= adj ->
  exists d f, round_with est r c x b = Ok (d, f) /\ agrees c d f S.
Proof.
  intros Hnd Hsub. pose proof nd_pos as Hndp.
  rewrite (round_C est HE r c x b) by side. fold nd.
  assert (Hsum : sum_exps [exp x; 0] 0 = inr (exp x)).
  { rewrite sum_exps_2 by side. f_equal. lia. }
  (* the specification in this case *)
  assert (HS : S = let er := Z.max (nd + exp x - p) et in
                   let m := coeff x * 10 ^ (exp x - er) in
                   if (er + ndigits m - 1 >? emax c)
                   then mkSround (SInf (neg x)) true (nd + exp x - 1 <? emin c) true
                   else mkSround (SFin (neg x) m er) false (nd + exp x - 1 <? emin c) false).
  { unfold S, spec_round_nz. cbn [xnum xden xexp xneg]. rewrite mag_frac_int by assumption. fold nd p et.
    cbv zeta. set (er := Z.max (nd + exp x - p) et).
    assert (Her : er <= exp x) by (unfold er, et, adj in *; lia).
    unfold scale_frac. destruct (Z.leb_spec 0 (exp x - er)); [|lia].
    set (m := coeff x * 10 ^ (exp x - er)).
    assert (Hm : 0 < m) by (unfold m; pose proof (pow10_pos (exp x - er) ltac:(lia)); nia).
    rewrite Z.mod_1_r. cbn [Z.eqb negb].
    assert (HmR : rndZ r (neg x) m 1 = m) by (rewrite rndZ_exact by apply Z.mod_1_r; apply Z.div_1_r).
    rewrite HmR.
    assert (Hndm : ndigits m = nd + (exp x - er)) by (unfold m; apply ndigits_mul_pow10; lia).
    destruct (Z.gtb_spec (ndigits m) p); [unfold er in *; lia|].
    replace (negb (m =? 0)) with true by (symmetry; apply negb_true_iff, Z.eqb_neq; lia). cbn [andb].
    destruct (er + ndigits m - 1 >? emax c); reflexivity. }
  rewrite HS. cbv zeta. set (er := Z.max (nd + exp x - p) et).
  assert (Her : er <= exp x) by (unfold er, et, adj in *; lia).
  assert (Hndm : ndigits (coeff x * 10 ^ (exp x - er)) = nd + (exp x - er)) by (apply ndigits_mul_pow10; lia).
  rewrite Hndm. replace (er + (nd + (exp x - er)) - 1) with adj by (unfold adj; lia).
  replace (nd + exp x - 1) with adj by (unfold adj; lia).
  destruct (Z.ltb_spec adj (emin c)); [lia|].
  destruct (Z.gtb_spec adj (emax c)) as [Hov|Hnov].
  - rewrite (se_overflow est HE c x nd c0 [exp x; 0] (exp x)) by side.
    destruct (Z.eqb_spec (coeff x) 0); [lia|].
    eexists; eexists; split; [reflexivity|].
    unfold agrees. cbn. rewrite Bool.eqb_reflx. repeat split; try reflexivity; try discriminate.
  - rewrite (se_normal est HE c x nd c0 [exp x; 0] (exp x)) by side.
    eexists; eexists; split; [reflexivity|].
    unfold agrees. cbn [s_res s_inexact s_subnormal s_overflow uf c0 Inexact Subnormal andb].
    assert (Hval : value_eqb (coeff x) (exp x) (coeff x * 10 ^ (exp x - er)) er = true).
    { replace er with (exp x - (exp x - er)) at 2 by lia. apply value_eqb_scale; lia. }
    repeat split; try reflexivity; try discriminate.
    + unfold matches, set_exp. cbn [form_of neg coeff exp]. rewrite Hfin. cbn [form_eqb andb].
      rewrite Bool.eqb_reflx. destruct (Z.leb_spec 0 (coeff x)); [|lia]. cbn [andb]. exact Hval.
    + intros _. unfold fits, set_exp. cbn [coeff exp]. fold nd.
      destruct (Z.leb_spec 0 (coeff x)); [|lia]. cbn [andb].
      destruct (Z.leb_spec nd (prec c)); [|unfold p in *; lia]. rewrite orb_true_r. cbn [andb].
      destruct (Z.leb_spec (exp x + nd - 1) (emax c)); [|unfold adj in *; lia]. cbn [andb].
      destruct (Z.leb_spec (emin c - prec c + 1) (exp x)); [apply orb_true_r|unfold adj, p in *; lia].
Qed.


(* case A: below the normal range *)
Lemma round_nz_A : adj < emin c ->
  exists d f, round_with est r c x b = Ok (d, f) /\ agrees c d f S.
Proof.
  intros Hsub. pose proof nd_pos as Hndp.
  rewrite (round_A est HE r c x b) by side. fold nd.
  assert (Hsum : sum_exps [exp x] 0 = inr (exp x)).
  { rewrite sum_exps_1 by side. f_equal. }
  assert (Hk : Z.max (nd + exp x - p) et = et) by side.
  destruct (Z.le_gt_cases et (exp x)) as [Hge|Hlt].
  - (* representable at the operand's own exponent *)
    rewrite (se_subnormal_exact est HE c x nd fSubnormal [exp x] (exp x)) by side.
    cbn [bind]. destruct (Z.eqb_spec (coeff x) 0); [lia|].
    assert (HS : S = mkSround (SFin (neg x) (coeff x * 10 ^ (exp x - et)) et) false true false).
    { unfold S, spec_round_nz. cbn [xnum xden xexp xneg]. rewrite mag_frac_int by assumption. fold nd p et.
      cbv zeta. rewrite Hk. unfold scale_frac. destruct (Z.leb_spec 0 (exp x - et)); [|lia].
      set (m := coeff x * 10 ^ (exp x - et)).
      assert (Hm : 0 < m) by (unfold m; pose proof (pow10_pos (exp x - et) ltac:(lia)); nia).
      rewrite Z.mod_1_r. cbn [Z.eqb negb].
      assert (HmR : rndZ r (neg x) m 1 = m) by (rewrite rndZ_exact by apply Z.mod_1_r; apply Z.div_1_r).
      rewrite HmR.
      assert (Hndm : ndigits m = nd + (exp x - et)) by (unfold m; apply ndigits_mul_pow10; lia).
      destruct (Z.gtb_spec (ndigits m) p); [side|].
      replace (negb (m =? 0)) with true by (symmetry; apply negb_true_iff, Z.eqb_neq; lia). cbn [andb].
      destruct (Z.gtb_spec (et + ndigits m - 1) (emax c)); [side|].
      destruct (Z.ltb_spec (nd + exp x - 1) (emin c)); [reflexivity|side]. }
    rewrite HS. eexists; eexists; split; [reflexivity|].
    unfold agrees. cbn [s_res s_inexact s_subnormal s_overflow andb].
    assert (Hval : value_eqb (coeff x) (exp x) (coeff x * 10 ^ (exp x - et)) et = true).
    { replace et with (exp x - (exp x - et)) at 2 by lia. apply value_eqb_scale; lia. }
    repeat split; try reflexivity; try discriminate.
    + unfold matches, set_exp. cbn [form_of neg coeff exp]. rewrite Hfin. cbn [form_eqb andb].
      rewrite Bool.eqb_reflx. destruct (Z.leb_spec 0 (coeff x)); [|lia]. cbn [andb]. exact Hval.
    + intros _. unfold fits, set_exp. cbn [coeff exp]. fold nd.
      destruct (Z.leb_spec 0 (coeff x)); [|lia]. cbn [andb].
      destruct (Z.leb_spec nd (prec c)); [|side]. rewrite orb_true_r. cbn [andb].
      destruct (Z.leb_spec (exp x + nd - 1) (emax c)); [|side]. cbn [andb].
      destruct (Z.leb_spec (emin c - prec c + 1) (exp x)); [apply orb_true_r|side].
  - (* one rounding to Etiny *)
    pose proof (se_subnormal_round est HE c x nd fSubnormal [exp x] (exp x)) as HR.
    cbv zeta in HR. rewrite HR by side. clear HR. cbn [bind].
    replace (emin c - (prec c - 1)) with et by side.
    set (k := 10 ^ (et - exp x)). rewrite <- Hr.
    set (m := rndZ r (neg x) (coeff x) k).
    assert (Hkpos : 0 < k) by (apply pow10_pos; lia).
    destruct (Z.eqb_spec (coeff x) 0); [lia|].
    (* the rounded coefficient has at most p digits: m <= 10^(p-1) *)
    assert (Hmb : 0 <= m <= 10 ^ (p - 1)).
    { pose proof (rndZ_bounds r (neg x) (coeff x) k ltac:(lia) Hkpos) as Hb. fold m in Hb.
      assert (0 <= coeff x / k) by (apply Z.div_pos; lia).
      assert (Hq : coeff x / k < 10 ^ (p - 1)).
      { apply Z.div_lt_upper_bound; [lia|].
        pose proof (ndigits_hi (coeff x) ltac:(lia)) as Hhi. fold nd in Hhi.
        assert (10 ^ nd <= 10 ^ ((et - exp x) + (p - 1))) by (apply pow10_le; side).
        rewrite pow10_add in H0 by side. fold k in H0. lia. }
      lia. }
    assert (Hmd : ndigits m <= p).
    { pose proof (ndigits_mono m (10 ^ (p - 1)) ltac:(lia)) as Hmo. rewrite ndigits_pow10 in Hmo by side. lia. }
    assert (HS : S = mkSround (SFin (neg x) m et) (negb (coeff x mod k =? 0)) true false).
    { unfold S, spec_round_nz. cbn [xnum xden xexp xneg]. rewrite mag_frac_int by assumption. fold nd p et.
      cbv zeta. rewrite Hk. unfold scale_frac. destruct (Z.leb_spec 0 (exp x - et)); [lia|].
      replace (- (exp x - et)) with (et - exp x) by lia. rewrite Z.mul_1_l. fold k m.
      destruct (Z.gtb_spec (ndigits m) p); [lia|].
      destruct (Z.ltb_spec (nd + exp x - 1) (emin c)); [|side].
      destruct (Z.eqb_spec m 0) as [->|Hm0]; cbn [negb andb]; [reflexivity|].
      pose proof (ndigits_pos m).
      destruct (Z.gtb_spec (et + ndigits m - 1) (emax c)); [side|reflexivity]. }
    rewrite HS. eexists; eexists; split; [reflexivity|].
    unfold agrees. cbn [s_res s_inexact s_subnormal s_overflow andb].
    repeat split;
      try solve [destruct (coeff x mod k =? 0), (m =? 0); reflexivity];
      try solve [intros _ _; destruct (coeff x mod k =? 0), (m =? 0); reflexivity].
    + unfold matches, set_exp, set_coeff. cbn [form_of neg coeff exp]. rewrite Hfin. cbn [form_eqb andb].
      rewrite Bool.eqb_reflx. destruct (Z.leb_spec 0 m); [|lia]. cbn [andb]. apply value_eqb_refl.
    + intros _. unfold fits, set_exp, set_coeff. cbn [coeff exp].
      destruct (Z.leb_spec 0 m); [|lia]. cbn [andb].
      destruct (Z.leb_spec (ndigits m) (prec c)); [|side]. rewrite orb_true_r. cbn [andb].
      pose proof (ndigits_pos m).
      destruct (Z.leb_spec (et + ndigits m - 1) (emax c)); [|side]. cbn [andb].
      destruct (Z.leb_spec (emin c - prec c + 1) et); [apply orb_true_r|side].
Qed.


(* case B: more digits than the precision *)
Lemma round_nz_B : emin c <= adj -> 0 < nd - p ->
  exists d f, round_with est r c x b = Ok (d, f) /\ agrees c d f S.
Proof.
  intros Hsub Hd. pose proof nd_pos as Hndp.
  pose proof (round_B est HE r c x b) as HR. cbv zeta in HR. rewrite HR by side. clear HR. fold nd p.
  set (diff := nd - p). set (k := 10 ^ diff). set (y := coeff x / k).
  set (y' := rndZ r (neg x) (coeff x) k).
  assert (Hkpos : 0 < k) by (apply pow10_pos; side).
  assert (Hyd : ndigits y = p).
  { unfold y, k. rewrite ndigits_div_pow10 by side. side. }
  assert (Hy0 : 10 ^ (p - 1) <= y).
  { pose proof (pow10_pos (p - 1) ltac:(side)).
    assert (Hyp : 0 < y).
    { unfold y. apply Z.div_str_pos. split; [lia|]. unfold k.
      pose proof (ndigits_lo (coeff x) Hnz) as Hlo. fold nd in Hlo.
      assert (10 ^ diff <= 10 ^ (nd - 1)) by (apply pow10_le; side). lia. }
    pose proof (ndigits_lo y Hyp). rewrite Hyd in *. assumption. }
  pose proof (pow10_pos (p - 1) ltac:(side)) as Hpp.
  pose proof (rndZ_bounds r (neg x) (coeff x) k ltac:(lia) Hkpos) as Hb. fold y y' in Hb.
  rewrite Hyd.
  (* the coefficient and exponent shift after a possible carry *)
  set (yd := if ndigits y' >? p then (y' / 10, diff + 1) else (y', diff)).
  assert (Hy1 : ndigits (fst yd) = p /\ 10 ^ (p - 1) <= fst yd /\ (snd yd = diff \/ snd yd = diff + 1)).
  { unfold yd. destruct (Z.gtb_spec (ndigits y') p) as [Hc|Hnc]; cbn [fst snd].
    - assert (y' = y + 1).
      { destruct (Z.eq_dec y' y) as [E|E]; [rewrite E in Hc; lia|lia]. }
      assert (Hc10 : y + 1 = 10 ^ p).
      { rewrite <- Hyd. apply ndigits_succ_carry; [lia|]. rewrite <- H. lia. }
      rewrite H, Hc10.
      assert (E10 : 10 ^ p / 10 = 10 ^ (p - 1)).
      { replace p with ((p - 1) + 1) at 1 by lia. rewrite pow10_succ by side. rewrite Z.mul_comm, Z.div_mul by lia. reflexivity. }
      rewrite E10. rewrite ndigits_pow10 by side. split; [lia|]. split; [lia|]. right; reflexivity.
    - pose proof (ndigits_mono y y' ltac:(lia)). split; [lia|]. split; [lia|]. left; reflexivity. }
  destruct Hy1 as (Hd1 & Hlo1 & Hs1).
  set (y1 := fst yd) in *. set (diff1 := snd yd) in *.
  set (res1 := if coeff x mod k =? 0 then fRounded else fRounded ||| fInexact).
  assert (Hsum : sum_exps [exp x; diff1] 0 = inr (exp x + diff1)).
  { rewrite sum_exps_2; [f_equal; lia|side|]. unfold in_lim, MinExponent, MaxExponent in *. unfold diff in *. destruct Hs1; lia. }
  (* specification *)
  assert (HS : S = if (exp x + diff1 + p - 1 >? emax c)
                   then mkSround (SInf (neg x)) true false true
                   else mkSround (SFin (neg x) y1 (exp x + diff1)) (negb (coeff x mod k =? 0)) false false).
  { unfold S, spec_round_nz. cbn [xnum xden xexp xneg]. rewrite mag_frac_int by assumption. fold nd p et.
    cbv zeta. replace (Z.max (nd + exp x - p) et) with (exp x + diff) by side.
    unfold scale_frac. destruct (Z.leb_spec 0 (exp x - (exp x + diff))); [side|].
    replace (- (exp x - (exp x + diff))) with diff by lia. rewrite Z.mul_1_l. fold k y'.
    destruct (Z.ltb_spec (nd + exp x - 1) (emin c)); [side|].
    assert (Hpair : (if ndigits y' >? p then (y' / 10, exp x + diff + 1) else (y', exp x + diff)) = (y1, exp x + diff1)).
    { unfold y1, diff1, yd. destruct (ndigits y' >? p); cbn [fst snd]; f_equal; lia. }
    rewrite Hpair. rewrite Hd1.
    replace (negb (y1 =? 0)) with true by (symmetry; apply negb_true_iff, Z.eqb_neq; lia). cbn [andb].
    destruct (exp x + diff1 + p - 1 >? emax c); reflexivity. }
  rewrite HS.
  destruct (Z.gtb_spec (exp x + diff1 + p - 1) (emax c)) as [Hov|Hnov].
  - rewrite (se_overflow est HE c (set_coeff x y1) unknownNumDigits res1 [exp x; diff1] (exp x + diff1)); try side;
      try (cbn [set_coeff coeff]; rewrite Hd1; destruct Hs1; side).
    cbn [set_coeff coeff]. destruct (Z.eqb_spec y1 0); [lia|]. cbn [bind].
    eexists; eexists; split; [reflexivity|].
    unfold agrees, res1. cbn [s_res s_inexact s_subnormal s_overflow andb].
    repeat split; try solve [destruct (coeff x mod k =? 0); reflexivity]; try discriminate.
    unfold matches, set_exp, set_form, set_coeff. cbn [form_of neg]. rewrite Bool.eqb_reflx. reflexivity.
  - rewrite (se_normal est HE c (set_coeff x y1) unknownNumDigits res1 [exp x; diff1] (exp x + diff1)); try side;
      try (cbn [set_coeff coeff]; rewrite Hd1; destruct Hs1; side).
    cbn [bind].
    eexists; eexists; split; [reflexivity|].
    unfold agrees, res1. cbn [s_res s_inexact s_subnormal s_overflow andb].
    repeat split; try solve [destruct (coeff x mod k =? 0); reflexivity];
      try solve [intros _ _; destruct (coeff x mod k =? 0); reflexivity].
    + unfold matches, set_exp, set_coeff. cbn [form_of neg coeff exp]. rewrite Hfin. cbn [form_eqb andb].
      rewrite Bool.eqb_reflx. destruct (Z.leb_spec 0 y1); [|lia]. cbn [andb]. apply value_eqb_refl.
    + intros _. unfold fits, set_exp, set_coeff. cbn [coeff exp]. rewrite Hd1.
      destruct (Z.leb_spec 0 y1); [|lia]. cbn [andb].
      destruct (Z.leb_spec p (prec c)); [|side]. rewrite orb_true_r. cbn [andb].
      destruct (Z.leb_spec (exp x + diff1 + p - 1) (emax c)); [|lia]. cbn [andb].
      destruct (Z.leb_spec (emin c - prec c + 1) (exp x + diff1)); [apply orb_true_r|].
      unfold diff in *. destruct Hs1; side.
Qed.


(* every non-zero finite value: Round = the specified single rounding *)
Theorem round_nz_correct : exists d f, round_with est r c x b = Ok (d, f) /\ agrees c d f S.
Proof.
  destruct (Z.lt_ge_cases adj (emin c)) as [H|H]; [apply round_nz_A; assumption|].
  destruct (Z.le_gt_cases nd p) as [H1|H1]; [apply round_nz_C; assumption|].
  apply round_nz_B; [assumption|lia].
Qed.

End R.

(* zeros: the sign and the zero-ness are kept, the exponent is clamped into [Etiny, Emax], and none
   of the four value-related conditions is raised *)
Definition zero_post (c : ctx) (x d : dec) (f : cond) : Prop :=
  form_of d = Finite /\ coeff d = 0 /\ neg d = neg x /\
  exp d = Z.min (emax c) (Z.max (exp x) (emin c - prec c + 1)) /\
  Inexact f = false /\ Subnormal f = false /\ Underflow f = false /\ Overflow f = false /\
  SystemOverflow f = false /\ SystemUnderflow f = false /\
  DivisionUndefined f = false /\ DivisionByZero f = false /\ DivisionImpossible f = false /\ InvalidOperation f = false /\
  fits c d = true.

Theorem round_zero_correct r c x b : form_of x = Finite -> coeff x = 0 -> 1 <= prec c -> emin c <= emax c ->
  in_lim (exp x) -> r = rounding c ->
  exists d f, round_with est r c x b = Ok (d, f) /\ zero_post c x d f.
Proof.
  intros Hfin Hz Hp Hrange Hexp Hr.
  assert (Hnd : ndigits (coeff x) = 1) by (rewrite Hz; reflexivity).
  rewrite (round_C est HE r c x b) by (try assumption; rewrite ?Hnd; try lia; left; assumption).
  rewrite Hnd.
  assert (Hsum : sum_exps [exp x; 0] 0 = inr (exp x)).
  { rewrite sum_exps_2 by (try assumption; unfold in_lim, MinExponent, MaxExponent; lia). f_equal. lia. }
  assert (Hlim : in_lim (exp x + ndigits (coeff x) - 1)) by (rewrite Hnd; unfold in_lim in *; lia).
  destruct (Z.lt_ge_cases (exp x) (emin c)) as [Hlo|Hlo].
  - destruct (Z.le_gt_cases (emin c - (prec c - 1)) (exp x)) as [He|He].
    + rewrite (se_subnormal_exact est HE c x 1 c0 [exp x; 0] (exp x)) by (try assumption; rewrite ?Hnd; try lia; right; symmetry; assumption).
      rewrite Hz. cbn [Z.eqb]. eexists; eexists; split; [reflexivity|].
      unfold zero_post, set_exp, fits. cbn [form_of coeff neg exp uf c0 Inexact Subnormal andb]. rewrite Hz.
      repeat split; try assumption; try reflexivity; try lia.
      cbn [Z.leb Z.eqb orb andb]. change (ndigits 0) with 1.
      destruct (Z.leb_spec 1 (prec c)); [|lia]. rewrite orb_true_r. cbn [andb].
      destruct (Z.leb_spec (exp x + 1 - 1) (emax c)); [reflexivity|lia].
    + pose proof (se_subnormal_round est HE c x 1 c0 [exp x; 0] (exp x)) as HR. cbv zeta in HR.
      rewrite HR by (try assumption; rewrite ?Hnd; try lia; right; symmetry; assumption). clear HR.
      rewrite Hz. rewrite Z.mod_0_l by (pose proof (pow10_pos (emin c - (prec c - 1) - exp x) ltac:(lia)); lia).
      assert (Hm : rndZ (rounding c) (neg x) 0 (10 ^ (emin c - (prec c - 1) - exp x)) = 0).
      { rewrite rndZ_exact; [apply Z.div_0_l|apply Z.mod_0_l]; pose proof (pow10_pos (emin c - (prec c - 1) - exp x) ltac:(lia)); lia. }
      rewrite Hm. cbn [Z.eqb]. eexists; eexists; split; [reflexivity|].
      unfold zero_post, set_exp, set_coeff, fits. cbn [form_of coeff neg exp]. 
      repeat split; try assumption; try reflexivity; try lia.
      cbn [Z.leb Z.eqb orb andb]. change (ndigits 0) with 1.
      destruct (Z.leb_spec 1 (prec c)); [|lia]. rewrite orb_true_r. cbn [andb].
      destruct (Z.leb_spec (emin c - (prec c - 1) + 1 - 1) (emax c)); [reflexivity|lia].
  - destruct (Z.le_gt_cases (exp x) (emax c)) as [Hhi|Hhi].
    + rewrite (se_normal est HE c x 1 c0 [exp x; 0] (exp x)) by (try assumption; rewrite ?Hnd; try lia; right; symmetry; assumption).
      eexists; eexists; split; [reflexivity|].
      unfold zero_post, set_exp, fits. cbn [form_of coeff neg exp uf c0 Inexact Subnormal andb]. rewrite Hz.
      repeat split; try assumption; try reflexivity; try lia.
      cbn [Z.leb Z.eqb orb andb]. change (ndigits 0) with 1.
      destruct (Z.leb_spec 1 (prec c)); [|lia]. rewrite orb_true_r. cbn [andb].
      destruct (Z.leb_spec (exp x + 1 - 1) (emax c)); [reflexivity|lia].
    + rewrite (se_overflow est HE c x 1 c0 [exp x; 0] (exp x)) by (try assumption; rewrite ?Hnd; try lia; right; symmetry; assumption).
      rewrite Hz. cbn [Z.eqb]. eexists; eexists; split; [reflexivity|].
      unfold zero_post, set_exp, fits. cbn [form_of coeff neg exp]. rewrite Hz.
      repeat split; try assumption; try reflexivity; try lia.
      cbn [Z.leb Z.eqb orb andb]. change (ndigits 0) with 1.
      destruct (Z.leb_spec 1 (prec c)); [|lia]. rewrite orb_true_r. cbn [andb].
      destruct (Z.leb_spec (emax c + 1 - 1) (emax c)); [reflexivity|lia].
Qed.

End WithEst.
