(* C20 at the level of whole results: for ONE exact value and ONE context, the correctly rounded results of
   the specification under RoundFloor, any mode, and RoundCeiling are ordered, and overflow is monotone.
   Through Spec-R (Flocq): round radix10 (FLT_exp Etiny Precision) with Zfloor / Zceil are round-down / round-up. *)
From Coq Require Import ZArith Reals Lia Lra.
From Flocq Require Import Core.
From Apd Require Import Generated.Consts Model.Base Model.NumDigits Spec.SpecZ Spec.SpecR Proofs.SpecRProofs.
Open Scope R_scope.

Section Fmt.
Variables (p emin_ : Z).
Hypothesis Hp : (1 <= p)%Z.
Let fexp := ctx_fexp p emin_.

Instance fexp_valid : Valid_exp fexp.
Proof. unfold fexp, ctx_fexp. apply FLT_exp_valid. unfold Prec_gt_0. lia. Qed.

Let rd := round radix10 fexp Zfloor.
Let ru := round radix10 fexp Zceil.

(* every mode returns the round-down or the round-up value *)
Lemma mode_dn_or_up m x : round_ctx p emin_ m x = rd x \/ round_ctx p emin_ m x = ru x.
Proof.
  unfold round_ctx. fold fexp.
  assert (Hv : forall rnd, Valid_rnd rnd -> round radix10 fexp rnd x = rd x \/ round radix10 fexp rnd x = ru x).
  { intros rnd Hr. apply round_DN_or_UP; assumption. }
  destruct m; cbn [rnd_of]; try (apply Hv; typeclasses eauto).
  (* R05Up: the truncated or the away-from-zero integer of the scaled mantissa *)
  unfold round. set (sm := scaled_mantissa radix10 fexp x).
  assert (Ht : round radix10 fexp Ztrunc x = rd x \/ round radix10 fexp Ztrunc x = ru x) by (apply Hv; typeclasses eauto).
  assert (Ha : round radix10 fexp Zaway x = rd x \/ round radix10 fexp Zaway x = ru x) by (apply Hv; typeclasses eauto).
  unfold round in Ht, Ha. fold sm in Ht, Ha.
  destruct (Req_bool (IZR (Ztrunc sm)) sm); [exact Ht|]. destruct (Z.abs (Ztrunc sm) mod 5 =? 0)%Z; assumption.
Qed.

Lemma rd_le_ru x : rd x <= ru x.
Proof.
  unfold rd, ru. apply Rle_trans with x.
  - apply round_DN_pt; apply fexp_valid.
  - apply round_UP_pt; apply fexp_valid.
Qed.

(* RoundFloor <= every mode <= RoundCeiling *)
Theorem modes_bracket_R m x :
  round_ctx p emin_ RFloor x <= round_ctx p emin_ m x <= round_ctx p emin_ RCeiling x.
Proof.
  change (round_ctx p emin_ RFloor x) with (rd x). change (round_ctx p emin_ RCeiling x) with (ru x).
  pose proof (rd_le_ru x). destruct (mode_dn_or_up m x) as [-> | ->]; lra.
Qed.

(* ... and every mode returns one of the two *)
Theorem modes_one_of_two_R m x :
  round_ctx p emin_ m x = round_ctx p emin_ RFloor x \/ round_ctx p emin_ m x = round_ctx p emin_ RCeiling x.
Proof. exact (mode_dn_or_up m x). Qed.
End Fmt.

(* the specified results of one exact value in one context under Floor, any mode, Ceiling *)
Theorem spec_results_bracket p emin_ emax_ m (E : exact) : (1 <= p)%Z -> (0 < xnum E)%Z -> (0 < xden E)%Z ->
  let SF := spec_round_nz p emin_ emax_ RFloor E in
  let SM := spec_round_nz p emin_ emax_ m E in
  let SC := spec_round_nz p emin_ emax_ RCeiling E in
  (* finite results are ordered *)
  (forall f v c, sres_R (s_res SF) = Some f -> sres_R (s_res SM) = Some v -> sres_R (s_res SC) = Some c ->
     s_overflow SF = false -> s_overflow SM = false -> s_overflow SC = false -> f <= v <= c) /\
  (* overflow is monotone: towards +Infinity for a positive value, towards -Infinity for a negative one *)
  (xneg E = false -> (s_overflow SF = true -> s_overflow SM = true) /\ (s_overflow SM = true -> s_overflow SC = true)) /\
  (xneg E = true -> (s_overflow SC = true -> s_overflow SM = true) /\ (s_overflow SM = true -> s_overflow SF = true)).
Proof.
  intros Hp Hn Hd SF SM SC. subst SF SM SC.
  pose proof (modes_bracket_R p emin_ Hp m (E2R E)) as [Hlo Hhi].
  assert (Hsign : xneg E = false -> 0 < E2R E).
  { intros Hs. unfold E2R. rewrite Hs. apply Rmult_lt_0_compat; [|apply bpow_gt_0].
    rewrite Rmult_1_l. apply Rdiv_lt_0_compat; apply IZR_lt; lia. }
  assert (Hsignn : xneg E = true -> E2R E < 0).
  { intros Hs. unfold E2R. rewrite Hs.
    assert (0 < IZR (xnum E) / IZR (xden E) * bpow radix10 (xexp E)).
    { apply Rmult_lt_0_compat; [|apply bpow_gt_0]. apply Rdiv_lt_0_compat; apply IZR_lt; lia. }
    lra. }
  assert (Hv : Valid_exp (ctx_fexp p emin_)) by (apply fexp_valid; exact Hp).
  split; [|split].
  - intros f v c Hf Hm Hc Of Om Oc.
    rewrite (spec_round_is_flocq p emin_ emax_ RFloor E Hp Hn Hd Of) in Hf.
    rewrite (spec_round_is_flocq p emin_ emax_ m E Hp Hn Hd Om) in Hm.
    rewrite (spec_round_is_flocq p emin_ emax_ RCeiling E Hp Hn Hd Oc) in Hc.
    injection Hf as <-. injection Hm as <-. injection Hc as <-. split; assumption.
  - intros Hs. specialize (Hsign Hs).
    assert (H0 : 0 <= round_ctx p emin_ RFloor (E2R E)).
    { unfold round_ctx. apply round_ge_generic; [exact Hv|typeclasses eauto|apply generic_format_0|lra]. }
    split; intros Ho.
    + apply (spec_overflow_is_flocq p emin_ emax_ RFloor E Hp Hn Hd) in Ho.
      apply (spec_overflow_is_flocq p emin_ emax_ m E Hp Hn Hd).
      rewrite Rabs_pos_eq in * by lra. lra.
    + apply (spec_overflow_is_flocq p emin_ emax_ m E Hp Hn Hd) in Ho.
      apply (spec_overflow_is_flocq p emin_ emax_ RCeiling E Hp Hn Hd).
      rewrite Rabs_pos_eq in * by lra. lra.
  - intros Hs. specialize (Hsignn Hs).
    assert (H0 : round_ctx p emin_ RCeiling (E2R E) <= 0).
    { unfold round_ctx. apply round_le_generic; [exact Hv|typeclasses eauto|apply generic_format_0|lra]. }
    split; intros Ho.
    + apply (spec_overflow_is_flocq p emin_ emax_ RCeiling E Hp Hn Hd) in Ho.
      apply (spec_overflow_is_flocq p emin_ emax_ m E Hp Hn Hd).
      rewrite Rabs_left1 in * by lra. lra.
    + apply (spec_overflow_is_flocq p emin_ emax_ m E Hp Hn Hd) in Ho.
      apply (spec_overflow_is_flocq p emin_ emax_ RFloor E Hp Hn Hd).
      rewrite Rabs_left1 in * by lra. lra.
Qed.

(* Round is monotone on the whole real line (across binades and into the subnormal range) in every mode whose
   integer rounding Flocq knows to be monotone - all but Round05Up, whose monotonicity is proven on one binade
   only (ModesProofs.rndZ monotone) *)
Theorem round_ctx_monotone p emin_ m x y : (1 <= p)%Z -> m <> R05Up -> x <= y ->
  round_ctx p emin_ m x <= round_ctx p emin_ m y.
Proof.
  intros Hp Hm Hxy. unfold round_ctx.
  assert (Hv : Valid_exp (ctx_fexp p emin_)) by (apply fexp_valid; exact Hp).
  destruct m; cbn [rnd_of]; try contradiction; apply round_le; try assumption; typeclasses eauto.
Qed.
