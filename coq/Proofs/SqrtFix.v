(* C11 on the model of Sqrt: a fixed point of the correction step of sqrtCorrect is the half-even rounding of the
   square root.  If one more step of the loop leaves d where it is, then
       (d - u_lo/2)^2 <= x <= (d + u/2)^2
   with u the unit of a p-digit result at the magnitude of d (u_lo = u/10 when d is a power of ten: below it the unit
   shrinks), equality on the right only when the last digit of d is even, on the left only when it is even or d is a
   power of ten.  All arithmetic of the step is exact (BaseContext: no rounding) - proven here from the Precision-0
   theorems of Add and Mul - so these are statements about the real numbers d, x. *)
From Coq Require Import ZArith Lia Bool List.
From Apd Require Import Generated.Consts Model.Base Model.NumDigits Model.Decimal Model.Context Model.Roots Spec.SpecZ Spec.Order
  Proofs.Digits Proofs.Core Proofs.CmpProofs Proofs.SetExponent Proofs.OpsProofs Proofs.P0Proofs Proofs.SqrtExact.
Import ListNotations.
Open Scope Z_scope.

(* exact sum / difference and exact square as decimals *)
Definition dplus (x y : dec) (sub : bool) : dec :=
  let E := exact_add x y sub false in mkDec Finite (xneg E) (xexp E) (xnum E).
Definition dsq (v : dec) : dec := mkDec Finite false (exp v + exp v) (coeff v * coeff v).

Definition sum_ok (x y : dec) (sub : bool) : Prop :=
  Z.abs (exp x - exp y) <= MaxExponent /\ exact_in_range base_ctx_r (exact_add x y sub false).
Definition sq_ok (v : dec) : Prop :=
  in_lim (exp v) /\ in_lim (exp v + exp v) /\ in_lim (exp v + exp v + ndigits (coeff v * coeff v) - 1).

Section WithEst.
Variable est : Z -> Z.
Hypothesis HE : est_in_range est.

Lemma ex_add_exact x y sub : finite_nn x -> finite_nn y -> sum_ok x y sub ->
  ex_add est x y sub = Ok (EdOk _ (dplus x y sub)).
Proof.
  intros Hx Hy [Hgap HL]. unfold ex_add.
  destruct (add_p0 est HE base_ctx_r x y sub eq_refl Hx Hy Hgap HL) as (v & f & Hm & Hv & Hfl).
  rewrite Hm. unfold edbind, ed_of. cbn [Base.bind finish rerr rdec rcond]. subst f v.
  change (ctx_go_error base_ctx_r c0) with ENone. cbv iota beta. cbn [Base.bind]. reflexivity.
Qed.

(* adding a positive amount, or subtracting one, never gives the same decimal back *)
Lemma dplus_add_ne d e k : neg d = false -> 0 < coeff d -> 0 < k -> dplus d (mkDec Finite false e k) false <> d.
Proof.
  intros Hn Hc Hk H. unfold dplus, exact_add in H. cbn [exp coeff neg xorb] in H. rewrite Hn in H. cbv zeta in H.
  set (e0 := Z.min (exp d) e) in *.
  pose proof (pow10_pos (exp d - e0) ltac:(unfold e0; lia)) as P1. pose proof (pow10_pos (e - e0) ltac:(unfold e0; lia)) as P2.
  set (a := coeff d * 10 ^ (exp d - e0)) in *. set (b := k * 10 ^ (e - e0)) in *.
  assert (Ha : 0 < a) by (unfold a; nia). assert (Hb : 0 < b) by (unfold b; nia).
  destruct (Z.eqb_spec (a + b) 0) as [|_]; [lia|]. cbn [xneg xexp xnum] in H.
  destruct d as [fd nd0 ed cd]. cbn [exp coeff neg] in *. injection H as _ _ He Hcf.
  assert (Hz : ed - e0 = 0) by lia. unfold a in Hcf. rewrite Hz in Hcf. cbn in Hcf. lia.
Qed.
Lemma dplus_sub_ne d e k : neg d = false -> 0 < coeff d -> 0 < k -> dplus d (mkDec Finite false e k) true <> d.
Proof.
  intros Hn Hc Hk H. unfold dplus, exact_add in H. cbn [exp coeff neg xorb] in H. rewrite Hn in H. cbv zeta in H.
  set (e0 := Z.min (exp d) e) in *.
  pose proof (pow10_pos (exp d - e0) ltac:(unfold e0; lia)) as P1. pose proof (pow10_pos (e - e0) ltac:(unfold e0; lia)) as P2.
  set (a := coeff d * 10 ^ (exp d - e0)) in *. set (b := k * 10 ^ (e - e0)) in *.
  assert (Ha : 0 < a) by (unfold a; nia). assert (Hb : 0 < b) by (unfold b; nia).
  destruct d as [fd nd0 ed cd]. cbn [exp coeff neg] in *.
  destruct (Z.eqb_spec (a + - b) 0) as [E0|_]; cbn [xneg xexp xnum] in H.
  - injection H as _ _ _ Hcf. lia.
  - injection H as _ Hng He Hcf. assert (Hz : ed - e0 = 0) by lia. unfold a in Hcf, Hng. rewrite Hz in Hcf, Hng. cbn in Hcf, Hng.
    destruct (Z.ltb_spec (cd * 1 + - b) 0); [subst nd0; discriminate|]. lia.
Qed.

(* the theorem *)
Theorem sqrt_fix_fixed_point p d x :
  let nd := ndigits (coeff d) in
  let ue := exp d - (p - nd) in
  let ulp := mkDec Finite false ue 1 in
  let half := mkDec Finite false (ue - 1) 5 in
  let pow10 := coeff d =? 10 ^ (nd - 1) in
  let ulp_lo := if pow10 then mkDec Finite false (ue - 1) 1 else ulp in
  let half_lo := if pow10 then mkDec Finite false (ue - 2) 5 else half in
  let hi := dplus d half false in
  let lo := dplus d half_lo true in
  form_of d = Finite -> neg d = false -> 0 < coeff d ->
  form_of x = Finite -> 0 <= coeff x ->
  sum_ok d half false -> sum_ok d half_lo true -> sum_ok d ulp false -> sum_ok d ulp_lo true -> sq_ok hi -> sq_ok lo ->
  sqrt_fix est 1 p d x = Ok (EdOk _ d) ->
  0 <= cmp_spec (dsq hi) x /\ (cmp_spec (dsq hi) x = 0 -> last_digit_odd d ue = false) /\
  cmp_spec (dsq lo) x <= 0 /\ (cmp_spec (dsq lo) x = 0 -> last_digit_odd d ue = false \/ pow10 = true).
Proof.
  intros nd ue ulp half pow10 ulp_lo half_lo hi lo Hfd Hnd Hcd Hfx Hcx Sh Sl Su Sul Qh Ql.
  assert (Fd : finite_nn d) by (split; [assumption|lia]).
  assert (Fhalf : finite_nn half) by (split; [reflexivity|cbn; lia]).
  assert (Fhalf_lo : finite_nn half_lo) by (unfold half_lo; destruct pow10; split; try reflexivity; cbn; lia).
  assert (Fulp : finite_nn ulp) by (split; [reflexivity|cbn; lia]).
  assert (Fulp_lo : finite_nn ulp_lo) by (unfold ulp_lo; destruct pow10; split; try reflexivity; cbn; lia).
  cbn [sqrt_fix]. rewrite (nd_ok est HE). cbn [Base.bind]. fold nd. fold ue.
  rewrite (table_exp10_ok (nd - 1)) by (pose proof (ndigits_pos (coeff d)); unfold nd; lia). cbn [Base.bind]. fold pow10.
  fold half. fold ulp. change (if pow10 then mkDec Finite false (ue - 1) 1 else ulp) with ulp_lo.
  change (if pow10 then mkDec Finite false (ue - 2) 5 else half) with half_lo.
  rewrite (ex_add_exact d half_lo true Fd Fhalf_lo Sl). unfold edbind at 1. cbn [Base.bind]. fold lo.
  rewrite (ex_add_exact d half false Fd Fhalf Sh). unfold edbind at 1. cbn [Base.bind]. fold hi.
  destruct Qh as (Qh1 & Qh2 & Qh3). destruct Ql as (Ql1 & Ql2 & Ql3).
  assert (Chi : 0 <= coeff hi) by (destruct Sh as [_ (_ & N & _)]; exact N).
  assert (Clo : 0 <= coeff lo) by (destruct Sl as [_ (_ & N & _)]; exact N).
  rewrite (ex_mul_exact est HE hi eq_refl Chi Qh1 Qh2 Qh3). unfold edbind at 1. cbn [Base.bind]. fold (dsq hi).
  rewrite (dcmp_spec est HE (dsq hi) x) by (try reflexivity; try (unfold is_nan; rewrite Hfx; reflexivity); cbn [coeff dsq]; try nia; lia).
  cbn [Base.bind].
  rewrite (ex_mul_exact est HE lo eq_refl Clo Ql1 Ql2 Ql3). unfold edbind at 1. cbn [Base.bind]. fold (dsq lo).
  rewrite (dcmp_spec est HE (dsq lo) x) by (try reflexivity; try (unfold is_nan; rewrite Hfx; reflexivity); cbn [coeff dsq]; try nia; lia).
  cbn [Base.bind].
  set (ch := cmp_spec (dsq hi) x). set (cl := cmp_spec (dsq lo) x). set (odd := last_digit_odd d ue).
  destruct ((ch <? 0) || ((ch =? 0) && odd)) eqn:B1.
  { rewrite (ex_add_exact d ulp false Fd Fulp Su). unfold edbind. cbn [Base.bind]. intros [= H]. exfalso.
    exact (dplus_add_ne d ue 1 Hnd Hcd ltac:(lia) H). }
  destruct ((cl >? 0) || ((cl =? 0) && odd && negb pow10)) eqn:B2.
  { rewrite (ex_add_exact d ulp_lo true Fd Fulp_lo Sul). unfold edbind. cbn [Base.bind]. intros [= H]. exfalso.
    unfold ulp_lo in H. destruct pow10; [exact (dplus_sub_ne d (ue - 1) 1 Hnd Hcd ltac:(lia) H)|exact (dplus_sub_ne d ue 1 Hnd Hcd ltac:(lia) H)]. }
  intros _. apply orb_false_iff in B1. destruct B1 as [B1a B1b]. apply orb_false_iff in B2. destruct B2 as [B2a B2b].
  repeat split.
  - lia.
  - intros E. rewrite E in B1b. cbn in B1b. exact B1b.
  - lia.
  - intros E. rewrite E in B2b. cbn in B2b. destruct odd; [right|left; reflexivity]. destruct pow10; [reflexivity|discriminate].
Qed.
End WithEst.
