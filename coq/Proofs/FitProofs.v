(* C07 and C02 projections for Rem, QuoInteger, Quantize, RoundToIntegral and Reduce out of their functional theorems *)
From Coq Require Import ZArith Lia Bool.
From Apd Require Import Generated.Consts Model.Base Model.NumDigits Model.Decimal Model.Context Spec.SpecZ
  Proofs.Digits Proofs.Core Proofs.SetExponent Proofs.RoundSpec Proofs.OpsProofs Proofs.OpsProjections Proofs.DivProofs Proofs.QuantizeProofs Proofs.QuantizeMid Proofs.ReduceProofs Proofs.CtxReduce.
Open Scope Z_scope.

Section WithEst.
Variable est : Z -> Z.
Hypothesis HE : est_in_range est.

Lemma c07_rem c x y :
  ctx_ok c -> finite_nn x -> finite_nn y -> coeff y <> 0 -> Z.abs (exp x - exp y) <= MaxExponent ->
  exact_in_limits c (mkExact (neg x) (al_a x y mod al_b x y) 1 (al_exp x y)) ->
  exists d f, ctx_rem est c x y = Ok (finish c d f) /\ (form_of d = NaN \/ c07_post c d).
Proof.
  intros Hc Hx Hy Hny Hgap HL. pose proof (rem_correct est HE c x y Hc Hx Hy Hny Hgap HL) as H.
  cbv zeta in H. destruct (_ >? _).
  - exists d_nan, fDivisionImpossible. split; [exact H|left; reflexivity].
  - destruct H as (d & f & Hr & Hp). exists d, f. split; [exact Hr|right; exact (post_c07 c _ d f Hp)].
Qed.

Lemma c07_quo_integer c x y :
  1 <= prec c -> finite_nn x -> finite_nn y -> coeff y <> 0 -> Z.abs (exp x - exp y) <= MaxExponent ->
  exists d f, ctx_quo_integer est c x y = Ok (finish c d f) /\
    (form_of d = NaN \/ (form_of d = Finite /\ exp d = 0 /\ 0 <= coeff d /\ ndigits (coeff d) <= prec c)).
Proof.
  intros Hp Hx Hy Hny Hgap. pose proof (quo_integer_correct est HE c x y Hp Hx Hy Hny Hgap) as H.
  cbv zeta in H. destruct (Z.gtb_spec (ndigits (al_a x y / al_b x y)) (prec c)).
  - eexists; eexists. split; [exact H|left; reflexivity].
  - eexists; eexists. split; [exact H|right]. cbn [form_of exp coeff]. repeat split; try assumption.
    destruct Hx as [_ Hx]. destruct Hy as [_ Hy]. apply Z.div_pos; [apply al_a_nonneg; assumption|apply al_b_pos; lia].
Qed.

Lemma c07_quantize c x e : ctx_ok c -> form_of x = Finite -> 0 <= coeff x ->
  exp x - e < MaxExponent -> e - exp x < MaxExponent -> ndigits (coeff x) < MaxExponent ->
  in_lim e -> in_lim (e + ndigits (quant_coeff (rounding c) x e) - 1) ->
  exists d f, ctx_quantize est c x e = Ok (finish c d f) /\ (form_of d = NaN \/ (form_of d = Finite /\ exp d = e /\ fits c d = true)).
Proof.
  intros Hc Hf Hn H1 H2 H3 H4 H5. pose proof (quantize_correct est HE c x e Hc Hf Hn H1 H2 H3 H4 H5) as H.
  cbv zeta in H. destruct (quant_invalid c x e).
  - eexists; eexists. split; [exact H|left; reflexivity].
  - destruct H as (f & Hq & _ & _ & _ & _ & _ & Hfit). eexists; eexists. split; [exact Hq|right].
    cbn [form_of exp]. repeat split. exact Hfit.
Qed.

(* ---------- C02 ---------- *)
(* Rem: the four value conditions describe the rounding of the exact remainder; DivisionImpossible exactly
   when the integer quotient needs more than Precision digits, and then nothing else *)
Lemma c02_rem c x y :
  ctx_ok c -> finite_nn x -> finite_nn y -> coeff y <> 0 -> Z.abs (exp x - exp y) <= MaxExponent ->
  let E := mkExact (neg x) (al_a x y mod al_b x y) 1 (al_exp x y) in
  exact_in_limits c E ->
  if ndigits (al_a x y / al_b x y) >? prec c
  then ctx_rem est c x y = Ok (finish c d_nan fDivisionImpossible)
  else exists d f, ctx_rem est c x y = Ok (finish c d f) /\ c02_post c E d f.
Proof.
  intros Hc Hx Hy Hny Hgap E HL. pose proof (rem_correct est HE c x y Hc Hx Hy Hny Hgap HL) as H.
  cbv zeta in H. destruct (_ >? _); [exact H|].
  destruct H as (d & f & Hr & Hp). exists d, f. split; [exact Hr|exact (post_c02 c _ d f Hp)].
Qed.

(* Reduce: the conditions are those of the one rounding (stripping zeros raises nothing) *)
Lemma c02_reduce c x : ctx_ok c -> finite_nn x -> exact_in_limits c (exact_of_dec x) ->
  exists d' f n, ctx_reduce est c x = Ok (finish c d' f, n) /\
    exists d, c02_post c (exact_of_dec x) d f /\ (form_of d' = Finite <-> form_of d = Finite).
Proof.
  intros Hc Hx HL. destruct (ctx_reduce_correct est HE c x Hc Hx HL) as (d & f & d' & n & Hr & Hp & Hi & Hz & Hnz).
  exists d', f, n. split; [exact Hr|]. exists d. split; [exact (post_c02 c _ d f Hp)|].
  destruct (op_post_shape c _ d f Hp) as [(Hf & Hco & _)|Hinf].
  - destruct (Z.eq_dec (coeff d) 0) as [H0|H0].
    + destruct (Hz Hf H0) as [-> _]. cbn [form_of]. tauto.
    + destruct (Hnz Hf ltac:(lia)) as (Hf' & _). tauto.
  - destruct (Hi Hinf) as [-> _]. tauto.
Qed.
End WithEst.
