(* C03 for Context.Exp on its model (Model/Exp.v), for every value of the two float-derived inputs: a call that
   returns no error returns the value and the Condition of the same call with an empty trap set. *)
From Coq Require Import ZArith Lia Bool List.
From Apd Require Import Generated.Consts Model.Base Model.NumDigits Model.Decimal Model.Context Model.Roots Model.Exp Model.ErrDec
  Proofs.TrapsProofs Proofs.RootsTraps.
Open Scope Z_scope.

Section WithEst.
Variable est : Z -> Z.

Lemma exp_series_untrapped k : forall i nc r s v,
  exp_series est k i nc r s = Ok (EdOk _ v) -> exp_series est k i (no_traps nc) r s = Ok (EdOk _ v).
Proof.
  induction k as [|k IH]; intros i nc r s v; cbn [exp_series]; [intros H; exact H|].
  unfold edbind.
  destruct (ed_of (ctx_quo est nc r _)) as [[[t1 f1]|e1]| |] eqn:E1; cbn [bind]; try discriminate.
  rewrite (quo_untrapped est nc _ _ _ E1). cbn [bind].
  destruct (ed_of (ctx_mul est nc t1 s)) as [[[s1 f2]|e2]| |] eqn:E2; cbn [bind]; try discriminate.
  rewrite (mul_untrapped est nc _ _ _ E2). cbn [bind].
  destruct (ed_of (ctx_add est nc s1 d_one false)) as [[[s2 f3]|e3]| |] eqn:E3; cbn [bind]; try discriminate.
  rewrite (add_untrapped est nc _ _ _ _ E3). cbn [bind].
  apply IH.
Qed.
Lemma exp_series_err k : forall i nc r s e, exp_series est k i nc r s = Ok (EdErr _ e) -> e <> ENone.
Proof.
  induction k as [|k IH]; intros i nc r s e; cbn [exp_series]; [discriminate|].
  unfold edbind.
  destruct (ed_of (ctx_quo est nc r _)) as [[[t1 f1]|e1]| |] eqn:E1; cbn [bind]; try discriminate;
    [|intros [= <-]; exact (ed_of_err _ _ E1)].
  destruct (ed_of (ctx_mul est nc t1 s)) as [[[s1 f2]|e2]| |] eqn:E2; cbn [bind]; try discriminate;
    [|intros [= <-]; exact (ed_of_err _ _ E2)].
  destruct (ed_of (ctx_add est nc s1 d_one false)) as [[[s2 f3]|e3]| |] eqn:E3; cbn [bind]; try discriminate;
    [|intros [= <-]; exact (ed_of_err _ _ E3)].
  apply IH.
Qed.

Lemma ipow_untrapped fuel : forall nc b z n fl v,
  ipow est fuel nc b z n fl = Ok (EdOk _ v) -> ipow est fuel (no_traps nc) b z n fl = Ok (EdOk _ v).
Proof.
  induction fuel as [|fuel IH]; intros nc b z n fl v; cbn [ipow]; destruct (b <=? 0); try (intros H; exact H).
  unfold edbind.
  assert (H1 : forall r, (if Z.odd b then ed_of (ctx_mul est nc z n) else Ok (EdOk _ (z, c0))) = Ok (EdOk _ r) ->
               (if Z.odd b then ed_of (ctx_mul est (no_traps nc) z n) else Ok (EdOk _ (z, c0))) = Ok (EdOk _ r)).
  { intros r. destruct (Z.odd b); [apply mul_untrapped|intros H; exact H]. }
  destruct (if Z.odd b then ed_of (ctx_mul est nc z n) else Ok (EdOk _ (z, c0))) as [[[z1 f1]|e1]| |] eqn:E1; cbn [bind]; try discriminate.
  rewrite (H1 _ eq_refl). cbn [bind].
  assert (H2 : forall r, (if b / 2 >? 0 then ed_of (ctx_mul est nc n n) else Ok (EdOk _ (n, c0))) = Ok (EdOk _ r) ->
               (if b / 2 >? 0 then ed_of (ctx_mul est (no_traps nc) n n) else Ok (EdOk _ (n, c0))) = Ok (EdOk _ r)).
  { intros r. destruct (b / 2 >? 0); [apply mul_untrapped|intros H; exact H]. }
  destruct (if b / 2 >? 0 then ed_of (ctx_mul est nc n n) else Ok (EdOk _ (n, c0))) as [[[n1 f2]|e2]| |] eqn:E2; cbn [bind]; try discriminate.
  rewrite (H2 _ eq_refl). cbn [bind]. apply IH.
Qed.
Lemma ipow_err fuel : forall nc b z n fl e, ipow est fuel nc b z n fl = Ok (EdErr _ e) -> e <> ENone.
Proof.
  induction fuel as [|fuel IH]; intros nc b z n fl e; cbn [ipow]; destruct (b <=? 0); try discriminate.
  unfold edbind.
  destruct (if Z.odd b then ed_of (ctx_mul est nc z n) else Ok (EdOk _ (z, c0))) as [[[z1 f1]|e1]| |] eqn:E1; cbn [bind]; try discriminate.
  2:{ intros [= <-]. destruct (Z.odd b); [exact (ed_of_err _ _ E1)|discriminate]. }
  destruct (if b / 2 >? 0 then ed_of (ctx_mul est nc n n) else Ok (EdOk _ (n, c0))) as [[[n1 f2]|e2]| |] eqn:E2; cbn [bind]; try discriminate.
  2:{ intros [= <-]. destruct (b / 2 >? 0); [exact (ed_of_err _ _ E2)|discriminate]. }
  apply IH.
Qed.

Lemma exp_specials_indep c t x :
  match exp_specials (with_traps c t) x, exp_specials c x with
  | Some r', Some r => rdec r' = rdec r /\ rcond r' = rcond r
  | None, None => True
  | _, _ => False
  end.
Proof.
  unfold exp_specials. destruct (should_set_as_nan x None).
  { pose proof (san_indep c t x None) as H. cbn [strip ret] in H. injection H as H1 H2. split; assumption. }
  destruct (form_eqb (form_of x) Infinite); [split; reflexivity|].
  destruct (is_zero x); [split; reflexivity|]. cbn [prec with_traps]. destruct (prec c =? 0); [split; reflexivity|exact I].
Qed.

Theorem exp_untrapped cp n c x r : ctx_exp_with est cp n c x = Ok r -> rerr r = ENone ->
  strip (ctx_exp_with est cp n (no_traps c) x) = Ok (rdec r, rcond r).
Proof.
  unfold ctx_exp_with, no_traps. pose proof (exp_specials_indep c c0 x) as Hs.
  destruct (exp_specials (with_traps c c0) x) as [r'|], (exp_specials c x) as [r0|]; try contradiction.
  { destruct Hs as [H1 H2]. intros [= <-] _. cbn [strip]. rewrite H1, H2. reflexivity. }
  cbv zeta. cbn [prec emax emin traps with_traps etiny].
  destruct (dcmp est (dabs x) _) as [big| |]; cbn [bind]; try discriminate.
  destruct (big >? 0).
  { destruct (dsign x <? 0); intros [= <-] _; reflexivity. }
  destruct (dcmp est (dabs x) _) as [small| |]; cbn [bind]; try discriminate.
  destruct (small <=? 0); [intros [= <-] _; reflexivity|].
  destruct (num_digits_with est (coeff x)) as [ndx| |]; cbn [bind]; try discriminate.
  destruct (n <? 0); [intros [= <-] He; discriminate|].
  set (t := if exp x + ndx <? 0 then 0 else exp x + ndx).
  set (nc := mkCtx (cp + t + 2) (emax c) (emin c) (traps c) RHalfEven).
  change (mkCtx (cp + t + 2) (emax c) (emin c) c0 RHalfEven) with (no_traps nc).
  destruct (exp_series est _ (n - 1) nc _ d_one) as [[sum|e1]| |] eqn:E1; cbn [bind]; try discriminate.
  2:{ intros [= <-] He. cbn [rerr] in He. exfalso. exact (exp_series_err _ _ _ _ _ _ E1 He). }
  rewrite (exp_series_untrapped _ _ _ _ _ _ E1). cbn [bind].
  destruct ((t >? MaxExponent) || (t <? MinExponent)); [intros [= <-] He; discriminate|].
  destruct (table_exp10 t) as [ki| |]; cbn [bind]; try discriminate.
  destruct (ipow est _ nc ki d_one sum c0) as [[[d1 ires]|e2]| |] eqn:E2; cbn [bind]; try discriminate.
  2:{ intros [= <-] He. cbn [rerr] in He. pose proof (ipow_err _ _ _ _ _ _ _ E2) as Hne. destruct e2; try discriminate; contradiction. }
  rewrite (ipow_untrapped _ _ _ _ _ _ _ E2). cbn [bind].
  change (ctx_round est (mkCtx (prec c) (emax c) (emin c) c0 RHalfEven)) with (ctx_round est (mkCtx (prec c) (emax c) (emin c) (traps c) RHalfEven)).
  destruct (ctx_round est _ d1) as [[d2 f2]| |]; cbn [bind]; try discriminate.
  intros [= <-] _. reflexivity.
Qed.
End WithEst.
