(* Soundness of the interval judge of C12 (Oracle/Transc.v): every verdict is a theorem about the real
   function, for every working precision, operand, context and observed result. *)
From Coq Require Import ZArith Reals Lra Lia List Bool.
From Interval Require Import Float.Specific_stdz Float.Specific_ops Interval.Float_full Interval.Interval Real.Xreal.
From Apd Require Import Model.Base Model.NumDigits Model.Decimal Spec.SpecZ Oracle.Judge Oracle.Transc.
Local Open Scope R_scope.

(* ---------- the interval evaluation encloses the extended-real meaning ---------- *)
Lemma ieval_correct bits e : contains (I.convert (ieval bits e)) (xeval e).
Proof.
  induction e as [z|c k|a IHa b IHb|a IHa b IHb|a IHa b IHb|a IHa b IHb|a IHa|a IHa|a IHa|a IHa|a IHa n]; cbn [ieval xeval].
  - apply I.fromZ_correct.
  - apply I.mul_correct; [apply I.fromZ_correct|].
    apply (I.power_int_correct bits k (I.fromZ bits 10) (Xreal (IZR 10))). apply I.fromZ_correct.
  - now apply I.add_correct.
  - now apply I.sub_correct.
  - now apply I.mul_correct.
  - now apply I.div_correct.
  - now apply I.abs_correct.
  - now apply I.neg_correct.
  - now apply I.ln_correct.
  - now apply I.exp_correct.
  - now apply (I.power_int_correct bits n).
Qed.

(* ---------- where the extended-real meaning is defined it is the real meaning ---------- *)
Lemma xpower_int_real x n r : Xpower_int' x n = Xreal r -> powerRZ x n = r.
Proof.
  unfold Xpower_int', powerRZ. destruct n as [|p|p].
  - intros H; now inversion H.
  - intros H; now inversion H.
  - destruct (Xreal.is_zero x); [discriminate|]. intros H; now inversion H.
Qed.

Lemma xeval_reval e : forall r, xeval e = Xreal r -> reval e = r.
Proof.
  induction e as [z|c k|a IHa b IHb|a IHa b IHb|a IHa b IHb|a IHa b IHb|a IHa|a IHa|a IHa|a IHa|a IHa n];
    cbn [xeval reval]; intros r H.
  - now inversion H.
  - unfold Xpower_int, Xbind in H.
    destruct (Xpower_int' (IZR 10) k) as [|q] eqn:E; cbn in H; [discriminate|].
    apply xpower_int_real in E. inversion H. now rewrite E.
  - destruct (xeval a) as [|ra]; [discriminate|]. destruct (xeval b) as [|rb]; [discriminate|].
    cbn in H. inversion H. now rewrite (IHa ra eq_refl), (IHb rb eq_refl).
  - destruct (xeval a) as [|ra]; [discriminate|]. destruct (xeval b) as [|rb]; [discriminate|].
    cbn in H. inversion H. now rewrite (IHa ra eq_refl), (IHb rb eq_refl).
  - destruct (xeval a) as [|ra]; [discriminate|]. destruct (xeval b) as [|rb]; [discriminate|].
    cbn in H. inversion H. now rewrite (IHa ra eq_refl), (IHb rb eq_refl).
  - destruct (xeval a) as [|ra]; [discriminate|]. destruct (xeval b) as [|rb]; [discriminate|].
    cbn in H. unfold Xdiv' in H. destruct (Xreal.is_zero rb); [discriminate|].
    inversion H. now rewrite (IHa ra eq_refl), (IHb rb eq_refl).
  - destruct (xeval a) as [|ra]; [discriminate|]. cbn in H. inversion H. now rewrite (IHa ra eq_refl).
  - destruct (xeval a) as [|ra]; [discriminate|]. cbn in H. inversion H. now rewrite (IHa ra eq_refl).
  - destruct (xeval a) as [|ra]; [discriminate|]. cbn in H. unfold Xln' in H.
    destruct (is_positive ra); [|discriminate]. inversion H. now rewrite (IHa ra eq_refl).
  - destruct (xeval a) as [|ra]; [discriminate|]. cbn in H. inversion H. now rewrite (IHa ra eq_refl).
  - destruct (xeval a) as [|ra]; [discriminate|]. cbn in H.
    apply xpower_int_real in H. now rewrite (IHa ra eq_refl).
Qed.

(* ---------- sign tests ---------- *)
Lemma prove_le0_sound bits e : prove_le0 bits e = true -> reval e <= 0.
Proof.
  unfold prove_le0. intros H.
  pose proof (I.sign_large_correct (ieval bits e)) as S.
  pose proof (ieval_correct bits e) as C.
  destruct (I.sign_large (ieval bits e)); try discriminate.
  - specialize (S _ C). rewrite (xeval_reval e 0 S). lra.
  - destruct (S _ C) as [E L]. rewrite (xeval_reval e _ E). exact L.
Qed.

Lemma prove_gt0_sound bits e : prove_gt0 bits e = true -> 0 < reval e.
Proof.
  unfold prove_gt0. intros H.
  pose proof (I.sign_strict_correct (ieval bits e)) as S.
  pose proof (ieval_correct bits e) as C.
  destruct (I.sign_strict (ieval bits e)); try discriminate.
  destruct (S _ C) as [E L]. rewrite (xeval_reval e _ E). exact L.
Qed.

Lemma prove_lt0_sound bits e : prove_lt0 bits e = true -> reval e < 0.
Proof.
  unfold prove_lt0. intros H.
  pose proof (I.sign_strict_correct (ieval bits e)) as S.
  pose proof (ieval_correct bits e) as C.
  destruct (I.sign_strict (ieval bits e)); try discriminate.
  destruct (S _ C) as [E L]. rewrite (xeval_reval e _ E). exact L.
Qed.

(* ---------- exact decimal bounds ---------- *)
Lemma powerRZ_10_nonneg k : (0 <= k)%Z -> powerRZ 10 k = IZR (10 ^ k).
Proof.
  intros Hk. rewrite <- (Z2Nat.id k Hk) at 1. rewrite <- pow_powerRZ.
  change 10 with (IZR 10). rewrite pow_IZR. now rewrite Z2Nat.id.
Qed.

Lemma powerRZ_10_pos k : 0 < powerRZ 10 k.
Proof. apply powerRZ_lt. lra. Qed.

Definition bR (B : bnd) : R := IZR (fst B) * powerRZ 10 (snd B).

Lemma bexp_real B : reval (bexp B) = bR B.
Proof. reflexivity. Qed.

Lemma shift_real c e m : (m <= e)%Z -> IZR (c * 10 ^ (e - m)) * powerRZ 10 m = IZR c * powerRZ 10 e.
Proof.
  intros H. rewrite mult_IZR. rewrite <- powerRZ_10_nonneg by lia.
  replace e with ((e - m) + m)%Z at 2 by lia. rewrite powerRZ_add by lra. ring.
Qed.

Lemma badd_real A B : bR (badd A B) = bR A + bR B.
Proof.
  unfold bR, badd. cbn [fst snd].
  set (m := Z.min (snd A) (snd B)).
  rewrite plus_IZR, Rmult_plus_distr_r.
  rewrite (shift_real (fst A) (snd A) m) by (unfold m; lia).
  rewrite (shift_real (fst B) (snd B) m) by (unfold m; lia). reflexivity.
Qed.

Lemma bneg_real B : bR (bneg B) = - bR B.
Proof. unfold bR, bneg. cbn [fst snd]. rewrite opp_IZR. ring. Qed.

Lemma bsub_real A B : bR (bsub A B) = bR A - bR B.
Proof. unfold bsub. rewrite badd_real, bneg_real. ring. Qed.

Lemma bR_pos B : (0 < fst B)%Z -> 0 < bR B.
Proof. intros H. unfold bR. apply Rmult_lt_0_compat; [now apply IZR_lt|apply powerRZ_10_pos]. Qed.

Lemma bR_nonpos B : (fst B <= 0)%Z -> bR B <= 0.
Proof.
  intros H. unfold bR. apply IZR_le in H. pose proof (powerRZ_10_pos (snd B)). nra.
Qed.

Lemma bR_pow u : bR (1%Z, u) = powerRZ 10 u.
Proof. unfold bR. cbn [fst snd]. lra. Qed.

(* ---------- values and comparisons with bounds ---------- *)
Definition value_R (a : value) : R :=
  match a with VDir v => reval v | VExp w => Rtrigo_def.exp (reval w) end.

Lemma exp_le_ln w b : 0 < b -> w - ln b <= 0 -> Rtrigo_def.exp w <= b.
Proof.
  intros Hb H. rewrite <- (exp_ln b Hb).
  destruct (Req_dec w (ln b)) as [->|N]; [lra|]. left. apply exp_increasing. lra.
Qed.
Lemma exp_lt_ln w b : 0 < b -> w - ln b < 0 -> Rtrigo_def.exp w < b.
Proof. intros Hb H. rewrite <- (exp_ln b Hb). apply exp_increasing. lra. Qed.
Lemma exp_ge_ln w b : 0 < b -> ln b - w <= 0 -> b <= Rtrigo_def.exp w.
Proof.
  intros Hb H. rewrite <- (exp_ln b Hb).
  destruct (Req_dec w (ln b)) as [->|N]; [lra|]. left. apply exp_increasing. lra.
Qed.
Lemma exp_gt_ln w b : 0 < b -> ln b - w < 0 -> b < Rtrigo_def.exp w.
Proof. intros Hb H. rewrite <- (exp_ln b Hb). apply exp_increasing. lra. Qed.

Lemma le_bound_sound bits a B : le_bound bits a B = true -> value_R a <= bR B.
Proof.
  destruct a as [v|w]; cbn [le_bound value_R].
  - intros H. apply prove_le0_sound in H. cbn [reval] in H. rewrite bexp_real in H. lra.
  - intros H. apply andb_prop in H. destruct H as [P H]. apply Z.ltb_lt in P.
    apply prove_le0_sound in H. cbn [reval] in H. rewrite bexp_real in H.
    apply exp_le_ln; [now apply bR_pos|exact H].
Qed.

Lemma lt_bound_sound bits a B : lt_bound bits a B = true -> value_R a < bR B.
Proof.
  destruct a as [v|w]; cbn [lt_bound value_R].
  - intros H. apply prove_lt0_sound in H. cbn [reval] in H. rewrite bexp_real in H. lra.
  - intros H. apply andb_prop in H. destruct H as [P H]. apply Z.ltb_lt in P.
    apply prove_lt0_sound in H. cbn [reval] in H. rewrite bexp_real in H.
    apply exp_lt_ln; [now apply bR_pos|exact H].
Qed.

Lemma ge_bound_sound bits a B : ge_bound bits a B = true -> bR B <= value_R a.
Proof.
  destruct a as [v|w]; cbn [ge_bound value_R].
  - intros H. apply prove_le0_sound in H. cbn [reval] in H. rewrite bexp_real in H. lra.
  - destruct (fst B <=? 0)%Z eqn:P; cbn [orb].
    + intros _. apply Z.leb_le in P. pose proof (bR_nonpos B P). pose proof (exp_pos (reval w)). lra.
    + intros H. apply Z.leb_gt in P. apply prove_le0_sound in H. cbn [reval] in H. rewrite bexp_real in H.
      apply exp_ge_ln; [now apply bR_pos|exact H].
Qed.

Lemma gt_bound_sound bits a B : gt_bound bits a B = true -> bR B < value_R a.
Proof.
  destruct a as [v|w]; cbn [gt_bound value_R].
  - intros H. apply prove_lt0_sound in H. cbn [reval] in H. rewrite bexp_real in H. lra.
  - destruct (fst B <=? 0)%Z eqn:P; cbn [orb].
    + intros _. apply Z.leb_le in P. pose proof (bR_nonpos B P). pose proof (exp_pos (reval w)). lra.
    + intros H. apply Z.leb_gt in P. apply prove_lt0_sound in H. cbn [reval] in H. rewrite bexp_real in H.
      apply exp_gt_ln; [now apply bR_pos|exact H].
Qed.

Lemma abs_ge_sound bits a T : abs_ge bits a T = true -> bR T <= Rabs (value_R a).
Proof.
  unfold abs_ge. intros H. apply orb_prop in H. destruct H as [H|H].
  - apply ge_bound_sound in H. pose proof (Rle_abs (value_R a)). lra.
  - apply le_bound_sound in H. rewrite bneg_real in H. pose proof (Rle_abs (- value_R a)).
    rewrite Rabs_Ropp in H0. lra.
Qed.

Lemma abs_lt_sound bits a T : abs_lt bits a T = true -> Rabs (value_R a) < bR T.
Proof.
  unfold abs_lt. intros H. apply andb_prop in H. destruct H as [H1 H2].
  apply lt_bound_sound in H1. apply gt_bound_sound in H2. rewrite bneg_real in H2.
  apply Rabs_def1; lra.
Qed.

Lemma abs_gt_sound bits a T : abs_gt bits a T = true -> bR T < Rabs (value_R a).
Proof.
  unfold abs_gt. intros H. apply orb_prop in H. destruct H as [H|H].
  - apply gt_bound_sound in H. pose proof (Rle_abs (value_R a)). lra.
  - apply lt_bound_sound in H. rewrite bneg_real in H. pose proof (Rle_abs (- value_R a)).
    rewrite Rabs_Ropp in H0. lra.
Qed.

Lemma within_tol_sound bits a d tol : within_tol bits a d tol = true -> Rabs (value_R a - bR d) <= bR tol.
Proof.
  unfold within_tol. intros H. apply andb_prop in H. destruct H as [H1 H2].
  apply ge_bound_sound in H1. apply le_bound_sound in H2.
  rewrite bsub_real in H1. rewrite badd_real in H2.
  apply Rabs_le. lra.
Qed.

Lemma beyond_tol_sound bits a d tol : beyond_tol bits a d tol = true -> bR tol < Rabs (value_R a - bR d).
Proof.
  unfold beyond_tol. intros H. apply orb_prop in H. destruct H as [H|H].
  - apply lt_bound_sound in H. rewrite bsub_real in H.
    pose proof (Rle_abs (- (value_R a - bR d))). rewrite Rabs_Ropp in H0. lra.
  - apply gt_bound_sound in H. rewrite badd_real in H.
    pose proof (Rle_abs (value_R a - bR d)). lra.
Qed.

Lemma within_of_sound bits a d u : within_of bits a d u = true -> Rabs (value_R a - bR d) <= powerRZ 10 u.
Proof. intros H. apply within_tol_sound in H. now rewrite bR_pow in H. Qed.

Lemma beyond_of_sound bits a d u : beyond_of bits a d u = true -> powerRZ 10 u < Rabs (value_R a - bR d).
Proof. intros H. apply beyond_tol_sound in H. now rewrite bR_pow in H. Qed.

Lemma near_miss_sound bits a d u : near_miss bits a d u = true -> Rabs (value_R a - bR d) <= 15 * powerRZ 10 (u - 1).
Proof. intros H. apply within_tol_sound in H. exact H. Qed.

(* ---------- the one-unit predicate and its two verdicts ---------- *)
Definition one_ulp (v d : R) (adj u : Z) : Prop :=
  Rabs (v - d) <= powerRZ 10 u \/ (powerRZ 10 (adj + 1) <= Rabs v /\ Rabs (v - d) <= powerRZ 10 (u + 1)).

Theorem judge_ulp_within bits a d adj u :
  judge_ulp bits a d adj u = VWithin -> one_ulp (value_R a) (bR d) adj u.
Proof.
  unfold judge_ulp, one_ulp.
  destruct (within_of bits a d u) eqn:A.
  { intros _. left. now apply within_of_sound in A. }
  destruct (abs_ge bits a (1%Z, (adj + 1)%Z) && within_of bits a d (u + 1)) eqn:B.
  { intros _. apply andb_prop in B. destruct B as [B1 B2].
    apply abs_ge_sound in B1. rewrite bR_pow in B1. apply within_of_sound in B2. right. split; assumption. }
  destruct (beyond_of bits a d u && _); discriminate.
Qed.

Theorem judge_ulp_beyond bits a d adj u :
  judge_ulp bits a d adj u = VBeyond -> ~ one_ulp (value_R a) (bR d) adj u.
Proof.
  unfold judge_ulp, one_ulp.
  destruct (within_of bits a d u); [discriminate|].
  destruct (abs_ge bits a (1%Z, (adj + 1)%Z) && within_of bits a d (u + 1)); [discriminate|].
  destruct (beyond_of bits a d u) eqn:A; [|discriminate]. cbn [andb].
  apply beyond_of_sound in A.
  destruct (abs_lt bits a (1%Z, (adj + 1)%Z)) eqn:B; cbn [orb].
  { intros _. apply abs_lt_sound in B. rewrite bR_pow in B. intros [H|[H1 H2]]; lra. }
  destruct (beyond_of bits a d (u + 1)) eqn:C; [|discriminate].
  intros _. apply beyond_of_sound in C. intros [H|[H1 H2]]; lra.
Qed.

(* ---------- the expressions mean the functions of the property ---------- *)
Definition D2R (d : dec) : R := IZR (if neg d then (- coeff d)%Z else coeff d) * powerRZ 10 (exp d).

Definition real_value (t : top) (x y : dec) : R :=
  match t with
  | TExp => Rtrigo_def.exp (D2R x)
  | TLn => ln (D2R x)
  | TLog10 => ln (D2R x) / ln 10
  | TPow => match int_value y with
            | Some n => powerRZ (D2R x) n
            | None => Rpower (D2R x) (D2R y)
            end
  end.

Lemma bR_bdec d : bR (bdec d) = D2R d.
Proof. reflexivity. Qed.
Lemma reval_sdec d : reval (sdec d) = D2R d.
Proof. reflexivity. Qed.

Lemma value_R_value_expr t x y : value_R (value_expr t x y) = real_value t x y.
Proof.
  destruct t; cbn [value_expr real_value value_R reval]; rewrite ?reval_sdec; try reflexivity.
  destruct (int_value y); cbn [value_R reval]; rewrite ?reval_sdec; reflexivity.
Qed.

(* for positive x and an integer exponent both readings of x**y agree *)
Lemma pow_int_is_rpower (x : R) (n : Z) : 0 < x -> powerRZ x n = Rpower x (IZR n).
Proof. apply powerRZ_Rpower. Qed.

(* int_value is the value when it is an integer *)
Lemma int_value_spec y n : int_value y = Some n -> D2R y = IZR n.
Proof.
  unfold int_value, D2R.
  set (c := if neg y then (- coeff y)%Z else coeff y).
  destruct (0 <=? exp y)%Z eqn:E.
  - intros H; inversion H. apply Z.leb_le in E.
    rewrite mult_IZR. now rewrite powerRZ_10_nonneg.
  - destruct (c mod 10 ^ (- exp y) =? 0)%Z eqn:M; [|discriminate].
    intros H; inversion H. apply Z.leb_gt in E. apply Z.eqb_eq in M.
    assert (Hp : (0 < 10 ^ (- exp y))%Z) by (apply Z.pow_pos_nonneg; lia).
    pose proof (Z.div_mod c (10 ^ (- exp y)) ltac:(lia)) as D. rewrite M, Z.add_0_r in D.
    assert (HE : powerRZ 10 (exp y) = / IZR (10 ^ (- exp y))).
    { replace (exp y) with (- (- exp y))%Z at 1 by lia.
      rewrite powerRZ_neg'. now rewrite powerRZ_10_nonneg by lia. }
    rewrite HE. rewrite D at 1. rewrite mult_IZR.
    field. apply not_0_IZR. lia.
Qed.

(* ---------- what an alarm / the absence of an alarm means ---------- *)
Definition general_case (t : top) (c : ctx) (x y : dec) (o : obs) : Prop :=
  in_domain t x y && wf_ctx c && (1 <=? prec c)%Z = true /\ system_err (o_err o) = false /\
  exact_cell t (prec c) x y = None.

Lemma check_overflow_codes bits a c k :
  In k (check_overflow bits a c) -> k = O_TR_OVERFLOW \/ k = O_TR_UNKNOWN.
Proof.
  unfold check_overflow. destruct (abs_gt _ _ _); [intros []|].
  destruct (abs_lt _ _ _); intros [H|[]]; auto.
Qed.
Lemma check_underflow_codes bits a c k :
  In k (check_underflow bits a c) -> k = O_TR_UNDERFLOW \/ k = O_TR_UNKNOWN.
Proof.
  unfold check_underflow. destruct (abs_lt _ _ _); [intros []|].
  destruct (abs_gt _ _ _); intros [H|[]]; auto.
Qed.

Lemma check_ulp_codes bits a c d k :
  In k (check_ulp bits a c d) -> k = O_TR_ULP \/ k = O_TR_NEAR \/ k = O_TR_UNKNOWN.
Proof.
  unfold check_ulp. destruct (judge_ulp _ _ _ _ _); [intros []| |].
  - intros [H|H]; [auto|]. destruct (near_miss _ _ _ _); [|destruct H]. destruct H as [H|[]]; auto.
  - intros [H|[]]; auto.
Qed.

Lemma codes_distinct : O_TR_ULP <> O_TR_OVERFLOW /\ O_TR_ULP <> O_TR_UNKNOWN /\ O_TR_ULP <> O_TR_UNDERFLOW
  /\ O_TR_ULP <> O_TR_FORM /\ O_TR_OVERFLOW <> O_TR_UNKNOWN /\ O_TR_OVERFLOW <> O_TR_UNDERFLOW
  /\ O_TR_OVERFLOW <> O_TR_FORM /\ O_TR_UNDERFLOW <> O_TR_UNKNOWN /\ O_TR_UNDERFLOW <> O_TR_FORM.
Proof. repeat split; discriminate. Qed.

Theorem c12_ulp_alarm_is_violation bits t c x y o :
  general_case t c x y o ->
  In O_TR_ULP (oracle_c12 bits t c x y o) ->
  ~ one_ulp (real_value t x y) (D2R (o_dec o)) (adj_of (o_dec o)) (ulp_exp c (o_dec o)).
Proof.
  intros (G1 & G2 & G3). unfold oracle_c12. rewrite G1, G2, G3. cbn [negb].
  destruct (form_of (o_dec o)).
  - destruct (coeff (o_dec o) <? 0)%Z; [intros [H|[]]; discriminate|].
    destruct (Overflow (o_cond o)).
    { intros H. apply check_overflow_codes in H. destruct H; discriminate. }
    intros H. apply in_app_or in H. destruct H as [H|H].
    + unfold check_ulp in H.
      destruct (judge_ulp bits (value_expr t x y) (bdec (o_dec o)) (adj_of (o_dec o)) (ulp_exp c (o_dec o))) eqn:J.
      * destruct H.
      * apply judge_ulp_beyond in J. now rewrite value_R_value_expr, bR_bdec in J.
      * destruct H as [H|[]]; discriminate.
    + destruct (Underflow (o_cond o)); [|destruct H].
      apply check_underflow_codes in H. destruct H; discriminate.
  - intros H. apply check_overflow_codes in H. destruct H; discriminate.
  - intros [H|[]]; discriminate.
  - intros [H|[]]; discriminate.
Qed.

Theorem c12_silent_means_within bits t c x y o :
  general_case t c x y o ->
  form_of (o_dec o) = Finite -> Overflow (o_cond o) = false ->
  oracle_c12 bits t c x y o = [] ->
  one_ulp (real_value t x y) (D2R (o_dec o)) (adj_of (o_dec o)) (ulp_exp c (o_dec o)).
Proof.
  intros (G1 & G2 & G3) HF HO. unfold oracle_c12. rewrite G1, G2, G3, HF, HO. cbn [negb].
  destruct (coeff (o_dec o) <? 0)%Z; [discriminate|].
  intros H. apply app_eq_nil in H. destruct H as [H _]. unfold check_ulp in H.
  destruct (judge_ulp bits (value_expr t x y) (bdec (o_dec o)) (adj_of (o_dec o)) (ulp_exp c (o_dec o))) eqn:J;
    try discriminate.
  apply judge_ulp_within in J. now rewrite value_R_value_expr, bR_bdec in J.
Qed.

(* an Overflow alarm: the exact value is proven to lie more than one unit below the largest finite number *)
Definition over_limit_R (c : ctx) : R := IZR (10 ^ prec c - 2) * powerRZ 10 (emax c - prec c + 1).
Definition under_limit_R (c : ctx) : R := powerRZ 10 (emin c) + powerRZ 10 (etiny c).

Lemma check_overflow_alarm bits a c : In O_TR_OVERFLOW (check_overflow bits a c) -> Rabs (value_R a) < over_limit_R c.
Proof.
  unfold check_overflow. destruct (abs_gt _ _ _); [intros []|].
  destruct (abs_lt bits a (over_limit c)) eqn:A; [|intros [H|[]]; discriminate].
  intros _. now apply abs_lt_sound in A.
Qed.
Lemma check_underflow_alarm bits a c : In O_TR_UNDERFLOW (check_underflow bits a c) -> under_limit_R c < Rabs (value_R a).
Proof.
  unfold check_underflow. destruct (abs_lt _ _ _); [intros []|].
  destruct (abs_gt bits a (under_limit c)) eqn:A; [|intros [H|[]]; discriminate].
  intros _. apply abs_gt_sound in A. unfold under_limit in A. rewrite badd_real, !bR_pow in A. exact A.
Qed.
(* ... and their silence: the exact value is proven to lie beyond the limit *)
Lemma check_overflow_silent bits a c : check_overflow bits a c = [] -> over_limit_R c < Rabs (value_R a).
Proof.
  unfold check_overflow. destruct (abs_gt bits a (over_limit c)) eqn:A.
  - intros _. now apply abs_gt_sound in A.
  - destruct (abs_lt _ _ _); discriminate.
Qed.
Lemma check_underflow_silent bits a c : check_underflow bits a c = [] -> Rabs (value_R a) < under_limit_R c.
Proof.
  unfold check_underflow. destruct (abs_lt bits a (under_limit c)) eqn:A.
  - intros _. apply abs_lt_sound in A. unfold under_limit in A. rewrite badd_real, !bR_pow in A. exact A.
  - destruct (abs_gt _ _ _); discriminate.
Qed.

Theorem c12_overflow_alarm_is_violation bits t c x y o :
  general_case t c x y o ->
  In O_TR_OVERFLOW (oracle_c12 bits t c x y o) ->
  Rabs (real_value t x y) < over_limit_R c.
Proof.
  intros (G1 & G2 & G3). unfold oracle_c12. rewrite G1, G2, G3. cbn [negb].
  rewrite <- value_R_value_expr.
  destruct (form_of (o_dec o)).
  - destruct (coeff (o_dec o) <? 0)%Z; [intros [H|[]]; discriminate|].
    destruct (Overflow (o_cond o)); [apply (check_overflow_alarm bits)|].
    intros H. apply in_app_or in H. destruct H as [H|H].
    + apply check_ulp_codes in H. destruct H as [H|[H|H]]; discriminate.
    + destruct (Underflow (o_cond o)); [|destruct H].
      apply check_underflow_codes in H. destruct H; discriminate.
  - apply (check_overflow_alarm bits).
  - intros [H|[]]; discriminate.
  - intros [H|[]]; discriminate.
Qed.

Theorem c12_underflow_alarm_is_violation bits t c x y o :
  general_case t c x y o ->
  In O_TR_UNDERFLOW (oracle_c12 bits t c x y o) ->
  under_limit_R c < Rabs (real_value t x y).
Proof.
  intros (G1 & G2 & G3). unfold oracle_c12. rewrite G1, G2, G3. cbn [negb].
  rewrite <- value_R_value_expr.
  destruct (form_of (o_dec o)).
  - destruct (coeff (o_dec o) <? 0)%Z; [intros [H|[]]; discriminate|].
    destruct (Overflow (o_cond o)).
    { intros H. apply check_overflow_codes in H. destruct H; discriminate. }
    intros H. apply in_app_or in H. destruct H as [H|H].
    + apply check_ulp_codes in H. destruct H as [H|[H|H]]; discriminate.
    + destruct (Underflow (o_cond o)); [|destruct H]. now apply (check_underflow_alarm bits) in H.
  - intros H. apply check_overflow_codes in H. destruct H; discriminate.
  - intros [H|[]]; discriminate.
  - intros [H|[]]; discriminate.
Qed.

(* an infinite result that raises no alarm: the exact value is proven to exceed the largest finite number minus one unit *)
Theorem c12_silent_infinity_is_overflow bits t c x y o :
  general_case t c x y o -> form_of (o_dec o) = Infinite ->
  oracle_c12 bits t c x y o = [] -> over_limit_R c < Rabs (real_value t x y).
Proof.
  intros (G1 & G2 & G3) HF. unfold oracle_c12. rewrite G1, G2, G3, HF. cbn [negb].
  rewrite <- value_R_value_expr. apply (check_overflow_silent bits).
Qed.

(* the qualifier attached to an alarm: the result is proven within 1.5 units *)
Theorem c12_near_qualifier_sound bits t c x y o :
  general_case t c x y o ->
  In O_TR_NEAR (oracle_c12 bits t c x y o) ->
  Rabs (real_value t x y - D2R (o_dec o)) <= 15 * powerRZ 10 (ulp_exp c (o_dec o) - 1).
Proof.
  intros (G1 & G2 & G3). unfold oracle_c12. rewrite G1, G2, G3. cbn [negb].
  rewrite <- value_R_value_expr.
  destruct (form_of (o_dec o)).
  - destruct (coeff (o_dec o) <? 0)%Z; [intros [H|[]]; discriminate|].
    destruct (Overflow (o_cond o)).
    { intros H. apply check_overflow_codes in H. destruct H; discriminate. }
    intros H. apply in_app_or in H. destruct H as [H|H].
    + unfold check_ulp in H. destruct (judge_ulp _ _ _ _ _); [destruct H| |destruct H as [H|[]]; discriminate].
      destruct H as [H|H]; [discriminate|].
      destruct (near_miss bits (value_expr t x y) (bdec (o_dec o)) (ulp_exp c (o_dec o))) eqn:N; [|destruct H].
      apply near_miss_sound in N. now rewrite bR_bdec in N.
    + destruct (Underflow (o_cond o)); [|destruct H].
      apply check_underflow_codes in H. destruct H; discriminate.
  - intros H. apply check_overflow_codes in H. destruct H; discriminate.
  - intros [H|[]]; discriminate.
  - intros [H|[]]; discriminate.
Qed.
