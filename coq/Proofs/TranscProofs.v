(* Soundness of the interval judge of C12 (Oracle/Transc.v): every verdict is a theorem about the real
   function, for every working precision, operand, context and observed result. *)
From Coq Require Import ZArith Reals Lra Lia List Bool.
From Interval Require Import Float.Specific_stdz Float.Specific_ops Interval.Float_full Interval.Interval Real.Xreal.
From Apd Require Import Model.Base Model.NumDigits Model.Decimal Spec.SpecZ Oracle.Judge Oracle.Transc.
Local Open Scope R_scope.

(* ---------- the interval evaluation encloses the extended-real meaning ---------- *)
Lemma ieval_correct bits e : contains (I.convert (ieval bits e)) (xeval e).
Proof.
  induction e as [z|c k|a IHa b IHb|a IHa b IHb|a IHa b IHb|a IHa b IHb|a IHa|a IHa|a IHa|a IHa|a IHa n]; cbn [ieval xeval].
  - apply I.fromZ_correct.
  - apply I.mul_correct; [apply I.fromZ_correct|].
    apply (I.power_int_correct bits k (I.fromZ bits 10) (Xreal (IZR 10))). apply I.fromZ_correct.
  - now apply I.add_correct.
  - now apply I.sub_correct.
  - now apply I.mul_correct.
  - now apply I.div_correct.
  - now apply I.abs_correct.
  - now apply I.neg_correct.
  - now apply I.ln_correct.
  - now apply I.exp_correct.
  - now apply (I.power_int_correct bits n).
Qed.

(* ---------- where the extended-real meaning is defined it is the real meaning ---------- *)
Lemma xpower_int_real x n r : Xpower_int' x n = Xreal r -> powerRZ x n = r.
Proof.
  unfold Xpower_int', powerRZ. destruct n as [|p|p].
  - intros H; now inversion H.
  - intros H; now inversion H.
  - destruct (Xreal.is_zero x); [discriminate|]. intros H; now inversion H.
Qed.

Lemma xeval_reval e : forall r, xeval e = Xreal r -> reval e = r.
Proof.
  induction e as [z|c k|a IHa b IHb|a IHa b IHb|a IHa b IHb|a IHa b IHb|a IHa|a IHa|a IHa|a IHa|a IHa n];
    cbn [xeval reval]; intros r H.
  - now inversion H.
  - unfold Xpower_int, Xbind in H.
    destruct (Xpower_int' (IZR 10) k) as [|q] eqn:E; cbn in H; [discriminate|].
    apply xpower_int_real in E. inversion H. now rewrite E.
  - destruct (xeval a) as [|ra]; [discriminate|]. destruct (xeval b) as [|rb]; [discriminate|].
    cbn in H. inversion H. now rewrite (IHa ra eq_refl), (IHb rb eq_refl).
  - destruct (xeval a) as [|ra]; [discriminate|]. destruct (xeval b) as [|rb]; [discriminate|].
    cbn in H. inversion H. now rewrite (IHa ra eq_refl), (IHb rb eq_refl).
  - destruct (xeval a) as [|ra]; [discriminate|]. destruct (xeval b) as [|rb]; [discriminate|].
    cbn in H. inversion H. now rewrite (IHa ra eq_refl), (IHb rb eq_refl).
  - destruct (xeval a) as [|ra]; [discriminate|]. destruct (xeval b) as [|rb]; [discriminate|].
    cbn in H. unfold Xdiv' in H. destruct (Xreal.is_zero rb); [discriminate|].
    inversion H. now rewrite (IHa ra eq_refl), (IHb rb eq_refl).
  - destruct (xeval a) as [|ra]; [discriminate|]. cbn in H. inversion H. now rewrite (IHa ra eq_refl).
  - destruct (xeval a) as [|ra]; [discriminate|]. cbn in H. inversion H. now rewrite (IHa ra eq_refl).
  - destruct (xeval a) as [|ra]; [discriminate|]. cbn in H. unfold Xln' in H.
    destruct (is_positive ra); [|discriminate]. inversion H. now rewrite (IHa ra eq_refl).
  - destruct (xeval a) as [|ra]; [discriminate|]. cbn in H. inversion H. now rewrite (IHa ra eq_refl).
  - destruct (xeval a) as [|ra]; [discriminate|]. cbn in H.
    apply xpower_int_real in H. now rewrite (IHa ra eq_refl).
Qed.

(* ---------- sign tests ---------- *)
Lemma prove_le0_sound bits e : prove_le0 bits e = true -> reval e <= 0.
Proof.
  unfold prove_le0. intros H.
  pose proof (I.sign_large_correct (ieval bits e)) as S.
  pose proof (ieval_correct bits e) as C.
  destruct (I.sign_large (ieval bits e)); try discriminate.
  - specialize (S _ C). rewrite (xeval_reval e 0 S). lra.
  - destruct (S _ C) as [E L]. rewrite (xeval_reval e _ E). exact L.
Qed.

Lemma prove_gt0_sound bits e : prove_gt0 bits e = true -> 0 < reval e.
Proof.
  unfold prove_gt0. intros H.
  pose proof (I.sign_strict_correct (ieval bits e)) as S.
  pose proof (ieval_correct bits e) as C.
  destruct (I.sign_strict (ieval bits e)); try discriminate.
  destruct (S _ C) as [E L]. rewrite (xeval_reval e _ E). exact L.
Qed.

Lemma prove_lt0_sound bits e : prove_lt0 bits e = true -> reval e < 0.
Proof.
  unfold prove_lt0. intros H.
  pose proof (I.sign_strict_correct (ieval bits e)) as S.
  pose proof (ieval_correct bits e) as C.
  destruct (I.sign_strict (ieval bits e)); try discriminate.
  destruct (S _ C) as [E L]. rewrite (xeval_reval e _ E). exact L.
Qed.

(* ---------- the one-unit predicate and its two verdicts ---------- *)
Definition one_ulp (v d : R) (adj u : Z) : Prop :=
  Rabs (v - d) <= powerRZ 10 u \/ (powerRZ 10 (adj + 1) <= Rabs v /\ Rabs (v - d) <= powerRZ 10 (u + 1)).

Lemma reval_err_small v d u : reval (err_small v d u) = Rabs (reval v - reval d) - powerRZ 10 u.
Proof. cbn [err_small reval]. lra. Qed.
Lemma reval_decade_above v adj : reval (decade_above v adj) = powerRZ 10 (adj + 1) - Rabs (reval v).
Proof. cbn [decade_above reval]. lra. Qed.

Theorem judge_ulp_within bits v d adj u :
  judge_ulp bits v d adj u = VWithin -> one_ulp (reval v) (reval d) adj u.
Proof.
  unfold judge_ulp, one_ulp.
  destruct (prove_le0 bits (err_small v d u)) eqn:A.
  { intros _. left. apply prove_le0_sound in A. rewrite reval_err_small in A. lra. }
  destruct (prove_le0 bits (decade_above v adj) && prove_le0 bits (err_small v d (u + 1))) eqn:B.
  { intros _. apply andb_prop in B. destruct B as [B1 B2].
    apply prove_le0_sound in B1, B2. rewrite reval_decade_above in B1. rewrite reval_err_small in B2.
    right. split; lra. }
  destruct (prove_gt0 bits (err_small v d u) && _); discriminate.
Qed.

Theorem judge_ulp_beyond bits v d adj u :
  judge_ulp bits v d adj u = VBeyond -> ~ one_ulp (reval v) (reval d) adj u.
Proof.
  unfold judge_ulp, one_ulp.
  destruct (prove_le0 bits (err_small v d u)); [discriminate|].
  destruct (prove_le0 bits (decade_above v adj) && prove_le0 bits (err_small v d (u + 1))); [discriminate|].
  destruct (prove_gt0 bits (err_small v d u)) eqn:A; [|discriminate]. cbn [andb].
  destruct (prove_gt0 bits (decade_above v adj)) eqn:B; cbn [orb].
  { intros _. apply prove_gt0_sound in A, B. rewrite reval_err_small in A. rewrite reval_decade_above in B.
    intros [H|[H1 H2]]; lra. }
  destruct (prove_gt0 bits (err_small v d (u + 1))) eqn:C; [|discriminate].
  intros _. apply prove_gt0_sound in A, C. rewrite reval_err_small in A, C.
  intros [H|[H1 H2]]; lra.
Qed.

(* ---------- the expressions mean the functions of the property ---------- *)
Definition D2R (d : dec) : R := IZR (if neg d then (- coeff d)%Z else coeff d) * powerRZ 10 (exp d).

Definition real_value (t : top) (x y : dec) : R :=
  match t with
  | TExp => Rtrigo_def.exp (D2R x)
  | TLn => ln (D2R x)
  | TLog10 => ln (D2R x) / ln 10
  | TPow => match int_value y with
            | Some n => powerRZ (D2R x) n
            | None => Rpower (D2R x) (D2R y)
            end
  end.

Lemma reval_sdec d : reval (sdec d) = D2R d.
Proof. reflexivity. Qed.

Lemma reval_value_expr t x y : reval (value_expr t x y) = real_value t x y.
Proof.
  destruct t; cbn [value_expr real_value reval]; rewrite ?reval_sdec; try reflexivity.
  destruct (int_value y); cbn [reval]; rewrite ?reval_sdec; reflexivity.
Qed.

(* for positive x and an integer exponent both readings of x**y agree *)
Lemma pow_int_is_rpower (x : R) (n : Z) : 0 < x -> powerRZ x n = Rpower x (IZR n).
Proof. apply powerRZ_Rpower. Qed.

Lemma powerRZ_10_nonneg k : (0 <= k)%Z -> powerRZ 10 k = IZR (10 ^ k).
Proof.
  intros Hk. rewrite <- (Z2Nat.id k Hk) at 1. rewrite <- pow_powerRZ.
  change 10 with (IZR 10). rewrite pow_IZR. now rewrite Z2Nat.id.
Qed.

(* int_value is the value when it is an integer *)
Lemma int_value_spec y n : int_value y = Some n -> D2R y = IZR n.
Proof.
  unfold int_value, D2R.
  set (c := if neg y then (- coeff y)%Z else coeff y).
  destruct (0 <=? exp y)%Z eqn:E.
  - intros H; inversion H. apply Z.leb_le in E.
    rewrite mult_IZR. now rewrite powerRZ_10_nonneg.
  - destruct (c mod 10 ^ (- exp y) =? 0)%Z eqn:M; [|discriminate].
    intros H; inversion H. apply Z.leb_gt in E. apply Z.eqb_eq in M.
    assert (Hp : (0 < 10 ^ (- exp y))%Z) by (apply Z.pow_pos_nonneg; lia).
    pose proof (Z.div_mod c (10 ^ (- exp y)) ltac:(lia)) as D. rewrite M, Z.add_0_r in D.
    assert (HE : powerRZ 10 (exp y) = / IZR (10 ^ (- exp y))).
    { replace (exp y) with (- (- exp y))%Z at 1 by lia.
      rewrite powerRZ_neg'. now rewrite powerRZ_10_nonneg by lia. }
    rewrite HE. rewrite D at 1. rewrite mult_IZR.
    field. apply not_0_IZR. lia.
Qed.

(* ---------- what an alarm / the absence of an alarm means ---------- *)
Definition general_case (t : top) (c : ctx) (x y : dec) (o : obs) : Prop :=
  in_domain t x y && wf_ctx c && (1 <=? prec c)%Z = true /\ system_err (o_err o) = false /\
  exact_cell t (prec c) x y = None.

Theorem c12_ulp_alarm_is_violation bits t c x y o :
  general_case t c x y o ->
  In O_TR_ULP (oracle_c12 bits t c x y o) ->
  ~ one_ulp (real_value t x y) (D2R (o_dec o)) (adj_of (o_dec o)) (ulp_exp c (o_dec o)).
Proof.
  intros (G1 & G2 & G3). unfold oracle_c12. rewrite G1, G2, G3. cbn [negb].
  destruct (form_of (o_dec o)).
  - destruct (coeff (o_dec o) <? 0)%Z; [intros [H|[]]; discriminate|].
    destruct (Overflow (o_cond o)).
    { destruct (prove_lt0 _ _); [intros []|]. destruct (prove_gt0 _ _); intros [H|[]]; discriminate. }
    intros H. apply in_app_or in H. destruct H as [H|H].
    + destruct (judge_ulp bits (value_expr t x y) (sdec (o_dec o)) (adj_of (o_dec o)) (ulp_exp c (o_dec o))) eqn:J.
      * destruct H.
      * apply judge_ulp_beyond in J. now rewrite reval_value_expr, reval_sdec in J.
      * destruct H as [H|[]]; discriminate.
    + destruct (Underflow (o_cond o)); [|destruct H].
      destruct (prove_lt0 _ _); [destruct H|]. destruct (prove_gt0 _ _); destruct H as [H|[]]; discriminate.
  - destruct (negb (Overflow (o_cond o))); [intros [H|[]]; discriminate|].
    destruct (prove_lt0 _ _); [intros []|]. destruct (prove_gt0 _ _); intros [H|[]]; discriminate.
  - intros [H|[]]; discriminate.
  - intros [H|[]]; discriminate.
Qed.

Theorem c12_silent_means_within bits t c x y o :
  general_case t c x y o ->
  form_of (o_dec o) = Finite -> Overflow (o_cond o) = false ->
  oracle_c12 bits t c x y o = [] ->
  one_ulp (real_value t x y) (D2R (o_dec o)) (adj_of (o_dec o)) (ulp_exp c (o_dec o)).
Proof.
  intros (G1 & G2 & G3) HF HO. unfold oracle_c12. rewrite G1, G2, G3, HF, HO. cbn [negb].
  destruct (coeff (o_dec o) <? 0)%Z; [discriminate|].
  intros H. apply app_eq_nil in H. destruct H as [H _].
  destruct (judge_ulp bits (value_expr t x y) (sdec (o_dec o)) (adj_of (o_dec o)) (ulp_exp c (o_dec o))) eqn:J;
    try discriminate.
  apply judge_ulp_within in J. now rewrite reval_value_expr, reval_sdec in J.
Qed.

(* an Overflow alarm: the exact value is proven to lie more than one unit below the largest finite number *)
Definition nmax_R (c : ctx) : R := IZR (10 ^ prec c - 1) * powerRZ 10 (emax c - prec c + 1).

Theorem c12_overflow_alarm_is_violation bits t c x y o :
  general_case t c x y o ->
  In O_TR_OVERFLOW (oracle_c12 bits t c x y o) ->
  Rabs (real_value t x y) < nmax_R c - powerRZ 10 (emax c - prec c + 1).
Proof.
  intros (G1 & G2 & G3). unfold oracle_c12. rewrite G1, G2, G3. cbn [negb].
  assert (K : prove_gt0 bits (RSub (RSub (nmax_expr c) (RDec 1 (emax c - prec c + 1))) (RAbs (value_expr t x y))) = true ->
              Rabs (real_value t x y) < nmax_R c - powerRZ 10 (emax c - prec c + 1)).
  { intros A. apply prove_gt0_sound in A. cbn [reval nmax_expr] in A. rewrite reval_value_expr in A.
    unfold nmax_R. lra. }
  destruct (form_of (o_dec o)).
  - destruct (coeff (o_dec o) <? 0)%Z; [intros [H|[]]; discriminate|].
    destruct (Overflow (o_cond o)).
    { destruct (prove_lt0 _ _); [intros []|]. destruct (prove_gt0 _ _) eqn:A; [intros _; now apply K|].
      intros [H|[]]; discriminate. }
    intros H. apply in_app_or in H. destruct H as [H|H].
    + destruct (judge_ulp _ _ _ _ _); [destruct H| |]; destruct H as [H|[]]; discriminate.
    + clear K. destruct (Underflow (o_cond o)); [|destruct H].
      destruct (prove_lt0 _ _); [destruct H|]. destruct (prove_gt0 _ _); destruct H as [H|[]]; discriminate.
  - destruct (negb (Overflow (o_cond o))); [intros [H|[]]; discriminate|].
    destruct (prove_lt0 _ _); [intros []|]. destruct (prove_gt0 _ _) eqn:A; [intros _; now apply K|].
    intros [H|[]]; discriminate.
  - intros [H|[]]; discriminate.
  - intros [H|[]]; discriminate.
Qed.

(* an Underflow alarm: the exact value is proven to lie more than one unit above the bottom of the normal range *)
Theorem c12_underflow_alarm_is_violation bits t c x y o :
  general_case t c x y o ->
  In O_TR_UNDERFLOW (oracle_c12 bits t c x y o) ->
  powerRZ 10 (emin c) + powerRZ 10 (etiny c) < Rabs (real_value t x y).
Proof.
  intros (G1 & G2 & G3). unfold oracle_c12. rewrite G1, G2, G3. cbn [negb].
  destruct (form_of (o_dec o)).
  - destruct (coeff (o_dec o) <? 0)%Z; [intros [H|[]]; discriminate|].
    destruct (Overflow (o_cond o)).
    { destruct (prove_lt0 _ _); [intros []|]. destruct (prove_gt0 _ _); intros [H|[]]; discriminate. }
    intros H. apply in_app_or in H. destruct H as [H|H].
    + destruct (judge_ulp _ _ _ _ _); [destruct H| |]; destruct H as [H|[]]; discriminate.
    + destruct (Underflow (o_cond o)); [|destruct H].
      destruct (prove_lt0 _ _); [destruct H|]. destruct (prove_gt0 _ _) eqn:A.
      * apply prove_gt0_sound in A. cbn [reval] in A. rewrite reval_value_expr in A. lra.
      * destruct H as [H|[]]; discriminate.
  - destruct (negb (Overflow (o_cond o))); [intros [H|[]]; discriminate|].
    destruct (prove_lt0 _ _); [intros []|]. destruct (prove_gt0 _ _); intros [H|[]]; discriminate.
  - intros [H|[]]; discriminate.
  - intros [H|[]]; discriminate.
Qed.
