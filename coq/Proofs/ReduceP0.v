(* C01 / C19 for Context.Reduce at Precision 0 (no rounding): the operand, inside the context's exponent range, comes back
   with its trailing zeros removed, the same sign and value, no condition; a zero becomes 0E+0 with the operand's sign. *)
From Coq Require Import ZArith Lia Bool.
From Apd Require Import Generated.Consts Model.Base Model.NumDigits Model.Decimal Model.Context Spec.SpecZ
  Proofs.Digits Proofs.Core Proofs.SetExponent Proofs.OpsProofs Proofs.ReduceProofs Proofs.P0Proofs.
Open Scope Z_scope.

Section WithEst.
Variable est : Z -> Z.
Hypothesis HE : est_in_range est.

Theorem ctx_reduce_p0 c x : prec c = 0 -> finite_nn x -> exact_in_range c (exact_of_dec x) ->
  exists d' n, ctx_reduce est c x = Ok (finish c d' c0, n) /\
    (coeff x = 0 -> d' = mkDec Finite (neg x) 0 0 /\ n = 0) /\
    (0 < coeff x ->
       form_of d' = Finite /\ neg d' = neg x /\ 0 <= n /\ exp d' = exp x + n /\ coeff x = coeff d' * 10 ^ n /\
       0 < coeff d' /\ coeff d' mod 10 <> 0).
Proof.
  intros Hp [Hf Hn] HL. unfold ctx_reduce. rewrite (not_nan_finite1 x Hf).
  pose proof (ctx_round_p0 est HE c (exact_of_dec x) Hp HL) as Hr.
  unfold exact_of_dec in Hr. cbn [xneg xexp xnum] in Hr.
  replace (mkDec Finite (neg x) (exp x) (coeff x)) with x in Hr by (destruct x; cbn in *; subst; reflexivity).
  rewrite Hr. cbn [bind].
  destruct (Z.eq_dec (coeff x) 0) as [Hz|Hnz].
  - rewrite (dreduce_zero est x Hf Hz). cbn [bind].
    exists (mkDec Finite (neg x) 0 0), 0. split; [reflexivity|]. split; [intros _; split; reflexivity|intros H; lia].
  - destruct (dreduce_nonzero est x Hf ltac:(lia)) as (d1 & n & Hd & Hn0 & Hf1 & Hng & He & Hv & Hp1 & Hm).
    rewrite Hd. cbn [bind]. exists (set_neg d1 (neg x)), n. split; [reflexivity|]. split; [intros H; lia|]. intros _.
    unfold set_neg. cbn [form_of neg exp coeff]. repeat split; assumption.
Qed.
End WithEst.
