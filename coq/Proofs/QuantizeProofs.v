(* C09 (part): Context.quantize when the target exponent is finer than or equal to the operand's, and
   when every digit is discarded. *)
From Coq Require Import ZArith Lia Bool.
From Apd Require Import Generated.Consts Model.Base Model.NumDigits Model.Decimal Model.Context Spec.SpecZ Spec.Order
  Proofs.Digits Proofs.Core Proofs.CmpProofs Proofs.RoundBasics Proofs.SetExponent.
Open Scope Z_scope.

Lemma is_zero_true v : is_zero v = true -> form_of v = Finite /\ coeff v = 0.
Proof.
  unfold is_zero, dsign, is_finite. destruct (form_eqb (form_of v) Finite) eqn:Ef; cbn [andb].
  - destruct (Z.eqb_spec (coeff v) 0) as [Hz|_]; [|destruct (neg v); discriminate].
    intros _. split; [destruct (form_of v); try discriminate; reflexivity|exact Hz].
  - destruct (neg v); discriminate.
Qed.

Section WithEst.
Variable est : Z -> Z.
Hypothesis HE : est_in_range est.

(* finer or equal quantum: exact, zeros appended *)
Theorem quantize_finer c v e : e <= exp v -> exp v - e <= MaxExponent ->
  quantize_inner est c v e = Ok (mkDec (form_of v) (neg v) e (coeff v * 10 ^ (exp v - e)), c0).
Proof.
  intros Hle Hlim. unfold quantize_inner.
  destruct (is_zero v) eqn:Ez.
  { destruct (is_zero_true v Ez) as [Hf Hz]. unfold set_exp. rewrite Hz. reflexivity. }
  destruct (Z.ltb_spec (e - exp v) 0) as [Hlt|Hge].
  - destruct (Z.ltb_spec (e - exp v) MinExponent); [unfold MinExponent, MaxExponent in *; lia|].
    rewrite table_exp10_ok by lia. cbn [bind]. unfold set_exp, set_coeff. cbn [form_of neg exp coeff].
    replace (- (e - exp v)) with (exp v - e) by lia. reflexivity.
  - assert (e = exp v) by lia. subst e. destruct (Z.gtb_spec (exp v - exp v) 0); [lia|].
    rewrite Z.sub_diag. simpl (10 ^ 0). rewrite Z.mul_1_r. destruct v; reflexivity.
Qed.

(* the operand lies more than one digit below the quantum: the result is 0 or 1 unit of 10^e, decided by
   the rounding mode and the sign exactly as the specification's integer rounding of coeff / 10^diff *)
Theorem quantize_all_discarded c v e : form_of v = Finite -> 0 < coeff v ->
  ndigits (coeff v) < e - exp v ->
  quantize_inner est c v e =
    Ok (mkDec Finite (neg v) e (rndZ (rounding c) (neg v) (coeff v) (10 ^ (e - exp v))), fInexact ||| fRounded)
  /\ 0 <= rndZ (rounding c) (neg v) (coeff v) (10 ^ (e - exp v)) <= 1.
Proof.
  intros Hf Hc Hnd. pose proof (ndigits_pos (coeff v)) as Hp.
  set (diff := e - exp v) in *. set (k := 10 ^ diff).
  assert (Hk : 0 < k) by (apply pow10_pos; lia).
  assert (Hlt : 10 * coeff v < k).
  { pose proof (ndigits_hi (coeff v) ltac:(lia)) as Hhi.
    assert (10 ^ (ndigits (coeff v) + 1) <= 10 ^ diff) by (apply pow10_le; lia).
    rewrite pow10_succ in H by lia. unfold k. lia. }
  assert (Hq : coeff v / k = 0) by (apply Z.div_small; lia).
  assert (Hm : coeff v mod k = coeff v) by (apply Z.mod_small; lia).
  assert (Hr : rndZ (rounding c) (neg v) (coeff v) k = if should_add_one (rounding c) 0 (neg v) (-1) then 1 else 0).
  { rewrite <- (sao_rndZ (rounding c) (neg v) (coeff v) k) by lia.
    rewrite Hq, Hm. replace (cmpZ (2 * coeff v) k) with (-1); [reflexivity|].
    unfold cmpZ. assert (H2 : 2 * coeff v < k) by lia. apply Z.compare_lt_iff in H2. rewrite H2. reflexivity. }
  split.
  - unfold quantize_inner. fold diff.
    rewrite (is_zero_finite v Hf). destruct (Z.eqb_spec (coeff v) 0); [lia|].
    destruct (Z.ltb_spec diff 0); [lia|]. destruct (Z.gtb_spec diff 0); [|lia].
    rewrite (nd_ok est HE). cbn [bind].
    destruct (Z.ltb_spec (ndigits (coeff v) - diff) 0); [|lia].
    cbn [negb].
    fold k. rewrite Hr. unfold set_exp, set_coeff. cbn [form_of neg exp coeff]. rewrite Hf. reflexivity.
  - fold k. rewrite Hr. destruct (should_add_one _ _ _ _); lia.
Qed.

(* a zero operand: only the exponent changes, whatever the distance between the exponents, and no condition is raised *)
Theorem quantize_zero c v e : form_of v = Finite -> coeff v = 0 ->
  quantize_inner est c v e = Ok (mkDec Finite (neg v) e 0, c0).
Proof.
  intros Hf Hz. unfold quantize_inner. rewrite (is_zero_finite v Hf), Hz. cbn [Z.eqb].
  unfold set_exp. rewrite Hf, Hz. reflexivity.
Qed.

(* RoundToIntegralValue/Exact and Quantize share quantize_inner; specials pass through *)
Theorem rti_value_clears_flags c x : form_of x = Finite ->
  forall d f, quantize_inner est c x 0 = Ok (d, f) ->
  ctx_rti_value est c x = Ok (finish c d (clear_inexact_rounded f)) /\ ctx_rti_exact est c x = Ok (finish c d f).
Proof.
  intros Hf d f Hq. unfold ctx_rti_value, ctx_rti_exact, to_integral_specials.
  unfold should_set_as_nan, is_nan, is_finite. rewrite Hf. cbn [form_eqb orb negb]. rewrite Hq. split; reflexivity.
Qed.

End WithEst.
