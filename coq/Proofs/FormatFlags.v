(* C14: Decimal.Format's handling of the fmt flags (+, space, -, 0) and the width is fmt's padding rule (Spec/Grammar.v:
   fmt_pad, written independently of the model) applied to the text of the same verb - for every decimal, flag set and
   width. *)
From Coq Require Import ZArith Lia Bool List.
From Apd Require Import Generated.Consts Model.Base Model.NumDigits Model.Decimal Model.Context Model.Text Spec.Grammar
  Proofs.TextProofs Proofs.RoundTrip.
Import ListNotations.
Open Scope Z_scope.

Lemma match_45 {A} (b : Z) (t : list Z) (X : list Z -> A) (Y : A) :
  match b :: t with 45 :: t' => X t' | _ => Y end = if b =? 45 then X t else Y.
Proof.
  destruct b as [|p|p]; try reflexivity.
  do 6 (destruct p as [p|p|]; try reflexivity).
Qed.

Lemma format_text_head fmtc d : 0 <= coeff d -> exists b t, format_text fmtc d = b :: t /\ b <> ch_plus.
Proof.
  intros Hc. destruct (digits_roundtrip (coeff d) Hc) as [_ Hd]. destruct (is_digits_split _ Hd) as (d0 & rest & Ed & Hd0 & _ & _).
  apply digit_range in Hd0. unfold format_text. rewrite Ed.
  assert (Hfe : forall f e, exists b t, fmt_e f e (d0 :: rest) = b :: t /\ b <> ch_plus).
  { intros f e. unfold fmt_e. eexists; eexists; split; [reflexivity|unfold ch_plus; lia]. }
  assert (Hff : forall e, exists b t, fmt_f e (d0 :: rest) = b :: t /\ b <> ch_plus).
  { intros e. unfold fmt_f. destruct (e <? 0).
    - destruct (- e - Z.of_nat (length (d0 :: rest)) >=? 0) eqn:El.
      + eexists; eexists; split; [reflexivity|unfold ch_plus, ch_0; lia].
      + assert (Hoff : exists k, Z.to_nat (- (- e - Z.of_nat (length (d0 :: rest)))) = S k).
        { destruct (Z.to_nat (- (- e - Z.of_nat (length (d0 :: rest))))) eqn:En; [|eauto]. exfalso. lia. }
        destruct Hoff as [k ->]. cbn [firstn app]. eexists; eexists; split; [reflexivity|unfold ch_plus; lia].
    - cbn [app]. eexists; eexists; split; [reflexivity|unfold ch_plus; lia]. }
  destruct (neg d).
  - (* a leading '-' on every branch but the unknown verb, which starts with '%' *)
    destruct (form_of d); cbn [app]; try (eexists; eexists; split; [reflexivity|unfold ch_plus, ch_minus; lia]).
    destruct ((fmtc =? ch_e) || (fmtc =? ch_E)); [eexists; eexists; split; [reflexivity|unfold ch_plus, ch_minus; lia]|].
    destruct (fmtc =? ch_f); [eexists; eexists; split; [reflexivity|unfold ch_plus, ch_minus; lia]|].
    destruct ((fmtc =? ch_g) || (fmtc =? ch_G)).
    + cbv zeta. destruct ((exp d <=? 0) && _); eexists; eexists; split; try reflexivity; unfold ch_plus, ch_minus; lia.
    + eexists; eexists; split; [reflexivity|unfold ch_plus, ch_pct; lia].
  - destruct (form_of d); cbn [app]; try (eexists; eexists; split; [reflexivity|unfold ch_plus; lia]).
    destruct ((fmtc =? ch_e) || (fmtc =? ch_E)); [apply Hfe|].
    destruct (fmtc =? ch_f); [apply Hff|].
    destruct ((fmtc =? ch_g) || (fmtc =? ch_G)).
    + cbv zeta. destruct ((exp d <=? 0) && _); [apply Hff|apply Hfe].
    + eexists; eexists; split; [reflexivity|unfold ch_plus, ch_pct; lia].
Qed.

Lemma pad_nat w len : Z.to_nat (if w >? len then w - len else 0) = Z.to_nat (w - len).
Proof. destruct (Z.gtb_spec w len); [reflexivity|]. destruct (w - len) eqn:E; try reflexivity. lia. Qed.

Theorem format_verb_is_fmt_pad fl fmtc d : 0 <= coeff d ->
  format_verb fl fmtc d =
  fmt_pad (fl_plus fl) (fl_space fl) (fl_minus fl) (fl_zero fl) (fl_width fl) (is_finite d) (format_text fmtc d).
Proof.
  intros Hc. destruct (format_text_head fmtc d Hc) as (b & t & E & Hb). unfold format_verb, fmt_pad. rewrite E.
  rewrite (match_45 b t (fun t' => ([45], t')) _).
  unfold ch_minus, ch_plus in *. destruct (Z.eqb_spec b 45) as [->|Hn45].
  - cbv zeta. unfold zeros, is_finite, ch_0.
    destruct (fl_width fl) as [w|]; [rewrite <- pad_nat|];
      destruct (fl_zero fl), (fl_minus fl), (form_eqb (form_of d) Finite); cbn [andb negb]; reflexivity.
  - destruct (Z.eqb_spec b 43) as [|_]; [contradiction|].
    destruct (fl_plus fl); [|destruct (fl_space fl)]; cbv zeta; unfold zeros, is_finite, ch_0;
      (destruct (fl_width fl) as [w|]; [rewrite <- pad_nat|]);
      destruct (fl_zero fl), (fl_minus fl), (form_eqb (form_of d) Finite); cbn [andb negb]; reflexivity.
Qed.
