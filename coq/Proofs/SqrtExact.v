(* C11 / C02 on the model of Sqrt: the Inexact flag that sqrtCorrect returns is decided by the exact comparison
   of the square of the returned value with the operand. *)
From Coq Require Import ZArith Lia Bool List.
From Apd Require Import Generated.Consts Model.Base Model.NumDigits Model.Decimal Model.Context Model.Roots Spec.SpecZ Spec.Order
  Proofs.Digits Proofs.Core Proofs.CmpProofs Proofs.SetExponent Proofs.OpsProofs Proofs.P0Proofs.
Import ListNotations.
Open Scope Z_scope.

(* the two positive finite values are equal as numbers *)
Definition same_number (c1 e1 c2 e2 : Z) : Prop :=
  c1 * 10 ^ (e1 - Z.min e1 e2) = c2 * 10 ^ (e2 - Z.min e1 e2).

Section WithEst.
Variable est : Z -> Z.
Hypothesis HE : est_in_range est.

(* the exact product of BaseContext (Precision 0, every condition but Inexact/Rounded/Subnormal... trapped) *)
Lemma ex_mul_exact d : form_of d = Finite -> 0 <= coeff d -> in_lim (exp d) ->
  in_lim (exp d + exp d) -> in_lim (exp d + exp d + ndigits (coeff d * coeff d) - 1) ->
  ex_mul est d d = Ok (EdOk _ (mkDec Finite false (exp d + exp d) (coeff d * coeff d))).
Proof.
  intros Hf Hc He He2 Hadj. unfold ex_mul.
  destruct (mul_p0 est HE (base_ctx_r) d d eq_refl (conj Hf Hc) (conj Hf Hc) He He) as (v & f & Hm & Hv & Hfl).
  { unfold exact_in_range, exact_mul. cbn [xden xnum xexp]. refine (conj eq_refl (conj _ (conj He2 (conj Hadj _)))).
    - apply Z.mul_nonneg_nonneg; assumption.
    - unfold base_ctx_r. cbn [emin emax]. unfold in_lim in Hadj. lia. }
  rewrite Hm. unfold edbind, ed_of. cbn [Base.bind finish rerr rdec rcond]. subst f v.
  change (ctx_go_error base_ctx_r c0) with ENone. cbv iota beta. cbn [Base.bind].
  unfold exact_mul. cbn [xneg xexp xnum]. rewrite xorb_nilpotent. reflexivity.
Qed.

Lemma clear_inexact_false f : Inexact (clear_inexact f) = false. Proof. reflexivity. Qed.
Lemma or_inexact_true f : Inexact (f ||| fInexact ||| fRounded) = true.
Proof. destruct f; cbn. rewrite orb_true_r. reflexivity. Qed.

(* sqrtCorrect: the value it returns carries Inexact = false exactly when its square IS the operand *)
Theorem sqrt_correct_inexact_iff nc d x res0 d2 f :
  sqrt_correct est nc d x res0 = Ok (d2, f) ->
  (exists d1, sqrt_fix est 4 (prec nc) d x = Ok (EdOk _ d1)) ->         (* the correction loop met no exponent-limit error *)
  form_of d2 = Finite -> 0 < coeff d2 -> in_lim (exp d2) -> in_lim (exp d2 + exp d2) ->
  in_lim (exp d2 + exp d2 + ndigits (coeff d2 * coeff d2) - 1) ->
  form_of x = Finite -> neg x = false -> 0 < coeff x ->
  (Inexact f = false <-> same_number (coeff d2 * coeff d2) (exp d2 + exp d2) (coeff x) (exp x)).
Proof.
  intros H [d1 Hfix] Hf2 Hc2 He2 Hee Hadj Hfx Hnx Hcx. unfold sqrt_correct in H. rewrite Hfix in H. cbn [Base.bind] in H.
  destruct (ctx_round est nc d1) as [[d2' f2]| |]; cbn [Base.bind] in H; try discriminate.
  assert (Hsq : forall v, ex_mul est v v = ex_mul est v v) by reflexivity.
  destruct (ex_mul est d2' d2') as [[s|e]| |] eqn:Emul; cbn [Base.bind] in H; try discriminate.
  - destruct (dcmp est s x) as [cm| |] eqn:Ecmp; cbn [Base.bind] in H; try discriminate.
    assert (Hd : d2' = d2) by (destruct (cm =? 0); injection H; auto). subst d2'.
    rewrite (ex_mul_exact d2 Hf2 ltac:(lia) He2 Hee Hadj) in Emul. injection Emul as <-.
    rewrite (dcmp_spec est HE _ x) in Ecmp by (try reflexivity; try (unfold is_nan; rewrite Hfx; reflexivity); cbn [coeff]; try nia; lia).
    injection Ecmp as <-.
    (* cmp_spec on two positive finite values is vcmp *)
    assert (Hcs : cmp_spec (mkDec Finite false (exp d2 + exp d2) (coeff d2 * coeff d2)) x =
                  (if neg x then 1 else vcmp (coeff d2 * coeff d2) (exp d2 + exp d2) (coeff x) (exp x))).
    { unfold cmp_spec, vsign. cbn [form_of coeff neg exp]. rewrite Hfx. cbn [form_eqb andb].
      destruct (Z.eqb_spec (coeff d2 * coeff d2) 0); [nia|]. destruct (Z.eqb_spec (coeff x) 0); [lia|].
      destruct (neg x); cbn; [reflexivity|]. destruct (vcmp _ _ _ _); reflexivity. }
    rewrite Hcs in H. unfold same_number. unfold vcmp in H.
    rewrite Hnx in H.
    destruct (cmpZ'_spec (coeff d2 * coeff d2 * 10 ^ (exp d2 + exp d2 - Z.min (exp d2 + exp d2) (exp x)))
                          (coeff x * 10 ^ (exp x - Z.min (exp d2 + exp d2) (exp x)))) as [[E L]|[[E L]|[E L]]]; rewrite E in H; cbn [Z.eqb] in H; injection H as <-.
    + rewrite or_inexact_true. split; [discriminate|lia].
    + rewrite clear_inexact_false. split; [intros _; exact L|reflexivity].
    + rewrite or_inexact_true. split; [discriminate|lia].
  - (* the exact square hit an exponent limit: impossible inside the stated limits *)
    assert (Hd : d2' = d2) by (injection H; auto). subst d2'.
    rewrite (ex_mul_exact d2 Hf2 ltac:(lia) He2 Hee Hadj) in Emul. discriminate.
Qed.
End WithEst.
