(* C13: NewFromString / SetString / UnmarshalText / Scan (BaseContext) applied to the output of String and of
   Text('G','g','E','e') returns the same Decimal, no condition and no error, for every finite decimal whose
   exponent and adjusted exponent lie inside the package limits. *)
From Coq Require Import ZArith Lia Bool List.
From Apd Require Import Generated.Consts Model.Base Model.NumDigits Model.Decimal Model.Context Model.Text Spec.SpecZ
  Proofs.Digits Proofs.Core Proofs.SetExponent Proofs.OpsProofs Proofs.P0Proofs Proofs.TextProofs Proofs.RoundTrip.
Import ListNotations.
Open Scope Z_scope.

Lemma log2_lt_4ndigits n : 0 < n -> Z.log2 n < 4 * ndigits n.
Proof.
  intros Hn. pose proof (ndigits_bounds n ltac:(lia)) as [_ Hhi]. pose proof (ndigits_pos n) as Hp.
  rewrite Z.abs_eq in Hhi by lia.
  apply Z.log2_lt_pow2; [assumption|].
  replace (2 ^ (4 * ndigits n)) with (16 ^ ndigits n) by (rewrite Z.pow_mul_r by lia; reflexivity).
  assert (10 ^ ndigits n <= 16 ^ ndigits n) by (apply Z.pow_le_mono_l; lia). lia.
Qed.

Section WithEst.
Variable est : Z -> Z.
Hypothesis HE : est_in_range est.

(* a string that parses to a finite value inside the package limits: that value, no condition, no error *)
Lemma nfs_in_limits s d : set_string_raw s = Some d ->
  form_of d = Finite -> 0 <= coeff d -> in_lim (exp d) -> in_lim (exp d + ndigits (coeff d) - 1) ->
  new_from_string est s = Ok (Some (d, c0, ENone)).
Proof.
  intros Hraw Hfin Hc He Hadj.
  unfold new_from_string, ctx_set_string. rewrite Hraw.
  unfold is_finite. rewrite Hfin. cbn [form_eqb negb].
  assert (Hs : sum_exps [exp d] 0 = inr (exp d)) by (rewrite sum_exps_1 by assumption; f_equal).
  rewrite (se_normal est HE base_ctx d unknownNumDigits c0 [exp d] (exp d));
    try assumption; try (left; reflexivity);
    try (unfold base_ctx; cbn [emin emax]; unfold in_lim in Hadj; lia).
  cbn [bind]. replace (set_exp d (exp d)) with d by (destruct d; reflexivity).
  change (uf c0) with c0. change (ctx_go_error base_ctx c0) with ENone. cbv iota.
  pose proof (ctx_round_p0 est HE base_ctx (exact_of_dec d) eq_refl) as Hr.
  unfold exact_of_dec in Hr. cbn [xneg xexp xnum xden] in Hr.
  replace (mkDec Finite (neg d) (exp d) (coeff d)) with d in Hr by (destruct d; cbn in *; subst; reflexivity).
  rewrite Hr; [reflexivity|].
  unfold exact_in_range. cbn [xden xnum xexp]. refine (conj eq_refl (conj Hc (conj He (conj Hadj _)))).
  unfold base_ctx; cbn [emin emax]; unfold in_lim in Hadj; lia.
Qed.

(* ... outside them: an error and no value *)
Lemma nfs_out_limits s d : set_string_raw s = Some d ->
  form_of d = Finite -> 0 <= coeff d -> ~ (in_lim (exp d) /\ in_lim (exp d + ndigits (coeff d) - 1)) ->
  new_from_string est s = Ok None.
Proof.
  intros Hraw Hfin Hc Hout.
  unfold new_from_string, ctx_set_string. rewrite Hraw.
  unfold is_finite. rewrite Hfin. cbn [form_eqb negb].
  assert (Eo : forall X : res (option (dec * cond * err)),
    match ctx_go_error base_ctx sys_over with ENone => X | _ => Ok None end = Ok None) by (intros X; reflexivity).
  assert (Eu : forall X : res (option (dec * cond * err)),
    match ctx_go_error base_ctx sys_under with ENone => X | _ => Ok None end = Ok None) by (intros X; reflexivity).
  unfold set_exponent, sum_exps. unfold in_lim in Hout.
  destruct (Z.gtb_spec (exp d) MaxExponent); [cbn [bind]; apply Eo|].
  destruct (Z.ltb_spec (exp d) MinExponent); [cbn [bind]; apply Eu|].
  rewrite Z.eqb_refl, (nd_ok est HE). cbn [bind].
  destruct (Z.gtb_spec (0 + exp d + ndigits (coeff d) - 1) MaxExponent); [cbn [bind]; apply Eo|].
  destruct (Z.ltb_spec (0 + exp d + ndigits (coeff d) - 1) MinExponent); [cbn [bind]; apply Eu|].
  exfalso. apply Hout. lia.
Qed.

(* a special value: itself *)
Lemma nfs_special s d : set_string_raw s = Some d -> form_of d <> Finite ->
  new_from_string est s = Ok (Some (d, c0, ENone)).
Proof.
  intros Hraw Hf. unfold new_from_string, ctx_set_string. rewrite Hraw.
  unfold is_finite. destruct (form_of d) eqn:E; try contradiction; cbn [form_eqb negb];
    unfold ctx_round, round_with, is_finite; rewrite E; reflexivity.
Qed.

Theorem new_from_string_roundtrip fmtc d : fmtc = ch_G \/ fmtc = ch_g \/ fmtc = ch_E \/ fmtc = ch_e ->
  form_of d = Finite -> 0 <= coeff d -> in_lim (exp d) -> in_lim (exp d + ndigits (coeff d) - 1) ->
  new_from_string est (format_text fmtc d) = Ok (Some (d, c0, ENone)).
Proof.
  intros Hf Hfin Hc He Hadj.
  assert (Hnd : ndigits (coeff d) <= 200001) by (unfold in_lim, MinExponent, MaxExponent in *; lia).
  assert (Hp : exp_printable d).
  { apply exp_printable_ok; [assumption|unfold in_lim, MinExponent, MaxExponent in *; lia|].
    destruct (Z.eq_dec (coeff d) 0) as [->|Hnz]; [reflexivity|].
    pose proof (log2_lt_4ndigits (coeff d) ltac:(lia)). change (2 ^ 30) with 1073741824. lia. }
  apply nfs_in_limits; try assumption. apply (text_roundtrip fmtc d Hf Hfin Hc Hp).
Qed.
End WithEst.
