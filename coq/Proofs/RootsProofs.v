(* C11: the integer oracle for Sqrt decides the specification: its result is the root rounded half-even,
   stated with exact integer inequalities on squares. *)
From Coq Require Import ZArith Lia Bool.
From Apd Require Import Generated.Consts Model.Base Model.NumDigits Oracle.JudgeRoots Proofs.Digits Proofs.Core.
Open Scope Z_scope.

Lemma sq_le a b : 0 <= a <= b -> a * a <= b * b. Proof. intros; nia. Qed.
Lemma sq_lt a b : 0 <= a < b -> a * a < b * b. Proof. intros; nia. Qed.
Lemma sq_inj a b : 0 <= a -> 0 <= b -> a * a = b * b -> a = b. Proof. intros; nia. Qed.

(* q' * U is sqrt(Y) rounded to a multiple of U = 10^k, ties to even:
     |q' U - sqrt Y| <= U/2   i.e.   ((2q'-1) U)^2 <= 4Y <= ((2q'+1) U)^2,
   a tie (equality) only with q' even, and exact iff (q' U)^2 = Y.  U <= sqrt Y: at least one digit is kept. *)
Theorem round_sqrt_int_spec k Y : 0 < Y -> 1 <= k -> 10 ^ k <= Z.sqrt Y ->
  let U := 10 ^ k in
  let '(q', exact) := round_sqrt_int k Y in
  1 <= q' /\
  ((2 * q' - 1) * U) * ((2 * q' - 1) * U) <= 4 * Y <= ((2 * q' + 1) * U) * ((2 * q' + 1) * U) /\
  (4 * Y = ((2 * q' - 1) * U) * ((2 * q' - 1) * U) -> Z.even q' = true) /\
  (4 * Y = ((2 * q' + 1) * U) * ((2 * q' + 1) * U) -> Z.even q' = true) /\
  (exact = true <-> (q' * U) * (q' * U) = Y).
Proof.
  intros HY Hk HUs U. unfold round_sqrt_int. cbv zeta. fold U in HUs.
  assert (HU : exists h, U = 2 * h /\ 0 < h).
  { unfold U. replace k with ((k - 1) + 1) by lia. rewrite pow10_succ by lia.
    pose proof (pow10_pos (k - 1) ltac:(lia)) as Hp. exists (5 * 10 ^ (k - 1)). lia. }
  destruct HU as (h & Hh & Hhp). fold U.
  pose proof (Z.sqrt_spec Y ltac:(lia)) as [Hs1 Hs2].
  set (s := Z.sqrt Y) in *.
  assert (Hs2' : Y < (s + 1) * (s + 1)) by (replace (Z.succ s) with (s + 1) in Hs2 by lia; exact Hs2).
  pose proof (Z.div_mod s U ltac:(lia)) as Hdm. pose proof (Z.mod_pos_bound s U ltac:(lia)) as Hmb.
  assert (Hq1 : 1 <= s / U) by (apply Z.div_le_lower_bound; lia).
  set (q := s / U) in *. set (m := s mod U) in *.
  set (rem := Y - s * s).
  assert (Hrem : 0 <= rem) by (unfold rem; lia).
  assert (H4s : 4 * (s * s) = (2 * s) * (2 * s)) by ring.
  assert (H4s1 : 4 * ((s + 1) * (s + 1)) = (2 * s + 2) * (2 * s + 2)) by ring.
  assert (E2s : 2 * s = 2 * q * U + 2 * m) by lia.
  clearbody q m s. 
  destruct (Z.compare_spec (2 * m) U) as [Heq|Hlt|Hgt].
  - (* the truncated root ends exactly at one half: 2s = (2q+1) U *)
    assert (Emid : 2 * s = (2 * q + 1) * U) by lia.
    destruct (Z.gtb_spec rem 0) as [Hr|Hr].
    + (* above the half: round up *)
      replace (Z.eqb rem 0) with false by (symmetry; apply Z.eqb_neq; lia). rewrite andb_false_r.
      replace (2 * (q + 1) - 1) with (2 * q + 1) by lia. replace (2 * (q + 1) + 1) with (2 * q + 3) by lia.
      assert (A : ((2 * q + 1) * U) * ((2 * q + 1) * U) < 4 * Y) by (rewrite <- Emid, <- H4s; unfold rem in Hr; lia).
      assert (B : 4 * Y < ((2 * q + 3) * U) * ((2 * q + 3) * U)).
      { apply Z.lt_le_trans with ((2 * s + 2) * (2 * s + 2)); [lia|]. apply sq_le. lia. }
      split; [lia|]. split; [lia|]. split; [lia|]. split; [lia|]. split; [discriminate|].
      intros E. exfalso. assert (s + 1 <= (q + 1) * U) by lia. pose proof (sq_le (s + 1) ((q + 1) * U) ltac:(lia)). lia.
    + (* exactly the half: tie, half-even *)
      assert (Hr0 : rem = 0) by lia. assert (EY : Y = s * s) by (unfold rem in Hr0; lia).
      replace (Z.eqb rem 0) with true by (symmetry; apply Z.eqb_eq; lia).
      destruct (Z.eqb_spec m 0) as [Hm0|Hm0]; [lia|]. cbn [andb].
      assert (E4 : 4 * Y = ((2 * q + 1) * U) * ((2 * q + 1) * U)) by (rewrite <- Emid, <- H4s, EY; reflexivity).
      destruct (Z.odd q) eqn:Hodd.
      * replace (2 * (q + 1) - 1) with (2 * q + 1) by lia. replace (2 * (q + 1) + 1) with (2 * q + 3) by lia.
        assert (B : ((2 * q + 1) * U) * ((2 * q + 1) * U) < ((2 * q + 3) * U) * ((2 * q + 3) * U)) by (apply sq_lt; nia).
        split; [lia|]. split; [lia|].
        split; [intros _; rewrite Z.even_add, <- Z.negb_odd, Hodd; reflexivity|]. split; [lia|]. split; [discriminate|].
        intros E. exfalso. assert (s + 1 <= (q + 1) * U) by lia. pose proof (sq_le (s + 1) ((q + 1) * U) ltac:(lia)). lia.
      * assert (A : ((2 * q - 1) * U) * ((2 * q - 1) * U) < ((2 * q + 1) * U) * ((2 * q + 1) * U)) by (apply sq_lt; nia).
        split; [lia|]. split; [lia|]. split; [lia|].
        split; [intros _; rewrite <- Z.negb_odd, Hodd; reflexivity|]. split; [discriminate|].
        intros E. exfalso. rewrite EY in E. apply sq_inj in E; nia.
  - (* below the half: keep q.  2m + 2 <= U because U is even *)
    assert (Hm2 : 2 * m + 2 <= U) by lia.
    assert (A : ((2 * q - 1) * U) * ((2 * q - 1) * U) < 4 * Y).
    { apply Z.lt_le_trans with ((2 * s) * (2 * s)); [apply sq_lt; nia|lia]. }
    assert (B : 4 * Y < ((2 * q + 1) * U) * ((2 * q + 1) * U)).
    { apply Z.lt_le_trans with ((2 * s + 2) * (2 * s + 2)); [lia|]. apply sq_le. nia. }
    split; [lia|]. split; [lia|]. split; [lia|]. split; [lia|].
    destruct (Z.eqb_spec m 0) as [Hm0|Hm0]; cbn [andb].
    + assert (Es : s = q * U) by lia.
      destruct (Z.eqb_spec rem 0) as [Hr0|Hr0]; split; try discriminate; intros E; try reflexivity.
      * unfold rem in Hr0. rewrite <- Es. lia.
      * exfalso. apply Hr0. unfold rem. rewrite <- Es in E. lia.
    + split; [discriminate|]. intros E. exfalso.
      assert (q * U < s) by lia. pose proof (sq_lt (q * U) s ltac:(nia)). lia.
  - (* above the half: round up.  U + 2 <= 2m because U is even *)
    assert (Hm2 : U + 2 <= 2 * m) by lia.
    replace (2 * (q + 1) - 1) with (2 * q + 1) by lia. replace (2 * (q + 1) + 1) with (2 * q + 3) by lia.
    assert (A : ((2 * q + 1) * U) * ((2 * q + 1) * U) < 4 * Y).
    { apply Z.lt_le_trans with ((2 * s) * (2 * s)); [apply sq_lt; nia|lia]. }
    assert (B : 4 * Y < ((2 * q + 3) * U) * ((2 * q + 3) * U)).
    { apply Z.lt_le_trans with ((2 * s + 2) * (2 * s + 2)); [lia|]. apply sq_le. nia. }
    split; [lia|]. split; [lia|]. split; [lia|]. split; [lia|].
    destruct (Z.eqb_spec m 0) as [Hm0|Hm0]; [lia|]. cbn [andb]. split; [discriminate|].
    intros E. exfalso. assert (s + 1 <= (q + 1) * U) by nia. pose proof (sq_le (s + 1) ((q + 1) * U) ltac:(lia)). lia.
Qed.
