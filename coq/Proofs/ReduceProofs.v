(* Decimal.Reduce: trailing-zero stripping is exact (C19). *)
From Coq Require Import ZArith Lia Bool.
From Apd Require Import Generated.Consts Model.Base Model.NumDigits Model.Decimal Spec.SpecZ Proofs.Digits Proofs.Core.
Open Scope Z_scope.

Section WithEst.
Variable est : Z -> Z.
Local Notation dreduce := (dreduce est).

Lemma strip10_spec fuel : forall c n,
  0 < c < 2 ^ (Z.of_nat fuel - 1) ->
  exists c' k, strip10 fuel c n = Ok (c', n + k) /\ 0 <= k /\ c = c' * 10 ^ k /\ 0 < c' /\ c' mod 10 <> 0.
Proof.
  induction fuel as [|f IH]; intros c n Hc.
  - simpl in Hc. exfalso. assert (2 ^ (0 - 1) = 0) by reflexivity. lia.
  - cbn [strip10].
    assert (Hqr : Z.rem c 10 = c mod 10 /\ Z.quot c 10 = c / 10).
    { split; [apply Z.rem_mod_nonneg; lia|apply Z.quot_div_nonneg; lia]. }
    destruct Hqr as [Hr Hq]. rewrite Hr, Hq.
    destruct (Z.eqb_spec (c mod 10) 0) as [Hz|Hnz].
    + assert (Hc10 : c = 10 * (c / 10)) by (pose proof (Z.div_mod c 10); lia).
      assert (Hf : 0 < Z.of_nat f).
      { destruct f; [|lia]. simpl in Hc. lia. }
      assert (Hc' : 0 < c / 10 < 2 ^ (Z.of_nat f - 1)).
      { split; [lia|].
        rewrite Nat2Z.inj_succ in Hc. replace (Z.succ (Z.of_nat f) - 1) with (Z.succ (Z.of_nat f - 1)) in Hc by lia.
        rewrite Z.pow_succ_r in Hc by lia. lia. }
      destruct (IH (c / 10) (n + 1) Hc') as (c' & k & He & Hk & Hv & Hp & Hm).
      exists c', (k + 1). split; [rewrite He; f_equal; f_equal; lia|].
      split; [lia|]. split; [|split; assumption].
      replace (k + 1) with (Z.succ k) by lia. rewrite Z.pow_succ_r by lia. lia.
    + exists c, 0. split; [f_equal; f_equal; lia|]. split; [lia|]. split; [simpl; lia|]. split; [lia|assumption].
Qed.

Lemma strip10_bitlen c n : 0 < c ->
  exists c' k, strip10 (S (Z.to_nat (bitlen c))) c n = Ok (c', n + k) /\ 0 <= k /\ c = c' * 10 ^ k /\ 0 < c' /\ c' mod 10 <> 0.
Proof.
  intros Hc. apply strip10_spec.
  assert (Hne : c <> 0) by lia.
  destruct (bitlen_bounds c Hne) as [Hbl [_ Hhi]].
  rewrite Nat2Z.inj_succ, Z2Nat.id by lia.
  replace (Z.succ (bitlen c) - 1) with (bitlen c) by lia. lia.
Qed.

Definition dvalue_eq (a b : dec) : Prop :=   (* a and b denote the same number *)
  coeff a * 10 ^ (exp a - Z.min (exp a) (exp b)) = coeff b * 10 ^ (exp b - Z.min (exp a) (exp b)).

(* Decimal.Reduce on a finite non-zero operand *)
Theorem dreduce_nonzero x : form_of x = Finite -> 0 < coeff x ->
  exists d n, dreduce x = Ok (d, n) /\ 0 <= n /\
    form_of d = Finite /\ neg d = neg x /\ exp d = exp x + n /\ coeff x = coeff d * 10 ^ n /\
    0 < coeff d /\ coeff d mod 10 <> 0.
Proof.
  intros Hf Hc. unfold dreduce, is_finite. rewrite Hf. cbn [form_eqb negb].
  unfold dsign, is_finite. rewrite Hf. cbn [form_eqb andb].
  destruct (Z.eqb_spec (coeff x) 0) as [H0|_]; [lia|].
  assert (Hs : ((if neg x then -1 else 1) =? 0) = false) by (destruct (neg x); reflexivity).
  rewrite Hs.
  destruct (strip10_bitlen (coeff x) 0 Hc) as (c' & k & He & Hk & Hv & Hp & Hm).
  rewrite He. cbn [bind]. rewrite Z.add_0_l.
  destruct (Z.eqb_spec k 0) as [Hk0|Hk0].
  - exists x, 0. subst k. rewrite Z.pow_0_r, Z.mul_1_r in Hv. subst c'.
    repeat split; try assumption; try lia.
  - eexists; eexists. split; [reflexivity|]. cbn [form_of neg exp coeff].
    repeat split; try assumption; try lia.
    destruct (neg x); reflexivity.
Qed.

(* zero: +0 with exponent 0, count from the operand only *)
Theorem dreduce_zero x : form_of x = Finite -> coeff x = 0 ->
  dreduce x = Ok (mkDec Finite false 0 0, 0).
Proof.
  intros Hf Hc. unfold dreduce, is_finite. rewrite Hf. cbn [form_eqb negb].
  unfold dsign, is_finite. rewrite Hf, Hc. cbn [form_eqb andb Z.eqb].
  rewrite (num_digits_table est 0) by (rewrite bitlen_zero; unfold digitsTableSize; lia).
  reflexivity.
Qed.

Theorem dreduce_special x : form_of x <> Finite -> dreduce x = Ok (x, 0).
Proof.
  intros Hf. unfold dreduce, is_finite. destruct (form_of x); try contradiction; reflexivity.
Qed.

End WithEst.

(* the expected digit count used for 10^k + delta beyond the sizes the model is evaluated at *)
Lemma expected_digits_pow10_sound k delta : 1 <= k -> -1 <= delta <= 1 ->
  ndigits (10 ^ k + delta) = expected_digits_pow10 k delta.
Proof.
  intros Hk Hd. unfold expected_digits_pow10.
  pose proof (pow10_pos k ltac:(lia)) as Hp. pose proof (pow10_pos (k - 1) ltac:(lia)) as Hp1.
  assert (E : 10 ^ k = 10 * 10 ^ (k - 1)) by (replace k with ((k - 1) + 1) at 1 by lia; rewrite pow10_succ by lia; reflexivity).
  destruct (Z.ltb_spec delta 0).
  - assert (delta = -1) by lia. subst delta. apply ndigits_of_bounds; lia.
  - apply ndigits_of_bounds; [lia|]. replace (k + 1 - 1) with k by lia. rewrite pow10_succ by lia. lia.
Qed.
