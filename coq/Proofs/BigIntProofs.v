(* C16: every modelled BigInt method computes the math/big (= Z) function on the abstract values and
   preserves the representation invariant, for every re-allocation oracle bit; lifted to arbitrary
   method sequences over a register file (all alias patterns are register index patterns). *)
From Coq Require Import ZArith Lia Bool List.
From Apd Require Import Generated.Consts Model.Base Model.BigInt.
Open Scope Z_scope.

Ltac Zify.zify_post_hook ::= Z.div_mod_to_equations.

Definition sv (v : Z) (n : bool) : Z := if n then - v else v.     (* signed value of (magnitude, sign) *)
Definition u64ok (v : Z) (n : bool) : Prop := 0 <= v < W64 /\ (n = true -> v <> 0).

Lemma W64_val : W64 = 18446744073709551616. Proof. reflexivity. Qed.
Lemma W128_val : W128 = W64 * W64. Proof. reflexivity. Qed.

Lemma binv_inline ng w0 w1 : binv (BInline ng w0 w1) = true <->
  0 <= w0 < W64 /\ 0 <= w1 < W64 /\ (ng = true -> w0 + W64 * w1 <> 0).
Proof.
  unfold binv. rewrite !andb_true_iff, orb_true_iff, !negb_true_iff, andb_false_iff.
  rewrite !Z.leb_le, !Z.ltb_lt, !Z.eqb_neq. rewrite W64_val.
  split.
  - intros ((((A & B) & C) & D) & E). repeat split; try lia.
    intros Hn. destruct E as [E|[E|E]]; [congruence|lia|lia].
  - intros (A & B & C). repeat split; try lia.
    destruct ng; [right|left; reflexivity].
    assert (w0 + 18446744073709551616 * w1 <> 0) by (apply C; reflexivity). destruct (Z.eq_dec w0 0); [right|left]; lia.
Qed.

Lemma from_u64_ok v n : u64ok v n -> bval (from_u64 v n) = sv v n /\ binv (from_u64 v n) = true.
Proof.
  intros [H1 H2]. unfold from_u64, bval, sv. rewrite Z.mul_0_r, Z.add_0_r. split; [reflexivity|].
  apply binv_inline. rewrite W64_val in *. repeat split; try lia; try (intros Hn; specialize (H2 Hn); lia).
Qed.

Lemma as_u64_ok b v n : binv b = true -> as_u64 b = Some (v, n) -> bval b = sv v n /\ u64ok v n.
Proof.
  destruct b as [ng w0 w1|h]; [|discriminate]. intros Hi. cbn [as_u64].
  destruct (Z.eqb_spec w1 0) as [->|]; [|discriminate]. intros H. injection H as <- <-.
  apply binv_inline in Hi. destruct Hi as (A & B & C). unfold bval, sv, u64ok. rewrite Z.mul_0_r, Z.add_0_r in *.
  repeat split; try lia; try exact C.
Qed.

(* updateInner *)
Lemma upd_ok z v r : bval (upd z v r) = v /\ binv (upd z v r) = true.
Proof.
  unfold upd. destruct z as [ng w0 w1|h]; [|split; reflexivity].
  destruct (r || (W128 <=? Z.abs v)) eqn:E; [split; reflexivity|].
  apply orb_false_iff in E as [_ E]. apply Z.leb_gt in E. rewrite W128_val, W64_val in E.
  split.
  - unfold bval. rewrite W64_val. destruct (Z.ltb_spec v 0); lia.
  - apply binv_inline. rewrite W64_val. repeat split; try lia;
      try (intros Hn; apply Z.ltb_lt in Hn; lia).
Qed.

(* ---------- fast paths ---------- *)
Lemma add_inline_ok x y xn yn v n : u64ok x xn -> u64ok y yn -> add_inline x y xn yn = Some (v, n) ->
  sv v n = sv x xn + sv y yn /\ u64ok v n.
Proof.
  intros [Hx Hx'] [Hy Hy']. unfold add_inline, sv, u64ok. rewrite W64_val in *.
  assert (Kx : xn = true -> x <> 0) by assumption. assert (Ky : yn = true -> y <> 0) by assumption.
  destruct xn, yn; cbn [Bool.eqb negb];
    repeat match goal with
    | |- context [?a <? ?b] => destruct (Z.ltb_spec a b)
    | |- context [?a =? ?b] => destruct (Z.eqb_spec a b)
    end; intros HH; try discriminate; injection HH as <- <-;
    try (specialize (Kx eq_refl)); try (specialize (Ky eq_refl));
    repeat split; try lia; try discriminate; try (intros _; lia).
Qed.

Lemma mul_inline_ok x y xn yn v n : u64ok x xn -> u64ok y yn -> mul_inline x y xn yn = Some (v, n) ->
  sv v n = sv x xn * sv y yn /\ u64ok v n.
Proof.
  intros [Hx Hx'] [Hy Hy']. unfold mul_inline. cbv zeta.
  destruct (Z.eqb_spec (x * y / W64) 0) as [Hhi|]; [|discriminate].
  assert (Hp : 0 <= x * y) by nia.
  assert (Hlo : x * y mod W64 = x * y).
  { rewrite W64_val in *. pose proof (Z.div_mod (x * y) 18446744073709551616 ltac:(lia)). rewrite Hhi in H. lia. }
  rewrite Hlo. intros H. injection H as <- <-.
  assert (Hb : x * y < W64).
  { rewrite <- Hlo. apply Z.mod_pos_bound. rewrite W64_val. lia. }
  unfold sv, u64ok. destruct (Z.eqb_spec (x * y) 0) as [Hz|Hnz].
  - split; [|split; [lia|discriminate]]. destruct xn, yn; nia.
  - split; [destruct xn, yn; cbn; nia|]. split; [lia|]. intros _. assumption.
Qed.

Lemma quo_inline_ok x y xn yn v n : u64ok x xn -> u64ok y yn -> quo_inline x y xn yn = Some (v, n) ->
  sv v n = Z.quot (sv x xn) (sv y yn) /\ u64ok v n /\ y <> 0.
Proof.
  intros [Hx Hx'] [Hy Hy']. unfold quo_inline. destruct (Z.eqb_spec y 0) as [|Hy0]; [discriminate|]. cbv zeta.
  intros H. injection H as <- <-.
  assert (Hq : 0 <= x / y <= x) by (split; [apply Z.div_pos; lia|apply Z.div_le_upper_bound; nia]).
  assert (Hqd : Z.quot x y = x / y) by (apply Z.quot_div_nonneg; lia).
  split; [|split; [|assumption]].
  - unfold sv. destruct (Z.eqb_spec (x / y) 0) as [Hz|Hnz].
    + destruct xn, yn; rewrite ?Z.quot_opp_l, ?Z.quot_opp_r, ?Z.quot_opp_opp by lia; rewrite Hqd, Hz; reflexivity.
    + destruct xn, yn; cbn [Bool.eqb negb]; rewrite ?Z.quot_opp_opp, ?Z.quot_opp_l, ?Z.quot_opp_r by lia; rewrite Hqd; lia.
  - unfold u64ok. split; [lia|]. destruct (Z.eqb_spec (x / y) 0); [discriminate|auto].
Qed.

Lemma rem_inline_ok x y xn yn v n : u64ok x xn -> u64ok y yn -> rem_inline x y xn yn = Some (v, n) ->
  sv v n = Z.rem (sv x xn) (sv y yn) /\ u64ok v n /\ y <> 0.
Proof.
  intros [Hx Hx'] [Hy Hy']. unfold rem_inline. destruct (Z.eqb_spec y 0) as [|Hy0]; [discriminate|]. cbv zeta.
  intros H. injection H as <- <-.
  pose proof (Z.mod_pos_bound x y ltac:(lia)) as Hm.
  assert (Hrd : Z.rem x y = x mod y) by (apply Z.rem_mod_nonneg; lia).
  split; [|split; [|assumption]].
  - unfold sv. destruct (Z.eqb_spec (x mod y) 0) as [Hz|Hnz].
    + destruct xn, yn; rewrite ?Z.rem_opp_l, ?Z.rem_opp_r, ?Z.rem_opp_opp by lia; rewrite ?Hrd, ?Hz; reflexivity.
    + destruct xn, yn; rewrite ?Z.rem_opp_opp, ?Z.rem_opp_l, ?Z.rem_opp_r by lia; rewrite Hrd; lia.
  - unfold u64ok. split; [lia|]. destruct (Z.eqb_spec (x mod y) 0); [discriminate|auto].
Qed.

(* ---------- methods ---------- *)
Definition good (b : bigint) (v : Z) : Prop := bval b = v /\ binv b = true.

Lemma fast2_ok f x y v n : binv x = true -> binv y = true -> fast2 f x y = Some (v, n) ->
  exists xv xn yv yn, bval x = sv xv xn /\ bval y = sv yv yn /\ u64ok xv xn /\ u64ok yv yn /\ f xv yv xn yn = Some (v, n).
Proof.
  intros Hx Hy. unfold fast2. destruct (as_u64 x) as [[xv xn]|] eqn:Ex; [|discriminate].
  destruct (as_u64 y) as [[yv yn]|] eqn:Ey; [|discriminate]. intros H.
  destruct (as_u64_ok x xv xn Hx Ex) as [A B]. destruct (as_u64_ok y yv yn Hy Ey) as [C D].
  exists xv, xn, yv, yn. auto.
Qed.

Theorem b_add_ok z x y r : binv x = true -> binv y = true -> good (b_add z x y r) (bval x + bval y).
Proof.
  intros Hx Hy. unfold b_add. destruct (fast2 add_inline x y) as [[v n]|] eqn:E; [|apply upd_ok].
  destruct (fast2_ok _ _ _ _ _ Hx Hy E) as (xv & xn & yv & yn & A & B & C & D & F).
  destruct (add_inline_ok _ _ _ _ _ _ C D F) as [G H]. destruct (from_u64_ok v n H) as [I J].
  split; [rewrite I, G, A, B; reflexivity|assumption].
Qed.

Lemma sv_negb v n : sv v (negb n) = - sv v n. Proof. destruct n; cbn; lia. Qed.
Lemma u64ok_negb v n : u64ok v n -> v <> 0 \/ n = true -> u64ok v (negb n) \/ v = 0.
Proof. intros [A B] _. destruct (Z.eq_dec v 0); [right; assumption|left; split; [assumption|intros _; assumption]]. Qed.

Theorem b_sub_ok z x y r : binv x = true -> binv y = true -> good (b_sub z x y r) (bval x - bval y).
Proof.
  intros Hx Hy. unfold b_sub.
  destruct (fast2 (fun xv yv xn yn => add_inline xv yv xn (negb yn)) x y) as [[v n]|] eqn:E; [|apply upd_ok].
  destruct (fast2_ok _ _ _ _ _ Hx Hy E) as (xv & xn & yv & yn & A & B & C & D & F).
  (* -y is (yv, !yn); when yv = 0 the flipped sign is harmless: handle by direct computation *)
  destruct (Z.eq_dec yv 0) as [Hy0|Hy0].
  - subst yv. assert (Hyn : yn = false) by (destruct D as [_ D]; destruct yn; [exfalso; apply D; reflexivity|reflexivity]).
    subst yn. cbn [negb] in F. destruct C as [C1 C2].
    unfold add_inline in F. rewrite W64_val in *.
    destruct xn; cbn [Bool.eqb] in F.
    + destruct (Z.ltb_spec (xv + 0) 18446744073709551616); [|lia]. injection F as <- <-.
      rewrite Z.add_0_r. destruct (from_u64_ok xv true) as [I J]; [split; [rewrite W64_val; lia|assumption]|].
      split; [rewrite I, A, B; cbn; lia|assumption].
    + destruct (Z.ltb_spec xv 0); [lia|]. rewrite Z.sub_0_r in F.
      destruct (Z.eqb_spec xv 0).
      * injection F as <- <-. subst xv. destruct (from_u64_ok 0 false) as [I J]; [split; [rewrite W64_val; lia|discriminate]|].
        split; [rewrite I, A, B; reflexivity|assumption].
      * injection F as <- <-. destruct (from_u64_ok xv false) as [I J]; [split; [rewrite W64_val; lia|discriminate]|].
        split; [rewrite I, A, B; cbn; lia|assumption].
  - assert (D' : u64ok yv (negb yn)) by (destruct D; split; [assumption|intros _; assumption]).
    destruct (add_inline_ok _ _ _ _ _ _ C D' F) as [G H]. destruct (from_u64_ok v n H) as [I J].
    split; [rewrite I, G, A, B, sv_negb; lia|assumption].
Qed.

Theorem b_mul_ok z x y r : binv x = true -> binv y = true -> good (b_mul z x y r) (bval x * bval y).
Proof.
  intros Hx Hy. unfold b_mul. destruct (fast2 mul_inline x y) as [[v n]|] eqn:E; [|apply upd_ok].
  destruct (fast2_ok _ _ _ _ _ Hx Hy E) as (xv & xn & yv & yn & A & B & C & D & F).
  destruct (mul_inline_ok _ _ _ _ _ _ C D F) as [G H]. destruct (from_u64_ok v n H) as [I J].
  split; [rewrite I, G, A, B; reflexivity|assumption].
Qed.

Theorem b_quo_ok z x y r : binv x = true -> binv y = true ->
  match b_quo z x y r with
  | Some q => good q (Z.quot (bval x) (bval y)) /\ bval y <> 0
  | None => bval y = 0
  end.
Proof.
  intros Hx Hy. unfold b_quo. destruct (fast2 quo_inline x y) as [[v n]|] eqn:E.
  - destruct (fast2_ok _ _ _ _ _ Hx Hy E) as (xv & xn & yv & yn & A & B & C & D & F).
    destruct (quo_inline_ok _ _ _ _ _ _ C D F) as (G & H & Hy0). destruct (from_u64_ok v n H) as [I J].
    split; [split; [rewrite I, G, A, B; reflexivity|assumption]|]. rewrite B. unfold sv. destruct yn; lia.
  - destruct (Z.eqb_spec (bval y) 0); [assumption|]. split; [apply upd_ok|assumption].
Qed.

Theorem b_rem_ok z x y r : binv x = true -> binv y = true ->
  match b_rem z x y r with
  | Some q => good q (Z.rem (bval x) (bval y)) /\ bval y <> 0
  | None => bval y = 0
  end.
Proof.
  intros Hx Hy. unfold b_rem. destruct (fast2 rem_inline x y) as [[v n]|] eqn:E.
  - destruct (fast2_ok _ _ _ _ _ Hx Hy E) as (xv & xn & yv & yn & A & B & C & D & F).
    destruct (rem_inline_ok _ _ _ _ _ _ C D F) as (G & H & Hy0). destruct (from_u64_ok v n H) as [I J].
    split; [split; [rewrite I, G, A, B; reflexivity|assumption]|]. rewrite B. unfold sv. destruct yn; lia.
  - destruct (Z.eqb_spec (bval y) 0); [assumption|]. split; [apply upd_ok|assumption].
Qed.

Theorem b_quorem_ok z rm x y r1 r2 : binv x = true -> binv y = true ->
  match b_quorem z rm x y r1 r2 with
  | Some (q, m) => good q (Z.quot (bval x) (bval y)) /\ good m (Z.rem (bval x) (bval y)) /\ bval y <> 0
  | None => bval y = 0
  end.
Proof.
  intros Hx Hy. unfold b_quorem.
  destruct (fast2 quo_inline x y) as [[qv qn]|] eqn:E1; destruct (fast2 rem_inline x y) as [[mv mn]|] eqn:E2.
  - destruct (fast2_ok _ _ _ _ _ Hx Hy E1) as (xv & xn & yv & yn & A & B & C & D & F).
    destruct (quo_inline_ok _ _ _ _ _ _ C D F) as (G & H & Hy0). destruct (from_u64_ok qv qn H) as [I J].
    destruct (fast2_ok _ _ _ _ _ Hx Hy E2) as (xv' & xn' & yv' & yn' & A' & B' & C' & D' & F').
    destruct (rem_inline_ok _ _ _ _ _ _ C' D' F') as (G' & H' & Hy0'). destruct (from_u64_ok mv mn H') as [I' J'].
    split; [split; [rewrite I, G, A, B; reflexivity|assumption]|].
    split; [split; [rewrite I', G', A', B'; reflexivity|assumption]|]. rewrite B. unfold sv. destruct yn; lia.
  - destruct (Z.eqb_spec (bval y) 0); [assumption|]. split; [apply upd_ok|]. split; [apply upd_ok|assumption].
  - destruct (Z.eqb_spec (bval y) 0); [assumption|]. split; [apply upd_ok|]. split; [apply upd_ok|assumption].
  - destruct (Z.eqb_spec (bval y) 0); [assumption|]. split; [apply upd_ok|]. split; [apply upd_ok|assumption].
Qed.

Theorem b_set_ok z x r : binv x = true -> good (b_set z x r) (bval x).
Proof. intros Hx. unfold b_set. destruct x; [split; [reflexivity|assumption]|apply upd_ok]. Qed.

Theorem b_abs_ok z x r : binv x = true -> good (b_abs z x r) (Z.abs (bval x)).
Proof.
  intros Hx. unfold b_abs. destruct x as [ng w0 w1|h]; [|apply upd_ok].
  apply binv_inline in Hx. destruct Hx as (A & B & C). split.
  - unfold bval. rewrite W64_val in *. destruct ng; lia.
  - apply binv_inline. repeat split; try lia; try discriminate.
Qed.

Theorem b_neg_ok z x r : binv x = true -> good (b_neg z x r) (- bval x).
Proof.
  intros Hx. unfold b_neg. destruct x as [ng w0 w1|h]; [|apply upd_ok].
  apply binv_inline in Hx. destruct Hx as (A & B & C). rewrite W64_val in *. split.
  - unfold bval. rewrite W64_val. destruct ng; cbn [orb]; [lia|].
    destruct (Z.eqb_spec w0 0), (Z.eqb_spec w1 0); cbn [andb]; lia.
  - apply binv_inline. rewrite W64_val. repeat split; try lia.
    all: destruct ng; cbn [orb]; [discriminate|]; destruct (Z.eqb_spec w0 0), (Z.eqb_spec w1 0); cbn [andb]; try discriminate; intros _; lia.
Qed.

Theorem b_set_int64_ok v : - 2 ^ 63 <= v < 2 ^ 63 -> good (b_set_int64 v) v.
Proof.
  intros Hv. unfold b_set_int64. destruct (Z.ltb_spec v 0).
  - assert (E : (- v) mod W64 = - v) by (apply Z.mod_small; rewrite W64_val; lia). rewrite E.
    destruct (from_u64_ok (- v) true) as [I J]; [split; [rewrite W64_val; lia|intros _; lia]|].
    split; [rewrite I; cbn; lia|assumption].
  - destruct (from_u64_ok v false) as [I J]; [split; [rewrite W64_val; lia|discriminate]|]. split; assumption.
Qed.

Theorem b_set_uint64_ok v : 0 <= v < W64 -> good (b_set_uint64 v) v.
Proof. intros Hv. unfold b_set_uint64. apply (from_u64_ok v false). split; [assumption|discriminate]. Qed.

Theorem b_set_dec_ok z v r : good (b_set_dec z v r) v.
Proof.
  unfold b_set_dec. destruct (Z.leb_spec (- 2 ^ 63) v), (Z.ltb_spec v (2 ^ 63)); cbn [andb]; try apply upd_ok.
  apply b_set_int64_ok. lia.
Qed.

Theorem b_lsh_ok z x n r : good (b_lsh z x n r) (bval x * 2 ^ n). Proof. apply upd_ok. Qed.
Theorem b_rsh_ok z x n r : good (b_rsh z x n r) (Z.shiftr (bval x) n). Proof. apply upd_ok. Qed.
Theorem b_sqrt_ok z x r : good (b_sqrt z x r) (Z.sqrt (bval x)). Proof. apply upd_ok. Qed.
Theorem b_set_math_ok z v r : good (b_set_math z v r) v. Proof. apply upd_ok. Qed.

(* ---------- scalar results ---------- *)
Theorem b_sign_ok z : binv z = true -> b_sign z = Z.sgn (bval z).
Proof.
  intros Hz. destruct z as [ng w0 w1|h]; [|reflexivity].
  apply binv_inline in Hz. destruct Hz as (A & B & C). rewrite W64_val in *.
  unfold b_sign, bval. rewrite W64_val. destruct ng.
  - specialize (C eq_refl). lia.
  - destruct (Z.eqb_spec w0 0), (Z.eqb_spec w1 0); cbn [andb]; lia.
Qed.

Lemma z_cmp_sgn a b : z_cmp a b = Z.sgn (a - b).
Proof. unfold z_cmp. destruct (Z.compare_spec a b); lia. Qed.

Theorem b_cmp_ok z y : binv z = true -> binv y = true -> b_cmp z y = z_cmp (bval z) (bval y).
Proof.
  intros Hz Hy. unfold b_cmp. destruct (as_u64 z) as [[zv zn]|] eqn:Ez; [|reflexivity].
  destruct (as_u64 y) as [[yv yn]|] eqn:Ey; [|reflexivity].
  destruct (as_u64_ok z zv zn Hz Ez) as [A [B B']]. destruct (as_u64_ok y yv yn Hy Ey) as [C [D D']].
  rewrite A, C. rewrite !z_cmp_sgn. unfold sv.
  destruct zn, yn; cbn [Bool.eqb]; try (specialize (B' eq_refl)); try (specialize (D' eq_refl)); lia.
Qed.

Theorem b_cmp_abs_ok z y : binv z = true -> binv y = true -> b_cmp_abs z y = z_cmp (Z.abs (bval z)) (Z.abs (bval y)).
Proof.
  intros Hz Hy. unfold b_cmp_abs. destruct (as_u64 z) as [[zv zn]|] eqn:Ez; [|reflexivity].
  destruct (as_u64 y) as [[yv yn]|] eqn:Ey; [|reflexivity].
  destruct (as_u64_ok z zv zn Hz Ez) as [A [B B']]. destruct (as_u64_ok y yv yn Hy Ey) as [C [D D']].
  rewrite A, C. unfold sv. f_equal; [destruct zn|destruct yn]; lia.
Qed.

Theorem b_is_uint64_ok z : binv z = true -> b_is_uint64 z = ((0 <=? bval z) && (bval z <? W64)).
Proof.
  intros Hz. unfold b_is_uint64. destruct (as_u64 z) as [[zv zn]|] eqn:Ez; [|reflexivity].
  destruct (as_u64_ok z zv zn Hz Ez) as [A [B B']]. rewrite A. unfold sv. rewrite W64_val in *.
  destruct zn; cbn [negb].
  - specialize (B' eq_refl). destruct (Z.leb_spec 0 (- zv)); [lia|reflexivity].
  - destruct (Z.leb_spec 0 zv), (Z.ltb_spec zv 18446744073709551616); try lia; reflexivity.
Qed.

Lemma wrap64s_small v : 0 <= v < 2 ^ 63 -> wrap64s v = v.
Proof. intros H. unfold wrap64s. rewrite W64_val. rewrite Z.mod_small by lia. destruct (Z.ltb_spec v (2 ^ 63)); lia. Qed.
Lemma wrap64s_big v : 2 ^ 63 <= v < W64 -> wrap64s v = v - W64.
Proof. intros H. unfold wrap64s. rewrite W64_val in *. rewrite Z.mod_small by lia. destruct (Z.ltb_spec v (2 ^ 63)); lia. Qed.
Lemma wrap64s_neg_small v : 0 < v <= 2 ^ 63 -> wrap64s (- v) = - v.
Proof.
  intros H. unfold wrap64s. rewrite W64_val.
  assert (E : (- v) mod 18446744073709551616 = 18446744073709551616 - v).
  { symmetry. apply (Z.mod_unique _ _ (-1)); lia. }
  rewrite E. destruct (Z.ltb_spec (18446744073709551616 - v) (2 ^ 63)); lia.
Qed.

Theorem b_is_int64_ok z : binv z = true -> b_is_int64 z = ((- 2 ^ 63 <=? bval z) && (bval z <? 2 ^ 63)).
Proof.
  intros Hz. unfold b_is_int64. destruct (as_u64 z) as [[zv zn]|] eqn:Ez; [|reflexivity].
  destruct (as_u64_ok z zv zn Hz Ez) as [A [B B']]. rewrite A. unfold sv.
  destruct (Z.lt_ge_cases zv (2 ^ 63)) as [Hs|Hb].
  - rewrite wrap64s_small by lia. destruct (Z.leb_spec 0 zv); [|lia]. cbn [orb].
    destruct zn; destruct (Z.leb_spec (- 2 ^ 63) (- zv)), (Z.ltb_spec (- zv) (2 ^ 63)),
      (Z.leb_spec (- 2 ^ 63) zv), (Z.ltb_spec zv (2 ^ 63)); try lia; reflexivity.
  - rewrite wrap64s_big by lia. rewrite W64_val in *.
    destruct (Z.leb_spec 0 (zv - 18446744073709551616)); [lia|]. cbn [orb].
    destruct zn; cbn [andb].
    + destruct (Z.eq_dec zv (2 ^ 63)) as [->|Hne].
      * change (wrap64s (- (2 ^ 63 - 18446744073709551616))) with (2 ^ 63 - 18446744073709551616).
        rewrite Z.eqb_refl. reflexivity.
      * replace (- (zv - 18446744073709551616)) with (18446744073709551616 - zv) by lia.
        rewrite (wrap64s_small (18446744073709551616 - zv)) by lia.
        destruct (Z.eqb_spec (zv - 18446744073709551616) (18446744073709551616 - zv)); [lia|].
        destruct (Z.leb_spec (- 2 ^ 63) (- zv)); [lia|reflexivity].
    + destruct (Z.leb_spec (- 2 ^ 63) zv), (Z.ltb_spec zv (2 ^ 63)); try lia; reflexivity.
Qed.

Theorem b_int64_ok z : binv z = true -> - 2 ^ 63 <= bval z < 2 ^ 63 -> b_int64 z = bval z.
Proof.
  intros Hz Hr. unfold b_int64. destruct (as_u64 z) as [[zv zn]|] eqn:Ez.
  - destruct (as_u64_ok z zv zn Hz Ez) as [A [B B']]. rewrite A in *. destruct zn; cbn [sv] in *.
    + specialize (B' eq_refl). destruct (Z.eq_dec zv (2 ^ 63)) as [->|Hne]; [reflexivity|].
      rewrite (wrap64s_small zv) by lia. apply wrap64s_neg_small. lia.
    + apply wrap64s_small. lia.
  - destruct (Z.ltb_spec (bval z) 0).
    + destruct (Z.eq_dec (bval z) (- 2 ^ 63)) as [E|Hne]; [rewrite E; reflexivity|].
      rewrite Z.abs_neq by lia. rewrite (wrap64s_small (- bval z)) by lia.
      rewrite (wrap64s_neg_small (- bval z)) by lia. lia.
    + rewrite Z.abs_eq by lia. apply wrap64s_small. lia.
Qed.

Theorem b_uint64_ok z : binv z = true -> 0 <= bval z < W64 -> b_uint64 z = bval z.
Proof.
  intros Hz Hr. unfold b_uint64. destruct (as_u64 z) as [[zv zn]|] eqn:Ez.
  - destruct (as_u64_ok z zv zn Hz Ez) as [A [B B']]. rewrite A in *. destruct zn; cbn [sv] in *; [|reflexivity].
    specialize (B' eq_refl). lia.
  - rewrite Z.abs_eq by lia. apply Z.mod_small. assumption.
Qed.

Theorem b_bitlen_ok z : binv z = true -> b_bitlen z = z_bitlen (bval z).
Proof.
  intros Hz. destruct z as [ng w0 w1|h]; [|reflexivity].
  apply binv_inline in Hz. destruct Hz as (A & B & C).
  unfold b_bitlen, z_bitlen, bval.
  assert (Habs : Z.abs (if ng then - (w0 + W64 * w1) else w0 + W64 * w1) = w0 + W64 * w1) by (rewrite W64_val in *; destruct ng; lia).
  destruct (Z.eqb_spec w1 0) as [->|H1]; cbn [negb].
  - rewrite Z.mul_0_r, Z.add_0_r in *. destruct (Z.eqb_spec w0 0) as [->|H0]; cbn [negb].
    + destruct ng; reflexivity.
    + destruct (Z.eqb_spec (if ng then - w0 else w0) 0) as [E|_]; [destruct ng; lia|]. rewrite Habs. reflexivity.
  - destruct (Z.eqb_spec (if ng then - (w0 + W64 * w1) else w0 + W64 * w1) 0) as [E|_]; [rewrite W64_val in *; destruct ng; lia|].
    rewrite Habs.
    assert (Hw1 : 0 < w1) by lia. pose proof (Z.log2_spec w1 Hw1) as [L1 L2]. pose proof (Z.log2_nonneg w1) as L0.
    assert (HL : Z.log2 (w0 + W64 * w1) = 64 + Z.log2 w1).
    { apply Z.log2_unique; [lia|].
      rewrite Z.pow_succ_r in * by lia. rewrite Z.pow_add_r by lia. change (2 ^ 64) with W64. rewrite W64_val in *. nia. }
    rewrite HL. lia.
Qed.

(* ---------- arbitrary method sequences over a register file ---------- *)
Definition all_good (rs : list bigint) : Prop := Forall (fun b => binv b = true) rs.

Lemma map_set_nth {A B} (f : A -> B) l i v : map f (set_nth l i v) = set_nth (map f l) i (f v).
Proof. revert i. induction l as [|h t IH]; intros [|i]; cbn; try reflexivity. rewrite IH. reflexivity. Qed.
Lemma all_good_set rs i b : all_good rs -> binv b = true -> all_good (set_nth rs i b).
Proof.
  unfold all_good. revert i. induction rs as [|h t IH]; intros [|i] H Hb; cbn; try constructor; inversion H; subst; auto.
Qed.
Lemma breg_good rs i : all_good rs -> binv (breg rs i) = true.
Proof.
  unfold all_good, breg. revert i. induction rs as [|h t IH]; intros [|i] H; cbn; try reflexivity; inversion H; subst; auto.
Qed.
Lemma breg_val rs i : bval (breg rs i) = zreg (map bval rs) i.
Proof. unfold breg, zreg. revert i. induction rs as [|h t IH]; intros [|i]; cbn; try reflexivity. apply IH. Qed.

(* one call: the abstraction commutes and the invariant is preserved, whatever the oracle bits and
   whatever registers coincide *)
Theorem bstep_refines rs s r r' : all_good rs -> step_wf s ->
  match bstep_run rs s r r', zstep_run (map bval rs) s with
  | Some rs', Some zs' => map bval rs' = zs' /\ all_good rs'
  | None, None => True
  | _, _ => False
  end.
Proof.
  intros Hg Hwf.
  destruct s; cbn [bstep_run zstep_run step_wf] in *; rewrite <- ?breg_val;
    try (match goal with
         | |- context [set_nth rs ?d ?b] =>
             let H := fresh in
             assert (H : good b _) by
               (first [ apply b_set_int64_ok; assumption | apply b_set_uint64_ok; assumption | apply b_set_dec_ok | apply b_set_math_ok
                      | apply b_set_ok; apply breg_good; assumption | apply b_abs_ok; apply breg_good; assumption
                      | apply b_neg_ok; apply breg_good; assumption
                      | apply b_add_ok; apply breg_good; assumption | apply b_sub_ok; apply breg_good; assumption
                      | apply b_mul_ok; apply breg_good; assumption | apply b_lsh_ok | apply b_rsh_ok | apply b_sqrt_ok ]);
             destruct H as [Hv Hi]; split; [rewrite map_set_nth, Hv; reflexivity|apply all_good_set; assumption]
         end).
  - (* Quo *)
    pose proof (b_quo_ok (breg rs d) (breg rs a) (breg rs b) r (breg_good rs a Hg) (breg_good rs b Hg)) as H.
    destruct (b_quo (breg rs d) (breg rs a) (breg rs b) r) as [q|].
    + destruct H as [[Hv Hi] Hnz]. destruct (Z.eqb_spec (bval (breg rs b)) 0); [contradiction|].
      split; [rewrite map_set_nth, Hv; reflexivity|apply all_good_set; assumption].
    + rewrite H. reflexivity.
  - (* Rem *)
    pose proof (b_rem_ok (breg rs d) (breg rs a) (breg rs b) r (breg_good rs a Hg) (breg_good rs b Hg)) as H.
    destruct (b_rem (breg rs d) (breg rs a) (breg rs b) r) as [q|].
    + destruct H as [[Hv Hi] Hnz]. destruct (Z.eqb_spec (bval (breg rs b)) 0); [contradiction|].
      split; [rewrite map_set_nth, Hv; reflexivity|apply all_good_set; assumption].
    + rewrite H. reflexivity.
  - (* QuoRem *)
    pose proof (b_quorem_ok (breg rs d) (breg rs m) (breg rs a) (breg rs b) r r' (breg_good rs a Hg) (breg_good rs b Hg)) as H.
    destruct (b_quorem (breg rs d) (breg rs m) (breg rs a) (breg rs b) r r') as [[q mm]|].
    + destruct H as ([Hv Hi] & [Hv' Hi'] & Hnz). destruct (Z.eqb_spec (bval (breg rs b)) 0); [contradiction|].
      split; [rewrite !map_set_nth, Hv, Hv'; reflexivity|apply all_good_set; [apply all_good_set|]; assumption].
    + rewrite H. reflexivity.
Qed.

(* a whole program: oracle bits supplied per step *)
Theorem brun_refines p : forall rs, all_good rs -> Forall (fun s => step_wf (fst (fst s))) p ->
  match brun rs p, zrun (map bval rs) p with
  | Some rs', Some zs' => map bval rs' = zs' /\ all_good rs'
  | None, None => True
  | _, _ => False
  end.
Proof.
  induction p as [|[[s r] r'] t IH]; intros rs Hg Hwf; cbn [brun zrun].
  - split; [reflexivity|assumption].
  - inversion Hwf as [|? ? Hs Ht]; subst. cbn [fst] in Hs.
    pose proof (bstep_refines rs s r r' Hg Hs) as H.
    destruct (bstep_run rs s r r') as [rs'|], (zstep_run (map bval rs) s) as [zs'|]; try contradiction; [|exact I].
    destruct H as [Hv Hg']. rewrite <- Hv. apply IH; assumption.
Qed.
