(* C14: the parser accepts exactly the numeric-string grammar.  The model of setString (prefix / index /
   slice surgery on the lower-cased string) and the left-to-right recogniser of Spec/Grammar.v agree on EVERY
   byte string - acceptance and value - the only difference being that the written exponent must fit an
   int32 (strconv.ParseInt(.., 10, 32)), which the package limits imply for any string shorter than 2^30 bytes. *)
From Coq Require Import ZArith Lia Bool List.
From Apd Require Import Generated.Consts Model.Base Model.NumDigits Model.Decimal Model.Context Model.Text Spec.Grammar
  Proofs.Digits Proofs.Core Proofs.TextProofs Proofs.RoundTrip.
Import ListNotations.
Open Scope Z_scope.

(* ---------- bytes ---------- *)
Lemma lower_is_glower s : lower_ascii s = map glower s. Proof. reflexivity. Qed.
Lemma gdigit_is_digit b : gdigit b = is_digit b. Proof. reflexivity. Qed.

Lemma glower_digit b : is_digit (glower b) = is_digit b.
Proof.
  unfold glower, is_digit. destruct (Z.leb_spec 65 b), (Z.leb_spec b 90); cbn [andb]; try reflexivity.
  destruct (Z.leb_spec 48 (b + 32)), (Z.leb_spec (b + 32) 57), (Z.leb_spec 48 b), (Z.leb_spec b 57); try lia; reflexivity.
Qed.
Lemma glower_small b c : c < 65 \/ 122 < c -> (glower b =? c) = (b =? c).
Proof.
  intros Hc. unfold glower. destruct (Z.leb_spec 65 b), (Z.leb_spec b 90); cbn [andb]; try reflexivity.
  destruct (Z.eqb_spec (b + 32) c), (Z.eqb_spec b c); try lia; try reflexivity.
  all: destruct Hc; lia.
Qed.
Lemma all_digits_lower s : all_digits (lower_ascii s) = all_digits s.
Proof. induction s as [|b s IH]; [reflexivity|]. cbn [lower_ascii map all_digits]. fold (glower b). fold (lower_ascii s). rewrite glower_digit, IH. reflexivity. Qed.
Lemma all_digits_In s x : all_digits s = true -> In x s -> is_digit x = true.
Proof. induction s as [|b s IH]; cbn [all_digits In]; [tauto|]. intros H [->|Hx]; apply andb_prop in H; destruct H; auto. Qed.
Lemma is_digits_In s x : In x s -> is_digit x = false -> is_digits s = false.
Proof.
  intros Hin Hx. unfold is_digits. destruct s as [|b s']; [reflexivity|].
  destruct (all_digits (b :: s')) eqn:E; [|reflexivity]. rewrite (all_digits_In _ x E Hin) in Hx. discriminate.
Qed.

Lemma dv_nonneg ds : forall acc, all_digits ds = true -> 0 <= acc -> 0 <= dv ds acc.
Proof.
  induction ds as [|b ds IH]; intros acc Hd Ha; [exact Ha|]. cbn [all_digits] in Hd. apply andb_prop in Hd. destruct Hd as [Hb Hd].
  apply digit_range in Hb. unfold dv. cbn [fold_left]. apply (IH _ Hd). lia.
Qed.

(* ---------- span_digits ---------- *)
Lemma span_spec s : forall acc n, exists ds rest,
  s = ds ++ rest /\ all_digits ds = true /\ (rest = [] \/ exists b t, rest = b :: t /\ is_digit b = false) /\
  span_digits s acc n = (dv ds acc, n + Z.of_nat (length ds), rest).
Proof.
  induction s as [|b s IH]; intros acc n.
  - exists [], []. cbn. repeat split; auto. f_equal. f_equal. lia.
  - cbn [span_digits]. rewrite gdigit_is_digit. destruct (is_digit b) eqn:Hb.
    + destruct (IH (acc * 10 + (b - 48)) (n + 1)) as (ds & rest & -> & Hd & Hr & Hs).
      exists (b :: ds), rest. split; [reflexivity|]. split; [cbn [all_digits]; rewrite Hb, Hd; reflexivity|]. split; [exact Hr|].
      rewrite Hs. cbn [length]. f_equal. f_equal. rewrite Nat2Z.inj_succ. lia.
    + exists [], (b :: s). split; [reflexivity|]. split; [reflexivity|]. split; [right; exists b, s; auto|].
      cbn. f_equal. f_equal. lia.
Qed.

(* ---------- index_byte ---------- *)
Lemma idx_app_l a b c j : index_byte a c = Some j -> index_byte (a ++ b) c = Some j /\ (j < length a)%nat.
Proof.
  revert j. induction a as [|x a IH]; intros j; cbn [index_byte app length]; [discriminate|].
  destruct (x =? c); [intros [= <-]; split; [reflexivity|lia]|].
  destruct (index_byte a c) as [k|]; [|discriminate]. cbn [option_map]. intros [= <-].
  destruct (IH k eq_refl) as [-> Hk]. split; [reflexivity|lia].
Qed.
Lemma idx_app_r a b c : index_byte a c = None ->
  index_byte (a ++ b) c = option_map (fun k => (length a + k)%nat) (index_byte b c).
Proof.
  induction a as [|x a IH]; cbn [index_byte app length]; intros H.
  - destruct (index_byte b c); reflexivity.
  - destruct (x =? c); [discriminate|]. destruct (index_byte a c); [discriminate|]. rewrite (IH eq_refl).
    destruct (index_byte b c); reflexivity.
Qed.
Lemma idx_cons_ne x b c : (x =? c) = false -> index_byte (x :: b) c = option_map S (index_byte b c).
Proof. intros H. cbn [index_byte]. rewrite H. reflexivity. Qed.
Lemma idx_none_notin s c : index_byte s c = None -> ~ In c s.
Proof.
  induction s as [|x s IH]; cbn [index_byte In]; [tauto|]. destruct (Z.eqb_spec x c); [discriminate|].
  destruct (index_byte s c); [discriminate|]. intros _ [H|H]; [contradiction|exact (IH eq_refl H)].
Qed.

(* ---------- a byte that is neither a digit, nor the first point, nor 'e' kills the number ---------- *)
Lemma parse_num_bad ng pre x post :
  index_byte pre ch_e = None -> (x =? ch_e) = false -> is_digit x = false ->
  ((x =? ch_dot) = false \/ index_byte pre ch_dot <> None) ->
  parse_num ng (pre ++ x :: post) = None.
Proof.
  intros Hpe Hxe Hxd Hdot. unfold parse_num.
  (* the mantissa is pre ++ x :: post' in every case *)
  assert (Hm : forall (e : Z) (post' : str),
    (let '(e2, m2) := match index_byte (pre ++ x :: post') ch_dot with
                      | Some i => (e - (Z.of_nat (length (pre ++ x :: post')) - Z.of_nat i - 1),
                                   firstn i (pre ++ x :: post') ++ skipn (S i) (pre ++ x :: post'))
                      | None => (e, pre ++ x :: post') end in
     if negb (is_digits m2) then None else Some (mkDec Finite ng e2 (digits_val m2))) = None).
  { intros e post'.
    assert (Hin : forall m2 : str, In x m2 -> (if negb (is_digits m2) then None else Some (mkDec Finite ng e (digits_val m2))) = None).
    { intros m2 H. rewrite (is_digits_In m2 x H Hxd). reflexivity. }
    destruct (index_byte pre ch_dot) as [j|] eqn:Hpd.
    - destruct (idx_app_l pre (x :: post') ch_dot j Hpd) as [-> Hj].
      rewrite (is_digits_In _ x); [reflexivity| |exact Hxd].
      apply in_or_app. right. rewrite skipn_app. apply in_or_app. right.
      replace (S j - length pre)%nat with O by lia. left. reflexivity.
    - destruct Hdot as [Hxdot|Hc]; [|contradiction].
      rewrite (idx_app_r pre (x :: post') ch_dot Hpd), (idx_cons_ne x post' ch_dot Hxdot).
      destruct (index_byte post' ch_dot) as [k|]; cbn [option_map].
      + rewrite (is_digits_In _ x); [reflexivity| |exact Hxd].
        apply in_or_app. left. replace (length pre + S k)%nat with (length pre + S k)%nat by reflexivity.
        rewrite firstn_app_2. apply in_or_app. right. left. reflexivity.
      + rewrite (is_digits_In _ x); [reflexivity| |exact Hxd]. apply in_or_app. right. left. reflexivity. }
  rewrite (idx_app_r pre (x :: post) ch_e Hpe), (idx_cons_ne x post ch_e Hxe).
  destruct (index_byte post ch_e) as [k|]; cbn [option_map].
  - destruct (parse_int32 _) as [e|]; [|reflexivity].
    replace (length pre + S k)%nat with (length pre + S k)%nat by reflexivity.
    rewrite firstn_app_2. cbn [firstn]. apply Hm.
  - apply Hm.
Qed.

(* ---------- a digit string, seen by both sides ---------- *)
Lemma digits_body u : forall v n rest, span_digits u 0 0 = (v, n, rest) ->
  is_digits (lower_ascii u) = match rest with [] => n >? 0 | _ => false end /\
  (rest = [] -> digits_val (lower_ascii u) = v /\ all_digits u = true /\ n = Z.of_nat (length u)).
Proof.
  intros v n rest Hs. destruct (span_spec u 0 0) as (ds & rest' & Hu & Hd & Hr & Hs'). rewrite Hs in Hs'.
  injection Hs' as Hv Hn Hrest. subst rest'.
  destruct Hr as [->|(b & t & -> & Hb)].
  - rewrite app_nil_r in Hu. subst u. rewrite (lower_ascii_digits ds Hd). split.
    + unfold is_digits. destruct ds; cbn [length] in Hn; subst n; [reflexivity|].
      rewrite Hd. symmetry. apply Z.gtb_lt. lia.
    + intros _. rewrite digits_val_dv. repeat split; [congruence|assumption|lia].
  - split; [|discriminate]. apply (is_digits_In _ (glower b)); [|rewrite glower_digit; exact Hb].
    rewrite Hu, lower_ascii_app. apply in_or_app. right. left. reflexivity.
Qed.

(* ---------- the exponent part ---------- *)
Definition int32b (e : Z) : bool := (- 2 ^ 31 <=? e) && (e <? 2 ^ 31).
Definition gexp32 (r : list Z) : option Z :=
  match gexp r with Some e => if int32b e then Some e else None | None => None end.

Lemma gexp32_spec r :
  gexp32 r = match r with [] => Some 0 | b :: t => if glower b =? 101 then parse_int32 (lower_ascii t) else None end.
Proof.
  unfold gexp32. destruct r as [|b t]; [reflexivity|]. cbn [gexp].
  destruct (glower b =? 101); [|reflexivity].
  unfold parse_int32.
  assert (Hsign : (match lower_ascii t with
                   | b0 :: t0 => if b0 =? ch_minus then (t0, true) else if b0 =? ch_plus then (t0, false) else (lower_ascii t, false)
                   | [] => (lower_ascii t, false) end) = (lower_ascii (snd (strip_sign t)), fst (strip_sign t))).
  { destruct t as [|c t']; [reflexivity|]. cbn [lower_ascii map strip_sign]. fold (glower c). fold (lower_ascii t').
    unfold ch_minus, ch_plus. rewrite !glower_small by lia.
    destruct (c =? 45); [reflexivity|]. destruct (c =? 43); reflexivity. }
  rewrite Hsign. destruct (strip_sign t) as [ng t'] eqn:Est. cbn [fst snd].
  destruct (span_digits t' 0 0) as [[v n] rest] eqn:Esp.
  destruct (digits_body t' v n rest Esp) as [Hd Hv]. rewrite Hd.
  destruct rest as [|c rest']; [|reflexivity].
  destruct (Hv eq_refl) as (Hval & _ & _). rewrite Hval.
  destruct (n >? 0); [|reflexivity]. cbn [negb]. unfold int32b. reflexivity.
Qed.

(* ---------- the decimal-part [exponent-part] alternative ---------- *)
Definition graw (g : option gvalue) : option dec :=
  match g with
  | Some (GInf ng) => Some (mkDec Infinite ng 0 0)
  | Some (GNaN ng sg) => Some (mkDec (if sg then NaNSignaling else NaN) ng 0 0)
  | Some (GNum ng c e) => Some (mkDec Finite ng e c)
  | None => None
  end.

Lemma idx_digits_none ds c : all_digits ds = true -> is_digit c = false -> index_byte ds c = None.
Proof. exact (index_none_digits ds c). Qed.

Lemma num_equiv ng t : parse_num ng (lower_ascii t) = graw (gnum gexp32 ng t).
Proof.
  unfold gnum. destruct (span_spec t 0 0) as (ds1 & r1 & Ht & Hd1 & Hr1 & Hs1). rewrite Hs1.
  set (n1 := 0 + Z.of_nat (length ds1)). set (v1 := dv ds1 0).
  assert (Hn1 : (n1 >? 0) = is_digits ds1).
  { unfold n1, is_digits. destruct ds1; cbn [length]; [reflexivity|]. rewrite Hd1. apply Z.gtb_lt. lia. }
  assert (He1 : index_byte ds1 ch_e = None) by (apply idx_digits_none; [assumption|reflexivity]).
  assert (Hp1 : index_byte ds1 ch_dot = None) by (apply idx_digits_none; [assumption|reflexivity]).
  destruct Hr1 as [->|(b & t1 & -> & Hb)].
  - (* digits only *)
    rewrite app_nil_r in Ht. subst t. rewrite (lower_ascii_digits ds1 Hd1). cbv zeta.
    rewrite gexp32_spec. unfold parse_num. rewrite He1, Hp1, Hn1. destruct (is_digits ds1); reflexivity.
  - subst t. rewrite lower_ascii_app, (lower_ascii_digits ds1 Hd1). cbn [lower_ascii map]. fold (glower b). fold (lower_ascii t1).
    cbv zeta. destruct (Z.eqb_spec b 46) as [->|Hb46].
    + (* a point follows the leading digits *)
      change (glower 46) with ch_dot.
      destruct (span_spec t1 v1 0) as (ds2 & r3 & Ht1 & Hd2 & Hr3 & Hs2). rewrite Hs2.
      set (n2 := 0 + Z.of_nat (length ds2)).
      assert (He2 : index_byte ds2 ch_e = None) by (apply idx_digits_none; [assumption|reflexivity]).
      assert (Hn12 : (n1 + n2 >? 0) = is_digits (ds1 ++ ds2)).
      { unfold n1, n2, is_digits. destruct (ds1 ++ ds2) eqn:E.
        - apply app_eq_nil in E. destruct E as [-> ->]. reflexivity.
        - rewrite <- E, all_digits_app, Hd1, Hd2. cbn [andb]. apply Z.gtb_lt.
          assert (length (ds1 ++ ds2) <> O) by (rewrite E; discriminate). rewrite app_length in H. lia. }
      assert (Hpre_e : index_byte (ds1 ++ ch_dot :: ds2) ch_e = None).
      { rewrite (idx_app_r _ _ _ He1), (idx_cons_ne ch_dot ds2 ch_e eq_refl), He2. reflexivity. }
      assert (Hpre_dot : index_byte (ds1 ++ ch_dot :: ds2) ch_dot = Some (length ds1)) by (apply index_app_hit; assumption).
      assert (Hval : digits_val (ds1 ++ ds2) = dv ds2 v1) by (rewrite digits_val_dv, dv_app; reflexivity).
      subst t1. rewrite lower_ascii_app, (lower_ascii_digits ds2 Hd2).
      destruct Hr3 as [->|(c & t3 & -> & Hc)].
      * (* ddd.ddd and nothing else *)
        cbn [lower_ascii map]. rewrite app_nil_r. rewrite gexp32_spec. unfold parse_num.
        rewrite Hpre_e, Hpre_dot, firstn_len_app, skipn_len_app, Hn12.
        destruct (is_digits (ds1 ++ ds2)); [|reflexivity]. cbn [negb graw]. f_equal. f_equal; [|exact Hval].
        rewrite app_length. cbn [length]. unfold n2. lia.
      * cbn [lower_ascii map]. fold (glower c). fold (lower_ascii t3). rewrite gexp32_spec.
        destruct (glower c =? 101) eqn:Hce.
        -- (* exponent part *)
           apply Z.eqb_eq in Hce. rewrite Hce.
           change (ds1 ++ ch_dot :: ds2 ++ 101 :: lower_ascii t3) with (ds1 ++ (ch_dot :: ds2) ++ ch_e :: lower_ascii t3).
           rewrite app_assoc. unfold parse_num.
           rewrite (index_app_hit (ds1 ++ ch_dot :: ds2) ch_e (lower_ascii t3) Hpre_e).
           rewrite skipn_len_app, firstn_len_app.
           destruct (parse_int32 (lower_ascii t3)) as [e|]; [|destruct (n1 + n2 >? 0); reflexivity].
           rewrite Hpre_dot, firstn_len_app, skipn_len_app, Hn12.
           destruct (is_digits (ds1 ++ ds2)); [|reflexivity]. cbn [negb graw]. f_equal. f_equal; [|exact Hval].
           rewrite app_length. cbn [length]. unfold n2. lia.
        -- (* anything else after the fraction: both reject *)
           replace (graw (if n1 + n2 >? 0 then None else None)) with (@None dec) by (destruct (n1 + n2 >? 0); reflexivity).
           change (ds1 ++ ch_dot :: ds2 ++ glower c :: lower_ascii t3) with (ds1 ++ (ch_dot :: ds2) ++ glower c :: lower_ascii t3).
           rewrite app_assoc. apply parse_num_bad; [exact Hpre_e|exact Hce|rewrite glower_digit; exact Hc|].
           right. rewrite Hpre_dot. discriminate.
    + (* the byte after the leading digits is not a point *)
      rewrite gexp32_spec. destruct (glower b =? 101) eqn:Hbe.
      * apply Z.eqb_eq in Hbe. rewrite Hbe. unfold parse_num. change 101 with ch_e.
        rewrite (index_app_hit ds1 ch_e (lower_ascii t1) He1), skipn_len_app, firstn_len_app.
        destruct (parse_int32 (lower_ascii t1)) as [e|]; [|destruct (n1 >? 0); reflexivity].
        rewrite Hp1, Hn1. destruct (is_digits ds1); reflexivity.
      * replace (graw (if n1 >? 0 then None else None)) with (@None dec) by (destruct (n1 >? 0); reflexivity).
        apply parse_num_bad; [exact He1|exact Hbe|rewrite glower_digit; exact Hb|].
        left. unfold ch_dot. rewrite glower_small by lia. apply Z.eqb_neq. exact Hb46.
Qed.

(* ---------- literals, sign ---------- *)
Lemma lit_nil lit : forall t, (match lit_eqb t lit with Some [] => true | _ => false end) = str_eqb (lower_ascii t) lit.
Proof.
  induction lit as [|a lit IH]; intros [|b t]; cbn [lit_eqb lower_ascii map str_eqb]; try reflexivity.
  fold (glower b). fold (lower_ascii t). destruct (glower b =? a); [apply IH|reflexivity].
Qed.
Lemma lit_spec lit : forall t, lit_eqb t lit = if has_prefix (lower_ascii t) lit then Some (skipn (length lit) t) else None.
Proof.
  induction lit as [|a lit IH]; intros t; [destruct t; reflexivity|]. destruct t as [|b t]; [reflexivity|].
  cbn [lit_eqb lower_ascii map has_prefix length skipn]. fold (glower b). fold (lower_ascii t).
  rewrite (Z.eqb_sym a). destruct (glower b =? a); [apply IH|reflexivity].
Qed.
Lemma match_nil {A} (X : option (list Z)) (a b : A) :
  match X with Some [] => a | _ => b end = if (match X with Some [] => true | _ => false end) then a else b.
Proof. destruct X as [[|? ?]|]; reflexivity. Qed.

Lemma has_prefix_nil t : has_prefix t [] = true. Proof. destruct t; reflexivity. Qed.
Lemma has_prefix_1 b t a : has_prefix (b :: t) [a] = (a =? b).
Proof. cbn [has_prefix]. rewrite has_prefix_nil. apply andb_true_r. Qed.

Lemma sign_equiv s0 :
  (let '(s1, ng) := consume_prefix s0 [ch_minus] in (ng, if ng then s1 else fst (consume_prefix s1 [ch_plus]))) = strip_sign s0.
Proof.
  destruct s0 as [|b t]; [reflexivity|]. unfold consume_prefix, strip_sign. rewrite has_prefix_1. cbn [length skipn].
  unfold ch_minus, ch_plus. rewrite (Z.eqb_sym 45 b). destruct (b =? 45); [reflexivity|].
  rewrite has_prefix_1. rewrite (Z.eqb_sym 43 b). destruct (b =? 43); reflexivity.
Qed.

Lemma skipn_lower k t : skipn k (lower_ascii t) = lower_ascii (skipn k t).
Proof. unfold lower_ascii. apply skipn_map. Qed.

(* the payload of a NaN: nothing, or digits *)
Lemma nan_tail r (F : form) ng (sg : bool) : F = (if sg then NaNSignaling else NaN) ->
  (match lower_ascii r with
   | [] => Some (mkDec F ng 0 0)
   | _ => if is_digits (lower_ascii r) then Some (mkDec F ng 0 0) else None
   end) = graw (let '(_, _, rest) := span_digits r 0 0 in match rest with [] => Some (GNaN ng sg) | _ => None end).
Proof.
  intros ->. destruct (span_digits r 0 0) as [[v n] rest] eqn:Es. destruct (digits_body r v n rest Es) as [Hd Hv].
  destruct rest as [|c rest'].
  - destruct (Hv eq_refl) as (_ & Ha & Hn). destruct r as [|b r']; [reflexivity|].
    cbn [lower_ascii map]. fold (glower b). fold (lower_ascii r').
    change (glower b :: lower_ascii r') with (lower_ascii (b :: r')). rewrite Hd.
    replace (n >? 0) with true by (symmetry; apply Z.gtb_lt; cbn [length] in Hn; lia). reflexivity.
  - destruct r as [|b r']; [discriminate|]. cbn [lower_ascii map]. fold (glower b). fold (lower_ascii r').
    change (glower b :: lower_ascii r') with (lower_ascii (b :: r')). rewrite Hd. reflexivity.
Qed.

(* ---------- the parser is the grammar (with the written exponent an int32) ---------- *)
Theorem parse_equiv s0 : set_string_raw s0 = graw (gparse_with gexp32 s0).
Proof.
  unfold set_string_raw, gparse_with. pose proof (sign_equiv s0) as Hs.
  destruct (consume_prefix s0 [ch_minus]) as [s1 ng0]. destruct (strip_sign s0) as [ng t]. injection Hs as -> ->.
  set (s := lower_ascii t).
  (* a second sign *)
  destruct (has_prefix s [ch_minus] || has_prefix s [ch_plus]) eqn:Hsg.
  { assert (Hb : exists b t', t = b :: t' /\ (b = 45 \/ b = 43)).
    { unfold s in Hsg. destruct t as [|b t']; [discriminate|]. exists b, t'. split; [reflexivity|].
      cbn [lower_ascii map] in Hsg. rewrite !has_prefix_1 in Hsg. fold (glower b) in Hsg. unfold ch_minus, ch_plus in Hsg.
      rewrite (Z.eqb_sym 45), (Z.eqb_sym 43), !glower_small in Hsg by lia.
      destruct (Z.eqb_spec b 45); [left; assumption|]. destruct (Z.eqb_spec b 43); [right; assumption|]. discriminate. }
    destruct Hb as (b & t' & -> & Hb).
    assert (Hg : glower b = b) by (destruct Hb as [-> | ->]; reflexivity).
    assert (Hl : forall a lit, a <> b -> lit_eqb (b :: t') (a :: lit) = None).
    { intros a lit Ha. cbn [lit_eqb]. rewrite Hg. destruct (Z.eqb_spec b a); [congruence|reflexivity]. }
    rewrite !Hl by (destruct Hb as [-> | ->]; discriminate).
    rewrite <- num_equiv. cbn [lower_ascii map]. fold (glower b). rewrite Hg. symmetry.
    apply (parse_num_bad ng [] b); [reflexivity| | |left]; destruct Hb as [-> | ->]; reflexivity. }
  (* Infinity *)
  rewrite (match_nil (lit_eqb t [105; 110; 102; 105; 110; 105; 116; 121])), lit_nil. fold s. change [105; 110; 102; 105; 110; 105; 116; 121] with s_infinity.
  destruct (str_eqb s s_infinity); [reflexivity|]. cbn [orb].
  rewrite (match_nil (lit_eqb t [105; 110; 102])), lit_nil. fold s. change [105; 110; 102] with s_inf.
  destruct (str_eqb s s_inf); [reflexivity|].
  (* NaN, sNaN *)
  rewrite !lit_spec. fold s. change [115; 110; 97; 110] with s_snan. change [110; 97; 110] with s_nan.
  unfold consume_prefix. destruct (has_prefix s s_nan) eqn:Hnan.
  - cbn [orb]. unfold s. rewrite skipn_lower. apply (nan_tail _ NaN ng false eq_refl).
  - destruct (has_prefix s s_snan) eqn:Hsnan.
    + cbn [orb]. unfold s. rewrite skipn_lower. apply (nan_tail _ NaNSignaling ng true eq_refl).
    + cbn [orb]. rewrite <- num_equiv. reflexivity.
Qed.

(* ---------- back to the grammar without the int32 restriction ---------- *)
Definition glits (ng : bool) (s : list Z) : option (option gvalue) :=
  match lit_eqb s [105; 110; 102; 105; 110; 105; 116; 121] with Some [] => Some (Some (GInf ng)) | _ =>
  match lit_eqb s [105; 110; 102] with Some [] => Some (Some (GInf ng)) | _ =>
  match lit_eqb s [110; 97; 110] with
  | Some r => Some (let '(_, _, rest) := span_digits r 0 0 in match rest with [] => Some (GNaN ng false) | _ => None end)
  | None =>
  match lit_eqb s [115; 110; 97; 110] with
  | Some r => Some (let '(_, _, rest) := span_digits r 0 0 in match rest with [] => Some (GNaN ng true) | _ => None end)
  | None => None
  end end end end.

Lemma gparse_with_lits gx s0 :
  gparse_with gx s0 = match glits (fst (strip_sign s0)) (snd (strip_sign s0)) with
                      | Some r => r
                      | None => gnum gx (fst (strip_sign s0)) (snd (strip_sign s0))
                      end.
Proof.
  unfold gparse_with, glits. destruct (strip_sign s0) as [ng t]. cbn [fst snd].
  destruct (lit_eqb t [105; 110; 102; 105; 110; 105; 116; 121]) as [[|? ?]|]; try reflexivity;
  destruct (lit_eqb t [105; 110; 102]) as [[|? ?]|]; try reflexivity;
  destruct (lit_eqb t [110; 97; 110]) as [?|]; try reflexivity;
  destruct (lit_eqb t [115; 110; 97; 110]) as [?|]; reflexivity.
Qed.

Lemma strip_sign_length s0 : (length (snd (strip_sign s0)) <= length s0)%nat.
Proof. destruct s0 as [|b t]; [cbn; lia|]. unfold strip_sign. destruct (b =? 45); [cbn; lia|]. destruct (b =? 43); cbn; lia. Qed.

(* a number: the result is (written exponent - fraction digits), the written exponent recognised by gx on a
   suffix; any other recogniser of that exponent gives the same parse *)
Lemma gnum_inv gx ng s g : gnum gx ng s = Some g ->
  exists r w n2 c, gx r = Some w /\ 0 <= n2 <= Z.of_nat (length s) /\ g = GNum ng c (w - n2) /\ 0 <= c /\
    forall gx', gx' r = Some w -> gnum gx' ng s = Some g.
Proof.
  unfold gnum. destruct (span_spec s 0 0) as (ds1 & r1 & Hs & Hd1 & _ & ->). cbv zeta.
  pose proof (dv_nonneg ds1 0 Hd1 ltac:(lia)) as Hv1.
  assert (Hnp : forall r1',
    (if 0 + Z.of_nat (length ds1) >? 0 then match gx r1' with Some e => Some (GNum ng (dv ds1 0) e) | None => None end else None) = Some g ->
    exists r w n2 c, gx r = Some w /\ 0 <= n2 <= Z.of_nat (length s) /\ g = GNum ng c (w - n2) /\ 0 <= c /\
      forall gx', gx' r = Some w ->
        (if 0 + Z.of_nat (length ds1) >? 0 then match gx' r1' with Some e => Some (GNum ng (dv ds1 0) e) | None => None end else None) = Some g).
  { intros r1' H. destruct (0 + Z.of_nat (length ds1) >? 0); [|discriminate].
    destruct (gx r1') as [e|] eqn:Ee; [|discriminate]. injection H as <-.
    exists r1', e, 0, (dv ds1 0). split; [exact Ee|]. split; [lia|]. split; [f_equal; lia|]. split; [exact Hv1|]. intros gx' H'. rewrite H'. reflexivity. }
  destruct r1 as [|b r2]; [apply Hnp|]. destruct (b =? 46); [|apply Hnp].
  destruct (span_spec r2 (dv ds1 0) 0) as (ds2 & r3 & Hr2 & Hd2 & _ & ->).
  intros H. destruct (0 + Z.of_nat (length ds1) + (0 + Z.of_nat (length ds2)) >? 0); [|discriminate].
  destruct (gx r3) as [e|] eqn:Ee; [|discriminate]. injection H as <-.
  exists r3, e, (0 + Z.of_nat (length ds2)), (dv ds2 (dv ds1 0)). split; [exact Ee|]. split.
  - subst s r2. rewrite !app_length. cbn [length]. rewrite !app_length. lia.
  - split; [reflexivity|]. split; [apply dv_nonneg; assumption|]. intros gx' H'. rewrite H'. reflexivity.
Qed.

Lemma gparse_inv gx s0 g : gparse_with gx s0 = Some g ->
  (forall gx', gparse_with gx' s0 = Some g) \/
  exists r w n2 c ng, gx r = Some w /\ 0 <= n2 <= Z.of_nat (length s0) /\ g = GNum ng c (w - n2) /\ 0 <= c /\
    forall gx', gx' r = Some w -> gparse_with gx' s0 = Some g.
Proof.
  rewrite gparse_with_lits. destruct (glits _ _) as [res|] eqn:El.
  - intros ->. left. intros gx'. rewrite gparse_with_lits, El. reflexivity.
  - intros H. right. destruct (gnum_inv _ _ _ _ H) as (r & w & n2 & c & Hw & Hn & Hg & Hc & Ht).
    exists r, w, n2, c, (fst (strip_sign s0)). split; [exact Hw|]. split.
    + pose proof (strip_sign_length s0). lia.
    + split; [exact Hg|]. split; [exact Hc|]. intros gx' H'. rewrite gparse_with_lits, El. apply Ht. exact H'.
Qed.

Lemma gexp32_some r w : gexp32 r = Some w -> gexp r = Some w /\ int32b w = true.
Proof. unfold gexp32. destruct (gexp r) as [e|]; [|discriminate]. destruct (int32b e) eqn:E; [|discriminate]. intros [= <-]. auto. Qed.

(* everything the parser accepts is a numeric string of the grammar, with the grammar's value *)
Theorem parser_sound s d : set_string_raw s = Some d -> graw (gparse s) = Some d.
Proof.
  rewrite parse_equiv. destruct (gparse_with gexp32 s) as [g|] eqn:Eg; [|discriminate]. intros H.
  unfold gparse. destruct (gparse_inv _ _ _ Eg) as [Hall|(r & w & n2 & c & ng & Hw & _ & _ & _ & Ht)].
  - rewrite Hall. exact H.
  - rewrite (Ht gexp (proj1 (gexp32_some r w Hw))). exact H.
Qed.

(* every numeric string of the grammar is accepted with the grammar's value: special values always, numbers
   whenever the written exponent fits an int32 - implied, for a string shorter than 2^30 bytes, by an
   exponent inside (-2^30, 2^30), hence by the package limits *)
Theorem parser_complete s g : gparse s = Some g ->
  Z.of_nat (length s) < 2 ^ 30 -> (forall ng c e, g = GNum ng c e -> - 2 ^ 30 < e < 2 ^ 30) ->
  set_string_raw s = graw (Some g).
Proof.
  intros Hg Hlen Hlim. rewrite parse_equiv. unfold gparse in Hg.
  destruct (gparse_inv _ _ _ Hg) as [Hall|(r & w & n2 & c & ng & Hw & Hn & Hgv & _ & Ht)].
  - rewrite Hall. reflexivity.
  - rewrite (Ht gexp32); [reflexivity|]. unfold gexp32. rewrite Hw.
    specialize (Hlim ng c (w - n2) Hgv). unfold int32b. change (2 ^ 31) with (2 * 2 ^ 30).
    destruct (Z.leb_spec (- (2 * 2 ^ 30)) w); [|lia]. destruct (Z.ltb_spec w (2 * 2 ^ 30)); [|lia]. reflexivity.
Qed.

(* rejection: a string outside the grammar is rejected *)
Theorem parser_rejects s : gparse s = None -> set_string_raw s = None.
Proof.
  intros Hg. destruct (set_string_raw s) as [d|] eqn:E; [|reflexivity].
  pose proof (parser_sound s d E) as H. rewrite Hg in H. discriminate.
Qed.

(* the parsed value is well formed: a valid form and a non-negative coefficient *)
Lemma glits_shape ng t res : glits ng t = Some res ->
  res = None \/ res = Some (GInf ng) \/ exists sg, res = Some (GNaN ng sg).
Proof.
  unfold glits.
  assert (Hn : forall r (sg : bool), (let '(_, _, rest) := span_digits r 0 0 in match rest with [] => Some (GNaN ng sg) | _ => None end) = None \/
                           (let '(_, _, rest) := span_digits r 0 0 in match rest with [] => Some (GNaN ng sg) | _ => None end) = Some (GNaN ng sg)).
  { intros r sg. destruct (span_digits r 0 0) as [[? ?] [|? ?]]; auto. }
  assert (Htail : match lit_eqb t [105; 110; 102] with
                  | Some [] => Some (Some (GInf ng))
                  | _ => match lit_eqb t [110; 97; 110] with
                         | Some r => Some (let '(_, _, rest) := span_digits r 0 0 in match rest with [] => Some (GNaN ng false) | _ => None end)
                         | None => match lit_eqb t [115; 110; 97; 110] with
                                   | Some r => Some (let '(_, _, rest) := span_digits r 0 0 in match rest with [] => Some (GNaN ng true) | _ => None end)
                                   | None => None end end end = Some res ->
                  res = None \/ res = Some (GInf ng) \/ exists sg, res = Some (GNaN ng sg)).
  { assert (Htail2 : match lit_eqb t [110; 97; 110] with
                         | Some r => Some (let '(_, _, rest) := span_digits r 0 0 in match rest with [] => Some (GNaN ng false) | _ => None end)
                         | None => match lit_eqb t [115; 110; 97; 110] with
                                   | Some r => Some (let '(_, _, rest) := span_digits r 0 0 in match rest with [] => Some (GNaN ng true) | _ => None end)
                                   | None => None end end = Some res ->
                  res = None \/ res = Some (GInf ng) \/ exists sg, res = Some (GNaN ng sg)).
    { destruct (lit_eqb t [110; 97; 110]) as [r|].
      - intros [= <-]. destruct (Hn r false) as [-> | ->]; eauto.
      - destruct (lit_eqb t [115; 110; 97; 110]) as [r|]; [|discriminate].
        intros [= <-]. destruct (Hn r true) as [-> | ->]; eauto. }
    destruct (lit_eqb t [105; 110; 102]) as [[|? ?]|]; [intros [= <-]; auto|exact Htail2|exact Htail2]. }
  destruct (lit_eqb t [105; 110; 102; 105; 110; 105; 116; 121]) as [[|? ?]|]; [intros [= <-]; auto|exact Htail|exact Htail].
Qed.

Theorem parsed_well_formed s d : set_string_raw s = Some d ->
  0 <= coeff d /\ (form_of d <> Finite -> coeff d = 0 /\ exp d = 0).
Proof.
  rewrite parse_equiv. destruct (gparse_with gexp32 s) as [g|] eqn:Eg; [|discriminate].
  rewrite gparse_with_lits in Eg. destruct (glits _ _) as [res|] eqn:El.
  - subst res. destruct (glits_shape _ _ _ El) as [H|[H|[sg H]]]; [discriminate| |]; injection H as ->;
      cbn [graw]; intros [= <-]; cbn [coeff form_of exp]; (split; [lia|auto]).
  - destruct (gnum_inv _ _ _ _ Eg) as (r & w & n2 & c & _ & _ & -> & Hc & _). cbn [graw]. intros [= <-]. cbn [coeff form_of].
    split; [exact Hc|]. intros H. contradiction.
Qed.
