(* C01 / C02 / C07 for the operations that end in one Context.round: Round, Abs, Neg, Add, Sub, and Mul
   (normal range and overflow). *)
From Coq Require Import ZArith Lia Bool.
From Apd Require Import Generated.Consts Model.Base Model.NumDigits Model.Decimal Model.Context Spec.SpecZ Spec.Order
  Proofs.Digits Proofs.Core Proofs.CmpProofs Proofs.RoundBasics Proofs.SetExponent Proofs.RoundEq Proofs.RoundSpec.
Open Scope Z_scope.

(* the exact result E (an integer times a power of ten) is inside the package's exponent limits,
   with room for the carry of an all-nines rounding *)
Definition exact_in_limits (c : ctx) (E : exact) : Prop :=
  xden E = 1 /\ 0 <= xnum E /\ in_lim (xexp E) /\
  (xnum E <> 0 ->
     MinExponent <= xexp E + ndigits (xnum E) - 1 < MaxExponent /\ ndigits (xnum E) - prec c < MaxExponent).

(* what C01, C02 and C07 say about a result (d, f) whose exact value is E *)
Definition op_post (c : ctx) (E : exact) (d : dec) (f : cond) : Prop :=
  if xnum E =? 0
  then zero_post c (mkDec Finite (xneg E) (xexp E) 0) d f
  else agrees c d f (spec_round_nz (prec c) (emin c) (emax c) (rounding c) E).

Definition ctx_ok (c : ctx) : Prop := 1 <= prec c /\ emin c <= emax c.

Section WithEst.
Variable est : Z -> Z.
Hypothesis HE : est_in_range est.

(* Context.round applied to the exact result *)
Theorem ctx_round_exact c E : ctx_ok c -> exact_in_limits c E ->
  exists d f, ctx_round est c (mkDec Finite (xneg E) (xexp E) (xnum E)) = Ok (d, f) /\ op_post c E d f.
Proof.
  intros [Hp Hr] (Hden & Hnum & Hexp & Hnz). unfold ctx_round, op_post.
  destruct E as [ng n dn e]. cbn [xneg xnum xden xexp] in *. subst dn.
  destruct (Z.eqb_spec n 0) as [Hz|Hn].
  - rewrite Hz. apply (round_zero_correct est HE); try reflexivity; try assumption.
  - destruct (Hnz Hn) as [Hadj Hdiff].
    pose proof (round_nz_correct est HE (rounding c) c (mkDec Finite ng e n) true) as H.
    cbn [form_of coeff exp neg] in H. apply H; try reflexivity; try assumption; lia.
Qed.

Lemma finish_ok c d f : rdec (finish c d f) = Some d /\ rcond (finish c d f) = f /\ rerr (finish c d f) = ctx_go_error c f.
Proof. repeat split. Qed.

Definition finite_nn (x : dec) : Prop := form_of x = Finite /\ 0 <= coeff x.

Lemma not_nan_finite x y : form_of x = Finite -> should_set_as_nan x (Some y) = is_nan y.
Proof. intros H. unfold should_set_as_nan, is_nan. rewrite H. reflexivity. Qed.
Lemma not_nan_finite1 x : form_of x = Finite -> should_set_as_nan x None = false.
Proof. intros H. unfold should_set_as_nan, is_nan. rewrite H. reflexivity. Qed.

(* ---------- Round, Abs, Neg ---------- *)
Theorem round_op_correct c x : ctx_ok c -> finite_nn x -> exact_in_limits c (exact_of_dec x) ->
  exists d f, ctx_round_op est c x = Ok (finish c d f) /\ op_post c (exact_of_dec x) d f.
Proof.
  intros Hc [Hf Hn] HL. unfold ctx_round_op. rewrite (not_nan_finite1 x Hf).
  destruct (ctx_round_exact c (exact_of_dec x) Hc HL) as (d & f & Hr & Hpost).
  unfold exact_of_dec in Hr. cbn [xneg xexp xnum] in Hr.
  destruct x as [fx nx ex cx]. cbn [form_of neg exp coeff] in *. subst fx.
  rewrite Hr. cbn [bind]. exists d, f. split; [reflexivity|assumption].
Qed.

Definition exact_abs (x : dec) : exact := mkExact false (coeff x) 1 (exp x).
Theorem abs_correct c x : ctx_ok c -> finite_nn x -> exact_in_limits c (exact_abs x) ->
  exists d f, ctx_abs est c x = Ok (finish c d f) /\ op_post c (exact_abs x) d f.
Proof.
  intros Hc [Hf Hn] HL. unfold ctx_abs. rewrite (not_nan_finite1 x Hf).
  destruct (ctx_round_exact c (exact_abs x) Hc HL) as (d & f & Hr & Hpost).
  unfold exact_abs in Hr. cbn [xneg xexp xnum] in Hr.
  unfold dabs, set_neg. rewrite Hf. rewrite Hr. cbn [bind]. exists d, f. split; [reflexivity|assumption].
Qed.

(* minus: the sign flips, except that -(+0) and -(-0) are +0 (the model's and apd's rule) *)
Definition exact_neg (x : dec) : exact := mkExact (if coeff x =? 0 then false else negb (neg x)) (coeff x) 1 (exp x).
Theorem neg_correct c x : ctx_ok c -> finite_nn x -> exact_in_limits c (exact_neg x) ->
  exists d f, ctx_neg est c x = Ok (finish c d f) /\ op_post c (exact_neg x) d f.
Proof.
  intros Hc [Hf Hn] HL. unfold ctx_neg. rewrite (not_nan_finite1 x Hf).
  destruct (ctx_round_exact c (exact_neg x) Hc HL) as (d & f & Hr & Hpost).
  unfold exact_neg in Hr. cbn [xneg xexp xnum] in Hr.
  unfold dneg, set_neg. rewrite (is_zero_finite x Hf). rewrite Hf.
  destruct (coeff x =? 0); rewrite Hr; cbn [bind]; exists d, f; (split; [reflexivity|assumption]).
Qed.

(* ---------- upscale: exact alignment to the smaller exponent ---------- *)
Lemma upscale_spec a b : Z.abs (exp a - exp b) <= MaxExponent ->
  upscale a b = Ok (Some (coeff a * 10 ^ (exp a - Z.min (exp a) (exp b)),
                          coeff b * 10 ^ (exp b - Z.min (exp a) (exp b)), Z.min (exp a) (exp b))).
Proof.
  intros Hgap. unfold upscale.
  destruct (Z.eqb_spec (exp a) (exp b)) as [He|Hne].
  - rewrite He, Z.min_id, Z.sub_diag. simpl (10 ^ 0). rewrite !Z.mul_1_r. reflexivity.
  - destruct (Z.ltb_spec (exp a) (exp b)) as [Hl|Hl].
    + destruct (Z.gtb_spec (exp b - exp a) MaxExponent); [lia|].
      rewrite table_exp10_ok by lia. cbn [bind].
      rewrite Z.min_l by lia. rewrite Z.sub_diag. simpl (10 ^ 0). rewrite Z.mul_1_r. reflexivity.
    + destruct (Z.gtb_spec (exp a - exp b) MaxExponent); [lia|].
      rewrite table_exp10_ok by lia. cbn [bind].
      rewrite Z.min_r by lia. rewrite Z.sub_diag. simpl (10 ^ 0). rewrite Z.mul_1_r. reflexivity.
Qed.

(* ---------- Add, Sub ---------- *)
Theorem add_correct c x y sub : ctx_ok c -> finite_nn x -> finite_nn y ->
  Z.abs (exp x - exp y) <= MaxExponent ->
  let E := exact_add x y sub (rounder_eqb (rounding c) RFloor) in
  exact_in_limits c E ->
  exists d f, ctx_add est c x y sub = Ok (finish c d f) /\ op_post c E d f.
Proof.
  intros Hc [Hfx Hnx] [Hfy Hny] Hgap E HL. unfold ctx_add.
  rewrite (not_nan_finite x y Hfx). unfold is_nan. rewrite Hfy, Hfx. cbn [form_eqb orb andb].
  rewrite (upscale_spec x y Hgap). cbn [bind].
  set (e0 := Z.min (exp x) (exp y)) in *.
  set (a := coeff x * 10 ^ (exp x - e0)). set (b := coeff y * 10 ^ (exp y - e0)).
  assert (Ha : 0 <= a) by (unfold a; pose proof (pow10_pos (exp x - e0) ltac:(unfold e0; lia)); nia).
  assert (Hb : 0 <= b) by (unfold b; pose proof (pow10_pos (exp y - e0) ltac:(unfold e0; lia)); nia).
  destruct (ctx_round_exact c E Hc HL) as (d & f & Hr & Hpost).
  (* the value handed to round is the exact sum *)
  assert (Hval : (if Bool.eqb (neg x) (xorb (neg y) sub) then (neg x, a + b)
                  else let df := a - b in
                       if df <? 0 then (negb (neg x), - df)
                       else if df =? 0 then (rounder_eqb (rounding c) RFloor, df) else (neg x, df))
                 = (xneg E, xnum E) /\ xexp E = e0).
  { unfold E, exact_add. fold e0. fold a b. cbv zeta.
    destruct (neg x) eqn:Hnx', (xorb (neg y) sub) eqn:Hny'; cbn [Bool.eqb];
      repeat match goal with
      | |- context [?u =? 0] => destruct (Z.eqb_spec u 0)
      | |- context [?u <? 0] => destruct (Z.ltb_spec u 0)
      end; cbn [xneg xnum xexp]; split; try reflexivity; try (f_equal; lia); try lia. }
  destruct Hval as [Hv He].
  match goal with |- context [let '(ng, co) := ?t in _] => replace t with (xneg E, xnum E) end.
  rewrite <- He, Hr. cbn [bind]. exists d, f. split; [reflexivity|assumption].
Qed.

(* ---------- Mul: exact product inside the context's exponent range, or above it ---------- *)
Theorem mul_correct_normal c x y : ctx_ok c -> finite_nn x -> finite_nn y ->
  in_lim (exp x) -> in_lim (exp y) ->
  let E := exact_mul x y in
  exact_in_limits c E ->
  (xnum E = 0 \/ emin c <= xexp E + ndigits (xnum E) - 1 <= emax c) -> emin c <= xexp E <= emax c ->
  exists d f, ctx_mul est c x y = Ok (finish c d f) /\ op_post c E d f.
Proof.
  intros Hc [Hfx Hnx] [Hfy Hny] Hex Hey E HL Hrange Hzr. unfold ctx_mul.
  rewrite (not_nan_finite x y Hfx). unfold is_nan. rewrite Hfy, Hfx. cbn [form_eqb orb andb].
  destruct HL as (Hden & Hnum & Hexp & Hnz').
  assert (Hsum : sum_exps [exp x; exp y] 0 = inr (exp x + exp y)).
  { rewrite sum_exps_2 by assumption. f_equal. }
  unfold E, exact_mul in *. cbn [xneg xnum xexp xden] in *.
  set (co := coeff x * coeff y) in *.
  assert (Hlim : in_lim (exp x + exp y + ndigits co - 1)).
  { destruct (Z.eq_dec co 0) as [Hz|Hn]; [rewrite Hz; change (ndigits 0) with 1; unfold in_lim in *; lia|].
    destruct (Hnz' Hn). unfold in_lim. lia. }
  assert (Hn1 : emin c <= exp x + exp y + ndigits co - 1 <= emax c).
  { destruct Hrange as [Hz|Hr]; [rewrite Hz; change (ndigits 0) with 1; lia|assumption]. }
  rewrite (se_normal est HE c (mkDec Finite (xorb (neg x) (neg y)) 0 co) unknownNumDigits c0 [exp x; exp y] (exp x + exp y));
    try assumption; try reflexivity; try (left; reflexivity).
  cbn [bind]. unfold set_exp. cbn [form_of neg coeff].
  destruct (ctx_round_exact c (mkExact (xorb (neg x) (neg y)) co 1 (exp x + exp y)) Hc) as (d & f & Hr & Hpost).
  { unfold exact_in_limits. cbn [xnum xexp xden]. split; [reflexivity|]. split; [assumption|]. split; [assumption|exact Hnz']. }
  cbn [xneg xexp xnum] in Hr. rewrite Hr. cbn [bind].
  exists d, f. split; [|assumption].
  unfold uf, c0. cbn [Inexact Subnormal andb]. f_equal. unfold finish. f_equal; destruct f; reflexivity.
Qed.

End WithEst.
