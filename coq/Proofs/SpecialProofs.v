(* C08: in every special-operand cell the model returns what the GDA table (Spec/Specials.v) prescribes. *)
From Coq Require Import ZArith Lia Bool.
From Apd Require Import Generated.Consts Model.Base Model.NumDigits Model.Decimal Model.Context Spec.Specials.
Open Scope Z_scope.

(* the operation delivered a destination value and a Condition that the table accepts, and the error
   is exactly the one the Condition and the traps produce *)
Definition result_ok (c : ctx) (e : expect) (r : res result) : Prop :=
  match r with
  | Ok r => match rdec r with
            | Some d => expect_ok e d (rcond r) = true /\ rerr r = ctx_go_error c (rcond r)
            | None => False
            end
  | _ => False
  end.

Ltac ev := cbn [should_set_as_nan is_nan form_of neg exp coeff form_eqb orb andb negb xorb set_as_nan ret finish
                set_neg set_form set_exp set_coeff d_nan d_inf Bool.eqb rdec rcond rerr bind quo_specials
                to_integral_specials result_ok expect_ok kind_ok isF isI isS isQ isZ e_kind e_invalid e_divzero e_divundef
                ex_plain ex_invalid fst snd
                InvalidOperation DivisionByZero DivisionUndefined fInvalidOperation fDivisionByZero fDivisionUndefined fClamped c0
                cor ctx_go_error cond_any Z.eqb Z.ltb Z.compare Pos.compare].
Ltac zsplit v := let E := fresh "E" in destruct (Z.eqb_spec v 0) as [E|E]; [subst v | apply Z.eqb_neq in E].
Ltac fin H := cbn in H; first [ discriminate H |
  injection H as <-; ev; unfold is_zero, dsign, is_finite; ev;
  repeat match goal with E : (?v =? 0) = false |- _ => rewrite E; clear E end; ev;
  split; [unfold expect_ok, kind_ok, set_form, set_neg, isQ, isI, isZ, isF; ev; rewrite ?Z.eqb_refl; reflexivity | reflexivity] ].

Section WithEst.
Variable est : Z -> Z.

Theorem add_special c x y e : special_table SAdd (rounder_eqb (rounding c) RFloor) x y = Some e ->
  result_ok c e (ctx_add est c x y false).
Proof.
  intros H. destruct x as [fx nx ex cx], y as [fy ny ey cy]. unfold ctx_add.
  destruct fx, fy; cbn in H; try discriminate H; destruct nx, ny; fin H.
Qed.

Theorem sub_special c x y e : special_table SSub (rounder_eqb (rounding c) RFloor) x y = Some e ->
  result_ok c e (ctx_add est c x y true).
Proof.
  intros H. destruct x as [fx nx ex cx], y as [fy ny ey cy]. unfold ctx_add.
  destruct fx, fy; cbn in H; try discriminate H; destruct nx, ny; fin H.
Qed.

Theorem mul_special c x y e : special_table SMul (rounder_eqb (rounding c) RFloor) x y = Some e ->
  result_ok c e (ctx_mul est c x y).
Proof.
  intros H. destruct x as [fx nx ex cx], y as [fy ny ey cy]. unfold ctx_mul.
  destruct fx, fy; cbn in H; try discriminate H; try zsplit cx; try zsplit cy; destruct nx, ny; fin H.
Qed.


Theorem quo_special c x y e : special_table SQuo (rounder_eqb (rounding c) RFloor) x y = Some e ->
  result_ok c e (ctx_quo est c x y).
Proof.
  intros H. destruct x as [fx nx ex cx], y as [fy ny ey cy]. unfold ctx_quo.
  destruct fx, fy; cbn in H; try discriminate H; try zsplit cx; try zsplit cy; destruct nx, ny; fin H.
Qed.

Theorem quo_integer_special c x y e : special_table SQuoInteger (rounder_eqb (rounding c) RFloor) x y = Some e ->
  result_ok c e (ctx_quo_integer est c x y).
Proof.
  intros H. destruct x as [fx nx ex cx], y as [fy ny ey cy]. unfold ctx_quo_integer.
  destruct fx, fy; cbn in H; try discriminate H; try zsplit cx; try zsplit cy; destruct nx, ny; fin H.
Qed.

Theorem rem_special c x y e : special_table SRem (rounder_eqb (rounding c) RFloor) x y = Some e ->
  result_ok c e (ctx_rem est c x y).
Proof.
  intros H. destruct x as [fx nx ex cx], y as [fy ny ey cy]. unfold ctx_rem.
  destruct fx, fy; cbn in H; try discriminate H; try zsplit cx; try zsplit cy; destruct nx, ny; fin H.
Qed.

Theorem abs_special c x y e : special_table SAbs (rounder_eqb (rounding c) RFloor) x y = Some e ->
  result_ok c e (ctx_abs est c x).
Proof.
  intros H. destruct x as [fx nx ex cx]. unfold ctx_abs, ctx_round, round_with, dabs.
  destruct fx; cbn in H; try discriminate H; destruct nx; fin H.
Qed.

Theorem neg_special c x y e : special_table SNeg (rounder_eqb (rounding c) RFloor) x y = Some e ->
  result_ok c e (ctx_neg est c x).
Proof.
  intros H. destruct x as [fx nx ex cx]. unfold ctx_neg, ctx_round, round_with, dneg.
  destruct fx; cbn in H; try discriminate H; destruct nx; fin H.
Qed.

Theorem round_special c x y e : special_table SRound (rounder_eqb (rounding c) RFloor) x y = Some e ->
  result_ok c e (ctx_round_op est c x).
Proof.
  intros H. destruct x as [fx nx ex cx]. unfold ctx_round_op, ctx_round, round_with.
  destruct fx; cbn in H; try discriminate H; destruct nx; fin H.
Qed.

Theorem reduce_special c x y e : special_table SReduce (rounder_eqb (rounding c) RFloor) x y = Some e ->
  result_ok c e (do v <- ctx_reduce est c x; Ok (fst v)).
Proof.
  intros H. destruct x as [fx nx ex cx]. unfold ctx_reduce, ctx_round, round_with, dreduce.
  destruct fx; cbn in H; try discriminate H; destruct nx; fin H.
Qed.

Theorem quantize_special c x y q e : special_table SQuantize (rounder_eqb (rounding c) RFloor) x y = Some e ->
  result_ok c e (ctx_quantize est c x q).
Proof.
  intros H. destruct x as [fx nx ex cx]. unfold ctx_quantize.
  destruct fx; cbn in H; try discriminate H; destruct nx; fin H.
Qed.

Theorem rti_value_special c x y e : special_table SRti (rounder_eqb (rounding c) RFloor) x y = Some e ->
  result_ok c e (ctx_rti_value est c x).
Proof.
  intros H. destruct x as [fx nx ex cx]. unfold ctx_rti_value.
  destruct fx; cbn in H; try discriminate H; destruct nx; fin H.
Qed.

Theorem rti_exact_special c x y e : special_table SRti (rounder_eqb (rounding c) RFloor) x y = Some e ->
  result_ok c e (ctx_rti_exact est c x).
Proof.
  intros H. destruct x as [fx nx ex cx]. unfold ctx_rti_exact.
  destruct fx; cbn in H; try discriminate H; destruct nx; fin H.
Qed.

Theorem ceil_special c x y e : special_table SCeilFloor (rounder_eqb (rounding c) RFloor) x y = Some e ->
  result_ok c e (ctx_ceil est c x).
Proof.
  intros H. destruct x as [fx nx ex cx]. unfold ctx_ceil.
  destruct fx; cbn in H; try discriminate H; destruct nx; fin H.
Qed.

Theorem floor_special c x y e : special_table SCeilFloor (rounder_eqb (rounding c) RFloor) x y = Some e ->
  result_ok c e (ctx_floor est c x).
Proof.
  intros H. destruct x as [fx nx ex cx]. unfold ctx_floor.
  destruct fx; cbn in H; try discriminate H; destruct nx; fin H.
Qed.

Theorem cmp_special c x y e : special_table SCmp (rounder_eqb (rounding c) RFloor) x y = Some e ->
  result_ok c e (ctx_cmp est c x y).
Proof.
  intros H. destruct x as [fx nx ex cx], y as [fy ny ey cy]. unfold ctx_cmp.
  destruct fx, fy; cbn in H; try discriminate H; destruct nx, ny; fin H.
Qed.

End WithEst.
