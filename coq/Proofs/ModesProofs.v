(* C20: how the eight rounding modes relate, proven on the specification's integer rounding rndZ (to
   which Proofs/RoundSpec.v reduces Rounder.Round, setExponent's subnormal rounding and Quantize's
   every-digit-discarded branch).  The rounded magnitude is rndZ mode neg n k for the exact magnitude
   n / k; the signed value is [sval neg (rndZ ...)]. *)
From Coq Require Import ZArith Lia Bool.
From Apd Require Import Generated.Consts Model.Base Model.NumDigits Spec.SpecZ Proofs.RoundBasics.
Open Scope Z_scope.

Definition sval (ng : bool) (m : Z) : Z := if ng then - m else m.

Ltac rz := unfold rndZ, sval; cbv zeta;
  repeat (match goal with
          | |- context [if ?b then _ else _] => destruct b eqn:?
          | |- context [match ?c with Eq => _ | Lt => _ | Gt => _ end] => destruct c eqn:?
          end); try lia.

(* RoundFloor <= every mode <= RoundCeiling, on signed values *)
Theorem floor_le_all_le_ceiling mode ng n k : 0 <= n -> 0 < k ->
  sval ng (rndZ RFloor ng n k) <= sval ng (rndZ mode ng n k) <= sval ng (rndZ RCeiling ng n k).
Proof.
  intros Hn Hk. pose proof (rndZ_bounds mode ng n k Hn Hk) as Hb.
  unfold sval. destruct ng; unfold rndZ in *; cbv zeta in *; destruct (n mod k =? 0); lia.
Qed.

(* |RoundDown| <= |every mode| <= |RoundUp| *)
Theorem down_le_all_le_up mode ng n k : 0 <= n -> 0 < k ->
  rndZ RDown ng n k <= rndZ mode ng n k <= rndZ RUp ng n k.
Proof.
  intros Hn Hk. pose proof (rndZ_bounds mode ng n k Hn Hk) as Hb.
  unfold rndZ in *; cbv zeta in *; destruct (n mod k =? 0); lia.
Qed.

(* every mode returns one of the RoundDown / RoundUp pair *)
Theorem every_mode_is_down_or_up mode ng n k : 0 <= n -> 0 < k ->
  rndZ mode ng n k = rndZ RDown ng n k \/ rndZ mode ng n k = rndZ RUp ng n k.
Proof.
  intros Hn Hk. pose proof (rndZ_bounds mode ng n k Hn Hk) as Hb.
  unfold rndZ in *; cbv zeta in *; destruct (n mod k =? 0); lia.
Qed.

(* all modes coincide exactly when nothing is discarded (Inexact not raised) ... *)
Theorem exact_all_modes_coincide m1 m2 ng n k : n mod k = 0 -> rndZ m1 ng n k = rndZ m2 ng n k.
Proof. intros H. rewrite !rndZ_exact by assumption. reflexivity. Qed.

(* ... and RoundDown differs from RoundUp whenever something is discarded *)
Theorem inexact_down_differs_from_up ng n k : n mod k <> 0 -> rndZ RUp ng n k = rndZ RDown ng n k + 1.
Proof. intros H. unfold rndZ. cbv zeta. destruct (Z.eqb_spec (n mod k) 0); [contradiction|reflexivity]. Qed.

(* floor and ceiling are equal or adjacent integers *)
Theorem floor_ceiling_adjacent ng n k : 0 <= n -> 0 < k ->
  sval ng (rndZ RCeiling ng n k) = sval ng (rndZ RFloor ng n k) \/
  sval ng (rndZ RCeiling ng n k) = sval ng (rndZ RFloor ng n k) + 1.
Proof. intros Hn Hk. unfold sval, rndZ. cbv zeta. destruct (n mod k =? 0), ng; lia. Qed.

(* mirror: negating the operand mirrors the result under the mirrored mode *)
Definition mirror (m : rounder) : rounder := match m with RFloor => RCeiling | RCeiling => RFloor | _ => m end.
Theorem mirror_negation mode ng n k : rndZ (mirror mode) (negb ng) n k = rndZ mode ng n k.
Proof. unfold rndZ. cbv zeta. destruct (n mod k =? 0); [reflexivity|]. destruct mode, ng; reflexivity. Qed.

(* rounding is monotone in the exact magnitude (same sign, same mode) *)
Theorem rndZ_monotone mode ng n1 n2 k : 0 <= n1 <= n2 -> 0 < k -> rndZ mode ng n1 k <= rndZ mode ng n2 k.
Proof.
  intros [H1 H12] Hk.
  pose proof (rndZ_bounds mode ng n1 k H1 Hk) as B1. pose proof (rndZ_bounds mode ng n2 k ltac:(lia) Hk) as B2.
  assert (Hq : n1 / k <= n2 / k) by (apply Z.div_le_mono; lia).
  destruct (Z.eq_dec (n1 / k) (n2 / k)) as [Heq|Hne]; [|lia].
  (* same truncated quotient: the remainders are ordered *)
  assert (Hr : n1 mod k <= n2 mod k).
  { pose proof (Z.div_mod n1 k ltac:(lia)). pose proof (Z.div_mod n2 k ltac:(lia)). rewrite Heq in *. nia. }
  pose proof (Z.mod_pos_bound n1 k Hk). pose proof (Z.mod_pos_bound n2 k Hk).
  unfold rndZ. cbv zeta. rewrite <- Heq.
  set (q := n1 / k) in *. set (r1 := n1 mod k) in *. set (r2 := n2 mod k) in *. clearbody q r1 r2.
  destruct (Z.eqb_spec r1 0), (Z.eqb_spec r2 0); try lia.
  - destruct mode; try lia; try (destruct ng; lia);
      repeat (match goal with
              | |- context [if ?b then _ else _] => destruct b
              | |- context [match ?c with Eq => _ | Lt => _ | Gt => _ end] => destruct c
              end); lia.
  - destruct mode; try lia;
      repeat (match goal with
              | |- context [?a >=? ?b] => destruct (Z.geb_spec a b)
              | |- context [?a >? ?b] => destruct (Z.gtb_spec a b)
              | |- context [?a ?= ?b] => destruct (Z.compare_spec a b)
              | |- context [if ?b then _ else _] => destruct b
              end); lia.
Qed.
