(* C13 / C14 (part): the digit strings of the formatter and their value; the model of String() is the
   specification's to-scientific-string. *)
From Coq Require Import ZArith Lia Bool List.
From Apd Require Import Generated.Consts Model.Base Model.NumDigits Model.Decimal Model.Context Model.Text Spec.Grammar
  Proofs.Digits Proofs.Core.
Import ListNotations.
Open Scope Z_scope.

Definition dv (s : str) (init : Z) : Z := fold_left (fun acc b => acc * 10 + (b - 48)) s init.
Lemma dv_app a b i : dv (a ++ b) i = dv b (dv a i).
Proof. unfold dv. apply fold_left_app. Qed.
Lemma digits_val_dv s : digits_val s = dv s 0. Proof. reflexivity. Qed.

(* the accumulator only collects: digits_fuel f n acc = digits_fuel f n [] ++ acc *)
Lemma digits_fuel_acc f : forall n acc, digits_fuel f n acc = digits_fuel f n [] ++ acc.
Proof.
  induction f as [|f IH]; intros n acc; [reflexivity|]. cbn [digits_fuel].
  destruct (n <? 10); [reflexivity|]. rewrite IH. rewrite (IH (n / 10) [48 + n mod 10]). rewrite <- app_assoc. reflexivity.
Qed.

(* enough fuel: n < 2^fuel *)
Lemma digits_fuel_val f : forall n, 0 <= n < 2 ^ Z.of_nat f -> f <> O ->
  dv (digits_fuel f n []) 0 = n /\ all_digits (digits_fuel f n []) = true /\ digits_fuel f n [] <> [].
Proof.
  induction f as [|f IH]; intros n Hn Hf; [contradiction|]. cbn [digits_fuel].
  pose proof (Z.mod_pos_bound n 10 ltac:(lia)) as Hm.
  destruct (Z.ltb_spec n 10) as [Hlt|Hge].
  - rewrite Z.mod_small by lia. split; [unfold dv; cbn [fold_left]; lia|]. split; [|discriminate].
    cbn [all_digits]. unfold is_digit. destruct (Z.leb_spec 48 (48 + n)), (Z.leb_spec (48 + n) 57); try lia; reflexivity.
  - rewrite digits_fuel_acc.
    assert (Hq : 0 <= n / 10 < 2 ^ Z.of_nat f).
    { split; [apply Z.div_pos; lia|]. rewrite Nat2Z.inj_succ, Z.pow_succ_r in Hn by lia.
      apply Z.div_lt_upper_bound; lia. }
    assert (Hf' : f <> O).
    { intros ->. cbn in Hq. assert (n / 10 = 0) by lia. pose proof (Z.div_mod n 10 ltac:(lia)). lia. }
    destruct (IH (n / 10) Hq Hf') as (Hv & Hd & Hne).
    split; [|split].
    + rewrite dv_app, Hv. unfold dv. cbn [fold_left]. pose proof (Z.div_mod n 10 ltac:(lia)). lia.
    + clear -Hd Hm. induction (digits_fuel f (n / 10) []) as [|b t IHt]; cbn [app all_digits] in *.
      * unfold is_digit. destruct (Z.leb_spec 48 (48 + n mod 10)), (Z.leb_spec (48 + n mod 10) 57); try lia; reflexivity.
      * apply andb_prop in Hd as [Hb Ht]. rewrite Hb. cbn [andb]. apply IHt. assumption.
    + destruct (digits_fuel f (n / 10) []); discriminate.
Qed.

Lemma log2_fuel n : 0 <= n -> n < 2 ^ Z.of_nat (S (Z.to_nat (Z.log2 n))).
Proof.
  intros Hn. rewrite Nat2Z.inj_succ, Z2Nat.id by apply Z.log2_nonneg.
  destruct (Z.eq_dec n 0) as [->|Hnz]; [reflexivity|]. apply Z.log2_spec. lia.
Qed.

(* BigInt.Append(10) followed by the parser's digit conversion is the identity; the output consists of
   digits only and is never empty *)
Theorem digits_roundtrip n : 0 <= n -> digits_val (digits_of n) = n /\ is_digits (digits_of n) = true.
Proof.
  intros Hn. unfold digits_of.
  destruct (digits_fuel_val (S (Z.to_nat (Z.log2 n))) n) as (Hv & Hd & Hne); [split; [lia|apply log2_fuel; lia]|discriminate|].
  split; [exact Hv|]. unfold is_digits. destruct (digits_fuel _ n []); [contradiction|exact Hd].
Qed.

(* the specification's digit string is the model's *)
Lemma sdigits_fuel_eq f : forall n acc, 0 <= n -> sdigits_fuel f n acc = digits_fuel f n acc.
Proof.
  induction f as [|f IH]; intros n acc Hn; [reflexivity|]. cbn [sdigits_fuel digits_fuel].
  destruct (Z.ltb_spec n 10) as [Hlt|Hge].
  - rewrite Z.mod_small by lia. reflexivity.
  - apply IH. apply Z.div_pos; lia.
Qed.
Lemma sdigits_eq n : 0 <= n -> sdigits n = digits_of n.
Proof. intros Hn. apply sdigits_fuel_eq. assumption. Qed.

(* The model of String() / Text('G') IS the specification's to-scientific-string, including the
   documented plain-notation exception for zeros with exponent in [-2000, -1], for every decimal *)
Theorem format_G_is_sci_string d : 0 <= coeff d -> format_G d = sci_string d.
Proof.
  intros Hc. unfold format_G, format_text, sci_string.
  destruct (form_of d); try reflexivity.
  change (ch_G =? ch_e) with false. change (ch_G =? ch_E) with false. change (ch_G =? ch_f) with false.
  change (ch_G =? ch_g) with false. change (ch_G =? ch_G) with true. cbn [orb]. cbv zeta.
  rewrite (sdigits_eq (coeff d) Hc).
  set (ds := digits_of (coeff d)). set (n := Z.of_nat (length ds)). set (e := exp d).
  assert (Hn : 0 < n).
  { unfold n, ds. destruct (digits_roundtrip (coeff d) Hc) as [_ H]. unfold is_digits in H.
    destruct (digits_of (coeff d)); [discriminate|]. cbn [length]. lia. }
  unfold lowestZeroNegativeCoefficientCockroach.
  destruct (Z.eqb_spec (coeff d) 0) as [Hz|Hnz]; cbn [andb].
  - destruct (Z.geb_spec e (-2000)) as [H1|H1], (Z.leb_spec (-2000) e) as [H2|H2]; try lia; cbn [andb];
      destruct (Z.ltb_spec e 0) as [H3|H3]; cbn [andb orb].
    + (* zero written out in plain notation *)
      replace (e + (n - e - 1)) with (n - 1) by lia.
      destruct (Z.leb_spec e 0); [|lia]. destruct (Z.geb_spec (n - 1) (-6)); [|lia]. cbn [andb].
      unfold fmt_f. destruct (Z.ltb_spec e 0); [|lia]. fold n.
      destruct (Z.eqb_spec e 0); [lia|].
      destruct (Z.geb_spec (- e - n) 0) as [Hl|Hl]; destruct (Z.gtb_spec (n + e) 0) as [Hg|Hg]; try lia.
      * unfold zeros, ch_0, ch_dot. replace (- (n + e)) with (- e - n) by lia. reflexivity.
      * replace (- (- e - n)) with (n + e) by lia. reflexivity.
    + destruct (Z.leb_spec e 0) as [H4|H4]; cbn [andb].
      * assert (e = 0) by lia. destruct (Z.geb_spec (e + (n - 1)) (-6)) as [H5|H5], (Z.leb_spec (-6) (e + n - 1)) as [H6|H6]; try lia.
        unfold fmt_f. destruct (Z.ltb_spec e 0); [lia|]. destruct (Z.eqb_spec e 0); [|lia].
        rewrite H. unfold zeros. cbn [Z.to_nat repeat]. rewrite app_nil_r. reflexivity.
      * unfold fmt_e. fold n e. replace (ch_G + ch_e - ch_g) with 69 by reflexivity.
        destruct ds as [|d0 rest] eqn:Eds; [cbn in n; lia|].
        destruct (Z.ltb_spec (e + n - 1) 0); [lia|].
        rewrite (sdigits_eq (e + n - 1)) by lia. unfold ch_dot, ch_plus. destruct rest; reflexivity.
    + (* below -2000: scientific *)
      destruct (Z.leb_spec e 0) as [H4|H4]; [|lia]. cbn [andb].
      destruct (Z.geb_spec (e + (n - 1)) (-6)) as [H5|H5], (Z.leb_spec (-6) (e + n - 1)) as [H6|H6]; try lia.
      * assert (Hnn : n = 1).
        { unfold n, ds. rewrite Hz. reflexivity. }
        lia.
      * unfold fmt_e. fold n e. replace (ch_G + ch_e - ch_g) with 69 by reflexivity.
        destruct ds as [|d0 rest] eqn:Eds; [cbn in n; lia|].
        destruct (Z.ltb_spec (e + n - 1) 0); [|lia].
        rewrite (sdigits_eq (- (e + n - 1))) by lia. unfold ch_dot, ch_minus. destruct rest; reflexivity.
    + lia.
  - (* non-zero coefficient *)
    cbn [orb].
    destruct (Z.leb_spec e 0) as [H4|H4]; cbn [andb].
    + destruct (Z.geb_spec (e + (n - 1)) (-6)) as [H5|H5], (Z.leb_spec (-6) (e + n - 1)) as [H6|H6]; try lia.
      * unfold fmt_f. fold n.
        destruct (Z.ltb_spec e 0) as [H7|H7]; destruct (Z.eqb_spec e 0) as [H8|H8]; try lia.
        -- destruct (Z.geb_spec (- e - n) 0) as [Hl|Hl]; destruct (Z.gtb_spec (n + e) 0) as [Hg|Hg]; try lia.
           ++ unfold zeros, ch_0, ch_dot. replace (- (n + e)) with (- e - n) by lia. reflexivity.
           ++ replace (- (- e - n)) with (n + e) by lia. reflexivity.
        -- rewrite H8. unfold zeros. cbn [Z.to_nat repeat]. rewrite app_nil_r. reflexivity.
      * unfold fmt_e. fold n e. replace (ch_G + ch_e - ch_g) with 69 by reflexivity.
        destruct ds as [|d0 rest] eqn:Eds; [cbn in n; lia|].
        destruct (Z.ltb_spec (e + n - 1) 0); [|lia].
        rewrite (sdigits_eq (- (e + n - 1))) by lia. unfold ch_dot, ch_minus. destruct rest; reflexivity.
    + unfold fmt_e. fold n e. replace (ch_G + ch_e - ch_g) with 69 by reflexivity.
      destruct ds as [|d0 rest] eqn:Eds; [cbn in n; lia|].
      destruct (Z.ltb_spec (e + n - 1) 0); [lia|].
      rewrite (sdigits_eq (e + n - 1)) by lia. unfold ch_dot, ch_plus. destruct rest; reflexivity.
Qed.

(* NaN, sNaN and Infinity of either sign round-trip through String(), whatever their other fields hold *)
Theorem specials_roundtrip d : form_of d <> Finite ->
  set_string_raw (format_G d) = Some (mkDec (form_of d) (neg d) 0 0).
Proof.
  intros Hf. unfold format_G, format_text. destruct (form_of d); try contradiction; destruct (neg d); reflexivity.
Qed.
