(* C13: Compose inverts Decompose, whatever the destination held before. *)
From Coq Require Import ZArith Lia Bool List.
From Apd Require Import Generated.Consts Model.Base Model.NumDigits Model.Compose Proofs.TextProofs.
Import ListNotations.
Open Scope Z_scope.

Definition bv (s : list Z) (init : Z) : Z := fold_left (fun a b => a * 256 + b) s init.
Lemma bv_app a b i : bv (a ++ b) i = bv b (bv a i).
Proof. unfold bv. apply fold_left_app. Qed.

Lemma bytes_fuel_acc f : forall n acc, bytes_fuel f n acc = bytes_fuel f n [] ++ acc.
Proof.
  induction f as [|f IH]; intros n acc; [reflexivity|]. cbn [bytes_fuel].
  destruct (n =? 0); [reflexivity|]. rewrite IH. rewrite (IH (n / 256) [n mod 256]). rewrite <- app_assoc. reflexivity.
Qed.

Lemma bytes_fuel_val f : forall n, 0 <= n < 2 ^ Z.of_nat f -> bv (bytes_fuel f n []) 0 = n.
Proof.
  induction f as [|f IH]; intros n Hn.
  - cbn in Hn. assert (n = 0) by lia. subst. reflexivity.
  - cbn [bytes_fuel]. destruct (Z.eqb_spec n 0) as [->|Hnz]; [reflexivity|].
    rewrite bytes_fuel_acc, bv_app.
    assert (Hq : 0 <= n / 256 < 2 ^ Z.of_nat f).
    { split; [apply Z.div_pos; lia|]. rewrite Nat2Z.inj_succ, Z.pow_succ_r in Hn by lia.
      apply Z.div_lt_upper_bound; lia. }
    rewrite (IH _ Hq). unfold bv. cbn [fold_left]. pose proof (Z.div_mod n 256 ltac:(lia)). lia.
Qed.

(* SetBytes(Bytes(n)) = n *)
Theorem bytes_roundtrip n : 0 <= n -> bytes_val (bytes_of n) = n.
Proof.
  intros Hn. unfold bytes_of. change (bytes_val ?s) with (bv s 0).
  apply bytes_fuel_val. split; [lia|apply log2_fuel; lia].
Qed.

(* every byte is a byte, and the encoding is minimal (no leading zero byte) *)
Lemma bytes_fuel_range f : forall n acc, 0 <= n -> Forall (fun b => 0 <= b < 256) acc ->
  Forall (fun b => 0 <= b < 256) (bytes_fuel f n acc).
Proof.
  induction f as [|f IH]; intros n acc Hn Ha; [exact Ha|]. cbn [bytes_fuel].
  destruct (n =? 0); [exact Ha|]. apply IH; [apply Z.div_pos; lia|].
  constructor; [apply Z.mod_pos_bound; lia|exact Ha].
Qed.
Theorem bytes_are_bytes n : 0 <= n -> Forall (fun b => 0 <= b < 256) (bytes_of n).
Proof. intros Hn. apply bytes_fuel_range; [exact Hn|constructor]. Qed.

(* Compose(Decompose(d)) on ANY destination: a finite d comes back field for field; a special value comes back
   with its form (signaling NaN quiet, as documented) and sign, the destination's other fields untouched *)
Theorem compose_decompose_roundtrip prev d : 0 <= coeff d ->
  compose_decompose prev d =
    Some (match form_of d with
          | Finite => d
          | Infinite => mkDec Infinite (neg d) (exp prev) (coeff prev)
          | _ => mkDec NaN (neg d) (exp prev) (coeff prev)
          end).
Proof.
  intros Hc. unfold compose_decompose, decompose, compose. destruct d as [f ng e c]. cbn [form_of neg exp coeff] in *.
  destruct f; cbn [Z.eqb]; try reflexivity. rewrite (bytes_roundtrip c Hc). reflexivity.
Qed.
