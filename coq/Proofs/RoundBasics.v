(* Building blocks of the rounding proofs: Modf, the comparison with one half, ShouldAddOne vs the
   specification's integer rounding, roundAddOne. *)
From Coq Require Import ZArith Lia Bool.
From Apd Require Import Generated.Consts Model.Base Model.NumDigits Model.Decimal Spec.SpecZ Spec.Order
  Proofs.Digits Proofs.Core Proofs.CmpProofs.
Open Scope Z_scope.

Lemma div_small a b : 0 <= a < b -> a / b = 0.
Proof. intros; apply Z.div_small; assumption. Qed.
Lemma mod_small a b : 0 <= a < b -> a mod b = a.
Proof. intros; apply Z.mod_small; assumption. Qed.

(* one half: m * 10^e (e < 0) against 5 * 10^-1 *)
Lemma vcmp_half m e : e < 0 -> vcmp m e 5 (-1) = cmpZ' (2 * m) (10 ^ (- e)).
Proof.
  intros He. rewrite (vcmp_common _ _ _ _ e) by lia.
  rewrite Z.sub_diag. simpl (10 ^ 0). rewrite Z.mul_1_r.
  replace (- e) with ((-1 - e) + 1) by lia. rewrite pow10_succ by lia.
  set (P := 10 ^ (-1 - e)).
  destruct (cmpZ'_spec m (5 * P)) as [[-> H]|[[-> H]|[-> H]]];
  destruct (cmpZ'_spec (2 * m) (10 * P)) as [[-> H']|[[-> H']|[-> H']]]; lia.
Qed.

(* ShouldAddOne applied to the truncated quotient q = n / k with remainder r <> 0 and
   half = sign(2r - k) is the specification's integer rounding of n / k *)
Lemma sao_rndZ mode ng n k : 0 <= n -> 0 < k -> n mod k <> 0 ->
  (if should_add_one mode (n / k) ng (cmpZ (2 * (n mod k)) k) then n / k + 1 else n / k) = rndZ mode ng n k.
Proof.
  intros Hn Hk Hr. unfold rndZ. destruct (Z.eqb_spec (n mod k) 0) as [|_]; [contradiction|].
  set (q := n / k). set (r := n mod k).
  assert (Hq : 0 <= q) by (apply Z.div_pos; lia).
  rewrite cmpZ_eq. unfold should_add_one, cmpZ'.
  destruct mode; try reflexivity.
  - (* half up *) destruct (Z.compare_spec (2 * r) k) as [H|H|H]; cbv iota;
      destruct (Z.geb_spec (2 * r) k); try lia; reflexivity.
  - (* half even *) destruct (Z.compare_spec (2 * r) k) as [H|H|H]; cbv iota.
    + change (0 >? 0) with false. change (0 <? 0) with false. cbv iota.
      rewrite <- Z.negb_odd. destruct (Z.odd q); reflexivity.
    + reflexivity.
    + reflexivity.
  - (* ceiling *) destruct ng; reflexivity.
  - (* half down *) destruct (Z.compare_spec (2 * r) k) as [H|H|H]; cbv iota;
      destruct (Z.gtb_spec (2 * r) k); try lia; reflexivity.
  - (* 05up *) unfold bigFive, bigTen. rewrite !Z.rem_mod_nonneg by lia.
    destruct (Z.eqb_spec (q mod 5) 0) as [H5|H5]; [reflexivity|].
    destruct (Z.eqb_spec (q mod 10) 0) as [H10|H10]; [|reflexivity].
    exfalso. apply H5. pose proof (Z.div_mod q 10 ltac:(lia)) as D. rewrite H10 in D.
    replace q with ((2 * (q / 10)) * 5) by lia. apply Z.mod_mul. lia.
  - (* default = half up *) destruct (Z.compare_spec (2 * r) k) as [H|H|H]; cbv iota;
      destruct (Z.geb_spec (2 * r) k); try lia; reflexivity.
Qed.

(* bounds of the specification's rounding *)
Lemma rndZ_bounds mode ng n k : 0 <= n -> 0 < k -> n / k <= rndZ mode ng n k <= n / k + 1.
Proof.
  intros Hn Hk. unfold rndZ. cbv zeta. set (q := n / k). set (r := n mod k). clearbody q r.
  destruct (r =? 0); [lia|].
  destruct mode;
    repeat (match goal with
            | |- context [if ?b then _ else _] => destruct b
            | |- context [match ?c with Eq => _ | Lt => _ | Gt => _ end] => destruct c
            end); lia.
Qed.
Lemma rndZ_exact mode ng n k : n mod k = 0 -> rndZ mode ng n k = n / k.
Proof. intros H. unfold rndZ. rewrite H. reflexivity. Qed.

Section WithEst.
Variable est : Z -> Z.
Hypothesis HE : est_in_range est.

(* Decimal.Modf on a value with a non-positive exponent: integer part and fractional digits *)
Lemma modf_le0 d : exp d <= 0 -> 0 <= coeff d ->
  modf est d = Ok (mkDec (if - exp d >? ndigits (coeff d) then Finite else Finite) (neg d) 0 (coeff d / 10 ^ (- exp d)),
                   mkDec (if - exp d >? ndigits (coeff d) then form_of d else Finite) (neg d) (exp d) (coeff d mod 10 ^ (- exp d))).
Proof.
  intros He Hc. unfold modf. destruct (Z.gtb_spec (exp d) 0); [lia|].
  rewrite (nd_ok est HE). cbn [bind].
  destruct (Z.gtb_spec (- exp d) (ndigits (coeff d))) as [Hgt|Hle].
  - assert (Hlt : coeff d < 10 ^ (- exp d)).
    { pose proof (ndigits_hi (coeff d) Hc). pose proof (ndigits_pos (coeff d)).
      assert (10 ^ ndigits (coeff d) <= 10 ^ (- exp d)) by (apply pow10_le; lia). lia. }
    rewrite div_small, mod_small by lia. destruct d; reflexivity.
  - rewrite table_exp10_ok by lia. cbn [bind].
    rewrite Z.quot_div_nonneg, Z.rem_mod_nonneg by (try assumption; apply pow10_pos; lia). reflexivity.
Qed.

(* roundAddOne: add one and renormalise an all-nines carry *)
Lemma round_add_one_spec b diff : 0 <= b ->
  round_add_one est b diff = Ok (if ndigits (b + 1) >? ndigits b then ((b + 1) / 10, diff + 1) else (b + 1, diff)).
Proof.
  intros Hb. unfold round_add_one. destruct (Z.ltb_spec b 0); [lia|].
  rewrite !(nd_ok est HE). cbn [bind]. unfold bigOne, bigTen.
  destruct (Z.gtb_spec (ndigits (b + 1)) (ndigits b)); [|reflexivity].
  rewrite Z.quot_div_nonneg by lia. reflexivity.
Qed.

End WithEst.

(* an increment carries into a new digit exactly at 10^n - 1 *)
Lemma ndigits_succ_carry b : 0 <= b -> ndigits b < ndigits (b + 1) -> b + 1 = 10 ^ ndigits b.
Proof.
  intros Hb Hlt.
  destruct (Z.eq_dec b 0) as [->|Hnz]; [simpl in Hlt; rewrite ndigits_zero in *; exfalso; revert Hlt; unfold ndigits; simpl; lia|].
  pose proof (ndigits_hi b Hb) as Hhi. pose proof (ndigits_lo (b + 1) ltac:(lia)) as Hlo.
  assert (10 ^ ndigits b <= 10 ^ (ndigits (b + 1) - 1)) by (apply pow10_le; pose proof (ndigits_pos b); lia).
  lia.
Qed.
Lemma ndigits_succ_le b : 0 <= b -> ndigits (b + 1) <= ndigits b + 1.
Proof.
  intros Hb. pose proof (ndigits_hi b Hb) as Hhi. pose proof (ndigits_pos b) as Hp.
  destruct (Z.le_gt_cases (ndigits (b + 1)) (ndigits b + 1)) as [|Hgt]; [assumption|exfalso].
  pose proof (ndigits_lo (b + 1) ltac:(lia)) as Hlo.
  assert (10 ^ (ndigits b + 1) <= 10 ^ (ndigits (b + 1) - 1)) by (apply pow10_le; lia).
  rewrite pow10_succ in H by lia. lia.
Qed.
Lemma ndigits_mono a b : 0 <= a <= b -> ndigits a <= ndigits b.
Proof.
  intros [Ha Hab]. destruct (Z.eq_dec a 0) as [->|Hnz]; [rewrite ndigits_zero; pose proof (ndigits_pos b); lia|].
  destruct (Z.le_gt_cases (ndigits a) (ndigits b)) as [|Hgt]; [assumption|exfalso].
  pose proof (ndigits_lo a ltac:(lia)) as Hlo. pose proof (ndigits_hi b ltac:(lia)) as Hhi.
  assert (10 ^ ndigits b <= 10 ^ (ndigits a - 1)) by (apply pow10_le; pose proof (ndigits_pos b); lia). lia.
Qed.
Lemma ndigits_pow10 k : 0 <= k -> ndigits (10 ^ k) = k + 1.
Proof.
  intros Hk. pose proof (pow10_pos k Hk). apply ndigits_of_bounds; [lia|].
  replace (k + 1 - 1) with k by lia. split; [lia|]. apply pow10_lt; lia.
Qed.
(* dropping k digits *)
Lemma ndigits_div_pow10 c k : 0 <= k -> k < ndigits c -> 0 < c -> ndigits (c / 10 ^ k) = ndigits c - k.
Proof.
  intros Hk Hlt Hc. pose proof (pow10_pos k Hk) as Hp.
  pose proof (ndigits_lo c Hc) as Hlo. pose proof (ndigits_hi c ltac:(lia)) as Hhi.
  assert (E1 : 10 ^ (ndigits c - 1) = 10 ^ (ndigits c - k - 1) * 10 ^ k) by (rewrite <- pow10_add by lia; f_equal; lia).
  assert (E2 : 10 ^ ndigits c = 10 ^ (ndigits c - k) * 10 ^ k) by (rewrite <- pow10_add by lia; f_equal; lia).
  assert (L : 10 ^ (ndigits c - k - 1) <= c / 10 ^ k) by (apply Z.div_le_lower_bound; lia).
  assert (U : c / 10 ^ k < 10 ^ (ndigits c - k)) by (apply Z.div_lt_upper_bound; lia).
  pose proof (pow10_pos (ndigits c - k - 1) ltac:(lia)).
  apply ndigits_of_bounds; [lia|]. replace (ndigits c - k - 1) with (ndigits c - k - 1) by lia. lia.
Qed.
