(* C01 / C02 / C07 for Quo: the quotient computed by Context.Quo (normalise to a Precision-digit integer
   quotient, decide the rounding from the remainder - or, below the normal range, keep the remainder as a
   sticky digit and let setExponent round once to Etiny) is the specification's single rounding of the
   exact quotient, with its flags, for every pair of finite non-zero operands. *)
From Coq Require Import ZArith Lia Bool.
From Apd Require Import Generated.Consts Model.Base Model.NumDigits Model.Decimal Model.Context Spec.SpecZ Spec.Order
  Proofs.Digits Proofs.Core Proofs.CmpProofs Proofs.RoundBasics Proofs.SetExponent Proofs.RoundEq Proofs.RoundSpec Proofs.OpsProofs.
Open Scope Z_scope.

(* ---------- the specification's rounding depends only on the quotient, the exactness and the half comparison ---------- *)
Definition rnd_parts (m : rounder) (ng : bool) (q : Z) (exact : bool) (half : comparison) : Z :=
  if exact then q else
  match m with
  | RDown => q
  | RUp => q + 1
  | RCeiling => if ng then q else q + 1
  | RFloor => if ng then q + 1 else q
  | RHalfUp | RDefault => match half with Lt => q | _ => q + 1 end
  | RHalfDown => match half with Gt => q + 1 | _ => q end
  | RHalfEven => match half with Lt => q | Gt => q + 1 | Eq => if Z.even q then q else q + 1 end
  | R05Up => if (q mod 5 =? 0) then q + 1 else q
  end.

Lemma rndZ_parts m ng n d : rndZ m ng n d = rnd_parts m ng (n / d) (n mod d =? 0) (2 * (n mod d) ?= d).
Proof.
  unfold rndZ, rnd_parts. cbv zeta. destruct (n mod d =? 0); [reflexivity|].
  destruct m; try reflexivity.
  - unfold Z.geb. destruct (2 * (n mod d) ?= d); reflexivity.
  - unfold Z.gtb. destruct (2 * (n mod d) ?= d); reflexivity.
  - unfold Z.geb. destruct (2 * (n mod d) ?= d); reflexivity.
Qed.

(* two fractions with the same value round alike *)
Lemma ratio_parts n1 d1 n2 d2 : 0 < d1 -> 0 < d2 -> n1 * d2 = n2 * d1 ->
  n1 / d1 = n2 / d2 /\ (n1 mod d1 =? 0) = (n2 mod d2 =? 0) /\ (2 * (n1 mod d1) ?= d1) = (2 * (n2 mod d2) ?= d2).
Proof.
  intros H1 H2 E.
  pose proof (Z.div_mod n1 d1 ltac:(lia)) as D1. pose proof (Z.mod_pos_bound n1 d1 H1) as B1.
  pose proof (Z.div_mod n2 d2 ltac:(lia)) as D2. pose proof (Z.mod_pos_bound n2 d2 H2) as B2.
  set (q1 := n1 / d1) in *. set (r1 := n1 mod d1) in *. set (q2 := n2 / d2) in *. set (r2 := n2 mod d2) in *.
  assert (Hq : q1 = q2).
  { assert (Heq : d1 * d2 * (q1 - q2) = r2 * d1 - r1 * d2) by (rewrite D1, D2 in E; lia).
    assert (Hlt : - (d1 * d2) < r2 * d1 - r1 * d2 < d1 * d2) by nia.
    assert (Hdd : 0 < d1 * d2) by nia.
    destruct (Z.eq_dec q1 q2) as [L|L]; [exact L|exfalso].
    assert (C : q1 - q2 <= -1 \/ 1 <= q1 - q2) by lia. destruct C as [C|C].
    - assert (d1 * d2 * (q1 - q2) <= - (d1 * d2)) by nia. lia.
    - assert (d1 * d2 <= d1 * d2 * (q1 - q2)) by nia. lia. }
  assert (Hr : r1 * d2 = r2 * d1) by (rewrite D1, D2, Hq in E; lia).
  split; [exact Hq|]. split.
  - destruct (Z.eqb_spec r1 0) as [Z1|Z1]; destruct (Z.eqb_spec r2 0) as [Z2|Z2]; try reflexivity; exfalso.
    + rewrite Z1 in Hr. assert (r2 = 0) by nia. contradiction.
    + rewrite Z2 in Hr. assert (r1 = 0) by nia. contradiction.
  - rewrite (Zmult_compare_compat_r (2 * r1) d1 d2) by lia.
    rewrite (Zmult_compare_compat_r (2 * r2) d2 d1) by lia.
    f_equal; lia.
Qed.

Lemma rndZ_ratio m ng n1 d1 n2 d2 : 0 < d1 -> 0 < d2 -> n1 * d2 = n2 * d1 ->
  rndZ m ng n1 d1 = rndZ m ng n2 d2 /\ (n1 mod d1 =? 0) = (n2 mod d2 =? 0).
Proof.
  intros H1 H2 E. destruct (ratio_parts n1 d1 n2 d2 H1 H2 E) as (A & B & C).
  rewrite !rndZ_parts, A, B, C. split; reflexivity.
Qed.

(* the sticky digit: appending a 1 to the truncated quotient rounds, at any coarser position, exactly like
   the exact quotient with its non-zero remainder *)
Lemma rndZ_sticky m ng q B rem j : 0 <= q -> 0 < rem < B -> 1 <= j ->
  rndZ m ng (10 * q + 1) (10 ^ (j + 1)) = rndZ m ng (q * B + rem) (B * 10 ^ j)
  /\ ((10 * q + 1) mod 10 ^ (j + 1) =? 0) = false /\ ((q * B + rem) mod (B * 10 ^ j) =? 0) = false.
Proof.
  intros Hq Hrem Hj.
  assert (HT' : 0 < 10 ^ (j - 1)) by (apply pow10_pos; lia).
  set (T' := 10 ^ (j - 1)) in *.
  assert (HT : 10 ^ j = 10 * T') by (unfold T'; replace j with ((j - 1) + 1) at 1 by lia; apply pow10_succ; lia).
  assert (HT1 : 10 ^ (j + 1) = 100 * T') by (rewrite pow10_succ by lia; lia).
  rewrite HT, HT1.
  set (T := 10 * T').
  pose proof (Z.div_mod q T ltac:(unfold T; lia)) as D. pose proof (Z.mod_pos_bound q T ltac:(unfold T; lia)) as Bd.
  set (Q := q / T) in *. set (s := q mod T) in *.
  assert (L1 : (10 * q + 1) / (100 * T') = Q /\ (10 * q + 1) mod (100 * T') = 10 * s + 1).
  { symmetry in D. assert (E : 10 * q + 1 = (100 * T') * Q + (10 * s + 1)) by (unfold T in *; lia).
    split; [symmetry; apply (Z.div_unique _ _ Q (10 * s + 1))|symmetry; apply (Z.mod_unique _ _ Q (10 * s + 1))];
      try exact E; left; unfold T in *; lia. }
  assert (L2 : (q * B + rem) / (B * (10 * T')) = Q /\ (q * B + rem) mod (B * (10 * T')) = s * B + rem).
  { assert (E : q * B + rem = (B * (10 * T')) * Q + (s * B + rem)) by (unfold T in *; nia).
    assert (R : 0 <= s * B + rem < B * (10 * T')) by (unfold T in *; nia).
    split; [symmetry; apply (Z.div_unique _ _ Q (s * B + rem))|symmetry; apply (Z.mod_unique _ _ Q (s * B + rem))];
      try exact E; left; exact R. }
  destruct L1 as [A1 M1]. destruct L2 as [A2 M2].
  unfold T. rewrite !rndZ_parts, A1, M1, A2, M2.
  assert (N1 : (10 * s + 1 =? 0) = false) by (apply Z.eqb_neq; lia).
  assert (N2 : (s * B + rem =? 0) = false) by (apply Z.eqb_neq; nia).
  rewrite N1, N2. split; [|split; reflexivity].
  assert (C : (2 * (10 * s + 1) ?= 100 * T') = (2 * (s * B + rem) ?= B * (10 * T'))).
  { destruct (Z.lt_ge_cases s (5 * T')) as [Lt|Ge].
    - rewrite (proj2 (Z.compare_lt_iff _ _)) by lia. symmetry. apply Z.compare_lt_iff. nia.
    - rewrite (proj2 (Z.compare_gt_iff _ _)) by lia. symmetry. apply Z.compare_gt_iff. nia. }
  rewrite C. reflexivity.
Qed.

Section WithEst.
Variable est : Z -> Z.
Hypothesis HE : est_in_range est.

(* the part of Context.Quo after the operands have been normalised: dividend3 = A3, divisor1 = B1 *)
Definition quo_tail (c : ctx) (ng : bool) (shift A3 B1 adj_coeffs : Z) : res result :=
  let adj_exp10 := prec c - 1 in
  if B1 =? 0 then Panic PDivByZero else
  let q := Z.quot A3 B1 in
  let rem := Z.rem A3 B1 in
  do nd <- num_digits_with est q;
  do (q1, nd1, res1, shift1, adj_exp10_1) <-
    (if negb (rem =? 0) then
       let adj := shift + (- adj_coeffs) + (- adj_exp10) + nd - 1 in
       if adj >=? emin c then
         let half := cmpZ (rem * bigTwo) B1 in
         if should_add_one (rounding c) q ng half then
           do (q2, shift2) <- round_add_one est q shift;
           Ok (q2, unknownNumDigits, fInexact ||| fRounded, shift2, adj_exp10)
         else Ok (q, nd, fInexact ||| fRounded, shift, adj_exp10)
       else Ok (q * bigTen + bigOne, nd + 1, c0, shift, adj_exp10 + 1)
     else Ok (q, nd, c0, shift, adj_exp10));
  do (d, f) <- set_exponent est c (mkDec Finite ng 0 q1) nd1 res1 [shift1; - adj_coeffs; - adj_exp10_1];
  ret (finish c d (res1 ||| f)).

Section Tail.
Variables (c : ctx) (ng : bool) (shift a b al be adjc : Z).
Hypothesis Hp : 1 <= prec c.
Hypothesis Hrange : emin c <= emax c.
Hypothesis Ha : 0 < a.
Hypothesis Hb : 0 < b.
Hypothesis Hal : 0 <= al.
Hypothesis Hbe : 0 <= be.
Let p := prec c.
Let A3 := a * 10 ^ al.
Let B1 := b * 10 ^ be.
Hypothesis Hdiff : al - be = adjc + p - 1.
(* the normalised quotient has exactly Precision digits *)
Hypothesis Hnorm : B1 * 10 ^ (p - 1) <= A3 < B1 * 10 ^ p.
Hypothesis Hmag : mag_frac a b = 1 - adjc.
Let E0 := shift - adjc - (p - 1).
Let adj := E0 + p - 1.
Hypothesis Hshift : in_lim shift.
Hypothesis Hshift1 : in_lim (shift + 1).
Hypothesis Hadjc : in_lim (- adjc).
Hypothesis HpL : p + 1 <= MaxExponent.
Hypothesis Hadj : MinExponent <= adj /\ adj + 1 <= MaxExponent.
Let S := spec_round_nz p (emin c) (emax c) (rounding c) (mkExact ng a b shift).
Let et := emin c - p + 1.

Lemma B1_pos : 0 < B1.
Proof. unfold B1. pose proof (pow10_pos be Hbe). nia. Qed.
Lemma A3_pos : 0 < A3.
Proof. unfold A3. pose proof (pow10_pos al Hal). nia. Qed.

Let q := A3 / B1.
Let rem := A3 mod B1.

Lemma q_bounds : 10 ^ (p - 1) <= q < 10 ^ p.
Proof.
  pose proof B1_pos. unfold q. split.
  - apply Z.div_le_lower_bound; lia.
  - apply Z.div_lt_upper_bound; lia.
Qed.
Lemma q_digits : ndigits q = p.
Proof. pose proof q_bounds. apply ndigits_of_bounds; [pose proof (pow10_pos (p - 1) ltac:(lia)); lia|lia]. Qed.

(* the exact quotient as the specification scales it: (a/b) * 10^(shift - er) = A3 / (B1 * 10^j) with j = er - E0 *)
Lemma scale_cross er j : j = er - E0 -> 0 <= j ->
  let '(n1, d1) := scale_frac a b (shift - er) in 0 < d1 /\ n1 * (B1 * 10 ^ j) = A3 * d1.
Proof.
  intros Hj Hj0. unfold scale_frac. unfold E0 in Hj.
  assert (Hs : shift - er = al - be - j) by lia.
  pose proof (pow10_pos al Hal). pose proof (pow10_pos be Hbe). pose proof (pow10_pos j Hj0).
  destruct (Z.leb_spec 0 (shift - er)) as [Hs0|Hs0].
  - pose proof (pow10_pos (shift - er) Hs0). split; [lia|].
    unfold A3, B1.
    assert (E : 10 ^ (shift - er) * (10 ^ be * 10 ^ j) = 10 ^ al).
    { rewrite <- !pow10_add by lia. f_equal. lia. }
    rewrite <- E. ring.
  - pose proof (pow10_pos (- (shift - er)) ltac:(lia)). split; [nia|].
    unfold A3, B1.
    assert (E : 10 ^ be * 10 ^ j = 10 ^ al * 10 ^ (- (shift - er))).
    { rewrite <- !pow10_add by lia. f_equal. lia. }
    transitivity (a * b * (10 ^ be * 10 ^ j)); [ring|]. rewrite E. ring.
Qed.


Lemma quot_rem_nonneg : Z.quot A3 B1 = q /\ Z.rem A3 B1 = rem.
Proof.
  pose proof B1_pos. pose proof A3_pos. unfold q, rem.
  rewrite Z.quot_div_nonneg, Z.rem_mod_nonneg by lia. split; reflexivity.
Qed.

Lemma k_eq : mag_frac a b + shift = E0 + p.
Proof. rewrite Hmag. unfold E0. lia. Qed.

Ltac lims := unfold in_lim, MaxExponent, MinExponent, adj, E0, et, p in *; lia.

(* ----- in or above the normal range: the rounding is decided in Quo from the remainder ----- *)
Lemma tail_normal : emin c <= adj ->
  exists d f, quo_tail c ng shift A3 B1 adjc = Ok (finish c d f) /\ agrees c d f S.
Proof.
  intros Hn. pose proof B1_pos as HB. pose proof A3_pos as HA. pose proof q_bounds as Hqb. pose proof q_digits as Hqd.
  pose proof (pow10_pos (p - 1) ltac:(unfold p; lia)) as Hpp.
  destruct quot_rem_nonneg as [Eq Er].
  unfold quo_tail. cbv zeta. destruct (Z.eqb_spec B1 0); [lia|]. rewrite Eq, Er.
  rewrite (nd_ok est HE). cbn [bind]. rewrite Hqd. fold p.
  (* the specification's integer rounding, on A3 / B1 *)
  set (m := rndZ (rounding c) ng A3 B1).
  assert (Hsc := scale_cross E0 0 ltac:(lia) ltac:(lia)).
  destruct (scale_frac a b (shift - E0)) as [n1 d1] eqn:Esc. destruct Hsc as [Hd1 Hcross].
  change (10 ^ 0) with 1 in Hcross. rewrite Z.mul_1_r in Hcross.
  destruct (rndZ_ratio (rounding c) ng n1 d1 A3 B1 Hd1 HB Hcross) as [Hm Hex]. fold m in Hm. fold rem in Hex.
  pose proof (rndZ_bounds (rounding c) ng A3 B1 ltac:(lia) HB) as Hmb. fold m q in Hmb.
  (* the rounded coefficient after a possible carry *)
  set (me := if ndigits m >? p then (m / 10, E0 + 1) else (m, E0)).
  assert (Hme : ndigits (fst me) = p /\ 10 ^ (p - 1) <= fst me /\ (snd me = E0 \/ snd me = E0 + 1)).
  { unfold me. destruct (Z.gtb_spec (ndigits m) p) as [Hc|Hnc]; cbn [fst snd].
    - assert (m = q + 1).
      { destruct (Z.eq_dec m q) as [E|E]; [rewrite E in Hc; lia|lia]. }
      assert (Hc10 : q + 1 = 10 ^ p).
      { rewrite <- Hqd. apply ndigits_succ_carry; [lia|]. rewrite <- H. lia. }
      rewrite H, Hc10.
      assert (E10 : 10 ^ p / 10 = 10 ^ (p - 1)).
      { replace p with ((p - 1) + 1) at 1 by lia. rewrite pow10_succ by (unfold p; lia). rewrite Z.mul_comm, Z.div_mul by lia. reflexivity. }
      rewrite E10. rewrite ndigits_pow10 by (unfold p; lia). split; [lia|]. split; [lia|]. right; reflexivity.
    - pose proof (ndigits_mono q m ltac:(lia)). split; [lia|]. split; [lia|]. left; reflexivity. }
  destruct Hme as (Hd1' & Hlo1 & Hs1). set (m1 := fst me) in *. set (e1 := snd me) in *.
  (* the specification *)
  assert (HS : S = if (e1 + p - 1 >? emax c)
                   then mkSround (SInf ng) true false true
                   else mkSround (SFin ng m1 e1) (negb (rem =? 0)) false false).
  { unfold S, spec_round_nz. cbn [xnum xden xexp xneg]. rewrite k_eq. cbv zeta.
    replace (Z.max (E0 + p - p) (emin c - p + 1)) with E0 by lims.
    rewrite Esc. rewrite Hm, Hex.
    destruct (Z.ltb_spec (E0 + p - 1) (emin c)); [lims|].
    assert (Hpair : (if ndigits m >? p then (m / 10, E0 + 1) else (m, E0)) = (m1, e1)) by (unfold m1, e1, me; destruct (ndigits m >? p); reflexivity).
    rewrite Hpair. rewrite Hd1'.
    replace (negb (m1 =? 0)) with true by (symmetry; apply negb_true_iff, Z.eqb_neq; lia). cbn [andb].
    destruct (e1 + p - 1 >? emax c); reflexivity. }
  (* the model reaches setExponent with coefficient m1, exponent sum e1 and flags res1 *)
  set (res1 := if rem =? 0 then c0 else fInexact ||| fRounded).
  assert (Hmodel : exists nd1 sh1, (nd1 = unknownNumDigits \/ nd1 = ndigits m1) /\ sh1 - adjc - (p - 1) = e1 /\ in_lim sh1 /\
     (if negb (rem =? 0)
      then (if shift + - adjc + - (p - 1) + p - 1 >=? emin c
            then (if should_add_one (rounding c) q ng (cmpZ (rem * bigTwo) B1)
                  then (do (q2, shift2) <- round_add_one est q shift; Ok (q2, unknownNumDigits, fInexact ||| fRounded, shift2, p - 1))
                  else Ok (q, p, fInexact ||| fRounded, shift, p - 1))
            else Ok (q * bigTen + bigOne, p + 1, c0, shift, p - 1 + 1))
      else Ok (q, p, c0, shift, p - 1)) = Ok (m1, nd1, res1, sh1, p - 1)).
  { unfold res1. destruct (Z.eqb_spec rem 0) as [Hr0|Hr0]; cbn [negb].
    - (* exact quotient *)
      assert (Hmq : m = q) by (unfold m; rewrite rndZ_exact by exact Hr0; reflexivity).
      assert (Hme2 : me = (q, E0)) by (unfold me; rewrite Hmq, Hqd; destruct (Z.gtb_spec p p); [lia|reflexivity]).
      exists p, shift. unfold m1, e1. rewrite Hme2. cbn [fst snd]. rewrite Hqd.
      refine (conj _ (conj _ (conj _ _))); [right; reflexivity|unfold E0; lia|assumption|reflexivity].
    - destruct (Z.geb_spec (shift + - adjc + - (p - 1) + p - 1) (emin c)) as [_|Hlt]; [|lims].
      unfold bigTwo. rewrite (Z.mul_comm rem 2).
      pose proof (sao_rndZ (rounding c) ng A3 B1 ltac:(lia) HB Hr0) as Hsao. fold q rem m in Hsao.
      destruct (should_add_one (rounding c) q ng (cmpZ (2 * rem) B1)).
      + (* one is added; an all-nines quotient carries *)
        rewrite (round_add_one_spec est HE q shift) by lia. cbn [bind].
        assert (Hm2 : m = q + 1) by (symmetry; exact Hsao). rewrite Hqd.
        unfold m1, e1, me. rewrite Hm2.
        destruct (Z.gtb_spec (ndigits (q + 1)) p); cbn [fst snd].
        * exists unknownNumDigits, (shift + 1). refine (conj _ (conj _ (conj _ _))); [left; reflexivity|unfold E0; lia|lims|reflexivity].
        * exists unknownNumDigits, shift. refine (conj _ (conj _ (conj _ _))); [left; reflexivity|unfold E0; lia|assumption|reflexivity].
      + assert (Hm2 : m = q) by (symmetry; exact Hsao). unfold m1, e1, me. rewrite Hm2, Hqd. destruct (Z.gtb_spec p p); [lia|]. cbn [fst snd].
        exists p, shift. rewrite Hqd. refine (conj _ (conj _ (conj _ _))); [right; reflexivity|unfold E0; lia|assumption|reflexivity]. }
  destruct Hmodel as (nd1 & sh1 & Hnd1 & He1 & Hsh1 & Hmodel). rewrite Hmodel. cbn [bind]. clearbody m1 e1.
  assert (Hsum : sum_exps [sh1; - adjc; - (p - 1)] 0 = inr e1).
  { rewrite sum_exps_3; [f_equal; lia|assumption|assumption|lims]. }
  assert (Hlim1 : in_lim (e1 + ndigits m1 - 1)) by (rewrite Hd1'; destruct Hs1 as [-> | ->]; lims).
  rewrite HS.
  destruct (Z.gtb_spec (e1 + p - 1) (emax c)) as [Hov|Hnov].
  - rewrite (se_overflow est HE c (mkDec Finite ng 0 m1) nd1 res1 [sh1; - adjc; - (p - 1)] e1);
      try assumption; try reflexivity; cbn [coeff]; try lia; try (rewrite Hd1'; destruct Hs1 as [-> | ->]; lims).
    destruct (Z.eqb_spec m1 0); [lia|]. cbn [bind ret].
    eexists; eexists; split; [reflexivity|].
    unfold agrees, res1. cbn [s_res s_inexact s_subnormal s_overflow andb].
    repeat split; try solve [destruct (rem =? 0); reflexivity]; try discriminate.
    unfold matches, set_exp, set_form. cbn [form_of neg]. rewrite Bool.eqb_reflx. reflexivity.
  - rewrite (se_normal est HE c (mkDec Finite ng 0 m1) nd1 res1 [sh1; - adjc; - (p - 1)] e1);
      try assumption; try reflexivity; cbn [coeff]; try lia; try (rewrite Hd1'; destruct Hs1 as [-> | ->]; lims).
    cbn [bind ret].
    eexists; eexists; split; [reflexivity|].
    unfold agrees, res1. cbn [s_res s_inexact s_subnormal s_overflow andb].
    repeat split; try solve [destruct (rem =? 0); reflexivity];
      try solve [intros _ HI; destruct (rem =? 0); [discriminate HI|reflexivity]].
    + unfold matches, set_exp. cbn [form_of neg coeff exp form_eqb andb].
      rewrite Bool.eqb_reflx. destruct (Z.leb_spec 0 m1); [|lia]. cbn [andb]. apply value_eqb_refl.
    + intros _. unfold fits, set_exp. cbn [coeff exp]. rewrite Hd1'.
      destruct (Z.leb_spec 0 m1); [|lia]. cbn [andb]. fold p.
      destruct (Z.leb_spec p p); [|lia]. rewrite orb_true_r. cbn [andb].
      destruct (Z.leb_spec (e1 + p - 1) (emax c)); [|lia]. cbn [andb].
      destruct (Z.leb_spec (emin c - p + 1) e1); [apply orb_true_r|destruct Hs1 as [E | E]; rewrite E in *; lims].
Qed.

Lemma cor_c0_l f : c0 ||| f = f.
Proof. destruct f; reflexivity. Qed.

(* ----- below the normal range: Quo keeps the remainder as a sticky digit, setExponent rounds once to Etiny ----- *)
Lemma tail_subnormal : adj < emin c ->
  exists d f, quo_tail c ng shift A3 B1 adjc = Ok (finish c d f) /\ agrees c d f S.
Proof.
  intros Hsub. pose proof B1_pos as HB. pose proof A3_pos as HA. pose proof q_bounds as Hqb. pose proof q_digits as Hqd.
  pose proof (pow10_pos (p - 1) ltac:(unfold p; lia)) as Hpp.
  destruct quot_rem_nonneg as [Eq Er].
  unfold quo_tail. cbv zeta. destruct (Z.eqb_spec B1 0); [lia|]. rewrite Eq, Er.
  rewrite (nd_ok est HE). cbn [bind]. rewrite Hqd. fold p.
  set (j := et - E0).
  assert (Hj : 1 <= j) by (unfold j; lims).
  pose proof (pow10_pos j ltac:(lia)) as HT.
  set (D := B1 * 10 ^ j).
  assert (HD : 0 < D) by (unfold D; nia).
  set (m := rndZ (rounding c) ng A3 D).
  (* the specification rounds (a/b)*10^(shift - et), which is A3 / D *)
  assert (Hsc := scale_cross et j ltac:(unfold j; lia) ltac:(lia)).
  destruct (scale_frac a b (shift - et)) as [n1 d1] eqn:Esc. destruct Hsc as [Hd1 Hcross]. fold D in Hcross.
  destruct (rndZ_ratio (rounding c) ng n1 d1 A3 D Hd1 HD Hcross) as [Hm Hex]. fold m in Hm.
  (* m <= 10^(p-1): at most p digits, no carry beyond *)
  assert (Hfloor : A3 / D = q / 10 ^ j) by (unfold D, q; rewrite Z.div_div by lia; reflexivity).
  assert (Hmb : 0 <= m <= 10 ^ (p - 1)).
  { pose proof (rndZ_bounds (rounding c) ng A3 D ltac:(lia) HD) as Hbd. fold m in Hbd. rewrite Hfloor in Hbd.
    assert (0 <= q / 10 ^ j) by (apply Z.div_pos; lia).
    assert (Hq : q / 10 ^ j < 10 ^ (p - 1)).
    { apply Z.div_lt_upper_bound; [lia|].
      assert (10 ^ p <= 10 ^ (j + (p - 1))) by (apply pow10_le; unfold p in *; lia).
      rewrite pow10_add in H0 by (unfold p in *; lia). lia. }
    lia. }
  assert (Hmd : ndigits m <= p).
  { pose proof (ndigits_mono m (10 ^ (p - 1)) ltac:(lia)) as Hmo. rewrite ndigits_pow10 in Hmo by (unfold p; lia). lia. }
  assert (HS : S = mkSround (SFin ng m et) (negb (A3 mod D =? 0)) true false).
  { unfold S, spec_round_nz. cbn [xnum xden xexp xneg]. rewrite k_eq. cbv zeta.
    replace (Z.max (E0 + p - p) (emin c - p + 1)) with et by lims.
    rewrite Esc. rewrite Hm, Hex.
    destruct (Z.gtb_spec (ndigits m) p); [lia|].
    destruct (Z.ltb_spec (E0 + p - 1) (emin c)); [|lims].
    destruct (Z.eqb_spec m 0) as [->|Hm0]; cbn [negb andb]; [reflexivity|].
    pose proof (ndigits_pos m).
    destruct (Z.gtb_spec (et + ndigits m - 1) (emax c)); [lims|reflexivity]. }
  (* the model: coefficient n handed to setExponent with exponent sum E0 - t, t = 0 (exact) or 1 (sticky) *)
  assert (Hmodel : exists n t nd1, 0 < n /\ (t = 0 \/ t = 1) /\ nd1 = ndigits n /\ ndigits n = p + t /\
     rndZ (rounding c) ng n (10 ^ (j + t)) = m /\ (n mod 10 ^ (j + t) =? 0) = (A3 mod D =? 0) /\
     (if negb (rem =? 0)
      then (if shift + - adjc + - (p - 1) + p - 1 >=? emin c
            then (if should_add_one (rounding c) q ng (cmpZ (rem * bigTwo) B1)
                  then (do (q2, shift2) <- round_add_one est q shift; Ok (q2, unknownNumDigits, fInexact ||| fRounded, shift2, p - 1))
                  else Ok (q, p, fInexact ||| fRounded, shift, p - 1))
            else Ok (q * bigTen + bigOne, p + 1, c0, shift, p - 1 + 1))
      else Ok (q, p, c0, shift, p - 1)) = Ok (n, nd1, c0, shift, p - 1 + t)).
  { destruct (Z.eqb_spec rem 0) as [Hr0|Hr0]; cbn [negb].
    - (* exact quotient: A3 = q * B1 *)
      exists q, 0, p.
      assert (HA3 : A3 = q * B1).
      { pose proof (Z.div_mod A3 B1 ltac:(lia)) as Dm. fold q rem in Dm. rewrite Hr0 in Dm. lia. }
      destruct (rndZ_ratio (rounding c) ng q (10 ^ j) A3 D HT HD ltac:(unfold D; rewrite HA3; ring)) as [R1 R2].
      rewrite !Z.add_0_r.
      refine (conj _ (conj _ (conj _ (conj _ (conj _ (conj _ _)))))).
      + lia.
      + left; reflexivity.
      + symmetry; exact Hqd.
      + exact Hqd.
      + exact R1.
      + exact R2.
      + reflexivity.
    - (* sticky digit *)
      destruct (Z.geb_spec (shift + - adjc + - (p - 1) + p - 1) (emin c)) as [Hge|_]; [lims|].
      exists (q * bigTen + bigOne), 1, (p + 1). unfold bigTen, bigOne.
      assert (Hrem : 0 < rem < B1) by (pose proof (Z.mod_pos_bound A3 B1 HB); fold rem in H; lia).
      assert (HA3 : A3 = q * B1 + rem).
      { pose proof (Z.div_mod A3 B1 ltac:(lia)) as Dm. fold q rem in Dm. lia. }
      destruct (rndZ_sticky (rounding c) ng q B1 rem j ltac:(lia) Hrem Hj) as (R1 & R2 & R3).
      rewrite <- HA3 in R1, R3. fold D in R1, R3. fold m in R1.
      replace (q * 10 + 1) with (10 * q + 1) by lia.
      assert (Hnd : ndigits (10 * q + 1) = p + 1).
      { apply ndigits_of_bounds; [lia|]. replace (p + 1 - 1) with ((p - 1) + 1) by lia.
        rewrite !pow10_succ by (unfold p in *; lia). lia. }
      refine (conj _ (conj _ (conj _ (conj _ (conj _ (conj _ _)))))).
      + lia.
      + right; reflexivity.
      + symmetry; exact Hnd.
      + exact Hnd.
      + exact R1.
      + rewrite R2, R3. reflexivity.
      + reflexivity. }
  destruct Hmodel as (cn & t & nd1 & Hn & Ht & Hnd1 & Hndn & Hrn & Hmodn & Hmodel). rewrite Hmodel. cbn [bind].
  assert (Hsum : sum_exps [shift; - adjc; - (p - 1 + t)] 0 = inr (E0 - t)).
  { rewrite sum_exps_3; [f_equal; unfold E0; lia|assumption|assumption|destruct Ht; lims]. }
  pose proof (se_subnormal_round est HE c (mkDec Finite ng 0 cn) nd1 c0 [shift; - adjc; - (p - 1 + t)] (E0 - t)) as HR.
  cbv zeta in HR. cbn [coeff form_of neg] in HR.
  rewrite HR; try assumption; try reflexivity; try lia; try (right; assumption); try (rewrite Hndn; destruct Ht; lims).
  clear HR.
  replace (emin c - (prec c - 1)) with et by lims.
  replace (et - (E0 - t)) with (j + t) by (unfold j; lia).
  rewrite Hrn, Hmodn. destruct (Z.eqb_spec cn 0); [lia|]. cbn [bind ret].
  rewrite HS. eexists; eexists; split; [rewrite cor_c0_l; reflexivity|].
  unfold agrees. cbn [s_res s_inexact s_subnormal s_overflow andb].
  repeat split;
    try solve [destruct (A3 mod D =? 0), (m =? 0); reflexivity];
    try solve [intros _ _; destruct (A3 mod D =? 0), (m =? 0); reflexivity].
  + unfold matches, set_exp, set_coeff. cbn [form_of neg coeff exp form_eqb andb].
    rewrite Bool.eqb_reflx. destruct (Z.leb_spec 0 m); [|lia]. cbn [andb]. apply value_eqb_refl.
  + intros _. unfold fits, set_exp, set_coeff. cbn [coeff exp].
    destruct (Z.leb_spec 0 m); [|lia]. cbn [andb]. fold p.
    destruct (Z.leb_spec (ndigits m) p); [|lia]. rewrite orb_true_r. cbn [andb].
    pose proof (ndigits_pos m).
    destruct (Z.leb_spec (et + ndigits m - 1) (emax c)); [|lims]. cbn [andb].
    destruct (Z.leb_spec (emin c - p + 1) et); [apply orb_true_r|lims].
Qed.

(* every non-zero finite quotient *)
Theorem tail_correct :
  exists d f, quo_tail c ng shift A3 B1 adjc = Ok (finish c d f) /\ agrees c d f S.
Proof.
  destruct (Z.lt_ge_cases adj (emin c)); [apply tail_subnormal|apply tail_normal]; assumption.
Qed.

End Tail.
End WithEst.

(* ---------- Context.Quo ---------- *)
Definition quo_limits (c : ctx) (x y : dec) : Prop :=
  let shift := exp x - exp y in
  let k0 := ndigits (coeff x) - ndigits (coeff y) in
  let adj := mag_frac (coeff x) (coeff y) + shift - 1 in
  in_lim shift /\ in_lim (shift + 1) /\ in_lim k0 /\ in_lim (k0 - 1) /\ prec c + 1 <= MaxExponent /\
  MinExponent <= adj /\ adj + 1 <= MaxExponent.

Section WithEst2.
Variable est : Z -> Z.
Hypothesis HE : est_in_range est.

Lemma same_digits_bounds u v : 0 < u -> 0 < v -> ndigits u = ndigits v -> u < 10 * v /\ v < 10 * u.
Proof.
  intros Hu Hv E. pose proof (ndigits_lo u Hu). pose proof (ndigits_hi u ltac:(lia)).
  pose proof (ndigits_lo v Hv). pose proof (ndigits_hi v ltac:(lia)). rewrite E in *.
  pose proof (ndigits_pos v).
  assert (10 ^ ndigits v = 10 * 10 ^ (ndigits v - 1)) by (replace (ndigits v) with ((ndigits v - 1) + 1) at 1 by lia; apply pow10_succ; lia).
  lia.
Qed.

Theorem quo_correct c x y : ctx_ok c -> finite_nn x -> finite_nn y -> 0 < coeff x -> 0 < coeff y ->
  quo_limits c x y ->
  exists d f, ctx_quo est c x y = Ok (finish c d f) /\
    agrees c d f (spec_round_nz (prec c) (emin c) (emax c) (rounding c) (exact_quo x y)).
Proof.
  intros [Hp Hr] [Hfx _] [Hfy _] Ha Hb (L1 & L1' & L2 & L3 & L4 & L5 & L6).
  unfold ctx_quo, quo_specials. rewrite (not_nan_finite x y Hfx). unfold is_nan. rewrite Hfy, Hfx. cbn [form_eqb orb andb].
  assert (Zy : is_zero y = false) by (rewrite (is_zero_finite y Hfy); apply Z.eqb_neq; lia).
  assert (Zx : is_zero x = false) by (rewrite (is_zero_finite x Hfx); apply Z.eqb_neq; lia).
  rewrite Zy. destruct (Z.eqb_spec (prec c) 0); [lia|]. rewrite Zx.
  rewrite !Z.abs_eq by lia. rewrite !(nd_ok est HE). cbn [bind].
  set (a := coeff x) in *. set (b := coeff y) in *. set (na := ndigits a) in *. set (nb := ndigits b) in *.
  set (k0 := na - nb) in *. set (shift := exp x - exp y) in *. set (p := prec c) in *.
  pose proof (pow10_pos (p - 1) ltac:(lia)) as Hpp.
  unfold exact_quo. fold a b shift.
  (* generic closing step: the remaining computation is quo_tail on A3 = a*10^al, B1 = b*10^be *)
  assert (Close : forall al be adjc A3 B1, 0 <= al -> 0 <= be -> A3 = a * 10 ^ al -> B1 = b * 10 ^ be ->
            al - be = adjc + p - 1 -> B1 * 10 ^ (p - 1) <= A3 < B1 * 10 ^ p -> mag_frac a b = 1 - adjc -> in_lim (- adjc) ->
            exists d f, quo_tail est c (xorb (neg x) (neg y)) shift A3 B1 adjc = Ok (finish c d f) /\
              agrees c d f (spec_round_nz p (emin c) (emax c) (rounding c) (mkExact (xorb (neg x) (neg y)) a b shift))).
  { intros al be adjc A3 B1 Hal Hbe -> -> Hd Hn Hm Hadjc.
    apply (tail_correct est HE c (xorb (neg x) (neg y)) shift a b al be adjc); try assumption; fold p; try lia. }
  assert (P10 : 10 ^ p = 10 * 10 ^ (p - 1)) by (replace p with ((p - 1) + 1) at 1 by lia; rewrite pow10_succ by lia; reflexivity).
  destruct (Z.ltb_spec k0 0) as [Hk|Hk].
  - (* the dividend has fewer digits: it is scaled up *)
    rewrite table_exp10_ok by lia. cbn [bind].
    assert (Hsd : ndigits (a * 10 ^ (- k0)) = nb) by (rewrite ndigits_mul_pow10 by lia; unfold k0, na; lia).
    pose proof (pow10_pos (- k0) ltac:(lia)) as Hk10.
    destruct (same_digits_bounds (a * 10 ^ (- k0)) b ltac:(nia) Hb Hsd) as [S1 S2].
    destruct (Z.ltb_spec (a * 10 ^ (- k0)) b) as [Hlt|Hge].
    + rewrite table_exp10_ok by lia. cbn [bind]. unfold bigTen.
      apply (Close (- k0 + 1 + (p - 1)) 0 (- k0 + 1)); try lia.
      * rewrite !pow10_add by lia. change (10 ^ 1) with 10. ring.
      * rewrite P10. nia.
      * unfold mag_frac. fold na nb k0. destruct (Z.leb_spec 0 k0); [lia|].
        destruct (Z.leb_spec b (a * 10 ^ (- k0))); lia.
      * unfold in_lim in *. lia.
    + rewrite table_exp10_ok by lia. cbn [bind].
      apply (Close (- k0 + (p - 1)) 0 (- k0)); try lia.
      * rewrite !pow10_add by lia. ring.
      * rewrite P10. nia.
      * unfold mag_frac. fold na nb k0. destruct (Z.leb_spec 0 k0); [lia|].
        destruct (Z.leb_spec b (a * 10 ^ (- k0))); lia.
      * unfold in_lim in *. lia.
  - assert (Hsd : ndigits a = ndigits (b * 10 ^ k0)) by (rewrite ndigits_mul_pow10 by lia; unfold k0, na, nb; lia).
    pose proof (pow10_pos k0 ltac:(lia)) as Hk10.
    destruct (same_digits_bounds a (b * 10 ^ k0) Ha ltac:(nia) Hsd) as [S1 S2].
    assert (Hdiv : (if k0 >? 0 then do e <- table_exp10 k0; Ok (a, b * e) else Ok (a, b)) = Ok (a, b * 10 ^ k0)).
    { destruct (Z.gtb_spec k0 0).
      - rewrite table_exp10_ok by lia. reflexivity.
      - assert (k0 = 0) by lia. rewrite H0. change (10 ^ 0) with 1. rewrite Z.mul_1_r. reflexivity. }
    rewrite Hdiv. cbn [bind].
    destruct (Z.ltb_spec a (b * 10 ^ k0)) as [Hlt|Hge].
    + rewrite table_exp10_ok by lia. cbn [bind]. unfold bigTen.
      apply (Close (1 + (p - 1)) k0 (- k0 + 1)); try lia.
      * rewrite !pow10_add by lia. change (10 ^ 1) with 10. ring.
      * rewrite P10. nia.
      * unfold mag_frac. fold na nb k0. destruct (Z.leb_spec 0 k0); [|lia].
        destruct (Z.leb_spec (b * 10 ^ k0) a); lia.
      * unfold in_lim in *. lia.
    + rewrite table_exp10_ok by lia. cbn [bind].
      apply (Close (p - 1) k0 (- k0)); try lia.
      * rewrite P10. nia.
      * unfold mag_frac. fold na nb k0. destruct (Z.leb_spec 0 k0); [|lia].
        destruct (Z.leb_spec (b * 10 ^ k0) a); lia.
      * unfold in_lim in *. lia.
Qed.

(* a zero dividend: the quotient is a zero of the exclusive-or sign whose exponent is clamped into the context *)
Theorem quo_zero_correct c x y : ctx_ok c -> form_of x = Finite -> coeff x = 0 -> finite_nn y -> 0 < coeff y ->
  in_lim (exp x - exp y) ->
  exists d f, ctx_quo est c x y = Ok (finish c d f) /\
    zero_post c (mkDec Finite (xorb (neg x) (neg y)) (exp x - exp y) 0) d f.
Proof.
  intros [Hp Hr] Hfx Hz [Hfy _] Hb Hl.
  unfold ctx_quo, quo_specials. rewrite (not_nan_finite x y Hfx). unfold is_nan. rewrite Hfy, Hfx. cbn [form_eqb orb andb].
  assert (Zy : is_zero y = false) by (rewrite (is_zero_finite y Hfy); apply Z.eqb_neq; lia).
  assert (Zx : is_zero x = true) by (rewrite (is_zero_finite x Hfx); apply Z.eqb_eq; assumption).
  rewrite Zy. destruct (Z.eqb_spec (prec c) 0); [lia|]. rewrite Zx.
  set (ng := xorb (neg x) (neg y)). set (sh := exp x - exp y) in *.
  set (z := mkDec Finite ng 0 0).
  assert (Hsum : sum_exps [sh] 0 = inr sh) by (rewrite sum_exps_1 by assumption; f_equal).
  assert (Hlim : in_lim (sh + ndigits (coeff z) - 1)) by (cbn [coeff z]; change (ndigits 0) with 1; unfold in_lim in *; lia).
  assert (Hfit : forall e, emin c - prec c + 1 <= e <= emax c -> fits c (mkDec Finite ng e 0) = true).
  { intros e He. unfold fits. cbn [coeff exp Z.leb Z.eqb orb andb]. change (ndigits 0) with 1.
    destruct (Z.leb_spec 1 (prec c)); [|lia]. rewrite orb_true_r. cbn [andb].
    destruct (Z.leb_spec (e + 1 - 1) (emax c)); [reflexivity|lia]. }
  destruct (Z.lt_ge_cases sh (emin c)) as [Hlo|Hlo].
  - destruct (Z.le_gt_cases (emin c - (prec c - 1)) sh) as [He|He].
    + rewrite (se_subnormal_exact est HE c z unknownNumDigits c0 [sh] sh);
        try assumption; try reflexivity; try (left; reflexivity); try (cbn [coeff z]; change (ndigits 0) with 1; lia).
      cbn [bind ret coeff z Z.eqb]. eexists; eexists; split; [reflexivity|].
      unfold zero_post, set_exp. cbn [form_of coeff neg exp z uf c0 Inexact Subnormal andb].
      repeat split; try reflexivity; try lia. apply Hfit. lia.
    + pose proof (se_subnormal_round est HE c z unknownNumDigits c0 [sh] sh) as HR. cbv zeta in HR.
      rewrite HR; try assumption; try reflexivity; try (left; reflexivity); try (cbn [coeff z]; change (ndigits 0) with 1; lia).
      clear HR. cbn [coeff z neg].
      assert (Hk : 0 < 10 ^ (emin c - (prec c - 1) - sh)) by (apply pow10_pos; lia).
      rewrite Z.mod_0_l by lia.
      assert (Hm : rndZ (rounding c) ng 0 (10 ^ (emin c - (prec c - 1) - sh)) = 0).
      { rewrite rndZ_exact; [apply Z.div_0_l|apply Z.mod_0_l]; lia. }
      rewrite Hm. cbn [Z.eqb bind ret]. eexists; eexists; split; [reflexivity|].
      unfold zero_post, set_exp, set_coeff. cbn [form_of coeff neg exp z].
      repeat split; try reflexivity; try lia. apply Hfit. lia.
  - destruct (Z.le_gt_cases sh (emax c)) as [Hhi|Hhi].
    + rewrite (se_normal est HE c z unknownNumDigits c0 [sh] sh);
        try assumption; try reflexivity; try (left; reflexivity); try (cbn [coeff z]; change (ndigits 0) with 1; lia).
      cbn [bind ret]. eexists; eexists; split; [reflexivity|].
      unfold zero_post, set_exp. cbn [form_of coeff neg exp z uf c0 Inexact Subnormal andb].
      repeat split; try reflexivity; try lia. apply Hfit. lia.
    + rewrite (se_overflow est HE c z unknownNumDigits c0 [sh] sh);
        try assumption; try reflexivity; try (left; reflexivity); try (cbn [coeff z]; change (ndigits 0) with 1; lia).
      cbn [coeff z Z.eqb bind ret]. eexists; eexists; split; [reflexivity|].
      unfold zero_post, set_exp. cbn [form_of coeff neg exp z].
      repeat split; try reflexivity; try lia. apply Hfit. lia.
Qed.

(* both cases in the vocabulary of C01 / C02 / C07 *)
Theorem quo_op_post c x y : ctx_ok c -> finite_nn x -> finite_nn y -> 0 < coeff y ->
  (coeff x = 0 -> in_lim (exp x - exp y)) -> (0 < coeff x -> quo_limits c x y) ->
  exists d f, ctx_quo est c x y = Ok (finish c d f) /\ op_post c (exact_quo x y) d f.
Proof.
  intros Hc [Hfx Hnx] Hy Hb Hz Hnz. unfold op_post, exact_quo. cbn [xnum xneg xexp].
  destruct (Z.eqb_spec (coeff x) 0) as [E|E].
  - apply quo_zero_correct; auto.
  - apply quo_correct; try assumption; try (split; assumption); try lia. apply Hnz. lia.
Qed.

End WithEst2.
