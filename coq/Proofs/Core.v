(* Facts used by every later proof: the digit-count oracle, powers of ten. *)
From Coq Require Import ZArith Lia Bool.
From Flocq Require Import Core.Zaux Core.Digits.
From Apd Require Import Generated.Consts Model.Base Model.NumDigits Proofs.Digits.
Open Scope Z_scope.

(* The float64 estimate of NumDigits' big path is a parameter [est] of the model.  All theorems hold
   for EVERY estimate in range; Go's own estimate [go_est] is proven in range up to 8320 bits
   (Proofs/EstRange.v) and checked on every harness case beyond (failure code 31). *)
Definition est_in_range (est : Z -> Z) : Prop :=
  forall bl, digitsTableSize < bl -> est_ok (est bl) bl = true.

Theorem nd_ok est : est_in_range est -> forall b, num_digits_with est b = Ok (ndigits b).
Proof.
  intros HE b.
  destruct (Z.le_gt_cases (bitlen b) digitsTableSize) as [H|H].
  - apply num_digits_table; assumption.
  - apply num_digits_big; [lia|]. apply HE. lia.
Qed.

(* non-vacuity: an estimate in range exists for every bit length (the exact one) *)
Definition est_exact (bl : Z) : Z := ndigits (2 ^ bl) - 1.
Lemma est_exact_in_range : est_in_range est_exact.
Proof.
  intros bl Hbl. unfold digitsTableSize in Hbl. unfold est_ok, est_exact.
  assert (Hp : 0 < 2 ^ bl) by (apply Z.pow_pos_nonneg; lia).
  assert (Hne : 2 ^ bl <> 0) by lia.
  pose proof (ndigits_bounds (2 ^ bl) Hne) as [Hlo Hhi].
  pose proof (ndigits_pos (2 ^ bl)) as Hnd.
  rewrite Z.abs_eq in Hlo, Hhi by lia.
  replace (ndigits (2 ^ bl) - 1 + 1) with (ndigits (2 ^ bl)) by lia.
  apply andb_true_intro; split; [apply andb_true_intro; split|]; apply Z.leb_le; lia.
Qed.

Lemma pow10_add a b : 0 <= a -> 0 <= b -> 10 ^ (a + b) = 10 ^ a * 10 ^ b.
Proof. intros; apply Z.pow_add_r; assumption. Qed.

Lemma pow10_succ a : 0 <= a -> 10 ^ (a + 1) = 10 * 10 ^ a.
Proof. intros. replace (a + 1) with (Z.succ a) by lia. apply Z.pow_succ_r; assumption. Qed.

Lemma pow10_le a b : 0 <= a <= b -> 10 ^ a <= 10 ^ b.
Proof. intros; apply Z.pow_le_mono_r; lia. Qed.

Lemma pow10_lt a b : 0 <= a < b -> 10 ^ a < 10 ^ b.
Proof. intros; apply Z.pow_lt_mono_r; lia. Qed.

Lemma pow10_ge1 a : 0 <= a -> 1 <= 10 ^ a.
Proof. intros. pose proof (pow10_pos a H). lia. Qed.

(* digit bounds for non-negative integers, in the form the proofs use *)
Lemma ndigits_lo c : 0 < c -> 10 ^ (ndigits c - 1) <= c.
Proof. intros H. pose proof (ndigits_bounds c ltac:(lia)). rewrite Z.abs_eq in *; lia. Qed.
Lemma ndigits_hi c : 0 <= c -> c < 10 ^ ndigits c.
Proof.
  intros H. destruct (Z.eq_dec c 0) as [->|Hn]; [rewrite ndigits_zero; simpl; lia|].
  pose proof (ndigits_bounds c Hn). rewrite Z.abs_eq in *; lia.
Qed.
Lemma ndigits_of_bounds c e : 0 < c -> 10 ^ (e - 1) <= c < 10 ^ e -> ndigits c = e.
Proof. intros Hc H. apply ndigits_unique; [lia|]. rewrite Z.abs_eq by lia. exact H. Qed.

(* c * 10^k has k more digits *)
Lemma ndigits_mul_pow10 c k : 0 < c -> 0 <= k -> ndigits (c * 10 ^ k) = ndigits c + k.
Proof.
  intros Hc Hk. pose proof (pow10_pos k Hk) as Hp.
  pose proof (ndigits_lo c Hc) as Hlo. pose proof (ndigits_hi c ltac:(lia)) as Hhi. pose proof (ndigits_pos c) as Hnd.
  apply ndigits_of_bounds; [nia|].
  replace (ndigits c + k - 1) with ((ndigits c - 1) + k) by lia.
  rewrite !pow10_add by lia. split; nia.
Qed.
