(* What Rounder.Round computes, as three equations (subnormal / digits to drop / nothing to drop). *)
From Coq Require Import ZArith Lia Bool.
From Apd Require Import Generated.Consts Model.Base Model.NumDigits Model.Decimal Spec.SpecZ Spec.Order
  Proofs.Digits Proofs.Core Proofs.CmpProofs Proofs.RoundBasics Proofs.SetExponent.
Open Scope Z_scope.

Section WithEst.
Variable est : Z -> Z.
Hypothesis HE : est_in_range est.

Section R.
Variables (r : rounder) (c : ctx) (x : dec) (b : bool).
Hypothesis Hfin : form_of x = Finite.
Hypothesis Hco : 0 <= coeff x.
Hypothesis Hp : 1 <= prec c.
Let nd := ndigits (coeff x).
Let adj := exp x + nd - 1.

Lemma dsign_pos : 0 < coeff x -> (dsign x =? 0) = false.
Proof.
  intros H. unfold dsign, is_finite. rewrite Hfin. cbn [form_eqb andb].
  destruct (Z.eqb_spec (coeff x) 0); [lia|]. destruct (neg x); reflexivity.
Qed.
Lemma dsign_zero : coeff x = 0 -> (dsign x =? 0) = true.
Proof. intros H. unfold dsign, is_finite. rewrite Hfin, H. reflexivity. Qed.

(* A: a non-zero value below the normal range is handed to setExponent at once *)
Lemma round_A : 0 < coeff x -> adj < emin c ->
  round_with est r c x b =
    do (d1, f) <- set_exponent est c x nd fSubnormal [exp x]; Ok (d1, fSubnormal ||| f).
Proof.
  intros Hnz Hadj. unfold round_with, is_finite. rewrite Hfin. cbn [form_eqb negb].
  rewrite (nd_ok est HE). cbn [bind]. fold nd.
  replace (prec c =? 0) with false by (symmetry; apply Z.eqb_neq; lia). rewrite andb_false_r.
  rewrite (dsign_pos Hnz). cbn [negb andb]. fold adj.
  destruct (Z.ltb_spec adj (emin c)); [reflexivity|lia].
Qed.

(* C: at most Precision digits and not subnormal (or zero): setExponent only *)
Lemma round_C : nd <= prec c -> (coeff x = 0 \/ emin c <= adj) ->
  round_with est r c x b = set_exponent est c x nd c0 [exp x; 0].
Proof.
  intros Hnd Hz. unfold round_with, is_finite. rewrite Hfin. cbn [form_eqb negb].
  rewrite (nd_ok est HE). cbn [bind]. fold nd.
  replace (prec c =? 0) with false by (symmetry; apply Z.eqb_neq; lia). rewrite andb_false_r.
  assert (Hsub : (negb (dsign x =? 0) && (exp x + nd - 1 <? emin c)) = false).
  { destruct Hz as [Hz|Hz].
    - rewrite (dsign_zero Hz). reflexivity.
    - fold adj. destruct (Z.ltb_spec adj (emin c)); [lia|]. apply andb_false_r. }
  rewrite Hsub. destruct (Z.gtb_spec (nd - prec c) 0); [lia|]. reflexivity.
Qed.

(* B: more than Precision digits: ONE integer rounding of coeff / 10^diff in mode r, with the sign
   of x, a possible carry out of all nines, then setExponent *)
Lemma round_B : 0 < coeff x -> emin c <= adj -> 0 < nd - prec c -> nd - prec c <= MaxExponent ->
  let diff := nd - prec c in
  let k := 10 ^ diff in
  let y := coeff x / k in
  let y' := rndZ r (neg x) (coeff x) k in
  let res1 := if coeff x mod k =? 0 then fRounded else fRounded ||| fInexact in
  let yd := if ndigits y' >? ndigits y then (y' / 10, diff + 1) else (y', diff) in
  round_with est r c x b =
    do (d2, f) <- set_exponent est c (set_coeff x (fst yd)) unknownNumDigits res1 [exp x; snd yd]; Ok (d2, res1 ||| f).
Proof.
  intros Hnz Hadj Hd1 Hd2 diff k y y' res1 yd.
  unfold round_with, is_finite. rewrite Hfin. cbn [form_eqb negb].
  rewrite (nd_ok est HE). cbn [bind]. fold nd.
  replace (prec c =? 0) with false by (symmetry; apply Z.eqb_neq; lia). rewrite andb_false_r.
  rewrite (dsign_pos Hnz). cbn [negb andb]. fold adj.
  destruct (Z.ltb_spec adj (emin c)); [lia|]. fold diff.
  destruct (Z.gtb_spec diff 0); [|lia].
  destruct (Z.gtb_spec diff MaxExponent); [lia|].
  destruct (Z.ltb_spec diff MinExponent); [unfold MinExponent in *; lia|].
  rewrite table_exp10_ok by lia. cbn [bind]. fold k.
  assert (Hk : 0 < k) by (apply pow10_pos; lia).
  rewrite Z.quot_div_nonneg, Z.rem_mod_nonneg by lia. fold y.
  pose proof (Z.mod_pos_bound (coeff x) k Hk) as Hr.
  assert (Hy : 0 <= y) by (apply Z.div_pos; lia).
  destruct (Z.eqb_spec (coeff x mod k) 0) as [Hz|Hnzr]; cbn [negb bind].
  - assert (Hy' : y' = y) by (unfold y'; apply rndZ_exact; assumption).
    unfold yd. clearbody y'. rewrite Hy'. destruct (Z.gtb_spec (ndigits y) (ndigits y)); [lia|]. reflexivity.
  - rewrite (dcmp_spec est HE) by (cbn; lia || reflexivity).
    cbn [bind]. unfold cmp_spec, vsign, d_half, dec_of_pair, decimalHalf. cbn [form_of neg exp coeff fst snd form_eqb andb].
    assert (Hnz' : (coeff x mod k =? 0) = false) by (apply Z.eqb_neq; assumption). rewrite Hnz'.
    change (5 <? 0) with false. change (Z.abs 5) with 5. change (5 =? 0) with false. cbv iota.
    change (1 <? 1) with false. change (1 >? 1) with false. change (1 =? 0) with false. cbv iota. cbn [andb].
    rewrite Z.mul_1_l. rewrite vcmp_half by lia. replace (- - diff) with diff by lia. fold k.
    rewrite <- cmpZ_eq.
    pose proof (sao_rndZ r (neg x) (coeff x) k Hco Hk Hnzr) as Hs. fold y y' in Hs. unfold yd. clearbody y'.
    destruct (should_add_one r y (neg x) (cmpZ (2 * (coeff x mod k)) k)).
    + rewrite (round_add_one_spec est HE) by assumption. cbn [bind]. rewrite <- Hs.
      destruct (ndigits (y + 1) >? ndigits y); reflexivity.
    + rewrite <- Hs. destruct (Z.gtb_spec (ndigits y) (ndigits y)); [lia|]. reflexivity.
Qed.

End R.
End WithEst.
