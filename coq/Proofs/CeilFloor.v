(* C09: Context.Ceil and Context.Floor on every finite operand.  Decimal.Modf splits x into the integer
   part (truncation toward zero) and the fraction; Ceil adds one when the fraction is positive, Floor
   subtracts one when it is negative, through Context.Add / Sub, i.e. ONE rounding of the integer q + 1
   to the context - exact whenever that integer fits the precision and the exponent range. *)
From Coq Require Import ZArith Lia Bool.
From Apd Require Import Generated.Consts Model.Base Model.NumDigits Model.Decimal Model.Context Spec.SpecZ Spec.Order
  Proofs.Digits Proofs.Core Proofs.CmpProofs Proofs.RoundBasics Proofs.SetExponent Proofs.RoundEq Proofs.RoundSpec Proofs.OpsProofs.
Open Scope Z_scope.

(* |x| truncated to an integer, and whether digits follow the decimal point *)
Definition int_part (x : dec) : Z := coeff x / 10 ^ (- exp x).
Definition has_frac (x : dec) : bool := negb (coeff x mod 10 ^ (- exp x) =? 0).

(* the integer the property prescribes, as sign and magnitude *)
Definition ceil_int (x : dec) : bool * Z :=
  if has_frac x && negb (neg x) then (false, int_part x + 1) else (neg x, int_part x).
Definition floor_int (x : dec) : bool * Z :=
  if has_frac x && neg x then (true, int_part x + 1) else (neg x, int_part x).

(* a small integer rounded by the specification is itself *)
Lemma spec_round_int_exact p a b mode ng n : 0 < n -> 1 <= p -> ndigits n <= p -> a - p + 1 <= 0 -> ndigits n - 1 <= b ->
  let S := spec_round_nz p a b mode (mkExact ng n 1 0) in
  s_inexact S = false /\ s_overflow S = false /\
  exists s, 0 <= s /\ s_res S = SFin ng (n * 10 ^ s) (- s).
Proof.
  intros Hn Hp Hd Ha Hb. unfold spec_round_nz. cbn [xnum xden xexp xneg].
  rewrite mag_frac_int by assumption. rewrite Z.add_0_r.
  set (er := Z.max (ndigits n - p) (a - p + 1)).
  assert (Her : er <= 0) by (unfold er; lia).
  unfold scale_frac. destruct (Z.leb_spec 0 (0 - er)); [|lia].
  rewrite rndZ_exact by apply Z.mod_1_r. rewrite Z.mod_1_r, Z.div_1_r. cbn [Z.eqb negb].
  assert (Hnd : ndigits (n * 10 ^ (0 - er)) = ndigits n + (0 - er)) by (apply ndigits_mul_pow10; lia).
  rewrite Hnd. destruct (Z.gtb_spec (ndigits n + (0 - er)) p); [unfold er in *; lia|].
  assert (Hpos : 0 < n * 10 ^ (0 - er)) by (pose proof (pow10_pos (0 - er) ltac:(lia)); nia).
  destruct (Z.eqb_spec (n * 10 ^ (0 - er)) 0); [lia|]. cbn [negb andb]. rewrite Hnd.
  destruct (Z.gtb_spec (er + (ndigits n + (0 - er)) - 1) b); [lia|].
  cbn [s_inexact s_overflow s_res]. repeat split. exists (0 - er). split; [lia|]. f_equal. lia.
Qed.

Section WithEst.
Variable est : Z -> Z.
Hypothesis HE : est_in_range est.

Lemma ceil_gt0 c x : form_of x = Finite -> 0 < exp x -> ctx_ceil est c x = Ok (mkResult (Some x) c0 ENone).
Proof.
  intros Hf He. unfold ctx_ceil, to_integral_specials. rewrite (not_nan_finite1 x Hf).
  unfold is_finite. rewrite Hf. cbn [form_eqb negb]. unfold modf.
  destruct (Z.gtb_spec (exp x) 0); [|lia]. cbn [bind]. unfold dsign, is_finite. cbn [form_of coeff form_eqb andb Z.eqb].
  reflexivity.
Qed.
Lemma floor_gt0 c x : form_of x = Finite -> 0 < exp x -> ctx_floor est c x = Ok (mkResult (Some x) c0 ENone).
Proof.
  intros Hf He. unfold ctx_floor, to_integral_specials. rewrite (not_nan_finite1 x Hf).
  unfold is_finite. rewrite Hf. cbn [form_eqb negb]. unfold modf.
  destruct (Z.gtb_spec (exp x) 0); [|lia]. cbn [bind]. unfold dsign, is_finite. cbn [form_of coeff form_eqb andb Z.eqb].
  reflexivity.
Qed.

(* the sign test on the fraction *)
Lemma frac_sign x F : dsign (mkDec F (neg x) (exp x) (coeff x mod 10 ^ (- exp x))) =
  if is_finite (mkDec F false 0 0) && negb (has_frac x) then 0 else if neg x then -1 else 1.
Proof.
  unfold dsign, has_frac, is_finite. cbn [form_of coeff neg]. rewrite Bool.negb_involutive. reflexivity.
Qed.

(* Ceil / Floor reduce to one Add / Sub of one, or to the integer part unchanged *)
Lemma ceil_le0 c x : form_of x = Finite -> 0 <= coeff x -> exp x <= 0 ->
  ctx_ceil est c x = if has_frac x && negb (neg x)
                     then ctx_add est c (mkDec Finite (neg x) 0 (int_part x)) d_one false
                     else Ok (mkResult (Some (mkDec Finite (neg x) 0 (int_part x))) c0 ENone).
Proof.
  intros Hf Hc He. unfold ctx_ceil, to_integral_specials. rewrite (not_nan_finite1 x Hf).
  unfold is_finite. rewrite Hf. cbn [form_eqb negb]. rewrite (modf_le0 est HE x He Hc). cbn [bind].
  replace (if - exp x >? ndigits (coeff x) then Finite else Finite) with Finite by (destruct (_ >? _); reflexivity).
  replace (if - exp x >? ndigits (coeff x) then form_of x else Finite) with Finite by (rewrite Hf; destruct (_ >? _); reflexivity).
  rewrite frac_sign. unfold is_finite. cbn [form_of form_eqb andb]. fold (int_part x).
  destruct (has_frac x); cbn [negb andb]; [|reflexivity]. destruct (neg x); reflexivity.
Qed.
Lemma floor_le0 c x : form_of x = Finite -> 0 <= coeff x -> exp x <= 0 ->
  ctx_floor est c x = if has_frac x && neg x
                      then ctx_add est c (mkDec Finite (neg x) 0 (int_part x)) d_one true
                      else Ok (mkResult (Some (mkDec Finite (neg x) 0 (int_part x))) c0 ENone).
Proof.
  intros Hf Hc He. unfold ctx_floor, to_integral_specials. rewrite (not_nan_finite1 x Hf).
  unfold is_finite. rewrite Hf. cbn [form_eqb negb]. rewrite (modf_le0 est HE x He Hc). cbn [bind].
  replace (if - exp x >? ndigits (coeff x) then Finite else Finite) with Finite by (destruct (_ >? _); reflexivity).
  replace (if - exp x >? ndigits (coeff x) then form_of x else Finite) with Finite by (rewrite Hf; destruct (_ >? _); reflexivity).
  rewrite frac_sign. unfold is_finite. cbn [form_of form_eqb andb]. fold (int_part x).
  destruct (has_frac x); cbn [negb andb]; [|reflexivity]. destruct (neg x); reflexivity.
Qed.

Lemma int_part_nonneg x : 0 <= coeff x -> exp x <= 0 -> 0 <= int_part x.
Proof. intros. unfold int_part. apply Z.div_pos; [assumption|apply pow10_pos; lia]. Qed.

(* the exact sum the Add receives *)
Lemma exact_add_one ng q sub fl : 0 <= q -> xorb ng sub = false ->
  exact_add (mkDec Finite ng 0 q) d_one sub fl = mkExact ng (q + 1) 1 0.
Proof.
  intros Hq Hx. change d_one with (mkDec Finite false 0 1). unfold exact_add. cbn [exp coeff neg].
  change (Z.min 0 0) with 0. change (10 ^ (0 - 0)) with 1. rewrite !Z.mul_1_r. cbn [xorb].
  destruct ng, sub; try discriminate.
  all: match goal with |- context [?u =? 0] => destruct (Z.eqb_spec u 0); [lia|] end;
       match goal with |- context [?u <? 0] => destruct (Z.ltb_spec u 0); try lia end; f_equal; lia.
Qed.

(* Ceil on every finite operand: x itself when its exponent is positive (an integer already); otherwise
   the integer part when x is negative or has no fraction; otherwise int_part + 1 rounded once to the
   context (op_post: value, flags, fit) *)
Theorem ceil_correct c x : ctx_ok c -> finite_nn x -> ndigits (int_part x + 1) < MaxExponent ->
  if 0 <? exp x then ctx_ceil est c x = Ok (mkResult (Some x) c0 ENone)
  else if has_frac x && negb (neg x)
  then exists d f, ctx_ceil est c x = Ok (finish c d f) /\ op_post c (mkExact false (int_part x + 1) 1 0) d f
  else ctx_ceil est c x = Ok (mkResult (Some (mkDec Finite (neg x) 0 (int_part x))) c0 ENone).
Proof.
  intros Hc [Hf Hn] Hd. destruct (Z.ltb_spec 0 (exp x)) as [He|He]; [apply ceil_gt0; assumption|].
  rewrite (ceil_le0 c x Hf Hn He). destruct (has_frac x && negb (neg x)) eqn:Hb; [|reflexivity].
  apply andb_prop in Hb. destruct Hb as [_ Hng]. destruct (neg x) eqn:Hnx; [discriminate|].
  pose proof (int_part_nonneg x Hn He) as Hq.
  pose proof (add_correct est HE c (mkDec Finite false 0 (int_part x)) d_one false Hc) as HA.
  rewrite (exact_add_one false (int_part x) false _ Hq eq_refl) in HA.
  apply HA.
  - split; [reflexivity|exact Hq].
  - split; [reflexivity|cbn; lia].
  - cbn [exp d_one]. vm_compute. discriminate.
  - unfold exact_in_limits. cbn [xden xnum xexp]. split; [reflexivity|]. split; [lia|]. split; [vm_compute; split; discriminate|].
    intros _. pose proof (ndigits_pos (int_part x + 1)). destruct Hc as [Hp _].
    change MinExponent with (-100000) in *. change MaxExponent with 100000 in *. lia.
Qed.

Theorem floor_correct c x : ctx_ok c -> finite_nn x -> ndigits (int_part x + 1) < MaxExponent ->
  if 0 <? exp x then ctx_floor est c x = Ok (mkResult (Some x) c0 ENone)
  else if has_frac x && neg x
  then exists d f, ctx_floor est c x = Ok (finish c d f) /\ op_post c (mkExact true (int_part x + 1) 1 0) d f
  else ctx_floor est c x = Ok (mkResult (Some (mkDec Finite (neg x) 0 (int_part x))) c0 ENone).
Proof.
  intros Hc [Hf Hn] Hd. destruct (Z.ltb_spec 0 (exp x)) as [He|He]; [apply floor_gt0; assumption|].
  rewrite (floor_le0 c x Hf Hn He). destruct (has_frac x && neg x) eqn:Hb; [|reflexivity].
  apply andb_prop in Hb. destruct Hb as [_ Hng]. rewrite Hng.
  pose proof (int_part_nonneg x Hn He) as Hq.
  pose proof (add_correct est HE c (mkDec Finite true 0 (int_part x)) d_one true Hc) as HA.
  rewrite (exact_add_one true (int_part x) true _ Hq eq_refl) in HA.
  apply HA.
  - split; [reflexivity|exact Hq].
  - split; [reflexivity|cbn; lia].
  - cbn [exp d_one]. vm_compute. discriminate.
  - unfold exact_in_limits. cbn [xden xnum xexp]. split; [reflexivity|]. split; [lia|]. split; [vm_compute; split; discriminate|].
    intros _. pose proof (ndigits_pos (int_part x + 1)). destruct Hc as [Hp _].
    change MinExponent with (-100000) in *. change MaxExponent with 100000 in *. lia.
Qed.

(* the property's reading: when the integer fits the precision (and exponent zero lies inside the range) the
   result IS that integer: the value of d is q + 1 with the right sign, neither Inexact nor Overflow *)
Theorem ceil_floor_fits c ng q d f : ctx_ok c -> 0 <= q -> ndigits (q + 1) <= prec c ->
  emin c - prec c + 1 <= 0 -> ndigits (q + 1) - 1 <= emax c ->
  op_post c (mkExact ng (q + 1) 1 0) d f ->
  form_of d = Finite /\ neg d = ng /\ Inexact f = false /\ Overflow f = false /\
  forall t, 0 <= t -> 0 <= exp d + t -> coeff d * 10 ^ (exp d + t) = (q + 1) * 10 ^ t.
Proof.
  intros [Hp Hr] Hq Hd Ha Hb Hpost. unfold op_post in Hpost. cbn [xnum] in Hpost.
  destruct (Z.eqb_spec (q + 1) 0); [lia|].
  destruct (spec_round_int_exact (prec c) (emin c) (emax c) (rounding c) ng (q + 1) ltac:(lia) Hp Hd Ha Hb)
    as (Hi & Ho & s & Hs & Hres).
  destruct Hpost as (Hm & HI & _ & _ & HO & _). rewrite Hres in Hm. rewrite Hi in HI. rewrite Ho in HO.
  unfold matches in Hm. apply andb_prop in Hm. destruct Hm as [Hm Hv].
  apply andb_prop in Hm. destruct Hm as [Hm Hco]. apply andb_prop in Hm. destruct Hm as [Hfo Hng].
  assert (Hfin : form_of d = Finite) by (destruct (form_of d); try discriminate; reflexivity).
  apply Bool.eqb_prop in Hng. repeat (split; [assumption|]).
  intros t Ht Het.
  assert (Hpos : 0 < (q + 1) * 10 ^ s) by (pose proof (pow10_pos s Hs); nia).
  unfold value_eqb in Hv.
  destruct (Z.eqb_spec (coeff d) 0) as [Hz|Hz]; cbn [orb] in Hv.
  { destruct (Z.eqb_spec ((q + 1) * 10 ^ s) 0); [lia|discriminate]. }
  destruct (Z.eqb_spec ((q + 1) * 10 ^ s) 0); [lia|]. cbn [orb] in Hv.
  destruct (Z.eqb_spec (ndigits (coeff d) + exp d) (ndigits ((q + 1) * 10 ^ s) + - s)); [|discriminate]. cbn [negb] in Hv.
  destruct (Z.leb_spec (exp d) (- s)) as [Hle|Hgt]; apply Z.eqb_eq in Hv.
  - rewrite Hv. rewrite <- !Z.mul_assoc, <- !Z.pow_add_r by lia. f_equal. f_equal. lia.
  - assert (H10 : 0 < 10 ^ s) by (apply pow10_pos; lia).
    apply (Z.mul_reg_r _ _ (10 ^ s)); [lia|].
    rewrite <- !Z.mul_assoc, <- !Z.pow_add_r by lia.
    replace (exp d + t + s) with (exp d - - s + t) by lia. rewrite Z.pow_add_r by lia.
    rewrite Z.mul_assoc, Hv. rewrite <- Z.mul_assoc, <- Z.pow_add_r by lia. f_equal. f_equal. lia.
Qed.
End WithEst.
