(* C03 for the full model of Context.Ln (power series or Halley's iteration, Model/LnHalley.v): every internal step runs
   under the caller's traps in an ErrDecimal that stops at the first trapped condition; whenever a call returns no
   error, the same call with an empty trap set returns the same value and the same Condition - for every value of the
   float-derived inputs (initial estimate, Exp inputs). *)
From Coq Require Import ZArith Lia Bool List.
From Apd Require Import Generated.Consts Model.Base Model.NumDigits Model.Decimal Model.Context Model.Roots Model.ErrDec
  Model.Exp Model.Ln Model.LnHalley Proofs.TrapsProofs Proofs.RootsTraps Proofs.ExpTraps Proofs.LnTraps.
Import ListNotations.
Open Scope Z_scope.

Section WithEst.
Variable est : Z -> Z.
Variable tab : list (Z * Z).

Lemma go_err_no_traps c f : ctx_go_error c f = ENone -> ctx_go_error (no_traps c) f = ENone.
Proof.
  unfold ctx_go_error, no_traps. cbn [traps with_traps]. destruct (cond_any f); [|reflexivity]. intros H.
  apply go_error_none in H. destruct H as (So & Su & _). apply go_error_none. repeat split; try assumption.
  unfold cand, c0, cond_any. cbn. rewrite !andb_false_r. reflexivity.
Qed.

Lemma ed_of_same (r r' : result) c v : rdec r' = rdec r -> rcond r' = rcond r -> err_wf c (Ok r) -> err_wf (no_traps c) (Ok r') ->
  ed_of (Ok r) = Ok (EdOk _ v) -> ed_of (Ok r') = Ok (EdOk _ v).
Proof.
  intros Hd Hc W W' H. cbn [ed_of bind] in *. cbn [err_wf] in W, W'.
  destruct (rerr r) eqn:Ee; try discriminate. destruct (rdec r) as [d|] eqn:Ed; try discriminate.
  injection H as <-. rewrite Hd, Hc.
  destruct W as [W|(Wn & _)]; [|congruence]. symmetry in W. apply go_err_no_traps in W.
  destruct W' as [W'|(Wn & _)]; [|congruence]. rewrite W', Hc, W. reflexivity.
Qed.

Lemma ed_of_finish c d f v : ed_of (Ok (finish c d f)) = Ok (EdOk _ v) -> ed_of (Ok (finish (no_traps c) d f)) = Ok (EdOk _ v).
Proof. apply (ed_of_same (finish c d f) (finish (no_traps c) d f) c); try reflexivity; left; reflexivity. Qed.

Lemma exp_specials_wf c x : match exp_specials c x with Some r => err_wf c (Ok r) | None => True end.
Proof.
  unfold exp_specials. destruct (should_set_as_nan x None); [apply san_wf|].
  destruct (form_eqb (form_of x) Infinite); [left; symmetry; apply ctx_go_error_c0|].
  destruct (is_zero x); [left; symmetry; apply ctx_go_error_c0|].
  destruct (prec c =? 0); [right; cbn; auto|exact I].
Qed.

Lemma ed_of_fail (e : err) v : ed_of (Ok (mkResult None c0 e)) = Ok (EdOk _ v) -> False.
Proof. cbn [ed_of bind rerr rdec]. destruct e; discriminate. Qed.

(* an Exp inside an ErrDecimal *)
Lemma exp_ed_untrapped cp n c x v :
  ed_of (ctx_exp_with est cp n c x) = Ok (EdOk _ v) -> ed_of (ctx_exp_with est cp n (no_traps c) x) = Ok (EdOk _ v).
Proof.
  unfold ctx_exp_with, no_traps. pose proof (exp_specials_indep c c0 x) as Hs.
  pose proof (exp_specials_wf c x) as W. pose proof (exp_specials_wf (with_traps c c0) x) as W'.
  destruct (exp_specials (with_traps c c0) x) as [r'|], (exp_specials c x) as [r0|]; try contradiction.
  { destruct Hs as [H1 H2]. apply (ed_of_same r0 r' c); assumption. }
  cbv zeta. cbn [prec emax emin traps with_traps etiny].
  destruct (dcmp est (dabs x) _) as [big| |]; cbn [bind]; try discriminate.
  destruct (big >? 0).
  { destruct (dsign x <? 0); apply ed_of_finish. }
  destruct (dcmp est (dabs x) _) as [small| |]; cbn [bind]; try discriminate.
  destruct (small <=? 0); [apply ed_of_finish|].
  destruct (num_digits_with est (coeff x)) as [ndx| |]; cbn [bind]; try discriminate.
  destruct (n <? 0); [intros H; exfalso; exact (ed_of_fail _ _ H)|].
  set (t := if exp x + ndx <? 0 then 0 else exp x + ndx).
  set (nc := mkCtx (cp + t + 2) (emax c) (emin c) (traps c) RHalfEven).
  change (mkCtx (cp + t + 2) (emax c) (emin c) c0 RHalfEven) with (no_traps nc).
  destruct (exp_series est _ (n - 1) nc _ d_one) as [[sum|e1]| |] eqn:E1; cbn [bind]; try discriminate.
  2:{ intros H; exfalso; exact (ed_of_fail _ _ H). }
  rewrite (exp_series_untrapped _ _ _ _ _ _ _ E1). cbn [bind].
  destruct ((t >? MaxExponent) || (t <? MinExponent)); [intros H; exfalso; exact (ed_of_fail _ _ H)|].
  destruct (table_exp10 t) as [ki| |]; cbn [bind]; try discriminate.
  destruct (ipow est _ nc ki d_one sum c0) as [[[d1 ires]|e2]| |] eqn:E2; cbn [bind]; try discriminate.
  2:{ intros H; exfalso; exact (ed_of_fail _ _ H). }
  rewrite (ipow_untrapped _ _ _ _ _ _ _ _ E2). cbn [bind].
  change (ctx_round est (mkCtx (prec c) (emax c) (emin c) c0 RHalfEven)) with (ctx_round est (mkCtx (prec c) (emax c) (emin c) (traps c) RHalfEven)).
  destruct (ctx_round est _ d1) as [[d2 f2]| |]; cbn [bind]; try discriminate.
  apply ed_of_finish.
Qed.

Lemma halley_term_untrapped cp n nc z a t :
  halley_term est cp n nc z a = Ok (EdOk _ t) -> halley_term est cp n (no_traps nc) z a = Ok (EdOk _ t).
Proof.
  unfold halley_term, edbind.
  destruct (ed_of (ctx_exp_with est cp n nc a)) as [[[t2 f1]|e1]| |] eqn:E1; cbn [bind]; try discriminate.
  rewrite (exp_ed_untrapped _ _ _ _ _ E1). cbn [bind].
  destruct (ed_of (ctx_add est nc t2 z true)) as [[[t3 f2]|e2]| |] eqn:E2; cbn [bind]; try discriminate.
  rewrite (add_untrapped est nc _ _ _ _ E2). cbn [bind].
  destruct (ed_of (ctx_add est nc t3 t3 false)) as [[[t3b f3]|e3]| |] eqn:E3; cbn [bind]; try discriminate.
  rewrite (add_untrapped est nc _ _ _ _ E3). cbn [bind].
  destruct (ed_of (ctx_add est nc t2 z false)) as [[[t4 f4]|e4]| |] eqn:E4; cbn [bind]; try discriminate.
  rewrite (add_untrapped est nc _ _ _ _ E4). cbn [bind].
  destruct (ed_of (ctx_quo est nc t3b t4)) as [[[t2b f5]|e5]| |] eqn:E5; cbn [bind]; try discriminate.
  rewrite (quo_untrapped est nc _ _ _ E5). cbn [bind].
  intros H; exact H.
Qed.
Lemma halley_term_err cp n nc z a e : halley_term est cp n nc z a = Ok (EdErr _ e) -> e <> ENone.
Proof.
  unfold halley_term, edbind.
  destruct (ed_of (ctx_exp_with est cp n nc a)) as [[[t2 f1]|e1]| |] eqn:E1; cbn [bind]; try discriminate;
    [|intros [= <-]; exact (ed_of_err _ _ E1)].
  destruct (ed_of (ctx_add est nc t2 z true)) as [[[t3 f2]|e2]| |] eqn:E2; cbn [bind]; try discriminate;
    [|intros [= <-]; exact (ed_of_err _ _ E2)].
  destruct (ed_of (ctx_add est nc t3 t3 false)) as [[[t3b f3]|e3]| |] eqn:E3; cbn [bind]; try discriminate;
    [|intros [= <-]; exact (ed_of_err _ _ E3)].
  destruct (ed_of (ctx_add est nc t2 z false)) as [[[t4 f4]|e4]| |] eqn:E4; cbn [bind]; try discriminate;
    [|intros [= <-]; exact (ed_of_err _ _ E4)].
  destruct (ed_of (ctx_quo est nc t3b t4)) as [[[t2b f5]|e5]| |] eqn:E5; cbn [bind]; try discriminate.
  intros [= <-]; exact (ed_of_err _ _ E5).
Qed.

Lemma loop_done_untrapped nc lp mi pz v i r :
  loop_done est nc lp mi pz v i = Ok (EdOk _ r) -> loop_done est (no_traps nc) lp mi pz v i = Ok (EdOk _ r).
Proof.
  unfold loop_done, edbind.
  destruct (ed_of (ctx_add est nc pz v true)) as [[[delta f1]|e1]| |] eqn:E1; cbn [bind]; try discriminate.
  rewrite (add_untrapped est nc _ _ _ _ E1). cbn [bind]. intros H; exact H.
Qed.
Lemma loop_done_err nc lp mi pz v i e : loop_done est nc lp mi pz v i = Ok (EdErr _ e) -> e <> ENone.
Proof.
  unfold loop_done, edbind.
  destruct (ed_of (ctx_add est nc pz v true)) as [[[delta f1]|e1]| |] eqn:E1; cbn [bind]; try discriminate;
    [|intros [= <-]; exact (ed_of_err _ _ E1)].
  cbv zeta. destruct (dsign delta =? 0); try discriminate.
  destruct (num_digits_with est (coeff v)) as [ndz| |]; cbn [bind]; try discriminate.
  destruct (dcmp est _ _) as [cm| |]; cbn [bind]; try discriminate.
  destruct (cm <=? 0); try discriminate. destruct (i + 1 =? mi); try discriminate. intros [= <-]. discriminate.
Qed.

Lemma ln_halley_untrapped fuel : forall nc lp mi z exps a pz i v,
  ln_halley est fuel nc lp mi z exps a pz i = Ok (Some (EdOk _ v)) ->
  ln_halley est fuel (no_traps nc) lp mi z exps a pz i = Ok (Some (EdOk _ v)).
Proof.
  induction fuel as [|fuel IH]; intros nc lp mi z exps a pz i v; cbn [ln_halley]; [discriminate|].
  destruct exps as [|[cp n] rest]; [discriminate|].
  destruct (halley_term est cp n nc z a) as [[t|e1]| |] eqn:E1; cbn [bind]; try discriminate.
  2:{ destruct (loop_done est nc lp mi pz a i) as [[ld|e2]| |]; cbn [bind]; discriminate. }
  rewrite (halley_term_untrapped _ _ _ _ _ _ E1). cbn [bind].
  destruct (ctx_add est nc a t true) as [r| |] eqn:E2; cbn [bind]; try discriminate.
  destruct (rerr r) eqn:Ee.
  2,3,4,5: (destruct (rdec r) as [v2|]; [|discriminate];
            destruct (loop_done est nc lp mi pz v2 i) as [[ld|e2]| |]; cbn [bind]; discriminate).
  destruct (rdec r) as [v2|] eqn:Ed; [|discriminate].
  destruct (raw_untrapped (fun c' => ctx_add est c' a t true) nc r v2
              (fun t0 => add_indep est nc t0 a t true) (fun t0 => add_wf est (with_traps nc t0) a t true) E2 Ee Ed)
    as (r' & E2' & D2 & C2 & R2).
  rewrite E2'. cbn [bind]. rewrite R2, D2.
  destruct (loop_done est nc lp mi pz v2 i) as [[[[dn pz1] i1]|e2]| |] eqn:E3; cbn [bind]; try discriminate.
  rewrite (loop_done_untrapped _ _ _ _ _ _ _ E3). cbn [bind].
  destruct dn; [intros H; exact H|apply IH].
Qed.

Lemma ln_halley_err fuel : forall nc lp mi z exps a pz i e,
  ln_halley est fuel nc lp mi z exps a pz i = Ok (Some (EdErr _ e)) -> e <> ENone.
Proof.
  induction fuel as [|fuel IH]; intros nc lp mi z exps a pz i e; cbn [ln_halley]; [discriminate|].
  destruct exps as [|[cp n] rest]; [discriminate|].
  destruct (halley_term est cp n nc z a) as [[t|e1]| |] eqn:E1; cbn [bind]; try discriminate.
  2:{ destruct (loop_done est nc lp mi pz a i) as [[ld|e2]| |] eqn:E3; cbn [bind]; try discriminate; intros [= <-];
      [exact (halley_term_err _ _ _ _ _ _ E1)|exact (loop_done_err _ _ _ _ _ _ _ E3)]. }
  destruct (ctx_add est nc a t true) as [r| |] eqn:E2; cbn [bind]; try discriminate.
  destruct (rerr r) eqn:Ee.
  2,3,4,5: (destruct (rdec r) as [v2|]; [|discriminate];
            destruct (loop_done est nc lp mi pz v2 i) as [[ld|e2]| |] eqn:E3; cbn [bind]; try discriminate; intros [= <-];
            [discriminate|exact (loop_done_err _ _ _ _ _ _ _ E3)]).
  destruct (rdec r) as [v2|] eqn:Ed; [|discriminate].
  destruct (loop_done est nc lp mi pz v2 i) as [[[[dn pz1] i1]|e2]| |] eqn:E3; cbn [bind]; try discriminate.
  2:{ intros [= <-]. exact (loop_done_err _ _ _ _ _ _ _ E3). }
  destruct dn; [discriminate|apply IH].
Qed.

(* a result that holds an error is not a nil-error result *)
Ltac held_contra :=
  match goal with
  | |- context [loop_done est ?nc ?lp ?mi ?pz ?v ?i] =>
      let E := fresh "E" in
      destruct (loop_done est nc lp mi pz v i) as [[?|?]| |] eqn:E; cbn [bind]; try discriminate;
      intros [= <-] He; cbn [rerr] in He; try discriminate; try (exfalso; exact (loop_done_err _ _ _ _ _ _ _ E He))
  end.

Theorem ln_full_untrapped a0 exps c x r : ctx_ln_full est tab a0 exps c x = Ok (Some r) -> rerr r = ENone ->
  exists r', ctx_ln_full est tab a0 exps (no_traps c) x = Ok (Some r') /\ rdec r' = rdec r /\ rcond r' = rcond r.
Proof.
  unfold ctx_ln_full.
  destruct (ctx_ln_series est tab c x) as [[r0|]| |] eqn:Es; cbn [bind]; try discriminate.
  { intros [= <-] He. destruct (ln_untrapped est tab c x r0 Es He) as (r' & E' & D & C). rewrite E'. cbn [bind]. exists r'. auto. }
  unfold ctx_ln_series in Es |- *. unfold no_traps.
  pose proof (log_specials_indep est c c0 x) as Hs.
  destruct (log_specials est (with_traps c c0) x) as [[r'|]| |], (log_specials est c x) as [[r0|]| |]; cbn [bind] in *;
    try contradiction; try discriminate.
  cbv zeta in *. cbn [prec emax emin traps with_traps] in *.
  set (nc := mkCtx (prec c + 2) (emax c) (emin c) (traps c) RHalfEven) in *.
  change (mkCtx (prec c + 2) (emax c) (emin c) c0 RHalfEven) with (no_traps nc).
  destruct (ctx_add est nc x d_one true) as [r1| |] eqn:E1; cbn [bind] in *; try discriminate.
  destruct (rerr r1) eqn:Ee1.
  2,3,4,5: held_contra.
  destruct (add_value est _ _ _ _ _ E1 Ee1) as [v1 Hv1].
  destruct (raw_untrapped (fun c' => ctx_add est c' x d_one true) nc r1 v1
              (fun t => add_indep est nc t x d_one true) (fun t => add_wf est (with_traps nc t) x d_one true) E1 Ee1 Hv1)
    as (r1' & E1' & D1 & C1 & R1).
  rewrite E1'. cbn [bind]. rewrite D1, R1. rewrite Hv1 in Es.
  destruct (dcmp est (dabs v1) _) as [cm| |]; cbn [bind] in *; try discriminate.
  destruct (cm <=? 0).
  { exfalso. match type of Es with context [bind ?m _] => destruct m as [[?|?]| |] end; cbn [bind] in Es; try discriminate.
    destruct (ctx_round est c a) as [[d f]| |]; cbn [bind] in Es; discriminate. }
  destruct (num_digits_with est (coeff x)) as [ndx| |]; cbn [bind] in *; try discriminate.
  destruct (const_get strLn10 tab (prec c + 2)) as [ln10| |]; cbn [bind] in *; try discriminate.
  destruct (ed_of (ctx_mul est nc _ ln10)) as [[[adj fm]|em]| |] eqn:Em; cbn [bind] in *; try discriminate.
  2:{ held_contra. exfalso. exact (ed_of_err _ _ Em He). }
  rewrite (mul_untrapped est nc _ _ _ Em). cbn [bind].
  destruct (ctx_add est nc (set_exp x _) d_one true) as [r2| |] eqn:E2; cbn [bind] in *; try discriminate.
  destruct (rerr r2) eqn:Ee2.
  2,3,4,5: (destruct (rdec r2) as [v2|]; [|discriminate]; held_contra).
  destruct (add_value est _ _ _ _ _ E2 Ee2) as [v2 Hv2].
  destruct (raw_untrapped (fun c' => ctx_add est c' (set_exp x (exp x - (ndx + exp x))) d_one true) nc r2 v2
              (fun t => add_indep est nc t _ d_one true) (fun t => add_wf est (with_traps nc t) _ d_one true) E2 Ee2 Hv2)
    as (r2' & E2' & D2 & C2 & R2).
  rewrite E2'. cbn [bind]. rewrite D2, R2. rewrite Hv2 in Es.
  destruct (dcmp est (dabs v2) _) as [cm2| |]; cbn [bind] in *; try discriminate.
  destruct (cm2 <=? 0).
  { exfalso. match type of Es with context [bind ?m _] => destruct m as [[?|?]| |] end; cbn [bind] in Es; try discriminate.
    destruct (ctx_round est c a) as [[d f]| |]; cbn [bind] in Es; discriminate. }
  cbn [bind].
  destruct (ln_halley est _ nc _ _ _ exps a0 _ 0) as [[[a|e]|]| |] eqn:Eh; cbn [bind]; try discriminate.
  2:{ intros [= <-] He. cbn [rerr] in He. exfalso. exact (ln_halley_err _ _ _ _ _ _ _ _ _ _ Eh He). }
  rewrite (ln_halley_untrapped _ _ _ _ _ _ _ _ _ _ Eh). cbn [bind].
  destruct (ed_of (ctx_add est nc a adj false)) as [[[v f5]|e5]| |] eqn:E5; cbn [bind]; try discriminate.
  2:{ intros [= <-] He. cbn [rerr] in He. exfalso. exact (ed_of_err _ _ E5 He). }
  rewrite (add_untrapped est nc _ _ _ _ E5). cbn [bind].
  change (ctx_round est (with_traps c c0)) with (ctx_round est c).
  destruct (ctx_round est c v) as [[d f]| |]; cbn [bind]; try discriminate.
  intros [= <-] _. eexists. split; [reflexivity|]. split; reflexivity.
Qed.
End WithEst.
