(* C01 with Precision 0 (rounding disabled, as in BaseContext): Round, Abs, Neg, Add, Sub and Mul return the
   exact result unrounded - no digit limit - whenever its adjusted exponent lies inside the context's
   exponent range ("subject only to the exponent limits"). *)
From Coq Require Import ZArith Lia Bool.
From Apd Require Import Generated.Consts Model.Base Model.NumDigits Model.Decimal Model.Context Spec.SpecZ Spec.Order
  Proofs.Digits Proofs.Core Proofs.CmpProofs Proofs.RoundBasics Proofs.SetExponent Proofs.RoundEq Proofs.RoundSpec Proofs.OpsProofs.
Open Scope Z_scope.

(* the exact result, inside the package limits and inside the context's exponent range *)
Definition exact_in_range (c : ctx) (E : exact) : Prop :=
  xden E = 1 /\ 0 <= xnum E /\ in_lim (xexp E) /\
  in_lim (xexp E + ndigits (xnum E) - 1) /\ emin c <= xexp E + ndigits (xnum E) - 1 <= emax c.

(* the result is the exact value itself, with no condition raised *)
Definition p0_post (E : exact) (d : dec) (f : cond) : Prop :=
  d = mkDec Finite (xneg E) (xexp E) (xnum E) /\ f = c0.

Section WithEst.
Variable est : Z -> Z.
Hypothesis HE : est_in_range est.

Lemma ctx_round_p0 c E : prec c = 0 -> exact_in_range c E ->
  ctx_round est c (mkDec Finite (xneg E) (xexp E) (xnum E)) = Ok (mkDec Finite (xneg E) (xexp E) (xnum E), c0).
Proof.
  intros Hp (Hden & Hnum & Hexp & Hadj & Hrng).
  unfold ctx_round, round_with, is_finite. cbn [form_of form_eqb negb coeff exp]. rewrite (nd_ok est HE). cbn [bind].
  rewrite Hp. cbn [Z.eqb andb].
  assert (Hs : sum_exps [xexp E] 0 = inr (xexp E)) by (rewrite sum_exps_1 by assumption; f_equal).
  rewrite (se_normal est HE c (mkDec Finite (xneg E) (xexp E) (xnum E)) (ndigits (xnum E)) c0 [xexp E] (xexp E));
    try reflexivity; cbn [coeff form_of]; try assumption; try (right; reflexivity).
Qed.

Theorem round_op_p0 c x : prec c = 0 -> finite_nn x -> exact_in_range c (exact_of_dec x) ->
  exists d f, ctx_round_op est c x = Ok (finish c d f) /\ p0_post (exact_of_dec x) d f.
Proof.
  intros Hp [Hf Hn] HL. unfold ctx_round_op. rewrite (not_nan_finite1 x Hf).
  pose proof (ctx_round_p0 c (exact_of_dec x) Hp HL) as Hr. unfold exact_of_dec in Hr. cbn [xneg xexp xnum] in Hr.
  destruct x as [fx nx ex cx]. cbn [form_of neg exp coeff] in *. subst fx.
  rewrite Hr. cbn [bind]. eexists; eexists; split; [reflexivity|]. split; reflexivity.
Qed.

Theorem abs_p0 c x : prec c = 0 -> finite_nn x -> exact_in_range c (exact_abs x) ->
  exists d f, ctx_abs est c x = Ok (finish c d f) /\ p0_post (exact_abs x) d f.
Proof.
  intros Hp [Hf Hn] HL. unfold ctx_abs. rewrite (not_nan_finite1 x Hf).
  pose proof (ctx_round_p0 c (exact_abs x) Hp HL) as Hr. unfold exact_abs in Hr. cbn [xneg xexp xnum] in Hr.
  destruct x as [fx nx ex cx]. cbn [form_of neg exp coeff] in *. subst fx. unfold dabs, set_neg. cbn [form_of neg exp coeff].
  rewrite Hr. cbn [bind]. eexists; eexists; split; [reflexivity|]. split; reflexivity.
Qed.

Theorem neg_p0 c x : prec c = 0 -> finite_nn x -> exact_in_range c (exact_neg x) ->
  exists d f, ctx_neg est c x = Ok (finish c d f) /\ p0_post (exact_neg x) d f.
Proof.
  intros Hp [Hf Hn] HL. unfold ctx_neg. rewrite (not_nan_finite1 x Hf).
  pose proof (ctx_round_p0 c (exact_neg x) Hp HL) as Hr. unfold exact_neg in Hr. cbn [xneg xexp xnum] in Hr.
  destruct x as [fx nx ex cx]. cbn [form_of neg exp coeff] in *. subst fx.
  unfold dneg, set_neg. rewrite (is_zero_finite (mkDec Finite nx ex cx) eq_refl). cbn [form_of neg exp coeff].
  destruct (cx =? 0) eqn:Ez; rewrite Hr; cbn [bind]; eexists; eexists; (split; [reflexivity|]);
    unfold p0_post, exact_neg; cbn [xneg xexp xnum coeff neg exp]; rewrite Ez; split; reflexivity.
Qed.

Theorem add_p0 c x y sub : prec c = 0 -> finite_nn x -> finite_nn y ->
  Z.abs (exp x - exp y) <= MaxExponent ->
  let E := exact_add x y sub (rounder_eqb (rounding c) RFloor) in
  exact_in_range c E ->
  exists d f, ctx_add est c x y sub = Ok (finish c d f) /\ p0_post E d f.
Proof.
  intros Hp [Hfx Hnx] [Hfy Hny] Hgap E HL. unfold ctx_add.
  rewrite (not_nan_finite x y Hfx). unfold is_nan. rewrite Hfy, Hfx. cbn [form_eqb orb andb].
  rewrite (upscale_spec x y Hgap). cbn [bind].
  set (e0 := Z.min (exp x) (exp y)) in *.
  set (a := coeff x * 10 ^ (exp x - e0)). set (b := coeff y * 10 ^ (exp y - e0)).
  pose proof (ctx_round_p0 c E Hp HL) as Hr.
  assert (Hval : (if Bool.eqb (neg x) (xorb (neg y) sub) then (neg x, a + b)
                  else let df := a - b in
                       if df <? 0 then (negb (neg x), - df)
                       else if df =? 0 then (rounder_eqb (rounding c) RFloor, df) else (neg x, df))
                 = (xneg E, xnum E) /\ xexp E = e0).
  { unfold E, exact_add. fold e0. fold a b. cbv zeta.
    destruct (neg x) eqn:Hnx', (xorb (neg y) sub) eqn:Hny'; cbn [Bool.eqb];
      repeat match goal with
      | |- context [?u =? 0] => destruct (Z.eqb_spec u 0)
      | |- context [?u <? 0] => destruct (Z.ltb_spec u 0)
      end; cbn [xneg xnum xexp]; split; try reflexivity; try (f_equal; lia); try lia. }
  destruct Hval as [Hv He].
  match goal with |- context [let '(ng, co) := ?t in _] => replace t with (xneg E, xnum E) end.
  rewrite <- He, Hr. cbn [bind]. eexists; eexists; split; [reflexivity|]. split; reflexivity.
Qed.

Theorem mul_p0 c x y : prec c = 0 -> finite_nn x -> finite_nn y -> in_lim (exp x) -> in_lim (exp y) ->
  let E := exact_mul x y in
  exact_in_range c E ->
  exists d f, ctx_mul est c x y = Ok (finish c d f) /\ p0_post E d f.
Proof.
  intros Hp [Hfx Hnx] [Hfy Hny] Hex Hey E HL. unfold ctx_mul.
  rewrite (not_nan_finite x y Hfx). unfold is_nan. rewrite Hfy, Hfx. cbn [form_eqb orb andb].
  pose proof (ctx_round_p0 c E Hp HL) as Hr.
  destruct HL as (Hden & Hnum & Hexp & Hadj & Hrng).
  unfold E, exact_mul in *. cbn [xneg xnum xexp xden] in *.
  assert (Hs : sum_exps [exp x; exp y] 0 = inr (exp x + exp y)) by (rewrite sum_exps_2 by assumption; f_equal).
  rewrite (se_normal est HE c (mkDec Finite (xorb (neg x) (neg y)) 0 (coeff x * coeff y)) unknownNumDigits c0 [exp x; exp y] (exp x + exp y));
    try reflexivity; cbn [coeff form_of]; try assumption; try (left; reflexivity).
  cbn [bind]. unfold set_exp. cbn [form_of neg coeff]. rewrite Hr. cbn [bind].
  eexists; eexists; split; [reflexivity|]. split; reflexivity.
Qed.

End WithEst.
