(* C03 for the composite functions that are modelled in full: Sqrt and Cbrt.
   Cbrt runs its iteration under a private context (DefaultTraps), so value and Condition do not depend on the
   caller's traps at all.  Sqrt runs every internal step under the caller's traps (ErrDecimal stops at the first
   trapped condition): whenever a call returns no error, the same call with an empty trap set returns the same
   value and the same Condition. *)
From Coq Require Import ZArith Lia Bool List.
From Apd Require Import Generated.Consts Model.Base Model.NumDigits Model.Decimal Model.Context Model.Roots Model.ErrDec
  Proofs.TrapsProofs.
Open Scope Z_scope.

Section WithEst.
Variable est : Z -> Z.

Definition no_traps (c : ctx) : ctx := with_traps c c0.

(* an ErrDecimal step that went through under some trap set goes through, with the same value and Condition,
   under the empty trap set *)
Lemma ed_of_untrapped (op : ctx -> res result) c v :
  (forall t, strip (op (with_traps c t)) = strip (op c)) -> (forall t, err_wf (with_traps c t) (op (with_traps c t))) ->
  ed_of (op c) = Ok (EdOk _ v) -> ed_of (op (no_traps c)) = Ok (EdOk _ v).
Proof.
  intros Hi Hw H. unfold no_traps. pose proof (Hi c0) as H0. pose proof (Hw c0) as W0. pose proof (Hw (traps c)) as Wc.
  replace (with_traps c (traps c)) with c in Wc by (destruct c; reflexivity).
  destruct (op c) as [r| |] eqn:Er; cbn [ed_of bind] in H; try discriminate.
  destruct (op (with_traps c c0)) as [r0| |] eqn:Er0; cbn [strip] in H0; try discriminate.
  injection H0 as Hd Hc. cbn [ed_of bind]. cbn [err_wf] in W0, Wc.
  destruct (rerr r) eqn:Ee; try discriminate. destruct (rdec r) as [d|] eqn:Ed; try discriminate.
  injection H as <-. rewrite Hd, Hc.
  destruct Wc as [Wc|(Wn & _)]; [|congruence]. symmetry in Wc.
  destruct W0 as [W0|(Wn & _)]; [|congruence]. rewrite W0, Hc.
  unfold ctx_go_error in *. cbn [traps with_traps]. destruct (cond_any (rcond r)); [|reflexivity].
  apply go_error_none in Wc. destruct Wc as (So & Su & _).
  assert (E : go_error c0 (rcond r) = ENone).
  { apply go_error_none. repeat split; try assumption. unfold cand, c0, cond_any. cbn. rewrite !andb_false_r. reflexivity. }
  rewrite E. reflexivity.
Qed.

Lemma quo_untrapped c x y v : ed_of (ctx_quo est c x y) = Ok (EdOk _ v) -> ed_of (ctx_quo est (no_traps c) x y) = Ok (EdOk _ v).
Proof. apply (ed_of_untrapped (fun c' => ctx_quo est c' x y)); intros t; [apply quo_indep|apply quo_wf]. Qed.
Lemma add_untrapped c x y s v : ed_of (ctx_add est c x y s) = Ok (EdOk _ v) -> ed_of (ctx_add est (no_traps c) x y s) = Ok (EdOk _ v).
Proof. apply (ed_of_untrapped (fun c' => ctx_add est c' x y s)); intros t; [apply add_indep|apply add_wf]. Qed.
Lemma mul_untrapped c x y v : ed_of (ctx_mul est c x y) = Ok (EdOk _ v) -> ed_of (ctx_mul est (no_traps c) x y) = Ok (EdOk _ v).
Proof. apply (ed_of_untrapped (fun c' => ctx_mul est c' x y)); intros t; [apply mul_indep|apply mul_wf]. Qed.

(* the Newton loop of Sqrt *)
Lemma sqrt_loop_untrapped fuel : forall c p maxp f a r,
  sqrt_loop est fuel c p maxp f a = Ok (EdOk _ r) -> sqrt_loop est fuel (no_traps c) p maxp f a = Ok (EdOk _ r).
Proof.
  induction fuel as [|fuel IH]; intros c p maxp f a r; cbn [sqrt_loop]; destruct (p =? maxp); try (intros H; exact H).
  cbv zeta. set (p2 := if 2 * p - 2 >? maxp then maxp else 2 * p - 2).
  set (nc := mkCtx p2 (emax c) (emin c) (traps c) RHalfEven).
  change (mkCtx p2 (emax (no_traps c)) (emin (no_traps c)) (traps (no_traps c)) RHalfEven) with (no_traps nc).
  unfold edbind.
  destruct (ed_of (ctx_quo est nc f a)) as [[[t1 f1]|e1]| |] eqn:E1; cbn [bind]; try discriminate.
  rewrite (quo_untrapped nc f a _ E1). cbn [bind].
  destruct (ed_of (ctx_add est nc t1 a false)) as [[[t2 f2]|e2]| |] eqn:E2; cbn [bind]; try discriminate.
  rewrite (add_untrapped nc t1 a false _ E2). cbn [bind].
  destruct (ed_of (ctx_mul est nc t2 d_half)) as [[[a2 f3]|e3]| |] eqn:E3; cbn [bind]; try discriminate.
  rewrite (mul_untrapped nc t2 d_half _ E3). cbn [bind].
  apply IH.
Qed.

(* an ErrDecimal error is never nil *)
Lemma ed_of_err r e : ed_of r = Ok (EdErr _ e) -> e <> ENone.
Proof.
  unfold ed_of. destruct r as [v| |]; cbn [bind]; try discriminate.
  destruct (rerr v) eqn:E; destruct (rdec v); intros [= <-]; discriminate.
Qed.
Lemma sqrt_loop_err fuel : forall c p maxp f a e, sqrt_loop est fuel c p maxp f a = Ok (EdErr _ e) -> e <> ENone.
Proof.
  induction fuel as [|fuel IH]; intros c p maxp f a e; cbn [sqrt_loop]; destruct (p =? maxp); try discriminate.
  cbv zeta. unfold edbind.
  destruct (ed_of (ctx_quo est _ f a)) as [[[t1 f1]|e1]| |] eqn:E1; cbn [bind]; try discriminate;
    [|intros [= <-]; exact (ed_of_err _ _ E1)].
  destruct (ed_of (ctx_add est _ t1 a false)) as [[[t2 f2]|e2]| |] eqn:E2; cbn [bind]; try discriminate;
    [|intros [= <-]; exact (ed_of_err _ _ E2)].
  destruct (ed_of (ctx_mul est _ t2 d_half)) as [[[a2 f3]|e3]| |] eqn:E3; cbn [bind]; try discriminate;
    [|intros [= <-]; exact (ed_of_err _ _ E3)].
  apply IH.
Qed.

(* the special-value prologue: value and Condition do not depend on the traps *)
Lemma root_specials_indep c t x k :
  match root_specials est (with_traps c t) x k, root_specials est c x k with
  | Ok (Some r'), Ok (Some r) => rdec r' = rdec r /\ rcond r' = rcond r
  | Ok None, Ok None => True
  | Panic w', Panic w => w' = w
  | OutOfFuel, OutOfFuel => True
  | _, _ => False
  end.
Proof.
  unfold root_specials. change (ctx_round est (with_traps c t)) with (ctx_round est c).
  destruct (should_set_as_nan x None).
  { pose proof (san_indep c t x None) as H. cbn [strip ret] in H. injection H as H1 H2. split; assumption. }
  destruct (form_eqb (form_of x) Infinite); [destruct (neg x); split; reflexivity|].
  destruct ((dsign x =? -1) && (Z.rem k 2 =? 0)); [split; reflexivity|].
  destruct (dsign x =? 0); [|exact I].
  destruct (ctx_round est c _) as [[d f]| |]; cbn [bind]; try reflexivity. split; reflexivity.
Qed.

(* C03 for Sqrt: a call that returns no error returns what the call with an empty trap set returns *)
Theorem sqrt_untrapped c x r : ctx_sqrt est c x = Ok r -> rerr r = ENone ->
  strip (ctx_sqrt est (no_traps c) x) = Ok (rdec r, rcond r).
Proof.
  unfold ctx_sqrt, no_traps. pose proof (root_specials_indep c c0 x 2) as Hs.
  destruct (root_specials est (with_traps c c0) x 2) as [[r'|]| |], (root_specials est c x 2) as [[r0|]| |]; cbn [bind];
    try contradiction; try discriminate.
  { destruct Hs as [H1 H2]. intros [= <-] _. cbn [strip]. rewrite H1, H2. reflexivity. }
  destruct (num_digits_with est (coeff x)) as [ndx| |]; cbn [bind]; try discriminate.
  cbv zeta. cbn [prec emax emin traps with_traps].
  set (workp := if (if prec c + 1 <? ndx then ndx else prec c + 1) <? 7 then 7 else (if prec c + 1 <? ndx then ndx else prec c + 1)).
  set (even := Z.rem (ndx + exp x) 2 =? 0).
  set (f := if even then set_exp x (- ndx) else set_exp x (- ndx - 1)).
  set (nc := mkCtx workp (emax c) (emin c) (traps c) RHalfEven).
  change (mkCtx workp (emax c) (emin c) c0 RHalfEven) with (no_traps nc).
  set (k1 := if even then mkDec Finite false (-3) 819 else mkDec Finite false (-2) 259).
  set (k2 := if even then mkDec Finite false (-3) 259 else mkDec Finite false (-4) 819).
  unfold edbind at 1 2 3 4.
  destruct (ed_of (ctx_mul est nc k1 f)) as [[[a1 g1]|e1]| |] eqn:E1; cbn [bind]; try discriminate.
  2:{ intros [= <-] He. cbn [rerr] in He. exfalso. exact (ed_of_err _ _ E1 He). }
  rewrite (mul_untrapped nc k1 f _ E1). cbn [bind].
  destruct (ed_of (ctx_add est nc a1 k2 false)) as [[[a2 g2]|e2]| |] eqn:E2; cbn [bind]; try discriminate.
  2:{ intros [= <-] He. cbn [rerr] in He. exfalso. exact (ed_of_err _ _ E2 He). }
  rewrite (add_untrapped nc a1 k2 false _ E2). cbn [bind].
  change (sqrt_loop est ?fu (with_traps c c0)) with (sqrt_loop est fu (no_traps c)).
  destruct (sqrt_loop est _ c 3 (workp + 5) f a2) as [[approx|e3]| |] eqn:E3; cbn [bind]; try discriminate.
  2:{ intros [= <-] He. cbn [rerr] in He. exfalso. exact (sqrt_loop_err _ _ _ _ _ _ _ E3 He). }
  rewrite (sqrt_loop_untrapped _ _ _ _ _ _ _ E3). cbn [bind].
  (* the tail: rounding, sqrtCorrect and the range test ignore the traps; finish differs in the error only *)
  set (d0 := set_exp approx (exp approx + Z.quot (if even then ndx + exp x else ndx + exp x + 1) 2)).
  set (ncp := mkCtx (prec c) (emax c) (emin c) (traps c) RHalfEven).
  set (uc := mkCtx (prec c) MaxExponent MinExponent (traps c) RHalfEven).
  change (ctx_round est (mkCtx (prec c) MaxExponent MinExponent c0 RHalfEven)) with (ctx_round est uc).
  change (ctx_round est (mkCtx (prec c) (emax c) (emin c) c0 RHalfEven)) with (ctx_round est ncp).
  change (sqrt_correct est (mkCtx (prec c) MaxExponent MinExponent c0 RHalfEven)) with (sqrt_correct est uc).
  intros H _. revert H.
  destruct (ctx_round est uc d0) as [[t tres]| |]; cbn [bind]; try discriminate.
  assert (Hfb : forall r, (do (d, f0) <- ctx_round est ncp d0; Ok (finish ncp d f0)) = Ok r ->
            strip (do (d, f0) <- ctx_round est ncp d0; Ok (finish (mkCtx (prec c) (emax c) (emin c) c0 RHalfEven) d f0)) = Ok (rdec r, rcond r)).
  { intros r1. destruct (ctx_round est ncp d0) as [[d f0]| |]; cbn [bind]; try discriminate. intros [= <-]. reflexivity. }
  destruct (is_finite t && negb (is_zero t) && negb (Subnormal tres || Overflow tres || Clamped tres)); [|apply Hfb].
  destruct (sqrt_correct est uc t x tres) as [[t1 tres1]| |]; cbn [bind]; try discriminate.
  destruct (num_digits_with est (coeff t1)) as [ndt| |]; cbn [bind]; try discriminate.
  destruct (num_digits_with est (coeff d0)) as [nd0| |]; cbn [bind]; try discriminate.
  destruct ((exp t1 + ndt - 1 <=? emax c) && (exp t1 + ndt - 1 >=? emin c) && (exp d0 + nd0 - 1 >=? emin c)); [|apply Hfb].
  intros [= <-]. reflexivity.
Qed.

(* C03 for Cbrt: the iteration runs under a private context; value and Condition never depend on the traps *)
Theorem cbrt_indep c t x : strip (ctx_cbrt est (with_traps c t) x) = strip (ctx_cbrt est c x).
Proof.
  unfold ctx_cbrt. pose proof (root_specials_indep c t x 3) as Hs.
  destruct (root_specials est (with_traps c t) x 3) as [[r'|]| |], (root_specials est c x 3) as [[r0|]| |]; cbn [bind];
    try contradiction; try reflexivity;
    try (destruct Hs as [H1 H2]; cbn [strip]; rewrite H1, H2; reflexivity); try (rewrite Hs; reflexivity).
  cbv zeta. cbn [prec emax emin with_traps]. change (etiny (with_traps c t)) with (etiny c).
  change (ctx_round est (mkCtx (prec c) (emax c) (emin c) (traps (with_traps c t)) RHalfEven))
    with (ctx_round est (mkCtx (prec c) (emax c) (emin c) (traps c) RHalfEven)).
  change (ctx_round est (with_traps c t)) with (ctx_round est c).
  destruct (num_digits_with est (coeff x)) as [ndx| |]; cbn [bind]; try reflexivity.
  match goal with |- context [bind ?m _] => destruct m as [[z|e1]| |]; cbn [bind]; try reflexivity end.
  destruct (ctx_round est (mkCtx (prec c) (emax c) (emin c) (traps c) RHalfEven) z) as [[t0 tres]| |]; cbn [bind]; try reflexivity.
  match goal with |- context [bind ?m _] => destruct m as [[|]| |]; cbn [bind]; try reflexivity end.
  destruct (ctx_round est c z) as [[d res0]| |]; cbn [bind]; try reflexivity.
  match goal with |- context [bind ?m _] => destruct m as [[d1 res1]| |]; cbn [bind]; try reflexivity end.
Qed.
End WithEst.
