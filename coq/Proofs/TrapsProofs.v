(* C03: traps turn raised conditions into errors and never change or hide results (model level). *)
From Coq Require Import ZArith Lia Bool List.
From Apd Require Import Generated.Consts Model.Base Model.NumDigits Model.Decimal Model.Context Model.ErrDec.
Open Scope Z_scope.

(* what an operation delivers apart from the error: destination (None = untouched) and Condition *)
Definition strip (r : res result) : res (option dec * cond) :=
  match r with Ok r => Ok (rdec r, rcond r) | Panic w => Panic w | OutOfFuel => OutOfFuel end.

(* the error is a function of the delivered Condition and the traps, or a system-limit error that
   delivers nothing *)
Definition err_wf (c : ctx) (r : res result) : Prop :=
  match r with
  | Ok r => rerr r = ctx_go_error c (rcond r) \/
            (rdec r = None /\ rcond r = c0 /\ (rerr r = EExponentOutOfRange \/ rerr r = EZeroPrecision \/ rerr r = EOther))
  | _ => True
  end.

Lemma go_error_none traps r : go_error traps r = ENone <->
  SystemOverflow r = false /\ SystemUnderflow r = false /\ cond_any (cand r traps) = false.
Proof.
  unfold go_error. destruct (SystemOverflow r), (SystemUnderflow r); cbn [orb].
  - split; [discriminate|intros (A & B & C); discriminate].
  - split; [discriminate|intros (A & B & C); discriminate].
  - split; [discriminate|intros (A & B & C); discriminate].
  - destruct (cond_any (cand r traps)); split; try discriminate; auto. intros (_ & _ & C). discriminate.
Qed.

Lemma go_error_trap traps r t : go_error traps r = ETrap t -> t = cand r traps /\ cond_any t = true.
Proof.
  unfold go_error. destruct (SystemOverflow r || SystemUnderflow r); [discriminate|].
  destruct (cond_any (cand r traps)) eqn:E; [|discriminate]. intros H. injection H as <-. auto.
Qed.

Lemma ctx_go_error_c0 c : ctx_go_error c c0 = ENone.
Proof. reflexivity. Qed.

Ltac step :=
  match goal with
  | |- context [if ?b then _ else _] => destruct b
  | |- context [match ?y with Some _ => _ | None => _ end] => destruct y
  | |- context [let '(_, _) := ?t in _] => destruct t
  | |- context [bind ?m _] => destruct m as [?| |]; cbn [bind]
  end.
Ltac crush := repeat step; try reflexivity; try (left; reflexivity); try exact I.

Section WithEst.
Variable est : Z -> Z.

Lemma se_indep c t d nd r xs : set_exponent est (with_traps c t) d nd r xs = set_exponent est c d nd r xs.
Proof. reflexivity. Qed.
Lemma rw_indep m c t x b : round_with est m (with_traps c t) x b = round_with est m c x b.
Proof. reflexivity. Qed.
Lemma cr_indep c t x : ctx_round est (with_traps c t) x = ctx_round est c x.
Proof. reflexivity. Qed.
Lemma qi_indep c t v e : quantize_inner est (with_traps c t) v e = quantize_inner est c v e.
Proof. reflexivity. Qed.

Ltac norm c t :=
  change (ctx_round est (with_traps c t)) with (ctx_round est c);
  change (set_exponent est (with_traps c t)) with (set_exponent est c);
  change (quantize_inner est (with_traps c t)) with (quantize_inner est c);
  unfold etiny; cbn [with_traps prec emax emin rounding].

Lemma san_indep c t x y : strip (ret (set_as_nan (with_traps c t) x y)) = strip (ret (set_as_nan c x y)).
Proof. unfold set_as_nan. cbv zeta. crush. Qed.
Lemma san_wf c x y : err_wf c (ret (set_as_nan c x y)).
Proof. unfold set_as_nan, err_wf, ret. cbv zeta. repeat step; cbn [rdec rcond rerr]; auto; right; auto. Qed.

Lemma qs_indep c t x y b :
  match quo_specials (with_traps c t) x y b, quo_specials c x y b with
  | Some r1, Some r2 => rdec r1 = rdec r2 /\ rcond r1 = rcond r2
  | None, None => True
  | _, _ => False
  end.
Proof.
  unfold quo_specials, etiny. cbn [with_traps prec emax emin rounding].
  repeat (match goal with |- context [if ?b then _ else _] => destruct b end); try (split; reflexivity); try exact I.
  all: unfold set_as_nan; cbv zeta; repeat step; split; reflexivity.
Qed.
Lemma qs_wf c x y b : match quo_specials c x y b with Some r => err_wf c (Ok r) | None => True end.
Proof.
  unfold quo_specials. repeat (match goal with |- context [if ?b then _ else _] => destruct b end); try exact I;
    try (apply san_wf); unfold err_wf, finish; cbn [rdec rcond rerr]; auto. right. auto.
Qed.

(* ---- results and Conditions do not depend on the trap set ---- *)
Theorem add_indep c t x y s : strip (ctx_add est (with_traps c t) x y s) = strip (ctx_add est c x y s).
Proof. unfold ctx_add. norm c t. destruct (should_set_as_nan x (Some y)); [apply san_indep|]. cbv zeta. crush. Qed.
Theorem mul_indep c t x y : strip (ctx_mul est (with_traps c t) x y) = strip (ctx_mul est c x y).
Proof. unfold ctx_mul. norm c t. destruct (should_set_as_nan x (Some y)); [apply san_indep|]. cbv zeta. crush. Qed.
Theorem abs_indep c t x : strip (ctx_abs est (with_traps c t) x) = strip (ctx_abs est c x).
Proof. unfold ctx_abs. norm c t. destruct (should_set_as_nan x None); [apply san_indep|]. crush. Qed.
Theorem neg_indep c t x : strip (ctx_neg est (with_traps c t) x) = strip (ctx_neg est c x).
Proof. unfold ctx_neg. norm c t. destruct (should_set_as_nan x None); [apply san_indep|]. crush. Qed.
Theorem round_indep c t x : strip (ctx_round_op est (with_traps c t) x) = strip (ctx_round_op est c x).
Proof. unfold ctx_round_op. norm c t. destruct (should_set_as_nan x None); [apply san_indep|]. crush. Qed.
Theorem quo_integer_indep c t x y : strip (ctx_quo_integer est (with_traps c t) x y) = strip (ctx_quo_integer est c x y).
Proof.
  unfold ctx_quo_integer. pose proof (qs_indep c t x y false) as H.
  destruct (quo_specials (with_traps c t) x y false) as [r1|], (quo_specials c x y false) as [r2|]; try contradiction.
  - destruct H as [H1 H2]. unfold ret, strip. rewrite H1, H2. reflexivity.
  - norm c t. crush.
Qed.
Theorem quo_indep c t x y : strip (ctx_quo est (with_traps c t) x y) = strip (ctx_quo est c x y).
Proof.
  unfold ctx_quo. pose proof (qs_indep c t x y true) as H.
  destruct (quo_specials (with_traps c t) x y true) as [r1|], (quo_specials c x y true) as [r2|]; try contradiction.
  - destruct H as [H1 H2]. unfold ret, strip. rewrite H1, H2. reflexivity.
  - norm c t. cbv zeta. crush.
Qed.
Theorem rem_indep c t x y : strip (ctx_rem est (with_traps c t) x y) = strip (ctx_rem est c x y).
Proof. unfold ctx_rem. norm c t. destruct (should_set_as_nan x (Some y)); [apply san_indep|]. crush. Qed.
Theorem quantize_indep c t x q : strip (ctx_quantize est (with_traps c t) x q) = strip (ctx_quantize est c x q).
Proof. unfold ctx_quantize. norm c t. destruct (should_set_as_nan x None); [apply san_indep|]. crush. Qed.
Theorem rti_value_indep c t x : strip (ctx_rti_value est (with_traps c t) x) = strip (ctx_rti_value est c x).
Proof. unfold ctx_rti_value, to_integral_specials. norm c t. destruct (should_set_as_nan x None); [apply san_indep|]. crush. Qed.
Theorem rti_exact_indep c t x : strip (ctx_rti_exact est (with_traps c t) x) = strip (ctx_rti_exact est c x).
Proof. unfold ctx_rti_exact, to_integral_specials. norm c t. destruct (should_set_as_nan x None); [apply san_indep|]. crush. Qed.
Theorem ceil_indep c t x : strip (ctx_ceil est (with_traps c t) x) = strip (ctx_ceil est c x).
Proof.
  unfold ctx_ceil, to_integral_specials. destruct (should_set_as_nan x None); [apply san_indep|].
  destruct (negb (is_finite x)); [reflexivity|]. destruct (modf est x) as [[i f]| |]; try reflexivity. cbn [bind].
  destruct (dsign f >? 0); [apply add_indep|reflexivity].
Qed.
Theorem floor_indep c t x : strip (ctx_floor est (with_traps c t) x) = strip (ctx_floor est c x).
Proof.
  unfold ctx_floor, to_integral_specials. destruct (should_set_as_nan x None); [apply san_indep|].
  destruct (negb (is_finite x)); [reflexivity|]. destruct (modf est x) as [[i f]| |]; try reflexivity. cbn [bind].
  destruct (dsign f <? 0); [apply add_indep|reflexivity].
Qed.
Definition strip2 (r : res (result * Z)) : res (option dec * cond * Z) :=
  match r with Ok (r, n) => Ok (rdec r, rcond r, n) | Panic w => Panic w | OutOfFuel => OutOfFuel end.
Theorem reduce_indep c t x : strip2 (ctx_reduce est (with_traps c t) x) = strip2 (ctx_reduce est c x).
Proof.
  unfold ctx_reduce. norm c t. destruct (should_set_as_nan x None).
  - pose proof (san_indep c t x None) as H. unfold strip, ret in H. unfold strip2.
    injection H as H1 H2. rewrite H1, H2. reflexivity.
  - crush.
Qed.
Theorem cmp_indep c t x y : strip (ctx_cmp est (with_traps c t) x y) = strip (ctx_cmp est c x y).
Proof. unfold ctx_cmp. destruct (should_set_as_nan x (Some y)); [apply san_indep|]. crush. Qed.

(* ---- the error is exactly what the delivered Condition and the traps give ---- *)
Ltac wf := unfold err_wf, finish, ret; cbn [rdec rcond rerr]; auto; try (right; auto; fail).
Theorem add_wf c x y s : err_wf c (ctx_add est c x y s).
Proof. unfold ctx_add. destruct (should_set_as_nan x (Some y)); [apply san_wf|]. cbv zeta. repeat step; wf. Qed.
Theorem mul_wf c x y : err_wf c (ctx_mul est c x y).
Proof. unfold ctx_mul. destruct (should_set_as_nan x (Some y)); [apply san_wf|]. cbv zeta. repeat step; wf. Qed.
Theorem abs_wf c x : err_wf c (ctx_abs est c x).
Proof. unfold ctx_abs. destruct (should_set_as_nan x None); [apply san_wf|]. repeat step; wf. Qed.
Theorem neg_wf c x : err_wf c (ctx_neg est c x).
Proof. unfold ctx_neg. destruct (should_set_as_nan x None); [apply san_wf|]. repeat step; wf. Qed.
Theorem round_wf c x : err_wf c (ctx_round_op est c x).
Proof. unfold ctx_round_op. destruct (should_set_as_nan x None); [apply san_wf|]. repeat step; wf. Qed.
Theorem quo_integer_wf c x y : err_wf c (ctx_quo_integer est c x y).
Proof.
  unfold ctx_quo_integer. pose proof (qs_wf c x y false) as H.
  destruct (quo_specials c x y false); [exact H|]. repeat step; wf.
Qed.
Theorem quo_wf c x y : err_wf c (ctx_quo est c x y).
Proof.
  unfold ctx_quo. pose proof (qs_wf c x y true) as H.
  destruct (quo_specials c x y true); [exact H|]. cbv zeta. repeat step; wf.
Qed.
Theorem rem_wf c x y : err_wf c (ctx_rem est c x y).
Proof. unfold ctx_rem. destruct (should_set_as_nan x (Some y)); [apply san_wf|]. repeat step; wf. Qed.
Theorem quantize_wf c x q : err_wf c (ctx_quantize est c x q).
Proof. unfold ctx_quantize. destruct (should_set_as_nan x None); [apply san_wf|]. repeat step; wf. Qed.
Theorem rti_value_wf c x : err_wf c (ctx_rti_value est c x).
Proof. unfold ctx_rti_value, to_integral_specials. destruct (should_set_as_nan x None); [apply san_wf|]. repeat step; wf. Qed.
Theorem rti_exact_wf c x : err_wf c (ctx_rti_exact est c x).
Proof. unfold ctx_rti_exact, to_integral_specials. destruct (should_set_as_nan x None); [apply san_wf|]. repeat step; wf. Qed.
Theorem reduce_wf c x : err_wf c (do v <- ctx_reduce est c x; Ok (fst v)).
Proof.
  unfold ctx_reduce. destruct (should_set_as_nan x None); [cbn [bind fst]; apply san_wf|].
  destruct (ctx_round est c x) as [[d f]| |]; cbn [bind]; try exact I.
  destruct (dreduce est d) as [[d1 n]| |]; cbn [bind fst]; try exact I. wf.
Qed.
Theorem cmp_wf c x y : err_wf c (ctx_cmp est c x y).
Proof. unfold ctx_cmp. destruct (should_set_as_nan x (Some y)); [apply san_wf|]. repeat step; wf. Qed.

(* ---- ErrDecimal ---- *)
(* once an error is held, every later call leaves every register and the flags untouched *)
Theorem ed_step_sticky c s st : ed_err s <> ENone -> ed_step est c s st = Ok s.
Proof. intros H. unfold ed_step, ed_Err. destruct (ed_err s) eqn:E; try contradiction; reflexivity. Qed.

Theorem ed_run_sticky c p : forall s, ed_err s <> ENone -> ed_run est c s p = Ok s.
Proof. induction p as [|st p IH]; intros s H; [reflexivity|]. cbn [ed_run]. rewrite ed_step_sticky by assumption. cbn [bind]. apply IH; assumption. Qed.

(* with no error held and no trapped flag accumulated, the wrapper performs exactly the Context
   operation of the same name and accumulates its flags *)
Theorem ed_step_performs c s st : ed_err s = ENone -> ctx_go_error c (ed_flags s) = ENone ->
  ed_step est c s st =
    do r <- ed_call est c st s;
    Ok (mkEd (match rdec r with Some d => set_nth (ed_regs s) (s_dst st) d | None => ed_regs s end)
             (ed_flags s ||| rcond r) (rerr r)).
Proof.
  intros H1 H2. unfold ed_step, ed_Err. rewrite H1, H2. cbn [err_is_none negb].
  destruct s as [rg fl er]. cbn [ed_err] in H1. subst er. reflexivity.
Qed.

(* a trapped flag accumulated earlier surfaces as the error and stops everything after it *)
Theorem ed_step_trapped c s st : ed_err s = ENone -> ctx_go_error c (ed_flags s) <> ENone ->
  ed_step est c s st = Ok (mkEd (ed_regs s) (ed_flags s) (ctx_go_error c (ed_flags s))).
Proof.
  intros H1 H2. unfold ed_step, ed_Err. rewrite H1.
  destruct (ctx_go_error c (ed_flags s)) eqn:E; try contradiction; reflexivity.
Qed.

End WithEst.
