(* Decimal.Cmp is the exact numeric order; CmpTotal is the documented total order (C15). *)
From Coq Require Import ZArith Lia Bool.
From Apd Require Import Generated.Consts Model.Base Model.NumDigits Model.Decimal Spec.Order Proofs.Digits Proofs.Core.
Open Scope Z_scope.

Lemma cmpZ_eq a b : cmpZ a b = cmpZ' a b.
Proof. reflexivity. Qed.

Lemma cmpZ'_opp a b : cmpZ' b a = - cmpZ' a b.
Proof. unfold cmpZ'. rewrite (Z.compare_antisym a b). destruct (a ?= b); reflexivity. Qed.

Lemma cmpZ'_scale k a b : 0 < k -> cmpZ' (a * k) (b * k) = cmpZ' a b.
Proof.
  intros Hk. unfold cmpZ'.
  destruct (Z.compare_spec a b) as [->|H|H].
  - rewrite Z.compare_refl. reflexivity.
  - assert (H' : a * k < b * k) by nia. apply Z.compare_lt_iff in H'. rewrite H'. reflexivity.
  - assert (H' : b * k < a * k) by nia. apply Z.compare_gt_iff in H'. rewrite H'. reflexivity.
Qed.

Lemma cmpZ'_lt a b : a < b -> cmpZ' a b = -1.
Proof. intros H. unfold cmpZ'. apply Z.compare_lt_iff in H. rewrite H. reflexivity. Qed.
Lemma cmpZ'_gt a b : b < a -> cmpZ' a b = 1.
Proof. intros H. unfold cmpZ'. apply Z.compare_gt_iff in H. rewrite H. reflexivity. Qed.
Lemma cmpZ'_refl a : cmpZ' a a = 0.
Proof. unfold cmpZ'. rewrite Z.compare_refl. reflexivity. Qed.
Lemma cmpZ'_spec a b : (cmpZ' a b = -1 /\ a < b) \/ (cmpZ' a b = 0 /\ a = b) \/ (cmpZ' a b = 1 /\ b < a).
Proof. unfold cmpZ'. destruct (Z.compare_spec a b); [right; left|left|right; right]; split; auto. Qed.

(* vcmp does not depend on the common exponent chosen, as long as it is below both *)
Lemma vcmp_common c1 e1 c2 e2 m : m <= e1 -> m <= e2 ->
  vcmp c1 e1 c2 e2 = cmpZ' (c1 * 10 ^ (e1 - m)) (c2 * 10 ^ (e2 - m)).
Proof.
  intros H1 H2. unfold vcmp. set (m0 := Z.min e1 e2).
  assert (Hm0 : m <= m0 /\ m0 <= e1 /\ m0 <= e2) by (unfold m0; lia).
  replace (e1 - m) with ((e1 - m0) + (m0 - m)) by lia.
  replace (e2 - m) with ((e2 - m0) + (m0 - m)) by lia.
  rewrite !pow10_add by lia. rewrite !Z.mul_assoc.
  symmetry. apply cmpZ'_scale. apply pow10_pos; lia.
Qed.

Lemma vcmp_opp c1 e1 c2 e2 : vcmp c2 e2 c1 e1 = - vcmp c1 e1 c2 e2.
Proof. unfold vcmp. rewrite (Z.min_comm e2 e1). apply cmpZ'_opp. Qed.

(* fewer digits + exponent means smaller magnitude *)
Lemma scaled_lt c1 e1 c2 e2 m : 0 < c1 -> 0 < c2 -> m <= e1 -> m <= e2 ->
  ndigits c1 + e1 < ndigits c2 + e2 -> c1 * 10 ^ (e1 - m) < c2 * 10 ^ (e2 - m).
Proof.
  intros Hc1 Hc2 Hm1 Hm2 Hlt.
  pose proof (ndigits_hi c1 ltac:(lia)) as Hhi. pose proof (ndigits_lo c2 Hc2) as Hlo.
  pose proof (ndigits_pos c1) as Hn1. pose proof (ndigits_pos c2) as Hn2.
  pose proof (pow10_pos (e1 - m) ltac:(lia)) as Hp1. pose proof (pow10_pos (e2 - m) ltac:(lia)) as Hp2.
  assert (A : c1 * 10 ^ (e1 - m) < 10 ^ (ndigits c1 + (e1 - m))) by (rewrite pow10_add by lia; nia).
  assert (B : 10 ^ ((ndigits c2 - 1) + (e2 - m)) <= c2 * 10 ^ (e2 - m)) by (rewrite pow10_add by lia; nia).
  assert (C : 10 ^ (ndigits c1 + (e1 - m)) <= 10 ^ ((ndigits c2 - 1) + (e2 - m))) by (apply pow10_le; lia).
  lia.
Qed.

Lemma vcmp_digits_lt c1 e1 c2 e2 : 0 < c1 -> 0 < c2 -> ndigits c1 + e1 < ndigits c2 + e2 -> vcmp c1 e1 c2 e2 = -1.
Proof. intros. unfold vcmp. apply cmpZ'_lt. apply scaled_lt; lia. Qed.
Lemma vcmp_digits_gt c1 e1 c2 e2 : 0 < c1 -> 0 < c2 -> ndigits c2 + e2 < ndigits c1 + e1 -> vcmp c1 e1 c2 e2 = 1.
Proof. intros. unfold vcmp. apply cmpZ'_gt. apply scaled_lt; lia. Qed.

Lemma dsign_vsign d : dsign d = vsign d.
Proof. reflexivity. Qed.

Lemma vsign_cases d : vsign d = 0 \/ vsign d = -1 \/ vsign d = 1.
Proof. unfold vsign. destruct (_ && _); [auto|]. destruct (neg d); auto. Qed.

Section WithEst.
Variable est : Z -> Z.
Hypothesis HE : est_in_range est.

(* Decimal.Cmp: the sign of the exact numeric difference, through all three paths, any exponent gap *)
Theorem dcmp_spec d x :
  is_nan d = false -> is_nan x = false -> 0 <= coeff d -> 0 <= coeff x ->
  dcmp est d x = Ok (cmp_spec d x).
Proof.
  intros Hnd Hnx Hcd Hcx. unfold dcmp, cmp_spec. cbv zeta. change dsign with vsign.
  remember (vsign d) as ds eqn:Eds. remember (vsign x) as xs eqn:Exs.
  destruct (Z.ltb_spec ds xs) as [|Hge]; [reflexivity|].
  destruct (Z.gtb_spec ds xs) as [|Hle]; [reflexivity|].
  assert (Heq : ds = xs) by lia.
  destruct (Z.eqb_spec ds 0) as [Hz|Hnz].
  { rewrite <- Heq, Hz. reflexivity. }
  replace (xs =? 0) with false by (symmetry; apply Z.eqb_neq; lia). rewrite andb_false_r.
  assert (Hds : ds = -1 \/ ds = 1) by (destruct (vsign_cases d) as [?|[?|?]]; lia).
  assert (Hgt : (if ds =? -1 then -1 else 1) = ds) by (destruct Hds as [-> | ->]; reflexivity).
  rewrite Hgt.
  destruct (form_eqb (form_of d) Infinite) eqn:Hid.
  { destruct (form_eqb (form_of x) Infinite); reflexivity. }
  destruct (form_eqb (form_of x) Infinite) eqn:Hix; [reflexivity|]. cbn [andb].
  (* both finite and non-zero *)
  assert (Hfd : form_of d = Finite).
  { unfold is_nan in Hnd. destruct (form_of d); try reflexivity; discriminate. }
  assert (Hfx : form_of x = Finite).
  { unfold is_nan in Hnx. destruct (form_of x); try reflexivity; discriminate. }
  assert (Hpd : 0 < coeff d).
  { rewrite Eds in Hnz. unfold vsign in Hnz. rewrite Hfd in Hnz. cbn [form_eqb andb] in Hnz.
    destruct (Z.eqb_spec (coeff d) 0); [contradiction|lia]. }
  assert (Hpx : 0 < coeff x).
  { assert (Hnzx : xs <> 0) by lia. rewrite Exs in Hnzx. unfold vsign in Hnzx. rewrite Hfx in Hnzx. cbn [form_eqb andb] in Hnzx.
    destruct (Z.eqb_spec (coeff x) 0); [contradiction|lia]. }
  assert (Hflip : forall c, (if ds <? 0 then - c else c) = ds * c).
  { intros c. destruct (Z.ltb_spec ds 0); lia. }
  destruct (Z.eqb_spec (exp d) (exp x)) as [He|Hne].
  - rewrite Hflip. f_equal. f_equal. rewrite cmpZ_eq. unfold vcmp. rewrite He, Z.min_id, Z.sub_diag. simpl (10 ^ 0).
    rewrite !Z.mul_1_r. reflexivity.
  - rewrite !(nd_ok est HE). cbn [bind].
    destruct (Z.ltb_spec (ndigits (coeff d) + exp d) (ndigits (coeff x) + exp x)) as [Hlt|Hnlt].
    { rewrite vcmp_digits_lt by assumption. f_equal. lia. }
    destruct (Z.gtb_spec (ndigits (coeff d) + exp d) (ndigits (coeff x) + exp x)) as [Hgt2|Hngt].
    { rewrite vcmp_digits_gt by (try assumption; lia). f_equal. lia. }
    destruct (Z.ltb_spec (exp d) (exp x)) as [Hl|Hl].
    + rewrite table_exp10_ok by lia. cbn [bind]. rewrite Hflip. f_equal. f_equal.
      rewrite cmpZ_eq. rewrite (vcmp_common _ _ _ _ (exp d)) by lia.
      rewrite Z.sub_diag. simpl (10 ^ 0). rewrite Z.mul_1_r. reflexivity.
    + rewrite table_exp10_ok by lia. cbn [bind]. rewrite Hflip. f_equal. f_equal.
      rewrite cmpZ_eq. rewrite (vcmp_common _ _ _ _ (exp x)) by lia.
      rewrite Z.sub_diag. simpl (10 ^ 0). rewrite Z.mul_1_r. reflexivity.
Qed.

End WithEst.

(* ---------- CmpTotal ---------- *)

Lemma cmp_order_rank d : cmp_order d = total_rank d.
Proof. unfold cmp_order, total_rank, form_index. destruct (form_of d), (neg d); reflexivity. Qed.

Lemma rank_eq_inv a b : total_rank a = total_rank b -> form_of a = form_of b /\ neg a = neg b.
Proof. unfold total_rank. destruct (form_of a), (form_of b), (neg a), (neg b); intros H; try (split; reflexivity); discriminate. Qed.

Section WithEst2.
Variable est : Z -> Z.
Hypothesis HE : est_in_range est.

Theorem cmp_total_spec d x : 0 <= coeff d -> 0 <= coeff x -> cmp_total est d x = Ok (total_spec d x).
Proof.
  intros Hcd Hcx. unfold cmp_total, total_spec. cbv zeta. rewrite !cmp_order_rank.
  destruct (Z.ltb_spec (total_rank d) (total_rank x)); [reflexivity|].
  destruct (Z.gtb_spec (total_rank d) (total_rank x)); [reflexivity|].
  assert (Hr : total_rank d = total_rank x) by lia.
  destruct (rank_eq_inv _ _ Hr) as [Hf Hn].
  destruct (form_of d) eqn:Hfd; try reflexivity.
  (* Finite *)
  assert (Hfx : form_of x = Finite) by congruence.
  rewrite (dcmp_spec est HE) by (try assumption; unfold is_nan; rewrite ?Hfd, ?Hfx; reflexivity).
  cbn [bind]. unfold cmp_spec, total_finite, vsign. rewrite Hfd, Hfx, <- Hn. cbn [form_eqb andb].
  destruct (Z.eqb_spec (coeff d) 0) as [Hd0|Hd0], (Z.eqb_spec (coeff x) 0) as [Hx0|Hx0]; cbn [andb negb].
  - (* both zero: by exponent *)
    change (0 <? 0) with false. change (0 >? 0) with false. change (0 =? 0) with true. cbv iota.
    change (negb (0 =? 0)) with false. cbv iota.
    destruct (neg d); destruct (Z.compare_spec (exp d) (exp x)) as [He|He|He]; unfold cmpZ';
      destruct (Z.ltb_spec (exp d) (exp x)); destruct (Z.gtb_spec (exp d) (exp x)); try lia;
      try (rewrite He, Z.compare_refl; reflexivity);
      try (apply Z.compare_lt_iff in He; rewrite He; reflexivity);
      try (apply Z.compare_gt_iff in He; rewrite He; reflexivity).
  - destruct (neg d); reflexivity.
  - destruct (neg d); reflexivity.
  - (* both non-zero, same sign *)
    set (s := if neg d then -1 else 1).
    assert (Hs : s = -1 \/ s = 1) by (unfold s; destruct (neg d); auto).
    replace (s <? s) with false by (symmetry; apply Z.ltb_ge; lia).
    destruct (Z.gtb_spec s s); [lia|].
    replace (s =? 0) with false by (symmetry; apply Z.eqb_neq; lia).
    set (v := vcmp (coeff d) (exp d) (coeff x) (exp x)).
    destruct (Z.eqb_spec (s * v) 0) as [Hv0|Hv0]; cbn [negb].
    + assert (Hv : v = 0) by nia.
      destruct (neg d) eqn:Hnd; unfold s in *; unfold cmpZ';
        destruct (Z.ltb_spec (exp d) (exp x)); destruct (Z.gtb_spec (exp d) (exp x)); try lia;
        destruct (Z.compare_spec (exp d) (exp x)); try lia; reflexivity.
    + reflexivity.
Qed.

End WithEst2.

(* ---------- total_spec is a total order ---------- *)

Definition lexcmp (a1 a2 b1 b2 : Z) : Z := if negb (cmpZ' a1 b1 =? 0) then cmpZ' a1 b1 else cmpZ' a2 b2.

Definition fsign (d : dec) : Z := if neg d then -1 else 1.

Lemma cmpZ'_mul_sign s a b : s = -1 \/ s = 1 -> cmpZ' (s * a) (s * b) = s * cmpZ' a b.
Proof.
  intros [-> | ->].
  - replace (-1 * a) with (- a) by lia. replace (-1 * b) with (- b) by lia.
    destruct (cmpZ'_spec a b) as [[-> H]|[[-> H]|[-> H]]].
    + rewrite cmpZ'_gt by lia. reflexivity.
    + subst. rewrite cmpZ'_refl. reflexivity.
    + rewrite cmpZ'_lt by lia. reflexivity.
  - rewrite !Z.mul_1_l. lia.
Qed.

(* with a common exponent m below both, total_finite is the lexicographic order on
   (signed scaled coefficient, signed exponent) *)
Lemma total_finite_lex a b m : neg a = neg b -> 0 <= coeff a -> 0 <= coeff b -> m <= exp a -> m <= exp b ->
  total_finite a b = lexcmp (fsign a * (coeff a * 10 ^ (exp a - m))) (fsign a * exp a)
                            (fsign a * (coeff b * 10 ^ (exp b - m))) (fsign a * exp b).
Proof.
  intros Hn Ha Hb Hma Hmb. unfold total_finite, lexcmp. fold (fsign a).
  assert (Hs : fsign a = -1 \/ fsign a = 1) by (unfold fsign; destruct (neg a); auto).
  rewrite !cmpZ'_mul_sign by assumption.
  pose proof (pow10_pos (exp a - m) ltac:(lia)) as Hpa. pose proof (pow10_pos (exp b - m) ltac:(lia)) as Hpb.
  destruct (Z.eqb_spec (coeff a) 0) as [Ha0|Ha0], (Z.eqb_spec (coeff b) 0) as [Hb0|Hb0]; cbn [andb].
  - rewrite Ha0, Hb0, !Z.mul_0_l, cmpZ'_refl, Z.mul_0_r. reflexivity.
  - rewrite Ha0, Z.mul_0_l. rewrite (cmpZ'_lt 0 (coeff b * 10 ^ (exp b - m))) by nia. replace (fsign a * -1) with (- fsign a) by lia. reflexivity.
  - rewrite Hb0, Z.mul_0_l. rewrite (cmpZ'_gt (coeff a * 10 ^ (exp a - m)) 0) by nia. rewrite Z.mul_1_r. reflexivity.
  - rewrite (vcmp_common _ _ _ _ m) by lia. reflexivity.
Qed.

Lemma lexcmp_refl a1 a2 : lexcmp a1 a2 a1 a2 = 0.
Proof. unfold lexcmp. rewrite !cmpZ'_refl. reflexivity. Qed.

Lemma lexcmp_opp a1 a2 b1 b2 : lexcmp b1 b2 a1 a2 = - lexcmp a1 a2 b1 b2.
Proof.
  unfold lexcmp. rewrite (cmpZ'_opp a1 b1), (cmpZ'_opp a2 b2).
  destruct (cmpZ'_spec a1 b1) as [[-> _]|[[-> _]|[-> _]]]; reflexivity.
Qed.

Lemma lexcmp_cases a1 a2 b1 b2 :
  (lexcmp a1 a2 b1 b2 = -1 /\ (a1 < b1 \/ (a1 = b1 /\ a2 < b2))) \/
  (lexcmp a1 a2 b1 b2 = 0 /\ a1 = b1 /\ a2 = b2) \/
  (lexcmp a1 a2 b1 b2 = 1 /\ (b1 < a1 \/ (a1 = b1 /\ b2 < a2))).
Proof.
  unfold lexcmp.
  destruct (cmpZ'_spec a1 b1) as [[-> H]|[[-> H]|[-> H]]]; cbn [Z.eqb negb]; try (left; split; [reflexivity|lia]);
    try (right; right; split; [reflexivity|lia]).
  destruct (cmpZ'_spec a2 b2) as [[-> H2]|[[-> H2]|[-> H2]]].
  - left. split; [reflexivity|lia].
  - right; left. split; [reflexivity|lia].
  - right; right. split; [reflexivity|lia].
Qed.

Definition wfc (d : dec) : Prop := 0 <= coeff d.

Theorem total_refl a : wfc a -> total_spec a a = 0.
Proof.
  intros Ha. unfold total_spec. rewrite Z.ltb_irrefl. destruct (Z.gtb_spec (total_rank a) (total_rank a)); [lia|].
  destruct (form_of a) eqn:Hf; try reflexivity; try apply cmpZ'_refl.
  rewrite (total_finite_lex a a (exp a)) by (try reflexivity; try assumption; lia). apply lexcmp_refl.
Qed.

Theorem total_antisym a b : wfc a -> wfc b -> total_spec b a = - total_spec a b.
Proof.
  intros Ha Hb. unfold total_spec.
  destruct (Z.ltb_spec (total_rank a) (total_rank b)), (Z.gtb_spec (total_rank a) (total_rank b)),
           (Z.ltb_spec (total_rank b) (total_rank a)), (Z.gtb_spec (total_rank b) (total_rank a)); try lia; try reflexivity.
  assert (Hr : total_rank a = total_rank b) by lia.
  destruct (rank_eq_inv _ _ Hr) as [Hf Hn]. rewrite <- Hf.
  destruct (form_of a) eqn:Hfa; try reflexivity; try apply cmpZ'_opp.
  set (m := Z.min (exp a) (exp b)).
  rewrite (total_finite_lex a b m), (total_finite_lex b a m) by (try assumption; try congruence; unfold m; lia).
  unfold fsign. rewrite <- Hn. apply lexcmp_opp.
Qed.

(* transitivity, in the two forms that together make a strict weak order *)
Theorem total_trans a b c : wfc a -> wfc b -> wfc c ->
  total_spec a b <= 0 -> total_spec b c <= 0 ->
  total_spec a c <= 0 /\ (total_spec a b < 0 \/ total_spec b c < 0 -> total_spec a c < 0).
Proof.
  intros Ha Hb Hc. unfold total_spec.
  destruct (Z.ltb_spec (total_rank a) (total_rank b)), (Z.gtb_spec (total_rank a) (total_rank b)),
           (Z.ltb_spec (total_rank b) (total_rank c)), (Z.gtb_spec (total_rank b) (total_rank c)),
           (Z.ltb_spec (total_rank a) (total_rank c)), (Z.gtb_spec (total_rank a) (total_rank c)); try lia.
  assert (Hab : total_rank a = total_rank b) by lia. assert (Hbc : total_rank b = total_rank c) by lia.
  destruct (rank_eq_inv _ _ Hab) as [Hf1 Hn1]. destruct (rank_eq_inv _ _ Hbc) as [Hf2 Hn2].
  rewrite <- Hf1.
  destruct (form_of a) eqn:Hfa.
  - set (m := Z.min (exp a) (Z.min (exp b) (exp c))).
    rewrite (total_finite_lex a b m), (total_finite_lex b c m), (total_finite_lex a c m)
      by (try assumption; try congruence; unfold m; lia).
    unfold fsign. rewrite <- Hn1.
    set (s := if neg a then -1 else 1).
    destruct (lexcmp_cases (s * (coeff a * 10 ^ (exp a - m))) (s * exp a) (s * (coeff b * 10 ^ (exp b - m))) (s * exp b))
      as [[-> K1]|[[-> K1]|[-> K1]]];
    destruct (lexcmp_cases (s * (coeff b * 10 ^ (exp b - m))) (s * exp b) (s * (coeff c * 10 ^ (exp c - m))) (s * exp c))
      as [[-> K2]|[[-> K2]|[-> K2]]];
    destruct (lexcmp_cases (s * (coeff a * 10 ^ (exp a - m))) (s * exp a) (s * (coeff c * 10 ^ (exp c - m))) (s * exp c))
      as [[-> K3]|[[-> K3]|[-> K3]]]; lia.
  - lia.
  - destruct (cmpZ'_spec (coeff a) (coeff b)) as [[-> K1]|[[-> K1]|[-> K1]]];
    destruct (cmpZ'_spec (coeff b) (coeff c)) as [[-> K2]|[[-> K2]|[-> K2]]];
    destruct (cmpZ'_spec (coeff a) (coeff c)) as [[-> K3]|[[-> K3]|[-> K3]]]; lia.
  - destruct (cmpZ'_spec (coeff a) (coeff b)) as [[-> K1]|[[-> K1]|[-> K1]]];
    destruct (cmpZ'_spec (coeff b) (coeff c)) as [[-> K2]|[[-> K2]|[-> K2]]];
    destruct (cmpZ'_spec (coeff a) (coeff c)) as [[-> K3]|[[-> K3]|[-> K3]]]; lia.
Qed.

(* zero exactly on identical representations (the coefficient and exponent fields of an Infinity
   are not part of its representation) *)
Theorem total_zero_iff a b : wfc a -> wfc b ->
  (total_spec a b = 0 <->
   form_of a = form_of b /\ neg a = neg b /\
   (form_of a = Infinite \/ (coeff a = coeff b /\ (form_of a = Finite -> exp a = exp b)))).
Proof.
  intros Ha Hb. unfold total_spec.
  destruct (Z.ltb_spec (total_rank a) (total_rank b)) as [Hl|Hl].
  { split; [lia|]. intros (Hf & Hn & _). unfold total_rank in Hl. rewrite Hf, Hn in Hl. lia. }
  destruct (Z.gtb_spec (total_rank a) (total_rank b)) as [Hg|Hg].
  { split; [lia|]. intros (Hf & Hn & _). unfold total_rank in Hg. rewrite Hf, Hn in Hg. lia. }
  assert (Hr : total_rank a = total_rank b) by lia.
  destruct (rank_eq_inv _ _ Hr) as [Hf Hn].
  destruct (form_of a) eqn:Hfa.
  - set (m := Z.min (exp a) (exp b)).
    rewrite (total_finite_lex a b m) by (try assumption; unfold m; lia).
    assert (Hs : fsign a = -1 \/ fsign a = 1) by (unfold fsign; destruct (neg a); auto).
    pose proof (pow10_pos (exp a - m) ltac:(unfold m; lia)) as Hpa.
    destruct (lexcmp_cases (fsign a * (coeff a * 10 ^ (exp a - m))) (fsign a * exp a)
                           (fsign a * (coeff b * 10 ^ (exp b - m))) (fsign a * exp b)) as [[-> H1]|[[-> H1]|[-> H1]]].
    + split; [lia|]. intros (_ & _ & [Hi|[Hc He]]); [discriminate|]. specialize (He eq_refl). rewrite Hc, He in H1. lia.
    + split; [|reflexivity]. intros _. split; [assumption|]. split; [assumption|]. right.
      destruct H1 as [H1 H2]. assert (He : exp a = exp b) by nia. rewrite He in H1.
      split; [|intros _; exact He].
      pose proof (pow10_pos (exp b - m) ltac:(unfold m; lia)). nia.
    + split; [lia|]. intros (_ & _ & [Hi|[Hc He]]); [discriminate|]. specialize (He eq_refl). rewrite Hc, He in H1. lia.
  - split; [|reflexivity]. intros _. split; [assumption|]. split; [assumption|]. left; reflexivity.
  - destruct (cmpZ'_spec (coeff a) (coeff b)) as [[-> H1]|[[-> H1]|[-> H1]]].
    + split; [lia|]. intros (_ & _ & [Hi|[Hc _]]); [discriminate|lia].
    + split; [|reflexivity]. intros _. split; [assumption|]. split; [assumption|]. right. split; [assumption|discriminate].
    + split; [lia|]. intros (_ & _ & [Hi|[Hc _]]); [discriminate|lia].
  - destruct (cmpZ'_spec (coeff a) (coeff b)) as [[-> H1]|[[-> H1]|[-> H1]]].
    + split; [lia|]. intros (_ & _ & [Hi|[Hc _]]); [discriminate|lia].
    + split; [|reflexivity]. intros _. split; [assumption|]. split; [assumption|]. right. split; [assumption|discriminate].
    + split; [lia|]. intros (_ & _ & [Hi|[Hc _]]); [discriminate|lia].
Qed.

(* CmpTotal agrees with Cmp on numerically different finite numbers *)
Ltac brk :=
  repeat match goal with
  | H : context [?x <? ?y] |- _ => destruct (Z.ltb_spec x y)
  | H : context [?x >? ?y] |- _ => destruct (Z.gtb_spec x y)
  | H : context [?x =? ?y] |- _ => destruct (Z.eqb_spec x y)
  | |- context [?x <? ?y] => destruct (Z.ltb_spec x y)
  | |- context [?x >? ?y] => destruct (Z.gtb_spec x y)
  | |- context [?x =? ?y] => destruct (Z.eqb_spec x y)
  end; cbn [negb andb] in *.

Theorem total_agrees_with_cmp a b : wfc a -> wfc b -> form_of a = Finite -> form_of b = Finite ->
  cmp_spec a b <> 0 -> total_spec a b = cmp_spec a b.
Proof.
  intros Ha Hb Hfa Hfb Hne. unfold total_spec, total_finite, total_rank. unfold cmp_spec, vsign in *.
  rewrite Hfa, Hfb in *. cbn [form_eqb andb] in *.
  set (v := vcmp (coeff a) (exp a) (coeff b) (exp b)) in *. clearbody v.
  set (w := cmpZ' (exp a) (exp b)). clearbody w.
  destruct (neg a), (neg b); brk; try lia; try reflexivity.
Qed.
