(* C03 for Context.Ln on the power-series path (Model/Ln.v), for every content of the constant tables: a call that
   returns no error returns the value and the Condition of the same call with an empty trap set. *)
From Coq Require Import ZArith Lia Bool List.
From Apd Require Import Generated.Consts Model.Base Model.NumDigits Model.Decimal Model.Context Model.Roots Model.Ln Model.ErrDec
  Proofs.TrapsProofs Proofs.RootsTraps.
Open Scope Z_scope.

Section WithEst.
Variable est : Z -> Z.
Variable tab : list (Z * Z).

(* ed_of says exactly: no error and a value *)
Lemma ed_of_ok r d f : ed_of (Ok r) = Ok (EdOk _ (d, f)) <-> rerr r = ENone /\ rdec r = Some d /\ rcond r = f.
Proof.
  unfold ed_of. cbn [bind]. destruct (rerr r) eqn:E; destruct (rdec r) eqn:D; split; intros H;
    try discriminate; try (destruct H as (H1 & H2 & H3); discriminate).
  - injection H as <- <-. auto.
  - destruct H as (_ & H2 & H3). injection H2 as <-. subst f. reflexivity.
Qed.

Lemma ln_series_untrapped fuel : forall nc n t1 t2 t3 eps v,
  ln_series est fuel nc n t1 t2 t3 eps = Ok (EdOk _ v) -> ln_series est fuel (no_traps nc) n t1 t2 t3 eps = Ok (EdOk _ v).
Proof.
  induction fuel as [|fuel IH]; intros nc n t1 t2 t3 eps v; cbn [ln_series]; [discriminate|].
  unfold edbind.
  destruct (ed_of (ctx_mul est nc t3 t2)) as [[[a f1]|e1]| |] eqn:E1; cbn [bind]; try discriminate.
  rewrite (mul_untrapped est nc _ _ _ E1). cbn [bind].
  destruct (ed_of (ctx_mul est nc a t2)) as [[[t3' f2]|e2]| |] eqn:E2; cbn [bind]; try discriminate.
  rewrite (mul_untrapped est nc _ _ _ E2). cbn [bind].
  destruct (ed_of (ctx_quo est nc t3' _)) as [[[t4 f3]|e3]| |] eqn:E3; cbn [bind]; try discriminate.
  rewrite (quo_untrapped est nc _ _ _ E3). cbn [bind].
  destruct (ed_of (ctx_add est nc t1 t4 false)) as [[[t1' f4]|e4]| |] eqn:E4; cbn [bind]; try discriminate.
  rewrite (add_untrapped est nc _ _ _ _ E4). cbn [bind].
  destruct (dcmp est (dabs t4) eps) as [cm| |]; cbn [bind]; try discriminate.
  destruct (cm <=? 0); [intros H; exact H|apply IH].
Qed.
Lemma ln_series_err fuel : forall nc n t1 t2 t3 eps e,
  ln_series est fuel nc n t1 t2 t3 eps = Ok (EdErr _ e) -> e <> ENone.
Proof.
  induction fuel as [|fuel IH]; intros nc n t1 t2 t3 eps e; cbn [ln_series]; [discriminate|].
  unfold edbind.
  destruct (ed_of (ctx_mul est nc t3 t2)) as [[[a f1]|e1]| |] eqn:E1; cbn [bind]; try discriminate;
    [|intros [= <-]; exact (ed_of_err _ _ E1)].
  destruct (ed_of (ctx_mul est nc a t2)) as [[[t3' f2]|e2]| |] eqn:E2; cbn [bind]; try discriminate;
    [|intros [= <-]; exact (ed_of_err _ _ E2)].
  destruct (ed_of (ctx_quo est nc t3' _)) as [[[t4 f3]|e3]| |] eqn:E3; cbn [bind]; try discriminate;
    [|intros [= <-]; exact (ed_of_err _ _ E3)].
  destruct (ed_of (ctx_add est nc t1 t4 false)) as [[[t1' f4]|e4]| |] eqn:E4; cbn [bind]; try discriminate;
    [|intros [= <-]; exact (ed_of_err _ _ E4)].
  destruct (dcmp est (dabs t4) eps) as [cm| |]; cbn [bind]; try discriminate.
  destruct (cm <=? 0); [discriminate|apply IH].
Qed.

(* a single operation that delivered a value without error delivers the same value, Condition and no error under
   the empty trap set *)
Lemma raw_untrapped (op : ctx -> res result) c r d :
  (forall t, strip (op (with_traps c t)) = strip (op c)) -> (forall t, err_wf (with_traps c t) (op (with_traps c t))) ->
  op c = Ok r -> rerr r = ENone -> rdec r = Some d ->
  exists r', op (no_traps c) = Ok r' /\ rdec r' = Some d /\ rcond r' = rcond r /\ rerr r' = ENone.
Proof.
  intros Hi Hw Hr He Hd.
  assert (E : ed_of (op c) = Ok (EdOk _ (d, rcond r))) by (rewrite Hr; apply ed_of_ok; auto).
  pose proof (ed_of_untrapped op c (d, rcond r) Hi Hw E) as E'.
  destruct (op (no_traps c)) as [r'| |] eqn:Er'; try (cbn in E'; discriminate).
  apply ed_of_ok in E'. destruct E' as (A & B & C). exists r'. auto.
Qed.

Lemma add_value c x y s r : ctx_add est c x y s = Ok r -> rerr r = ENone -> exists d, rdec r = Some d.
Proof.
  unfold ctx_add, set_as_nan, ret, finish. cbv zeta. intros H He.
  repeat match type of H with
  | context [if ?b then _ else _] => destruct b
  | context [match ?y with Some _ => _ | None => _ end] => destruct y
  | context [let '(_, _) := ?t in _] => destruct t
  | context [bind ?m _] => destruct m as [?| |]; cbn [bind] in H
  end; try discriminate; injection H as <-; cbn [rdec rerr] in *; try discriminate; eauto.
Qed.

Lemma log_specials_indep c t x :
  match log_specials est (with_traps c t) x, log_specials est c x with
  | Ok (Some r'), Ok (Some r) => rdec r' = rdec r /\ rcond r' = rcond r
  | Ok None, Ok None => True
  | Panic w', Panic w => w' = w
  | OutOfFuel, OutOfFuel => True
  | _, _ => False
  end.
Proof.
  unfold log_specials. destruct (should_set_as_nan x None).
  { pose proof (san_indep c t x None) as H. cbn [strip ret] in H. injection H as H1 H2. split; assumption. }
  destruct (dsign x <? 0); [split; reflexivity|]. destruct (form_eqb (form_of x) Infinite); [split; reflexivity|].
  destruct (dcmp est x d_zero) as [z| |]; cbn [bind]; try reflexivity. destruct (z =? 0); [split; reflexivity|].
  destruct (dcmp est x d_one) as [o| |]; cbn [bind]; try reflexivity. destruct (o =? 0); [split; reflexivity|exact I].
Qed.

(* the series part of Ln, as a function of the context *)
Lemma series_untrapped c x1 adj r :
  (let p := prec c + 2 in
   let nc := mkCtx p (emax c) (emin c) (traps c) RHalfEven in
   do rr <- edbind (ed_of (ctx_add est nc x1 d_two_ false)) (fun '(t3, _) =>
            edbind (ed_of (ctx_quo est nc x1 t3)) (fun '(t2, _) =>
            edbind (ed_of (ctx_add est nc t2 t2 false)) (fun '(t3b, _) =>
            edbind (ln_series est (Z.to_nat (p + 60)) nc 1 t3b t2 t3b (mkDec Finite false (- p) 1)) (fun t1 =>
            edbind (ed_of (ctx_add est nc t1 adj false)) (fun '(t1f, _) => Ok (EdOk _ t1f))))));
   match rr with
   | EdErr _ e => Ok (Some (mkResult None c0 e))
   | EdOk _ v => do (d, f) <- ctx_round est c v; Ok (Some (finish c d (f ||| fInexact)))
   end) = Ok (Some r) -> rerr r = ENone ->
  exists r',
  (let p := prec c + 2 in
   let nc := mkCtx p (emax c) (emin c) c0 RHalfEven in
   do rr <- edbind (ed_of (ctx_add est nc x1 d_two_ false)) (fun '(t3, _) =>
            edbind (ed_of (ctx_quo est nc x1 t3)) (fun '(t2, _) =>
            edbind (ed_of (ctx_add est nc t2 t2 false)) (fun '(t3b, _) =>
            edbind (ln_series est (Z.to_nat (p + 60)) nc 1 t3b t2 t3b (mkDec Finite false (- p) 1)) (fun t1 =>
            edbind (ed_of (ctx_add est nc t1 adj false)) (fun '(t1f, _) => Ok (EdOk _ t1f))))));
   match rr with
   | EdErr _ e => Ok (Some (mkResult None c0 e))
   | EdOk _ v => do (d, f) <- ctx_round est c v; Ok (Some (finish (no_traps c) d (f ||| fInexact)))
   end) = Ok (Some r') /\ rdec r' = rdec r /\ rcond r' = rcond r.
Proof.
  cbv zeta. set (nc := mkCtx (prec c + 2) (emax c) (emin c) (traps c) RHalfEven).
  change (mkCtx (prec c + 2) (emax c) (emin c) c0 RHalfEven) with (no_traps nc).
  unfold edbind.
  destruct (ed_of (ctx_add est nc x1 d_two_ false)) as [[[t3 f1]|e1]| |] eqn:E1; cbn [bind]; try discriminate.
  2:{ intros [= <-] He. exfalso. exact (ed_of_err _ _ E1 He). }
  rewrite (add_untrapped est nc _ _ _ _ E1). cbn [bind].
  destruct (ed_of (ctx_quo est nc x1 t3)) as [[[t2 f2]|e2]| |] eqn:E2; cbn [bind]; try discriminate.
  2:{ intros [= <-] He. exfalso. exact (ed_of_err _ _ E2 He). }
  rewrite (quo_untrapped est nc _ _ _ E2). cbn [bind].
  destruct (ed_of (ctx_add est nc t2 t2 false)) as [[[t3b f3]|e3]| |] eqn:E3; cbn [bind]; try discriminate.
  2:{ intros [= <-] He. exfalso. exact (ed_of_err _ _ E3 He). }
  rewrite (add_untrapped est nc _ _ _ _ E3). cbn [bind].
  destruct (ln_series est _ nc 1 t3b t2 t3b _) as [[t1|e4]| |] eqn:E4; cbn [bind]; try discriminate.
  2:{ intros [= <-] He. exfalso. exact (ln_series_err _ _ _ _ _ _ _ _ E4 He). }
  rewrite (ln_series_untrapped _ _ _ _ _ _ _ _ E4). cbn [bind].
  destruct (ed_of (ctx_add est nc t1 adj false)) as [[[t1f f5]|e5]| |] eqn:E5; cbn [bind]; try discriminate.
  2:{ intros [= <-] He. exfalso. exact (ed_of_err _ _ E5 He). }
  rewrite (add_untrapped est nc _ _ _ _ E5). cbn [bind].
  destruct (ctx_round est c t1f) as [[d f]| |]; cbn [bind]; try discriminate.
  intros [= <-] _. eexists. split; [reflexivity|]. split; reflexivity.
Qed.

Theorem ln_untrapped c x r : ctx_ln_series est tab c x = Ok (Some r) -> rerr r = ENone ->
  exists r', ctx_ln_series est tab (no_traps c) x = Ok (Some r') /\ rdec r' = rdec r /\ rcond r' = rcond r.
Proof.
  unfold ctx_ln_series, no_traps. pose proof (log_specials_indep c c0 x) as Hs.
  destruct (log_specials est (with_traps c c0) x) as [[r'|]| |], (log_specials est c x) as [[r0|]| |]; cbn [bind];
    try contradiction; try discriminate.
  { destruct Hs as [H1 H2]. intros [= <-] _. exists r'. auto. }
  cbv zeta. cbn [prec emax emin traps with_traps].
  set (nc := mkCtx (prec c + 2) (emax c) (emin c) (traps c) RHalfEven).
  change (mkCtx (prec c + 2) (emax c) (emin c) c0 RHalfEven) with (no_traps nc).
  destruct (ctx_add est nc x d_one true) as [r1| |] eqn:E1; cbn [bind]; try discriminate.
  destruct (rerr r1) eqn:Ee1.
  2,3,4,5: (destruct (dcmp est _ _) as [cm| |]; cbn [bind]; try discriminate; destruct (cm <=? 0); [intros [= <-] He; discriminate|discriminate]).
  destruct (add_value _ _ _ _ _ E1 Ee1) as [v1 Hv1].
  destruct (raw_untrapped (fun c' => ctx_add est c' x d_one true) nc r1 v1
              (fun t => add_indep est nc t x d_one true) (fun t => add_wf est (with_traps nc t) x d_one true) E1 Ee1 Hv1)
    as (r1' & E1' & D1 & C1 & R1).
  rewrite E1'. cbn [bind]. rewrite D1, Hv1, R1.
  destruct (dcmp est (dabs v1) _) as [cm| |]; cbn [bind]; try discriminate.
  destruct (cm <=? 0).
  { intros H He. exact (series_untrapped c v1 _ r H He). }
  destruct (num_digits_with est (coeff x)) as [ndx| |]; cbn [bind]; try discriminate.
  destruct (const_get strLn10 tab (prec c + 2)) as [ln10| |]; cbn [bind]; try discriminate.
  destruct (ed_of (ctx_mul est nc _ ln10)) as [[[adj fm]|em]| |] eqn:Em; cbn [bind]; try discriminate.
  rewrite (mul_untrapped est nc _ _ _ Em). cbn [bind].
  destruct (ctx_add est nc (set_exp x _) d_one true) as [r2| |] eqn:E2; cbn [bind]; try discriminate.
  destruct (rerr r2) eqn:Ee2.
  2,3,4,5: (destruct (rdec r2) as [v2|]; [|discriminate]; destruct (dcmp est _ _) as [cm2| |]; cbn [bind]; try discriminate;
            destruct (cm2 <=? 0); [intros [= <-] He; discriminate|discriminate]).
  destruct (add_value _ _ _ _ _ E2 Ee2) as [v2 Hv2].
  destruct (raw_untrapped (fun c' => ctx_add est c' (set_exp x (exp x - (ndx + exp x))) d_one true) nc r2 v2
              (fun t => add_indep est nc t _ d_one true) (fun t => add_wf est (with_traps nc t) _ d_one true) E2 Ee2 Hv2)
    as (r2' & E2' & D2 & C2 & R2).
  rewrite E2'. cbn [bind]. rewrite D2, Hv2, R2.
  destruct (dcmp est (dabs v2) _) as [cm2| |]; cbn [bind]; try discriminate.
  destruct (cm2 <=? 0); [|discriminate].
  intros H He. exact (series_untrapped c v2 adj r H He).
Qed.

(* Log10 computes its logarithm under a private context (BaseContext's traps) and multiplies with no traps at all:
   value and Condition never depend on the caller's traps *)
Theorem log10_indep tab2 c t x :
  match ctx_log10_series est tab tab2 (with_traps c t) x, ctx_log10_series est tab tab2 c x with
  | Ok (Some r'), Ok (Some r) => rdec r' = rdec r /\ rcond r' = rcond r
  | Ok None, Ok None => True
  | Panic w', Panic w => w' = w
  | OutOfFuel, OutOfFuel => True
  | _, _ => False
  end.
Proof.
  unfold ctx_log10_series. pose proof (log_specials_indep c t x) as Hs.
  destruct (log_specials est (with_traps c t) x) as [[r'|]| |], (log_specials est c x) as [[r0|]| |]; cbn [bind];
    try contradiction; try exact I; try exact Hs.
  cbv zeta. cbn [prec emax emin with_traps].
  destruct (ctx_ln_series est tab _ x) as [[lr|]| |]; cbn [bind]; try exact I; try reflexivity.
  destruct (rerr lr); try (split; reflexivity).
  destruct (rdec lr) as [z|]; [|split; reflexivity].
  destruct (const_get strInvLn10 tab2 (prec c + 2)) as [k| |]; cbn [bind]; try exact I; try reflexivity.
  destruct (ctx_mul est _ z k) as [m| |]; cbn [bind]; try exact I; try reflexivity.
  destruct (rerr m); try (split; reflexivity). destruct (rdec m); split; reflexivity.
Qed.
End WithEst.
