(* C09: the branch of Context.quantize that drops some (or exactly all) digits through an inner Round with a
   scratch context of Precision = digits kept: ONE integer rounding of coeff / 10^diff in the context's
   mode with the sign of the operand; a carry out of all nines is folded back. *)
From Coq Require Import ZArith Lia Bool.
From Apd Require Import Generated.Consts Model.Base Model.NumDigits Model.Decimal Model.Context Spec.SpecZ Spec.Order
  Proofs.Digits Proofs.Core Proofs.CmpProofs Proofs.RoundBasics Proofs.SetExponent Proofs.RoundEq Proofs.RoundSpec Proofs.OpsProofs Proofs.QuantizeProofs.
Open Scope Z_scope.

Section WithEst.
Variable est : Z -> Z.
Hypothesis HE : est_in_range est.

(* Round with disableIfPrecisionZero = false and Precision >= 0 digits kept, more digits than that present *)
Lemma round_B0 (r : rounder) (c : ctx) (x : dec) :
  form_of x = Finite -> 0 < coeff x -> 0 <= prec c ->
  let nd := ndigits (coeff x) in
  emin c <= exp x + nd - 1 -> 0 < nd - prec c -> nd - prec c <= MaxExponent ->
  let diff := nd - prec c in
  let k := 10 ^ diff in
  let y := coeff x / k in
  let y' := rndZ r (neg x) (coeff x) k in
  let res1 := if coeff x mod k =? 0 then fRounded else fRounded ||| fInexact in
  let yd := if ndigits y' >? ndigits y then (y' / 10, diff + 1) else (y', diff) in
  round_with est r c x false =
    do (d2, f) <- set_exponent est c (set_coeff x (fst yd)) unknownNumDigits res1 [exp x; snd yd]; Ok (d2, res1 ||| f).
Proof.
  intros Hfin Hnz Hp0 nd Hadj Hd1 Hd2 diff k y y' res1 yd.
  assert (Hco : 0 <= coeff x) by lia.
  unfold round_with, is_finite. rewrite Hfin. cbn [form_eqb negb].
  rewrite (nd_ok est HE). cbn [bind andb]. fold nd.
  rewrite (dsign_pos x Hfin Hnz). cbn [negb andb].
  destruct (Z.ltb_spec (exp x + nd - 1) (emin c)); [lia|]. fold diff.
  destruct (Z.gtb_spec diff 0); [|lia].
  destruct (Z.gtb_spec diff MaxExponent); [lia|].
  destruct (Z.ltb_spec diff MinExponent); [unfold MinExponent in *; lia|].
  rewrite table_exp10_ok by lia. cbn [bind]. fold k.
  assert (Hk : 0 < k) by (apply pow10_pos; lia).
  rewrite Z.quot_div_nonneg, Z.rem_mod_nonneg by lia. fold y.
  pose proof (Z.mod_pos_bound (coeff x) k Hk) as Hr.
  assert (Hy : 0 <= y) by (apply Z.div_pos; lia).
  destruct (Z.eqb_spec (coeff x mod k) 0) as [Hz|Hnzr]; cbn [negb bind].
  - assert (Hy' : y' = y) by (unfold y'; apply rndZ_exact; assumption).
    unfold yd. clearbody y'. rewrite Hy'. destruct (Z.gtb_spec (ndigits y) (ndigits y)); [lia|]. reflexivity.
  - rewrite (dcmp_spec est HE) by (cbn; lia || reflexivity).
    cbn [bind]. unfold cmp_spec, vsign, d_half, dec_of_pair, decimalHalf. cbn [form_of neg exp coeff fst snd form_eqb andb].
    assert (Hnz' : (coeff x mod k =? 0) = false) by (apply Z.eqb_neq; assumption). rewrite Hnz'.
    change (5 <? 0) with false. change (Z.abs 5) with 5. change (5 =? 0) with false. cbv iota.
    change (1 <? 1) with false. change (1 >? 1) with false. change (1 =? 0) with false. cbv iota. cbn [andb].
    rewrite Z.mul_1_l. rewrite vcmp_half by lia. replace (- - diff) with diff by lia. fold k.
    rewrite <- cmpZ_eq.
    pose proof (sao_rndZ r (neg x) (coeff x) k Hco Hk Hnzr) as Hs. fold y y' in Hs. unfold yd. clearbody y'.
    destruct (should_add_one r y (neg x) (cmpZ (2 * (coeff x mod k)) k)).
    + rewrite (round_add_one_spec est HE) by assumption. cbn [bind]. rewrite <- Hs.
      destruct (ndigits (y + 1) >? ndigits y); reflexivity.
    + rewrite <- Hs. destruct (Z.gtb_spec (ndigits y) (ndigits y)); [lia|]. reflexivity.
Qed.

(* the flags of the inner rounding, as quantize returns them *)
Definition q_flags (exact : bool) : cond :=
  if exact then fRounded ||| uf fRounded else (fRounded ||| fInexact) ||| uf (fRounded ||| fInexact).

(* some or exactly all digits are dropped *)
Theorem quantize_middle c v e : form_of v = Finite -> 0 < coeff v ->
  let diff := e - exp v in
  0 < diff -> diff <= ndigits (coeff v) -> diff < MaxExponent -> ndigits (coeff v) < MaxExponent ->
  let k := 10 ^ diff in
  quantize_inner est c v e =
    Ok (mkDec Finite (neg v) e (rndZ (rounding c) (neg v) (coeff v) k), q_flags (coeff v mod k =? 0)).
Proof.
  intros Hf Hc diff Hd0 Hd1 Hd2 Hnl k. pose proof (ndigits_pos (coeff v)) as Hndp.
  set (nd := ndigits (coeff v)) in *.
  unfold quantize_inner. fold diff.
  rewrite (is_zero_finite v Hf). destruct (Z.eqb_spec (coeff v) 0) as [Hcz|_]; [lia|].
  destruct (Z.ltb_spec diff 0); [lia|]. destruct (Z.gtb_spec diff 0); [|lia].
  rewrite (nd_ok est HE). cbn [bind]. fold nd.
  destruct (Z.ltb_spec (nd - diff) 0); [lia|].
  set (nc := mkCtx (nd - diff) MaxExponent MinExponent (traps c) (rounding c)).
  change (rounding nc) with (rounding c).
  (* the inner Round *)
  pose proof (round_B0 (rounding c) nc (set_exp v (- diff))) as HR. cbv zeta in HR.
  cbn [form_of coeff exp set_exp prec emin neg nc] in HR. fold nd in HR.
  replace (nd - (nd - diff)) with diff in HR by lia. fold k in HR.
  rewrite HR; try assumption; try lia; try (unfold MinExponent, MaxExponent in *; lia). clear HR.
  set (y := coeff v / k). set (y' := rndZ (rounding c) (neg v) (coeff v) k).
  assert (Hk : 0 < k) by (apply pow10_pos; lia).
  pose proof (rndZ_bounds (rounding c) (neg v) (coeff v) k ltac:(lia) Hk) as Hb. fold y y' in Hb.
  assert (Hy : 0 <= y) by (apply Z.div_pos; lia).
  (* y has nd - diff digits (or is 0 when every digit is dropped) *)
  assert (Hyd : y < 10 ^ (nd - diff)).
  { apply Z.div_lt_upper_bound; [lia|]. pose proof (ndigits_hi (coeff v) ltac:(lia)) as Hhi. fold nd in Hhi.
    assert (E : 10 ^ nd = k * 10 ^ (nd - diff)) by (unfold k; rewrite <- pow10_add by lia; f_equal; lia). lia. }
  set (res1 := if coeff v mod k =? 0 then fRounded else fRounded ||| fInexact).
  set (yd := if ndigits y' >? ndigits y then (y' / 10, diff + 1) else (y', diff)).
  (* value and exponent after the possible carry *)
  assert (Hyd2 : (snd yd = diff /\ fst yd = y') \/ (snd yd = diff + 1 /\ fst yd * 10 = y' /\ 0 < fst yd)).
  { unfold yd. destruct (Z.gtb_spec (ndigits y') (ndigits y)) as [Hcar|Hno]; cbn [fst snd]; [right|left; split; reflexivity].
    assert (Hy1 : y' = y + 1) by (destruct (Z.eq_dec y' y) as [E|E]; [rewrite E in Hcar; lia|lia]).
    assert (Hc10 : y + 1 = 10 ^ ndigits y) by (apply ndigits_succ_carry; [lia|]; rewrite <- Hy1; lia).
    pose proof (ndigits_pos y).
    assert (E10 : 10 ^ ndigits y = 10 ^ (ndigits y - 1) * 10).
    { replace (ndigits y) with ((ndigits y - 1) + 1) at 1 by lia. rewrite pow10_succ by lia. lia. }
    pose proof (pow10_pos (ndigits y - 1) ltac:(lia)).
    rewrite Hy1, Hc10, E10. rewrite Z.div_mul by lia. split; [reflexivity|]. split; lia. }
  assert (Hfy : 0 <= fst yd) by (destruct Hyd2 as [[_ ->]|[_ [_ ?]]]; lia).
  assert (Hnfy : ndigits (fst yd) <= nd + 1).
  { assert (fst yd <= 10 ^ (nd - diff)) by (destruct Hyd2 as [[_ ->]|[_ [E ?]]]; lia).
    pose proof (ndigits_mono (fst yd) (10 ^ (nd - diff)) ltac:(lia)) as Hm. rewrite ndigits_pow10 in Hm by lia. lia. }
  assert (Hsum : sum_exps [- diff; snd yd] 0 = inr (- diff + snd yd)).
  { assert (Hsnd : snd yd = diff \/ snd yd = diff + 1) by (destruct Hyd2 as [[E _]|[E _]]; auto).
    rewrite sum_exps_2; [f_equal; lia| |]; unfold in_lim, MinExponent, MaxExponent in *; [lia|destruct Hsnd as [E|E]; rewrite E; lia]. }
  pose proof (ndigits_pos (fst yd)) as Hfp.
  rewrite (se_normal est HE nc (set_coeff (set_exp v (- diff)) (fst yd)) unknownNumDigits res1 [- diff; snd yd] (- diff + snd yd));
    try assumption; try reflexivity; try (left; reflexivity); cbn [form_of coeff set_coeff set_exp emin emax nc]; try assumption;
    try (unfold in_lim, MinExponent, MaxExponent in *; destruct Hyd2 as [[E _]|[E _]]; rewrite E; lia).
  cbn [bind]. unfold set_exp, set_coeff. cbn [form_of neg exp coeff]. rewrite Hf.
  assert (Hfl : res1 ||| uf res1 = q_flags (coeff v mod k =? 0)) by (unfold res1, q_flags; destruct (coeff v mod k =? 0); reflexivity).
  rewrite Hfl.
  destruct Hyd2 as [[E1 E2]|[E1 [E2 E3]]]; rewrite E1.
  - replace (- diff + diff) with 0 by lia. cbn [Z.gtb Z.compare]. rewrite E2. reflexivity.
  - replace (- diff + (diff + 1)) with 1 by lia. cbn [Z.gtb Z.compare]. unfold bigTen. rewrite E2. reflexivity.
Qed.

End WithEst.

(* ---------- all branches of Context.quantize on a finite operand ---------- *)
Section All.
Variable est : Z -> Z.
Hypothesis HE : est_in_range est.

(* x / 10^e rounded to an integer: the coefficient the property prescribes, and whether digits were lost *)
Definition quant_coeff (mode : rounder) (v : dec) (e : Z) : Z :=
  if e <=? exp v then coeff v * 10 ^ (exp v - e) else rndZ mode (neg v) (coeff v) (10 ^ (e - exp v)).
Definition quant_inexact (v : dec) (e : Z) : bool :=
  if e <=? exp v then false else negb (coeff v mod 10 ^ (e - exp v) =? 0).

Definition quant_post (c : ctx) (v : dec) (e : Z) (d : dec) (f : cond) : Prop :=
  d = mkDec Finite (neg v) e (quant_coeff (rounding c) v e) /\
  Inexact f = quant_inexact v e /\ (Inexact f = true -> Rounded f = true) /\
  Subnormal f = false /\ Underflow f = false /\ Overflow f = false /\ InvalidOperation f = false /\
  SystemOverflow f = false /\ SystemUnderflow f = false /\
  DivisionByZero f = false /\ DivisionUndefined f = false /\ DivisionImpossible f = false.

Theorem quantize_inner_correct c v e : form_of v = Finite -> 0 <= coeff v ->
  exp v - e < MaxExponent -> e - exp v < MaxExponent -> ndigits (coeff v) < MaxExponent ->
  exists d f, quantize_inner est c v e = Ok (d, f) /\ quant_post c v e d f.
Proof.
  intros Hf Hc L1 L2 L3. unfold quant_post, quant_coeff, quant_inexact.
  destruct (Z.leb_spec e (exp v)) as [Hle|Hgt].
  - rewrite (quantize_finer est c v e) by lia. rewrite Hf. eexists; eexists; split; [reflexivity|].
    repeat split; try reflexivity. discriminate.
  - destruct (Z.eq_dec (coeff v) 0) as [Hz|Hnz].
    + (* a zero: only the exponent changes, no condition *)
      assert (Hk : 0 < 10 ^ (e - exp v)) by (apply pow10_pos; lia).
      rewrite Hz. rewrite Z.mod_0_l by lia. cbn [Z.eqb negb].
      assert (Hr : rndZ (rounding c) (neg v) 0 (10 ^ (e - exp v)) = 0) by (rewrite rndZ_exact; [apply Z.div_0_l|apply Z.mod_0_l]; lia).
      rewrite Hr.
      rewrite (quantize_zero est c v e Hf Hz).
      eexists; eexists; split; [reflexivity|]. repeat split; try reflexivity. discriminate.
    + assert (Hpos : 0 < coeff v) by lia.
      destruct (Z.lt_ge_cases (ndigits (coeff v)) (e - exp v)) as [Hall|Hmid].
      * (* more than one digit below the quantum *)
        destruct (quantize_all_discarded est HE c v e Hf Hpos Hall) as [Hq _]. rewrite Hq.
        assert (Hk : 0 < 10 ^ (e - exp v)) by (apply pow10_pos; lia).
        assert (Hm : coeff v mod 10 ^ (e - exp v) = coeff v).
        { apply Z.mod_small. pose proof (ndigits_hi (coeff v) ltac:(lia)).
          assert (10 ^ ndigits (coeff v) <= 10 ^ (e - exp v)) by (apply pow10_le; pose proof (ndigits_pos (coeff v)); lia). lia. }
        rewrite Hm. destruct (Z.eqb_spec (coeff v) 0); [lia|]. cbn [negb].
        eexists; eexists; split; [reflexivity|]. repeat split; reflexivity.
      * rewrite (quantize_middle est HE c v e) by (try assumption; lia).
        eexists; eexists; split; [reflexivity|]. unfold q_flags.
        destruct (coeff v mod 10 ^ (e - exp v) =? 0); repeat split; try reflexivity; discriminate.
Qed.

End All.

(* ---------- Context.Quantize with its guards, RoundToIntegralValue / Exact ---------- *)
Section Ops.
Variable est : Z -> Z.
Hypothesis HE : est_in_range est.

(* the property's condition for NaN + InvalidOperation *)
Definition quant_invalid (c : ctx) (x : dec) (e : Z) : bool :=
  let q := quant_coeff (rounding c) x e in
  (ndigits q >? prec c) || (e <? etiny c) || (e >? emax c) || (negb (q =? 0) && (e + ndigits q - 1 >? emax c)).

Lemma quant_coeff_nonneg mode x e : 0 <= coeff x -> 0 <= quant_coeff mode x e.
Proof.
  intros Hc. unfold quant_coeff. destruct (Z.leb_spec e (exp x)).
  - pose proof (pow10_pos (exp x - e) ltac:(lia)). nia.
  - pose proof (pow10_pos (e - exp x) ltac:(lia)) as Hk.
    pose proof (rndZ_bounds mode (neg x) (coeff x) (10 ^ (e - exp x)) Hc Hk).
    assert (0 <= coeff x / 10 ^ (e - exp x)) by (apply Z.div_pos; lia). lia.
Qed.

Theorem quantize_correct c x e : ctx_ok c -> form_of x = Finite -> 0 <= coeff x ->
  exp x - e < MaxExponent -> e - exp x < MaxExponent -> ndigits (coeff x) < MaxExponent ->
  in_lim e -> in_lim (e + ndigits (quant_coeff (rounding c) x e) - 1) ->
  let q := quant_coeff (rounding c) x e in
  if quant_invalid c x e
  then ctx_quantize est c x e = Ok (finish c d_nan fInvalidOperation)
  else exists f, ctx_quantize est c x e = Ok (finish c (mkDec Finite (neg x) e q) f) /\
         Inexact f = quant_inexact x e /\ (Inexact f = true -> Rounded f = true) /\
         Underflow f = false /\ Overflow f = false /\ InvalidOperation f = false /\
         fits c (mkDec Finite (neg x) e q) = true.
Proof.
  intros [Hp Hr] Hf Hc L1 L2 L3 Le Ladj q. unfold quant_invalid. fold q.
  pose proof (quant_coeff_nonneg (rounding c) x e Hc) as Hq0. fold q in Hq0.
  unfold ctx_quantize. rewrite (not_nan_finite1 x Hf). rewrite Hf. cbn [form_eqb orb].
  destruct (Z.ltb_spec e (etiny c)) as [Het|Het]; [rewrite orb_true_r; cbn [orb]; reflexivity|].
  rewrite orb_false_r.
  destruct (quantize_inner_correct est HE c x e Hf Hc L1 L2 L3) as (d & f & Hqi & Hpost).
  rewrite Hqi. cbn [bind]. destruct Hpost as (Hd & P1 & P2 & P3 & P4 & P5 & P6 & P7 & P8 & P9 & P10 & P11). fold q in Hd. subst d.
  cbn [coeff]. rewrite (nd_ok est HE). cbn [bind].
  destruct (Z.gtb_spec (ndigits q) (prec c)) as [Hnd|Hnd]; cbn [orb]; [reflexivity|].
  destruct (Z.gtb_spec e (emax c)) as [Hem|Hem]; cbn [orb]; [reflexivity|].
  unfold etiny in Het.
  destruct (Z.eqb_spec q 0) as [Hq|Hq]; cbn [negb andb].
  - (* a zero result *)
    destruct (round_zero_correct est HE (rounding c) c (mkDec Finite (neg x) e q) true) as (d2 & f2 & Hrd & Hzp);
      try assumption; try reflexivity.
    unfold ctx_round. rewrite Hrd. cbn [bind].
    unfold zero_post in Hzp. cbn [form_of coeff neg exp] in Hzp.
    destruct Hzp as (Z1 & Z2 & Z3 & Z4 & G1 & G2 & G3 & G4 & G5 & G6 & G7 & G8 & G9 & G10 & Zfit).
    assert (Hd2 : d2 = mkDec Finite (neg x) e q).
    { destruct d2 as [fd nd2 ed cd]. cbn [form_of coeff neg exp] in *. subst fd cd nd2. f_equal; lia. }
    cbn [cor Overflow Underflow]. rewrite P4, P5, G3, G4. cbn [orb].
    exists (f ||| f2). rewrite Hd2. split; [reflexivity|].
    cbn [cor Inexact Rounded Underflow Overflow InvalidOperation]. rewrite G1, G3, G4, G10, P4, P5, P6, orb_false_r.
    rewrite <- Hd2. repeat split; try assumption; try reflexivity.
    intros Hi. rewrite (P2 Hi). reflexivity.
  - assert (Hqp : 0 < q) by lia. pose proof (ndigits_pos q) as Hndp.
    destruct (Z.gtb_spec (e + ndigits q - 1) (emax c)) as [Hov|Hnov].
    + (* the coefficient fits but the adjusted exponent does not: the final round overflows *)
      unfold ctx_round. rewrite (round_C est HE (rounding c) c (mkDec Finite (neg x) e q) true); try reflexivity; cbn [coeff exp]; try lia; try (right; lia).
      rewrite (se_overflow est HE c (mkDec Finite (neg x) e q) (ndigits q) c0 [e; 0] e);
        try reflexivity; cbn [coeff exp]; try lia; try (right; reflexivity); try assumption;
        try (rewrite sum_exps_2; [f_equal; lia|assumption|unfold in_lim, MinExponent, MaxExponent; lia]).
      destruct (Z.eqb_spec q 0); [lia|]. cbn [bind cor Overflow]. rewrite orb_true_r. cbn [orb]. reflexivity.
    + assert (Hround : exists f2, ctx_round est c (mkDec Finite (neg x) e q) = Ok (mkDec Finite (neg x) e q, f2) /\
                Inexact f2 = false /\ Underflow f2 = false /\ Overflow f2 = false /\ InvalidOperation f2 = false).
      { unfold ctx_round. destruct (Z.lt_ge_cases (e + ndigits q - 1) (emin c)) as [Ha|Ha].
        - rewrite (round_A est HE (rounding c) c (mkDec Finite (neg x) e q) true); try reflexivity; cbn [coeff exp]; try lia.
          rewrite (se_subnormal_exact est HE c (mkDec Finite (neg x) e q) (ndigits q) fSubnormal [e] e);
            try reflexivity; cbn [coeff exp]; try lia; try (right; reflexivity); try assumption;
            try (rewrite sum_exps_1 by assumption; f_equal).
          destruct (Z.eqb_spec q 0); [lia|]. cbn [bind]. unfold set_exp. cbn [form_of neg coeff].
          eexists; split; [reflexivity|]. repeat split; reflexivity.
        - rewrite (round_C est HE (rounding c) c (mkDec Finite (neg x) e q) true); try reflexivity; cbn [coeff exp]; try lia; try (right; lia).
          rewrite (se_normal est HE c (mkDec Finite (neg x) e q) (ndigits q) c0 [e; 0] e);
            try reflexivity; cbn [coeff exp]; try lia; try (right; reflexivity); try assumption;
            try (rewrite sum_exps_2; [f_equal; lia|assumption|unfold in_lim, MinExponent, MaxExponent; lia]).
          unfold set_exp. cbn [form_of neg coeff].
          eexists; split; [reflexivity|]. repeat split; reflexivity. }
      destruct Hround as (f2 & Hrd & G1 & G3 & G4 & G10). rewrite Hrd. cbn [bind].
      cbn [cor Overflow Underflow]. rewrite P4, P5, G3, G4. cbn [orb].
      exists (f ||| f2). split; [reflexivity|].
      cbn [cor Inexact Rounded Underflow Overflow InvalidOperation]. rewrite G1, G3, G4, G10, P4, P5, P6, orb_false_r.
      repeat split; try assumption; try reflexivity.
      * intros Hi. rewrite (P2 Hi). reflexivity.
      * unfold fits. cbn [coeff exp]. destruct (Z.leb_spec 0 q); [|lia]. cbn [andb].
        destruct (Z.leb_spec (ndigits q) (prec c)); [|lia]. rewrite orb_true_r. cbn [andb].
        destruct (Z.leb_spec (e + ndigits q - 1) (emax c)); [|lia]. cbn [andb].
        destruct (Z.leb_spec (emin c - prec c + 1) e); [apply orb_true_r|lia].
Qed.

(* RoundToIntegralExact = quantize to exponent 0 without the digit limit; RoundToIntegralValue the same
   without Inexact / Rounded *)
Theorem rti_correct c x : form_of x = Finite -> 0 <= coeff x ->
  exp x < MaxExponent -> - exp x < MaxExponent -> ndigits (coeff x) < MaxExponent ->
  exists f, ctx_rti_exact est c x = Ok (finish c (mkDec Finite (neg x) 0 (quant_coeff (rounding c) x 0)) f) /\
            ctx_rti_value est c x = Ok (finish c (mkDec Finite (neg x) 0 (quant_coeff (rounding c) x 0)) (clear_inexact_rounded f)) /\
            Inexact f = quant_inexact x 0 /\ (Inexact f = true -> Rounded f = true) /\
            Inexact (clear_inexact_rounded f) = false /\ Rounded (clear_inexact_rounded f) = false.
Proof.
  intros Hf Hc L1 L2 L3.
  destruct (quantize_inner_correct est HE c x 0 Hf Hc ltac:(lia) ltac:(lia) L3) as (d & f & Hqi & Hpost).
  destruct Hpost as (Hd & P1 & P2 & _). subst d.
  destruct (rti_value_clears_flags est c x Hf _ _ Hqi) as [Hv He].
  exists f. repeat split; try assumption; reflexivity.
Qed.

End Ops.
