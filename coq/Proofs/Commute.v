(* C20, the operand transformations that need no oracle, on the model: Sub(x, y) is Add(x, -y); Add and Mul commute
   (finite operands inside the exponent limits: for NaN operands the FIRST one is propagated, and an infinite operand is
   returned as it is, so these are excluded by the statement, not by the proof technique). *)
From Coq Require Import ZArith Lia Bool List.
From Apd Require Import Generated.Consts Model.Base Model.NumDigits Model.Decimal Model.Context
  Proofs.Digits Proofs.Core Proofs.SetExponent Proofs.OpsProofs.
Import ListNotations.
Open Scope Z_scope.

Definition flip_sign (y : dec) : dec := set_neg y (negb (neg y)).

Section WithEst.
Variable est : Z -> Z.

Theorem sub_is_add_of_negation c x y : is_nan y = false ->
  ctx_add est c x y true = ctx_add est c x (flip_sign y) false.
Proof.
  intros Hy. unfold ctx_add, flip_sign, should_set_as_nan, set_as_nan, upscale, is_nan in *. cbn [form_of neg exp coeff set_neg].
  apply orb_false_iff in Hy. destruct Hy as [Hy1 Hy2]. rewrite Hy1, Hy2.
  destruct y as [fy ny ey cy]. cbn [form_of neg exp coeff] in *.
  destruct (exp x =? ey); [destruct ny; reflexivity|]. destruct (exp x <? ey); destruct ny; reflexivity.
Qed.

Lemma add_pair_comm (xn yn fl : bool) (a b : Z) :
  (if Bool.eqb xn yn then (xn, a + b)
   else let df := a - b in if df <? 0 then (negb xn, - df) else if df =? 0 then (fl, df) else (xn, df)) =
  (if Bool.eqb yn xn then (yn, b + a)
   else let df := b - a in if df <? 0 then (negb yn, - df) else if df =? 0 then (fl, df) else (yn, df)).
Proof.
  destruct xn, yn; cbn [Bool.eqb negb]; cbv zeta; try (f_equal; lia);
    destruct (Z.ltb_spec (a - b) 0), (Z.ltb_spec (b - a) 0); try lia;
    destruct (Z.eqb_spec (a - b) 0), (Z.eqb_spec (b - a) 0); try lia; f_equal; lia.
Qed.

Theorem add_commutes c x y : form_of x = Finite -> form_of y = Finite -> Z.abs (exp x - exp y) <= MaxExponent ->
  ctx_add est c x y false = ctx_add est c y x false.
Proof.
  intros Hx Hy Hgap. unfold ctx_add.
  rewrite (not_nan_finite x y Hx), (not_nan_finite y x Hy). unfold is_nan. rewrite Hx, Hy. cbn [form_eqb orb andb].
  rewrite (upscale_spec x y Hgap), (upscale_spec y x ltac:(lia)). cbn [bind]. rewrite !xorb_false_r.
  rewrite (Z.min_comm (exp y) (exp x)).
  rewrite (add_pair_comm (neg x) (neg y) (rounder_eqb (rounding c) RFloor)). reflexivity.
Qed.

Theorem mul_commutes c x y : form_of x = Finite -> form_of y = Finite -> in_lim (exp x) -> in_lim (exp y) ->
  ctx_mul est c x y = ctx_mul est c y x.
Proof.
  intros Hx Hy Ex Ey. unfold ctx_mul.
  rewrite (not_nan_finite x y Hx), (not_nan_finite y x Hy). unfold is_nan. rewrite Hx, Hy. cbn [form_eqb orb andb].
  rewrite (xorb_comm (neg y) (neg x)), (Z.mul_comm (coeff y) (coeff x)).
  unfold set_exponent. rewrite (sum_exps_2 (exp x) (exp y) 0 Ex Ey), (sum_exps_2 (exp y) (exp x) 0 Ey Ex).
  replace (0 + exp y + exp x) with (0 + exp x + exp y) by lia. reflexivity.
Qed.
End WithEst.
