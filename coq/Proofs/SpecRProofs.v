(* The integer specification Spec-Z computes Flocq's roundings.
   (1) rndZ = rnd_of: the integer rounding of a non-negative fraction n/d with a sign, in every mode;
   (2) spec_round_nz = round radix10 (FLT_exp Etiny Precision) (rnd_of mode) of the exact value, whenever it
       does not overflow. *)
From Coq Require Import ZArith Reals Lia Lra Bool.
From Flocq Require Import Core.
From Apd Require Import Generated.Consts Model.Base Model.NumDigits Spec.SpecZ Spec.SpecR Proofs.Digits Proofs.Core Proofs.RoundBasics.
Local Open Scope R_scope.

Lemma znearest_int choice k : Znearest choice (IZR k) = k.
Proof. apply Znearest_imp. replace (IZR k - IZR k) with 0 by lra. rewrite Rabs_R0. lra. Qed.

Section IntRounding.
Variables (n d : Z).
Hypothesis Hn : (0 <= n)%Z.
Hypothesis Hd : (0 < d)%Z.
Let q := (n / d)%Z.
Let r := (n mod d)%Z.
Let x := IZR n / IZR d.

Lemma dpos : 0 < IZR d. Proof. now apply IZR_lt. Qed.

Lemma x_split : x = IZR q + IZR r / IZR d.
Proof.
  unfold x, q, r. pose proof dpos.
  rewrite (Z.div_mod n d) at 1 by lia. rewrite plus_IZR, mult_IZR. field. lra.
Qed.

Lemma r_bounds : (0 <= r < d)%Z.
Proof. unfold r. apply Z.mod_pos_bound. exact Hd. Qed.

Lemma q_nonneg : (0 <= q)%Z.
Proof. unfold q. apply Z.div_pos; lia. Qed.

Lemma frac_bounds : 0 <= IZR r / IZR d < 1.
Proof.
  pose proof dpos. pose proof r_bounds as [H1 H2]. apply IZR_le in H1. apply IZR_lt in H2. split.
  - apply Rmult_le_pos; [exact H1|]. left. now apply Rinv_0_lt_compat.
  - apply (Rmult_lt_reg_r (IZR d)); [assumption|]. unfold Rdiv. rewrite Rmult_assoc, Rinv_l by lra. lra.
Qed.

Lemma floor_x : Zfloor x = q.
Proof. unfold x, q. apply Zfloor_div. lia. Qed.

Lemma x_nonneg : 0 <= x.
Proof. rewrite x_split. pose proof frac_bounds as Hfb. pose proof q_nonneg as Hq. apply IZR_le in Hq. lra. Qed.

(* exact quotient *)
Lemma x_exact : r = 0%Z -> x = IZR q.
Proof. intros H. rewrite x_split, H. unfold Rdiv. rewrite Rmult_0_l. lra. Qed.

(* inexact quotient *)
Lemma x_strict : r <> 0%Z -> IZR q < x < IZR (q + 1).
Proof.
  intros H. rewrite x_split, plus_IZR. pose proof frac_bounds. pose proof dpos. pose proof r_bounds.
  assert (0 < IZR r) by (apply IZR_lt; lia).
  assert (0 < IZR r / IZR d) by (apply Rdiv_lt_0_compat; assumption). simpl (IZR 1). lra.
Qed.

Lemma ceil_x : r <> 0%Z -> Zceil x = (q + 1)%Z.
Proof. intros H. pose proof (x_strict H). apply Zceil_imp. replace (q + 1 - 1)%Z with q by lia. lra. Qed.

(* x - q against one half is 2r against d *)
Lemma half_compare : Rcompare (x - IZR q) (/ 2) = (2 * r ?= d)%Z.
Proof.
  rewrite x_split. replace (IZR q + IZR r / IZR d - IZR q) with (IZR r / IZR d) by lra.
  pose proof dpos.
  destruct (Z.compare_spec (2 * r) d) as [E|E|E].
  - apply Rcompare_Eq. apply (f_equal IZR) in E. rewrite mult_IZR in E. simpl (IZR 2) in E. field_simplify_eq; lra.
  - apply Rcompare_Lt. apply IZR_lt in E. rewrite mult_IZR in E. simpl (IZR 2) in E.
    apply (Rmult_lt_reg_r (IZR d)); [assumption|]. unfold Rdiv. rewrite Rmult_assoc, Rinv_l by lra. lra.
  - apply Rcompare_Gt. apply IZR_lt in E. rewrite mult_IZR in E. simpl (IZR 2) in E.
    apply (Rmult_lt_reg_r (IZR d)); [assumption|]. unfold Rdiv. rewrite Rmult_assoc, Rinv_l by lra. lra.
Qed.

(* ---------- a non-negative value ---------- *)
Theorem rndZ_is_rnd_of_pos m : rnd_of m x = rndZ m false n d.
Proof.
  unfold rndZ. fold q r. cbv zeta.
  destruct (Z.eqb_spec r 0) as [Hr|Hr].
  - (* exact: every mode returns the quotient *)
    rewrite (x_exact Hr). destruct m; cbn [rnd_of].
    + apply Ztrunc_IZR.
    + apply znearest_int.
    + apply znearest_int.
    + apply Zceil_IZR.
    + apply Zfloor_IZR.
    + apply znearest_int.
    + unfold Zaway. destruct (Rlt_bool (IZR q) 0); [apply Zfloor_IZR|apply Zceil_IZR].
    + rewrite Ztrunc_IZR. rewrite Req_bool_true by reflexivity. reflexivity.
    + apply znearest_int.
  - pose proof (x_strict Hr) as Hs. pose proof x_nonneg as Hx0. pose proof q_nonneg as Hq0.
    assert (Ht : Ztrunc x = q) by (rewrite Ztrunc_floor by exact Hx0; apply floor_x).
    assert (Ha : Zaway x = (q + 1)%Z).
    { unfold Zaway. rewrite Rlt_bool_false by exact Hx0. apply (ceil_x Hr). }
    assert (Hn' : forall choice, Znearest choice x =
              match (2 * r ?= d)%Z with Eq => if choice q then (q + 1)%Z else q | Lt => q | Gt => (q + 1)%Z end).
    { intros choice. unfold Znearest. rewrite floor_x, (ceil_x Hr), half_compare. reflexivity. }
    destruct m; unfold rnd_of.
    + exact Ht.
    + rewrite (Hn' (fun t => (0 <=? t)%Z)). unfold Z.geb. destruct (2 * r ?= d)%Z; try reflexivity.
      destruct (Z.leb_spec 0 q); [reflexivity|lia].
    + etransitivity; [apply Hn'|]. cbv beta. destruct (2 * r ?= d)%Z; try reflexivity.
      rewrite Z.negb_even, <- Z.negb_even. destruct (Z.even q); reflexivity.
    + apply (ceil_x Hr).
    + apply floor_x.
    + rewrite (Hn' (fun t => (t <? 0)%Z)). unfold Z.gtb. destruct (2 * r ?= d)%Z; try reflexivity.
      destruct (Z.ltb_spec q 0); [lia|reflexivity].
    + exact Ha.
    + rewrite Ht. rewrite Req_bool_false by lra. rewrite Z.abs_eq by exact Hq0. rewrite Ha. reflexivity.
    + rewrite (Hn' (fun t => (0 <=? t)%Z)). unfold Z.geb. destruct (2 * r ?= d)%Z; try reflexivity.
      destruct (Z.leb_spec 0 q); [reflexivity|lia].
Qed.

(* ---------- a negative value ---------- *)
Theorem rndZ_is_rnd_of_neg m : rnd_of m (- x) = (- rndZ m true n d)%Z.
Proof.
  unfold rndZ. fold q r. cbv zeta.
  destruct (Z.eqb_spec r 0) as [Hr|Hr].
  - rewrite (x_exact Hr). rewrite <- opp_IZR. destruct m; cbn [rnd_of].
    + apply Ztrunc_IZR.
    + apply znearest_int.
    + apply znearest_int.
    + apply Zceil_IZR.
    + apply Zfloor_IZR.
    + apply znearest_int.
    + unfold Zaway. destruct (Rlt_bool (IZR (- q)) 0); [apply Zfloor_IZR|apply Zceil_IZR].
    + rewrite Ztrunc_IZR. rewrite Req_bool_true by reflexivity. reflexivity.
    + apply znearest_int.
  - pose proof (x_strict Hr) as Hs. pose proof x_nonneg as Hx0. pose proof q_nonneg as Hq0.
    assert (Hxpos : 0 < x) by (apply IZR_le in Hq0; lra).
    assert (Hfl : Zfloor (- x) = (- (q + 1))%Z).
    { apply Zfloor_imp. rewrite !opp_IZR, plus_IZR. replace (- (q + 1) + 1)%Z with (- q)%Z by lia.
      rewrite opp_IZR. rewrite plus_IZR in Hs. simpl (IZR 1) in *. lra. }
    assert (Hce : Zceil (- x) = (- q)%Z).
    { unfold Zceil. rewrite Ropp_involutive, floor_x. reflexivity. }
    assert (Ht : Ztrunc (- x) = (- q)%Z).
    { rewrite Ztrunc_opp. rewrite Ztrunc_floor by exact Hx0. rewrite floor_x. reflexivity. }
    assert (Ha : Zaway (- x) = (- (q + 1))%Z).
    { unfold Zaway. rewrite Rlt_bool_true by lra. exact Hfl. }
    assert (Hn' : forall choice, Znearest choice (- x) =
              match (2 * r ?= d)%Z with Eq => if choice (- (q + 1))%Z then (- q)%Z else (- (q + 1))%Z
                                   | Lt => (- q)%Z | Gt => (- (q + 1))%Z end).
    { intros choice. unfold Znearest. rewrite Hfl, Hce.
      assert (Hc : Rcompare (- x - IZR (- (q + 1))) (/ 2) = CompOpp (2 * r ?= d)%Z).
      { rewrite <- half_compare. rewrite opp_IZR, plus_IZR. simpl (IZR 1).
        replace (- x - - (IZR q + 1)) with (1 - (x - IZR q)) by lra.
        destruct (Rcompare_spec (x - IZR q) (/ 2)) as [L|L|L]; cbn [CompOpp].
        - apply Rcompare_Gt. lra.
        - apply Rcompare_Eq. lra.
        - apply Rcompare_Lt. lra. }
      rewrite Hc. destruct (2 * r ?= d)%Z; reflexivity. }
    destruct m; unfold rnd_of.
    + exact Ht.
    + rewrite (Hn' (fun t => (0 <=? t)%Z)). unfold Z.geb. destruct (2 * r ?= d)%Z; try reflexivity.
      destruct (Z.leb_spec 0 (- (q + 1))); [lia|reflexivity].
    + etransitivity; [apply Hn'|]. cbv beta. destruct (2 * r ?= d)%Z; try reflexivity.
      replace (- (q + 1))%Z with (- q - 1)%Z by lia.
      rewrite Z.even_sub, Z.even_opp. change (Z.even 1) with false.
      destruct (Z.even q); cbn; lia.
    + exact Hce.
    + exact Hfl.
    + rewrite (Hn' (fun t => (t <? 0)%Z)). unfold Z.gtb. destruct (2 * r ?= d)%Z; try reflexivity.
      destruct (Z.ltb_spec (- (q + 1)) 0); [reflexivity|lia].
    + exact Ha.
    + rewrite Ht. rewrite Req_bool_false by (rewrite opp_IZR; lra). rewrite Z.abs_opp, Z.abs_eq by exact Hq0. rewrite Ha.
      destruct (q mod 5 =? 0)%Z; reflexivity.
    + rewrite (Hn' (fun t => (0 <=? t)%Z)). unfold Z.geb. destruct (2 * r ?= d)%Z; try reflexivity.
      destruct (Z.leb_spec 0 (- (q + 1))); [lia|reflexivity].
Qed.

End IntRounding.

(* both signs at once: the signed integer the specification returns is Flocq's rounding of the signed real *)
Theorem rndZ_is_flocq_rounding m (ng : bool) n d : (0 <= n)%Z -> (0 < d)%Z ->
  let s := (if ng then -1 else 1)%Z in
  rnd_of m (IZR s * (IZR n / IZR d)) = (s * rndZ m ng n d)%Z.
Proof.
  intros Hn Hd s. unfold s. destruct ng.
  - replace (IZR (-1) * (IZR n / IZR d)) with (- (IZR n / IZR d)) by (simpl; lra).
    rewrite (rndZ_is_rnd_of_neg n d Hn Hd m). lia.
  - replace (IZR 1 * (IZR n / IZR d)) with (IZR n / IZR d) by (simpl; lra).
    rewrite (rndZ_is_rnd_of_pos n d Hn Hd m). lia.
Qed.

(* ---------- the decimal magnitude of a fraction ---------- *)
Lemma pow10_bpow k : (0 <= k)%Z -> IZR (10 ^ k) = bpow radix10 k.
Proof. intros H. exact (IZR_Zpower radix10 k H). Qed.

Lemma ndigits_bpow c : (0 < c)%Z -> bpow radix10 (ndigits c - 1) <= IZR c < bpow radix10 (ndigits c).
Proof.
  intros Hc. pose proof (ndigits_lo c Hc) as L. pose proof (ndigits_hi c ltac:(lia)) as U. pose proof (ndigits_pos c).
  rewrite <- !pow10_bpow by lia. split; [apply IZR_le; exact L|apply IZR_lt; exact U].
Qed.

Lemma mag_frac_correct n d : (0 < n)%Z -> (0 < d)%Z ->
  bpow radix10 (mag_frac n d - 1) <= IZR n / IZR d < bpow radix10 (mag_frac n d).
Proof.
  intros Hn Hd. unfold mag_frac. set (k0 := (ndigits n - ndigits d)%Z).
  pose proof (ndigits_bpow n Hn) as [Ln Un]. pose proof (ndigits_bpow d Hd) as [Ld Ud].
  assert (Hdp : 0 < IZR d) by (apply IZR_lt; lia).
  assert (Hnp : 0 < IZR n) by (apply IZR_lt; lia).
  (* the test "n/d >= 10^k0" *)
  assert (Hge : (if (0 <=? k0)%Z then (d * 10 ^ k0 <=? n)%Z else (d <=? n * 10 ^ (- k0))%Z) = true <-> bpow radix10 k0 <= IZR n / IZR d).
  { destruct (Z.leb_spec 0 k0) as [Hk|Hk].
    - rewrite Z.leb_le. split.
      + intros H. apply IZR_le in H. rewrite mult_IZR, pow10_bpow in H by lia.
        apply (Rmult_le_reg_r (IZR d)); [assumption|]. unfold Rdiv. rewrite Rmult_assoc, Rinv_l by lra. lra.
      + intros H. apply le_IZR. rewrite mult_IZR, pow10_bpow by lia.
        apply (Rmult_le_compat_r (IZR d)) in H; [|lra]. unfold Rdiv in H. rewrite Rmult_assoc, Rinv_l in H by lra. lra.
    - rewrite Z.leb_le. pose proof (bpow_gt_0 radix10 (- k0)) as Hb.
      assert (Hinv : bpow radix10 k0 * bpow radix10 (- k0) = 1) by (rewrite <- bpow_plus; replace (k0 + - k0)%Z with 0%Z by lia; reflexivity).
      split.
      + intros H. apply IZR_le in H. rewrite mult_IZR, pow10_bpow in H by lia.
        apply (Rmult_le_reg_r (IZR d * bpow radix10 (- k0))); [apply Rmult_lt_0_compat; assumption|].
        replace (IZR n / IZR d * (IZR d * bpow radix10 (- k0))) with (IZR n * bpow radix10 (- k0)) by (field; lra).
        replace (bpow radix10 k0 * (IZR d * bpow radix10 (- k0))) with (IZR d * (bpow radix10 k0 * bpow radix10 (- k0))) by ring.
        rewrite Hinv. lra.
      + intros H. apply le_IZR. rewrite mult_IZR, pow10_bpow by lia.
        apply (Rmult_le_compat_r (IZR d * bpow radix10 (- k0))) in H; [|apply Rlt_le, Rmult_lt_0_compat; assumption].
        replace (IZR n / IZR d * (IZR d * bpow radix10 (- k0))) with (IZR n * bpow radix10 (- k0)) in H by (field; lra).
        replace (bpow radix10 k0 * (IZR d * bpow radix10 (- k0))) with (IZR d * (bpow radix10 k0 * bpow radix10 (- k0))) in H by ring.
        rewrite Hinv in H. lra. }
  (* crude bounds from the digit counts: 10^(k0-1) < n/d < 10^(k0+1) *)
  assert (Hup : IZR n / IZR d < bpow radix10 (k0 + 1)).
  { apply (Rmult_lt_reg_r (IZR d)); [assumption|]. unfold Rdiv. rewrite Rmult_assoc, Rinv_l by lra. rewrite Rmult_1_r.
    apply Rlt_le_trans with (1 := Un).
    replace (ndigits n) with ((k0 + 1) + (ndigits d - 1))%Z by (unfold k0; lia). rewrite bpow_plus.
    apply Rmult_le_compat_l; [apply Rlt_le, bpow_gt_0|exact Ld]. }
  assert (Hlo : bpow radix10 (k0 - 1) < IZR n / IZR d).
  { apply (Rmult_lt_reg_r (IZR d)); [assumption|]. unfold Rdiv. rewrite Rmult_assoc, Rinv_l by lra. rewrite Rmult_1_r.
    apply Rlt_le_trans with (2 := Ln).
    replace (ndigits n - 1)%Z with ((k0 - 1) + ndigits d)%Z by (unfold k0; lia). rewrite bpow_plus.
    apply Rmult_lt_compat_l; [apply bpow_gt_0|exact Ud]. }
  destruct (if (0 <=? k0)%Z then (d * 10 ^ k0 <=? n)%Z else (d <=? n * 10 ^ (- k0))%Z) eqn:G.
  - replace (k0 + 1 - 1)%Z with k0 by lia. split; [apply Hge; reflexivity|exact Hup].
  - split; [left; exact Hlo|]. apply Rnot_le_lt. intros H. apply Hge in H. discriminate.
Qed.

(* ---------- rounding to the format of a context ---------- *)
Lemma scale_frac_R n d s : (0 < n)%Z -> (0 < d)%Z ->
  let '(n1, d1) := scale_frac n d s in
  (0 <= n1)%Z /\ (0 < d1)%Z /\ IZR n1 / IZR d1 = IZR n / IZR d * bpow radix10 s.
Proof.
  intros Hn Hd. unfold scale_frac.
  assert (Hdp : 0 < IZR d) by (apply IZR_lt; lia).
  destruct (Z.leb_spec 0 s) as [Hs|Hs].
  - pose proof (pow10_pos s Hs). split; [nia|]. split; [assumption|].
    rewrite mult_IZR, pow10_bpow by lia. field. lra.
  - pose proof (pow10_pos (- s) ltac:(lia)) as Hk. split; [lia|]. split; [nia|].
    rewrite mult_IZR, pow10_bpow by lia.
    replace (bpow radix10 s) with (/ bpow radix10 (- s)) by (rewrite <- bpow_opp; f_equal; lia).
    pose proof (bpow_gt_0 radix10 (- s)) as HB. set (B := bpow radix10 (- s)) in *. field. split; lra.
Qed.

Theorem spec_round_is_flocq p emin_ emax_ mode (E : exact) : (1 <= p)%Z -> (0 < xnum E)%Z -> (0 < xden E)%Z ->
  let S := spec_round_nz p emin_ emax_ mode E in
  s_overflow S = false ->
  sres_R (s_res S) = Some (round_ctx p emin_ mode (E2R E)).
Proof.
  intros Hp Hn Hd S. destruct E as [ng n d e]. cbn [xnum xden xexp xneg] in *.
  set (sg := (if ng then -1 else 1)%Z).
  assert (Hdp : 0 < IZR d) by (apply IZR_lt; lia).
  assert (Hnp : 0 < IZR n) by (apply IZR_lt; lia).
  set (X := E2R (mkExact ng n d e)).
  assert (HX : X = IZR sg * (IZR n / IZR d * bpow radix10 e)).
  { unfold X, E2R, sg. cbn [xneg xnum xden xexp]. destruct ng; simpl; ring. }
  set (k := (mag_frac n d + e)%Z).
  (* magnitude *)
  assert (Habs : Rabs X = IZR n / IZR d * bpow radix10 e).
  { rewrite HX, Rabs_mult. assert (Rabs (IZR sg) = 1) by (unfold sg; destruct ng; unfold Rabs; destruct (Rcase_abs _); simpl in *; lra).
    rewrite H, Rmult_1_l. apply Rabs_pos_eq. apply Rmult_le_pos; [apply Rlt_le, Rdiv_lt_0_compat; assumption|apply Rlt_le, bpow_gt_0]. }
  assert (Hmag : mag radix10 X = k :> Z).
  { apply mag_unique. rewrite Habs. destruct (mag_frac_correct n d Hn Hd) as [L U]. unfold k.
    pose proof (bpow_gt_0 radix10 e).
    replace (mag_frac n d + e - 1)%Z with ((mag_frac n d - 1) + e)%Z by lia. rewrite !bpow_plus. split.
    - apply Rmult_le_compat_r; [lra|exact L].
    - apply Rmult_lt_compat_r; [assumption|exact U]. }
  set (er := Z.max (k - p) (emin_ - p + 1)).
  assert (Hcexp : cexp radix10 (ctx_fexp p emin_) X = er).
  { unfold cexp, ctx_fexp, FLT_exp. rewrite Hmag. reflexivity. }
  (* the scaled mantissa is sg * n1/d1 *)
  pose proof (scale_frac_R n d (e - er) Hn Hd) as Hsc.
  destruct (scale_frac n d (e - er)) as [n1 d1] eqn:Esc. destruct Hsc as (Hn1 & Hd1 & Hval).
  assert (Hsm : scaled_mantissa radix10 (ctx_fexp p emin_) X = IZR sg * (IZR n1 / IZR d1)).
  { unfold scaled_mantissa. rewrite Hcexp, HX, Hval.
    replace (e - er)%Z with (e + - er)%Z by lia. rewrite bpow_plus. ring. }
  set (m := rndZ mode ng n1 d1).
  assert (Hrnd : rnd_of mode (scaled_mantissa radix10 (ctx_fexp p emin_) X) = (sg * m)%Z).
  { rewrite Hsm. unfold sg, m. apply (rndZ_is_flocq_rounding mode ng n1 d1 Hn1 Hd1). }
  assert (Hround : round_ctx p emin_ mode X = IZR (sg * m) * bpow radix10 er).
  { unfold round_ctx, round, F2R. cbn [Fnum Fexp]. rewrite Hrnd, Hcexp. reflexivity. }
  (* m < = 10^p: the truncated scaled mantissa is below 10^p *)
  assert (Hq : (n1 / d1 < 10 ^ p)%Z).
  { apply Z.div_lt_upper_bound; [lia|]. apply lt_IZR. rewrite mult_IZR, pow10_bpow by lia.
    assert (Hlt : IZR n1 / IZR d1 < bpow radix10 p).
    { rewrite Hval. destruct (mag_frac_correct n d Hn Hd) as [_ U].
      apply Rlt_le_trans with (bpow radix10 (mag_frac n d) * bpow radix10 (e - er)).
      - apply Rmult_lt_compat_r; [apply bpow_gt_0|exact U].
      - rewrite <- bpow_plus. apply bpow_le. unfold er, k. lia. }
    assert (0 < IZR d1) by (apply IZR_lt; lia).
    apply (Rmult_lt_compat_r (IZR d1)) in Hlt; [|assumption]. unfold Rdiv in Hlt. rewrite Rmult_assoc, Rinv_l in Hlt by lra. lra. }
  pose proof (rndZ_bounds mode ng n1 d1 Hn1 Hd1) as Hmb. fold m in Hmb.
  assert (Hm0 : (0 <= m)%Z) by (assert (0 <= n1 / d1)%Z by (apply Z.div_pos; lia); lia).
  (* unfold the specification *)
  unfold S, spec_round_nz. cbn [xnum xden xexp xneg]. fold k. cbv zeta. fold er. rewrite Esc. fold m.
  destruct (Z.gtb_spec (ndigits m) p) as [Hcar|Hnc].
  - (* a carry: m = 10^p *)
    assert (Hm10 : m = (10 ^ p)%Z).
    { assert (10 ^ p <= m)%Z.
      { destruct (Z.lt_ge_cases m (10 ^ p)) as [L|G]; [|exact G]. exfalso.
        destruct (Z.eq_dec m 0) as [->|N]; [change (ndigits 0) with 1%Z in Hcar; lia|].
        assert (ndigits m <= p)%Z; [|lia].
        assert (Hm1 : ndigits m = ndigits m) by reflexivity.
        pose proof (ndigits_lo m ltac:(lia)). assert (10 ^ (ndigits m - 1) < 10 ^ p)%Z by lia.
        destruct (Z.le_gt_cases (ndigits m) p); [assumption|].
        assert (10 ^ p <= 10 ^ (ndigits m - 1))%Z by (apply pow10_le; lia). lia. }
      lia. }
    assert (Hdiv : (m / 10 = 10 ^ (p - 1))%Z).
    { rewrite Hm10. replace p with ((p - 1) + 1)%Z at 1 by lia. rewrite pow10_succ by lia. rewrite Z.mul_comm, Z.div_mul by lia. reflexivity. }
    destruct (negb (m / 10 =? 0) && (er + 1 + ndigits (m / 10) - 1 >? emax_))%Z eqn:Ov; cbn [s_overflow s_res]; [discriminate|].
    intros _. cbn [sres_R]. f_equal. rewrite Hround. unfold F2R. cbn [Fnum Fexp].
    replace (if ng then (- (m / 10))%Z else (m / 10)%Z) with (sg * (m / 10))%Z by (unfold sg; destruct ng; lia).
    rewrite Hdiv, Hm10. rewrite !mult_IZR, !pow10_bpow by lia. rewrite bpow_plus.
    replace p with ((p - 1) + 1)%Z at 2 by lia. rewrite bpow_plus. simpl (bpow radix10 1). ring.
  - destruct (negb (m =? 0) && (er + ndigits m - 1 >? emax_))%Z eqn:Ov; cbn [s_overflow s_res]; [discriminate|].
    intros _. cbn [sres_R]. f_equal. rewrite Hround. unfold F2R. cbn [Fnum Fexp].
    replace (if ng then (- m)%Z else m) with (sg * m)%Z by (unfold sg; destruct ng; lia). reflexivity.
Qed.

(* ... and it reports an overflow exactly when that rounded magnitude reaches 10^(Emax+1) *)
Theorem spec_overflow_is_flocq p emin_ emax_ mode (E : exact) : (1 <= p)%Z -> (0 < xnum E)%Z -> (0 < xden E)%Z ->
  let S := spec_round_nz p emin_ emax_ mode E in
  s_overflow S = true <-> bpow radix10 (emax_ + 1) <= Rabs (round_ctx p emin_ mode (E2R E)).
Proof.
  intros Hp Hn Hd S. destruct E as [ng n d e]. cbn [xnum xden xexp xneg] in *.
  set (sg := (if ng then -1 else 1)%Z).
  assert (Hdp : 0 < IZR d) by (apply IZR_lt; lia).
  assert (Hnp : 0 < IZR n) by (apply IZR_lt; lia).
  set (X := E2R (mkExact ng n d e)).
  assert (HX : X = IZR sg * (IZR n / IZR d * bpow radix10 e)).
  { unfold X, E2R, sg. cbn [xneg xnum xden xexp]. destruct ng; simpl; ring. }
  set (k := (mag_frac n d + e)%Z).
  assert (Habs1 : Rabs (IZR sg) = 1) by (unfold sg; destruct ng; unfold Rabs; destruct (Rcase_abs _); simpl in *; lra).
  assert (Habs : Rabs X = IZR n / IZR d * bpow radix10 e).
  { rewrite HX, Rabs_mult, Habs1, Rmult_1_l. apply Rabs_pos_eq.
    apply Rmult_le_pos; [apply Rlt_le, Rdiv_lt_0_compat; assumption|apply Rlt_le, bpow_gt_0]. }
  assert (Hmag : mag radix10 X = k :> Z).
  { apply mag_unique. rewrite Habs. destruct (mag_frac_correct n d Hn Hd) as [L U]. unfold k.
    pose proof (bpow_gt_0 radix10 e).
    replace (mag_frac n d + e - 1)%Z with ((mag_frac n d - 1) + e)%Z by lia. rewrite !bpow_plus. split.
    - apply Rmult_le_compat_r; [lra|exact L].
    - apply Rmult_lt_compat_r; [assumption|exact U]. }
  set (er := Z.max (k - p) (emin_ - p + 1)).
  assert (Hcexp : cexp radix10 (ctx_fexp p emin_) X = er) by (unfold cexp, ctx_fexp, FLT_exp; rewrite Hmag; reflexivity).
  pose proof (scale_frac_R n d (e - er) Hn Hd) as Hsc.
  destruct (scale_frac n d (e - er)) as [n1 d1] eqn:Esc. destruct Hsc as (Hn1 & Hd1 & Hval).
  assert (Hsm : scaled_mantissa radix10 (ctx_fexp p emin_) X = IZR sg * (IZR n1 / IZR d1)).
  { unfold scaled_mantissa. rewrite Hcexp, HX, Hval. replace (e - er)%Z with (e + - er)%Z by lia. rewrite bpow_plus. ring. }
  set (m := rndZ mode ng n1 d1).
  assert (Hrnd : rnd_of mode (scaled_mantissa radix10 (ctx_fexp p emin_) X) = (sg * m)%Z)
    by (rewrite Hsm; unfold sg, m; apply (rndZ_is_flocq_rounding mode ng n1 d1 Hn1 Hd1)).
  pose proof (rndZ_bounds mode ng n1 d1 Hn1 Hd1) as Hmb. fold m in Hmb.
  assert (Hm0 : (0 <= m)%Z) by (assert (0 <= n1 / d1)%Z by (apply Z.div_pos; lia); lia).
  assert (Hround : Rabs (round_ctx p emin_ mode X) = IZR m * bpow radix10 er).
  { unfold round_ctx, round, F2R. cbn [Fnum Fexp]. rewrite Hrnd, Hcexp, mult_IZR, Rabs_mult, Rabs_mult, Habs1, Rmult_1_l.
    rewrite (Rabs_pos_eq (IZR m)) by (apply IZR_le; exact Hm0). rewrite (Rabs_pos_eq (bpow radix10 er)) by (apply Rlt_le, bpow_gt_0). reflexivity. }
  rewrite Hround.
  (* the overflow test does not depend on the carry normalisation *)
  assert (Hq : (n1 / d1 < 10 ^ p)%Z).
  { apply Z.div_lt_upper_bound; [lia|]. apply lt_IZR. rewrite mult_IZR, pow10_bpow by lia.
    assert (Hlt : IZR n1 / IZR d1 < bpow radix10 p).
    { rewrite Hval. destruct (mag_frac_correct n d Hn Hd) as [_ U].
      apply Rlt_le_trans with (bpow radix10 (mag_frac n d) * bpow radix10 (e - er)).
      - apply Rmult_lt_compat_r; [apply bpow_gt_0|exact U].
      - rewrite <- bpow_plus. apply bpow_le. unfold er, k. lia. }
    assert (0 < IZR d1) by (apply IZR_lt; lia).
    apply (Rmult_lt_compat_r (IZR d1)) in Hlt; [|assumption]. unfold Rdiv in Hlt. rewrite Rmult_assoc, Rinv_l in Hlt by lra. lra. }
  assert (Hov : s_overflow S = (negb (m =? 0) && (er + ndigits m - 1 >? emax_))%Z%bool).
  { unfold S, spec_round_nz. cbn [xnum xden xexp xneg]. fold k. cbv zeta. fold er. rewrite Esc. fold m.
    destruct (Z.gtb_spec (ndigits m) p) as [Hcar|Hnc].
    - assert (Hm10 : m = (10 ^ p)%Z).
      { assert (10 ^ p <= m)%Z; [|lia].
        destruct (Z.lt_ge_cases m (10 ^ p)) as [L|G]; [|exact G]. exfalso.
        destruct (Z.eq_dec m 0) as [->|N]; [change (ndigits 0) with 1%Z in Hcar; lia|].
        pose proof (ndigits_lo m ltac:(lia)).
        assert (10 ^ p <= 10 ^ (ndigits m - 1))%Z by (apply pow10_le; lia). lia. }
      assert (Hdiv : (m / 10 = 10 ^ (p - 1))%Z).
      { rewrite Hm10. replace p with ((p - 1) + 1)%Z at 1 by lia. rewrite pow10_succ by lia. rewrite Z.mul_comm, Z.div_mul by lia. reflexivity. }
      rewrite Hdiv. rewrite Hm10. rewrite !ndigits_pow10 by lia.
      pose proof (pow10_pos (p - 1) ltac:(lia)). pose proof (pow10_pos p ltac:(lia)).
      destruct (Z.eqb_spec (10 ^ (p - 1)) 0); [lia|]. destruct (Z.eqb_spec (10 ^ p) 0); [lia|]. cbn [negb andb].
      replace (er + 1 + (p - 1 + 1) - 1)%Z with (er + (p + 1) - 1)%Z by lia.
      destruct (er + (p + 1) - 1 >? emax_)%Z; reflexivity.
    - destruct (negb (m =? 0) && (er + ndigits m - 1 >? emax_))%Z; reflexivity. }
  rewrite Hov. split.
  - intros H. apply andb_prop in H. destruct H as [H1 H2]. apply negb_true_iff, Z.eqb_neq in H1. apply Z.gtb_lt in H2.
    pose proof (ndigits_bpow m ltac:(lia)) as [L _].
    apply Rle_trans with (bpow radix10 (ndigits m - 1) * bpow radix10 er).
    + rewrite <- bpow_plus. apply bpow_le. lia.
    + apply Rmult_le_compat_r; [apply Rlt_le, bpow_gt_0|exact L].
  - intros H. destruct (Z.eqb_spec m 0) as [Hz|Hz].
    + exfalso. rewrite Hz in H. simpl (IZR 0) in H. rewrite Rmult_0_l in H. pose proof (bpow_gt_0 radix10 (emax_ + 1)). lra.
    + cbn [negb andb]. apply Z.gtb_lt. destruct (Z.lt_ge_cases emax_ (er + ndigits m - 1)) as [G|G]; [exact G|exfalso].
      pose proof (ndigits_bpow m ltac:(lia)) as [_ U].
      assert (IZR m * bpow radix10 er < bpow radix10 (emax_ + 1)); [|lra].
      apply Rlt_le_trans with (bpow radix10 (ndigits m) * bpow radix10 er).
      * apply Rmult_lt_compat_r; [apply bpow_gt_0|exact U].
      * rewrite <- bpow_plus. apply bpow_le. lia.
Qed.
