(* Extraction of the executable model, specification and judges.  ExtrOcamlBasic only: Z, positive,
   N stay Coq's inductive types. *)
From Coq Require Import ExtrOcamlBasic.
From Apd Require Import Generated.Consts Model.Base Model.NumDigits Model.Decimal Model.Context Model.Roots Spec.SpecZ Oracle.Judge Oracle.JudgeModes Oracle.JudgeTraps Model.ErrDec Model.BigInt Oracle.JudgeBig Model.Conv Oracle.JudgeConv Model.Text Model.Compose Spec.Grammar Oracle.JudgeText Oracle.JudgeRoots Model.Exp Oracle.JudgeExp Model.Ln Model.LnHalley Oracle.JudgeLn Model.Pow Oracle.JudgePow.
Extraction Language OCaml.
Set Extraction KeepSingleton.
Extraction "apd_model.ml"
  cond_of_Z cond_to_Z
  corr_full oracle_c01 oracle_c02_arith oracle_c02_ext oracle_c07 judge_numdigits judge_numdigits_pow10 judge_dec_reduce oracle_ctx_reduce
  oracle_c08 oracle_c08_fn corr_prologue oracle_c09 oracle_c10 oracle_c15_ctx judge_cmp
  judge_modes judge_mono oracle_c03 judge_ed judge_bigstep judge_int64 judge_set_finite judge_new_big judge_modf judge_format judge_format_extreme judge_parse judge_format_verb judge_compose judge_compose_full judge_ctx_set_string oracle_sqrt oracle_cbrt corr_root corr_exp corr_ln ln_modelled corr_ln_full ln_path corr_pow pow_modelled
  run_model same_value.
