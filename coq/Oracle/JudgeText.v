(* C13 / C14: formatter and parser of the implementation against the model, the independent grammar and
   to-scientific-string, and the round trips. *)
From Coq Require Import List.
From Apd Require Import Generated.Consts Model.Base Model.NumDigits Model.Decimal Model.Context Model.Text Model.Compose Spec.SpecZ Spec.Grammar Oracle.Judge.
Import ListNotations.
Open Scope Z_scope.

Definition K_TEXT := 3.            (* output bytes / parsed fields differ from the model *)
Definition O_SCI := 80.            (* String() is not to-scientific-string (+ documented exception) *)
Definition O_ROUNDTRIP := 81.      (* parse(format(d)) differs from d *)
Definition O_GRAMMAR := 82.        (* acceptance or parsed value differs from the grammar + limits *)
Definition O_FMTFLAGS := 83.       (* Format does not apply flags/width the way fmt does for numbers *)
Definition O_COMPOSE := 84.        (* Compose(Decompose(d)) differs from d *)
Definition O_ENTRY := 85.          (* UnmarshalText / Scan / NewFromString disagree with SetString *)

(* value equality for round trips: the coefficient/exponent fields of NaN and Infinity are not part of the value *)
Definition rt_same (a b : dec) : bool :=
  form_eqb (form_of a) (form_of b) && Bool.eqb (neg a) (neg b)
  && (negb (form_eqb (form_of a) Finite) || ((coeff a =? coeff b) && (exp a =? exp b))).
Definition rt_same_value (a b : dec) : bool :=     (* Text('f'): numeric value and sign *)
  form_eqb (form_of a) (form_of b) && Bool.eqb (neg a) (neg b)
  && (negb (form_eqb (form_of a) Finite) || value_eqb (coeff a) (exp a) (coeff b) (exp b)).

(* outs: G g E e f String MarshalText Value %v %s %G %E %e ; back: the same re-parsed (None = parse error) *)
Definition judge_format (d : dec) (outs : list str) (back : list (option dec)) : list Z :=
  let fmts := [ch_G; ch_g; ch_E; ch_e; ch_f; ch_G; ch_G; ch_G; ch_G; ch_G; ch_G; ch_E; ch_e] in
  flag (forallb (fun p => str_eqb (format_text (fst p) d) (snd p)) (combine fmts outs) && (length outs =? 13)%nat) K_TEXT
  ++ (if wf_dec d || negb (is_finite d) then
        flag (match outs with g :: _ => str_eqb g (sci_string d) | [] => false end) O_SCI
        ++ flag (forallb (fun p => match snd p with
                                   | Some b => if fst p =? ch_f
                                               then (3000 <? Z.abs (exp d)) || rt_same_value d b   (* beyond: byte equality with the model only (cost) *)
                                               else rt_same d b
                                   | None => false
                                   end) (combine fmts back) && (length back =? 13)%nat) O_ROUNDTRIP
      else []).

(* exponents beyond the package limits (any Decimal can be formatted): G, E, String, %e *)
Definition judge_format_extreme (d : dec) (g e s pe : str) : list Z :=
  flag (str_eqb (format_text ch_G d) g && str_eqb (format_text ch_E d) e && str_eqb (format_text ch_G d) s
        && str_eqb (format_text ch_e d) pe) K_TEXT
  ++ flag (str_eqb g (sci_string d) && str_eqb s (sci_string d)) O_SCI.

(* SetString(s): res = Some (d, cond) or None; agree = the other entry points agree *)
Definition judge_parse (s : str) (res : option (dec * Z)) (agree : bool) : list Z :=
  match new_from_string go_est s with
  | Ok m =>
      flag (match m, res with
            | Some (d, f, _), Some (d', f') => dec_eqb d d' && (cond_to_Z f =? f')
            | None, None => true
            | _, _ => false
            end) K_TEXT
  | _ => [K_MODEL_PANIC]
  end
  ++ flag (match gdec s, res with
           | Some d, Some (d', _) => dec_eqb d d' && (0 <=? coeff d')
           | None, None => true
           | _, _ => false
           end) O_GRAMMAR
  ++ flag agree O_ENTRY.

Definition judge_format_verb (d : dec) (fl : fflags) (verb : Z) (out : str) : list Z :=
  let fmtc := if verb =? 70 then ch_f else if (verb =? 118) || (verb =? 115) then ch_G else verb in
  flag (str_eqb (format_verb fl fmtc d) out) K_TEXT
  ++ flag (str_eqb (fmt_pad (fl_plus fl) (fl_space fl) (fl_minus fl) (fl_zero fl) (fl_width fl) (is_finite d) (format_text fmtc d)) out) O_FMTFLAGS.

Definition judge_compose (d : dec) (res : option dec) : list Z :=
  match res with
  | None => [O_COMPOSE]
  | Some r =>
      let f := match form_of d with NaNSignaling => NaN | x => x end in
      flag (form_eqb (form_of r) f && Bool.eqb (neg r) (neg d)
            && (negb (is_finite d) || ((coeff r =? coeff d) && (exp r =? exp d)))) O_COMPOSE
  end.

(* Decompose of d and Compose of its output into a destination that held prev: the tuple and the composed
   Decimal against the model (every field, the destination's leftovers included), and the round trip itself *)
Definition judge_compose_full (d prev : dec) (form : Z) (ng : bool) (co : str) (e : Z) (res : option dec) : list Z :=
  let '(mf, mng, mco, me) := decompose d in
  flag ((mf =? form) && Bool.eqb mng ng && str_eqb mco co && (me =? e) && odec_eqb (compose prev form ng co e) res) K_TEXT
  ++ judge_compose d res.

(* Context.SetString: model, and the C01/C02/C07 oracles on the value the grammar assigns to the string *)
Definition judge_ctx_set_string (c : ctx) (s : str) (res : option (dec * Z * err)) : list Z :=
  match ctx_set_string go_est c s with
  | Ok m =>
      flag (match m, res with
            | Some (d, f, e), Some (d', f', e') => dec_eqb d d' && (cond_to_Z f =? f') && err_eqb e e'
            | None, None => true
            | _, _ => false
            end) K_TEXT
  | _ => [K_MODEL_PANIC]
  end
  ++ match gparse s, res with
     | Some (GNum ng co e), Some (d', f', e') =>
         if within_limits co e then
           let k := mkCase ORound c (mkDec Finite ng e co) d_nan 0 ANone d_nan in
           let o := mkObs d' (cond_of_Z f') f' e' 0 None None true in
           oracle_c01 k o ++ oracle_c02_arith k o ++ oracle_c07 k o
         else []
     | None, Some _ => [O_GRAMMAR]
     | _, _ => []
     end.
