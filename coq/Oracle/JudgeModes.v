(* C20: relations between the results of one call under the eight rounding modes and under transformed
   operands, decided on the implementation's own results (no model involved). *)
From Apd Require Import Generated.Consts Model.Base Model.NumDigits Model.Decimal Model.Context Spec.SpecZ Spec.Order Oracle.Judge.
Open Scope Z_scope.

Record mres := mkMres { m_dec : dec; m_cond : cond; m_err : err }.

Definition O_BRACKET := 50.   (* floor <= mode <= ceiling *)
Definition O_MAG := 51.       (* |down| <= |mode| <= |up| *)
Definition O_PAIR := 52.      (* every mode returns the down or the up result *)
Definition O_COINCIDE := 53.  (* Inexact is mode-independent; exact => all equal; inexact w/o overflow => down <> up *)
Definition O_ADJ := 54.       (* floor, ceiling equal or adjacent *)
Definition O_COMM := 55.
Definition O_SUBADD := 56.
Definition O_MIRROR := 57.
Definition O_SCALE := 58.
Definition O_MONO := 59.

Definition usable (r : mres) : bool := err_is_none (m_err r) && negb (is_nan (m_dec r)).
(* exact_cmp (Oracle/Judge.v) is cmp_spec with a digit-count shortcut for huge exponent gaps *)
Definition le_dec (a b : dec) : bool := exact_cmp a b <=? 0.
Definition abs_dec (a : dec) : dec := mkDec (form_of a) false (exp a) (coeff a).
Definition neg_dec (a : dec) : dec := mkDec (form_of a) (negb (neg a)) (exp a) (coeff a).
Definition same_res (a b : mres) : bool :=
  err_eqb (m_err a) (m_err b) && (negb (err_is_none (m_err a)) || (same_value (m_dec a) (m_dec b) && cond_eqb (m_cond a) (m_cond b))).

Definition nth_res (l : list mres) (i : nat) : mres := nth i l (mkMres d_nan c0 EOther).

(* signed coefficient at exponent m (m <= exp d) *)
Definition scoeff (d : dec) (m : Z) : Z := (if neg d then -1 else 1) * (coeff d * 10 ^ (exp d - m)).

Definition matches_any (d : dec) (s : sres) : bool :=
  match s with
  | SInf ng => form_eqb (form_of d) Infinite && Bool.eqb (neg d) ng
  | SFin ng m e => is_finite d && ((coeff d =? 0) && (m =? 0) || Bool.eqb (neg d) ng && value_eqb (coeff d) (exp d) m e)
  end.

(* lo < hi, both non-NaN: no representable value of the context lies strictly between them *)
Definition adjacent (o : op) (c : ctx) (lo hi : dec) : bool :=
  let p := prec c in
  let largest (d : dec) := is_finite d && (coeff d =? 10 ^ p - 1) && (exp d =? emax c - p + 1) in
  match form_of lo, form_of hi with
  | Finite, Infinite => negb (neg hi) && negb (neg lo) && largest lo
  | Infinite, Finite => neg lo && neg hi && largest hi
  | Finite, Finite =>
      match o with
      | OQuantize | ORtie => (exp lo =? exp hi) && (scoeff hi (exp hi) - scoeff lo (exp lo) =? 1)
      | _ =>
        let m := Z.min (exp lo) (exp hi) in
        let s := scoeff lo m + scoeff hi m in
        if s =? 0 then false else
        let E := mkExact (s <? 0) (Z.abs s) 2 m in
        let fl := spec_flags p (emin c) (emax c) RFloor E in
        let ce := spec_flags p (emin c) (emax c) RCeiling E in
        matches_any lo (s_res fl) && matches_any hi (s_res ce)
      end
  | _, _ => false
  end.

(* results: [down; half_up; half_even; ceiling; floor; half_down; up; 05up] *)
Definition judge_modes (o : op) (c : ctx) (mi : nat) (k : Z) (rs : list mres) (comm sa mir sc : option mres) : list Z :=
  let down := nth_res rs 0 in
  let ceil := nth_res rs 3 in
  let floor := nth_res rs 4 in
  let up := nth_res rs 6 in
  let main := nth_res rs mi in
  let each (f : mres -> bool) := forallb (fun r => negb (usable r) || f r) rs in
  (if usable floor && usable ceil
   then flag (each (fun r => le_dec (m_dec floor) (m_dec r) && le_dec (m_dec r) (m_dec ceil))) O_BRACKET
        ++ flag (same_value (m_dec floor) (m_dec ceil) || (exact_cmp (m_dec floor) (m_dec ceil) =? 0)
                 || adjacent o c (m_dec floor) (m_dec ceil)) O_ADJ
   else [])
  ++ (if usable down && usable up
      then flag (each (fun r => le_dec (abs_dec (m_dec down)) (abs_dec (m_dec r)) && le_dec (abs_dec (m_dec r)) (abs_dec (m_dec up)))) O_MAG
           ++ flag (each (fun r => same_value (m_dec r) (m_dec down) || same_value (m_dec r) (m_dec up)
                                   || (exact_cmp (m_dec r) (m_dec down) =? 0) || (exact_cmp (m_dec r) (m_dec up) =? 0))) O_PAIR
           ++ flag (each (fun r => Bool.eqb (Inexact (m_cond r)) (Inexact (m_cond down)))) O_COINCIDE
           ++ (if Inexact (m_cond down)
               then (if Overflow (m_cond down) || Overflow (m_cond up) then []
                     else flag (negb (exact_cmp (m_dec down) (m_dec up) =? 0)) O_COINCIDE)
               else flag (each (fun r => exact_cmp (m_dec r) (m_dec down) =? 0)) O_COINCIDE)
      else [])
  ++ match comm with Some r => flag (same_res r main) O_COMM | None => [] end
  ++ match sa with Some r => flag (same_res r main) O_SUBADD | None => [] end
  ++ match mir with
     | Some r => flag (err_eqb (m_err r) (m_err main)
                       && (negb (err_is_none (m_err r))
                           || (cond_eqb (m_cond r) (m_cond main)
                               && (if is_nan (m_dec main) then is_nan (m_dec r)
                                   else form_eqb (form_of (m_dec r)) (form_of (m_dec main))
                                        && (negb (is_finite (m_dec main)) || value_eqb (coeff (m_dec r)) (exp (m_dec r)) (coeff (m_dec main)) (exp (m_dec main)))
                                        && ((is_finite (m_dec main) && (coeff (m_dec main) =? 0)) || Bool.eqb (neg (m_dec r)) (negb (neg (m_dec main)))))))) O_MIRROR
     | None => []
     end
  ++ match sc with
     | Some r =>
         let quiet (f : cond) := negb (Subnormal f || Underflow f || Overflow f || Clamped f) in
         if err_is_none (m_err r) && err_is_none (m_err main) && is_finite (m_dec r) && is_finite (m_dec main)
            && quiet (m_cond r) && quiet (m_cond main)
         then flag (Bool.eqb (neg (m_dec r)) (neg (m_dec main))
                    && value_eqb (coeff (m_dec r)) (exp (m_dec r)) (coeff (m_dec main)) (exp (m_dec main) + k)
                    && cond_eqb (m_cond r) (m_cond main)) O_SCALE
         else []
     | None => []
     end.

(* Round is monotone *)
Definition judge_mono (x y : dec) (rx ry : mres) : list Z :=
  if negb (usable rx && usable ry) then [] else
  let v := exact_cmp x y in
  if v <=? 0 then flag (le_dec (m_dec rx) (m_dec ry)) O_MONO else flag (le_dec (m_dec ry) (m_dec rx)) O_MONO.
