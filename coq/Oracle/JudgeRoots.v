(* C11: Sqrt correctly rounded (half-even) and Cbrt within one unit / exact on perfect cubes, decided by
   exact integer arithmetic on the implementation's results.  No floating point, no tolerance. *)
From Apd Require Import Generated.Consts Model.Base Model.NumDigits Model.Decimal Spec.SpecZ Oracle.Judge.
Open Scope Z_scope.

Definition O_SQRT := 100.       (* not the root rounded half-even to Precision digits *)
Definition O_SQRT_INEXACT := 101.
Definition O_CBRT := 102.       (* more than one unit in the last place off *)
Definition O_CBRT_EXACT := 103. (* perfect cube whose root fits: not exact, or Inexact raised *)

(* x = X * 10^ex > 0.  Scale so that the integer square root has at least p+2 digits and the remaining
   exponent is even: Y = X * 10^t, sqrt(x) = sqrt(Y) * 10^((ex - t)/2) *)
(* the integer core: Y > 0, s = floor(sqrt Y) has k > 0 more digits than wanted; returns the coefficient
   q' of sqrt(Y) rounded half-even to a multiple of 10^k (in units of 10^k) and whether it is exact *)
Definition round_sqrt_int (k Y : Z) : Z * bool :=
  let s := Z.sqrt Y in
  let rem := Y - s * s in
  let q := s / 10 ^ k in
  let m := s mod 10 ^ k in
  let exact := (m =? 0) && (rem =? 0) in
  let up := match 2 * m ?= 10 ^ k with
            | Gt => true
            | Lt => false
            | Eq => if rem >? 0 then true else Z.odd q        (* an exact tie: half-even *)
            end in
  ((if up then q + 1 else q), exact).

Definition sqrt_expect (p : Z) (X ex : Z) : Z * Z * bool :=     (* (coefficient, exponent, exact) of the rounded root *)
  let need := 2 * (p + 2) - ndigits X in
  let t0 := if need >? 0 then need else 0 in
  let t := if Z.even (ex - t0) then t0 else t0 + 1 in
  let Y := X * 10 ^ t in
  let k := ndigits (Z.sqrt Y) - p in
  let e := (ex - t) / 2 in
  if k <=? 0 then (Z.sqrt Y, e, Y - Z.sqrt Y * Z.sqrt Y =? 0)       (* cannot happen: the root has at least p+2 digits *)
  else let '(q, exact) := round_sqrt_int k Y in (q, e + k, exact).

Definition oracle_sqrt (c : ctx) (x : dec) (o : obs) : list Z :=
  if negb (is_finite x && (0 <? coeff x) && negb (neg x) && wf_dec x && wf_ctx c && (1 <=? prec c)) then [] else
  if system_err (o_err o) then [] else
  let '(q, e, exact) := sqrt_expect (prec c) (coeff x) (exp x) in
  let adj := e + ndigits q - 1 in
  if (adj <? emin c) || (adj >? emax c) then [] else       (* outside the normal range: left to C01/C07 *)
  let d := o_dec o in
  flag (is_finite d && negb (neg d) && value_eqb (coeff d) (exp d) q e) O_SQRT
  ++ flag (Bool.eqb (Inexact (o_cond o)) (negb exact)) O_SQRT_INEXACT.

(* integer cube root by Newton on Z with fuel *)
Fixpoint icbrt_iter (fuel : nat) (n r : Z) : Z :=
  match fuel with
  | O => r
  | S f => let r' := (2 * r + n / (r * r)) / 3 in if r' <? r then icbrt_iter f n r' else r
  end.
Definition icbrt (n : Z) : Z :=
  if n <=? 0 then 0 else
  let r0 := 2 ^ (Z.log2 n / 3 + 1) in
  icbrt_iter (Z.to_nat (Z.log2 n) + 8) n r0.

(* |d - cbrt(x)| <= one unit in the last place of a Precision-digit result, and exactness on perfect cubes *)
Definition oracle_cbrt (c : ctx) (x : dec) (o : obs) : list Z :=
  if negb (is_finite x && (0 <? coeff x) && wf_dec x && wf_ctx c && (1 <=? prec c)) then [] else
  if system_err (o_err o) then [] else
  let d := o_dec o in
  if negb (is_finite d) || (coeff d =? 0) then [O_CBRT] else
  let p := prec c in
  (* the result at exactly p digits: c1 * 10^e1 *)
  let pad := p - ndigits (coeff d) in
  let c1 := coeff d * 10 ^ pad in
  let e1 := exp d - pad in
  let adj := e1 + p - 1 in
  if (adj <? emin c) || (adj >? emax c) || (pad <? 0) then [] else
  (* compare cubes at a common exponent m <= 3*e1, exp x *)
  let m := Z.min (3 * e1) (exp x) in
  let X := coeff x * 10 ^ (exp x - m) in
  let sc := 10 ^ (3 * e1 - m) in
  flag (Bool.eqb (neg d) (neg x) && ((c1 - 1) * (c1 - 1) * (c1 - 1) * sc <=? X) && (X <=? (c1 + 1) * (c1 + 1) * (c1 + 1) * sc)) O_CBRT
  ++ (* perfect cube: x = k^3 * 10^(3j) with k of at most p digits (after stripping zeros) *)
     (let ex3 := exp x mod 3 in
      let Xn := coeff x * 10 ^ ex3 in                       (* exponent exp x - ex3 is a multiple of 3 *)
      let k := icbrt Xn in
      if (k * k * k =? Xn) then
        let kz := tz k in
        let ks := k / 10 ^ kz in
        if ndigits ks <=? p then
          flag (value_eqb (coeff d) (exp d) k ((exp x - ex3) / 3) && negb (Inexact (o_cond o))) O_CBRT_EXACT
        else []
      else []).
