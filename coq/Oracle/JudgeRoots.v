(* C11: Sqrt correctly rounded (half-even) and Cbrt within one unit / exact on perfect cubes, decided by
   exact integer arithmetic on the implementation's results.  No floating point, no tolerance. *)
From Apd Require Import Generated.Consts Model.Base Model.NumDigits Model.Decimal Model.Context Model.Roots Spec.SpecZ Oracle.Judge.
Open Scope Z_scope.

Definition O_SQRT := 100.       (* not the root rounded half-even to Precision digits *)
Definition O_SQRT_INEXACT := 101.
Definition O_CBRT := 102.       (* more than one unit in the last place off *)
Definition O_CBRT_EXACT := 103. (* perfect cube whose root fits: not exact, or Inexact raised *)

(* x = X * 10^ex > 0.  Scale so that the integer square root has at least p+2 digits and the remaining
   exponent is even: Y = X * 10^t, sqrt(x) = sqrt(Y) * 10^((ex - t)/2) *)
(* the integer core: Y > 0, s = floor(sqrt Y) has k > 0 more digits than wanted; returns the coefficient
   q' of sqrt(Y) rounded half-even to a multiple of 10^k (in units of 10^k) and whether it is exact *)
Definition round_sqrt_int (k Y : Z) : Z * bool :=
  let s := Z.sqrt Y in
  let rem := Y - s * s in
  let q := s / 10 ^ k in
  let m := s mod 10 ^ k in
  let exact := (m =? 0) && (rem =? 0) in
  let up := match 2 * m ?= 10 ^ k with
            | Gt => true
            | Lt => false
            | Eq => if rem >? 0 then true else Z.odd q        (* an exact tie: half-even *)
            end in
  ((if up then q + 1 else q), exact).

Definition sqrt_expect (p : Z) (X ex : Z) : Z * Z * bool :=     (* (coefficient, exponent, exact) of the rounded root *)
  let need := 2 * (p + 2) - ndigits X in
  let t0 := if need >? 0 then need else 0 in
  let t := if Z.even (ex - t0) then t0 else t0 + 1 in
  let Y := X * 10 ^ t in
  let k := ndigits (Z.sqrt Y) - p in
  let e := (ex - t) / 2 in
  if k <=? 0 then (Z.sqrt Y, e, Y - Z.sqrt Y * Z.sqrt Y =? 0)       (* cannot happen: the root has at least p+2 digits *)
  else let '(q, exact) := round_sqrt_int k Y in (q, e + k, exact).

Definition oracle_sqrt (c : ctx) (x : dec) (o : obs) : list Z :=
  if negb (is_finite x && (0 <? coeff x) && negb (neg x) && wf_dec x && wf_ctx c && (1 <=? prec c)) then [] else
  if system_err (o_err o) then [] else
  let '(q, e, exact) := sqrt_expect (prec c) (coeff x) (exp x) in
  let adj := e + ndigits q - 1 in
  let d := o_dec o in
  if adj >? emax c then flag (form_eqb (form_of d) Infinite && negb (neg d)) O_SQRT else   (* the rounded root overflows *)
  if adj <? emin c then [] else       (* below the normal range: a second rounding to Etiny; left to C07 *)
  flag (is_finite d && negb (neg d) && value_eqb (coeff d) (exp d) q e) O_SQRT
  ++ flag (Bool.eqb (Inexact (o_cond o)) (negb exact)) O_SQRT_INEXACT.

(* integer cube root by Newton on Z with fuel *)
Fixpoint icbrt_iter (fuel : nat) (n r : Z) : Z :=
  match fuel with
  | O => r
  | S f => let r' := (2 * r + n / (r * r)) / 3 in if r' <? r then icbrt_iter f n r' else r
  end.
Definition icbrt (n : Z) : Z :=
  if n <=? 0 then 0 else
  let r0 := 2 ^ (Z.log2 n / 3 + 1) in
  icbrt_iter (Z.to_nat (Z.log2 n) + 8) n r0.

(* |d - cbrt(x)| <= one unit in the last place of a Precision-digit result (10^Etiny below the normal
   range), an Infinity only when the root exceeds the largest finite number minus one unit, and
   exactness on perfect cubes whose root lies in the normal range *)
Definition oracle_cbrt (c : ctx) (x : dec) (o : obs) : list Z :=
  if negb (is_finite x && (0 <? coeff x) && wf_dec x && wf_ctx c && (1 <=? prec c)) then [] else
  if system_err (o_err o) then [] else
  let d := o_dec o in
  let p := prec c in
  match form_of d with
  | NaN | NaNSignaling => [O_CBRT]
  | Infinite =>
      (* legitimate iff cbrt(x) > (10^p - 2) * 10^(emax - p + 1) *)
      let e1 := emax c - p + 1 in
      let c1 := 10 ^ p - 2 in
      let mm := Z.min (3 * e1) (exp x) in
      flag (Bool.eqb (neg d) (neg x) && (c1 * c1 * c1 * 10 ^ (3 * e1 - mm) <? coeff x * 10 ^ (exp x - mm))) O_CBRT
  | Finite =>
      if coeff d <? 0 then [O_CBRT] else
      let adj := exp d + ndigits (coeff d) - 1 in
      let u := Z.max (etiny c) (if coeff d =? 0 then exp d else adj - p + 1) in
      let m := Z.min u (exp d) in
      let Dm := coeff d * 10 ^ (exp d - m) in
      let Um := 10 ^ (u - m) in
      let mm := Z.min (3 * m) (exp x) in
      let X := coeff x * 10 ^ (exp x - mm) in
      let sc := 10 ^ (3 * m - mm) in
      let lo := Dm - Um in
      let hi := Dm + Um in
      flag (((coeff d =? 0) || Bool.eqb (neg d) (neg x))
            && ((lo <=? 0) || (lo * lo * lo * sc <=? X)) && (X <=? hi * hi * hi * sc)) O_CBRT
      ++ (* perfect cube: x = k^3 * 10^(3j) with k of at most p digits (after stripping zeros), root in the normal range *)
         (let ex3 := exp x mod 3 in
          let Xn := coeff x * 10 ^ ex3 in                       (* exponent exp x - ex3 is a multiple of 3 *)
          let k := icbrt Xn in
          if (k * k * k =? Xn) then
            let kz := tz k in
            let ks := k / 10 ^ kz in
            let radj := (exp x - ex3) / 3 + ndigits k - 1 in
            if (ndigits ks <=? p) && (emin c <=? radj) && (radj <=? emax c) then
              flag (value_eqb (coeff d) (exp d) k ((exp x - ex3) / 3) && negb (Inexact (o_cond o))) O_CBRT_EXACT
            else []
          else [])
  end.

(* correspondence: the model of Sqrt / Cbrt (Model/Roots.v: no floating point is involved, so the model is
   compared result for result) against the implementation *)
Definition corr_root (is_cbrt : bool) (c : ctx) (x : dec) (o : obs) : list Z :=
  match (if is_cbrt then ctx_cbrt go_est c x else ctx_sqrt go_est c x) with
  | Ok r =>
      flag (err_eqb (rerr r) (o_err o)) K_ERR
      ++ (if system_err (rerr r) then []
          else flag (cond_eqb (rcond r) (o_cond o)) K_COND
               ++ match rdec r with
                  | Some d => flag (if is_finite d then dec_eqb d (o_dec o) else same_value d (o_dec o)) K_DEST_REPR
                  | None => []
                  end)
  | _ => [K_MODEL_PANIC]
  end.
