(* C17: conversions and Modf on the implementation's results: model correspondence and exact oracles. *)
From Apd Require Import Generated.Consts Model.Base Model.NumDigits Model.Decimal Model.BigInt Model.Conv Spec.SpecZ Oracle.Judge.
Open Scope Z_scope.

Definition O_INT64 := 73.
Definition O_CONSTRUCT := 74.
Definition O_MODF := 75.

(* the integer value of a finite decimal, if it is one (restated here, independent of the model) *)
Definition int_value (d : dec) : option Z :=
  let s := if neg d then -1 else 1 in
  if coeff d =? 0 then Some 0
  else if 0 <=? exp d then (if exp d >? 25 then None else Some (s * (coeff d * 10 ^ exp d)))   (* > 10^25 is out of range anyway *)
  else if - exp d >? ndigits (coeff d) then None                                             (* |d| < 1, non-zero *)
  else if coeff d mod 10 ^ (- exp d) =? 0 then Some (s * (coeff d / 10 ^ (- exp d))) else None.

Definition judge_int64 (d : dec) (obs : option Z) (dpost : dec) : list Z :=
  match dint64 go_est d with
  | Ok m => flag (match m, obs with Some a, Some b => a =? b | None, None => true | _, _ => false end) K_EXTRA
  | _ => [K_MODEL_PANIC]
  end
  ++ flag (dec_eqb d dpost) K_OPERAND
  ++ (if negb (0 <=? coeff d) then [] else
      let expect := if negb (is_finite d) then None else
                    match int_value d with
                    | Some v => if (- 2 ^ 63 <=? v) && (v <? 2 ^ 63) then Some v else None
                    | None => None
                    end in
      flag (match expect, obs with Some a, Some b => a =? b | None, None => true | _, _ => false end) O_INT64).

Definition judge_set_finite (x e : Z) (dobs : dec) : list Z :=
  flag (dec_eqb (set_finite x e) dobs) K_DEST_REPR
  ++ flag (dec_eqb (mkDec Finite (x <? 0) e (Z.abs x)) dobs) O_CONSTRUCT.
Definition judge_new_big (v e : Z) (dobs : dec) : list Z :=
  flag (dec_eqb (new_with_big_int v e) dobs) K_DEST_REPR
  ++ flag (dec_eqb (mkDec Finite (v <? 0) e (Z.abs v)) dobs) O_CONSTRUCT.

(* Modf(integ, frac) with either output possibly nil *)
Definition judge_modf (d : dec) (integ frac : option dec) (dpost : dec) : list Z :=
  match modf go_est d with
  | Ok (mi, mf) =>
      flag (match integ with Some i => dec_eqb i mi | None => true end) K_DEST_REPR
      ++ flag (match frac with Some f => dec_eqb f mf | None => true end) K_DEST_REPR
  | _ => [K_MODEL_PANIC]
  end
  ++ flag (dec_eqb d dpost) K_OPERAND
  ++ (if negb (is_finite d && (0 <=? coeff d)) then [] else
      let okf (x : dec) := is_finite x && (0 <=? coeff x) && Bool.eqb (neg x) (neg d) in
      let m := Z.min 0 (Z.min (exp d) (Z.min (match integ with Some i => exp i | None => 0 end)
                                             (match frac with Some f => exp f | None => 0 end))) in
      let unit := 10 ^ (- m) in
      let sc (x : dec) := coeff x * 10 ^ (exp x - m) in
      flag (match integ with Some i => okf i && (0 <=? exp i) | None => true end
            && match frac with Some f => okf f && (sc f <? unit) | None => true end
            && match integ, frac with
               | Some i, Some f => sc i + sc f =? sc d
               | Some i, None => (0 <=? sc d - sc i) && (sc d - sc i <? unit)
               | None, Some f => (sc d - sc f) mod unit =? 0
               | None, None => true
               end) O_MODF).
