(* C03: trap differential on the implementation's own results, and ErrDecimal programs against the model. *)
From Apd Require Import Generated.Consts Model.Base Model.NumDigits Model.Decimal Model.Context Model.ErrDec Spec.SpecZ Oracle.Judge.
Open Scope Z_scope.

Definition O_TRAP_CHANGED := 60.   (* nil error but result/flags differ from the run without traps *)
Definition O_TRAP_HIDDEN := 61.    (* a trapped condition was raised but the error is nil *)
Definition O_TRAP_EXACT := 62.     (* single-rounding op: error not exactly flags&traps / result not delivered alongside *)
Definition O_ED_REF := 63.         (* ErrDecimal differs from the Context method of the same name + sticky logic *)

(* oT: observed under trap set T; o0: observed under no traps *)
Definition oracle_c03 (T : cond) (composite : bool) (oT o0 : obs) : list Z :=
  (if err_is_none (o_err oT) then flag (dec_eqb (o_dec oT) (o_dec o0) && cond_eqb (o_cond oT) (o_cond o0)) O_TRAP_CHANGED else [])
  ++ flag (negb (cond_any (cand (o_cond o0) T)) || negb (err_is_none (o_err oT))) O_TRAP_HIDDEN
  ++ flag (negb (cond_any (cand (o_cond oT) T)) || negb (err_is_none (o_err oT))) O_TRAP_HIDDEN
  ++ (if composite then [] else
      match o_err o0 with
      | ENone =>
          match o_err oT with
          | ENone => flag (negb (cond_any (cand (o_cond oT) T))) O_TRAP_EXACT
          | ETrap t => flag (cond_eqb t (cand (o_cond oT) T) && cond_any t
                             && dec_eqb (o_dec oT) (o_dec o0) && cond_eqb (o_cond oT) (o_cond o0)) O_TRAP_EXACT
          | _ => [O_TRAP_EXACT]
          end
      | e0 => flag (err_eqb (o_err oT) e0) O_TRAP_EXACT
      end).

(* ErrDecimal program: final registers, flags and error against the model *)
Definition judge_ed (c : ctx) (regs : list dec) (p : list edstep) (regs' : list dec) (flags : cond) (e : err) : list Z :=
  match ed_run go_est c (mkEd regs c0 ENone) p with
  | Ok s =>
      let '(s1, e1) := ed_Err c s in
      (* on a system-limit error the destination of the failing call and its flags are unspecified
         (see corr_full); the comparison with the reference interpreter still covers them *)
      if system_err e1 then flag (err_eqb e1 e) K_ERR else
      flag (forallb (fun ab => dec_eqb (fst ab) (snd ab)) (combine (ed_regs s1) regs') && (length regs' =? length (ed_regs s1))%nat) K_DEST_REPR
      ++ flag (cond_eqb (ed_flags s1) flags) K_COND
      ++ flag (err_eqb e1 e || (match e1, e with EOther, _ | _, EOther => false | _, _ => false end)) K_ERR
  | _ => [K_MODEL_PANIC]
  end.
