(* Correspondence of Context.Ln / Log10 with the model: power-series path (Model/Ln.v) and Halley's iteration given its
   float-derived inputs (Model/LnHalley.v). *)
From Coq Require Import List.
From Apd Require Import Generated.Consts Model.Base Model.NumDigits Model.Decimal Model.Context Model.Roots Model.Ln Model.LnHalley Oracle.Judge.
Import ListNotations.
Open Scope Z_scope.

Definition K_NOT_MODELLED := 0.    (* Halley path: nothing compared *)

Definition corr_ln (t1 t2 : list (Z * Z)) (is_log10 : bool) (c : ctx) (x : dec) (o : obs) : list Z :=
  match (if is_log10 then ctx_log10_series go_est t1 t2 c x else ctx_ln_series go_est t1 c x) with
  | Ok (Some r) =>
      flag (err_eqb (rerr r) (o_err o)) K_ERR
      ++ (if system_err (rerr r) then []
          else flag (cond_eqb (rcond r) (o_cond o)) K_COND
               ++ match rdec r with
                  | Some d => flag (if is_finite d then dec_eqb d (o_dec o) else same_value d (o_dec o)) K_DEST_REPR
                  | None => []
                  end)
  | Ok None => []
  | _ => [K_MODEL_PANIC]
  end.
Definition ln_modelled (t1 t2 : list (Z * Z)) (is_log10 : bool) (c : ctx) (x : dec) : bool :=
  match (if is_log10 then ctx_log10_series go_est t1 t2 c x else ctx_ln_series go_est t1 c x) with Ok None => false | _ => true end.

(* the full model: a0 and exps are the float-derived inputs of Halley's iteration (ignored on the series path) *)
Definition ln_full (t1 t2 : list (Z * Z)) (is_log10 : bool) (a0 : dec) (exps : list (Z * Z)) (c : ctx) (x : dec) : res (option result) :=
  if is_log10 then ctx_log10_full go_est t1 t2 a0 exps c x else ctx_ln_full go_est t1 a0 exps c x.
Definition corr_ln_full (t1 t2 : list (Z * Z)) (is_log10 : bool) (a0 : dec) (exps : list (Z * Z)) (c : ctx) (x : dec) (o : obs) : list Z :=
  match ln_full t1 t2 is_log10 a0 exps c x with
  | Ok (Some r) =>
      flag (err_eqb (rerr r) (o_err o)) K_ERR
      ++ (if system_err (rerr r) then []
          else flag (cond_eqb (rcond r) (o_cond o)) K_COND
               ++ match rdec r with
                  | Some d => flag (if is_finite d then dec_eqb d (o_dec o) else same_value d (o_dec o)) K_DEST_REPR
                  | None => []
                  end)
  | Ok None => []
  | _ => [K_MODEL_PANIC]
  end.
(* 0: not followed by the model; 1: series path (or a special value); 2: Halley's iteration *)
Definition ln_path (t1 t2 : list (Z * Z)) (is_log10 : bool) (a0 : dec) (exps : list (Z * Z)) (c : ctx) (x : dec) : Z :=
  if ln_modelled t1 t2 is_log10 c x then 1 else
  match ln_full t1 t2 is_log10 a0 exps c x with Ok None => 0 | _ => 2 end.
