(* C12: Exp, Ln, Log10 and Pow decided on the implementation's results by verified interval arithmetic.

   A small language of real expressions (rexp) is evaluated (i) over the reals (reval, the meaning) and
   (ii) over floating-point intervals with integer mantissas and exponents (ieval, executable), using the
   interval operators of the Coq Interval library instantiated on plain Z (StdZRadix2, no machine
   integers, no machine floats).  Proofs/TranscProofs.v shows that ieval encloses reval, hence that each
   verdict below is a theorem about the real function: "within" means proven within one unit, "beyond"
   means proven more than one unit off, "unknown" means the enclosure at this working precision is too
   wide (the driver then retries with more bits).  No floating-point tolerance anywhere. *)
From Coq Require Import ZArith Reals List Bool.
From Interval Require Import Float.Specific_stdz Float.Specific_ops Interval.Float_full Interval.Interval Real.Xreal.
From Apd Require Import Model.Base Model.NumDigits Model.Decimal Spec.SpecZ Oracle.Judge.
Open Scope Z_scope.

Module F := SpecificFloat StdZRadix2.
Module I := FloatIntervalFull F.

Inductive rexp :=
| RZ (z : Z)
| RDec (c e : Z)                    (* c * 10^e *)
| RAdd (a b : rexp) | RSub (a b : rexp) | RMul (a b : rexp) | RDiv (a b : rexp)
| RAbs (a : rexp) | RNeg (a : rexp)
| RLn (a : rexp) | RExp (a : rexp)
| RPowZ (a : rexp) (n : Z).

(* meaning over the extended reals of the Interval library (Xnan = undefined) *)
Fixpoint xeval (e : rexp) : ExtendedR :=
  match e with
  | RZ z => Xreal (IZR z)
  | RDec c k => Xmul (Xreal (IZR c)) (Xpower_int (Xreal (IZR 10)) k)
  | RAdd a b => Xadd (xeval a) (xeval b)
  | RSub a b => Xsub (xeval a) (xeval b)
  | RMul a b => Xmul (xeval a) (xeval b)
  | RDiv a b => Xdiv (xeval a) (xeval b)
  | RAbs a => Xabs (xeval a)
  | RNeg a => Xneg (xeval a)
  | RLn a => Xln (xeval a)
  | RExp a => Xexp (xeval a)
  | RPowZ a n => Xpower_int (xeval a) n
  end.

(* meaning over the reals (total: division by zero and ln of a non-positive follow Coq's conventions;
   the theorems only use it where xeval is defined) *)
Fixpoint reval (e : rexp) : R :=
  match e with
  | RZ z => IZR z
  | RDec c k => (IZR c * powerRZ 10 k)%R
  | RAdd a b => (reval a + reval b)%R
  | RSub a b => (reval a - reval b)%R
  | RMul a b => (reval a * reval b)%R
  | RDiv a b => (reval a / reval b)%R
  | RAbs a => Rabs (reval a)
  | RNeg a => (- reval a)%R
  | RLn a => ln (reval a)
  | RExp a => Rtrigo_def.exp (reval a)
  | RPowZ a n => powerRZ (reval a) n
  end.

Fixpoint ieval (bits : Z) (e : rexp) : I.type :=
  match e with
  | RZ z => I.fromZ bits z
  | RDec c k => I.mul bits (I.fromZ bits c) (I.power_int bits (I.fromZ bits 10) k)
  | RAdd a b => I.add bits (ieval bits a) (ieval bits b)
  | RSub a b => I.sub bits (ieval bits a) (ieval bits b)
  | RMul a b => I.mul bits (ieval bits a) (ieval bits b)
  | RDiv a b => I.div bits (ieval bits a) (ieval bits b)
  | RAbs a => I.abs (ieval bits a)
  | RNeg a => I.neg (ieval bits a)
  | RLn a => I.ln bits (ieval bits a)
  | RExp a => I.exp bits (ieval bits a)
  | RPowZ a n => I.power_int bits (ieval bits a) n
  end.

(* proven: reval e <= 0 *)
Definition prove_le0 (bits : Z) (e : rexp) : bool :=
  match I.sign_large (ieval bits e) with Xlt | Xeq => true | _ => false end.
(* proven: 0 < reval e *)
Definition prove_gt0 (bits : Z) (e : rexp) : bool :=
  match I.sign_strict (ieval bits e) with Xgt => true | _ => false end.
(* proven: reval e < 0 *)
Definition prove_lt0 (bits : Z) (e : rexp) : bool :=
  match I.sign_strict (ieval bits e) with Xlt => true | _ => false end.

Inductive verdict := VWithin | VBeyond | VUnknown.

(* The exact value is either an expression, or exp of an expression.  In the second case (Exp, and Pow
   with a fractional exponent) the value is never computed: every comparison with a bound B is made in
   the logarithmic domain (w against ln B), so that absurdly large arguments cost nothing. *)
Inductive value := VDir (v : rexp) | VExp (w : rexp).

(* Bounds are exact decimals c * 10^e, so that their sign (and a bound that is exactly zero) is decided on
   integers. *)
Definition bnd := (Z * Z)%type.
Definition bexp (B : bnd) : rexp := RDec (fst B) (snd B).
Definition badd (A B : bnd) : bnd :=
  let m := Z.min (snd A) (snd B) in (fst A * 10 ^ (snd A - m) + fst B * 10 ^ (snd B - m), m).
Definition bneg (B : bnd) : bnd := (- fst B, snd B).
Definition bsub (A B : bnd) : bnd := badd A (bneg B).

(* proven: value <= B *)
Definition le_bound (bits : Z) (a : value) (B : bnd) : bool :=
  match a with
  | VDir v => prove_le0 bits (RSub v (bexp B))
  | VExp w => (0 <? fst B) && prove_le0 bits (RSub w (RLn (bexp B)))
  end.
(* proven: value < B *)
Definition lt_bound (bits : Z) (a : value) (B : bnd) : bool :=
  match a with
  | VDir v => prove_lt0 bits (RSub v (bexp B))
  | VExp w => (0 <? fst B) && prove_lt0 bits (RSub w (RLn (bexp B)))
  end.
(* proven: B <= value *)
Definition ge_bound (bits : Z) (a : value) (B : bnd) : bool :=
  match a with
  | VDir v => prove_le0 bits (RSub (bexp B) v)
  | VExp w => (fst B <=? 0) || prove_le0 bits (RSub (RLn (bexp B)) w)
  end.
(* proven: B < value *)
Definition gt_bound (bits : Z) (a : value) (B : bnd) : bool :=
  match a with
  | VDir v => prove_lt0 bits (RSub (bexp B) v)
  | VExp w => (fst B <=? 0) || prove_lt0 bits (RSub (RLn (bexp B)) w)
  end.
(* proven: T <= |value|, |value| < T, T < |value| *)
Definition abs_ge (bits : Z) (a : value) (T : bnd) : bool := ge_bound bits a T || le_bound bits a (bneg T).
Definition abs_lt (bits : Z) (a : value) (T : bnd) : bool := lt_bound bits a T && gt_bound bits a (bneg T).
Definition abs_gt (bits : Z) (a : value) (T : bnd) : bool := gt_bound bits a T || lt_bound bits a (bneg T).

(* |v - d| <= 10^u, or v lies in a decade above d's (adjusted exponent adj) and |v - d| <= 10^(u+1):
   "one unit in the last place of a Precision-digit result", taking the larger of the units of the
   result and of the exact value when they straddle a power of ten *)
Definition within_tol (bits : Z) (a : value) (d tol : bnd) : bool :=
  ge_bound bits a (bsub d tol) && le_bound bits a (badd d tol).
Definition beyond_tol (bits : Z) (a : value) (d tol : bnd) : bool :=
  lt_bound bits a (bsub d tol) || gt_bound bits a (badd d tol).
Definition within_of (bits : Z) (a : value) (d : bnd) (u : Z) : bool := within_tol bits a d (1, u).
Definition beyond_of (bits : Z) (a : value) (d : bnd) (u : Z) : bool := beyond_tol bits a d (1, u).

Definition judge_ulp (bits : Z) (a : value) (d : bnd) (adj u : Z) : verdict :=
  if within_of bits a d u then VWithin
  else if abs_ge bits a (1, adj + 1) && within_of bits a d (u + 1) then VWithin
  else if beyond_of bits a d u && (abs_lt bits a (1, adj + 1) || beyond_of bits a d (u + 1)) then VBeyond
  else VUnknown.

(* proven: |v - d| <= 1.5 * 10^u (a qualifier attached to an alarm, used to tell the recorded
   directed-rounding findings - excess of a fraction of a unit - from anything worse) *)
Definition near_miss (bits : Z) (a : value) (d : bnd) (u : Z) : bool := within_tol bits a d (15, u - 1).

(* ---------- the operations ---------- *)
Inductive top := TExp | TLn | TLog10 | TPow.

Definition bdec (d : dec) : bnd := (if neg d then - coeff d else coeff d, exp d).
Definition sdec (d : dec) : rexp := bexp (bdec d).

(* integer value of a finite decimal, when it is an integer *)
Definition int_value (y : dec) : option Z :=
  let c := if neg y then - coeff y else coeff y in
  if 0 <=? exp y then Some (c * 10 ^ exp y)
  else if c mod 10 ^ (- exp y) =? 0 then Some (c / 10 ^ (- exp y)) else None.

(* the exact value *)
Definition value_expr (t : top) (x y : dec) : value :=
  match t with
  | TExp => VExp (sdec x)
  | TLn => VDir (RLn (sdec x))
  | TLog10 => VDir (RDiv (RLn (sdec x)) (RLn (RZ 10)))
  | TPow => match int_value y with
            | Some n => VDir (RPowZ (sdec x) n)
            | None => VExp (RMul (sdec y) (RLn (sdec x)))
            end
  end.

Definition in_domain (t : top) (x y : dec) : bool :=
  is_finite x && (0 <=? coeff x) &&
  match t with
  | TExp => true
  | TLn | TLog10 => negb (neg x) && (0 <? coeff x)
  | TPow => is_finite y && (0 <=? coeff y) && (0 <? coeff x)
            && (negb (neg x) || match int_value y with Some _ => true | None => false end)
  end.

(* the value the property lists as exact by definition: exp 0, ln 1, log10 1, x**0, x**1 when x fits,
   and non-negative integer powers whose exact value has at most Precision digits *)
Definition is_one (x : dec) : bool := negb (neg x) && value_eqb (coeff x) (exp x) 1 0.
Definition exact_cell (t : top) (p : Z) (x y : dec) : option (bool * Z * Z) :=   (* sign, coefficient, exponent *)
  match t with
  | TExp => if coeff x =? 0 then Some (false, 1, 0) else None
  | TLn | TLog10 => if is_one x then Some (false, 0, 0) else None
  | TPow =>
      match int_value y with
      | Some n =>
          if n =? 0 then Some (false, 1, 0)
          else if (0 <? n) && ((coeff x =? 1) || (((ndigits (coeff x) - 1) * n + 1 <=? p) && (n <=? 4 * p + 8))) then
            let c := coeff x ^ n in
            let z := tz c in
            if ndigits (c / 10 ^ z) <=? p then Some (neg x && Z.odd n, c, exp x * n) else None
          else None
      | None => None
      end
  end.

Definition O_TR_ULP := 110.        (* finite result proven more than one unit in the last place off *)
Definition O_TR_EXACT := 111.      (* a value that is exact by definition is not returned exactly *)
Definition O_TR_OVERFLOW := 112.   (* Overflow / Infinity reported although the exact value is proven inside the range *)
Definition O_TR_UNDERFLOW := 113.  (* Underflow reported although the exact value is proven inside the normal range *)
Definition O_TR_FORM := 114.       (* in-domain finite operands produced NaN, or Infinity without Overflow *)
Definition O_TR_NEAR := 116.       (* qualifier of 110: the result is proven within 1.5 units *)
Definition O_TR_UNKNOWN := 0.      (* not a failure: the enclosure is too wide at this working precision *)

(* unit in the last place of the result d in context c: 10^max(etiny, adj(d) - p + 1); for a zero the exponent field *)
Definition adj_of (d : dec) : Z := exp d + ndigits (coeff d) - 1.
Definition ulp_exp (c : ctx) (d : dec) : Z :=
  Z.max (etiny c) (if coeff d =? 0 then exp d else adj_of d - prec c + 1).

(* the largest finite number minus one unit at the top of the range; the bottom of the normal range plus one unit *)
Definition over_limit (c : ctx) : bnd := (10 ^ prec c - 2, emax c - prec c + 1).
Definition under_limit (c : ctx) : bnd := badd (1, emin c) (1, etiny c).

Definition check_overflow (bits : Z) (a : value) (c : ctx) : list Z :=
  (* legitimate only if |v| > Nmax - one unit *)
  if abs_gt bits a (over_limit c) then []
  else if abs_lt bits a (over_limit c) then [O_TR_OVERFLOW] else [O_TR_UNKNOWN].
Definition check_underflow (bits : Z) (a : value) (c : ctx) : list Z :=
  (* legitimate only if |v| < 10^emin + one unit *)
  if abs_lt bits a (under_limit c) then []
  else if abs_gt bits a (under_limit c) then [O_TR_UNDERFLOW] else [O_TR_UNKNOWN].

Definition check_ulp (bits : Z) (a : value) (c : ctx) (d : dec) : list Z :=
  match judge_ulp bits a (bdec d) (adj_of d) (ulp_exp c d) with
  | VWithin => []
  | VBeyond => O_TR_ULP :: (if near_miss bits a (bdec d) (ulp_exp c d) then [O_TR_NEAR] else [])
  | VUnknown => [O_TR_UNKNOWN]
  end.

Definition oracle_c12 (bits : Z) (t : top) (c : ctx) (x y : dec) (o : obs) : list Z :=
  if negb (in_domain t x y && wf_ctx c && (1 <=? prec c)) then [] else
  if system_err (o_err o) then [] else
  let d := o_dec o in
  let p := prec c in
  match exact_cell t p x y with
  | Some (sg, k, e) =>
      (* the exact value, if it lies in the exponent range, must be returned as is *)
      let adj := e + ndigits k - 1 in
      if (k =? 0) || ((emin c <=? adj) && (adj <=? emax c)) then
        flag (is_finite d && value_eqb (coeff d) (exp d) k e && ((k =? 0) || Bool.eqb (neg d) sg)) O_TR_EXACT
      else []
  | None =>
      let a := value_expr t x y in
      match form_of d with
      | NaN | NaNSignaling => [O_TR_FORM]
      | Infinite => check_overflow bits a c     (* whether the Overflow flag accompanies it belongs to C02 *)
      | Finite =>
          if coeff d <? 0 then [O_TR_FORM] else
          if Overflow (o_cond o) then
            (* directed modes deliver the largest finite number together with Overflow *)
            check_overflow bits a c
          else
            check_ulp bits a c d
            ++ (if Underflow (o_cond o) then check_underflow bits a c else [])
      end
  end.
