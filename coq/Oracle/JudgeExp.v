(* Correspondence of Context.Exp with its model, given the two float-derived integers. *)
From Coq Require Import List.
From Apd Require Import Generated.Consts Model.Base Model.NumDigits Model.Decimal Model.Context Model.Roots Model.Exp Oracle.Judge.
Import ListNotations.
Open Scope Z_scope.

Definition corr_exp (cp n : Z) (c : ctx) (x : dec) (o : obs) : list Z :=
  match ctx_exp_with go_est cp n c x with
  | Ok r =>
      flag (err_eqb (rerr r) (o_err o)) K_ERR
      ++ (if system_err (rerr r) then []
          else flag (cond_eqb (rcond r) (o_cond o)) K_COND
               ++ match rdec r with
                  | Some d => flag (if is_finite d then dec_eqb d (o_dec o) else same_value d (o_dec o)) K_DEST_REPR
                  | None => []
                  end)
  | _ => [K_MODEL_PANIC]
  end.
