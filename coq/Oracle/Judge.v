(* The executable side of every check: runs the model on a case, compares the property's projection
   with what the implementation returned (correspondence), and applies the property's oracle to the
   implementation's own output.  Extracted to OCaml; failure codes are small integers listed in
   /verif/bin/check (CODES). *)
From Apd Require Import Generated.Consts Model.Base Model.NumDigits Model.Decimal Model.Context Spec.SpecZ.
Open Scope Z_scope.

(* the executable instance of the model: Go's own float estimate *)
Local Notation dcmp := (dcmp go_est).
Local Notation cmp_total := (cmp_total go_est).
Local Notation dreduce := (dreduce go_est).
Local Notation ctx_add := (ctx_add go_est).
Local Notation ctx_mul := (ctx_mul go_est).
Local Notation ctx_quo := (ctx_quo go_est).
Local Notation ctx_quo_integer := (ctx_quo_integer go_est).
Local Notation ctx_rem := (ctx_rem go_est).
Local Notation ctx_abs := (ctx_abs go_est).
Local Notation ctx_neg := (ctx_neg go_est).
Local Notation ctx_round_op := (ctx_round_op go_est).
Local Notation ctx_reduce := (ctx_reduce go_est).
Local Notation ctx_quantize := (ctx_quantize go_est).
Local Notation ctx_rti_value := (ctx_rti_value go_est).
Local Notation ctx_rti_exact := (ctx_rti_exact go_est).
Local Notation ctx_ceil := (ctx_ceil go_est).
Local Notation ctx_floor := (ctx_floor go_est).
Local Notation ctx_cmp := (ctx_cmp go_est).

Inductive op :=
| OAdd | OSub | OMul | OQuo | OQuoInteger | ORem | OAbs | ONeg | ORound | OReduce | OQuantize
| ORtiv | ORtie | OCeil | OFloor | OCmp.

Inductive alias := ANone | ADX | ADY | AXY | ADXY.

Record acase := mkCase { a_op : op; a_ctx : ctx; a_x : dec; a_y : dec; a_e : Z; a_alias : alias; a_dpre : dec }.
Record obs := mkObs { o_dec : dec; o_cond : cond; o_cond_raw : Z; o_err : err; o_extra : Z;
                      o_xpost : option dec; o_ypost : option dec; o_ctx_same : bool }.

Definition is_binary (o : op) : bool :=
  match o with OAdd | OSub | OMul | OQuo | OQuoInteger | ORem | OCmp => true | _ => false end.

(* operands as the call sees them under the alias pattern *)
Definition eff_y (k : acase) : dec := match a_alias k with AXY | ADXY => a_x k | _ => a_y k end.
(* the value held by the destination object before the call *)
Definition dest_before (k : acase) : dec :=
  match a_alias k with ANone | AXY => a_dpre k | ADX | ADXY => a_x k | ADY => a_y k end.

Definition run_model (k : acase) : res (result * Z) :=
  let c := a_ctx k in
  let x := a_x k in
  let y := eff_y k in
  let wrap (r : res result) := do v <- r; Ok (v, 0) in
  match a_op k with
  | OAdd => wrap (ctx_add c x y false)
  | OSub => wrap (ctx_add c x y true)
  | OMul => wrap (ctx_mul c x y)
  | OQuo => wrap (ctx_quo c x y)
  | OQuoInteger => wrap (ctx_quo_integer c x y)
  | ORem => wrap (ctx_rem c x y)
  | OAbs => wrap (ctx_abs c x)
  | ONeg => wrap (ctx_neg c x)
  | ORound => wrap (ctx_round_op c x)
  | OReduce => ctx_reduce c x
  | OQuantize => wrap (ctx_quantize c x (a_e k))
  | ORtiv => wrap (ctx_rti_value c x)
  | ORtie => wrap (ctx_rti_exact c x)
  | OCeil => wrap (ctx_ceil c x)
  | OFloor => wrap (ctx_floor c x)
  | OCmp => wrap (ctx_cmp c x y)
  end.

Definition err_eqb (a b : err) : bool :=
  match a, b with
  | ENone, ENone | EExponentOutOfRange, EExponentOutOfRange | EZeroPrecision, EZeroPrecision | EOther, EOther => true
  | ETrap s, ETrap t => cond_eqb s t
  | _, _ => false
  end.
Definition err_is_range (e : err) : bool := match e with EExponentOutOfRange => true | _ => false end.
Definition odec_eqb (a b : option dec) : bool :=
  match a, b with Some a, Some b => dec_eqb a b | None, None => true | _, _ => false end.

(* numeric projection of a decimal: form, sign, value (coefficient and exponent fields of NaN and
   Infinity are not part of the value) *)
Definition same_value (a b : dec) : bool :=
  form_eqb (form_of a) (form_of b) && Bool.eqb (neg a) (neg b)
  && (negb (form_eqb (form_of a) Finite) || value_eqb (coeff a) (exp a) (coeff b) (exp b)).

(* ---------- failure codes ---------- *)
Definition K_MODEL_PANIC := 1.       (* the model returned Panic / OutOfFuel *)
Definition K_ERR := 2.               (* error class differs from the model *)
Definition K_DEST_REPR := 3.         (* destination fields differ from the model *)
Definition K_DEST_VALUE := 4.        (* destination value (form, sign, number) differs from the model *)
Definition K_COND := 5.              (* Condition differs from the model *)
Definition K_EXTRA := 6.             (* extra integer result differs from the model *)
Definition K_OPERAND := 7.           (* an operand that is not the destination changed *)
Definition K_CTX := 8.               (* the Context value changed *)
Definition K_DEST_TOUCHED := 9.      (* destination written although the model leaves it alone *)
Definition O_ROUNDING := 20.         (* C01: result is not the exact result rounded once *)
Definition O_SYSLIMIT := 21.         (* exponent-limit error although no limit is exceeded *)
Definition O_INEXACT := 22.
Definition O_SUBNORMAL := 23.
Definition O_UNDERFLOW := 24.
Definition O_OVERFLOW := 25.
Definition O_IMPLIES := 26.          (* Inexact->Rounded, Overflow->Inexact, no stray bits *)
Definition O_FITS := 27.             (* C07 *)
Definition O_NUMDIGITS := 30.        (* C19 NumDigits differs from the exact digit count *)
Definition O_EST := 31.              (* float estimate outside the range the big-path theorem assumes *)
Definition O_REDUCE := 32.           (* C19 Reduce oracle *)

Definition flag (b : bool) (code : Z) : list Z := if b then [] else [code].

(* ---------- correspondence: model vs implementation, full projection ---------- *)
Definition system_err (e : err) : bool := match e with EExponentOutOfRange | EZeroPrecision | EOther => true | _ => false end.

Definition corr_full (k : acase) (o : obs) : list Z :=
  match run_model k with
  | Ok (r, extra) =>
      flag (err_eqb (rerr r) (o_err o)) K_ERR
      ++ (if system_err (rerr r) then []       (* on a system error the destination and flags are unspecified *)
          else flag (cond_eqb (rcond r) (o_cond o)) K_COND
               ++ match rdec r with
                  | Some d => flag (dec_eqb d (o_dec o)) K_DEST_REPR ++ flag (same_value d (o_dec o)) K_DEST_VALUE
                  | None => flag (dec_eqb (dest_before k) (o_dec o)) K_DEST_TOUCHED
                  end
               ++ flag (extra =? o_extra o) K_EXTRA)
      ++ flag (match o_xpost o with Some x' => dec_eqb x' (a_x k) | None => true end) K_OPERAND
      ++ flag (match o_ypost o with Some y' => dec_eqb y' (a_y k) | None => true end) K_OPERAND
      ++ flag (o_ctx_same o) K_CTX
  | _ => [K_MODEL_PANIC]
  end.

(* ---------- well-formedness as in the quantifier of C01 ---------- *)
Definition wf_dec (d : dec) : bool :=
  (0 <=? coeff d) && (MinExponent <=? exp d) && (exp d <=? MaxExponent)
  && (MinExponent <=? exp d + ndigits (coeff d) - 1) && (exp d + ndigits (coeff d) - 1 <=? MaxExponent).
Definition wf_ctx (c : ctx) : bool :=
  (0 <=? prec c) && (MinExponent <=? emin c) && (emin c <=? 0) && (0 <=? emax c) && (emax c <=? MaxExponent)
  && (prec c <=? emax c).

(* ---------- C01 / C02 / C07 oracle on the implementation's own output ---------- *)
(* the exact result and whether C01 speaks about this case at all *)
Definition exact_result (k : acase) : option exact :=
  let c := a_ctx k in
  let x := a_x k in
  let y := eff_y k in
  let fin2 := is_finite x && is_finite y in
  match a_op k with
  | OAdd => if fin2 then Some (exact_add x y false (rounder_eqb (rounding c) RFloor)) else None
  | OSub => if fin2 then Some (exact_add x y true (rounder_eqb (rounding c) RFloor)) else None
  | OMul => if fin2 then Some (exact_mul x y) else None
  | OQuo => if fin2 && negb (coeff y =? 0) then Some (exact_quo x y) else None
  | OAbs => if is_finite x then Some (mkExact false (coeff x) 1 (exp x)) else None
  | ONeg => if is_finite x then Some (mkExact (if coeff x =? 0 then false else negb (neg x)) (coeff x) 1 (exp x)) else None
  | ORound => if is_finite x then Some (exact_of_dec x) else None
  | _ => None
  end.

Definition adj_exact (x : exact) : Z := mag_frac (xnum x) (xden x) + xexp x - 1.

(* an exponent-limit error is legitimate only when some exponent really leaves +/-MaxExponent: the
   gap between the operands (Add/Sub), the exponent or adjusted exponent of the exact result, or the
   adjusted exponent of the result rounded to Precision digits (an all-nines carry at the very top:
   9.99..E+100000 rounds to 1.0E+100001, which the package cannot represent) *)
Definition syslimit_excuse (k : acase) (x : exact) : bool :=
  let gap := Z.abs (exp (a_x k) - exp (eff_y k)) in
  (match a_op k with OAdd | OSub => gap >? MaxExponent | _ => false end)
  || (xexp x <? MinExponent) || (xexp x >? MaxExponent)
  || (negb (xnum x =? 0) && ((adj_exact x >? MaxExponent) || (adj_exact x <? MinExponent)
                             || (ndigits (xnum x) - prec (a_ctx k) >? MaxExponent)
                             || ((adj_exact x =? MaxExponent) && (1 <=? prec (a_ctx k))
                                 && s_overflow (spec_round_nz (prec (a_ctx k)) MinExponent MaxExponent (rounding (a_ctx k)) x)))).

Definition oracle_c01 (k : acase) (o : obs) : list Z :=
  let c := a_ctx k in
  if negb (wf_ctx c && wf_dec (a_x k) && (negb (is_binary (a_op k)) || wf_dec (eff_y k))) then [] else
  match exact_result k with
  | None => []
  | Some x =>
    match o_err o with
    | EExponentOutOfRange => flag (syslimit_excuse k x) O_SYSLIMIT
    | EZeroPrecision | EOther => []
    | _ =>
      if prec c =? 0 then
        match a_op k with
        | OQuo => []
        | _ => if (xnum x =? 0) || ((emin c <=? adj_exact x) && (adj_exact x <=? emax c))
               then flag (matches (o_dec o) (spec_exact_p0 x)) O_ROUNDING else []
        end
      else if xnum x =? 0 then
        flag (is_finite (o_dec o) && (coeff (o_dec o) =? 0) && Bool.eqb (neg (o_dec o)) (xneg x)) O_ROUNDING
      else flag (matches (o_dec o) (s_res (spec_round_nz (prec c) (emin c) (emax c) (rounding c) x))) O_ROUNDING
    end
  end.

Definition oracle_c02_arith (k : acase) (o : obs) : list Z :=
  let c := a_ctx k in
  if negb (wf_ctx c && wf_dec (a_x k) && (negb (is_binary (a_op k)) || wf_dec (eff_y k))) then [] else
  let f := o_cond o in
  flag ((0 <=? o_cond_raw o) && (o_cond_raw o <? 4096)) O_IMPLIES
  ++ (if SystemOverflow f || SystemUnderflow f then flag (err_is_range (o_err o)) O_IMPLIES  (* a system limit is always an error; no result is described *)
      else flag (negb (Overflow f) || Inexact f) O_IMPLIES)
  ++ flag (negb (Inexact f && is_finite (o_dec o)) || Rounded f) O_IMPLIES
  ++ match exact_result k with
     | None => []
     | Some x =>
       if (prec c =? 0) || err_is_range (o_err o) || match o_err o with EZeroPrecision | EOther => true | _ => false end then [] else
       let s := spec_flags (prec c) (emin c) (emax c) (rounding c) x in
       flag (Bool.eqb (Inexact f) (s_inexact s)) O_INEXACT
       ++ flag (Bool.eqb (Subnormal f) (s_subnormal s)) O_SUBNORMAL
       ++ flag (Bool.eqb (Underflow f) (s_subnormal s && s_inexact s)) O_UNDERFLOW
       ++ flag (Bool.eqb (Overflow f) (s_overflow s)) O_OVERFLOW
     end.

Definition rounding_op (o : op) : bool :=
  match o with OAdd | OSub | OMul | OQuo | OAbs | ONeg | ORound | ORem | OReduce | OQuantize => true | _ => false end.

Definition oracle_c07 (k : acase) (o : obs) : list Z :=
  let c := a_ctx k in
  if negb (wf_ctx c && wf_dec (a_x k) && (negb (is_binary (a_op k)) || wf_dec (eff_y k))) then [] else
  if system_err (o_err o) then [] else
  if negb (is_finite (o_dec o)) then [] else
  match a_op k with
  | OQuoInteger => flag ((exp (o_dec o) =? 0) && (0 <=? coeff (o_dec o))
                         && ((prec c =? 0) || (ndigits (coeff (o_dec o)) <=? prec c))) O_FITS
  | _ => if rounding_op (a_op k) && negb (prec c =? 0) then flag (fits c (o_dec o)) O_FITS else []
  end.

(* ---------- C19 ---------- *)
Definition judge_numdigits (b n : Z) : list Z :=
  match num_digits b with
  | Ok m => flag (m =? n) K_EXTRA
  | _ => [K_MODEL_PANIC]
  end
  ++ flag (n =? ndigits b) O_NUMDIGITS
  ++ (let bl := bitlen b in if bl >? digitsTableSize then flag (est_ok (go_est bl) bl) O_EST else []).

(* the digit count of 10^k + delta (delta in {-1, 0, 1}, k >= 1), without building the number: k digits for
   10^k - 1, k + 1 otherwise (Proofs/ReduceProofs.v: judge_numdigits_pow10_sound) *)
Definition judge_numdigits_pow10 (k delta n : Z) : list Z :=
  flag (n =? expected_digits_pow10 k delta) O_NUMDIGITS.

Fixpoint trailing_zeros (fuel : nat) (c : Z) : Z :=
  match fuel with O => 0 | S f => if (c =? 0) || negb (c mod 10 =? 0) then 0 else 1 + trailing_zeros f (c / 10) end.
Definition tz (c : Z) : Z := trailing_zeros (S (Z.to_nat (bitlen c))) c.

(* Decimal.Reduce(x) returned (d, n) *)
Definition oracle_dec_reduce (x d : dec) (n : Z) : list Z :=
  if negb (is_finite x) then flag (same_value d x && (n =? 0)) O_REDUCE else
  if coeff x =? 0 then flag (is_finite d && (coeff d =? 0) && (exp d =? 0) && (n =? 0)) O_REDUCE else
  flag (is_finite d && Bool.eqb (neg d) (neg x) && value_eqb (coeff d) (exp d) (coeff x) (exp x)
        && negb (coeff d mod 10 =? 0) && (n =? tz (coeff x)) && (exp d =? exp x + n)) O_REDUCE.

Definition judge_dec_reduce (x dpre : dec) (aliased : bool) (d : dec) (n : Z) (xpost : option dec) : list Z :=
  match dreduce x with
  | Ok (dm, nm) => flag (dec_eqb dm d) K_DEST_REPR ++ flag (nm =? n) K_EXTRA
  | _ => [K_MODEL_PANIC]
  end
  ++ flag (match xpost with Some x' => dec_eqb x' x | None => true end) K_OPERAND
  ++ oracle_dec_reduce x d n.

(* Context.Reduce: the value is the once-rounded operand, stripped; zero keeps its sign; the count is
   that of the rounded representation *)
Definition oracle_ctx_reduce (k : acase) (o : obs) : list Z :=
  let c := a_ctx k in
  let x := a_x k in
  if negb (wf_ctx c && wf_dec x && is_finite x) || system_err (o_err o) || (prec c =? 0) then [] else
  let d := o_dec o in
  if coeff x =? 0 then flag (is_finite d && (coeff d =? 0) && (exp d =? 0) && Bool.eqb (neg d) (neg x) && (o_extra o =? 0)) O_REDUCE else
  match s_res (spec_round_nz (prec c) (emin c) (emax c) (rounding c) (exact_of_dec x)) with
  | SInf ng => flag (form_eqb (form_of d) Infinite && Bool.eqb (neg d) ng) O_REDUCE
  | SFin ng m e =>
      (* representation after rounding: x itself when nothing had to be rounded *)
      let '(m0, e0) := if (ndigits (coeff x) <=? prec c) && (emin c - prec c + 1 <=? exp x) then (coeff x, exp x) else (m, e) in
      if m0 =? 0 then flag (is_finite d && (coeff d =? 0) && (exp d =? 0) && Bool.eqb (neg d) ng && (o_extra o =? 0)) O_REDUCE
      else flag (is_finite d && Bool.eqb (neg d) ng && value_eqb (coeff d) (exp d) m0 e0
                 && negb (coeff d mod 10 =? 0) && (o_extra o =? tz m0)) O_REDUCE
  end.

(* ====================================================================================== *)
(* C08: special operands                                                                   *)
From Apd Require Import Spec.Specials.

Definition O_SPECIAL := 40.
Definition O_QUANTIZE := 41.
Definition O_RTI := 42.
Definition O_CEILFLOOR := 43.
Definition O_QUOINT := 44.
Definition O_REM := 45.
Definition O_CMP := 46.
Definition O_TOTAL := 47.

Definition sop_of (o : op) : sop :=
  match o with
  | OAdd => SAdd | OSub => SSub | OMul => SMul | OQuo => SQuo | OQuoInteger => SQuoInteger | ORem => SRem
  | OAbs => SAbs | ONeg => SNeg | ORound => SRound | OReduce => SReduce | OQuantize => SQuantize
  | ORtiv | ORtie => SRti | OCeil | OFloor => SCeilFloor | OCmp => SCmp
  end.

Definition oracle_c08 (k : acase) (o : obs) : list Z :=
  if system_err (o_err o) then [] else
  match special_table (sop_of (a_op k)) (rounder_eqb (rounding (a_ctx k)) RFloor) (a_x k) (eff_y k) with
  | Some e => flag (expect_ok e (o_dec o) (o_cond o)) O_SPECIAL
  | None => []
  end.

(* the special-operand cells of the iterative functions: the table applied to the implementation's
   result, and the model's prologue compared with it (cells the prologue leaves to the iteration: nothing) *)
Inductive fop := FSqrt | FCbrt | FExp | FLn | FLog10 | FPow.
Definition sop_of_fop (f : fop) : sop :=
  match f with FSqrt => SSqrt | FCbrt => SCbrt | FExp => SExp | FLn => SLn | FLog10 => SLog10 | FPow => SPow end.

Definition oracle_c08_fn (f : fop) (c : ctx) (x y : dec) (o : obs) : list Z :=
  if system_err (o_err o) then [] else
  match special_table (sop_of_fop f) (rounder_eqb (rounding c) RFloor) x y with
  | Some e => flag (expect_ok e (o_dec o) (o_cond o)) O_SPECIAL
  | None => []
  end.

Definition model_prologue (f : fop) (c : ctx) (x y : dec) : res (option result) :=
  match f with
  | FSqrt => root_specials go_est c x 2
  | FCbrt => root_specials go_est c x 3
  | FLn | FLog10 => log_specials go_est c x
  | FExp => Ok (exp_specials c x)
  | FPow => pow_specials go_est c x y
  end.

Definition corr_prologue (f : fop) (c : ctx) (x y : dec) (o : obs) : list Z :=
  match model_prologue f c x y with
  | Ok (Some r) =>
      flag (err_eqb (rerr r) (o_err o)) K_ERR
      ++ (if system_err (rerr r) then []
          else flag (cond_eqb (rcond r) (o_cond o)) K_COND
               ++ match rdec r with
                  | Some d => flag (if is_finite d then dec_eqb d (o_dec o) else same_value d (o_dec o)) K_DEST_VALUE
                  | None => []
                  end)
  | Ok None => []
  | _ => [K_MODEL_PANIC]
  end.

(* ====================================================================================== *)
(* C09: Quantize / RoundToIntegral / Ceil / Floor                                          *)

Definition wf_case (k : acase) : bool :=
  wf_ctx (a_ctx k) && wf_dec (a_x k) && (negb (is_binary (a_op k)) || wf_dec (eff_y k)).

(* x / 10^e rounded to an integer: (integer, inexact) *)
Definition quantize_int (mode : rounder) (x : dec) (e : Z) : Z * bool :=
  let '(n1, d1) := scale_frac (coeff x) 1 (exp x - e) in
  (rndZ mode (neg x) n1 d1, negb (n1 mod d1 =? 0)).

Definition oracle_c09 (k : acase) (o : obs) : list Z :=
  let c := a_ctx k in
  let x := a_x k in
  let d := o_dec o in
  let f := o_cond o in
  (* Quantize to an exponent inside the limits that lies more than MaxExponent below the operand's: the property's
     "does not fit" case (NaN + InvalidOperation), not an exponent-limit error *)
  if wf_case k && is_finite x && (match a_op k with OQuantize => true | _ => false end)
     && (MinExponent <=? a_e k) && (a_e k <=? MaxExponent) && (exp x - a_e k >? MaxExponent) && negb (coeff x =? 0)
  then flag (form_eqb (form_of d) NaN && InvalidOperation f && negb (Underflow f) && negb (Overflow f)
             && negb (system_err (o_err o))) O_QUANTIZE else
  if negb (wf_case k) || negb (is_finite x) || system_err (o_err o) then [] else
  match a_op k with
  | OQuantize =>
      let e := a_e k in
      (* a target exponent beyond the package limits cannot be the exponent of a well-formed
         Decimal: the property does not say what happens there *)
      if (e <? MinExponent) || (e >? MaxExponent) then [] else
      (* more than MaxExponent (>= Precision) digits would have to be appended: a non-zero coefficient cannot fit
         (nothing that large is computed here); for a zero the limits leave the outcome open *)
      if (exp x - e >? MaxExponent) && negb (coeff x =? 0) then
        flag (form_eqb (form_of d) NaN && InvalidOperation f && negb (Underflow f) && negb (Overflow f)) O_QUANTIZE
      else
      (* a zero: coefficient 0, nothing lost, at any distance between the exponents (no power of ten is computed) *)
      let '(q, inex) := if coeff x =? 0 then (0, false) else quantize_int (rounding c) x e in
      (* Rounded: a digit - zero or not - of a non-zero coefficient was dropped *)
      let rounded := (exp x <? e) && negb (coeff x =? 0) in
      let invalid := (ndigits q >? prec c) || (e <? etiny c) || (e >? emax c)
                     || (negb (q =? 0) && (e + ndigits q - 1 >? emax c)) in
      if invalid then flag (form_eqb (form_of d) NaN && InvalidOperation f) O_QUANTIZE
      else flag (is_finite d && Bool.eqb (neg d) (neg x) && (coeff d =? q) && (exp d =? e)
                 && Bool.eqb (Inexact f) inex && Bool.eqb (Rounded f) rounded
                 && negb (Underflow f) && negb (Overflow f) && negb (InvalidOperation f)) O_QUANTIZE
  | ORtiv | ORtie =>
      let '(q, inex) := if coeff x =? 0 then (0, false) else quantize_int (rounding c) x 0 in
      if ndigits q - 1 >? emax c then [] else
      flag (is_finite d && Bool.eqb (neg d) (neg x) && value_eqb (coeff d) (exp d) q 0
            && (match a_op k with
                | ORtiv => negb (Inexact f) && negb (Rounded f)
                | _ => Bool.eqb (Inexact f) inex && Bool.eqb (Rounded f) ((exp x <? 0) && negb (coeff x =? 0))
                end)) O_RTI
  | OCeil | OFloor =>
      let mode := match a_op k with OCeil => RCeiling | _ => RFloor end in
      let '(q, _) := quantize_int mode x 0 in
      let '(t, _) := quantize_int RDown x 0 in
      if (negb (prec c =? 0) && (ndigits t >? prec c)) || (ndigits q - 1 >? emax c) then [] else
      flag (is_finite d && value_eqb (coeff d) (exp d) q 0
            && ((q =? 0) || Bool.eqb (neg d) (neg x))) O_CEILFLOOR
  | _ => []
  end.

(* ====================================================================================== *)
(* C10: QuoInteger / Rem                                                                   *)

Definition oracle_c10 (k : acase) (o : obs) : list Z :=
  let c := a_ctx k in
  let x := a_x k in
  let y := eff_y k in
  let d := o_dec o in
  let f := o_cond o in
  if negb (wf_case k) || negb (is_finite x && is_finite y) || (coeff y =? 0) || (prec c =? 0) then [] else
  let m := Z.min (exp x) (exp y) in
  if (Z.abs (exp x - exp y) >? MaxExponent) then flag (err_is_range (o_err o)) O_SYSLIMIT else
  if system_err (o_err o) then [O_SYSLIMIT] else
  let a := coeff x * 10 ^ (exp x - m) in
  let b := coeff y * 10 ^ (exp y - m) in
  let q := a / b in
  let r := a mod b in
  let impossible := ndigits q >? prec c in
  match a_op k with
  | OQuoInteger =>
      if impossible then flag (form_eqb (form_of d) NaN && DivisionImpossible f) O_QUOINT
      else flag (is_finite d && (coeff d =? q) && (exp d =? 0) && Bool.eqb (neg d) (xorb (neg x) (neg y))
                 && negb (DivisionImpossible f) && negb (Inexact f)) O_QUOINT
  | ORem =>
      if impossible then flag (form_eqb (form_of d) NaN && DivisionImpossible f) O_REM
      else if r =? 0 then flag (is_finite d && (coeff d =? 0) && Bool.eqb (neg d) (neg x) && negb (DivisionImpossible f) && negb (Inexact f)) O_REM
      else
        let s := spec_round_nz (prec c) (emin c) (emax c) (rounding c) (mkExact (neg x) r 1 m) in
        flag (matches d (s_res s) && negb (DivisionImpossible f) && Bool.eqb (Inexact f) (s_inexact s)) O_REM
  | _ => []
  end.

(* ====================================================================================== *)
(* C02 beyond Add/Sub/Mul/Quo/Round: the flags of Quantize, RoundToIntegralExact, QuoInteger, Rem and
   Reduce, recomputed from the exact result alone (values are C09's / C10's / C19's business) *)
Definition O_CONDFLAGS := 28.        (* InvalidOperation / DivisionImpossible raised or missing *)

Definition four_flags (f : cond) (s : sround) : list Z :=
  flag (Bool.eqb (Inexact f) (s_inexact s)) O_INEXACT
  ++ flag (Bool.eqb (Subnormal f) (s_subnormal s)) O_SUBNORMAL
  ++ flag (Bool.eqb (Underflow f) (s_subnormal s && s_inexact s)) O_UNDERFLOW
  ++ flag (Bool.eqb (Overflow f) (s_overflow s)) O_OVERFLOW.

Definition oracle_c02_ext (k : acase) (o : obs) : list Z :=
  let c := a_ctx k in
  let x := a_x k in
  let y := eff_y k in
  let f := o_cond o in
  if negb (wf_case k) || system_err (o_err o) || (prec c =? 0) || negb (is_finite x) then [] else
  match a_op k with
  | OQuantize =>
      let e := a_e k in
      if (e <? MinExponent) || (e >? MaxExponent) then [] else
      if exp x - e >? MaxExponent then
        (if coeff x =? 0 then [] else flag (InvalidOperation f && negb (Underflow f) && negb (Overflow f)) O_CONDFLAGS)
      else
      let '(q, inex) := quantize_int (rounding c) x e in
      let invalid := (ndigits q >? prec c) || (e <? etiny c) || (e >? emax c)
                     || (negb (q =? 0) && (e + ndigits q - 1 >? emax c)) in
      if invalid then flag (InvalidOperation f) O_CONDFLAGS
      else flag (Bool.eqb (Inexact f) inex) O_INEXACT ++ flag (negb (Underflow f)) O_UNDERFLOW
           ++ flag (negb (Overflow f)) O_OVERFLOW ++ flag (negb (InvalidOperation f)) O_CONDFLAGS
  | ORtie =>
      let '(q, inex) := quantize_int (rounding c) x 0 in
      if ndigits q - 1 >? emax c then [] else
      flag (Bool.eqb (Inexact f) inex) O_INEXACT ++ flag (negb (Underflow f)) O_UNDERFLOW
      ++ flag (negb (Overflow f)) O_OVERFLOW ++ flag (negb (InvalidOperation f)) O_CONDFLAGS
  | OQuoInteger | ORem =>
      if negb (is_finite y) || (coeff y =? 0) || (Z.abs (exp x - exp y) >? MaxExponent) then [] else
      let m := Z.min (exp x) (exp y) in
      let a := coeff x * 10 ^ (exp x - m) in
      let b := coeff y * 10 ^ (exp y - m) in
      let q := a / b in
      let r := a mod b in
      let impossible := ndigits q >? prec c in
      flag (Bool.eqb (DivisionImpossible f) impossible) O_CONDFLAGS
      ++ (if impossible then [] else
          match a_op k with
          | ORem => four_flags f (spec_flags (prec c) (emin c) (emax c) (rounding c) (mkExact (neg x) r 1 m))
          | _ => flag (negb (Inexact f || Subnormal f || Underflow f || Overflow f)) O_INEXACT
          end)
  | OReduce => four_flags f (spec_flags (prec c) (emin c) (emax c) (rounding c) (exact_of_dec x))
  | _ => []
  end.

(* ====================================================================================== *)
(* C15: exact comparison and the documented total order                                    *)

(* sign of a - b for non-NaN a, b; independent of Model.dcmp *)
Definition mag_cmp (c1 e1 c2 e2 : Z) : Z :=    (* compare c1*10^e1 with c2*10^e2, c1, c2 > 0 *)
  if Z.abs (e1 - e2) <=? 1000 then
    let m := Z.min e1 e2 in cmpZ (c1 * 10 ^ (e1 - m)) (c2 * 10 ^ (e2 - m))
  else
    let a1 := ndigits c1 + e1 in
    let a2 := ndigits c2 + e2 in
    if a1 <? a2 then -1 else if a1 >? a2 then 1 else
    let m := Z.min e1 e2 in cmpZ (c1 * 10 ^ (e1 - m)) (c2 * 10 ^ (e2 - m)).

Definition exact_cmp (a b : dec) : Z :=
  let sgn (d : dec) := if is_finite d && (coeff d =? 0) then 0 else if neg d then -1 else 1 in
  let sa := sgn a in
  let sb := sgn b in
  if sa <? sb then -1 else if sa >? sb then 1 else if sa =? 0 then 0 else
  let ia := form_eqb (form_of a) Infinite in
  let ib := form_eqb (form_of b) Infinite in
  if ia && ib then 0 else if ia then sa else if ib then - sa else
  sa * mag_cmp (coeff a) (exp a) (coeff b) (exp b).

Definition oracle_c15_ctx (k : acase) (o : obs) : list Z :=
  match a_op k with
  | OCmp =>
      let x := a_x k in
      let y := eff_y k in
      if is_nan x || is_nan y || negb (wf_dec x && wf_dec y) then [] else
      (* a comparison aligns nothing: there is no exponent limit to exceed between two well-formed decimals *)
      if system_err (o_err o) then [O_CMP] else
      let v := exact_cmp x y in
      flag (is_finite (o_dec o) && (exp (o_dec o) =? 0) && (coeff (o_dec o) =? Z.abs v)
            && ((v =? 0) || Bool.eqb (neg (o_dec o)) (v <? 0))) O_CMP
  | _ => []
  end.

(* rank of the documented total order *)
Definition total_rank (d : dec) : Z :=
  let r := match form_of d with Finite => 1 | Infinite => 2 | NaNSignaling => 3 | NaN => 4 end in
  if neg d then - r else r.
(* expected CmpTotal; None = unspecified by the documentation (NaN payload order) *)
Definition total_spec (a b : dec) : option Z :=
  let ra := total_rank a in
  let rb := total_rank b in
  if ra <? rb then Some (-1) else if ra >? rb then Some 1 else
  match form_of a with
  | Finite =>
      let v := if (coeff a =? 0) && (coeff b =? 0) then 0
               else if coeff a =? 0 then (if neg a then 1 else -1)
               else if coeff b =? 0 then (if neg a then -1 else 1)
               else (if neg a then -1 else 1) * mag_cmp (coeff a) (exp a) (coeff b) (exp b) in
      if negb (v =? 0) then Some v
      else Some ((if neg a then -1 else 1) * cmpZ (exp a) (exp b))
  | Infinite => Some 0
  | _ => None
  end.

Definition sgnZ (z : Z) : Z := if z <? 0 then -1 else if z >? 0 then 1 else 0.

(* one triple (a, b, c) with the implementation's answers *)
Definition judge_cmp (a b c : dec) (cab cbc cac tab tba tbc tac taa : Z) : list Z :=
  let wf := wf_dec a && wf_dec b && wf_dec c in
  let m (x y : dec) (v : Z) (f : dec -> dec -> res Z) := match f x y with Ok w => flag (w =? v) K_EXTRA | _ => [K_MODEL_PANIC] end in
  m a b cab dcmp ++ m b c cbc dcmp ++ m a c cac dcmp
  ++ m a b tab cmp_total ++ m b a tba cmp_total ++ m b c tbc cmp_total ++ m a c tac cmp_total ++ m a a taa cmp_total
  ++ (if negb wf then [] else
      let nn (x y : dec) (v : Z) := if is_nan x || is_nan y then [] else flag (v =? exact_cmp x y) O_CMP in
      nn a b cab ++ nn b c cbc ++ nn a c cac
      ++ (let ts (x y : dec) (v : Z) := match total_spec x y with Some w => flag (v =? w) O_TOTAL | None => [] end in
          ts a b tab ++ ts b a tba ++ ts b c tbc ++ ts a c tac)
      ++ flag (taa =? 0) O_TOTAL
      ++ flag (tab =? - tba) O_TOTAL
      ++ flag (negb ((tab <=? 0) && (tbc <=? 0)) || (tac <=? 0)) O_TOTAL
      ++ flag (negb ((tab <=? 0) && (tbc <=? 0) && ((tab <? 0) || (tbc <? 0))) || (tac <? 0)) O_TOTAL
      ++ flag (negb ((0 <=? tab) && (0 <=? tbc)) || (0 <=? tac)) O_TOTAL
      ++ flag (Bool.eqb (tab =? 0) (form_eqb (form_of a) (form_of b) && Bool.eqb (neg a) (neg b)
               && match form_of a with Finite => (coeff a =? coeff b) && (exp a =? exp b) | Infinite => true | _ => coeff a =? coeff b end)) O_TOTAL).
