(* The executable side of every check: runs the model on a case, compares the property's projection
   with what the implementation returned (correspondence), and applies the property's oracle to the
   implementation's own output.  Extracted to OCaml; failure codes are small integers listed in
   /verif/bin/check (CODES). *)
From Apd Require Import Generated.Consts Model.Base Model.NumDigits Model.Decimal Model.Context Spec.SpecZ.
Open Scope Z_scope.

Inductive op :=
| OAdd | OSub | OMul | OQuo | OQuoInteger | ORem | OAbs | ONeg | ORound | OReduce | OQuantize
| ORtiv | ORtie | OCeil | OFloor | OCmp.

Inductive alias := ANone | ADX | ADY | AXY | ADXY.

Record acase := mkCase { a_op : op; a_ctx : ctx; a_x : dec; a_y : dec; a_e : Z; a_alias : alias; a_dpre : dec }.
Record obs := mkObs { o_dec : dec; o_cond : cond; o_cond_raw : Z; o_err : err; o_extra : Z;
                      o_xpost : option dec; o_ypost : option dec; o_ctx_same : bool }.

Definition is_binary (o : op) : bool :=
  match o with OAdd | OSub | OMul | OQuo | OQuoInteger | ORem | OCmp => true | _ => false end.

(* operands as the call sees them under the alias pattern *)
Definition eff_y (k : acase) : dec := match a_alias k with AXY | ADXY => a_x k | _ => a_y k end.
(* the value held by the destination object before the call *)
Definition dest_before (k : acase) : dec :=
  match a_alias k with ANone | AXY => a_dpre k | ADX | ADXY => a_x k | ADY => a_y k end.

Definition run_model (k : acase) : res (result * Z) :=
  let c := a_ctx k in
  let x := a_x k in
  let y := eff_y k in
  let wrap (r : res result) := do v <- r; Ok (v, 0) in
  match a_op k with
  | OAdd => wrap (ctx_add c x y false)
  | OSub => wrap (ctx_add c x y true)
  | OMul => wrap (ctx_mul c x y)
  | OQuo => wrap (ctx_quo c x y)
  | OQuoInteger => wrap (ctx_quo_integer c x y)
  | ORem => wrap (ctx_rem c x y)
  | OAbs => wrap (ctx_abs c x)
  | ONeg => wrap (ctx_neg c x)
  | ORound => wrap (ctx_round_op c x)
  | OReduce => ctx_reduce c x
  | OQuantize => wrap (ctx_quantize c x (a_e k))
  | ORtiv => wrap (ctx_rti_value c x)
  | ORtie => wrap (ctx_rti_exact c x)
  | OCeil => wrap (ctx_ceil c x)
  | OFloor => wrap (ctx_floor c x)
  | OCmp => wrap (ctx_cmp c x y)
  end.

Definition err_eqb (a b : err) : bool :=
  match a, b with
  | ENone, ENone | EExponentOutOfRange, EExponentOutOfRange | EZeroPrecision, EZeroPrecision | EOther, EOther => true
  | ETrap s, ETrap t => cond_eqb s t
  | _, _ => false
  end.
Definition err_is_range (e : err) : bool := match e with EExponentOutOfRange => true | _ => false end.
Definition odec_eqb (a b : option dec) : bool :=
  match a, b with Some a, Some b => dec_eqb a b | None, None => true | _, _ => false end.

(* numeric projection of a decimal: form, sign, value (coefficient and exponent fields of NaN and
   Infinity are not part of the value) *)
Definition same_value (a b : dec) : bool :=
  form_eqb (form_of a) (form_of b) && Bool.eqb (neg a) (neg b)
  && (negb (form_eqb (form_of a) Finite) || value_eqb (coeff a) (exp a) (coeff b) (exp b)).

(* ---------- failure codes ---------- *)
Definition K_MODEL_PANIC := 1.       (* the model returned Panic / OutOfFuel *)
Definition K_ERR := 2.               (* error class differs from the model *)
Definition K_DEST_REPR := 3.         (* destination fields differ from the model *)
Definition K_DEST_VALUE := 4.        (* destination value (form, sign, number) differs from the model *)
Definition K_COND := 5.              (* Condition differs from the model *)
Definition K_EXTRA := 6.             (* extra integer result differs from the model *)
Definition K_OPERAND := 7.           (* an operand that is not the destination changed *)
Definition K_CTX := 8.               (* the Context value changed *)
Definition K_DEST_TOUCHED := 9.      (* destination written although the model leaves it alone *)
Definition O_ROUNDING := 20.         (* C01: result is not the exact result rounded once *)
Definition O_SYSLIMIT := 21.         (* exponent-limit error although no limit is exceeded *)
Definition O_INEXACT := 22.
Definition O_SUBNORMAL := 23.
Definition O_UNDERFLOW := 24.
Definition O_OVERFLOW := 25.
Definition O_IMPLIES := 26.          (* Inexact->Rounded, Overflow->Inexact, no stray bits *)
Definition O_FITS := 27.             (* C07 *)
Definition O_NUMDIGITS := 30.        (* C19 NumDigits differs from the exact digit count *)
Definition O_EST := 31.              (* float estimate outside the range the big-path theorem assumes *)
Definition O_REDUCE := 32.           (* C19 Reduce oracle *)

Definition flag (b : bool) (code : Z) : list Z := if b then [] else [code].

(* ---------- correspondence: model vs implementation, full projection ---------- *)
Definition system_err (e : err) : bool := match e with EExponentOutOfRange | EZeroPrecision | EOther => true | _ => false end.

Definition corr_full (k : acase) (o : obs) : list Z :=
  match run_model k with
  | Ok (r, extra) =>
      flag (err_eqb (rerr r) (o_err o)) K_ERR
      ++ (if system_err (rerr r) then []       (* on a system error the destination and flags are unspecified *)
          else flag (cond_eqb (rcond r) (o_cond o)) K_COND
               ++ match rdec r with
                  | Some d => flag (dec_eqb d (o_dec o)) K_DEST_REPR ++ flag (same_value d (o_dec o)) K_DEST_VALUE
                  | None => flag (dec_eqb (dest_before k) (o_dec o)) K_DEST_TOUCHED
                  end
               ++ flag (extra =? o_extra o) K_EXTRA)
      ++ flag (match o_xpost o with Some x' => dec_eqb x' (a_x k) | None => true end) K_OPERAND
      ++ flag (match o_ypost o with Some y' => dec_eqb y' (a_y k) | None => true end) K_OPERAND
      ++ flag (o_ctx_same o) K_CTX
  | _ => [K_MODEL_PANIC]
  end.

(* ---------- well-formedness as in the quantifier of C01 ---------- *)
Definition wf_dec (d : dec) : bool :=
  (0 <=? coeff d) && (MinExponent <=? exp d) && (exp d <=? MaxExponent)
  && (MinExponent <=? exp d + ndigits (coeff d) - 1) && (exp d + ndigits (coeff d) - 1 <=? MaxExponent).
Definition wf_ctx (c : ctx) : bool :=
  (0 <=? prec c) && (MinExponent <=? emin c) && (emin c <=? 0) && (0 <=? emax c) && (emax c <=? MaxExponent)
  && (prec c <=? emax c).

(* ---------- C01 / C02 / C07 oracle on the implementation's own output ---------- *)
(* the exact result and whether C01 speaks about this case at all *)
Definition exact_result (k : acase) : option exact :=
  let c := a_ctx k in
  let x := a_x k in
  let y := eff_y k in
  let fin2 := is_finite x && is_finite y in
  match a_op k with
  | OAdd => if fin2 then Some (exact_add x y false (rounder_eqb (rounding c) RFloor)) else None
  | OSub => if fin2 then Some (exact_add x y true (rounder_eqb (rounding c) RFloor)) else None
  | OMul => if fin2 then Some (exact_mul x y) else None
  | OQuo => if fin2 && negb (coeff y =? 0) then Some (exact_quo x y) else None
  | OAbs => if is_finite x then Some (mkExact false (coeff x) 1 (exp x)) else None
  | ONeg => if is_finite x then Some (mkExact (if coeff x =? 0 then false else negb (neg x)) (coeff x) 1 (exp x)) else None
  | ORound => if is_finite x then Some (exact_of_dec x) else None
  | _ => None
  end.

Definition adj_exact (x : exact) : Z := mag_frac (xnum x) (xden x) + xexp x - 1.

(* an exponent-limit error is legitimate only when some exponent really leaves +/-MaxExponent: the
   gap between the operands (Add/Sub), or the exponent or adjusted exponent of the exact result *)
Definition syslimit_excuse (k : acase) (x : exact) : bool :=
  let gap := Z.abs (exp (a_x k) - exp (eff_y k)) in
  (match a_op k with OAdd | OSub => gap >? MaxExponent | _ => false end)
  || (xexp x <? MinExponent) || (xexp x >? MaxExponent)
  || (negb (xnum x =? 0) && ((adj_exact x >? MaxExponent) || (adj_exact x <? MinExponent)
                             || (ndigits (xnum x) - prec (a_ctx k) >? MaxExponent))).

Definition oracle_c01 (k : acase) (o : obs) : list Z :=
  let c := a_ctx k in
  if negb (wf_ctx c && wf_dec (a_x k) && (negb (is_binary (a_op k)) || wf_dec (eff_y k))) then [] else
  match exact_result k with
  | None => []
  | Some x =>
    match o_err o with
    | EExponentOutOfRange => flag (syslimit_excuse k x) O_SYSLIMIT
    | EZeroPrecision | EOther => []
    | _ =>
      if prec c =? 0 then
        match a_op k with
        | OQuo => []
        | _ => if (xnum x =? 0) || ((emin c <=? adj_exact x) && (adj_exact x <=? emax c))
               then flag (matches (o_dec o) (spec_exact_p0 x)) O_ROUNDING else []
        end
      else if xnum x =? 0 then
        flag (is_finite (o_dec o) && (coeff (o_dec o) =? 0) && Bool.eqb (neg (o_dec o)) (xneg x)) O_ROUNDING
      else flag (matches (o_dec o) (s_res (spec_round_nz (prec c) (emin c) (emax c) (rounding c) x))) O_ROUNDING
    end
  end.

Definition oracle_c02_arith (k : acase) (o : obs) : list Z :=
  let c := a_ctx k in
  if negb (wf_ctx c && wf_dec (a_x k) && (negb (is_binary (a_op k)) || wf_dec (eff_y k))) then [] else
  let f := o_cond o in
  flag ((0 <=? o_cond_raw o) && (o_cond_raw o <? 4096)) O_IMPLIES
  ++ (if SystemOverflow f || SystemUnderflow f then flag (err_is_range (o_err o)) O_IMPLIES  (* a system limit is always an error; no result is described *)
      else flag (negb (Overflow f) || Inexact f) O_IMPLIES)
  ++ flag (negb (Inexact f && is_finite (o_dec o)) || Rounded f) O_IMPLIES
  ++ match exact_result k with
     | None => []
     | Some x =>
       if (prec c =? 0) || err_is_range (o_err o) || match o_err o with EZeroPrecision | EOther => true | _ => false end then [] else
       let s := spec_flags (prec c) (emin c) (emax c) (rounding c) x in
       flag (Bool.eqb (Inexact f) (s_inexact s)) O_INEXACT
       ++ flag (Bool.eqb (Subnormal f) (s_subnormal s)) O_SUBNORMAL
       ++ flag (Bool.eqb (Underflow f) (s_subnormal s && s_inexact s)) O_UNDERFLOW
       ++ flag (Bool.eqb (Overflow f) (s_overflow s)) O_OVERFLOW
     end.

Definition rounding_op (o : op) : bool :=
  match o with OAdd | OSub | OMul | OQuo | OAbs | ONeg | ORound | ORem | OReduce | OQuantize => true | _ => false end.

Definition oracle_c07 (k : acase) (o : obs) : list Z :=
  let c := a_ctx k in
  if negb (wf_ctx c && wf_dec (a_x k) && (negb (is_binary (a_op k)) || wf_dec (eff_y k))) then [] else
  if system_err (o_err o) then [] else
  if negb (is_finite (o_dec o)) then [] else
  match a_op k with
  | OQuoInteger => flag ((exp (o_dec o) =? 0) && (0 <=? coeff (o_dec o))
                         && ((prec c =? 0) || (ndigits (coeff (o_dec o)) <=? prec c))) O_FITS
  | _ => if rounding_op (a_op k) && negb (prec c =? 0) then flag (fits c (o_dec o)) O_FITS else []
  end.

(* ---------- C19 ---------- *)
Definition judge_numdigits (b n : Z) : list Z :=
  match num_digits b with
  | Ok m => flag (m =? n) K_EXTRA
  | _ => [K_MODEL_PANIC]
  end
  ++ flag (n =? ndigits b) O_NUMDIGITS
  ++ (let bl := bitlen b in if bl >? digitsTableSize then flag (est_ok (go_est bl) bl) O_EST else []).

Fixpoint trailing_zeros (fuel : nat) (c : Z) : Z :=
  match fuel with O => 0 | S f => if (c =? 0) || negb (c mod 10 =? 0) then 0 else 1 + trailing_zeros f (c / 10) end.
Definition tz (c : Z) : Z := trailing_zeros (S (Z.to_nat (bitlen c))) c.

(* Decimal.Reduce(x) returned (d, n) *)
Definition oracle_dec_reduce (x d : dec) (n : Z) : list Z :=
  if negb (is_finite x) then flag (same_value d x && (n =? 0)) O_REDUCE else
  if coeff x =? 0 then flag (is_finite d && (coeff d =? 0) && (exp d =? 0) && (n =? 0)) O_REDUCE else
  flag (is_finite d && Bool.eqb (neg d) (neg x) && value_eqb (coeff d) (exp d) (coeff x) (exp x)
        && negb (coeff d mod 10 =? 0) && (n =? tz (coeff x)) && (exp d =? exp x + n)) O_REDUCE.

Definition judge_dec_reduce (x dpre : dec) (aliased : bool) (d : dec) (n : Z) (xpost : option dec) : list Z :=
  match dreduce x with
  | Ok (dm, nm) => flag (dec_eqb dm d) K_DEST_REPR ++ flag (nm =? n) K_EXTRA
  | _ => [K_MODEL_PANIC]
  end
  ++ flag (match xpost with Some x' => dec_eqb x' x | None => true end) K_OPERAND
  ++ oracle_dec_reduce x d n.

(* Context.Reduce: the value is the once-rounded operand, stripped; zero keeps its sign; the count is
   that of the rounded representation *)
Definition oracle_ctx_reduce (k : acase) (o : obs) : list Z :=
  let c := a_ctx k in
  let x := a_x k in
  if negb (wf_ctx c && wf_dec x && is_finite x) || system_err (o_err o) || (prec c =? 0) then [] else
  let d := o_dec o in
  if coeff x =? 0 then flag (is_finite d && (coeff d =? 0) && (exp d =? 0) && Bool.eqb (neg d) (neg x) && (o_extra o =? 0)) O_REDUCE else
  match s_res (spec_round_nz (prec c) (emin c) (emax c) (rounding c) (exact_of_dec x)) with
  | SInf ng => flag (form_eqb (form_of d) Infinite && Bool.eqb (neg d) ng) O_REDUCE
  | SFin ng m e =>
      (* representation after rounding: x itself when nothing had to be rounded *)
      let '(m0, e0) := if (ndigits (coeff x) <=? prec c) && (emin c - prec c + 1 <=? exp x) then (coeff x, exp x) else (m, e) in
      if m0 =? 0 then flag (is_finite d && (coeff d =? 0) && (exp d =? 0) && Bool.eqb (neg d) ng && (o_extra o =? 0)) O_REDUCE
      else flag (is_finite d && Bool.eqb (neg d) ng && value_eqb (coeff d) (exp d) m0 e0
                 && negb (coeff d mod 10 =? 0) && (o_extra o =? tz m0)) O_REDUCE
  end.
