(* Correspondence of Context.Pow with its model (Model/Pow.v), given the float-derived inputs. *)
From Coq Require Import List.
From Apd Require Import Generated.Consts Model.Base Model.NumDigits Model.Decimal Model.Context Model.Roots Model.Pow Oracle.Judge.
Import ListNotations.
Open Scope Z_scope.

Definition corr_pow (t1 : list (Z * Z)) (cp n : Z) (a0 : dec) (exps : list (Z * Z)) (c : ctx) (x y : dec) (o : obs) : list Z :=
  match ctx_pow_with go_est t1 cp n a0 exps c x y with
  | Ok (Some r) =>
      flag (err_eqb (rerr r) (o_err o)) K_ERR
      ++ (if system_err (rerr r) then []
          else flag (cond_eqb (rcond r) (o_cond o)) K_COND
               ++ match rdec r with
                  | Some d => flag (if is_finite d then dec_eqb d (o_dec o) else same_value d (o_dec o)) K_DEST_REPR
                  | None => []
                  end)
  | Ok None => []
  | _ => [K_MODEL_PANIC]
  end.
Definition pow_modelled (t1 : list (Z * Z)) (cp n : Z) (a0 : dec) (exps : list (Z * Z)) (c : ctx) (x y : dec) : bool :=
  match ctx_pow_with go_est t1 cp n a0 exps c x y with Ok None => false | _ => true end.
