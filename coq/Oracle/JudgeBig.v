(* C16: BigInt method sequences: the implementation's representation and scalar results against the
   model (with the observed re-allocation as oracle bit) and against the math/big mirror. *)
From Coq Require Import List.
From Apd Require Import Generated.Consts Model.Base Model.BigInt.
Import ListNotations.
Open Scope Z_scope.

Definition O_BIG_MIRROR := 70.    (* value or scalar result differs from math/big *)
Definition O_BIG_INV := 71.       (* representation invariant broken (negative zero, word out of range) *)
Definition K_BIG_MODEL := 3.      (* representation differs from the model *)
Definition K_BIG_SCALAR := 6.     (* scalar result differs from the model *)
Definition K_BIG_PANIC := 1.

Record bscal := mkBscal { bs_sign : Z; bs_bitlen : Z; bs_isint64 : bool; bs_isuint64 : bool;
                          bs_int64 : option Z; bs_uint64 : option Z; bs_cmp : Z; bs_cmpabs : Z; bs_bit0 : Z }.

Definition bigint_eqb (a b : bigint) : bool :=
  match a, b with
  | BInline n1 a0 a1, BInline n2 b0 b1 => Bool.eqb n1 n2 && (a0 =? b0) && (a1 =? b1)
  | BHeap u, BHeap v => u =? v
  | _, _ => false
  end.
Definition oz_eqb (a b : option Z) : bool :=
  match a, b with Some x, Some y => x =? y | None, None => true | _, _ => false end.
Definition bscal_eqb (a b : bscal) : bool :=
  (bs_sign a =? bs_sign b) && (bs_bitlen a =? bs_bitlen b) && Bool.eqb (bs_isint64 a) (bs_isint64 b)
  && Bool.eqb (bs_isuint64 a) (bs_isuint64 b) && oz_eqb (bs_int64 a) (bs_int64 b) && oz_eqb (bs_uint64 a) (bs_uint64 b)
  && (bs_cmp a =? bs_cmp b) && (bs_cmpabs a =? bs_cmpabs b) && (bs_bit0 a =? bs_bit0 b).

(* the model's scalar results on the post-state (Int64/Uint64 only where math/big defines them) *)
Definition model_scal (z other : bigint) : bscal :=
  mkBscal (b_sign z) (b_bitlen z) (b_is_int64 z) (b_is_uint64 z)
          (if b_is_int64 z then Some (b_int64 z) else None) (if b_is_uint64 z then Some (b_uint64 z) else None)
          (b_cmp z other) (b_cmp_abs z other) (b_bit0 z).

Definition flagb (b : bool) (code : Z) : list Z := if b then [] else [code].

(* one step: returns the failure codes and the register file to continue with (the observed states) *)
Definition judge_bigstep (regs : list bigint) (s : option bstep) (d a : nat) (m : option nat)
    (od : bigint) (om : option bigint) (oscal : bscal) (mval : Z) (mmval : option Z) (mscal : bscal) (textok : bool)
    : list Z * list bigint :=
  let regs_obs := match m, om with
                  | Some mi, Some omv => set_nth (set_nth regs d od) mi omv
                  | _, _ => set_nth regs d od
                  end in
  let codes :=
    flagb ((bval od =? mval) && bscal_eqb oscal mscal && textok
           && match om, mmval with Some o, Some v => bval o =? v | None, None => true | _, _ => false end) O_BIG_MIRROR
    ++ flagb (binv od && match om with Some o => binv o | None => true end) O_BIG_INV
    ++ match s with
       | None => []
       | Some st =>
           match bstep_run regs st (negb (is_inline od)) (match om with Some o => negb (is_inline o) | None => false end) with
           | Some regs' =>
               flagb (bigint_eqb (breg regs' d) od
                      && match m, om with Some mi, Some o => bigint_eqb (breg regs' mi) o | _, _ => true end) K_BIG_MODEL
               ++ flagb (bscal_eqb (model_scal (breg regs' d) (breg regs' a)) oscal) K_BIG_SCALAR
           | None => [K_BIG_PANIC]
           end
       end in
  (codes, regs_obs).
