(* Model of Context.Sqrt (context.go): Hull-Abrham Newton iteration in decimal arithmetic, the final
   compare-squares correction (sqrtCorrect) and the handling of the exponent range.  No floating point is
   involved, so the model is compared with the implementation result for result.  No proofs here.

   ErrDecimal: every ed.Op is skipped once an error is held and the function returns (0, err) at its next
   check, so the first failing step ends the computation (value [EdErr e]). *)
From Apd Require Import Generated.Consts Model.Base Model.NumDigits Model.Decimal Model.Context.
Open Scope Z_scope.

Section WithEst.
Variable est : Z -> Z.
Local Notation num_digits := (num_digits_with est).
Local Notation ctx_round := (ctx_round est).
Local Notation ctx_add := (ctx_add est).
Local Notation ctx_mul := (ctx_mul est).
Local Notation ctx_quo := (ctx_quo est).
Local Notation dcmp := (dcmp est).

Definition base_ctx_r : ctx := mkCtx 0 MaxExponent MinExponent (cond_of_Z DefaultTraps) RDefault.

(* one ErrDecimal step: the Context operation; Some (value, flags) or the error that ends the computation *)
Inductive edres (A : Type) := EdOk (a : A) | EdErr (e : err).
Arguments EdOk {A}. Arguments EdErr {A}.
Definition ed_of (r : res result) : res (edres (dec * cond)) :=
  do v <- r;
  match rerr v, rdec v with
  | ENone, Some d => Ok (EdOk (d, rcond v))
  | ENone, None => Ok (EdErr EOther)
  | e, _ => Ok (EdErr e)
  end.
Definition edbind {A B} (r : res (edres A)) (f : A -> res (edres B)) : res (edres B) :=
  do v <- r; match v with EdOk a => f a | EdErr e => Ok (EdErr e) end.
Notation "'edo' x <- r ; k" := (edbind r (fun x => k)) (at level 200, x pattern, r at level 100, k at level 200).

(* the Newton loop of Sqrt: p doubles (minus 2) up to maxp; approx = 0.5 * (approx + f / approx) at precision p *)
Fixpoint sqrt_loop (fuel : nat) (c : ctx) (p maxp : Z) (f approx : dec) : res (edres dec) :=
  if p =? maxp then Ok (EdOk approx) else
  match fuel with
  | O => OutOfFuel
  | S fuel' =>
      let p1 := 2 * p - 2 in
      let p2 := if p1 >? maxp then maxp else p1 in
      let nc := mkCtx p2 (emax c) (emin c) (traps c) RHalfEven in
      edo (t1, _) <- ed_of (ctx_quo nc f approx);
      edo (t2, _) <- ed_of (ctx_add nc t1 approx false);
      edo (a2, _) <- ed_of (ctx_mul nc t2 d_half);
      sqrt_loop fuel' c p2 maxp f a2
  end.

(* sqrtLastDigitOdd *)
Definition last_digit_odd (d : dec) (e : Z) : bool := if exp d >? e then false else Z.odd (coeff d).

(* exact arithmetic of sqrtCorrect (BaseContext does not round) *)
Definition ex_add (x y : dec) (sub : bool) : res (edres dec) :=
  edo (d, _) <- ed_of (ctx_add base_ctx_r x y sub); Ok (EdOk d).
Definition ex_mul (x y : dec) : res (edres dec) :=
  edo (d, _) <- ed_of (ctx_mul base_ctx_r x y); Ok (EdOk d).

(* the correction loop: at most four steps; returns the corrected d *)
Fixpoint sqrt_fix (steps : nat) (p : Z) (d x : dec) : res (edres dec) :=
  match steps with
  | O => Ok (EdOk d)
  | S steps' =>
      do nd <- num_digits (coeff d);
      let ue := exp d - (p - nd) in
      let ulp := mkDec Finite false ue 1 in
      let half := mkDec Finite false (ue - 1) 5 in
      do t <- table_exp10 (nd - 1);
      let pow10 := coeff d =? t in
      let ulp_lo := if pow10 then mkDec Finite false (ue - 1) 1 else ulp in
      let half_lo := if pow10 then mkDec Finite false (ue - 2) 5 else half in
      edo lo <- ex_add d half_lo true;
      edo hi <- ex_add d half false;
      edo sqh <- ex_mul hi hi;
      do cmp_hi <- dcmp sqh x;
      edo sql <- ex_mul lo lo;
      do cmp_lo <- dcmp sql x;
      let d_odd := last_digit_odd d ue in
      if (cmp_hi <? 0) || ((cmp_hi =? 0) && d_odd) then
        edo d1 <- ex_add d ulp false; sqrt_fix steps' p d1 x
      else if (cmp_lo >? 0) || ((cmp_lo =? 0) && d_odd && negb pow10) then
        edo d1 <- ex_add d ulp_lo true; sqrt_fix steps' p d1 x
      else Ok (EdOk d)
  end.

Definition clear_inexact (f : cond) : cond :=
  mkCond (SystemOverflow f) (SystemUnderflow f) (Overflow f) (Underflow f) false (Subnormal f) (Rounded f)
         (DivisionUndefined f) (DivisionByZero f) (DivisionImpossible f) (InvalidOperation f) (Clamped f).

(* sqrtCorrect(nc, d, x, res): the corrected value and the flags *)
Definition sqrt_correct (nc : ctx) (d x : dec) (res0 : cond) : res (dec * cond) :=
  do r <- sqrt_fix 4 (prec nc) d x;
  match r with
  | EdErr _ => Ok (d, res0)            (* ed.Err() != nil: d as far as it got is not modelled; flagged by correspondence *)
  | EdOk d1 =>
      do (d2, f2) <- ctx_round nc d1;
      let res1 := res0 ||| f2 in
      do sq <- ex_mul d2 d2;
      match sq with
      | EdOk s => do cm <- dcmp s x;
                  if cm =? 0 then Ok (d2, clear_inexact res1) else Ok (d2, res1 ||| fInexact ||| fRounded)
      | EdErr _ => Ok (d2, res1 ||| fInexact ||| fRounded)
      end
  end.

(* Context.Sqrt *)
Definition ctx_sqrt (c : ctx) (x : dec) : res result :=
  do sp <- root_specials est c x 2;
  match sp with
  | Some r => Ok r
  | None =>
      do ndx <- num_digits (coeff x);
      let workp0 := prec c + 1 in
      let workp1 := if workp0 <? ndx then ndx else workp0 in
      let workp := if workp1 <? 7 then 7 else workp1 in
      let e0 := ndx + exp x in
      let even := Z.rem e0 2 =? 0 in
      let f := if even then set_exp x (- ndx) else set_exp x (- ndx - 1) in
      let e := if even then e0 else e0 + 1 in
      let nc := mkCtx workp (emax c) (emin c) (traps c) RHalfEven in
      let r :=
        (* first guess *)
        edo (a1, _) <- ed_of (ctx_mul nc (if even then mkDec Finite false (-3) 819 else mkDec Finite false (-2) 259) f);
        edo (a2, _) <- ed_of (ctx_add nc a1 (if even then mkDec Finite false (-3) 259 else mkDec Finite false (-4) 819) false);
        sqrt_loop (Z.to_nat (Z.log2 (workp + 5) + 4)) c 3 (workp + 5) f a2 in
      do rr <- r;
      match rr with
      | EdErr e1 => Ok (mkResult None c0 e1)
      | EdOk approx =>
          let d0 := set_exp approx (exp approx + Z.quot e 2) in
          let ncp := mkCtx (prec c) (emax c) (emin c) (traps c) RHalfEven in
          let uc := mkCtx (prec c) MaxExponent MinExponent (traps c) RHalfEven in
          do (t, tres) <- ctx_round uc d0;
          let fallback := do (d, f) <- ctx_round ncp d0; Ok (finish ncp d f) in
          if is_finite t && negb (is_zero t) && negb (Subnormal tres || Overflow tres || Clamped tres) then
            do (t1, tres1) <- sqrt_correct uc t x tres;
            do ndt <- num_digits (coeff t1);
            do nd0 <- num_digits (coeff d0);
            let adj := exp t1 + ndt - 1 in
            let adj_approx := exp d0 + nd0 - 1 in
            if (adj <=? emax c) && (adj >=? emin c) && (adj_approx >=? emin c)
            then Ok (finish ncp t1 tres1)
            else fallback
          else fallback
      end
  end.

(* ---------- Context.Cbrt ---------- *)
Definition dec3 (t : Z * Z * Z) : dec := let '(c, e, _) := t in mkDec Finite (c <? 0) e (Z.abs c).

(* the two range-reduction loops: multiply by 8 while z < 1/8, by 1/8 while z > 1 *)
Fixpoint cbrt_up (fuel : nat) (nc : ctx) (z : dec) (k : Z) : res (edres (dec * Z)) :=
  do cm <- dcmp z d_one_eighth;
  if cm <? 0 then
    match fuel with
    | O => OutOfFuel
    | S f => edo (z1, _) <- ed_of (ctx_mul nc z d_eight); cbrt_up f nc z1 (k - 1)
    end
  else Ok (EdOk (z, k)).
Fixpoint cbrt_down (fuel : nat) (nc : ctx) (z : dec) (k : Z) : res (edres (dec * Z)) :=
  do cm <- dcmp z d_one;
  if cm >? 0 then
    match fuel with
    | O => OutOfFuel
    | S f => edo (z1, _) <- ed_of (ctx_mul nc z d_one_eighth); cbrt_down f nc z1 (k + 1)
    end
  else Ok (EdOk (z, k)).
(* undo the reduction on the estimate: |k| multiplications by 1/2 or by 2 *)
Fixpoint cbrt_scale (n : nat) (nc : ctx) (z fac : dec) : res (edres dec) :=
  match n with
  | O => Ok (EdOk z)
  | S m => edo (z1, _) <- ed_of (ctx_mul nc z fac); cbrt_scale m nc z1 fac
  end.

(* loop.done: (done, new prevZ, new count) or an error *)
Definition loop_done (lc : ctx) (lprec maxit : Z) (prevz z : dec) (i : Z) : res (edres (bool * dec * Z)) :=
  edo (delta, _) <- ed_of (ctx_add lc prevz z true);
  let sg := dsign delta in
  if sg =? 0 then Ok (EdOk (true, prevz, i)) else
  let adelta := if sg <? 0 then dneg delta else delta in
  do ndz <- num_digits (coeff z);
  let eps := mkDec Finite false (- lprec + ndz + exp z) 1 in
  do cm <- dcmp adelta eps;
  if cm <=? 0 then Ok (EdOk (true, prevz, i)) else
  if i + 1 =? maxit then Ok (EdErr EOther) else Ok (EdOk (false, z, i + 1)).

(* the Newton loop: z = (2 z0 + ax / z0^2) / 3 *)
Fixpoint cbrt_newton (fuel : nat) (nc : ctx) (lprec maxit : Z) (ax z prevz : dec) (i : Z) : res (edres dec) :=
  match fuel with
  | O => OutOfFuel
  | S f =>
      let z0 := z in
      edo (a, _) <- ed_of (ctx_mul nc z z0);
      edo (b, _) <- ed_of (ctx_quo nc ax a);
      edo (c1, _) <- ed_of (ctx_add nc b z0 false);
      edo (c2, _) <- ed_of (ctx_add nc c1 z0 false);
      edo (z1, _) <- ed_of (ctx_quo nc c2 d_three);
      edo (dn, pz, i1) <- loop_done nc lprec maxit prevz z1 i;
      if (dn : bool) then Ok (EdOk z1) else cbrt_newton f nc lprec maxit ax z1 pz i1
  end.

Definition ex_cube (t : dec) : res (edres dec) := edo s <- ex_mul t t; ex_mul s t.

(* step towards the root while the neighbour is still on the far side of it: at most two steps *)
Fixpoint cbrt_step (steps : nat) (p et : Z) (d ax : dec) : res dec :=
  match steps with
  | O => Ok d
  | S m =>
      do nd <- num_digits (coeff d);
      let ue := exp d - (p - nd) in
      let ulp := mkDec Finite false (if ue <? et then et else ue) 1 in      (* a subnormal result: the unit is 10^Etiny *)
      do lo <- ex_add d ulp true;
      do clo <- match lo with EdOk nb => do cu <- ex_cube nb; match cu with EdOk cb => do cm <- dcmp cb ax; Ok (Some (nb, cm)) | EdErr _ => Ok None end | EdErr _ => Ok None end;
      match clo with
      | Some (nb, cm) => if cm >? 0 then cbrt_step m p et nb ax else
          do hi <- ex_add d ulp false;
          do chi <- match hi with EdOk nb2 => do cu <- ex_cube nb2; match cu with EdOk cb => do cm2 <- dcmp cb ax; Ok (Some (nb2, cm2)) | EdErr _ => Ok None end | EdErr _ => Ok None end;
          match chi with
          | Some (nb2, cm2) => if cm2 <? 0 then cbrt_step m p et nb2 ax else Ok d
          | None => Ok d
          end
      | None => Ok d       (* an exponent-limit error inside the exact arithmetic: not modelled further *)
      end
  end.

Definition ctx_cbrt (c : ctx) (x : dec) : res result :=
  do sp <- root_specials est c x 3;
  match sp with
  | Some r => Ok r
  | None =>
      let ax := dabs x in
      let ng := neg x in
      let nc := mkCtx (prec c * 2 + 2) MaxExponent MinExponent (cond_of_Z DefaultTraps) RDefault in
      do ndx <- num_digits (coeff x);
      let fuel := Z.to_nat (2 * Z.abs (exp x + ndx) + 16) in
      let r :=
        edo (z1, k1) <- cbrt_up fuel nc ax 0;
        edo (z2, k2) <- cbrt_down fuel nc z1 k1;
        let z0 := z2 in
        edo (p1, _) <- ed_of (ctx_mul nc z2 (dec3 strCbrtC1));
        edo (p2, _) <- ed_of (ctx_add nc p1 (dec3 strCbrtC2) false);
        edo (p3, _) <- ed_of (ctx_mul nc p2 z0);
        edo (p4, _) <- ed_of (ctx_add nc p3 (dec3 strCbrtC3) false);
        edo z3 <- (if k2 <? 0 then cbrt_scale (Z.to_nat (- k2)) nc p4 d_half else cbrt_scale (Z.to_nat k2) nc p4 d_two);
        cbrt_newton (Z.to_nat (prec c + 14)) nc (prec c + 1) (10 + (prec c + 1)) ax z3 (mkDec Finite false 0 0) 0 in
      do rr <- r;
      match rr with
      | EdErr e1 => Ok (mkResult None c0 e1)
      | EdOk z =>
          let hc := mkCtx (prec c) (emax c) (emin c) (traps c) RHalfEven in
          do (t, tres) <- ctx_round hc z;
          do exact_hit <-
            (if is_finite t && negb (Subnormal tres || Overflow tres || Clamped tres) then
               do cu <- ex_cube t;
               match cu with EdOk cb => do cm <- dcmp cb ax; Ok (cm =? 0) | EdErr _ => Ok false end
             else Ok false);
          if (exact_hit : bool) then Ok (mkResult (Some (set_neg t ng)) c0 ENone) else
          do (d, res0) <- ctx_round c z;
          do (d1, res1) <-
            (if is_finite d && negb (is_zero d) && negb (Overflow res0 || Clamped res0) then
               do d2 <- cbrt_step 2 (prec c) (etiny c) d ax;
               do (d3, f3) <- ctx_round c d2;
               Ok (d3, res0 ||| f3)
             else Ok (d, res0));
          Ok (mkResult (Some (set_neg d1 ng)) res1 (ctx_go_error c res1))
      end
  end.

End WithEst.
