(* Model of the text layer: format.go (Append, fmtE, fmtF, Format) and the parser of decimal.go
   (setString, consumePrefix, lowerASCII, isDigits).  Strings are lists of bytes (Z in 0..255).
   strconv.ParseInt(s, 10, 32), strconv.AppendInt and BigInt.Append/SetString (base 10) are modelled by
   their documented behaviour.  No proofs here. *)
From Coq Require Import List.
From Apd Require Import Generated.Consts Model.Base Model.NumDigits Model.Decimal Model.Context.
Import ListNotations.
Open Scope Z_scope.

Definition str := list Z.
Definition ch_minus := 45. Definition ch_plus := 43. Definition ch_dot := 46. Definition ch_0 := 48.
Definition ch_e := 101. Definition ch_E := 69. Definition ch_f := 102. Definition ch_g := 103. Definition ch_G := 71.
Definition ch_pct := 37.

Definition is_digit (b : Z) : bool := (48 <=? b) && (b <=? 57).
Fixpoint all_digits (s : str) : bool := match s with [] => true | b :: t => is_digit b && all_digits t end.
Definition is_digits (s : str) : bool := match s with [] => false | _ => all_digits s end.        (* isDigits *)

(* ---------- decimal digits of a non-negative integer: BigInt.Append(buf, 10) / strconv.AppendInt ---------- *)
Fixpoint digits_fuel (fuel : nat) (n : Z) (acc : str) : str :=
  match fuel with
  | O => acc
  | S f => let acc' := (48 + n mod 10) :: acc in if n <? 10 then acc' else digits_fuel f (n / 10) acc'
  end.
Definition digits_of (n : Z) : str := digits_fuel (S (Z.to_nat (Z.log2 n))) n [].     (* n >= 0 *)
Definition append_int (n : Z) : str := if n <? 0 then ch_minus :: digits_of (- n) else digits_of n.

(* value of a digit string *)
Definition digits_val (s : str) : Z := fold_left (fun acc b => acc * 10 + (b - 48)) s 0.

(* ---------- formatting ---------- *)
Definition s_NaN : str := [78; 97; 78].
Definition s_sNaN : str := [115; 78; 97; 78].
Definition s_Infinity : str := [73; 110; 102; 105; 110; 105; 116; 121].
Definition zeros (n : Z) : str := repeat ch_0 (Z.to_nat n).

(* fmtE(buf, fmt, d, digits) without the sign *)
Definition fmt_e (fmtc : Z) (e : Z) (digits : str) : str :=
  let adj := e + Z.of_nat (length digits) - 1 in
  match digits with
  | [] => []                                     (* digits[0] would panic; digits is never empty *)
  | d0 :: rest =>
      (d0 :: (match rest with [] => [] | _ => ch_dot :: rest end))
      ++ [fmtc] ++ (if adj <? 0 then ch_minus :: digits_of (- adj) else ch_plus :: digits_of adj)
  end.

(* fmtF(buf, d, digits) without the sign *)
Definition fmt_f (e : Z) (digits : str) : str :=
  if e <? 0 then
    let left := - e - Z.of_nat (length digits) in
    if left >=? 0 then [ch_0; ch_dot] ++ zeros left ++ digits
    else let off := Z.to_nat (- left) in firstn off digits ++ [ch_dot] ++ skipn off digits
  else digits ++ zeros e.

(* Decimal.Append(buf, fmtString) *)
Definition format_text (fmtc : Z) (d : dec) : str :=
  let sign := if neg d then [ch_minus] else [] in
  match form_of d with
  | NaN => sign ++ s_NaN
  | NaNSignaling => sign ++ s_sNaN
  | Infinite => sign ++ s_Infinity
  | Finite =>
      let digits := digits_of (coeff d) in
      if (fmtc =? ch_e) || (fmtc =? ch_E) then sign ++ fmt_e fmtc (exp d) digits
      else if fmtc =? ch_f then sign ++ fmt_f (exp d) digits
      else if (fmtc =? ch_g) || (fmtc =? ch_G) then
        let dl0 := Z.of_nat (length digits) in
        let dl := if (coeff d =? 0) && (exp d >=? lowestZeroNegativeCoefficientCockroach) && (exp d <? 0) then dl0 - exp d else dl0 in
        let adj := exp d + (dl - 1) in
        if (exp d <=? 0) && (adj >=? -6) then sign ++ fmt_f (exp d) digits
        else sign ++ fmt_e (fmtc + ch_e - ch_g) (exp d) digits
      else [ch_pct; fmtc]
  end.
Definition format_G (d : dec) : str := format_text ch_G d.     (* String, MarshalText, Value *)

(* Format: flags +, space, -, 0 and width; verb already mapped to a Text format (F -> f, v/s -> G) *)
Record fflags := mkFlags { fl_plus : bool; fl_space : bool; fl_minus : bool; fl_zero : bool; fl_width : option Z }.
Definition format_verb (fl : fflags) (fmtc : Z) (d : dec) : str :=
  let buf := format_text fmtc d in
  let '(sign, body) :=
    match buf with
    | b :: t => if b =? ch_minus then ([ch_minus], t)
                else if b =? ch_plus then ((if fl_space fl then [32] else [ch_plus]), t)
                else if fl_plus fl then ([ch_plus], buf)
                else if fl_space fl then ([32], buf) else ([], buf)
    | [] => ([], buf)
    end in
  let len := Z.of_nat (length sign + length body) in
  let padding := match fl_width fl with Some w => if w >? len then w - len else 0 | None => 0 end in
  if fl_zero fl && negb (fl_minus fl) && form_eqb (form_of d) Finite then sign ++ zeros padding ++ body
  else if fl_minus fl then sign ++ body ++ repeat 32 (Z.to_nat padding)
  else repeat 32 (Z.to_nat padding) ++ sign ++ body.

(* ---------- parsing ---------- *)
Definition lower_ascii (s : str) : str := map (fun b => if (65 <=? b) && (b <=? 90) then b + 32 else b) s.
Fixpoint has_prefix (s p : str) : bool :=
  match p, s with [], _ => true | _, [] => false | a :: p', b :: s' => (a =? b) && has_prefix s' p' end.
Definition consume_prefix (s p : str) : str * bool := if has_prefix s p then (skipn (length p) s, true) else (s, false).
Fixpoint index_byte (s : str) (b : Z) : option nat :=
  match s with [] => None | c :: t => if c =? b then Some O else option_map S (index_byte t b) end.
Fixpoint str_eqb (a b : str) : bool :=
  match a, b with [], [] => true | x :: a', y :: b' => (x =? y) && str_eqb a' b' | _, _ => false end.

Definition s_nan : str := [110; 97; 110].
Definition s_snan : str := [115; 110; 97; 110].
Definition s_inf : str := [105; 110; 102].
Definition s_infinity : str := [105; 110; 102; 105; 110; 105; 116; 121].

(* strconv.ParseInt(s, 10, 32): optional sign, at least one digit, digits only, value within int32 *)
Definition parse_int32 (s : str) : option Z :=
  let '(body, ng) := match s with
                     | b :: t => if b =? ch_minus then (t, true) else if b =? ch_plus then (t, false) else (s, false)
                     | [] => (s, false)
                     end in
  if negb (is_digits body) then None else
  let v := digits_val body in
  let sv := if ng then - v else v in
  if (- 2 ^ 31 <=? sv) && (sv <? 2 ^ 31) then Some sv else None.

(* d.setString up to (not including) setExponent: the parsed decimal, or None for a parse error *)
Definition set_string_raw (s0 : str) : option dec :=
  let '(s1, ng) := consume_prefix s0 [ch_minus] in
  let s2 := if ng then s1 else fst (consume_prefix s1 [ch_plus]) in
  let s := lower_ascii s2 in
  if has_prefix s [ch_minus] || has_prefix s [ch_plus] then None else
  if str_eqb s s_infinity || str_eqb s s_inf then Some (mkDec Infinite ng 0 0) else
  let '(sa, isnan) := consume_prefix s s_nan in
  let '(sb, issnan) := if isnan then (sa, false) else consume_prefix sa s_snan in
  if isnan || issnan then
    (match sb with
     | [] => Some (mkDec (if issnan then NaNSignaling else NaN) ng 0 0)
     | _ => if is_digits sb then Some (mkDec (if issnan then NaNSignaling else NaN) ng 0 0) else None
     end)
  else
  let ex :=
    match index_byte s ch_e with
    | Some i => match parse_int32 (skipn (S i) s) with Some e => Some (e, firstn i s) | None => None end
    | None => Some (0, s)
    end in
  match ex with
  | None => None
  | Some (e, m) =>
      let '(e2, m2) :=
        match index_byte m ch_dot with
        | Some i => (e - (Z.of_nat (length m) - Z.of_nat i - 1), firstn i m ++ skipn (S i) m)
        | None => (e, m)
        end in
      if negb (is_digits m2) then None else Some (mkDec Finite ng e2 (digits_val m2))
  end.

Section WithEst.
Variable est : Z -> Z.

Definition base_ctx : ctx := mkCtx 0 MaxExponent MinExponent (cond_of_Z DefaultTraps) RDefault.

(* Context.SetString: None = error return (nil Decimal) *)
Definition ctx_set_string (c : ctx) (s : str) : res (option (dec * cond * err)) :=
  match set_string_raw s with
  | None => Ok None
  | Some d =>
      if negb (is_finite d) then
        do (d2, f2) <- ctx_round est c d; Ok (Some (d2, f2, ctx_go_error c f2))
      else
      do (d1, f1) <- set_exponent est c d unknownNumDigits c0 [exp d];
      (* setExponent leaves d.Exponent = 0 (set before parsing) when it returns early; the error comes first *)
      match ctx_go_error c f1 with
      | ENone => do (d2, f2) <- ctx_round est c d1; Ok (Some (d2, f1 ||| f2, ctx_go_error c (f1 ||| f2)))
      | _ => Ok None
      end
  end.
(* NewFromString / Decimal.SetString / UnmarshalText / Scan *)
Definition new_from_string (s : str) : res (option (dec * cond * err)) := ctx_set_string base_ctx s.

End WithEst.
