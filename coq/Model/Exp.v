(* Model of Context.Exp (context.go; Hull-Abrham) and Context.integerPower.  Exp derives two integers from
   float64 arithmetic (math.Ceil, math.Log10): the working precision cp (stage 1) and the number of series terms n
   (stage 3).  They are INPUTS of the model (ctx_exp_with): the harness recomputes them with the same float64
   expressions and the model is compared with the implementation result for result on everything else - argument
   reduction, the early overflow/underflow and "result is 1" returns, the series under an ErrDecimal, 10^t by
   square-and-multiply with accumulated flags, the final rounding.  No proofs here. *)
From Coq Require Import List.
From Apd Require Import Generated.Consts Model.Base Model.NumDigits Model.Decimal Model.Context Model.Roots.
Import ListNotations.
Open Scope Z_scope.

Section WithEst.
Variable est : Z -> Z.
Local Notation num_digits := (num_digits_with est).
Local Notation ctx_round := (ctx_round est).
Local Notation ctx_add := (ctx_add est).
Local Notation ctx_mul := (ctx_mul est).
Local Notation ctx_quo := (ctx_quo est).
Local Notation dcmp := (dcmp est).

(* Condition.negateOverflowFlags *)
Definition negate_overflow (f : cond) : cond :=
  let f1 := if Overflow f
            then mkCond (SystemOverflow f) (SystemUnderflow f) false true (Inexact f) true (Rounded f)
                        (DivisionUndefined f) (DivisionByZero f) (DivisionImpossible f) (InvalidOperation f) (Clamped f)
            else f in
  if SystemOverflow f1
  then mkCond false true (Overflow f1) (Underflow f1) (Inexact f1) (Subnormal f1) (Rounded f1)
              (DivisionUndefined f1) (DivisionByZero f1) (DivisionImpossible f1) (InvalidOperation f1) (Clamped f1)
  else f1.

(* the Taylor series of stage 4: for i := n-1; i > 0; i-- { tmp1 = r / i; sum = tmp1 * sum; sum = sum + 1 } *)
Fixpoint exp_series (k : nat) (i : Z) (nc : ctx) (r sum : dec) : res (edres dec) :=
  match k with
  | O => Ok (EdOk _ sum)
  | S k' =>
      edbind (ed_of (ctx_quo nc r (mkDec Finite false 0 i))) (fun '(t1, _) =>
      edbind (ed_of (ctx_mul nc t1 sum)) (fun '(s1, _) =>
      edbind (ed_of (ctx_add nc s1 d_one false)) (fun '(s2, _) =>
      exp_series k' (i - 1) nc r s2)))
  end.

(* c.integerPower(d, x, y) for y > 0: exponentiation by squaring under an ErrDecimal; the flags of every step
   accumulate; the next square is computed only if it will be used *)
Fixpoint ipow (fuel : nat) (nc : ctx) (b : Z) (z n : dec) (fl : cond) : res (edres (dec * cond)) :=
  if b <=? 0 then Ok (EdOk _ (z, fl)) else
  match fuel with
  | O => OutOfFuel
  | S f =>
      edbind (if Z.odd b then ed_of (ctx_mul nc z n) else Ok (EdOk _ (z, c0))) (fun '(z1, f1) =>
      let b1 := b / 2 in
      edbind (if b1 >? 0 then ed_of (ctx_mul nc n n) else Ok (EdOk _ (n, c0))) (fun '(n1, f2) =>
      ipow f nc b1 z1 n1 (fl ||| f1 ||| f2)))
  end.

(* Context.Exp with the two float-derived integers given: cp = working precision after the stage-1 bump,
   n = number of terms (n < 0: "too many iterations" / Float64 failed) *)
Definition ctx_exp_with (cp n : Z) (c : ctx) (x : dec) : res result :=
  match exp_specials c x with
  | Some r => Ok r
  | None =>
      let res0 := fInexact ||| fRounded in
      let ax := dabs x in
      do big <- dcmp ax (mkDec Finite false 0 (cp * 23));
      if big >? 0 then
        (if dsign x <? 0
         then let f := negate_overflow (res0 ||| fOverflow) ||| fClamped in Ok (finish c (mkDec Finite false (etiny c) 0) f)
         else let f := res0 ||| fOverflow in Ok (finish c d_inf f))
      else
      do small <- dcmp ax (mkDec Finite false (- cp - 1) 9);
      if small <=? 0 then Ok (finish c d_one res0) else
      do ndx <- num_digits (coeff x);
      let t0 := exp x + ndx in
      let t := if t0 <? 0 then 0 else t0 in
      let r := set_exp x (exp x - t) in
      let p := cp + t + 2 in
      if n <? 0 then Ok (mkResult None c0 EOther) else
      let nc := mkCtx p (emax c) (emin c) (traps c) RHalfEven in
      do s <- exp_series (Z.to_nat (n - 1)) (n - 1) nc r d_one;
      match s with
      | EdErr _ e => Ok (mkResult None c0 e)
      | EdOk _ sum =>
          if (t >? MaxExponent) || (t <? MinExponent) then Ok (mkResult None c0 EExponentOutOfRange) else
          do ki <- table_exp10 t;
          do pw <- ipow (S (Z.to_nat (Z.log2 ki + 1))) nc ki d_one sum c0;
          match pw with
          | EdErr _ e => Ok (mkResult None c0 (match e with ETrap _ => EOther | e' => e' end))   (* fmt.Errorf("integer power: %w", err) *)
          | EdOk _ (d1, ires) =>
              let ncf := mkCtx (prec c) (emax c) (emin c) (traps c) RHalfEven in
              do (d2, f2) <- ctx_round ncf d1;
              Ok (finish c d2 (res0 ||| ires ||| f2))
          end
      end
  end.

End WithEst.
