(* Model of context.go (non-iterative operations): Add, Sub, Abs, Neg, Mul, Quo, QuoInteger, Rem,
   Quantize, RoundToIntegral*, Ceil, Floor, Reduce, Cmp, Round.  No proofs here. *)
From Apd Require Import Generated.Consts Model.Base Model.NumDigits Model.Decimal.
Open Scope Z_scope.

Section WithEst.
Variable est : Z -> Z.
Local Notation num_digits := (num_digits_with est).
Local Notation dcmp := (dcmp est).
Local Notation modf := (modf est).
Local Notation set_exponent := (set_exponent est).
Local Notation round_with := (round_with est).
Local Notation ctx_round := (ctx_round est).
Local Notation round_add_one := (round_add_one est).
Local Notation dreduce := (dreduce est).

(* what a Context method hands back: the destination (None = not written), the Condition, the error *)
Record result := mkResult { rdec : option dec; rcond : cond; rerr : err }.

(* Condition.GoError(traps) and Context.goError *)
Definition go_error (traps r : cond) : err :=
  if SystemOverflow r || SystemUnderflow r then EExponentOutOfRange
  else let t := cand r traps in if cond_any t then ETrap t else ENone.
Definition ctx_go_error (c : ctx) (flags : cond) : err :=
  if cond_any flags then go_error (traps c) flags else ENone.
Definition finish (c : ctx) (d : dec) (flags : cond) : result := mkResult (Some d) flags (ctx_go_error c flags).

(* shouldSetAsNaN / setAsNaN *)
Definition should_set_as_nan (x : dec) (y : option dec) : bool :=
  is_nan x || match y with Some y => is_nan y | None => false end.
Definition set_as_nan (c : ctx) (x : dec) (y : option dec) : result :=
  let pick :=
    if form_eqb (form_of x) NaNSignaling then Some x else
    match y with
    | Some y => if form_eqb (form_of y) NaNSignaling then Some y
                else if form_eqb (form_of x) NaN then Some x
                else if form_eqb (form_of y) NaN then Some y else None
    | None => if form_eqb (form_of x) NaN then Some x else None
    end in
  match pick with
  | None => mkResult None c0 EOther
  | Some n =>
      if form_eqb (form_of n) NaNSignaling
      then mkResult (Some (set_form n NaN)) fInvalidOperation (ctx_go_error c fInvalidOperation)
      else mkResult (Some n) c0 ENone
  end.

Definition ret (r : result) : res result := Ok r.

(* Context.add *)
Definition ctx_add (c : ctx) (x y : dec) (subtract : bool) : res result :=
  if should_set_as_nan x (Some y) then ret (set_as_nan c x (Some y)) else
  let xn := neg x in
  let yn := xorb (neg y) subtract in
  let xi := form_eqb (form_of x) Infinite in
  let yi := form_eqb (form_of y) Infinite in
  if xi || yi then
    if xi && yi && xorb xn yn then ret (finish c d_nan fInvalidOperation)
    else if xi then ret (mkResult (Some x) c0 ENone)
    else ret (mkResult (Some (set_neg d_inf yn)) c0 ENone)
  else
  do u <- upscale x y;
  match u with
  | None => ret (mkResult None c0 EExponentOutOfRange)
  | Some (a, b, s) =>
      let '(ng, co) :=
        if Bool.eqb xn yn then (xn, a + b)
        else let df := a - b in
             if df <? 0 then (negb xn, - df)
             else if df =? 0 then (rounder_eqb (rounding c) RFloor, df)
             else (xn, df) in
      do (d, f) <- ctx_round c (mkDec Finite ng s co);
      ret (finish c d f)
  end.

Definition ctx_abs (c : ctx) (x : dec) : res result :=
  if should_set_as_nan x None then ret (set_as_nan c x None) else
  do (d, f) <- ctx_round c (dabs x); ret (finish c d f).
Definition ctx_neg (c : ctx) (x : dec) : res result :=
  if should_set_as_nan x None then ret (set_as_nan c x None) else
  do (d, f) <- ctx_round c (dneg x); ret (finish c d f).
Definition ctx_round_op (c : ctx) (x : dec) : res result :=
  if should_set_as_nan x None then ret (set_as_nan c x None) else
  do (d, f) <- ctx_round c x; ret (finish c d f).

Definition ctx_mul (c : ctx) (x y : dec) : res result :=
  if should_set_as_nan x (Some y) then ret (set_as_nan c x (Some y)) else
  let ng := xorb (neg x) (neg y) in
  if form_eqb (form_of x) Infinite || form_eqb (form_of y) Infinite then
    if is_zero x || is_zero y then ret (finish c d_nan fInvalidOperation)
    else ret (mkResult (Some (set_neg d_inf ng)) c0 ENone)
  else
  do (d1, f1) <- set_exponent c (mkDec Finite ng 0 (coeff x * coeff y)) unknownNumDigits c0 [exp x; exp y];
  (* when setExponent returns early d.Exponent keeps the destination's old value; see Imp/ *)
  do (d2, f2) <- ctx_round c d1;
  ret (finish c d2 (f1 ||| f2)).

(* quoSpecials: Some r = handled *)
Definition quo_specials (c : ctx) (x y : dec) (can_clamp : bool) : option result :=
  if should_set_as_nan x (Some y) then Some (set_as_nan c x (Some y)) else
  let ng := xorb (neg x) (neg y) in
  let xi := form_eqb (form_of x) Infinite in
  let yi := form_eqb (form_of y) Infinite in
  if xi || yi then
    if xi && yi then Some (finish c d_nan fInvalidOperation)
    else if xi then Some (finish c (set_neg d_inf ng) c0)
    else if can_clamp then Some (finish c (mkDec Finite ng (etiny c) 0) fClamped)
    else Some (finish c (mkDec Finite ng 0 0) c0)
  else if is_zero y then
    if is_zero x then Some (finish c d_nan fDivisionUndefined)
    else Some (finish c (set_neg d_inf ng) fDivisionByZero)
  else if prec c =? 0 then Some (mkResult None c0 EZeroPrecision)
  else None.

Definition ctx_quo (c : ctx) (x y : dec) : res result :=
  match quo_specials c x y true with
  | Some r => ret r
  | None =>
    let ng := xorb (neg x) (neg y) in
    let shift := exp x - exp y in
    if is_zero x then
      do (d, f) <- set_exponent c (mkDec Finite ng 0 0) unknownNumDigits c0 [shift];
      ret (finish c d f)
    else
    let dividend := Z.abs (coeff x) in
    let divisor := Z.abs (coeff y) in
    do nd_dividend <- num_digits dividend;
    do nd_divisor <- num_digits divisor;
    let nd_diff := nd_dividend - nd_divisor in
    do (dividend1, divisor1) <-
      (if nd_diff <? 0 then do e <- table_exp10 (- nd_diff); Ok (dividend * e, divisor)
       else if nd_diff >? 0 then do e <- table_exp10 nd_diff; Ok (dividend, divisor * e)
       else Ok (dividend, divisor));
    let '(dividend2, adj_coeffs) :=
      if dividend1 <? divisor1 then (dividend1 * bigTen, - nd_diff + 1) else (dividend1, - nd_diff) in
    let adj_exp10 := prec c - 1 in
    do e <- table_exp10 adj_exp10;
    let dividend3 := dividend2 * e in
    if divisor1 =? 0 then Panic PDivByZero else
    let q := Z.quot dividend3 divisor1 in
    let rem := Z.rem dividend3 divisor1 in
    do nd <- num_digits q;
    do (q1, nd1, res1, shift1, adj_exp10_1) <-
      (if negb (rem =? 0) then
         let adj := shift + (- adj_coeffs) + (- adj_exp10) + nd - 1 in
         if adj >=? emin c then
           let half := cmpZ (rem * bigTwo) divisor1 in
           if should_add_one (rounding c) q ng half then
             do (q2, shift2) <- round_add_one q shift;
             Ok (q2, unknownNumDigits, fInexact ||| fRounded, shift2, adj_exp10)
           else Ok (q, nd, fInexact ||| fRounded, shift, adj_exp10)
         else Ok (q * bigTen + bigOne, nd + 1, c0, shift, adj_exp10 + 1)
       else Ok (q, nd, c0, shift, adj_exp10));
    do (d, f) <- set_exponent c (mkDec Finite ng 0 q1) nd1 res1 [shift1; - adj_coeffs; - adj_exp10_1];
    ret (finish c d (res1 ||| f))
  end.

Definition ctx_quo_integer (c : ctx) (x y : dec) : res result :=
  match quo_specials c x y false with
  | Some r => ret r
  | None =>
    let ng := xorb (neg x) (neg y) in
    do u <- upscale x y;
    match u with
    | None => ret (mkResult None c0 EExponentOutOfRange)
    | Some (a, b, _) =>
        if b =? 0 then Panic PDivByZero else
        let q := Z.quot a b in
        do nd <- num_digits q;
        if nd >? prec c then ret (finish c (mkDec NaN ng 0 0) fDivisionImpossible)
        else ret (finish c (mkDec Finite ng 0 q) c0)
    end
  end.

Definition ctx_rem (c : ctx) (x y : dec) : res result :=
  if should_set_as_nan x (Some y) then ret (set_as_nan c x (Some y)) else
  if negb (is_finite x) then ret (finish c d_nan fInvalidOperation) else
  if form_eqb (form_of y) Infinite then (do (d, f) <- ctx_round c x; ret (finish c d f)) else
  if is_zero y then
    if is_zero x then ret (finish c d_nan fDivisionUndefined)
    else ret (finish c d_nan fInvalidOperation)
  else
  do u <- upscale x y;
  match u with
  | None => ret (mkResult None c0 EExponentOutOfRange)
  | Some (a, b, s) =>
      if b =? 0 then Panic PDivByZero else
      let q := Z.quot a b in
      let r := Z.rem a b in
      do nd <- num_digits q;
      if nd >? prec c then ret (finish c d_nan fDivisionImpossible) else
      do (d, f) <- ctx_round c (mkDec Finite (neg x) s r);
      ret (finish c d f)
  end.

(* c.quantize(d, v, exp) *)
Definition quantize_inner (c : ctx) (v : dec) (e : Z) : res (dec * cond) :=
  let diff := e - exp v in
  let d := v in
  (* a zero has no digits to lose and needs no padding: only its exponent changes, no condition *)
  if is_zero d then Ok (set_exp d e, c0) else
  if diff <? 0 then
    if diff <? MinExponent then Ok (d, sys_under) else
    do p <- table_exp10 (- diff);
    Ok (set_exp (set_coeff d (coeff d * p)) e, c0)
  else if diff >? 0 then
    do nd <- num_digits (coeff d);
    let p := nd - diff in
    if p <? 0 then
      if negb (is_zero d) then
        let unit := if should_add_one (rounding c) 0 (neg d) (-1) then 1 else 0 in
        Ok (set_exp (set_coeff d unit) e, fInexact ||| fRounded)
      else Ok (set_exp d e, c0)
    else
      let nc := mkCtx p MaxExponent MinExponent (traps c) (rounding c) in
      do (d1, f) <- round_with (rounding nc) nc (set_exp d (- diff)) false;
      let d2 := if exp d1 >? 0 then set_coeff d1 (coeff d1 * bigTen) else d1 in
      Ok (set_exp d2 e, f)
  else Ok (set_exp d e, c0).

Definition ctx_quantize (c : ctx) (x : dec) (e : Z) : res result :=
  if should_set_as_nan x None then ret (set_as_nan c x None) else
  if form_eqb (form_of x) Infinite || (e <? etiny c) then ret (finish c d_nan fInvalidOperation) else
  do (d, f) <- quantize_inner c x e;
  do nd <- num_digits (coeff d);
  if (nd >? prec c) || (e >? emax c) then ret (finish c d_nan fInvalidOperation) else
  do (d1, f1) <- ctx_round c d;
  let f2 := f ||| f1 in
  if Overflow f2 || Underflow f2 then ret (finish c d_nan fInvalidOperation)
  else ret (finish c d1 f2).

Definition to_integral_specials (c : ctx) (x : dec) : option result :=
  if should_set_as_nan x None then Some (set_as_nan c x None) else
  if negb (is_finite x) then Some (mkResult (Some x) c0 ENone) else None.

Definition clear_inexact_rounded (f : cond) : cond :=
  mkCond (SystemOverflow f) (SystemUnderflow f) (Overflow f) (Underflow f) false (Subnormal f) false
         (DivisionUndefined f) (DivisionByZero f) (DivisionImpossible f) (InvalidOperation f) (Clamped f).

Definition ctx_rti_value (c : ctx) (x : dec) : res result :=
  match to_integral_specials c x with
  | Some r => ret r
  | None => do (d, f) <- quantize_inner c x 0; ret (finish c d (clear_inexact_rounded f))
  end.
Definition ctx_rti_exact (c : ctx) (x : dec) : res result :=
  match to_integral_specials c x with
  | Some r => ret r
  | None => do (d, f) <- quantize_inner c x 0; ret (finish c d f)
  end.

Definition ctx_ceil (c : ctx) (x : dec) : res result :=
  match to_integral_specials c x with
  | Some r => ret r
  | None =>
    do (integ, frac) <- modf x;
    if dsign frac >? 0 then ctx_add c integ d_one false else ret (mkResult (Some integ) c0 ENone)
  end.
Definition ctx_floor (c : ctx) (x : dec) : res result :=
  match to_integral_specials c x with
  | Some r => ret r
  | None =>
    do (integ, frac) <- modf x;
    if dsign frac <? 0 then ctx_add c integ d_one true else ret (mkResult (Some integ) c0 ENone)
  end.

(* Context.Reduce: also returns the count *)
Definition ctx_reduce (c : ctx) (x : dec) : res (result * Z) :=
  if should_set_as_nan x None then Ok (set_as_nan c x None, 0) else
  do (d, f) <- ctx_round c x;
  do (d1, n) <- dreduce d;
  Ok (finish c (set_neg d1 (neg d)) f, n).

(* Context.Cmp *)
Definition ctx_cmp (c : ctx) (x y : dec) : res result :=
  if should_set_as_nan x (Some y) then ret (set_as_nan c x (Some y)) else
  do v <- dcmp x y;
  ret (mkResult (Some (mkDec Finite (v <? 0) 0 (Z.abs v))) c0 ENone).

(* ---------- special-value prologues of the iterative functions ----------
   Sqrt, Cbrt (rootSpecials), Ln, Log10 (logSpecials), Exp and Pow decide every special-operand cell
   before their iteration starts.  [Some r]: the call returns r; [None]: the iteration runs (it is not
   modelled; its results are judged by the oracles of C11 / C12). *)

(* c.rootSpecials(d, x, factor) *)
Definition root_specials (c : ctx) (x : dec) (factor : Z) : res (option result) :=
  if should_set_as_nan x None then Ok (Some (set_as_nan c x None)) else
  if form_eqb (form_of x) Infinite then
    if neg x then Ok (Some (finish c d_nan fInvalidOperation))
    else Ok (Some (mkResult (Some d_inf) c0 ENone))
  else
  let s := dsign x in
  if (s =? -1) && (Z.rem factor 2 =? 0) then Ok (Some (finish c d_nan fInvalidOperation))
  else if s =? 0 then
    (* d.Set(x); d.Exponent /= factor; then the zero is rounded (clamped) into the context *)
    do (d, f) <- ctx_round c (set_exp x (Z.quot (exp x) factor));
    Ok (Some (finish c d f))
  else Ok None.

(* c.logSpecials(d, x) *)
Definition log_specials (c : ctx) (x : dec) : res (option result) :=
  if should_set_as_nan x None then Ok (Some (set_as_nan c x None)) else
  if dsign x <? 0 then Ok (Some (finish c d_nan fInvalidOperation)) else
  if form_eqb (form_of x) Infinite then Ok (Some (mkResult (Some d_inf) c0 ENone)) else
  do z <- dcmp x d_zero;
  if z =? 0 then Ok (Some (mkResult (Some (set_neg d_inf true)) c0 ENone)) else
  do o <- dcmp x d_one;
  if o =? 0 then Ok (Some (mkResult (Some d_zero) c0 ENone)) else Ok None.

(* the prologue of Context.Exp *)
Definition exp_specials (c : ctx) (x : dec) : option result :=
  if should_set_as_nan x None then Some (set_as_nan c x None) else
  if form_eqb (form_of x) Infinite then Some (mkResult (Some (if neg x then d_zero else d_inf)) c0 ENone) else
  if is_zero x then Some (mkResult (Some d_one) c0 ENone) else
  if prec c =? 0 then Some (mkResult None c0 EZeroPrecision) else None.

(* the prologue of Context.Pow, up to and including the test for a negative base with a fractional exponent *)
Definition pow_specials (c : ctx) (x y : dec) : res (option result) :=
  if should_set_as_nan x (Some y) then Ok (Some (set_as_nan c x (Some y))) else
  do (integ, frac) <- modf y;
  let y_is_int := is_zero frac in
  let ng := neg x && is_finite y && y_is_int && Z.odd (coeff integ) && (exp integ =? 0) in
  let xs := dsign x in
  let ys := dsign y in
  if form_eqb (form_of x) Infinite then
    if ys =? 0 then Ok (Some (finish c (set_neg d_one ng) c0))
    else if neg x && (form_eqb (form_of y) Infinite || negb y_is_int) then Ok (Some (finish c (set_neg d_nan ng) fInvalidOperation))
    else if neg y then Ok (Some (finish c (set_neg d_zero ng) c0))
    else Ok (Some (finish c (set_neg d_inf ng) c0))
  else if xs =? 0 then
    if ys =? 0 then Ok (Some (finish c (set_neg d_nan ng) fInvalidOperation))
    else if ys =? 1 then Ok (Some (finish c (set_neg d_zero ng) c0))
    else Ok (Some (finish c (set_neg d_inf ng) c0))
  else if ys =? 0 then Ok (Some (mkResult (Some d_one) c0 ENone))
  else if form_eqb (form_of y) Infinite then
    if xs <? 0 then Ok (Some (finish c d_nan fInvalidOperation)) else
    do o <- dcmp x d_one;
    if o =? -1 then Ok (Some (finish c (if neg y then d_inf else d_zero) c0))
    else if o =? 0 then Ok (Some (finish c d_one (fInexact ||| fRounded)))
    else Ok (Some (finish c (if neg y then d_zero else d_inf) c0))
  else if (xs <? 0) && negb y_is_int then Ok (Some (finish c d_nan fInvalidOperation))
  else Ok None.

End WithEst.
