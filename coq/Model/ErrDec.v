(* Model of error.go: ErrDecimal (sticky first error, accumulated flags, skip-after-error) over a small
   register file, so that method sequences can be run.  No proofs here. *)
From Apd Require Import Generated.Consts Model.Base Model.NumDigits Model.Decimal Model.Context.
Open Scope Z_scope.

Inductive edop := EAbs | EAdd | ECeil | EFloor | EMul | ENeg | EQuantize | EQuo | EQuoInteger | EReduce | ERem
                | ERound | ESub | ERtiv | ERtie.

(* one call: e.Op(regs[dst], regs[a], regs[b]) (b unused by unary methods; q = Quantize's exponent) *)
Record edstep := mkStep { s_op : edop; s_dst : nat; s_a : nat; s_b : nat; s_q : Z }.

Record edstate := mkEd { ed_regs : list dec; ed_flags : cond; ed_err : err }.

Section WithEst.
Variable est : Z -> Z.

Definition reg (s : edstate) (i : nat) : dec := nth i (ed_regs s) d_nan.
Fixpoint set_nth {A} (l : list A) (i : nat) (v : A) : list A :=
  match l, i with
  | [], _ => []
  | _ :: t, O => v :: t
  | h :: t, S j => h :: set_nth t j v
  end.

(* ErrDecimal.Err: the stored error, else the trap error of the accumulated flags (which is stored) *)
Definition ed_Err (c : ctx) (s : edstate) : edstate * err :=
  match ed_err s with
  | ENone => let e := ctx_go_error c (ed_flags s) in (mkEd (ed_regs s) (ed_flags s) e, e)
  | e => (s, e)
  end.

Definition ed_call (c : ctx) (st : edstep) (s : edstate) : res result :=
  let x := reg s (s_a st) in
  let y := reg s (s_b st) in
  match s_op st with
  | EAbs => ctx_abs est c x
  | EAdd => ctx_add est c x y false
  | ECeil => ctx_ceil est c x
  | EFloor => ctx_floor est c x
  | EMul => ctx_mul est c x y
  | ENeg => ctx_neg est c x
  | EQuantize => ctx_quantize est c x (s_q st)
  | EQuo => ctx_quo est c x y
  | EQuoInteger => ctx_quo_integer est c x y
  | EReduce => do v <- ctx_reduce est c x; Ok (fst v)
  | ERem => ctx_rem est c x y
  | ERound => ctx_round_op est c x
  | ESub => ctx_add est c x y true
  | ERtiv => ctx_rti_value est c x
  | ERtie => ctx_rti_exact est c x
  end.

(* every wrapper: if e.Err() != nil { return }; e.update(e.Ctx.Op(d, x, y)) *)
Definition ed_step (c : ctx) (s : edstate) (st : edstep) : res edstate :=
  let '(s1, e) := ed_Err c s in
  if negb (err_is_none e) then Ok s1 else
  do r <- ed_call c st s1;
  Ok (mkEd (match rdec r with Some d => set_nth (ed_regs s1) (s_dst st) d | None => ed_regs s1 end)
           (ed_flags s1 ||| rcond r) (rerr r)).

Fixpoint ed_run (c : ctx) (s : edstate) (p : list edstep) : res edstate :=
  match p with
  | [] => Ok s
  | st :: t => do s1 <- ed_step c s st; ed_run c s1 t
  end.

End WithEst.
