(* Model of decomposer.go: Decimal.Decompose and Decimal.Compose.  Byte slices are lists of Z in 0..255,
   big-endian, as math/big's Bytes / FillBytes / SetBytes produce and read them.  No proofs here. *)
From Coq Require Import List.
From Apd Require Import Generated.Consts Model.Base Model.NumDigits.
Import ListNotations.
Open Scope Z_scope.

(* big.Int.Bytes: minimal big-endian magnitude, empty for zero *)
Fixpoint bytes_fuel (fuel : nat) (n : Z) (acc : list Z) : list Z :=
  match fuel with
  | O => acc
  | S f => if n =? 0 then acc else bytes_fuel f (n / 256) ((n mod 256) :: acc)
  end.
Definition bytes_of (n : Z) : list Z := bytes_fuel (S (Z.to_nat (Z.log2 n))) n [].     (* n >= 0 *)
(* big.Int.SetBytes *)
Definition bytes_val (bs : list Z) : Z := fold_left (fun a b => a * 256 + b) bs 0.

(* d.Decompose(buf): (form, negative, coefficient, exponent); the coefficient is nil and the exponent 0 for the
   special forms; FillBytes into a caller buffer of sufficient capacity yields the same bytes as Bytes *)
Definition decompose (d : dec) : Z * bool * list Z * Z :=
  match form_of d with
  | Finite => (0, neg d, bytes_of (coeff d), exp d)
  | Infinite => (1, neg d, [], 0)
  | NaN | NaNSignaling => (2, neg d, [], 0)
  end.

(* d.Compose(form, negative, coefficient, exponent) on a destination holding [prev]: None = error (nothing
   written).  For the special forms only Form and Negative are assigned. *)
Definition compose (prev : dec) (form : Z) (ng : bool) (co : list Z) (e : Z) : option dec :=
  if form =? 0 then Some (mkDec Finite ng e (bytes_val co))
  else if form =? 1 then Some (mkDec Infinite ng (exp prev) (coeff prev))
  else if form =? 2 then Some (mkDec NaN ng (exp prev) (coeff prev))
  else None.

Definition compose_decompose (prev d : dec) : option dec :=
  let '(f, ng, co, e) := decompose d in compose prev f ng co e.
