(* Base types of the model of cockroachdb/apd.  No proofs in Model/ files. *)
From Coq Require Export ZArith List Bool.
Export ListNotations.
Open Scope Z_scope.

(* ---------- results: Go panics and fuel exhaustion are values ---------- *)
Inductive panic_reason :=
| PIndexOutOfRange   (* slice/array index out of range *)
| PNilDeref
| PNegativeCoeff     (* panic("unexpected negative") in roundAddOne *)
| PDivByZero         (* math/big division by zero *)
| PUnknownForm.      (* Decompose: unknown Form *)

Inductive res (A : Type) :=
| Ok (a : A)
| Panic (why : panic_reason)
| OutOfFuel.
Arguments Ok {A}. Arguments Panic {A}. Arguments OutOfFuel {A}.

Definition bind {A B} (r : res A) (f : A -> res B) : res B :=
  match r with Ok a => f a | Panic w => Panic w | OutOfFuel => OutOfFuel end.
Notation "'do' x <- r ; k" := (bind r (fun x => k)) (at level 200, x pattern, r at level 100, k at level 200).
Definition is_ok {A} (r : res A) : bool := match r with Ok _ => true | _ => false end.

(* ---------- forms, decimals ---------- *)
Inductive form := Finite | Infinite | NaNSignaling | NaN.
Definition form_eqb (a b : form) : bool :=
  match a, b with Finite, Finite | Infinite, Infinite | NaNSignaling, NaNSignaling | NaN, NaN => true | _, _ => false end.
(* position in Go's iota block (regenerated and compared in Generated/Layout.v) *)
Definition form_index (f : form) : Z :=
  match f with Finite => 0 | Infinite => 1 | NaNSignaling => 2 | NaN => 3 end.

Record dec := mkDec { form_of : form; neg : bool; exp : Z; coeff : Z }.

Definition dec_eqb (a b : dec) : bool :=
  form_eqb (form_of a) (form_of b) && Bool.eqb (neg a) (neg b) && (exp a =? exp b) && (coeff a =? coeff b).

(* ---------- rounding modes ---------- *)
Inductive rounder := RDown | RHalfUp | RHalfEven | RCeiling | RFloor | RHalfDown | RUp | R05Up
                   | RDefault. (* "" or any unknown string: behaves like half_up, is not RoundFloor *)
Definition rounder_eqb (a b : rounder) : bool :=
  match a, b with
  | RDown, RDown | RHalfUp, RHalfUp | RHalfEven, RHalfEven | RCeiling, RCeiling | RFloor, RFloor
  | RHalfDown, RHalfDown | RUp, RUp | R05Up, R05Up | RDefault, RDefault => true
  | _, _ => false end.

(* ---------- conditions: one boolean per documented flag ---------- *)
Record cond := mkCond {
  SystemOverflow : bool; SystemUnderflow : bool; Overflow : bool; Underflow : bool;
  Inexact : bool; Subnormal : bool; Rounded : bool; DivisionUndefined : bool;
  DivisionByZero : bool; DivisionImpossible : bool; InvalidOperation : bool; Clamped : bool }.

Definition c0 : cond := mkCond false false false false false false false false false false false false.
Definition cor (a b : cond) : cond :=
  mkCond (SystemOverflow a || SystemOverflow b) (SystemUnderflow a || SystemUnderflow b)
         (Overflow a || Overflow b) (Underflow a || Underflow b) (Inexact a || Inexact b)
         (Subnormal a || Subnormal b) (Rounded a || Rounded b)
         (DivisionUndefined a || DivisionUndefined b) (DivisionByZero a || DivisionByZero b)
         (DivisionImpossible a || DivisionImpossible b) (InvalidOperation a || InvalidOperation b)
         (Clamped a || Clamped b).
Definition cand (a b : cond) : cond :=
  mkCond (SystemOverflow a && SystemOverflow b) (SystemUnderflow a && SystemUnderflow b)
         (Overflow a && Overflow b) (Underflow a && Underflow b) (Inexact a && Inexact b)
         (Subnormal a && Subnormal b) (Rounded a && Rounded b)
         (DivisionUndefined a && DivisionUndefined b) (DivisionByZero a && DivisionByZero b)
         (DivisionImpossible a && DivisionImpossible b) (InvalidOperation a && InvalidOperation b)
         (Clamped a && Clamped b).
Definition cond_any (a : cond) : bool :=
  SystemOverflow a || SystemUnderflow a || Overflow a || Underflow a || Inexact a || Subnormal a
  || Rounded a || DivisionUndefined a || DivisionByZero a || DivisionImpossible a
  || InvalidOperation a || Clamped a.
Definition cond_eqb (a b : cond) : bool :=
  Bool.eqb (SystemOverflow a) (SystemOverflow b) && Bool.eqb (SystemUnderflow a) (SystemUnderflow b)
  && Bool.eqb (Overflow a) (Overflow b) && Bool.eqb (Underflow a) (Underflow b)
  && Bool.eqb (Inexact a) (Inexact b) && Bool.eqb (Subnormal a) (Subnormal b)
  && Bool.eqb (Rounded a) (Rounded b) && Bool.eqb (DivisionUndefined a) (DivisionUndefined b)
  && Bool.eqb (DivisionByZero a) (DivisionByZero b) && Bool.eqb (DivisionImpossible a) (DivisionImpossible b)
  && Bool.eqb (InvalidOperation a) (InvalidOperation b) && Bool.eqb (Clamped a) (Clamped b).
Infix "|||" := cor (at level 50, left associativity).

Definition fSystemOverflow := mkCond true false false false false false false false false false false false.
Definition fSystemUnderflow := mkCond false true false false false false false false false false false false.
Definition fOverflow := mkCond false false true false false false false false false false false false.
Definition fUnderflow := mkCond false false false true false false false false false false false false.
Definition fInexact := mkCond false false false false true false false false false false false false.
Definition fSubnormal := mkCond false false false false false true false false false false false false.
Definition fRounded := mkCond false false false false false false true false false false false false.
Definition fDivisionUndefined := mkCond false false false false false false false true false false false false.
Definition fDivisionByZero := mkCond false false false false false false false false true false false false.
Definition fDivisionImpossible := mkCond false false false false false false false false false true false false.
Definition fInvalidOperation := mkCond false false false false false false false false false false true false.
Definition fClamped := mkCond false false false false false false false false false false false true.

(* bit i of the Go Condition value; the order is Go's `1 << iota` block (checked against Generated/Layout.v) *)
Definition cond_bits (a : cond) : list bool :=
  [SystemOverflow a; SystemUnderflow a; Overflow a; Underflow a; Inexact a; Subnormal a; Rounded a;
   DivisionUndefined a; DivisionByZero a; DivisionImpossible a; InvalidOperation a; Clamped a].
Fixpoint bits_to_Z (l : list bool) : Z :=
  match l with [] => 0 | b :: t => (if b then 1 else 0) + 2 * bits_to_Z t end.
Definition cond_to_Z (a : cond) : Z := bits_to_Z (cond_bits a).
Definition cond_of_Z (z : Z) : cond :=
  mkCond (Z.testbit z 0) (Z.testbit z 1) (Z.testbit z 2) (Z.testbit z 3) (Z.testbit z 4) (Z.testbit z 5)
         (Z.testbit z 6) (Z.testbit z 7) (Z.testbit z 8) (Z.testbit z 9) (Z.testbit z 10) (Z.testbit z 11).

(* ---------- contexts ---------- *)
Record ctx := mkCtx { prec : Z; emax : Z; emin : Z; traps : cond; rounding : rounder }.
Definition with_prec (c : ctx) (p : Z) : ctx := mkCtx p (emax c) (emin c) (traps c) (rounding c).
Definition with_rounding (c : ctx) (r : rounder) : ctx := mkCtx (prec c) (emax c) (emin c) (traps c) r.
Definition with_traps (c : ctx) (t : cond) : ctx := mkCtx (prec c) (emax c) (emin c) t (rounding c).
Definition etiny (c : ctx) : Z := emin c - prec c + 1.

(* error classes of the Go `error` return *)
Inductive err :=
| ENone
| EExponentOutOfRange          (* errExponentOutOfRangeStr: system flags, upscale, exp10 *)
| ETrap (t : cond)             (* errors.New((flags & traps).String()) *)
| EZeroPrecision               (* errZeroPrecisionStr *)
| EOther.                      (* any other error text (parse errors, "did not converge", ...) *)
Definition err_is_none (e : err) : bool := match e with ENone => true | _ => false end.
