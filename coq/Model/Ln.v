(* Model of Context.Ln on the power-series path and of Context.Log10 on top of it (context.go).  Ln chooses between a
   power series (the operand, or its mantissa rescaled to [0.1, 1), within 0.2 of one) and Halley's iteration seeded
   by a float64 logarithm; the latter is NOT modelled: the model then returns None and the case is judged by C12's
   oracle only.  On the series path no floating point is involved and the model is compared with the implementation
   result for result.  No proofs here. *)
From Coq Require Import List.
From Apd Require Import Generated.Consts Model.Base Model.NumDigits Model.Decimal Model.Context Model.Roots.
Import ListNotations.
Open Scope Z_scope.

Section WithEst.
Variable est : Z -> Z.
(* const.go builds, for ln 10 and 1/ln 10, a table of the constant rounded to 1, 2, 4, ... digits while the package is
   being initialised.  The entries are INPUTS of the model: the harness reads them out of the running package (verif
   hook) and hands them over.  (They are not the half-up roundings the source asks for: the table is built before the
   package's digit tables exist and several entries come out one unit too large - 3 for ln 10 at one digit, 0.44 for
   1/ln 10 at two; with the two guard digits of Ln / Log10 this has no visible effect.) *)
Variables ln10_table invln10_table : list (Z * Z).
Local Notation num_digits := (num_digits_with est).
Local Notation ctx_round := (ctx_round est).
Local Notation ctx_add := (ctx_add est).
Local Notation ctx_mul := (ctx_mul est).
Local Notation ctx_quo := (ctx_quo est).
Local Notation dcmp := (dcmp est).

(* constWithPrecision.get(precision): entry i = ceil(log2 precision) of the table while 2^i is below the length of the
   constant's text; beyond the table the unrounded constant *)
Definition const_index (precision : Z) : Z :=
  let '(p1, i1) := if precision >? 1 then (precision - 1, 1) else (precision, 0) in
  (* while p >= 16 { p /= 16; i += 4 }; while p >= 2 { p /= 2; i++ }  =  i1 + floor(log2 p1) for p1 >= 1 *)
  if p1 <=? 0 then i1 else i1 + Z.log2 p1.
Definition const_get (k : Z * Z * Z) (table : list (Z * Z)) (precision : Z) : res dec :=
  let '(co, e, len) := k in
  let i := const_index precision in
  if 2 ^ i <? len then
    match nth_error table (Z.to_nat i) with
    | Some (c1, e1) => Ok (mkDec Finite false e1 c1)
    | None => Panic PIndexOutOfRange
    end
  else Ok (mkDec Finite false e co).

(* the series loop: for n := 1; ; n++ *)
Fixpoint ln_series (fuel : nat) (nc : ctx) (n : Z) (t1 t2 t3 eps : dec) : res (edres dec) :=
  match fuel with
  | O => OutOfFuel
  | S f =>
      edbind (ed_of (ctx_mul nc t3 t2)) (fun '(a, _) =>
      edbind (ed_of (ctx_mul nc a t2)) (fun '(t3', _) =>
      edbind (ed_of (ctx_quo nc t3' (mkDec Finite false 0 (2 * n + 1)))) (fun '(t4, _) =>
      edbind (ed_of (ctx_add nc t1 t4 false)) (fun '(t1', _) =>
      do cm <- dcmp (dabs t4) eps;
      if cm <=? 0 then Ok (EdOk _ t1') else ln_series f nc (n + 1) t1' t2 t3' eps))))
  end.

Definition d_two_ : dec := mkDec Finite false 0 2.

(* Some result: the call returns it; None: Halley's iteration (not modelled) *)
Definition ctx_ln_series (c : ctx) (x : dec) : res (option result) :=
  do sp <- log_specials est c x;
  match sp with
  | Some r => Ok (Some r)
  | None =>
      let p := prec c + 2 in
      let nc := mkCtx p (emax c) (emin c) (traps c) RHalfEven in
      let fifth := mkDec Finite false (-1) 2 in
      let err_result (e : err) := Ok (Some (mkResult None c0 e)) in
      let series (x1 adj : dec) : res (option result) :=
        let r :=
          edbind (ed_of (ctx_add nc x1 d_two_ false)) (fun '(t3, _) =>
          edbind (ed_of (ctx_quo nc x1 t3)) (fun '(t2, _) =>
          edbind (ed_of (ctx_add nc t2 t2 false)) (fun '(t3b, _) =>
          edbind (ln_series (Z.to_nat (p + 60)) nc 1 t3b t2 t3b (mkDec Finite false (- p) 1)) (fun t1 =>
          edbind (ed_of (ctx_add nc t1 adj false)) (fun '(t1f, _) => Ok (EdOk _ t1f)))))) in
        do rr <- r;
        match rr with
        | EdErr _ e => err_result e
        | EdOk _ v => do (d, f) <- ctx_round c v; Ok (Some (finish c d (f ||| fInexact)))
        end in
      (* An operation that fails under the ErrDecimal still delivers its value when the failure is a trapped
         condition; the path is then chosen from that value.  On the series path the held error is returned at the
         first iteration; on Halley's path loop.done is consulted before the held error: not modelled (None). *)
      do r1 <- ctx_add nc x d_one true;
      let v1 := match rdec r1 with Some v => v | None => mkDec Finite false 0 0 end in
      do cm <- dcmp (dabs v1) fifth;
      match rerr r1 with
      | ENone =>
          if cm <=? 0 then series v1 (mkDec Finite false 0 0) else
          do ndx <- num_digits (coeff x);
          let exp_delta := ndx + exp x in
          let z := set_exp x (exp x - exp_delta) in
          do ln10 <- const_get strLn10 ln10_table p;
          do m1 <- ed_of (ctx_mul nc (mkDec Finite (exp_delta <? 0) 0 (Z.abs exp_delta)) ln10);
          match m1 with
          | EdErr _ _ => Ok None            (* z - 1 is skipped, tmp1 keeps x - 1: Halley *)
          | EdOk _ (adj, _) =>
              do r2 <- ctx_add nc z d_one true;
              match rerr r2, rdec r2 with
              | ENone, Some v2 =>
                  do cm2 <- dcmp (dabs v2) fifth;
                  if cm2 <=? 0 then series v2 adj else Ok None
              | e, Some v2 =>
                  do cm2 <- dcmp (dabs v2) fifth;
                  if cm2 <=? 0 then err_result e else Ok None
              | _, None => Ok None
              end
          end
      | e => if cm <=? 0 then err_result e else Ok None
      end
  end.

(* Context.Log10 when the inner Ln takes the series path *)
Definition ctx_log10_series (c : ctx) (x : dec) : res (option result) :=
  do sp <- log_specials est c x;
  match sp with
  | Some r => Ok (Some r)
  | None =>
      let nc := mkCtx (prec c + 2) MaxExponent MinExponent (cond_of_Z DefaultTraps) RHalfEven in
      do l <- ctx_ln_series nc x;
      match l with
      | None => Ok None
      | Some lr =>
          match rerr lr, rdec lr with
          | ENone, Some z =>
              do k <- const_get strInvLn10 invln10_table (prec c + 2);
              let mc := mkCtx (prec c) (emax c) (emin c) c0 RHalfEven in
              do m <- ctx_mul mc z k;
              match rerr m, rdec m with
              | ENone, Some d => Ok (Some (finish c d (fInexact ||| rcond m)))
              | e, _ => Ok (Some (mkResult None c0 e))
              end
          | e, _ => Ok (Some (mkResult None c0 (match e with ETrap _ => EOther | e' => e' end)))   (* fmt.Errorf("ln: %w", err) *)
          end
      end
  end.
End WithEst.
