(* Model of the integer conversions and exact constructors of decimal.go (C17): Int64, SetInt64/New/
   SetFinite, NewWithBigInt.  No proofs here. *)
From Apd Require Import Generated.Consts Model.Base Model.NumDigits Model.Decimal Model.BigInt.
Open Scope Z_scope.

(* setCoefficient + SetFinite: through BigInt.SetInt64 and BigInt.Abs as written *)
Definition set_finite (x e : Z) : dec :=
  mkDec Finite (x <? 0) e (bval (b_abs b_zero (b_set_int64 x) false)).
Definition set_int64 (x : Z) : dec := set_finite x 0.
(* NewWithBigInt: Coeff.Set; if Sign() < 0 { Negative = true; Coeff.Abs } *)
Definition new_with_big_int (v e : Z) : dec := mkDec Finite (v <? 0) e (if v <? 0 then Z.abs v else v).

(* the loop  for i := 0; i < integ.Exponent; i++ { v *= 10 }  on int64 (wrapping) *)
Fixpoint mul10 (n : nat) (v : Z) : Z := match n with O => v | S k => mul10 k (wrap64s (v * 10)) end.

Section WithEst.
Variable est : Z -> Z.

(* Decimal.Int64: Some v, or None for every error return *)
Definition dint64 (d : dec) : res (option Z) :=
  if negb (is_finite d) then Ok None else
  do (integ, frac) <- modf est d;
  if negb (is_zero frac) then Ok None else
  do c1 <- dcmp est integ d_max_int64;
  if c1 >? 0 then Ok None else
  do c2 <- dcmp est integ d_min_int64;
  if c2 <? 0 then Ok None else
  let v := mul10 (Z.to_nat (exp integ)) (wrap64s (coeff integ)) in      (* BigInt.Int64: the low 64 bits *)
  Ok (Some (if neg d then wrap64s (- v) else v)).

End WithEst.
