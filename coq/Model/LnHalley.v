(* Model of Context.Ln on the path of Halley's iteration and of Context.Log10 on top of it (context.go), completing
   Model/Ln.v.  Two things in that path come out of float64 arithmetic and are INPUTS of the model: the initial estimate
   a0 = SetFloat64(math.Log(z.Float64())) and, for every call of Exp inside the iteration, the two integers Exp derives
   from floats (working precision and number of terms; see Model/Exp.v).  The harness recomputes them with the
   expressions of context.go.  Everything else - range reduction, the choice of the path, the iteration
   a' = a - 2 (e^a - z) / (e^a + z) in an ErrDecimal, loop.done, the adjustment by expDelta * ln 10, the final rounding -
   is computed by the model.  The model answers None where it does not follow the implementation: an operation failing with a system-limit error on the iterate itself, or a list of Exp
   inputs that is too short.  No proofs here. *)
From Coq Require Import List.
From Apd Require Import Generated.Consts Model.Base Model.NumDigits Model.Decimal Model.Context Model.Roots Model.Exp Model.Ln.
Import ListNotations.
Open Scope Z_scope.

Section WithEst.
Variable est : Z -> Z.
Variables ln10_table invln10_table : list (Z * Z).
Local Notation num_digits := (num_digits_with est).
Local Notation ctx_round := (ctx_round est).
Local Notation ctx_add := (ctx_add est).
Local Notation ctx_mul := (ctx_mul est).
Local Notation ctx_quo := (ctx_quo est).
Local Notation loop_done := (loop_done est).
Local Notation "'edo' x <- r ; k" := (edbind r (fun x => k)) (at level 200, x pattern, r at level 100, k at level 200).

(* one pass of the loop body up to (not including) the last subtraction: 2 (e^a - z) / (e^a + z) *)
Definition halley_term (cp n : Z) (nc : ctx) (z a : dec) : res (edres dec) :=
  edo (t2, _) <- ed_of (ctx_exp_with est cp n nc a);
  edo (t3, _) <- ed_of (ctx_add nc t2 z true);
  edo (t3b, _) <- ed_of (ctx_add nc t3 t3 false);
  edo (t4, _) <- ed_of (ctx_add nc t2 z false);
  edo (t2b, _) <- ed_of (ctx_quo nc t3b t4);
  Ok (EdOk _ t2b).

(* the loop: Some (EdOk _ a) - converged to a; Some (EdErr _ e) - the call returns the error e; None - not followed *)
Fixpoint ln_halley (fuel : nat) (nc : ctx) (lprec maxit : Z) (z : dec) (exps : list (Z * Z)) (a prevz : dec) (i : Z)
  : res (option (edres dec)) :=
  match fuel with
  | O => OutOfFuel
  | S f =>
      match exps with
      | [] => Ok None
      | (cp, n) :: rest =>
          (* the ErrDecimal holds e and skips what follows; loop.done is consulted first, then the held error is returned *)
          let held (e : err) (v : dec) : res (option (edres dec)) :=
            do ld <- loop_done nc lprec maxit prevz v i;
            match ld with EdErr _ e2 => Ok (Some (EdErr _ e2)) | EdOk _ _ => Ok (Some (EdErr _ e)) end in
          do pre <- halley_term cp n nc z a;
          match pre with
          | EdErr _ e => held e a
          | EdOk _ t =>
              do r <- ctx_add nc a t true;
              match rerr r, rdec r with
              | ENone, Some v =>
                  do ld <- loop_done nc lprec maxit prevz v i;
                  match ld with
                  | EdErr _ e2 => Ok (Some (EdErr _ e2))
                  | EdOk _ (dn, pz, i1) => if (dn : bool) then Ok (Some (EdOk _ v)) else ln_halley f nc lprec maxit z rest v pz i1
                  end
              | ENone, None => Ok None
              | e, Some v => held e v
              | _, None => Ok None
              end
          end
      end
  end.

Definition ctx_ln_full (a0 : dec) (exps : list (Z * Z)) (c : ctx) (x : dec) : res (option result) :=
  do s <- ctx_ln_series est ln10_table c x;
  match s with
  | Some r => Ok (Some r)
  | None =>
      let p := prec c + 2 in
      let nc := mkCtx p (emax c) (emin c) (traps c) RHalfEven in
      let err_result (e : err) := Ok (Some (mkResult None c0 e)) in
      let lprec := prec c + 1 in
      let maxit := 10 + (prec c + 1) in
      let zero := mkDec Finite false 0 0 in
      (* an error is already held when the iteration starts: every step is skipped, loop.done looks at the float
         estimate (and can fail itself), then the held error is returned *)
      let held_entry (e : err) : res (option result) :=
        do ld <- loop_done nc lprec maxit zero a0 0;
        match ld with EdErr _ e2 => err_result e2 | EdOk _ _ => err_result e end in
      do r1 <- ctx_add nc x d_one true;
      match rerr r1 with
      | ENone =>
          do ndx <- num_digits (coeff x);
          let exp_delta := ndx + exp x in
          let z := set_exp x (exp x - exp_delta) in
          do ln10 <- const_get strLn10 ln10_table p;
          do m1 <- ed_of (ctx_mul nc (mkDec Finite (exp_delta <? 0) 0 (Z.abs exp_delta)) ln10);
          match m1 with
          | EdErr _ e => held_entry e
          | EdOk _ (adj, _) =>
              do r2 <- ctx_add nc z d_one true;
              match rerr r2, rdec r2 with
              | ENone, _ =>
                  do h <- ln_halley (Z.to_nat (prec c + 14)) nc lprec maxit z exps a0 zero 0;
                  match h with
                  | None => Ok None
                  | Some (EdErr _ e) => err_result e
                  | Some (EdOk _ a) =>
                      do ra <- ed_of (ctx_add nc a adj false);
                      match ra with
                      | EdErr _ e => err_result e
                      | EdOk _ (v, _) => do (d, f) <- ctx_round c v; Ok (Some (finish c d (f ||| fInexact)))
                      end
                  end
              | e, Some _ => held_entry e
              | _, None => Ok None
              end
          end
      | e => held_entry e
      end
  end.

(* Context.Log10 over the full Ln *)
Definition ctx_log10_full (a0 : dec) (exps : list (Z * Z)) (c : ctx) (x : dec) : res (option result) :=
  do sp <- log_specials est c x;
  match sp with
  | Some r => Ok (Some r)
  | None =>
      let nc := mkCtx (prec c + 2) MaxExponent MinExponent (cond_of_Z DefaultTraps) RHalfEven in
      do l <- ctx_ln_full a0 exps nc x;
      match l with
      | None => Ok None
      | Some lr =>
          match rerr lr, rdec lr with
          | ENone, Some z =>
              do k <- const_get strInvLn10 invln10_table (prec c + 2);
              let mc := mkCtx (prec c) (emax c) (emin c) c0 RHalfEven in
              do m <- ctx_mul mc z k;
              match rerr m, rdec m with
              | ENone, Some d => Ok (Some (finish c d (fInexact ||| rcond m)))
              | e, _ => Ok (Some (mkResult None c0 e))
              end
          | e, _ => Ok (Some (mkResult None c0 (match e with ETrap _ => EOther | e' => e' end)))
          end
      end
  end.
End WithEst.
