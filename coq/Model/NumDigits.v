(* Model of table.go: digitsLookupTable, NumDigits, pow10LookupTable, tableExp10. *)
From Flocq Require Import Core.Zaux Core.Digits.
From Apd Require Import Generated.Consts Model.Base.
Open Scope Z_scope.

Definition radix10 : radix := Build_radix 10 eq_refl.

(* mathematical digit count used by the specification (not by the model of NumDigits) *)
Definition ndigits (b : Z) : Z := if b =? 0 then 1 else Zdigits radix10 b.

(* big.Int.BitLen *)
Definition bitlen (b : Z) : Z := if b =? 0 then 0 else Z.log2 (Z.abs b) + 1.

(* digitsLookupTable[i].digits = len((2^(i-1)).String()), border = 10^digits *)
Definition table_digits (i : Z) : Z := Zdigits radix10 (2 ^ (i - 1)).
Definition table_border (i : Z) : Z := 10 ^ table_digits i.

(* float64(a) / float64 constant b = bm * 2^be, rounded to nearest even to 53 bits; returns (M, E),
   value M * 2^E.  a > 0 and a < 2^53 so that float64(a) is exact. *)
Definition div_rn53 (a bm be : Z) : Z * Z :=
  let la := Z.log2 a in
  let lb := Z.log2 bm in
  let s := 54 + lb - la in
  let n := if 0 <=? s then a * 2 ^ s else a in
  let d := if 0 <=? s then bm else bm * 2 ^ (- s) in
  let q := n / d in
  let r := n mod d in
  let extra := Z.log2 q + 1 - 53 in
  let q1 := q / 2 ^ extra in
  let low := q mod 2 ^ extra in
  let half := 2 ^ (extra - 1) in
  let up := (low >? half) || ((low =? half) && (negb (r =? 0) || Z.odd q1)) in
  ((if up then q1 + 1 else q1), extra - s - be).

(* Go: n := int64(float64(bl) / digitsToBitsRatio) *)
Definition go_est (bl : Z) : Z :=
  let '(m, e) := div_rn53 bl ratio64_mant ratio64_exp in
  if 0 <=? e then m * 2 ^ e else m / 2 ^ (- e).

(* tableExp10: &pow10LookupTable[x] for x <= powerTenTableSize (negative index panics), else 10^x *)
Definition table_exp10 (x : Z) : res Z :=
  if x <=? powerTenTableSize then
    if x <? 0 then Panic PIndexOutOfRange else Ok (10 ^ x)
  else Ok (10 ^ x).

(* NumDigits(b) with the float estimate [est] of the big path made explicit *)
Definition num_digits_with (est : Z -> Z) (b : Z) : res Z :=
  let bl := bitlen b in
  if bl =? 0 then Ok 1 else
  if bl <=? digitsTableSize then
    let v := table_digits bl in
    if (bl <? digitsTableSize) && (table_digits (bl + 1) =? v) then Ok v
    else if (0 <? b) && (b <? table_border bl) then Ok v
    else if (b <? 0) && (b >? - table_border bl) then Ok v
    else Ok (v + 1)
  else
    let n := est bl in
    do e <- table_exp10 n;
    if Z.abs b >=? e then Ok (n + 1) else Ok n.

Definition num_digits (b : Z) : res Z := num_digits_with go_est b.

(* the range in which an estimate makes the big path exact *)
Definition est_ok (n bl : Z) : bool := (0 <=? n) && (10 ^ n <=? 5 * 2 ^ bl) && (2 ^ bl <=? 10 ^ (n + 1)).
