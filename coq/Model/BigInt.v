(* Model of bigint.go: the inline-array / heap representation of BigInt, the uint64 fast paths and the
   wrappers around math/big.  math/big itself is specified, not modelled: a big.Int is a Z and its
   methods are the Z functions below (Quo/Rem truncated, BitLen, Sqrt, Lsh, Rsh).  Whether math/big
   re-allocated the two-word inline array during a slow-path operation is an ORACLE BIT [r] (it must
   be true when the value needs more than 128 bits; math/big may also re-allocate for smaller
   results, e.g. when the receiver aliases an operand of Mul): the theorems hold for every choice.
   No proofs here. *)
From Coq Require Import List.
From Apd Require Import Generated.Consts Model.Base.
Import ListNotations.
Open Scope Z_scope.

Definition W64 : Z := 2 ^ 64.
Definition W128 : Z := 2 ^ 128.

(* _inner == nil / negSentinel with the two words of _inline, or a heap big.Int *)
Inductive bigint := BInline (ng : bool) (w0 w1 : Z) | BHeap (v : Z).

Definition b_zero : bigint := BInline false 0 0.     (* the zero value of the struct *)
Definition bval (b : bigint) : Z :=
  match b with BInline ng w0 w1 => let m := w0 + W64 * w1 in if ng then - m else m | BHeap v => v end.
(* representation invariant: words in range, an inline negative is non-zero *)
Definition binv (b : bigint) : bool :=
  match b with
  | BInline ng w0 w1 => (0 <=? w0) && (w0 <? W64) && (0 <=? w1) && (w1 <? W64) && (negb ng || negb ((w0 =? 0) && (w1 =? 0)))
  | BHeap _ => true
  end.
Definition is_inline (b : bigint) : bool := match b with BInline _ _ _ => true | _ => false end.

(* innerAsUint64 *)
Definition as_u64 (b : bigint) : option (Z * bool) :=
  match b with BInline ng w0 w1 => if w1 =? 0 then Some (w0, ng) else None | BHeap _ => None end.
(* updateInnerFromUint64 *)
Definition from_u64 (v : Z) (ng : bool) : bigint := BInline ng v 0.

(* updateInner after a slow-path operation produced the value v in z's big.Int *)
Definition upd (z : bigint) (v : Z) (r : bool) : bigint :=
  match z with
  | BHeap _ => BHeap v                                   (* z._inner == src: modified in place *)
  | BInline _ _ _ =>
      if r || (W128 <=? Z.abs v) then BHeap v
      else BInline (v <? 0) (Z.abs v mod W64) (Z.abs v / W64)
  end.

(* ---------- the inline fast paths (uint64 arithmetic with explicit wrap) ---------- *)
Definition add_inline (x y : Z) (xn yn : bool) : option (Z * bool) :=
  if Bool.eqb xn yn then
    let s := x + y in if s <? W64 then Some (s, xn) else None            (* bits.Add64 carry *)
  else
    let '(d, n) := if x <? y then (y - x, negb xn) else (x - y, xn) in  (* bits.Sub64 borrow *)
    Some (d, if d =? 0 then false else n).
Definition mul_inline (x y : Z) (xn yn : bool) : option (Z * bool) :=
  let p := x * y in
  let lo := p mod W64 in
  let hi := p / W64 in
  let n := if lo =? 0 then false else negb (Bool.eqb xn yn) in
  if hi =? 0 then Some (lo, n) else None.
Definition quo_inline (x y : Z) (xn yn : bool) : option (Z * bool) :=
  if y =? 0 then None else
  let q := x / y in Some (q, if q =? 0 then false else negb (Bool.eqb xn yn)).
Definition rem_inline (x y : Z) (xn yn : bool) : option (Z * bool) :=
  if y =? 0 then None else
  let m := x mod y in Some (m, if m =? 0 then false else xn).

(* ---------- math/big as Z ---------- *)
Definition z_bitlen (v : Z) : Z := if v =? 0 then 0 else Z.log2 (Z.abs v) + 1.
Definition z_cmp (a b : Z) : Z := match a ?= b with Lt => -1 | Eq => 0 | Gt => 1 end.
Definition wrap64s (v : Z) : Z := let m := v mod W64 in if m <? 2 ^ 63 then m else m - W64.   (* int64(uint64) *)

(* ---------- wrapper methods: z.Op(x, y) with the old values of all three ---------- *)
Definition fast2 (f : Z -> Z -> bool -> bool -> option (Z * bool)) (x y : bigint) : option (Z * bool) :=
  match as_u64 x, as_u64 y with
  | Some (xv, xn), Some (yv, yn) => f xv yv xn yn
  | _, _ => None
  end.

Definition b_add (z x y : bigint) (r : bool) : bigint :=
  match fast2 add_inline x y with Some (v, n) => from_u64 v n | None => upd z (bval x + bval y) r end.
Definition b_sub (z x y : bigint) (r : bool) : bigint :=
  match fast2 (fun xv yv xn yn => add_inline xv yv xn (negb yn)) x y with
  | Some (v, n) => from_u64 v n | None => upd z (bval x - bval y) r end.
Definition b_mul (z x y : bigint) (r : bool) : bigint :=
  match fast2 mul_inline x y with Some (v, n) => from_u64 v n | None => upd z (bval x * bval y) r end.
(* division by zero panics in math/big: None *)
Definition b_quo (z x y : bigint) (r : bool) : option bigint :=
  match fast2 quo_inline x y with
  | Some (v, n) => Some (from_u64 v n)
  | None => if bval y =? 0 then None else Some (upd z (Z.quot (bval x) (bval y)) r)
  end.
Definition b_rem (z x y : bigint) (r : bool) : option bigint :=
  match fast2 rem_inline x y with
  | Some (v, n) => Some (from_u64 v n)
  | None => if bval y =? 0 then None else Some (upd z (Z.rem (bval x) (bval y)) r)
  end.
(* QuoRem(x, y, r): quotient into z, remainder into rm; the two fast paths succeed together *)
Definition b_quorem (z rm x y : bigint) (r1 r2 : bool) : option (bigint * bigint) :=
  match fast2 quo_inline x y, fast2 rem_inline x y with
  | Some (qv, qn), Some (mv, mn) => Some (from_u64 qv qn, from_u64 mv mn)
  | _, _ => if bval y =? 0 then None
            else Some (upd z (Z.quot (bval x) (bval y)) r1, upd rm (Z.rem (bval x) (bval y)) r2)
  end.
Definition b_set (z x : bigint) (r : bool) : bigint :=
  match x with BInline _ _ _ => x | BHeap v => upd z v r end.
Definition b_abs (z x : bigint) (r : bool) : bigint :=
  match x with BInline _ w0 w1 => BInline false w0 w1 | BHeap v => upd z (Z.abs v) r end.
Definition b_neg (z x : bigint) (r : bool) : bigint :=
  match x with
  | BInline ng w0 w1 => BInline (if ng || ((w0 =? 0) && (w1 =? 0)) then false else true) w0 w1
  | BHeap v => upd z (- v) r
  end.
Definition b_set_int64 (v : Z) : bigint :=        (* v: an int64; -MinInt64 wraps to itself, uint64 of it is 2^63 *)
  if v <? 0 then from_u64 ((- v) mod W64) true else from_u64 v false.
Definition b_set_uint64 (v : Z) : bigint := from_u64 v false.
(* SetString of a decimal integer: strconv.ParseInt fast path, else math/big *)
Definition b_set_dec (z : bigint) (v : Z) (r : bool) : bigint :=
  if (- 2 ^ 63 <=? v) && (v <? 2 ^ 63) then b_set_int64 v else upd z v r.
Definition b_lsh (z x : bigint) (n : Z) (r : bool) : bigint := upd z (bval x * 2 ^ n) r.
Definition b_rsh (z x : bigint) (n : Z) (r : bool) : bigint := upd z (Z.shiftr (bval x) n) r.
Definition b_sqrt (z x : bigint) (r : bool) : bigint := upd z (Z.sqrt (bval x)) r.
Definition b_set_math (z : bigint) (v : Z) (r : bool) : bigint := upd z v r.

(* scalar results *)
Definition b_sign (z : bigint) : Z :=
  match z with
  | BInline false w0 w1 => if (w0 =? 0) && (w1 =? 0) then 0 else 1
  | BInline true _ _ => -1
  | BHeap v => Z.sgn v
  end.
Definition b_cmp (z y : bigint) : Z :=
  match as_u64 z, as_u64 y with
  | Some (zv, zn), Some (yv, yn) =>
      if Bool.eqb zn yn then let c := z_cmp zv yv in if zn then - c else c
      else if zn then -1 else 1
  | _, _ => z_cmp (bval z) (bval y)
  end.
Definition b_cmp_abs (z y : bigint) : Z :=
  match as_u64 z, as_u64 y with
  | Some (zv, _), Some (yv, _) => z_cmp zv yv
  | _, _ => z_cmp (Z.abs (bval z)) (Z.abs (bval y))
  end.
Definition b_bitlen (z : bigint) : Z :=
  match z with
  | BInline _ w0 w1 => if negb (w1 =? 0) then 64 + (Z.log2 w1 + 1) else if negb (w0 =? 0) then Z.log2 w0 + 1 else 0
  | BHeap v => z_bitlen v
  end.
Definition b_is_int64 (z : bigint) : bool :=
  match as_u64 z with
  | Some (v, n) => let zi := wrap64s v in (0 <=? zi) || (n && (zi =? wrap64s (- zi)))
  | None => (- 2 ^ 63 <=? bval z) && (bval z <? 2 ^ 63)
  end.
Definition b_is_uint64 (z : bigint) : bool :=
  match as_u64 z with
  | Some (_, n) => negb n
  | None => (0 <=? bval z) && (bval z <? W64)
  end.
(* Int64/Uint64: defined by math/big only when the value fits; modelled as the wrapped low 64 bits *)
Definition b_int64 (z : bigint) : Z :=
  match as_u64 z with
  | Some (v, n) => let zi := wrap64s v in if n then wrap64s (- zi) else zi
  | None => let lo := wrap64s (Z.abs (bval z)) in if bval z <? 0 then wrap64s (- lo) else lo
  end.
Definition b_uint64 (z : bigint) : Z :=
  match as_u64 z with Some (v, _) => v | None => Z.abs (bval z) mod W64 end.
Definition b_bit0 (z : bigint) : Z :=
  match z with BInline _ w0 _ => w0 mod 2 | BHeap v => Z.abs v mod 2 end.   (* Bit(0) of the magnitude, as math/big for v >= 0 *)

(* ---------- method sequences over a register file ---------- *)
Inductive bstep :=
| BsSetInt64 (d : nat) (v : Z) | BsSetUint64 (d : nat) (v : Z) | BsSetDec (d : nat) (v : Z) | BsSetMath (d : nat) (v : Z)
| BsSet (d a : nat) | BsAbs (d a : nat) | BsNeg (d a : nat)
| BsAdd (d a b : nat) | BsSub (d a b : nat) | BsMul (d a b : nat) | BsQuo (d a b : nat) | BsRem (d a b : nat)
| BsQuoRem (d m a b : nat) | BsLsh (d a : nat) (n : Z) | BsRsh (d a : nat) (n : Z) | BsSqrt (d a : nat).

Fixpoint set_nth {A} (l : list A) (i : nat) (v : A) : list A :=
  match l, i with [], _ => [] | _ :: t, O => v :: t | h :: t, S j => h :: set_nth t j v end.

Definition breg (rs : list bigint) (i : nat) : bigint := nth i rs b_zero.
Definition zreg (rs : list Z) (i : nat) : Z := nth i rs 0.

(* one call on the representation (with its oracle bits r, r') and on the abstract values;
   None = math/big panics (division by zero) *)
Definition bstep_run (rs : list bigint) (s : bstep) (r r' : bool) : option (list bigint) :=
  match s with
  | BsSetInt64 d v => Some (set_nth rs d (b_set_int64 v))
  | BsSetUint64 d v => Some (set_nth rs d (b_set_uint64 v))
  | BsSetDec d v => Some (set_nth rs d (b_set_dec (breg rs d) v r))
  | BsSetMath d v => Some (set_nth rs d (b_set_math (breg rs d) v r))
  | BsSet d a => Some (set_nth rs d (b_set (breg rs d) (breg rs a) r))
  | BsAbs d a => Some (set_nth rs d (b_abs (breg rs d) (breg rs a) r))
  | BsNeg d a => Some (set_nth rs d (b_neg (breg rs d) (breg rs a) r))
  | BsAdd d a b => Some (set_nth rs d (b_add (breg rs d) (breg rs a) (breg rs b) r))
  | BsSub d a b => Some (set_nth rs d (b_sub (breg rs d) (breg rs a) (breg rs b) r))
  | BsMul d a b => Some (set_nth rs d (b_mul (breg rs d) (breg rs a) (breg rs b) r))
  | BsQuo d a b => match b_quo (breg rs d) (breg rs a) (breg rs b) r with Some q => Some (set_nth rs d q) | None => None end
  | BsRem d a b => match b_rem (breg rs d) (breg rs a) (breg rs b) r with Some q => Some (set_nth rs d q) | None => None end
  | BsQuoRem d m a b =>
      match b_quorem (breg rs d) (breg rs m) (breg rs a) (breg rs b) r r' with
      | Some (q, mm) => Some (set_nth (set_nth rs d q) m mm)        (* r.updateInner comes last *)
      | None => None
      end
  | BsLsh d a n => Some (set_nth rs d (b_lsh (breg rs d) (breg rs a) n r))
  | BsRsh d a n => Some (set_nth rs d (b_rsh (breg rs d) (breg rs a) n r))
  | BsSqrt d a => Some (set_nth rs d (b_sqrt (breg rs d) (breg rs a) r))
  end.

Definition zstep_run (rs : list Z) (s : bstep) : option (list Z) :=
  match s with
  | BsSetInt64 d v | BsSetUint64 d v | BsSetDec d v | BsSetMath d v => Some (set_nth rs d v)
  | BsSet d a => Some (set_nth rs d (zreg rs a))
  | BsAbs d a => Some (set_nth rs d (Z.abs (zreg rs a)))
  | BsNeg d a => Some (set_nth rs d (- zreg rs a))
  | BsAdd d a b => Some (set_nth rs d (zreg rs a + zreg rs b))
  | BsSub d a b => Some (set_nth rs d (zreg rs a - zreg rs b))
  | BsMul d a b => Some (set_nth rs d (zreg rs a * zreg rs b))
  | BsQuo d a b => if zreg rs b =? 0 then None else Some (set_nth rs d (Z.quot (zreg rs a) (zreg rs b)))
  | BsRem d a b => if zreg rs b =? 0 then None else Some (set_nth rs d (Z.rem (zreg rs a) (zreg rs b)))
  | BsQuoRem d m a b => if zreg rs b =? 0 then None
                       else Some (set_nth (set_nth rs d (Z.quot (zreg rs a) (zreg rs b))) m (Z.rem (zreg rs a) (zreg rs b)))
  | BsLsh d a n => Some (set_nth rs d (zreg rs a * 2 ^ n))
  | BsRsh d a n => Some (set_nth rs d (Z.shiftr (zreg rs a) n))
  | BsSqrt d a => Some (set_nth rs d (Z.sqrt (zreg rs a)))
  end.

Definition step_wf (s : bstep) : Prop :=
  match s with
  | BsSetInt64 _ v => - 2 ^ 63 <= v < 2 ^ 63
  | BsSetUint64 _ v => 0 <= v < W64
  | _ => True
  end.


(* a whole program: oracle bits supplied per step *)
Fixpoint brun (rs : list bigint) (p : list (bstep * bool * bool)) : option (list bigint) :=
  match p with
  | [] => Some rs
  | (s, r, r') :: t => match bstep_run rs s r r' with Some rs' => brun rs' t | None => None end
  end.
Fixpoint zrun (rs : list Z) (p : list (bstep * bool * bool)) : option (list Z) :=
  match p with
  | [] => Some rs
  | (s, _, _) :: t => match zstep_run rs s with Some rs' => zrun rs' t | None => None end
  end.

