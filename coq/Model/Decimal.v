(* Model of decimal.go / round.go: Sign, Cmp, Modf, Neg, Abs, Reduce, setExponent, upscale,
   Rounder.ShouldAddOne, Rounder.Round, roundAddOne.  Pure functions of the operand values; the
   order of field reads and writes under aliasing is the business of Imp/.  No proofs here. *)
From Apd Require Import Generated.Consts Model.Base Model.NumDigits.
Open Scope Z_scope.

Section WithEst.
(* the float64 digit estimate of NumDigits' big path is a parameter of the model (DESIGN.md section 3);
   the executable instance is [go_est] *)
Variable est : Z -> Z.
Local Notation num_digits := (num_digits_with est).

Definition cmpZ (a b : Z) : Z := match a ?= b with Lt => -1 | Eq => 0 | Gt => 1 end.

Definition is_finite (d : dec) : bool := form_eqb (form_of d) Finite.
Definition is_nan (d : dec) : bool := form_eqb (form_of d) NaN || form_eqb (form_of d) NaNSignaling.

(* Decimal.Sign / IsZero *)
Definition dsign (d : dec) : Z :=
  if is_finite d && (coeff d =? 0) then 0 else if neg d then -1 else 1.
Definition is_zero (d : dec) : bool := dsign d =? 0.

Definition set_neg (d : dec) (n : bool) : dec := mkDec (form_of d) n (exp d) (coeff d).
Definition set_exp (d : dec) (e : Z) : dec := mkDec (form_of d) (neg d) e (coeff d).
Definition set_coeff (d : dec) (c : Z) : dec := mkDec (form_of d) (neg d) (exp d) c.
Definition set_form (d : dec) (f : form) : dec := mkDec f (neg d) (exp d) (coeff d).

Definition dec_of_pair (p : Z * Z) : dec := mkDec Finite (fst p <? 0) (snd p) (Z.abs (fst p)).
Definition d_zero := dec_of_pair decimalZero.
Definition d_half := dec_of_pair decimalHalf.
Definition d_one := dec_of_pair decimalOne.
Definition d_two := dec_of_pair decimalTwo.
Definition d_three := dec_of_pair decimalThree.
Definition d_eight := dec_of_pair decimalEight.
Definition d_one_eighth := dec_of_pair decimalOneEighth.
Definition d_max_int64 := dec_of_pair decimalMaxInt64.
Definition d_min_int64 := dec_of_pair decimalMinInt64.
Definition d_nan := mkDec NaN false 0 0.
Definition d_inf := mkDec Infinite false 0 0.

(* Decimal.Cmp *)
Definition dcmp (d x : dec) : res Z :=
  let ds := dsign d in
  let xs := dsign x in
  if ds <? xs then Ok (-1) else
  if ds >? xs then Ok 1 else
  if (ds =? 0) && (xs =? 0) then Ok 0 else
  let gt := if ds =? -1 then -1 else 1 in
  let lt := - gt in
  if form_eqb (form_of d) Infinite then (if form_eqb (form_of x) Infinite then Ok 0 else Ok gt) else
  if form_eqb (form_of x) Infinite then Ok lt else
  if exp d =? exp x then
    let c := cmpZ (coeff d) (coeff x) in Ok (if ds <? 0 then - c else c)
  else
    do dnd <- num_digits (coeff d);
    do xnd <- num_digits (coeff x);
    let dn := dnd + exp d in
    let xn := xnd + exp x in
    if dn <? xn then Ok lt else
    if dn >? xn then Ok gt else
    do c <- (if exp d <? exp x
             then do e <- table_exp10 (exp x - exp d); Ok (cmpZ (coeff d) (coeff x * e))
             else do e <- table_exp10 (exp d - exp x); Ok (cmpZ (coeff d * e) (coeff x)));
    Ok (if ds <? 0 then - c else c).

(* Decimal.cmpOrder / CmpTotal *)
Definition cmp_order (d : dec) : Z := let v := form_index (form_of d) + 1 in if neg d then - v else v.
Definition cmp_total (d x : dec) : res Z :=
  let o1 := cmp_order d in
  let o2 := cmp_order x in
  if o1 <? o2 then Ok (-1) else
  if o1 >? o2 then Ok 1 else
  match form_of d with
  | Finite =>
      do c <- dcmp d x;
      if negb (c =? 0) then Ok c else
      let lt := if neg d then 1 else -1 in
      let gt := - lt in
      if exp d <? exp x then Ok lt else if exp d >? exp x then Ok gt else Ok 0
  | Infinite => Ok 0
  | _ => Ok (cmpZ (coeff d) (coeff x))
  end.

(* Decimal.Modf (both outputs requested): (integ, frac) *)
Definition modf (d : dec) : res (dec * dec) :=
  let ng := neg d in
  if exp d >? 0 then Ok (d, mkDec Finite ng 0 0) else
  do nd <- num_digits (coeff d);
  let ex := - exp d in
  if ex >? nd then Ok (mkDec Finite ng 0 0, d) else
  do e <- table_exp10 ex;
  Ok (mkDec Finite ng 0 (Z.quot (coeff d) e), mkDec Finite ng (exp d) (Z.rem (coeff d) e)).

(* Decimal.Neg / Abs *)
Definition dneg (x : dec) : dec := if is_zero x then set_neg x false else set_neg x (negb (neg x)).
Definition dabs (x : dec) : dec := set_neg x false.

(* Rounder.ShouldAddOne and the eight rounding functions *)
Definition should_add_one (r : rounder) (result : Z) (ng : bool) (half : Z) : bool :=
  match r with
  | RDown => false
  | RHalfUp | RDefault => half >=? 0
  | RHalfEven => if half >? 0 then true else if half <? 0 then false else Z.odd result
  | RCeiling => negb ng
  | RFloor => ng
  | RHalfDown => half >? 0
  | RUp => true
  | R05Up => if Z.rem result bigFive =? 0 then true else Z.rem result bigTen =? 0
  end.

(* roundAddOne(b, &diff) *)
Definition round_add_one (b diff : Z) : res (Z * Z) :=
  if b <? 0 then Panic PNegativeCoeff else
  do nd <- num_digits b;
  let b1 := b + bigOne in
  do nd2 <- num_digits b1;
  if nd2 >? nd then Ok (Z.quot b1 bigTen, diff + 1) else Ok (b1, diff).

Definition sys_over := fSystemOverflow ||| fOverflow.
Definition sys_under := fSystemUnderflow ||| fUnderflow.

(* the range loop at the head of setExponent: Some sum, or the early-return flags *)
Fixpoint sum_exps (xs : list Z) (acc : Z) : cond + Z :=
  match xs with
  | [] => inr acc
  | x :: t => if x >? MaxExponent then inl sys_over
              else if x <? MinExponent then inl sys_under
              else sum_exps t (acc + x)
  end.

(* d.setExponent(c, nd, res, xs...) : new d and the returned Condition (which includes res) *)
Definition set_exponent (c : ctx) (d : dec) (nd : Z) (res0 : cond) (xs : list Z) : res (dec * cond) :=
  match sum_exps xs 0 with
  | inl f => Ok (d, f)
  | inr sum =>
    do nd1 <- (if nd =? unknownNumDigits then num_digits (coeff d) else Ok nd);
    let adj := sum + nd1 - 1 in
    if adj >? MaxExponent then Ok (d, sys_over) else
    if adj <? MinExponent then Ok (d, sys_under) else
    do (d1, r, res1) <-
      (if adj <? emin c then
         let res1 := if is_zero d then res0 else res0 ||| fSubnormal in
         let et := emin c - (prec c - 1) in
         if sum <? et then
           do (integ, frac) <- modf (mkDec Finite false (sum - et) (coeff d));
           let frac := dabs frac in
           do (icoeff, res2) <-
             (if negb (is_zero frac) then
                do h <- dcmp frac d_half;
                Ok ((if should_add_one (rounding c) (coeff integ) (neg d) h
                     then coeff integ + bigOne else coeff integ), res1 ||| fInexact)
              else Ok (coeff integ, res1));
           let res3 := if is_zero (set_coeff integ icoeff) then res2 ||| fClamped else res2 in
           Ok (set_coeff d icoeff, et, res3 ||| fRounded)
         else Ok (d, sum, res1)
       else if adj >? emax c then
         if is_zero d then Ok (d, emax c, res0 ||| fClamped)
         else Ok (set_form d Infinite, sum, res0 ||| fOverflow ||| fInexact)
       else Ok (d, sum, res0));
    let res2 := if Inexact res1 && Subnormal res1 then res1 ||| fUnderflow else res1 in
    Ok (set_exp d1 r, res2)
  end.

(* Rounder.Round(c, d, x, disableIfPrecisionZero): new d and Condition *)
Definition round_with (r : rounder) (c : ctx) (x : dec) (disable_if_p0 : bool) : res (dec * cond) :=
  let d := x in
  if negb (is_finite x) then Ok (d, c0) else
  do nd <- num_digits (coeff x);
  let xs := dsign x in
  if disable_if_p0 && (prec c =? 0) then set_exponent c d nd c0 [exp d] else
  let adj := exp x + nd - 1 in
  if negb (xs =? 0) && (adj <? emin c) then
    do (d1, f) <- set_exponent c d nd fSubnormal [exp d];
    Ok (d1, fSubnormal ||| f)
  else
  let diff := nd - prec c in
  if diff >? 0 then
    if diff >? MaxExponent then Ok (d, sys_over) else
    if diff <? MinExponent then Ok (d, sys_under) else
    do e <- table_exp10 diff;
    let y := Z.quot (coeff d) e in
    let m := Z.rem (coeff d) e in
    do (y1, diff1, res1) <-
      (if negb (m =? 0) then
         do h <- dcmp (mkDec Finite false (- diff) m) d_half;
         if should_add_one r y (neg x) h
         then do (y2, diff2) <- round_add_one y diff; Ok (y2, diff2, fRounded ||| fInexact)
         else Ok (y, diff, fRounded ||| fInexact)
       else Ok (y, diff, fRounded));
    do (d2, f) <- set_exponent c (set_coeff d y1) unknownNumDigits res1 [exp d; diff1];
    Ok (d2, res1 ||| f)
  else
    set_exponent c d nd c0 [exp d; 0].

(* c.round(d, x) *)
Definition ctx_round (c : ctx) (x : dec) : res (dec * cond) := round_with (rounding c) c x true.

(* upscale(a, b, tmp): None is the exponent-out-of-range error *)
Definition upscale (a b : dec) : res (option (Z * Z * Z)) :=
  if exp a =? exp b then Ok (Some (coeff a, coeff b, exp a)) else
  let swapped := exp a <? exp b in
  let a1 := if swapped then b else a in
  let b1 := if swapped then a else b in
  let s := exp a1 - exp b1 in
  if s >? MaxExponent then Ok None else
  do e <- table_exp10 s;
  let x := coeff a1 * e in
  let y := coeff b1 in
  Ok (Some (if swapped then (y, x, exp b1) else (x, y, exp b1))).

(* Decimal.Reduce: trailing-zero stripping.  Both Go loops (the uint64 one and the QuoRem one)
   compute this function; fuel is the bit length of the coefficient. *)
Fixpoint strip10 (fuel : nat) (c n : Z) : res (Z * Z) :=
  match fuel with
  | O => OutOfFuel
  | S f => if Z.rem c 10 =? 0 then strip10 f (Z.quot c 10) (n + 1) else Ok (c, n)
  end.
Definition dreduce (x : dec) : res (dec * Z) :=
  if negb (is_finite x) then Ok (x, 0) else
  if dsign x =? 0 then
    do nd <- num_digits (coeff x);
    Ok (mkDec Finite false 0 0, nd - 1)
  else
    do (c1, n) <- strip10 (S (Z.to_nat (bitlen (coeff x)))) (coeff x) 0;
    if n =? 0 then Ok (x, 0) else Ok (mkDec (form_of x) (dsign x =? -1) (exp x + n) c1, n).

End WithEst.
