(* Model of Context.Pow (context.go): the prologue (Model/Context.v: pow_specials), the working context, the integer
   part by integerPower (exponentiation by squaring in an ErrDecimal whose flags are returned, overflow flags negated for
   a negative exponent), and for a fractional exponent  x^frac = Exp(frac * Ln |x|)  in an ErrDecimal over the working
   context, joined to the integer power and rounded once in the caller's context.  The float-derived inputs of the inner
   Ln (initial estimate, Exp inputs of Halley's iteration) and of the inner Exp (working precision, number of terms)
   are INPUTS of the model (see Model/LnHalley.v, Model/Exp.v).  None: the inner Ln is not followed by its model.
   No proofs here. *)
From Coq Require Import List.
From Apd Require Import Generated.Consts Model.Base Model.NumDigits Model.Decimal Model.Context Model.Roots Model.Exp Model.Ln Model.LnHalley.
Import ListNotations.
Open Scope Z_scope.

Section WithEst.
Variable est : Z -> Z.
Variable ln10_table : list (Z * Z).
Local Notation num_digits := (num_digits_with est).
Local Notation ctx_round := (ctx_round est).
Local Notation ctx_mul := (ctx_mul est).
Local Notation ctx_quo := (ctx_quo est).

(* the loop of integerPower; (z, flags, error held by the ErrDecimal) *)
Fixpoint ipow_loop (fuel : nat) (nc : ctx) (b : Z) (z n : dec) (fl : cond) : res (dec * cond * err) :=
  if b <=? 0 then Ok (z, fl, ENone) else
  match fuel with
  | O => OutOfFuel
  | S f =>
      do s1 <- (if Z.odd b then do v <- ctx_mul nc z n; Ok (rdec v, rcond v, rerr v) else Ok (Some z, c0, ENone));
      let '(z1o, f1, e1) := s1 in
      match e1, z1o with
      | ENone, Some z1 =>
          let b1 := b / 2 in
          do s2 <- (if b1 >? 0 then do v <- ctx_mul nc n n; Ok (rdec v, rcond v, rerr v) else Ok (Some n, c0, ENone));
          let '(n1o, f2, e2) := s2 in
          match e2, n1o with
          | ENone, Some n1 => ipow_loop f nc b1 z1 n1 (fl ||| f1 ||| f2)
          | ENone, None => Ok (z1, fl ||| f1 ||| f2, EOther)
          | e, _ => Ok (z1, fl ||| f1 ||| f2, e)
          end
      | ENone, None => Ok (z, fl ||| f1, EOther)
      | e, _ => Ok (z, fl ||| f1, e)
      end
  end.

(* c.integerPower(d, x, y) *)
Definition integer_power (nc : ctx) (x : dec) (y : Z) : res (dec * cond * err) :=
  let ng := y <? 0 in
  do r <- ipow_loop (Z.to_nat (Z.log2 (Z.abs y) + 2)) nc (Z.abs y) d_one x c0;
  let '(z, fl, e) := r in
  match e with
  | ENone =>
      if ng then do v <- ctx_quo nc d_one z; Ok (match rdec v with Some d => d | None => z end, fl ||| rcond v, rerr v)
      else Ok r
  | _ => Ok (z, (if ng then negate_overflow fl else fl), e)
  end.

(* one ErrDecimal step: flags accumulate; an error ends the chain with the flags so far *)
Definition estep (fl : cond) (r : res result) (k : dec -> cond -> res (option (option dec * cond * err)))
  : res (option (option dec * cond * err)) :=
  do v <- r;
  match rerr v, rdec v with
  | ENone, Some d => k d (fl ||| rcond v)
  | ENone, None => Ok None
  | e, _ => Ok (Some (None, fl ||| rcond v, e))
  end.

Definition ctx_pow_with (cp n : Z) (a0 : dec) (exps : list (Z * Z)) (c : ctx) (x y : dec) : res (option result) :=
  do sp <- pow_specials est c x y;
  match sp with
  | Some r => Ok (Some r)
  | None =>
      do (integ, frac) <- modf est y;
      let y_is_int := is_zero frac in
      let ng := neg x && is_finite y && y_is_int && Z.odd (coeff integ) && (exp integ =? 0) in
      do ndx <- num_digits (coeff x);
      let p := (if prec c <? ndx then ndx else prec c) + 10 in
      let nc := mkCtx p MaxExponent MinExponent (cond_of_Z DefaultTraps) RDefault in
      do (qi, qres) <- quantize_inner est c integ 0;
      let yi := if neg qi then - coeff qi else coeff qi in
      do ip <- integer_power nc x yi;
      let '(z, nres, e) := ip in
      let res := qres ||| nres in
      match e with
      | ENone =>
          if y_is_int then do (d, f) <- ctx_round c z; Ok (Some (finish c d (res ||| f))) else
          do fr <-
            estep c0 (ctx_abs est nc x) (fun t1 f1 =>
            do l <- ctx_ln_full est ln10_table a0 exps nc t1;
            match l with
            | None => Ok None
            | Some lr =>
                estep f1 (Ok lr) (fun t2 f2 =>
                estep f2 (ctx_mul nc t2 frac) (fun t3 f3 =>
                estep f3 (ctx_exp_with est cp n nc t3) (fun t4 f4 =>
                estep f4 (ctx_mul nc z t4) (fun t5 f5 => Ok (Some (Some t5, f5, ENone))))))
            end);
          match fr with
          | None => Ok None
          | Some (Some t5, _, ENone) => do (d, f) <- ctx_round c t5; Ok (Some (finish c (set_neg d ng) (res ||| f ||| fInexact)))
          | Some (_, fl, e2) => Ok (Some (mkResult None fl e2))
          end
      | _ => Ok (Some (mkResult (Some d_nan) res e))
      end
  end.
End WithEst.
