(* C05 / C06 for c.quoSpecials and Context.QuoInteger (Imp/CtxOps.v). *)
From Coq Require Import ZArith List Bool Lia.
From Apd Require Import Generated.Consts Model.Base Model.NumDigits Model.Decimal Model.Context
  Imp.Mem Imp.Ops Imp.AliasProofs Imp.CtxOps Imp.CtxProofs Imp.CtxMulProofs.
Import ListNotations.
Open Scope Z_scope.

Lemma upd_put_exp m d v e : mem_eq (upd (put m d v) (d, FExp) e) (put m d (set_exp v e)).
Proof.
  intros [o f]. unfold put, upd, addr_eqb, set_exp. cbn [fst snd form_of neg exp coeff].
  destruct (obj_eqb_spec d o) as [->|_]; [destruct f; reflexivity|reflexivity].
Qed.

Section S.
Variable est : Z -> Z.
Variable c : ctx.

Lemma quo_specials_spec b d x y m : wf_mem m ->
  match quo_specials c (get m x) (get m y) b with
  | Some r => fst (run (quo_specials_imp c b d x y) m) = Some (outcome_of (Ok r)) /\
              mem_eq (snd (run (quo_specials_imp c b d x y) m)) (mem_after m d (Ok r))
  | None => run (quo_specials_imp c b d x y) m = (None, m)
  end.
Proof.
  intros Hwf. unfold quo_specials_imp, quo_specials. rewrite run_bind. cbn [rd run fst snd]. rewrite run_bind. cbn [rd run fst snd].
  unfold should_set_as_nan. rewrite <- (is_nan_tests m x Hwf), <- (is_nan_tests m y Hwf).
  destruct (is_nan_z (m (x, FForm)) || is_nan_z (m (y, FForm))) eqn:Hn.
  { assert (Hs : should_set_as_nan (get m x) (option_map (get m) (Some y)) = true).
    { unfold should_set_as_nan. cbn [option_map]. rewrite <- (is_nan_tests m x Hwf), <- (is_nan_tests m y Hwf). exact Hn. }
    destruct (set_as_nan_spec c d x (Some y) m Hwf Hs) as [H1 H2]. cbn [option_map] in *.
    rewrite run_bind. cbn [run fst snd]. rewrite H1. split; [reflexivity|exact H2]. }
  rewrite run_bind. cbn [rd run fst snd]. rewrite run_bind. cbn [rd run fst snd]. cbv zeta.
  destruct (form_tests (m (x, FForm)) (proj1 (Hwf x))) as (X0 & X1 & _ & _).
  destruct (form_tests (m (y, FForm)) (proj1 (Hwf y))) as (Y0 & Y1 & _ & _).
  rewrite !is_zero_split. unfold is_finite.
  change (form_of (get m x)) with (form_of_Z (m (x, FForm))). change (form_of (get m y)) with (form_of_Z (m (y, FForm))).
  rewrite <- X0, <- X1, <- Y0, <- Y1.
  change (neg (get m x)) with (negb (m (x, FNeg) =? 0)). change (neg (get m y)) with (negb (m (y, FNeg) =? 0)).
  change (coeff (get m x)) with (m (x, FCoeff)). change (coeff (get m y)) with (m (y, FCoeff)).
  set (ng := xorb (negb (m (x, FNeg) =? 0)) (negb (m (y, FNeg) =? 0))).
  destruct ((m (x, FForm) =? 1) || (m (y, FForm) =? 1)).
  { destruct ((m (x, FForm) =? 1) && (m (y, FForm) =? 1)).
    - rewrite run_bind. unfold const_imp. rewrite run_wr_dec. cbn [run fst snd outcome_of finish rdec rcond mem_after].
      split; [reflexivity|apply mem_eq_refl].
    - destruct (m (x, FForm) =? 1).
      + rewrite run_bind. unfold const_imp. rewrite run_wr_dec. cbn [fst snd]. rewrite run_bind. cbn [wr run fst snd outcome_of finish rdec rcond mem_after].
        split; [reflexivity|apply upd_put_neg].
      + rewrite run_bind. unfold const_imp. rewrite run_wr_dec. cbn [fst snd]. rewrite run_bind. cbn [wr run fst snd].
        destruct b.
        * rewrite run_bind. cbn [wr run fst snd outcome_of finish rdec rcond mem_after]. split; [reflexivity|].
          apply (mem_eq_trans _ (upd (put m d (set_neg (mkDec Finite false 0 0) ng)) (d, FExp) (etiny c))).
          -- apply upd_ext. apply upd_put_neg.
          -- apply (upd_put_exp m d (set_neg (mkDec Finite false 0 0) ng) (etiny c)).
        * cbn [run fst snd outcome_of finish rdec rcond mem_after]. split; [reflexivity|]. apply (upd_put_neg m d (mkDec Finite false 0 0) ng). }
  rewrite run_bind. cbn [rd run fst snd].
  destruct ((m (y, FForm) =? 0) && (m (y, FCoeff) =? 0)).
  { rewrite run_bind. cbn [rd run fst snd].
    destruct ((m (x, FForm) =? 0) && (m (x, FCoeff) =? 0)).
    - rewrite run_bind. unfold const_imp. rewrite run_wr_dec. cbn [run fst snd outcome_of finish rdec rcond mem_after].
      split; [reflexivity|apply mem_eq_refl].
    - rewrite run_bind. unfold const_imp. rewrite run_wr_dec. cbn [fst snd]. rewrite run_bind. cbn [wr run fst snd outcome_of finish rdec rcond mem_after].
      split; [reflexivity|apply upd_put_neg]. }
  destruct (prec c =? 0).
  - cbn [run fst snd outcome_of rdec rerr mem_after]. split; [reflexivity|apply mem_eq_refl].
  - reflexivity.
Qed.

Lemma qi_tail_spec d ng pa pb m a b :
  (forall m', (forall q, snd q = FCoeff -> m' q = m q) -> run pa m' = (a, m')) ->
  (forall m', (forall q, snd q = FCoeff -> m' q = m q) -> run pb m' = (b, m')) ->
  let r := if b =? 0 then Panic PDivByZero else
           do nd <- num_digits_with est (Z.quot a b);
           if nd >? prec c then ret (finish c (mkDec NaN ng 0 0) fDivisionImpossible)
           else ret (finish c (mkDec Finite ng 0 (Z.quot a b)) c0) in
  fst (run (qi_tail est c d ng pa pb) m) = outcome_of r /\
  (forall r0, r = Ok r0 -> mem_eq (snd (run (qi_tail est c d ng pa pb) m)) (mem_after m d r)).
Proof.
  intros Ha Hb r. unfold qi_tail. rewrite run_bind, (Ha m (fun _ _ => eq_refl)). cbn [fst snd].
  rewrite run_bind, (Hb m (fun _ _ => eq_refl)). cbn [fst snd]. unfold r.
  destruct (b =? 0); [cbn [run fst snd outcome_of]; split; [reflexivity|discriminate]|].
  rewrite run_bind. cbn [wr run fst snd]. rewrite run_bind. cbn [wr run fst snd]. rewrite run_bind. cbn [rd run fst snd].
  set (m2 := upd (upd m (d, FCoeff) (Z.quot a b)) (d, FForm) 0).
  assert (Hq : m2 (d, FCoeff) = Z.quot a b) by (unfold m2, upd, addr_eqb; cbn [fst snd fld_eqb]; rewrite ?obj_eqb_refl, ?andb_false_r; reflexivity).
  rewrite Hq.
  destruct (num_digits_with est (Z.quot a b)) as [nd| |]; cbn [Base.bind].
  2:{ cbn [run fst snd outcome_of]. split; [reflexivity|discriminate]. }
  2:{ cbn [run fst snd outcome_of]. split; [reflexivity|discriminate]. }
  rewrite run_bind.
  destruct (nd >? prec c).
  - unfold const_imp. rewrite run_wr_dec. cbn [fst snd]. rewrite run_bind. cbn [wr run fst snd]. rewrite run_bind. cbn [wr run fst snd ret outcome_of finish rdec rcond mem_after].
    split; [reflexivity|]. intros _ _.
    apply (mem_eq_trans _ (upd (put m2 d (set_exp d_nan 0)) (d, FNeg) (b2z ng))).
    + apply upd_ext. apply upd_put_exp.
    + apply (mem_eq_trans _ (put m2 d (set_neg (set_exp d_nan 0) ng))); [apply upd_put_neg|].
      apply put_outside. unfold m2. repeat apply same_outside_upd. apply same_outside_refl.
  - cbn [run fst snd]. rewrite run_bind. cbn [wr run fst snd]. rewrite run_bind. cbn [wr run fst snd ret outcome_of finish rdec rcond mem_after].
    split; [reflexivity|]. intros _ _. intros [o f]. unfold m2, put, upd, addr_eqb. cbn [fst snd form_of neg exp coeff].
    destruct (obj_eqb_spec d o) as [->|_]; [destruct f; reflexivity|reflexivity].
Qed.

Theorem quo_integer_imp_pure d x y m : wf_mem m ->
  let r := ctx_quo_integer est c (get m x) (get m y) in
  fst (run (quo_integer_imp est c d x y) m) = outcome_of r /\
  (forall r0, r = Ok r0 -> mem_eq (snd (run (quo_integer_imp est c d x y) m)) (mem_after m d r)).
Proof.
  intros Hwf r. unfold quo_integer_imp. rewrite run_bind. unfold r, ctx_quo_integer.
  pose proof (quo_specials_spec false d x y m Hwf) as Hs.
  destruct (quo_specials c (get m x) (get m y) false) as [r1|].
  { destruct Hs as [H1 H2]. rewrite H1. cbn [run fst snd ret]. split; [reflexivity|intros _ _; exact H2]. }
  rewrite Hs. cbn [fst snd].
  rewrite run_bind. cbn [rd run fst snd]. rewrite run_bind. cbn [rd run fst snd]. cbv zeta.
  rewrite run_bind. cbn [rd run fst snd]. rewrite run_bind. cbn [rd run fst snd].
  unfold upscale. change (exp (get m x)) with (m (x, FExp)). change (exp (get m y)) with (m (y, FExp)).
  change (coeff (get m x)) with (m (x, FCoeff)). change (coeff (get m y)) with (m (y, FCoeff)).
  change (neg (get m x)) with (negb (m (x, FNeg) =? 0)). change (neg (get m y)) with (negb (m (y, FNeg) =? 0)).
  set (ng := xorb (negb (m (x, FNeg) =? 0)) (negb (m (y, FNeg) =? 0))).
  destruct (m (x, FExp) =? m (y, FExp)).
  { cbn [Base.bind]. apply (qi_tail_spec d ng _ _ m (m (x, FCoeff)) (m (y, FCoeff))); apply rd_coeff_stable. }
  destruct (m (x, FExp) <? m (y, FExp)); cbv zeta; cbn [exp coeff get].
  - destruct (m (y, FExp) - m (x, FExp) >? MaxExponent).
    { cbn [Base.bind run fst snd ret outcome_of rdec rerr mem_after]. split; [reflexivity|intros _ _; apply mem_eq_refl]. }
    destruct (table_exp10 (m (y, FExp) - m (x, FExp))) as [p| |]; cbn [Base.bind].
    + rewrite run_bind. cbn [rd run fst snd].
      apply (qi_tail_spec d ng _ _ m (m (x, FCoeff)) (m (y, FCoeff) * p)); [apply rd_coeff_stable|apply ret_stable].
    + cbn [run fst snd outcome_of]. split; [reflexivity|discriminate].
    + cbn [run fst snd outcome_of]. split; [reflexivity|discriminate].
  - destruct (m (x, FExp) - m (y, FExp) >? MaxExponent).
    { cbn [Base.bind run fst snd ret outcome_of rdec rerr mem_after]. split; [reflexivity|intros _ _; apply mem_eq_refl]. }
    destruct (table_exp10 (m (x, FExp) - m (y, FExp))) as [p| |]; cbn [Base.bind].
    + rewrite run_bind. cbn [rd run fst snd].
      apply (qi_tail_spec d ng _ _ m (m (x, FCoeff) * p) (m (y, FCoeff))); [apply ret_stable|apply rd_coeff_stable].
    + cbn [run fst snd outcome_of]. split; [reflexivity|discriminate].
    + cbn [run fst snd outcome_of]. split; [reflexivity|discriminate].
Qed.
End S.
