(* C06 / C18: write and read footprints of Context.Rem and Context.QuoInteger over every branch. *)
From Coq Require Import ZArith List Bool Lia.
From Apd Require Import Generated.Consts Model.Base Model.NumDigits Model.Decimal Model.Context
  Imp.Mem Imp.Ops Imp.AliasProofs Imp.CtxOps Imp.CtxProofs.
Import ListNotations.
Open Scope Z_scope.

Section S.
Variable est : Z -> Z.
Variable c : ctx.

Ltac wleaf := first [apply set_imp_frame | apply (round_imp_ww est c) | apply set_as_nan_imp_ww | assumption].
Ltac rleaf :=
  match goal with
  | |- rd_within (fun a => In (fst a) ?l) (set_imp ?d ?x) => apply (set_imp_rw d x l); cbn; tauto
  | |- rd_within (fun a => In (fst a) ?l) (round_imp _ _ ?d ?f) => apply (round_imp_rw est c d f l); cbn; tauto
  end.

Theorem rem_imp_ww d x y : wr_within (only_obj d) (rem_imp est c d x y).
Proof. unfold rem_imp, rem_tail, const_imp, wr_dec. ww; wleaf. Qed.
Theorem rem_imp_reads d x y : rd_within (only_objs [d; x; y]) (rem_imp est c d x y).
Proof. unfold rem_imp, rem_tail, set_as_nan_imp, const_imp, wr_dec, only_objs. rw; rleaf. Qed.

Theorem quo_integer_imp_ww d x y : wr_within (only_obj d) (quo_integer_imp est c d x y).
Proof. unfold quo_integer_imp, quo_specials_imp, qi_tail, const_imp, wr_dec. ww; wleaf. Qed.
Theorem quo_integer_imp_reads d x y : rd_within (only_objs [d; x; y]) (quo_integer_imp est c d x y).
Proof. unfold quo_integer_imp, quo_specials_imp, qi_tail, set_as_nan_imp, const_imp, wr_dec, only_objs. rw; rleaf. Qed.
End S.
