(* C05 / C06 for the Context methods transliterated in Imp/CtxOps.v: under EVERY pointer assignment the call
   returns the Condition of the pure model applied to the operands' INITIAL values and leaves the initial memory
   with only the destination replaced by the model's result. *)
From Coq Require Import ZArith List Bool Lia.
From Apd Require Import Generated.Consts Model.Base Model.NumDigits Model.Decimal Model.Context
  Imp.Mem Imp.Ops Imp.AliasProofs Imp.CtxOps.
Import ListNotations.
Open Scope Z_scope.

(* ---------- running programs ---------- *)
Lemma run_bind {A B} (p : prog A) (f : A -> prog B) m :
  run (Mem.bind p f) m = run (f (fst (run p m))) (snd (run p m)).
Proof. revert m. induction p as [a|q k IH|q v k IH]; intros m; cbn [Mem.bind run]; [reflexivity|apply IH|apply IH]. Qed.

Lemma mem_eq_refl m : mem_eq m m. Proof. intros p. reflexivity. Qed.
Lemma mem_eq_sym a b : mem_eq a b -> mem_eq b a. Proof. intros H p. symmetry. apply H. Qed.
Lemma mem_eq_trans a b c : mem_eq a b -> mem_eq b c -> mem_eq a c. Proof. intros H1 H2 p. rewrite H1. apply H2. Qed.
Lemma upd_ext m1 m2 a v : mem_eq m1 m2 -> mem_eq (upd m1 a v) (upd m2 a v).
Proof. intros H p. unfold upd. destruct (addr_eqb a p); [reflexivity|apply H]. Qed.

(* programs cannot tell pointwise-equal memories apart *)
Lemma run_ext {A} (p : prog A) : forall m1 m2, mem_eq m1 m2 ->
  fst (run p m1) = fst (run p m2) /\ mem_eq (snd (run p m1)) (snd (run p m2)).
Proof.
  induction p as [a|q k IH|q v k IH]; intros m1 m2 H; cbn [run].
  - split; [reflexivity|exact H].
  - rewrite (H q). apply IH. exact H.
  - apply IH. apply upd_ext. exact H.
Qed.

Lemma run_rd_dec o m : run (rd_dec o) m = (get m o, m).
Proof. reflexivity. Qed.
Lemma run_wr_dec o v m : run (wr_dec o v) m = (tt, put m o v).
Proof. reflexivity. Qed.

(* ---------- Decimals in memory ---------- *)
Lemma obj_eqb_refl o : obj_eqb o o = true. Proof. destruct o; reflexivity. Qed.
Lemma form_of_to f : form_of_Z (form_to_Z f) = f. Proof. destruct f; reflexivity. Qed.
Lemma neg_of_to b : negb (b2z b =? 0) = b. Proof. destruct b; reflexivity. Qed.

Lemma get_put_same m d v : get (put m d v) d = v.
Proof.
  unfold get, put, upd, addr_eqb. cbn [fst snd fld_eqb]. rewrite !obj_eqb_refl. cbn [andb].
  rewrite form_of_to, neg_of_to. destruct v; reflexivity.
Qed.
Lemma get_put_other m d x v : x <> d -> get (put m d v) x = get m x.
Proof.
  intros H. unfold get, put, upd, addr_eqb. cbn [fst snd].
  destruct (obj_eqb_spec d x) as [->|_]; [contradiction|]. reflexivity.
Qed.

(* two memories that differ in the fields of d only: overwriting d makes them equal *)
Definition same_outside (d : obj) (m' m : mem) : Prop := forall a, fst a <> d -> m' a = m a.
Lemma put_outside d m' m v : same_outside d m' m -> mem_eq (put m' d v) (put m d v).
Proof.
  intros H [o f]. unfold put, upd, addr_eqb. cbn [fst snd].
  destruct (obj_eqb_spec d o) as [->|Hne].
  - destruct f; reflexivity.
  - cbn [andb]. apply H. cbn. congruence.
Qed.
Lemma same_outside_refl d m : same_outside d m m. Proof. intros a _. reflexivity. Qed.
Lemma same_outside_upd d m' m f v : same_outside d m' m -> same_outside d (upd m' (d, f) v) m.
Proof.
  intros H [o g] Ho. unfold upd, addr_eqb. cbn [fst snd] in *. destruct (obj_eqb_spec d o) as [->|_]; [contradiction|]. apply H. exact Ho.
Qed.
Lemma same_outside_mem_eq d m1 m2 m : mem_eq m1 m2 -> same_outside d m2 m -> same_outside d m1 m.
Proof. intros He H a Ha. rewrite He. apply H. exact Ha. Qed.

(* the form tests of the code against those of the model *)
Lemma form_tests z : 0 <= z <= 3 ->
  (z =? 0) = form_eqb (form_of_Z z) Finite /\ (z =? 1) = form_eqb (form_of_Z z) Infinite /\
  (z =? 2) = form_eqb (form_of_Z z) NaNSignaling /\ (z =? 3) = form_eqb (form_of_Z z) NaN.
Proof. intros H. assert (C : z = 0 \/ z = 1 \/ z = 2 \/ z = 3) by lia. destruct C as [ -> | [ -> | [ -> | -> ] ] ]; repeat split. Qed.

Lemma cor_c0_l f : c0 ||| f = f.
Proof. destruct f; reflexivity. Qed.

Section WithCtx.
Variable est : Z -> Z.
Variable c : ctx.

(* c.round(d, d) *)
Lemma run_round_imp d f0 m :
  run (round_imp est c d f0) m =
    match ctx_round est c (get m d) with
    | Ok (v', f) => (OFlags (f0 ||| f), put m d v')
    | Panic w => (OPanic w, m)
    | OutOfFuel => (OFuel, m)
    end.
Proof.
  unfold round_imp. rewrite run_bind, run_rd_dec. cbn [fst snd].
  destruct (ctx_round est c (get m d)) as [[v' f]| |]; [|reflexivity|reflexivity].
  rewrite run_bind, run_wr_dec. reflexivity.
Qed.

(* d.Set(x) at the level of run *)
Lemma run_set_imp d x m : wf_mem m -> mem_eq (snd (run (set_imp d x) m)) (put m d (get m x)).
Proof. intros Hwf. exact (set_imp_pure d x m Hwf). Qed.

Lemma put_get_form m d n : wf_mem m -> (put m d (get m n)) (n, FForm) = m (n, FForm).
Proof.
  intros Hwf. unfold put, upd, addr_eqb. cbn [fst snd fld_eqb]. rewrite !andb_false_r.
  destruct (obj_eqb_spec d n) as [->|_]; cbn [andb]; [|reflexivity].
  unfold get. cbn [form_of]. apply form_rt. apply Hwf.
Qed.

Lemma upd_put_form m d v F : mem_eq (upd (put m d v) (d, FForm) (form_to_Z F)) (put m d (set_form v F)).
Proof.
  intros [o f]. unfold put, upd, addr_eqb, set_form. cbn [fst snd form_of neg exp coeff].
  destruct (obj_eqb_spec d o) as [->|_]; [destruct f; reflexivity|reflexivity].
Qed.

(* c.setAsNaN(d, x, y) *)
Lemma nan_tail_spec d n m : wf_mem m ->
  let v := get m n in
  let r := if form_eqb (form_of v) NaNSignaling
           then mkResult (Some (set_form v NaN)) fInvalidOperation (ctx_go_error c fInvalidOperation)
           else mkResult (Some v) c0 ENone in
  let p := set_imp d n ;;; (fn <- rd (n, FForm) ;; if fn =? 2 then wr (d, FForm) 3 ;;; Ret (OFlags fInvalidOperation) else Ret (OFlags c0)) in
  fst (run p m) = outcome_of (Ok r) /\ mem_eq (snd (run p m)) (mem_after m d (Ok r)).
Proof.
  intros Hwf v r p. unfold p. rewrite run_bind.
  pose proof (run_set_imp d n m Hwf) as Hs. set (m1 := snd (run (set_imp d n) m)) in *.
  rewrite run_bind. cbn [rd run fst snd].
  assert (Hfn : m1 (n, FForm) = m (n, FForm)) by (rewrite Hs; apply put_get_form; exact Hwf).
  rewrite Hfn. destruct (form_tests (m (n, FForm)) (proj1 (Hwf n))) as (_ & _ & H2 & _).
  assert (Hf : form_eqb (form_of (get m n)) NaNSignaling = (m (n, FForm) =? 2)) by (symmetry; exact H2).
  subst r v. cbv zeta. rewrite Hf.
  destruct (m (n, FForm) =? 2).
  - rewrite run_bind. cbn [wr run fst snd outcome_of mem_after rdec rcond]. split; [reflexivity|].
    apply (mem_eq_trans _ (upd (put m d (get m n)) (d, FForm) (form_to_Z NaN))); [apply upd_ext; exact Hs|exact (upd_put_form m d (get m n) NaN)].
  - cbn [run fst snd outcome_of mem_after rdec rcond]. split; [reflexivity|exact Hs].
Qed.

Lemma set_as_nan_spec d x y m : wf_mem m ->
  should_set_as_nan (get m x) (option_map (get m) y) = true ->
  let r := set_as_nan c (get m x) (option_map (get m) y) in
  fst (run (set_as_nan_imp d x y) m) = outcome_of (Ok r) /\
  mem_eq (snd (run (set_as_nan_imp d x y) m)) (mem_after m d (Ok r)).
Proof.
  intros Hwf Hn r. unfold set_as_nan_imp. rewrite run_bind. cbn [rd run fst snd].
  destruct (form_tests (m (x, FForm)) (proj1 (Hwf x))) as (_ & _ & X2 & X3).
  unfold r, set_as_nan. unfold should_set_as_nan, is_nan in Hn.
  assert (Hgx : form_of (get m x) = form_of_Z (m (x, FForm))) by reflexivity. rewrite Hgx in *.
  destruct y as [y|]; cbn [option_map] in *.
  - rewrite run_bind. cbn [rd run fst snd].
    destruct (form_tests (m (y, FForm)) (proj1 (Hwf y))) as (_ & _ & Y2 & Y3).
    assert (Hgy : form_of (get m y) = form_of_Z (m (y, FForm))) by reflexivity. rewrite Hgy in *.
    rewrite <- X2, <- X3, <- Y2, <- Y3 in *.
    destruct (m (x, FForm) =? 2); [apply (nan_tail_spec d x m Hwf)|].
    destruct (m (y, FForm) =? 2); [apply (nan_tail_spec d y m Hwf)|].
    destruct (m (x, FForm) =? 3); [apply (nan_tail_spec d x m Hwf)|].
    destruct (m (y, FForm) =? 3); [apply (nan_tail_spec d y m Hwf)|]. discriminate.
  - cbn [run fst snd]. rewrite <- X2, <- X3 in *.
    destruct (m (x, FForm) =? 2); [apply (nan_tail_spec d x m Hwf)|].
    destruct (m (x, FForm) =? 3); [apply (nan_tail_spec d x m Hwf)|]. discriminate.
Qed.

(* reading a field after a chain of writes to d *)
Ltac mem_simpl := unfold get, upd, addr_eqb; cbn [fst snd fld_eqb]; rewrite ?obj_eqb_refl, ?andb_false_r; cbn [andb].

Lemma b2z_flip b : (if b2z b =? 0 then 1 else 0) = b2z (negb b). Proof. destruct b; reflexivity. Qed.

(* the part of add after upscale *)
Lemma add_tail_spec d xnb ynb pa pb s m a b :
  (forall m', (forall q, snd q = FCoeff -> m' q = m q) -> run pa m' = (a, m')) ->
  (forall m', (forall q, snd q = FCoeff -> m' q = m q) -> run pb m' = (b, m')) ->
  forall ng co,
  (if Bool.eqb xnb ynb then (xnb, a + b)
   else if a - b <? 0 then (negb xnb, - (a - b))
        else if a - b =? 0 then (rounder_eqb (rounding c) RFloor, a - b) else (xnb, a - b)) = (ng, co) ->
  let r := do (v, f) <- ctx_round est c (mkDec Finite ng s co); ret (finish c v f) in
  fst (run (add_tail est c d xnb ynb pa pb s) m) = outcome_of r /\
  (forall r0, r = Ok r0 -> mem_eq (snd (run (add_tail est c d xnb ynb pa pb s) m)) (mem_after m d r)).
Proof.
  intros Ha Hb ng0 co0 Hsel. unfold add_tail. rewrite run_bind. cbn [wr run fst snd].
  set (m1 := upd m (d, FNeg) (b2z xnb)).
  assert (Hc1 : forall q, snd q = FCoeff -> m1 q = m q).
  { intros [o f] Hq. cbn in Hq. subst f. unfold m1, upd, addr_eqb. cbn [fst snd fld_eqb]. rewrite andb_false_r. reflexivity. }
  rewrite run_bind, (Ha m1 Hc1). cbn [fst snd]. rewrite run_bind, (Hb m1 Hc1). cbn [fst snd].
  (* the common ending: given the memory m3 after the coefficient/sign writes, with d holding (ng, co) *)
  assert (Hend : forall m3 ng co, same_outside d m3 m -> m3 (d, FNeg) = b2z ng -> m3 (d, FCoeff) = co ->
    let p := wr (d, FExp) s ;;; wr (d, FForm) 0 ;;; round_imp est c d c0 in
    let r := do (v, f) <- ctx_round est c (mkDec Finite ng s co); ret (finish c v f) in
    fst (run p m3) = outcome_of r /\ (forall r0, r = Ok r0 -> mem_eq (snd (run p m3)) (mem_after m d r))).
  { intros m3 ng co Hout Hng Hco p r. unfold p. rewrite run_bind. cbn [wr run fst snd]. rewrite run_bind. cbn [wr run fst snd].
    rewrite run_round_imp.
    set (m5 := upd (upd m3 (d, FExp) s) (d, FForm) 0).
    assert (Hg : get m5 d = mkDec Finite ng s co).
    { unfold m5. mem_simpl. rewrite Hng, Hco, neg_of_to. reflexivity. }
    rewrite Hg. unfold r. destruct (ctx_round est c (mkDec Finite ng s co)) as [[v' f]| |]; cbn [Base.bind ret fst snd outcome_of finish rdec rcond].
    - rewrite cor_c0_l. split; [reflexivity|]. intros r0 _. cbn [mem_after rdec]. apply put_outside.
      unfold m5. apply same_outside_upd, same_outside_upd. exact Hout.
    - split; [reflexivity|discriminate].
    - split; [reflexivity|discriminate]. }
  destruct (Bool.eqb xnb ynb).
  - injection Hsel as <- <-. rewrite run_bind. cbn [wr run fst snd]. apply Hend.
    + unfold m1. apply same_outside_upd, same_outside_upd, same_outside_refl.
    + unfold m1. mem_simpl. reflexivity.
    + mem_simpl. reflexivity.
  - cbv zeta. rewrite run_bind.
    set (m2 := upd m1 (d, FCoeff) (a - b)).
    assert (Hcf : m2 (d, FCoeff) = a - b) by (unfold m2; mem_simpl; reflexivity).
    assert (Hn2 : m2 (d, FNeg) = b2z xnb) by (unfold m2, m1; mem_simpl; reflexivity).
    match goal with |- context [snd (run ?inner m1)] =>
      assert (Hinner : snd (run inner m1) =
                (if a - b <? 0 then upd (upd m2 (d, FNeg) (b2z (negb xnb))) (d, FCoeff) (- (a - b))
                 else if a - b =? 0 then upd m2 (d, FNeg) (b2z (rounder_eqb (rounding c) RFloor)) else m2))
    end.
    { rewrite run_bind. cbn [wr run fst snd]. fold m2. rewrite run_bind. cbn [rd run fst snd]. rewrite Hcf.
      destruct (a - b <? 0).
      - rewrite run_bind. cbn [rd run fst snd]. rewrite run_bind. cbn [wr run fst snd]. rewrite run_bind. cbn [rd wr run fst snd].
        rewrite Hn2, b2z_flip. f_equal. mem_simpl. rewrite Hcf. reflexivity.
      - destruct (a - b =? 0); reflexivity. }
    rewrite Hinner. clear Hinner.
    destruct (a - b <? 0); [|destruct (a - b =? 0)]; injection Hsel as <- <-; apply Hend;
      try (unfold m2, m1; repeat apply same_outside_upd; apply same_outside_refl);
      try (unfold m2, m1; mem_simpl; reflexivity).
Qed.

Lemma upd_put_neg m d v b : mem_eq (upd (put m d v) (d, FNeg) (b2z b)) (put m d (set_neg v b)).
Proof.
  intros [o f]. unfold put, upd, addr_eqb, set_neg. cbn [fst snd form_of neg exp coeff].
  destruct (obj_eqb_spec d o) as [->|_]; [destruct f; reflexivity|reflexivity].
Qed.

Lemma is_nan_tests m x : wf_mem m -> is_nan_z (m (x, FForm)) = is_nan (get m x).
Proof.
  intros Hwf. destruct (form_tests (m (x, FForm)) (proj1 (Hwf x))) as (_ & _ & H2 & H3).
  unfold is_nan_z, is_nan, get. cbn [form_of]. rewrite <- H2, <- H3. apply orb_comm.
Qed.

Lemma rd_coeff_stable m x : forall m', (forall q, snd q = FCoeff -> m' q = m q) -> run (rd (x, FCoeff)) m' = (m (x, FCoeff), m').
Proof. intros m' H. cbn [rd run]. rewrite (H (x, FCoeff) eq_refl). reflexivity. Qed.
Lemma ret_stable m (k : Z) : forall m', (forall q, snd q = FCoeff -> m' q = m q) -> run (Ret k) m' = (k, m').
Proof. reflexivity. Qed.

(* Context.Add / Sub under every pointer assignment *)
Theorem add_imp_pure sub d x y m : wf_mem m ->
  let r := ctx_add est c (get m x) (get m y) sub in
  fst (run (add_imp est c sub d x y) m) = outcome_of r /\
  (forall r0, r = Ok r0 -> mem_eq (snd (run (add_imp est c sub d x y) m)) (mem_after m d r)).
Proof.
  intros Hwf r. unfold add_imp. rewrite run_bind. cbn [rd run fst snd]. rewrite run_bind. cbn [rd run fst snd].
  unfold r, ctx_add. unfold should_set_as_nan. rewrite <- (is_nan_tests m x Hwf), <- (is_nan_tests m y Hwf).
  destruct (is_nan_z (m (x, FForm)) || is_nan_z (m (y, FForm))) eqn:Hn.
  { assert (Hs : should_set_as_nan (get m x) (option_map (get m) (Some y)) = true).
    { unfold should_set_as_nan. cbn [option_map]. rewrite <- (is_nan_tests m x Hwf), <- (is_nan_tests m y Hwf). exact Hn. }
    destruct (set_as_nan_spec d x (Some y) m Hwf Hs) as [H1 H2]. cbn [option_map] in *. unfold ret. split; [exact H1|intros r0 _; exact H2]. }
  rewrite run_bind. cbn [rd run fst snd]. rewrite run_bind. cbn [rd run fst snd]. cbv zeta.
  destruct (form_tests (m (x, FForm)) (proj1 (Hwf x))) as (_ & X1 & _ & _).
  destruct (form_tests (m (y, FForm)) (proj1 (Hwf y))) as (_ & Y1 & _ & _).
  change (form_of (get m x)) with (form_of_Z (m (x, FForm))). change (form_of (get m y)) with (form_of_Z (m (y, FForm))).
  rewrite <- X1, <- Y1.
  change (neg (get m x)) with (negb (m (x, FNeg) =? 0)). change (neg (get m y)) with (negb (m (y, FNeg) =? 0)).
  set (xnb := negb (m (x, FNeg) =? 0)). set (ynb := xorb (negb (m (y, FNeg) =? 0)) sub).
  destruct ((m (x, FForm) =? 1) || (m (y, FForm) =? 1)).
  { destruct ((m (x, FForm) =? 1) && (m (y, FForm) =? 1) && xorb xnb ynb).
    - rewrite run_bind. unfold const_imp. rewrite run_wr_dec. cbn [run fst snd ret outcome_of finish rdec rcond mem_after].
      split; [reflexivity|intros _ _; apply mem_eq_refl].
    - destruct (m (x, FForm) =? 1).
      + rewrite run_bind. cbn [run fst snd ret outcome_of rdec rcond mem_after]. split; [reflexivity|intros _ _; apply run_set_imp; exact Hwf].
      + rewrite run_bind. unfold const_imp. rewrite run_wr_dec. cbn [fst snd]. rewrite run_bind. cbn [wr run fst snd ret outcome_of rdec rcond mem_after].
        split; [reflexivity|intros _ _; apply upd_put_neg]. }
  (* finite operands: upscale *)
  rewrite run_bind. cbn [rd run fst snd]. rewrite run_bind. cbn [rd run fst snd].
  unfold upscale. change (exp (get m x)) with (m (x, FExp)). change (exp (get m y)) with (m (y, FExp)).
  change (coeff (get m x)) with (m (x, FCoeff)). change (coeff (get m y)) with (m (y, FCoeff)).
  destruct (m (x, FExp) =? m (y, FExp)).
  { cbn [Base.bind]. cbv zeta.
    match goal with |- context [let '(ng, co) := ?sel in _] => destruct sel as [ng co] eqn:Esel end.
    apply (add_tail_spec d xnb ynb _ _ (m (x, FExp)) m (m (x, FCoeff)) (m (y, FCoeff))); [apply rd_coeff_stable|apply rd_coeff_stable|exact Esel]. }
  destruct (m (x, FExp) <? m (y, FExp)); cbv zeta; cbn [exp coeff get].
  - destruct (m (y, FExp) - m (x, FExp) >? MaxExponent).
    { cbn [Base.bind run fst snd ret outcome_of rdec rerr mem_after]. split; [reflexivity|intros _ _; apply mem_eq_refl]. }
    destruct (table_exp10 (m (y, FExp) - m (x, FExp))) as [p| |]; cbn [Base.bind].
    + rewrite run_bind. cbn [rd run fst snd]. cbv zeta.
      match goal with |- context [let '(ng, co) := ?sel in _] => destruct sel as [ng co] eqn:Esel end.
      apply (add_tail_spec d xnb ynb _ _ (m (x, FExp)) m (m (x, FCoeff)) (m (y, FCoeff) * p)); [apply rd_coeff_stable|apply ret_stable|exact Esel].
    + cbn [run fst snd outcome_of]. split; [reflexivity|discriminate].
    + cbn [run fst snd outcome_of]. split; [reflexivity|discriminate].
  - destruct (m (x, FExp) - m (y, FExp) >? MaxExponent).
    { cbn [Base.bind run fst snd ret outcome_of rdec rerr mem_after]. split; [reflexivity|intros _ _; apply mem_eq_refl]. }
    destruct (table_exp10 (m (x, FExp) - m (y, FExp))) as [p| |]; cbn [Base.bind].
    + rewrite run_bind. cbn [rd run fst snd]. cbv zeta.
      match goal with |- context [let '(ng, co) := ?sel in _] => destruct sel as [ng co] eqn:Esel end.
      apply (add_tail_spec d xnb ynb _ _ (m (y, FExp)) m (m (x, FCoeff) * p) (m (y, FCoeff))); [apply ret_stable|apply rd_coeff_stable|exact Esel].
    + cbn [run fst snd outcome_of]. split; [reflexivity|discriminate].
    + cbn [run fst snd outcome_of]. split; [reflexivity|discriminate].
Qed.

Lemma same_outside_put d m v : same_outside d (put m d v) m.
Proof.
  intros [o f] Ho. unfold put, upd, addr_eqb. cbn [fst snd] in *. destruct (obj_eqb_spec d o) as [->|_]; [contradiction|reflexivity].
Qed.

(* a method of the shape "d := F(x) on the fields; then c.round(d, d)" *)
Lemma then_round_spec (pre : prog unit) d m v :
  mem_eq (snd (run pre m)) (put m d v) ->
  let r := do (v', f) <- ctx_round est c v; ret (finish c v' f) in
  fst (run (pre ;;; round_imp est c d c0) m) = outcome_of r /\
  (forall r0, r = Ok r0 -> mem_eq (snd (run (pre ;;; round_imp est c d c0) m)) (mem_after m d r)).
Proof.
  intros Hpre r. rewrite run_bind. set (m1 := snd (run pre m)) in *. rewrite run_round_imp.
  assert (Hg : get m1 d = v) by (unfold get; rewrite !Hpre; apply get_put_same).
  rewrite Hg. unfold r.
  destruct (ctx_round est c v) as [[v' f]| |]; cbn [Base.bind ret fst snd outcome_of finish rdec rcond mem_after].
  - rewrite cor_c0_l. split; [reflexivity|]. intros r0 _. apply put_outside.
    apply (same_outside_mem_eq d m1 (put m d v) m Hpre). apply same_outside_put.
  - split; [reflexivity|discriminate].
  - split; [reflexivity|discriminate].
Qed.

Lemma neg_pure_dneg v : neg_pure v = dneg v.
Proof.
  unfold neg_pure, dneg, is_zero, dsign, is_finite, set_neg. destruct (form_eqb (form_of v) Finite && (coeff v =? 0)); [reflexivity|].
  destruct (neg v); reflexivity.
Qed.

Lemma not_nan_single m x : wf_mem m -> should_set_as_nan (get m x) None = is_nan_z (m (x, FForm)).
Proof. intros Hwf. unfold should_set_as_nan. rewrite orb_false_r. symmetry. apply is_nan_tests. exact Hwf. Qed.

Theorem ctx_abs_imp_pure d x m : wf_mem m ->
  let r := ctx_abs est c (get m x) in
  fst (run (ctx_abs_imp est c d x) m) = outcome_of r /\
  (forall r0, r = Ok r0 -> mem_eq (snd (run (ctx_abs_imp est c d x) m)) (mem_after m d r)).
Proof.
  intros Hwf r. unfold ctx_abs_imp. rewrite run_bind. cbn [rd run fst snd]. unfold r, ctx_abs.
  rewrite (not_nan_single m x Hwf). destruct (is_nan_z (m (x, FForm))) eqn:Hn.
  - assert (Hs : should_set_as_nan (get m x) (option_map (get m) None) = true) by (cbn [option_map]; rewrite (not_nan_single m x Hwf); exact Hn).
    destruct (set_as_nan_spec d x None m Hwf Hs) as [H1 H2]. split; [exact H1|intros r0 _; exact H2].
  - apply (then_round_spec (abs_imp d x) d m (dabs (get m x))). exact (abs_imp_pure d x m Hwf).
Qed.

Theorem ctx_neg_imp_pure d x m : wf_mem m ->
  let r := ctx_neg est c (get m x) in
  fst (run (ctx_neg_imp est c d x) m) = outcome_of r /\
  (forall r0, r = Ok r0 -> mem_eq (snd (run (ctx_neg_imp est c d x) m)) (mem_after m d r)).
Proof.
  intros Hwf r. unfold ctx_neg_imp. rewrite run_bind. cbn [rd run fst snd]. unfold r, ctx_neg.
  rewrite (not_nan_single m x Hwf). destruct (is_nan_z (m (x, FForm))) eqn:Hn.
  - assert (Hs : should_set_as_nan (get m x) (option_map (get m) None) = true) by (cbn [option_map]; rewrite (not_nan_single m x Hwf); exact Hn).
    destruct (set_as_nan_spec d x None m Hwf Hs) as [H1 H2]. split; [exact H1|intros r0 _; exact H2].
  - apply (then_round_spec (neg_imp d x) d m (dneg (get m x))). rewrite <- neg_pure_dneg. exact (neg_imp_pure d x m Hwf).
Qed.

Theorem ctx_round_imp_pure d x m : wf_mem m ->
  let r := ctx_round_op est c (get m x) in
  fst (run (ctx_round_imp est c d x) m) = outcome_of r /\
  (forall r0, r = Ok r0 -> mem_eq (snd (run (ctx_round_imp est c d x) m)) (mem_after m d r)).
Proof.
  intros Hwf r. unfold ctx_round_imp. rewrite run_bind. cbn [rd run fst snd]. unfold r, ctx_round_op.
  rewrite (not_nan_single m x Hwf). destruct (is_nan_z (m (x, FForm))) eqn:Hn.
  - assert (Hs : should_set_as_nan (get m x) (option_map (get m) None) = true) by (cbn [option_map]; rewrite (not_nan_single m x Hwf); exact Hn).
    destruct (set_as_nan_spec d x None m Hwf Hs) as [H1 H2]. split; [exact H1|intros r0 _; exact H2].
  - apply (then_round_spec (set_imp d x) d m (get m x)). exact (set_imp_pure d x m Hwf).
Qed.
End WithCtx.

(* ---------- footprints (C06, C18): only the destination is written; only d, x, y are read ---------- *)
Lemma ww_bind {A B} W (p : prog A) (f : A -> prog B) :
  wr_within W p -> (forall a, wr_within W (f a)) -> wr_within W (Mem.bind p f).
Proof. intros Hp Hf. induction Hp; cbn [Mem.bind]; [apply Hf|constructor; auto|constructor; auto]. Qed.
Lemma rw_bind {A B} R (p : prog A) (f : A -> prog B) :
  rd_within R p -> (forall a, rd_within R (f a)) -> rd_within R (Mem.bind p f).
Proof. intros Hp Hf. induction Hp; cbn [Mem.bind]; [apply Hf|constructor; auto|constructor; auto]. Qed.

Lemma ww_rd_any W a : wr_within W (rd a). Proof. apply ww_rd. intros v. apply ww_ret. Qed.
Lemma ww_wr_in (W : addr -> Prop) a v : W a -> wr_within W (wr a v). Proof. intros H. apply ww_wr; [exact H|apply ww_ret]. Qed.
Lemma rw_rd_in (R : addr -> Prop) a : R a -> rd_within R (rd a). Proof. intros H. apply rw_rd; [exact H|intros v; apply rw_ret]. Qed.
Lemma rw_wr_any R a v : rd_within R (wr a v). Proof. apply rw_wr. apply rw_ret. Qed.

Ltac ww := repeat first
  [ apply ww_ret | apply ww_rd_any | apply ww_wr_in; [reflexivity] | apply ww_bind; [|intro] | progress cbv zeta
  | match goal with
    | |- wr_within _ (if ?b then _ else _) => destruct b
    | |- wr_within _ (match ?x with _ => _ end) => match x with context [if ?b then _ else _] => destruct b end
    | |- wr_within _ (match ?x with _ => _ end) => destruct x
    end ].
Ltac rw := repeat first
  [ apply rw_ret | apply rw_wr_any | apply rw_rd_in; [cbn; tauto] | apply rw_bind; [|intro] | progress cbv zeta
  | match goal with
    | |- rd_within _ (if ?b then _ else _) => destruct b
    | |- rd_within _ (match ?x with _ => _ end) => match x with context [if ?b then _ else _] => destruct b end
    | |- rd_within _ (match ?x with _ => _ end) => destruct x
    end ].

Section Footprints.
Variable est : Z -> Z.
Variable c : ctx.

Lemma set_imp_ww d x : wr_within (only_obj d) (set_imp d x).
Proof. exact (set_imp_frame d x). Qed.

Lemma round_imp_ww d f0 : wr_within (only_obj d) (round_imp est c d f0).
Proof. unfold round_imp, rd_dec, wr_dec. ww. Qed.
Ltac ww_fin := ww; first [apply set_imp_ww | apply abs_imp_frame | apply neg_imp_frame | apply round_imp_ww | assumption].
Lemma set_as_nan_imp_ww d x y : wr_within (only_obj d) (set_as_nan_imp d x y).
Proof. unfold set_as_nan_imp. ww_fin. Qed.
Lemma add_tail_ww d xnb ynb pa pb s : wr_within (only_obj d) pa -> wr_within (only_obj d) pb ->
  wr_within (only_obj d) (add_tail est c d xnb ynb pa pb s).
Proof. intros Ha Hb. unfold add_tail. ww_fin. Qed.
Theorem add_imp_ww sub d x y : wr_within (only_obj d) (add_imp est c sub d x y).
Proof.
  unfold add_imp, const_imp, wr_dec. ww; first [apply set_imp_ww | apply round_imp_ww | apply set_as_nan_imp_ww | apply add_tail_ww; ww].
Qed.
Theorem ctx_abs_imp_ww d x : wr_within (only_obj d) (ctx_abs_imp est c d x).
Proof. unfold ctx_abs_imp. ww_fin. Qed.
Theorem ctx_neg_imp_ww d x : wr_within (only_obj d) (ctx_neg_imp est c d x).
Proof. unfold ctx_neg_imp. ww_fin. Qed.
Theorem ctx_round_imp_ww d x : wr_within (only_obj d) (ctx_round_imp est c d x).
Proof. unfold ctx_round_imp. ww_fin. Qed.

(* reads: fields of d, x and y only *)
Lemma rd_within_weaken {A} (R R' : addr -> Prop) (p : prog A) : (forall a, R a -> R' a) -> rd_within R p -> rd_within R' p.
Proof. intros H Hp. induction Hp; constructor; auto. Qed.
Lemma set_imp_rw d x l : In d l -> In x l -> rd_within (only_objs l) (set_imp d x).
Proof. intros Hd Hx. apply (rd_within_weaken (only_objs [d; x])); [|apply set_imp_reads]. unfold only_objs. cbn. intros a [<-|[<-|[]]]; assumption. Qed.
Lemma abs_imp_rw d x l : In d l -> In x l -> rd_within (only_objs l) (abs_imp d x).
Proof. intros Hd Hx. apply (rd_within_weaken (only_objs [d; x])); [|apply abs_imp_reads]. unfold only_objs. cbn. intros a [<-|[<-|[]]]; assumption. Qed.
Lemma neg_imp_rw d x l : In d l -> In x l -> rd_within (only_objs l) (neg_imp d x).
Proof. intros Hd Hx. apply (rd_within_weaken (only_objs [d; x])); [|apply neg_imp_reads]. unfold only_objs. cbn. intros a [<-|[<-|[]]]; assumption. Qed.

Lemma round_imp_rw d f0 l : In d l -> rd_within (only_objs l) (round_imp est c d f0).
Proof. intros Hd. unfold round_imp, rd_dec, wr_dec, only_objs. rw. Qed.
Ltac rw_leaf :=
  match goal with
  | |- rd_within (fun a => In (fst a) ?l) (set_imp ?d ?x) => apply (set_imp_rw d x l); cbn; tauto
  | |- rd_within (fun a => In (fst a) ?l) (abs_imp ?d ?x) => apply (abs_imp_rw d x l); cbn; tauto
  | |- rd_within (fun a => In (fst a) ?l) (neg_imp ?d ?x) => apply (neg_imp_rw d x l); cbn; tauto
  | |- rd_within (fun a => In (fst a) ?l) (round_imp _ _ ?d ?f) => apply (round_imp_rw d f l); cbn; tauto
  end.
Lemma set_as_nan_imp_rw d x y l : In d l -> In x l -> (forall yo, y = Some yo -> In yo l) -> rd_within (only_objs l) (set_as_nan_imp d x y).
Proof.
  intros Hd Hx Hy. unfold set_as_nan_imp. destruct y as [yo|]; [pose proof (Hy yo eq_refl)|]; unfold only_objs; rw;
    match goal with |- rd_within (fun a => In (fst a) ?l) (set_imp ?d ?x) => apply (set_imp_rw d x l); assumption end.
Qed.
Theorem add_imp_reads sub d x y : rd_within (only_objs [d; x; y]) (add_imp est c sub d x y).
Proof. unfold add_imp, add_tail, set_as_nan_imp, const_imp, wr_dec, only_objs. rw; rw_leaf. Qed.
Theorem ctx_abs_imp_reads d x : rd_within (only_objs [d; x]) (ctx_abs_imp est c d x).
Proof. unfold ctx_abs_imp, set_as_nan_imp, only_objs. rw; rw_leaf. Qed.
Theorem ctx_neg_imp_reads d x : rd_within (only_objs [d; x]) (ctx_neg_imp est c d x).
Proof. unfold ctx_neg_imp, set_as_nan_imp, only_objs. rw; rw_leaf. Qed.
Theorem ctx_round_imp_reads d x : rd_within (only_objs [d; x]) (ctx_round_imp est c d x).
Proof. unfold ctx_round_imp, set_as_nan_imp, only_objs. rw; rw_leaf. Qed.
End Footprints.
