(* Statement-by-statement transliteration of Decimal.Set, Neg, Abs and Modf with the Go order of field
   reads and writes, over pointers that may coincide. *)
From Coq Require Import ZArith List Bool Lia.
From Apd Require Import Generated.Consts Model.Base Model.NumDigits Imp.Mem.
Import ListNotations.
Open Scope Z_scope.

(* func (d *Decimal) Set(x) { if d == x { return d }; d.Form = x.Form; d.Negative = x.Negative;
   d.Exponent = x.Exponent; d.Coeff.Set(&x.Coeff) } *)
Definition set_imp (d x : obj) : prog unit :=
  if obj_eqb d x then Ret tt else
  f <- rd (x, FForm) ;; wr (d, FForm) f ;;;
  n <- rd (x, FNeg) ;; wr (d, FNeg) n ;;;
  e <- rd (x, FExp) ;; wr (d, FExp) e ;;;
  c <- rd (x, FCoeff) ;; wr (d, FCoeff) c.

(* d.Set(x); if d.IsZero() { d.Negative = false } else { d.Negative = !d.Negative } *)
Definition neg_imp (d x : obj) : prog unit :=
  set_imp d x ;;;
  f <- rd (d, FForm) ;; c <- rd (d, FCoeff) ;;
  if (f =? 0) && (c =? 0) then wr (d, FNeg) 0
  else n <- rd (d, FNeg) ;; wr (d, FNeg) (if n =? 0 then 1 else 0).

(* d.Set(x); d.Negative = false *)
Definition abs_imp (d x : obj) : prog unit := set_imp d x ;;; wr (d, FNeg) 0.

(* SetInt64(0) on the coefficient and the three scalar fields of a cleared output *)
Definition clear_imp (o : obj) (ng : Z) : prog unit :=
  wr (o, FForm) 0 ;;; wr (o, FNeg) ng ;;; wr (o, FExp) 0 ;;; wr (o, FCoeff) 0.

Definition opt_do (o : option obj) (f : obj -> prog unit) : prog unit := match o with Some x => f x | None => Ret tt end.

(* Decimal.Modf(integ, frac) as written after the repair (order of writes chosen for aliasing) *)
Definition modf_imp (d : obj) (integ frac : option obj) : prog unit :=
  match integ, frac with None, None => Ret tt | _, _ =>
  ng <- rd (d, FNeg) ;;
  e <- rd (d, FExp) ;;
  if e >? 0 then
    opt_do integ (fun i => set_imp i d) ;;;
    opt_do frac (fun f => clear_imp f ng)
  else
  c0 <- rd (d, FCoeff) ;;
  let nd := ndigits c0 in                       (* d.NumDigits() *)
  let ex := - e in
  if ex >? nd then
    opt_do frac (fun f => set_imp f d) ;;;
    opt_do integ (fun i => clear_imp i ng)
  else
  let p := 10 ^ ex in                           (* tableExp10(exp, &tmpE) *)
  opt_do integ (fun i => wr (i, FForm) 0 ;;; wr (i, FExp) 0 ;;; wr (i, FNeg) ng) ;;;
  match frac with
  | Some f =>
      c <- rd (d, FCoeff) ;;                    (* icoeff.QuoRem(&d.Coeff, e, &frac.Coeff): operands read, then both results written *)
      opt_do integ (fun i => wr (i, FCoeff) (Z.quot c p)) ;;;
      wr (f, FCoeff) (Z.rem c p) ;;;
      wr (f, FForm) 0 ;;; wr (f, FExp) (- ex) ;;; wr (f, FNeg) ng
  | None =>
      c <- rd (d, FCoeff) ;;                    (* icoeff.Quo(&d.Coeff, e) *)
      opt_do integ (fun i => wr (i, FCoeff) (Z.quot c p))
  end
  end.

(* the pure functions the imperative versions must compute from the INITIAL operand values *)
Definition set_pure (x : dec) : dec := x.
Definition neg_pure (x : dec) : dec :=
  mkDec (form_of x) (if form_eqb (form_of x) Finite && (coeff x =? 0) then false else negb (neg x)) (exp x) (coeff x).
Definition abs_pure (x : dec) : dec := mkDec (form_of x) false (exp x) (coeff x).
Definition modf_pure (d : dec) : dec * dec :=
  if exp d >? 0 then (d, mkDec Finite (neg d) 0 0)
  else if - exp d >? ndigits (coeff d) then (mkDec Finite (neg d) 0 0, d)
  else (mkDec Finite (neg d) 0 (Z.quot (coeff d) (10 ^ (- exp d))), mkDec Finite (neg d) (exp d) (Z.rem (coeff d) (10 ^ (- exp d)))).
