(* C18: any interleaving of the memory actions of calls whose write footprints are disjoint from each
   other's read and write footprints gives every call exactly the result it has when run alone, and leaves
   memory as the solo runs leave it.  Schedules are arbitrary (no bound on length, no fairness). *)
From Coq Require Import ZArith List Bool Lia.
From Apd Require Import Imp.Mem.
Import ListNotations.
Open Scope Z_scope.

Definition meq (a b : mem) : Prop := forall p, a p = b p.

Lemma upd_same m q v : upd m q v q = v.
Proof. unfold upd. destruct (addr_eqb_spec q q); congruence. Qed.
Lemma upd_other m q v a : a <> q -> upd m q v a = m a.
Proof. unfold upd. intros H. destruct (addr_eqb_spec q a); congruence. Qed.
Lemma upd_meq m m' q v : meq m m' -> meq (upd m q v) (upd m' q v).
Proof. intros H a. unfold upd. destruct (addr_eqb q a); auto. Qed.

(* run respects pointwise-equal memories *)
Lemma run_meq {A} (p : prog A) : forall m m', meq m m' -> fst (run p m) = fst (run p m') /\ meq (snd (run p m)) (snd (run p m')).
Proof.
  induction p as [a|q k IH|q v k IH]; intros m m' H; cbn [run].
  - split; [reflexivity|exact H].
  - rewrite (H q). apply IH. exact H.
  - apply IH. apply upd_meq. exact H.
Qed.

(* a write outside a program's read and write footprint does not disturb it *)
Lemma run_frame {A} (R W : addr -> Prop) (p : prog A) : rd_within R p -> wr_within W p ->
  forall m q v, ~ R q -> ~ W q ->
  fst (run p (upd m q v)) = fst (run p m) /\
  (forall a, a <> q -> snd (run p (upd m q v)) a = snd (run p m) a) /\
  snd (run p (upd m q v)) q = v.
Proof.
  intros HR HW. induction p as [a|q' k IH|q' v' k IH]; intros m q v Hr Hw; cbn [run].
  - split; [reflexivity|]. split; [intros a0 Ha; apply upd_other; exact Ha|apply upd_same].
  - inversion HR as [|? ? Rq Hk|]; subst. inversion HW as [|? ? Wk|]; subst.
    assert (Hne : q' <> q) by (intros ->; contradiction).
    rewrite (upd_other m q v q' Hne). apply IH; auto.
  - inversion HR as [| |? ? ? Hk]; subst. inversion HW as [| |? ? ? Wq Wk]; subst.
    assert (Hne : q' <> q) by (intros ->; contradiction).
    (* the two writes commute *)
    assert (Hc : meq (upd (upd m q v) q' v') (upd (upd m q' v') q v)).
    { intros a. unfold upd. destruct (addr_eqb_spec q' a), (addr_eqb_spec q a); congruence. }
    destruct (run_meq k _ _ Hc) as [E1 E2].
    destruct (IH Hk Wk (upd m q' v') q v Hr Hw) as (F1 & F2 & F3).
    split; [congruence|]. split.
    + intros a Ha. rewrite (E2 a). apply F2. exact Ha.
    + rewrite (E2 q). exact F3.
Qed.

(* what a program writes stays inside its write footprint *)
Lemma run_writes_within {A} (W : addr -> Prop) (p : prog A) : wr_within W p -> forall m a, ~ W a -> snd (run p m) a = m a.
Proof.
  intros HW. induction p as [x|q k IH|q v k IH]; intros m a Ha; cbn [run].
  - reflexivity.
  - inversion HW; subst. apply IH; auto.
  - inversion HW as [| |? ? ? Wq Wk]; subst. rewrite IH by auto. apply upd_other. intros ->. contradiction.
Qed.

(* ---------- interleavings ---------- *)
Definition threads (A : Type) := list (prog A).

(* one atomic action of thread i (no-op if it has finished or does not exist) *)
Definition step {A} (ts : threads A) (m : mem) (i : nat) : threads A * mem :=
  match nth_error ts i with
  | Some (Rd q k) => (firstn i ts ++ k (m q) :: skipn (S i) ts, m)
  | Some (Wr q v k) => (firstn i ts ++ k :: skipn (S i) ts, upd m q v)
  | _ => (ts, m)
  end.
Fixpoint exec {A} (ts : threads A) (m : mem) (sched : list nat) : threads A * mem :=
  match sched with [] => (ts, m) | i :: s => let '(ts', m') := step ts m i in exec ts' m' s end.

Record footprint := mkFp { fp_R : addr -> Prop; fp_W : addr -> Prop }.
Definition fits {A} (p : prog A) (f : footprint) : Prop := rd_within (fp_R f) p /\ wr_within (fp_W f) p.
(* pairwise: nobody writes what another reads or writes *)
Definition noninterfering (fs : list footprint) : Prop :=
  forall i j fi fj, i <> j -> nth_error fs i = Some fi -> nth_error fs j = Some fj ->
  forall a, fp_W fi a -> ~ fp_R fj a /\ ~ fp_W fj a.

(* invariant: every thread, continued alone from the current memory, ends as its solo run from the
   initial memory ends (same result, same contents of its write footprint) *)
Definition inv {A} (ps : threads A) (fs : list footprint) (m0 : mem) (ts : threads A) (m : mem) : Prop :=
  length ts = length ps /\
  forall i p f, nth_error ps i = Some p -> nth_error fs i = Some f ->
  exists t, nth_error ts i = Some t /\ fits t f /\
            fst (run t m) = fst (run p m0) /\ (forall a, fp_W f a -> snd (run t m) a = snd (run p m0) a).

Lemma nth_error_firstn_lt' {A} (l : list A) : forall i j, (j < i)%nat -> nth_error (firstn i l) j = nth_error l j.
Proof.
  induction l as [|h t IH]; intros i j H.
  - destruct i, j; reflexivity.
  - destruct i as [|i]; [lia|]. destruct j as [|j]; [reflexivity|]. cbn. apply IH. lia.
Qed.

Lemma nth_error_skipn' {A} (l : list A) : forall n j, nth_error (skipn n l) j = nth_error l (n + j).
Proof.
  induction l as [|h t IH]; intros n j.
  - destruct n, j; reflexivity.
  - destruct n as [|n]; [reflexivity|]. cbn. apply IH.
Qed.

Lemma nth_error_replace_same {A} (l : list A) i x y : nth_error l i = Some x ->
  nth_error (firstn i l ++ y :: skipn (S i) l) i = Some y.
Proof.
  intros H. assert (Hl : (i < length l)%nat) by (apply nth_error_Some; congruence).
  rewrite nth_error_app2 by (rewrite firstn_length; lia). rewrite firstn_length. replace (i - Nat.min i (length l))%nat with O by lia. reflexivity.
Qed.
Lemma nth_error_replace_other {A} (l : list A) i j x y : nth_error l i = Some x -> i <> j ->
  nth_error (firstn i l ++ y :: skipn (S i) l) j = nth_error l j.
Proof.
  intros H Hne. assert (Hl : (i < length l)%nat) by (apply nth_error_Some; congruence).
  destruct (Nat.lt_ge_cases j i) as [Hlt|Hge].
  - rewrite nth_error_app1 by (rewrite firstn_length; lia). apply nth_error_firstn_lt'. exact Hlt.
  - rewrite nth_error_app2 by (rewrite firstn_length; lia). rewrite firstn_length.
    replace (j - Nat.min i (length l))%nat with (S (j - S i)) by lia. cbn [nth_error]. rewrite nth_error_skipn'. f_equal. lia.
Qed.
Lemma length_replace {A} (l : list A) i x y : nth_error l i = Some x -> length (firstn i l ++ y :: skipn (S i) l) = length l.
Proof.
  intros H. assert (Hl : (i < length l)%nat) by (apply nth_error_Some; congruence).
  rewrite app_length, firstn_length. cbn [length]. rewrite skipn_length. lia.
Qed.

Lemma inv_step {A} (ps : threads A) fs m0 ts m i : length fs = length ps -> noninterfering fs ->
  inv ps fs m0 ts m -> let '(ts', m') := step ts m i in inv ps fs m0 ts' m'.
Proof.
  intros Hlen Hni [Hl Hinv]. unfold step.
  destruct (nth_error ts i) as [t|] eqn:Et; [|split; assumption].
  assert (Hi : (i < length ps)%nat) by (rewrite <- Hl; apply nth_error_Some; congruence).
  destruct (nth_error ps i) as [pi|] eqn:Epi; [|apply nth_error_None in Epi; lia].
  destruct (nth_error fs i) as [fi|] eqn:Efi; [|apply nth_error_None in Efi; lia].
  destruct (Hinv i pi fi Epi Efi) as (t' & Et' & [HRt HWt] & Hres & Hmem). rewrite Et in Et'. injection Et' as <-.
  destruct t as [a|q k|q v k]; [split; assumption| |].
  - (* a read of thread i: memory unchanged, thread i advanced *)
    split; [rewrite (length_replace ts i _ _ Et); exact Hl|].
    intros j p f Ep Ef. destruct (Nat.eq_dec i j) as [<-|Hne].
    + rewrite Epi in Ep. injection Ep as <-. rewrite Efi in Ef. injection Ef as <-.
      exists (k (m q)). split; [apply (nth_error_replace_same ts i _ _ Et)|].
      inversion HRt; subst. inversion HWt; subst. split; [split; auto|]. split; [exact Hres|exact Hmem].
    + rewrite (nth_error_replace_other ts i j _ _ Et Hne). apply Hinv; assumption.
  - (* a write of thread i *)
    split; [rewrite (length_replace ts i _ _ Et); exact Hl|].
    inversion HRt as [| |? ? ? HRk]; subst. inversion HWt as [| |? ? ? Wq HWk]; subst.
    intros j p f Ep Ef. destruct (Nat.eq_dec i j) as [<-|Hne].
    + rewrite Epi in Ep. injection Ep as <-. rewrite Efi in Ef. injection Ef as <-.
      exists k. split; [apply (nth_error_replace_same ts i _ _ Et)|]. split; [split; auto|]. split; [exact Hres|exact Hmem].
    + rewrite (nth_error_replace_other ts i j _ _ Et Hne).
      destruct (Hinv j p f Ep Ef) as (tj & Etj & [HRj HWj] & Hresj & Hmemj).
      exists tj. split; [exact Etj|]. split; [split; assumption|].
      destruct (Hni i j fi f Hne Efi Ef q Wq) as [NR NW].
      destruct (run_frame (fp_R f) (fp_W f) tj HRj HWj m q v NR NW) as (F1 & F2 & F3).
      split; [congruence|]. intros a Wa. rewrite F2; [apply Hmemj; exact Wa|]. intros ->. contradiction.
Qed.

Lemma exec_inv {A} (ps : threads A) fs m0 sched : length fs = length ps -> noninterfering fs ->
  forall ts m, inv ps fs m0 ts m -> let '(ts', m') := exec ts m sched in inv ps fs m0 ts' m'.
Proof.
  intros Hlen Hni. induction sched as [|i s IH]; intros ts m Hinv; cbn [exec]; [exact Hinv|].
  pose proof (inv_step ps fs m0 ts m i Hlen Hni Hinv) as Hs. destruct (step ts m i) as [ts' m']. apply IH. exact Hs.
Qed.

(* every schedule: when all calls have returned, each has its solo result, its write footprint holds
   what its solo run leaves there *)
Theorem interleaving_is_solo {A} (ps : threads A) (fs : list footprint) (m0 : mem) (sched : list nat) :
  length fs = length ps -> noninterfering fs ->
  (forall i p f, nth_error ps i = Some p -> nth_error fs i = Some f -> fits p f) ->
  let '(ts, m) := exec ps m0 sched in
  forall i p f a, nth_error ps i = Some p -> nth_error fs i = Some f -> nth_error ts i = Some (Ret a) ->
    a = fst (run p m0) /\ (forall q, fp_W f q -> m q = snd (run p m0) q).
Proof.
  intros Hlen Hni Hfit.
  assert (Hinv0 : inv ps fs m0 ps m0).
  { split; [reflexivity|]. intros i p f Ep Ef. exists p. split; [exact Ep|]. split; [apply (Hfit i p f Ep Ef)|]. split; auto. }
  pose proof (exec_inv ps fs m0 sched Hlen Hni ps m0 Hinv0) as H.
  destruct (exec ps m0 sched) as [ts m]. destruct H as [_ Hinv].
  intros i p f a Ep Ef Et. destruct (Hinv i p f Ep Ef) as (t & Et' & _ & Hres & Hmem).
  rewrite Et in Et'. injection Et' as <-. cbn [run fst snd] in *. split; [exact Hres|exact Hmem].
Qed.
