(* C05 / C06 for Context.Rem (Imp/CtxOps.v: rem_imp): the model's ctx_rem of the operands' initial values under
   every pointer assignment; footprints. *)
From Coq Require Import ZArith List Bool Lia.
From Apd Require Import Generated.Consts Model.Base Model.NumDigits Model.Decimal Model.Context
  Imp.Mem Imp.Ops Imp.AliasProofs Imp.CtxOps Imp.CtxProofs Imp.CtxMulProofs.
Import ListNotations.
Open Scope Z_scope.

Section S.
Variable est : Z -> Z.
Variable c : ctx.

Lemma rem_tail_spec d x pa pb s m a b :
  (forall m', (forall q, snd q = FCoeff -> m' q = m q) -> run pa m' = (a, m')) ->
  (forall m', (forall q, snd q = FCoeff -> m' q = m q) -> run pb m' = (b, m')) ->
  let r := if b =? 0 then Panic PDivByZero else
           do nd <- num_digits_with est (Z.quot a b);
           if nd >? prec c then ret (finish c d_nan fDivisionImpossible) else
           do (v, f) <- ctx_round est c (mkDec Finite (negb (m (x, FNeg) =? 0)) s (Z.rem a b)); ret (finish c v f) in
  (m (x, FNeg) = 0 \/ m (x, FNeg) = 1) ->
  fst (run (rem_tail est c d x pa pb s) m) = outcome_of r /\
  (forall r0, r = Ok r0 -> mem_eq (snd (run (rem_tail est c d x pa pb s) m)) (mem_after m d r)).
Proof.
  intros Ha Hb r Hwn. unfold rem_tail. rewrite run_bind, (Ha m (fun _ _ => eq_refl)). cbn [fst snd].
  rewrite run_bind, (Hb m (fun _ _ => eq_refl)). cbn [fst snd]. unfold r.
  destruct (b =? 0); [cbn [run fst snd outcome_of]; split; [reflexivity|discriminate]|].
  rewrite run_bind. cbn [wr run fst snd].
  set (m1 := upd m (d, FCoeff) (Z.rem a b)).
  destruct (num_digits_with est (Z.quot a b)) as [nd| |]; cbn [Base.bind].
  2:{ cbn [run fst snd outcome_of]. split; [reflexivity|discriminate]. }
  2:{ cbn [run fst snd outcome_of]. split; [reflexivity|discriminate]. }
  destruct (nd >? prec c).
  - rewrite run_bind. unfold const_imp. rewrite run_wr_dec. cbn [run fst snd ret outcome_of finish rdec rcond mem_after].
    split; [reflexivity|]. intros _ _. apply put_outside. unfold m1. apply same_outside_upd, same_outside_refl.
  - rewrite run_bind. cbn [wr run fst snd]. rewrite run_bind. cbn [wr run fst snd]. rewrite run_bind. cbn [rd run fst snd].
    rewrite run_bind. cbn [wr run fst snd]. rewrite run_round_imp.
    set (m2 := upd (upd m1 (d, FForm) 0) (d, FExp) s).
    assert (Hxn : m2 (x, FNeg) = m (x, FNeg)) by (unfold m2, m1, upd, addr_eqb; cbn [fst snd fld_eqb]; rewrite !andb_false_r; reflexivity).
    rewrite Hxn.
    set (m3 := upd m2 (d, FNeg) (m (x, FNeg))).
    assert (Hg : get m3 d = mkDec Finite (negb (m (x, FNeg) =? 0)) s (Z.rem a b)).
    { unfold m3, m2, m1. unfold get, upd, addr_eqb. cbn [fst snd fld_eqb]. rewrite ?obj_eqb_refl, ?andb_false_r. cbn [andb]. reflexivity. }
    rewrite Hg.
    destruct (ctx_round est c _) as [[v f]| |]; cbn [Base.bind ret fst snd outcome_of finish rdec rcond mem_after].
    + rewrite cor_c0_l. split; [reflexivity|]. intros _ _. apply put_outside. unfold m3, m2, m1. repeat apply same_outside_upd. apply same_outside_refl.
    + split; [reflexivity|discriminate].
    + split; [reflexivity|discriminate].
Qed.

Theorem rem_imp_pure d x y m : wf_mem m ->
  let r := ctx_rem est c (get m x) (get m y) in
  fst (run (rem_imp est c d x y) m) = outcome_of r /\
  (forall r0, r = Ok r0 -> mem_eq (snd (run (rem_imp est c d x y) m)) (mem_after m d r)).
Proof.
  intros Hwf r. unfold rem_imp. rewrite run_bind. cbn [rd run fst snd]. rewrite run_bind. cbn [rd run fst snd].
  unfold r, ctx_rem. unfold should_set_as_nan. rewrite <- (is_nan_tests m x Hwf), <- (is_nan_tests m y Hwf).
  destruct (is_nan_z (m (x, FForm)) || is_nan_z (m (y, FForm))) eqn:Hn.
  { assert (Hs : should_set_as_nan (get m x) (option_map (get m) (Some y)) = true).
    { unfold should_set_as_nan. cbn [option_map]. rewrite <- (is_nan_tests m x Hwf), <- (is_nan_tests m y Hwf). exact Hn. }
    destruct (set_as_nan_spec c d x (Some y) m Hwf Hs) as [H1 H2]. cbn [option_map] in *. unfold ret. split; [exact H1|intros r0 _; exact H2]. }
  destruct (form_tests (m (x, FForm)) (proj1 (Hwf x))) as (X0 & X1 & _ & _).
  destruct (form_tests (m (y, FForm)) (proj1 (Hwf y))) as (Y0 & Y1 & _ & _).
  rewrite !is_zero_split. unfold is_finite.
  change (form_of (get m x)) with (form_of_Z (m (x, FForm))). change (form_of (get m y)) with (form_of_Z (m (y, FForm))).
  rewrite <- X0, <- Y0, <- Y1.
  change (coeff (get m x)) with (m (x, FCoeff)). change (coeff (get m y)) with (m (y, FCoeff)).
  destruct (m (x, FForm) =? 0); cbn [negb].
  2:{ rewrite run_bind. unfold const_imp. rewrite run_wr_dec. cbn [run fst snd ret outcome_of finish rdec rcond mem_after].
      split; [reflexivity|intros _ _; apply mem_eq_refl]. }
  destruct (m (y, FForm) =? 1).
  { apply (then_round_spec est c (set_imp d x) d m (get m x)). exact (set_imp_pure d x m Hwf). }
  rewrite run_bind. cbn [rd run fst snd]. cbn [andb].
  destruct ((m (y, FForm) =? 0) && (m (y, FCoeff) =? 0)).
  { rewrite run_bind. cbn [rd run fst snd]. rewrite run_bind. unfold const_imp. rewrite run_wr_dec.
    cbn [run fst snd]. destruct (m (x, FCoeff) =? 0); cbn [ret outcome_of finish rdec rcond mem_after];
      (split; [reflexivity|intros _ _; apply mem_eq_refl]). }
  rewrite run_bind. cbn [rd run fst snd]. rewrite run_bind. cbn [rd run fst snd].
  unfold upscale. change (exp (get m x)) with (m (x, FExp)). change (exp (get m y)) with (m (y, FExp)).
  change (coeff (get m x)) with (m (x, FCoeff)). change (coeff (get m y)) with (m (y, FCoeff)).
  change (neg (get m x)) with (negb (m (x, FNeg) =? 0)).
  pose proof (proj2 (Hwf x)) as Hwn.
  destruct (m (x, FExp) =? m (y, FExp)).
  { cbn [Base.bind]. apply (rem_tail_spec d x _ _ (m (x, FExp)) m (m (x, FCoeff)) (m (y, FCoeff))); [apply rd_coeff_stable|apply rd_coeff_stable|exact Hwn]. }
  destruct (m (x, FExp) <? m (y, FExp)); cbv zeta; cbn [exp coeff get].
  - destruct (m (y, FExp) - m (x, FExp) >? MaxExponent).
    { cbn [Base.bind run fst snd ret outcome_of rdec rerr mem_after]. split; [reflexivity|intros _ _; apply mem_eq_refl]. }
    destruct (table_exp10 (m (y, FExp) - m (x, FExp))) as [p| |]; cbn [Base.bind].
    + rewrite run_bind. cbn [rd run fst snd].
      apply (rem_tail_spec d x _ _ (m (x, FExp)) m (m (x, FCoeff)) (m (y, FCoeff) * p)); [apply rd_coeff_stable|apply ret_stable|exact Hwn].
    + cbn [run fst snd outcome_of]. split; [reflexivity|discriminate].
    + cbn [run fst snd outcome_of]. split; [reflexivity|discriminate].
  - destruct (m (x, FExp) - m (y, FExp) >? MaxExponent).
    { cbn [Base.bind run fst snd ret outcome_of rdec rerr mem_after]. split; [reflexivity|intros _ _; apply mem_eq_refl]. }
    destruct (table_exp10 (m (x, FExp) - m (y, FExp))) as [p| |]; cbn [Base.bind].
    + rewrite run_bind. cbn [rd run fst snd].
      apply (rem_tail_spec d x _ _ (m (y, FExp)) m (m (x, FCoeff) * p) (m (y, FCoeff))); [apply ret_stable|apply rd_coeff_stable|exact Hwn].
    + cbn [run fst snd outcome_of]. split; [reflexivity|discriminate].
    + cbn [run fst snd outcome_of]. split; [reflexivity|discriminate].
Qed.
End S.
