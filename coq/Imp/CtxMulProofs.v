(* C05 / C06 for Context.Mul (Imp/CtxOps.v: mul_imp): under every pointer assignment the call computes the
   model's ctx_mul of the operands' initial values, inside the package's exponent limits. *)
From Coq Require Import ZArith List Bool Lia.
From Apd Require Import Generated.Consts Model.Base Model.NumDigits Model.Decimal Model.Context
  Proofs.Digits Proofs.Core Proofs.SetExponent
  Imp.Mem Imp.Ops Imp.AliasProofs Imp.CtxOps Imp.CtxProofs.
Import ListNotations.
Open Scope Z_scope.

Section S.
Variable est : Z -> Z.
Hypothesis HE : est_in_range est.
Variable c : ctx.

(* setExponent does not look at the exponent its receiver holds (it overwrites it) - inside the limits *)
Lemma se_exp_indep F ng e1 e2 co res0 xs sum :
  F = Finite -> 0 <= co -> sum_exps xs 0 = inr sum -> in_lim (sum + ndigits co - 1) ->
  set_exponent est c (mkDec F ng e1 co) unknownNumDigits res0 xs = set_exponent est c (mkDec F ng e2 co) unknownNumDigits res0 xs.
Proof.
  intros -> Hco Hs Hadj.
  rewrite (se_head est HE c (mkDec Finite ng e1 co) unknownNumDigits res0 xs sum); try assumption; try (left; reflexivity).
  rewrite (se_head est HE c (mkDec Finite ng e2 co) unknownNumDigits res0 xs sum); try assumption; try (left; reflexivity).
  cbn [coeff neg form_of].
  replace (is_zero (mkDec Finite ng e1 co)) with (is_zero (mkDec Finite ng e2 co)) by reflexivity.
  destruct (sum + ndigits co - 1 <? emin c).
  - destruct (sum <? emin c - (prec c - 1)).
    + destruct (modf est _) as [[integ frac]| |]; cbn [Base.bind]; try reflexivity.
      destruct (negb (is_zero (dabs frac))); [destruct (dcmp est (dabs frac) d_half) as [h| |]|]; cbn [Base.bind]; reflexivity.
    + reflexivity.
  - destruct (sum + ndigits co - 1 >? emax c); [|reflexivity].
    destruct (is_zero _); reflexivity.
Qed.

Lemma is_zero_split v : is_zero v = is_finite v && (coeff v =? 0).
Proof. unfold is_zero, dsign. destruct (is_finite v && (coeff v =? 0)); [reflexivity|]. destruct (neg v); reflexivity. Qed.

Theorem mul_imp_pure d x y m : wf_mem m ->
  0 <= m (x, FCoeff) -> 0 <= m (y, FCoeff) -> in_lim (m (x, FExp)) -> in_lim (m (y, FExp)) ->
  in_lim (m (x, FExp) + m (y, FExp) + ndigits (m (x, FCoeff) * m (y, FCoeff)) - 1) ->
  let r := ctx_mul est c (get m x) (get m y) in
  fst (run (mul_imp est c d x y) m) = outcome_of r /\
  (forall r0, r = Ok r0 -> mem_eq (snd (run (mul_imp est c d x y) m)) (mem_after m d r)).
Proof.
  intros Hwf Hcx Hcy Hex Hey Hadj r. unfold mul_imp. rewrite run_bind. cbn [rd run fst snd]. rewrite run_bind. cbn [rd run fst snd].
  unfold r, ctx_mul. unfold should_set_as_nan. rewrite <- (is_nan_tests m x Hwf), <- (is_nan_tests m y Hwf).
  destruct (is_nan_z (m (x, FForm)) || is_nan_z (m (y, FForm))) eqn:Hn.
  { assert (Hs : should_set_as_nan (get m x) (option_map (get m) (Some y)) = true).
    { unfold should_set_as_nan. cbn [option_map]. rewrite <- (is_nan_tests m x Hwf), <- (is_nan_tests m y Hwf). exact Hn. }
    destruct (set_as_nan_spec c d x (Some y) m Hwf Hs) as [H1 H2]. cbn [option_map] in *. unfold ret. split; [exact H1|intros r0 _; exact H2]. }
  rewrite run_bind. cbn [rd run fst snd]. rewrite run_bind. cbn [rd run fst snd]. cbv zeta.
  destruct (form_tests (m (x, FForm)) (proj1 (Hwf x))) as (X0 & X1 & _ & _).
  destruct (form_tests (m (y, FForm)) (proj1 (Hwf y))) as (Y0 & Y1 & _ & _).
  change (form_of (get m x)) with (form_of_Z (m (x, FForm))). change (form_of (get m y)) with (form_of_Z (m (y, FForm))).
  rewrite <- X1, <- Y1. rewrite !is_zero_split. unfold is_finite.
  change (form_of (get m x)) with (form_of_Z (m (x, FForm))). change (form_of (get m y)) with (form_of_Z (m (y, FForm))).
  rewrite <- X0, <- Y0.
  change (neg (get m x)) with (negb (m (x, FNeg) =? 0)). change (neg (get m y)) with (negb (m (y, FNeg) =? 0)).
  change (coeff (get m x)) with (m (x, FCoeff)). change (coeff (get m y)) with (m (y, FCoeff)).
  change (exp (get m x)) with (m (x, FExp)). change (exp (get m y)) with (m (y, FExp)).
  set (ng := xorb (negb (m (x, FNeg) =? 0)) (negb (m (y, FNeg) =? 0))).
  destruct ((m (x, FForm) =? 1) || (m (y, FForm) =? 1)).
  { rewrite run_bind. cbn [rd run fst snd]. rewrite run_bind. cbn [rd run fst snd].
    destruct ((m (x, FForm) =? 0) && (m (x, FCoeff) =? 0) || (m (y, FForm) =? 0) && (m (y, FCoeff) =? 0)).
    - rewrite run_bind. unfold const_imp. rewrite run_wr_dec. cbn [run fst snd ret outcome_of finish rdec rcond mem_after].
      split; [reflexivity|intros _ _; apply mem_eq_refl].
    - rewrite run_bind. unfold const_imp. rewrite run_wr_dec. cbn [fst snd]. rewrite run_bind. cbn [wr run fst snd ret outcome_of rdec rcond mem_after].
      split; [reflexivity|intros _ _; apply upd_put_neg]. }
  (* finite operands *)
  rewrite run_bind. cbn [rd run fst snd]. rewrite run_bind. cbn [rd run fst snd].
  rewrite run_bind. cbn [wr run fst snd]. rewrite run_bind. cbn [wr run fst snd]. rewrite run_bind. cbn [wr run fst snd].
  set (p := m (x, FCoeff) * m (y, FCoeff)) in *.
  set (m3 := upd (upd (upd m (d, FCoeff) p) (d, FNeg) (b2z ng)) (d, FForm) 0).
  assert (Hout : same_outside d m3 m) by (unfold m3; repeat apply same_outside_upd; apply same_outside_refl).
  assert (Hxe : m3 (x, FExp) = m (x, FExp)) by (unfold m3, upd, addr_eqb; cbn [fst snd fld_eqb]; rewrite !andb_false_r; reflexivity).
  assert (Hye : m3 (y, FExp) = m (y, FExp)) by (unfold m3, upd, addr_eqb; cbn [fst snd fld_eqb]; rewrite !andb_false_r; reflexivity).
  rewrite run_bind. cbn [rd run fst snd]. rewrite run_bind. cbn [rd run fst snd]. rewrite Hxe, Hye.
  rewrite run_bind, run_rd_dec. cbn [fst snd].
  assert (Hg : get m3 d = mkDec Finite ng (m (d, FExp)) p).
  { unfold m3. unfold get, upd, addr_eqb. cbn [fst snd fld_eqb]. rewrite ?obj_eqb_refl, ?andb_false_r. cbn [andb]. rewrite neg_of_to. reflexivity. }
  rewrite Hg.
  assert (Hp : 0 <= p) by (unfold p; apply Z.mul_nonneg_nonneg; assumption).
  assert (Hsum : sum_exps [m (x, FExp); m (y, FExp)] 0 = inr (m (x, FExp) + m (y, FExp))) by (rewrite sum_exps_2 by assumption; f_equal).
  rewrite (se_exp_indep Finite ng (m (d, FExp)) 0 p c0 _ _ eq_refl Hp Hsum Hadj).
  destruct (set_exponent est c (mkDec Finite ng 0 p) unknownNumDigits c0 [m (x, FExp); m (y, FExp)]) as [[v1 f1]| |]; cbn [Base.bind].
  2:{ cbn [run fst snd outcome_of]. split; [reflexivity|discriminate]. }
  2:{ cbn [run fst snd outcome_of]. split; [reflexivity|discriminate]. }
  rewrite run_bind, run_wr_dec. cbn [fst snd]. rewrite run_round_imp, get_put_same.
  destruct (ctx_round est c v1) as [[v2 f2]| |]; cbn [Base.bind ret fst snd outcome_of finish rdec rcond mem_after].
  - split; [reflexivity|]. intros r0 _. apply put_outside. apply (same_outside_mem_eq d _ (put m3 d v1) m (mem_eq_refl _)).
    intros a Ha. rewrite (same_outside_put d m3 v1 a Ha). apply Hout. exact Ha.
  - split; [reflexivity|discriminate].
  - split; [reflexivity|discriminate].
Qed.

(* footprints *)
Theorem mul_imp_ww d x y : wr_within (only_obj d) (mul_imp est c d x y).
Proof.
  unfold mul_imp, const_imp, rd_dec, wr_dec. ww;
    first [apply set_imp_frame | apply round_imp_ww | apply set_as_nan_imp_ww | idtac].
Qed.
Theorem mul_imp_reads d x y : rd_within (only_objs [d; x; y]) (mul_imp est c d x y).
Proof.
  unfold mul_imp, set_as_nan_imp, const_imp, rd_dec, wr_dec, only_objs. rw;
    match goal with
    | |- rd_within (fun a => In (fst a) ?l) (set_imp ?d ?x) => apply (set_imp_rw d x l); cbn; tauto
    | |- rd_within (fun a => In (fst a) ?l) (round_imp _ _ ?d ?f) => apply (round_imp_rw est c d f l); cbn; tauto
    end.
Qed.
End S.
