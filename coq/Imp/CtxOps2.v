(* Transliteration of Context.Quantize and Context.Reduce (context.go) over pointers d, x that may coincide.  Both read
   what they need of x (the form for the NaN / Infinite tests, for Quantize the exponent that gives diff), then copy x
   into d (d.Set(x): a no-op when d == x) and from there on work on the destination alone: c.quantize on d, d.NumDigits,
   c.round(d, d) / c.round, d.Reduce(d), d.Negative = neg.  That tail is one read of d's fields, a pure function, one
   write.  No proofs here. *)
From Coq Require Import ZArith List Bool Lia.
From Apd Require Import Generated.Consts Model.Base Model.NumDigits Model.Decimal Model.Context Imp.Mem Imp.Ops Imp.CtxOps.
Import ListNotations.
Open Scope Z_scope.

(* "v <- *d; (v', a) := F v; *d <- v'; return k a" *)
Definition pure_tail {A} (d : obj) (F : dec -> res (dec * A)) (k : A -> outcome) : prog outcome :=
  v <- rd_dec d ;;
  match F v with
  | Ok (v', a) => wr_dec d v' ;;; Ret (k a)
  | Panic w => Ret (OPanic w)
  | OutOfFuel => Ret OFuel
  end.

Section WithCtx.
Variable est : Z -> Z.
Variable c : ctx.

(* c.quantize(d, d, e) with diff = e - ex computed from the exponent read off x before d.Set(x) *)
Definition quantize_on_d (ex e : Z) (v : dec) : res (dec * cond) :=
  do (v1, f) <- quantize_inner est c (set_exp v ex) e;
  do nd <- num_digits_with est (coeff v1);
  if (nd >? prec c) || (e >? emax c) then Ok (d_nan, fInvalidOperation) else
  do (v2, f1) <- ctx_round est c v1;
  let f2 := f ||| f1 in
  if Overflow f2 || Underflow f2 then Ok (d_nan, fInvalidOperation) else Ok (v2, f2).

Definition quantize_imp (e : Z) (d x : obj) : prog outcome :=
  fx <- rd (x, FForm) ;;
  if is_nan_z fx then set_as_nan_imp d x None else
  if (fx =? 1) || (e <? etiny c) then const_imp d d_nan ;;; Ret (OFlags fInvalidOperation) else
  ex <- rd (x, FExp) ;;                  (* diff := exp - v.Exponent *)
  set_imp d x ;;;                        (* d.Set(v) *)
  pure_tail d (quantize_on_d ex e) OFlags.

(* res := c.round(d, x) [d.Set(x), then on d]; neg := d.Negative; d.Reduce(d); d.Negative = neg *)
Definition reduce_on_d (v : dec) : res (dec * cond) :=
  do (v1, f) <- ctx_round est c v;
  do (v2, n) <- dreduce est v1;
  Ok (set_neg v2 (neg v1), f).

Definition reduce_imp (d x : obj) : prog outcome :=
  fx <- rd (x, FForm) ;;
  if is_nan_z fx then set_as_nan_imp d x None else
  set_imp d x ;;;
  pure_tail d reduce_on_d OFlags.

(* Context.Quo: after c.quoSpecials has declined, the method reads x.Negative, y.Negative, x.Exponent, y.Exponent,
   x.IsZero() and the two coefficients (into the local dividend / divisor, by Abs), and only then writes: d.Coeff.QuoRem
   on the LOCAL big integers, d.Form, d.Negative, and everything after that (rounding by the remainder, the sticky digit,
   setExponent) works on d and locals alone.  So: every read of the operands, then the model's pure quotient, then one
   write of the destination. *)
Definition quo_imp (d x y : obj) : prog outcome :=
  sp <- quo_specials_imp c true d x y ;;
  match sp with
  | Some o => Ret o
  | None =>
      xv <- rd_dec x ;; yv <- rd_dec y ;;
      match ctx_quo est c xv yv with
      | Ok r => match rdec r with Some v => wr_dec d v ;;; Ret (OFlags (rcond r)) | None => Ret (OErr (rerr r)) end
      | Panic w => Ret (OPanic w)
      | OutOfFuel => Ret OFuel
      end
  end.
End WithCtx.
