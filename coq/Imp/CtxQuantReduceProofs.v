(* C05 / C06 / C18 for Context.Quantize and Context.Reduce (Imp/CtxOps2.v): under every pointer assignment the
   transliteration delivers the model's pure function of the operand's initial value and writes the destination only. *)
From Coq Require Import ZArith List Bool Lia.
From Apd Require Import Generated.Consts Model.Base Model.NumDigits Model.Decimal Model.Context
  Imp.Mem Imp.Ops Imp.AliasProofs Imp.CtxOps Imp.CtxOps2 Imp.CtxProofs Imp.CtxMulProofs Imp.CtxQuoIntProofs.
Import ListNotations.
Open Scope Z_scope.

Lemma set_exp_same v : set_exp v (exp v) = v.
Proof. destruct v; reflexivity. Qed.

Lemma pure_tail_spec {A} (pre : prog unit) d m v (F : dec -> res (dec * A)) (k : A -> outcome) :
  mem_eq (snd (run pre m)) (put m d v) ->
  fst (run (pre ;;; pure_tail d F k) m) = match F v with Ok (_, a) => k a | Panic w => OPanic w | OutOfFuel => OFuel end /\
  (forall v' a, F v = Ok (v', a) -> mem_eq (snd (run (pre ;;; pure_tail d F k) m)) (put m d v')).
Proof.
  intros Hpre. rewrite run_bind. set (m1 := snd (run pre m)) in *. unfold pure_tail. rewrite run_bind, run_rd_dec. cbn [fst snd].
  assert (Hg : get m1 d = v) by (unfold get; rewrite !Hpre; apply get_put_same).
  rewrite Hg. destruct (F v) as [[v' a]| |].
  - rewrite run_bind, run_wr_dec. cbn [run fst snd]. split; [reflexivity|]. intros v2 a2 [= <- <-]. apply put_outside.
    apply (same_outside_mem_eq d m1 (put m d v) m Hpre). apply same_outside_put.
  - split; [reflexivity|discriminate].
  - split; [reflexivity|discriminate].
Qed.

Section S.
Variable est : Z -> Z.
Variable c : ctx.

Theorem quantize_imp_pure e d x m : wf_mem m ->
  let r := ctx_quantize est c (get m x) e in
  fst (run (quantize_imp est c e d x) m) = outcome_of r /\
  (forall r0, r = Ok r0 -> mem_eq (snd (run (quantize_imp est c e d x) m)) (mem_after m d r)).
Proof.
  intros Hwf r. unfold quantize_imp. rewrite run_bind. cbn [rd run fst snd]. unfold r, ctx_quantize.
  rewrite (not_nan_single m x Hwf). destruct (is_nan_z (m (x, FForm))) eqn:Hn.
  { assert (Hs : should_set_as_nan (get m x) (option_map (get m) None) = true) by (cbn [option_map]; rewrite (not_nan_single m x Hwf); exact Hn).
    destruct (set_as_nan_spec c d x None m Hwf Hs) as [H1 H2]. split; [exact H1|intros r0 _; exact H2]. }
  destruct (form_tests (m (x, FForm)) (proj1 (Hwf x))) as (_ & X1 & _ & _).
  change (form_of (get m x)) with (form_of_Z (m (x, FForm))). rewrite <- X1.
  destruct ((m (x, FForm) =? 1) || (e <? etiny c)).
  { unfold const_imp. rewrite run_bind, run_wr_dec. cbn [run fst snd ret outcome_of finish rdec rcond mem_after].
    split; [reflexivity|intros r0 _; apply mem_eq_refl]. }
  rewrite run_bind. cbn [rd run fst snd].
  destruct (pure_tail_spec (set_imp d x) d m (get m x) (quantize_on_d est c (m (x, FExp)) e) OFlags (run_set_imp d x m Hwf)) as [H1 H2].
  rewrite H1. unfold quantize_on_d in *. change (m (x, FExp)) with (exp (get m x)) in *. rewrite set_exp_same in *.
  destruct (quantize_inner est c (get m x) e) as [[v1 f]| |]; cbn [Base.bind] in *; [|split; [reflexivity|discriminate]..].
  destruct (num_digits_with est (coeff v1)) as [nd| |]; cbn [Base.bind] in *; [|split; [reflexivity|discriminate]..].
  destruct ((nd >? prec c) || (e >? emax c)).
  { cbn [ret outcome_of finish rdec rcond mem_after]. split; [reflexivity|]. intros r0 _. exact (H2 _ _ eq_refl). }
  destruct (ctx_round est c v1) as [[v2 f1]| |]; cbn [Base.bind] in *; [|split; [reflexivity|discriminate]..].
  cbv zeta in *. destruct (Overflow (f ||| f1) || Underflow (f ||| f1));
    cbn [ret outcome_of finish rdec rcond mem_after]; (split; [reflexivity|]); intros r0 _; exact (H2 _ _ eq_refl).
Qed.

Theorem reduce_imp_pure d x m : wf_mem m ->
  let r := do v <- ctx_reduce est c (get m x); Ok (fst v) in
  fst (run (reduce_imp est c d x) m) = outcome_of r /\
  (forall r0, r = Ok r0 -> mem_eq (snd (run (reduce_imp est c d x) m)) (mem_after m d r)).
Proof.
  intros Hwf r. unfold reduce_imp. rewrite run_bind. cbn [rd run fst snd]. unfold r, ctx_reduce.
  rewrite (not_nan_single m x Hwf). destruct (is_nan_z (m (x, FForm))) eqn:Hn.
  { assert (Hs : should_set_as_nan (get m x) (option_map (get m) None) = true) by (cbn [option_map]; rewrite (not_nan_single m x Hwf); exact Hn).
    destruct (set_as_nan_spec c d x None m Hwf Hs) as [H1 H2]. cbn [Base.bind fst]. split; [exact H1|intros r0 _; exact H2]. }
  destruct (pure_tail_spec (set_imp d x) d m (get m x) (reduce_on_d est c) OFlags (run_set_imp d x m Hwf)) as [H1 H2].
  rewrite H1. unfold reduce_on_d in *.
  destruct (ctx_round est c (get m x)) as [[v1 f]| |]; cbn [Base.bind] in *; [|split; [reflexivity|discriminate]..].
  destruct (dreduce est v1) as [[v2 n]| |]; cbn [Base.bind fst] in *; [|split; [reflexivity|discriminate]..].
  cbn [outcome_of finish rdec rcond mem_after]. split; [reflexivity|]. intros r0 _. exact (H2 _ _ eq_refl).
Qed.

Theorem quo_imp_pure d x y m : wf_mem m ->
  let r := ctx_quo est c (get m x) (get m y) in
  fst (run (quo_imp est c d x y) m) = outcome_of r /\
  (forall r0, r = Ok r0 -> mem_eq (snd (run (quo_imp est c d x y) m)) (mem_after m d r)).
Proof.
  intros Hwf r. unfold quo_imp. rewrite run_bind.
  pose proof (quo_specials_spec c true d x y m Hwf) as Hs.
  destruct (quo_specials c (get m x) (get m y) true) as [r1|] eqn:Eq.
  { destruct Hs as [H1 H2]. rewrite H1. cbn [run fst snd]. unfold r, ctx_quo. rewrite Eq. cbn [ret].
    split; [reflexivity|intros _ _; exact H2]. }
  rewrite Hs. cbn [fst snd]. rewrite run_bind, run_rd_dec. cbn [fst snd]. rewrite run_bind, run_rd_dec. cbn [fst snd].
  fold r. destruct r as [r0| |]; cbn [outcome_of mem_after].
  - destruct (rdec r0) as [v|].
    + rewrite run_bind, run_wr_dec. cbn [run fst snd]. split; [reflexivity|intros _ _; apply mem_eq_refl].
    + cbn [run fst snd]. split; [reflexivity|intros _ _; apply mem_eq_refl].
  - cbn [run fst snd]. split; [reflexivity|discriminate].
  - cbn [run fst snd]. split; [reflexivity|discriminate].
Qed.

(* footprints over every branch *)
Ltac wleaf := first [apply set_imp_frame | apply (round_imp_ww est c) | apply set_as_nan_imp_ww | assumption].
Ltac rleaf :=
  match goal with
  | |- rd_within (fun a => In (fst a) ?l) (set_imp ?d ?x) => apply (set_imp_rw d x l); cbn; tauto
  end.
Theorem quantize_imp_ww e d x : wr_within (only_obj d) (quantize_imp est c e d x).
Proof. unfold quantize_imp, pure_tail, const_imp, rd_dec, wr_dec. ww; wleaf. Qed.
Theorem quantize_imp_reads e d x : rd_within (only_objs [d; x]) (quantize_imp est c e d x).
Proof. unfold quantize_imp, pure_tail, set_as_nan_imp, const_imp, rd_dec, wr_dec, only_objs. rw; rleaf. Qed.
Theorem reduce_imp_ww d x : wr_within (only_obj d) (reduce_imp est c d x).
Proof. unfold reduce_imp, pure_tail, const_imp, rd_dec, wr_dec. ww; wleaf. Qed.
Theorem reduce_imp_reads d x : rd_within (only_objs [d; x]) (reduce_imp est c d x).
Proof. unfold reduce_imp, pure_tail, set_as_nan_imp, const_imp, rd_dec, wr_dec, only_objs. rw; rleaf. Qed.
Theorem quo_imp_ww d x y : wr_within (only_obj d) (quo_imp est c d x y).
Proof. unfold quo_imp, quo_specials_imp, const_imp, rd_dec, wr_dec. ww; wleaf. Qed.
Theorem quo_imp_reads d x y : rd_within (only_objs [d; x; y]) (quo_imp est c d x y).
Proof. unfold quo_imp, quo_specials_imp, set_as_nan_imp, const_imp, rd_dec, wr_dec, only_objs. rw; rleaf. Qed.
End S.
