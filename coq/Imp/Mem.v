(* Imperative (memory-passing) layer: programs are finite trees of reads and writes of the fields of
   caller-visible Decimal objects; used for aliasing (C05), purity/frame (C06) and interleavings (C18). *)
From Coq Require Import ZArith List Bool Lia.
From Apd Require Import Generated.Consts Model.Base Model.NumDigits.
Import ListNotations.
Open Scope Z_scope.

Inductive obj := OA | OB | OC.                        (* three caller-visible Decimal objects *)
Inductive fld := FForm | FNeg | FExp | FCoeff.
Definition addr := (obj * fld)%type.

Definition obj_eqb (a b : obj) : bool := match a, b with OA, OA | OB, OB | OC, OC => true | _, _ => false end.
Definition fld_eqb (a b : fld) : bool :=
  match a, b with FForm, FForm | FNeg, FNeg | FExp, FExp | FCoeff, FCoeff => true | _, _ => false end.
Definition addr_eqb (a b : addr) : bool := obj_eqb (fst a) (fst b) && fld_eqb (snd a) (snd b).

Lemma obj_eqb_spec a b : reflect (a = b) (obj_eqb a b).
Proof. destruct a, b; constructor; congruence. Qed.
Lemma addr_eqb_spec a b : reflect (a = b) (addr_eqb a b).
Proof. destruct a as [[] []], b as [[] []]; constructor; congruence. Qed.

Definition mem := addr -> Z.
Definition upd (m : mem) (a : addr) (v : Z) : mem := fun b => if addr_eqb a b then v else m b.

Inductive prog (A : Type) :=
| Ret (a : A)
| Rd (p : addr) (k : Z -> prog A)
| Wr (p : addr) (v : Z) (k : prog A).
Arguments Ret {A}. Arguments Rd {A}. Arguments Wr {A}.

Fixpoint bind {A B} (p : prog A) (f : A -> prog B) : prog B :=
  match p with Ret a => f a | Rd q k => Rd q (fun v => bind (k v) f) | Wr q v k => Wr q v (bind k f) end.
Notation "x <- p ;; q" := (bind p (fun x => q)) (at level 61, p at next level, right associativity).
Notation "p ;;; q" := (bind p (fun _ => q)) (at level 61, right associativity).
Definition rd (a : addr) : prog Z := Rd a Ret.
Definition wr (a : addr) (v : Z) : prog unit := Wr a v (Ret tt).

Fixpoint run {A} (p : prog A) (m : mem) : A * mem :=
  match p with Ret a => (a, m) | Rd q k => run (k (m q)) m | Wr q v k => run k (upd m q v) end.

(* the addresses a program may read / write, over every branch *)
Inductive wr_within {A} (W : addr -> Prop) : prog A -> Prop :=
| ww_ret a : wr_within W (Ret a)
| ww_rd q k : (forall v, wr_within W (k v)) -> wr_within W (Rd q k)
| ww_wr q v k : W q -> wr_within W k -> wr_within W (Wr q v k).
Inductive rd_within {A} (R : addr -> Prop) : prog A -> Prop :=
| rw_ret a : rd_within R (Ret a)
| rw_rd q k : R q -> (forall v, rd_within R (k v)) -> rd_within R (Rd q k)
| rw_wr q v k : rd_within R k -> rd_within R (Wr q v k).

(* ---------- Decimal objects in memory ---------- *)
Definition form_to_Z (f : form) : Z := match f with Finite => 0 | Infinite => 1 | NaNSignaling => 2 | NaN => 3 end.
Definition form_of_Z (z : Z) : form := if z =? 0 then Finite else if z =? 1 then Infinite else if z =? 2 then NaNSignaling else NaN.
Definition b2z (b : bool) : Z := if b then 1 else 0.
Definition get (m : mem) (o : obj) : dec :=
  mkDec (form_of_Z (m (o, FForm))) (negb (m (o, FNeg) =? 0)) (m (o, FExp)) (m (o, FCoeff)).
Definition put (m : mem) (o : obj) (d : dec) : mem :=
  upd (upd (upd (upd m (o, FForm) (form_to_Z (form_of d))) (o, FNeg) (b2z (neg d))) (o, FExp) (exp d)) (o, FCoeff) (coeff d).
