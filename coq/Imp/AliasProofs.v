(* C05 / C06: the imperative transliterations compute the pure function of the INITIAL operand values
   under EVERY pointer assignment (any argument may be the destination), write only the destination
   objects, and leave every other object bit-for-bit unchanged whatever the destinations held before. *)
From Coq Require Import ZArith List Bool Lia.
From Apd Require Import Generated.Consts Model.Base Model.NumDigits Imp.Mem Imp.Ops.
Import ListNotations.
Open Scope Z_scope.

(* memory holds encodings of Decimals: form in 0..3, sign in 0..1 *)
Definition wf_mem (m : mem) : Prop := forall o, 0 <= m (o, FForm) <= 3 /\ (m (o, FNeg) = 0 \/ m (o, FNeg) = 1).

Lemma form_rt z : 0 <= z <= 3 -> form_to_Z (form_of_Z z) = z.
Proof.
  intros H. assert (C : z = 0 \/ z = 1 \/ z = 2 \/ z = 3) by lia. destruct C as [ -> | [ -> | [ -> | -> ] ] ]; reflexivity.
Qed.
Lemma neg_rt z : z = 0 \/ z = 1 -> b2z (negb (z =? 0)) = z.
Proof. intros [->| ->]; reflexivity. Qed.
Lemma neg_flip z : z = 0 \/ z = 1 -> (if z =? 0 then 1 else 0) = b2z (negb (negb (z =? 0))).
Proof. intros [->| ->]; reflexivity. Qed.

Definition mem_eq (a b : mem) : Prop := forall p, a p = b p.
Definition put_opt (m : mem) (o : option obj) (d : dec) : mem := match o with Some x => put m x d | None => m end.

Ltac unf := cbv [run bind set_imp neg_imp abs_imp modf_imp clear_imp opt_do rd wr upd addr_eqb obj_eqb fld_eqb fst snd andb
                 put put_opt get set_pure neg_pure abs_pure modf_pure form_of neg exp coeff mem_eq].
Ltac fin Hwf :=
  repeat match goal with
         | |- context [form_to_Z (form_of_Z (?m (?o, FForm)))] => rewrite (form_rt (m (o, FForm))) by apply Hwf
         | |- context [b2z (negb (?m (?o, FNeg) =? 0))] => rewrite (neg_rt (m (o, FNeg))) by apply Hwf
         end; try reflexivity.

(* Decimal.Set *)
Theorem set_imp_pure d x m : wf_mem m -> mem_eq (snd (run (set_imp d x) m)) (put m d (set_pure (get m x))).
Proof. intros Hwf [o f]. destruct d, x, o, f; unf; fin Hwf. Qed.

(* Decimal.Abs *)
Theorem abs_imp_pure d x m : wf_mem m -> mem_eq (snd (run (abs_imp d x) m)) (put m d (abs_pure (get m x))).
Proof. intros Hwf [o f]. destruct d, x, o, f; unf; fin Hwf. Qed.


Ltac split_ifs :=
  repeat match goal with
         | |- context [Z.eqb ?a ?b] => let E := fresh "E" in destruct (Z.eqb a b) eqn:E
         | |- context [Z.gtb ?a ?b] => let E := fresh "E" in destruct (Z.gtb a b) eqn:E
         end; cbv iota.
Ltac zsolve :=
  repeat match goal with
         | H : (_ =? _) = true |- _ => apply Z.eqb_eq in H
         | H : (_ =? _) = false |- _ => apply Z.eqb_neq in H
         | H : (_ >? _) = true |- _ => apply Z.gtb_lt in H
         | H : (_ >? _) = false |- _ => rewrite Z.gtb_ltb in H; apply Z.ltb_ge in H
         end.

(* Decimal.Neg *)
Theorem neg_imp_pure d x m : wf_mem m -> mem_eq (snd (run (neg_imp d x) m)) (put m d (neg_pure (get m x))).
Proof.
  intros Hwf [o f]. pose proof (Hwf OA) as [FA NA]. pose proof (Hwf OB) as [FB NB]. pose proof (Hwf OC) as [FC NC].
  destruct d, x, o, f; unf; cbv [form_eqb form_of_Z form_to_Z b2z negb]; split_ifs; zsolve; try reflexivity; try lia.
Qed.

(* Decimal.Modf(integ, frac): integ and frac distinct objects (or nil), either may be the receiver d.
   The outputs are the pure split of the INITIAL value of d; when integ = d the fraction is still that of
   the original d, and vice versa. *)
Definition distinct_opt (a b : option obj) : Prop := match a, b with Some x, Some y => x <> y | _, _ => True end.

Theorem modf_imp_pure d integ frac m : wf_mem m -> distinct_opt integ frac ->
  mem_eq (snd (run (modf_imp d integ frac) m))
         (put_opt (put_opt m integ (fst (modf_pure (get m d)))) frac (snd (modf_pure (get m d)))).
Proof.
  intros Hwf Hd [o f]. pose proof (Hwf OA) as [FA NA]. pose proof (Hwf OB) as [FB NB]. pose proof (Hwf OC) as [FC NC].
  destruct integ as [[]|], frac as [[]|]; cbn [distinct_opt] in Hd; try congruence;
    destruct d, o, f; unf; cbv [form_of_Z form_to_Z b2z negb]; split_ifs; zsolve; try reflexivity; try lia.
Qed.

(* ---------- frame: only fields of the destination objects are ever written (C06, C18) ---------- *)
Definition only_obj (d : obj) : addr -> Prop := fun a => fst a = d.
Definition only_objs (ds : list obj) : addr -> Prop := fun a => In (fst a) ds.
Definition objs_of (a b : option obj) : list obj :=
  (match a with Some x => [x] | None => [] end) ++ (match b with Some x => [x] | None => [] end).

Ltac frame := repeat (first [ apply ww_ret | apply ww_rd; intro | apply ww_wr; [cbn; auto|] ]).

Lemma wr_within_weaken {A} (W W' : addr -> Prop) (p : prog A) : (forall a, W a -> W' a) -> wr_within W p -> wr_within W' p.
Proof. intros H Hp. induction Hp; constructor; auto. Qed.

Theorem set_imp_frame d x : wr_within (only_obj d) (set_imp d x).
Proof. unfold set_imp. destruct (obj_eqb d x); unfold rd, wr, only_obj; cbn [bind]; frame. Qed.
Theorem abs_imp_frame d x : wr_within (only_obj d) (abs_imp d x).
Proof. unfold abs_imp, set_imp. destruct (obj_eqb d x); unfold rd, wr, only_obj; cbn [bind]; frame. Qed.
Theorem neg_imp_frame d x : wr_within (only_obj d) (neg_imp d x).
Proof.
  unfold neg_imp, set_imp. destruct (obj_eqb d x); unfold rd, wr, only_obj; cbn [bind]; frame;
    match goal with |- context [if ?b then _ else _] => destruct b end; cbn [bind]; frame.
Qed.
Theorem modf_imp_frame d integ frac : wr_within (only_objs (objs_of integ frac)) (modf_imp d integ frac).
Proof.
  unfold modf_imp, only_objs, objs_of.
  destruct integ as [i|], frac as [f|]; try apply ww_ret;
    unfold opt_do, set_imp, clear_imp, rd, wr; cbn [bind]; frame;
    repeat (match goal with |- context [if ?b then _ else _] => destruct b end; cbn [bind]; frame).
Qed.

(* read footprints: only fields of the destination and the operand are read *)
Ltac rframe := repeat (first [ apply rw_ret | apply rw_rd; [cbn; auto|intro] | apply rw_wr ]).
Theorem set_imp_reads d x : rd_within (only_objs [d; x]) (set_imp d x).
Proof. unfold set_imp. destruct (obj_eqb d x); unfold rd, wr, only_objs; cbn [bind]; rframe. Qed.
Theorem abs_imp_reads d x : rd_within (only_objs [d; x]) (abs_imp d x).
Proof. unfold abs_imp, set_imp. destruct (obj_eqb d x); unfold rd, wr, only_objs; cbn [bind]; rframe. Qed.
Theorem neg_imp_reads d x : rd_within (only_objs [d; x]) (neg_imp d x).
Proof.
  unfold neg_imp, set_imp. destruct (obj_eqb d x); unfold rd, wr, only_objs; cbn [bind]; rframe;
    match goal with |- context [if ?b then _ else _] => destruct b end; cbn [bind]; rframe.
Qed.
